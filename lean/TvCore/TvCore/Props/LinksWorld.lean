import TvCore.Proofs.LinksWorldLemmas
import TvCore.Proofs.LinksWorldC03
import TvCore.Proofs.LinksWorldC14
/-
  C08 / C03 / C14 END TO END — on the World operations the replay driver runs (`applyStep`).

  The property theorems of `Props/C08.lean`, `C03.lean`, `C14.lean` are about the `Link` state machine.
  Here they are lifted to whole worlds: what `Topology::deliver_messages` (`deliverTo`, run by the
  `turn` step at the start of a host's turn) can return after an arbitrary sequence of steps — host
  calls of any kind, destructors (crash / bounce), controller calls, the step clock.

  ## 1. the bridge (helpers in `Proofs/LinksWorld{Defs,Ops,Steps,Lemmas}.lean`)

  * `LW.step_link`: for every step `st`, world `w` and link `li` (state `l`),
    `(applyStep w st).links[li]? = some (grun w.cfg.link l ops).1` for a list `ops` of link operations
    (`GOp`: `enq` = `Link.enqueue`, `tick` = `Link.tick`, `drain` = `Link.drain`, `ctl c` = the `Link`
    function of a controller call) that satisfies `LW.StepOps w li l ops st`:
      - `stepBegin` ticks every link once, to `w.now + ceilMs tick` (`stepEnd` does not touch links);
      - `turn h` drains the links of which `h` is an end point (`Link.drain`, in table order), each
        followed by the RST replies the host hands back, enqueued on the same link;
      - `link op x y`, `host _ (.net op x y)`, `linkPairs`, `deliver`, `deliverAll` run exactly the
        corresponding `Link` function on exactly the link `findLink` returns for the pair;
      - every other host call, `crash`, `bounce` only run `Link.enqueue`, between the link's end points;
      - `register`, DNS, `stepEnd`, loopback deliveries leave every existing link alone.
  * `LW.step_frame`: no step writes the configuration; the oracle queue only loses a prefix; links are
    never removed; the topology clock moves only at `stepBegin`.
  * `LW.turnStep_out` / `LW.deliverTo_out`: the envelopes a turn returns are, link by link in table
    order, `LW.handed w li (.turn h)` = the link's whole deliverable queue towards `h`.
  * `LW.linkEnqueue_spec`: `World.linkEnqueue` is `Link.enqueue` with the oracle's coins and delay.

  Vocabulary: `run w sts` (fold of `applyStep`), `trail w sts` (each step with the world it is applied
  to), `handedOn li w sts` (everything link `li` hands to hosts during the run, in order),
  `Touches w x y li` (`findLink` of the two hosts' ip numbers is `li`).  Messages are identified by the
  ghost number `Sent.id`; `LW.never_duplicated` shows that is sound in every run.

  ## what is proved here
  2. C08: `held_nothing_delivered` (+ `_syntactic`, `held_only_matured`, `held_nothing_at_all`,
     `held_not_inflight`, `hold_establishes_world`, `endsHold_exact`), `release_delivers_all_once_in_order`
     and `manual_delivers_exactly_one` (immediate-maturity case: the call, then the next `stepBegin`),
     `never_duplicated` (every run).
  3. C03 (variant `Cfg.fixed`): `partitioned_never_delivered`, `partitioned_send_refused`,
     `inflight_dropped`, `inflight_dropped_twoway`, `other_links_unaffected`, `ctl_ops_empty_elsewhere`.
  4. C14: `send_scheduled`, `not_delivered_early`, `matures_at_tick`, `waits_until_handed`,
     `handed_at_turn`, combined in `healthy_delivered_in_window`; `equal_latency_fifo`; `matured_run`,
     `run_now`, `LW.clockOK_run` discharge the clock / queue hypotheses for reachable worlds.
  The repair of F-C08-1 / F-C03-2 (`Link.fixMatured`): the theorems here hold for both variants (hypotheses
  `ReadyOK`, `RecallsOn` say where the variant matters); the variant-specific ones are in
  `Props/LinksMatured.lean`.
  Not done: the release theorem for an arbitrary interleaving of steps between `release` and the next
  clock tick (only conservation — `never_duplicated`, `waits_until_handed` — is general).
-/
namespace TV.LinksWorld
open TV TV.World TV.LW

/-! ## 2. C08 at World level -/

/-- **Which steps end a hold on link `li`** (in world `w`): a link-control call other than `hold` —
    `release`, `partition`, `partition_oneway`, `repair`, `repair_oneway`; from the `Sim` handle, from
    host code, or over host sets — on a pair of hosts joined by this link, and a manual delivery
    (`SentRef::deliver` of an existing position, `deliver_all` of a non-empty queue) on it.  Nothing
    else: no send, no destructor, no clock tick, no random coin. -/
def EndsHold (w : World) (li : Nat) : Step → Prop
  | .link op x y => op ≠ .hold ∧ Touches w x y li
  | .linkPairs op xs ys => op ≠ .hold ∧ ∃ p ∈ pairList xs ys, Touches w p.1 p.2 li
  | .deliver x y i => Touches w x y li ∧ ∃ l, w.links[li]? = some l ∧ i < l.sent.length
  | .deliverAll x y => Touches w x y li ∧ ∃ l, w.links[li]? = some l ∧ l.sent ≠ []
  | .host _ hop =>
      match hop with
      | .net op x y => op ≠ .hold ∧ Touches w x y li
      | _ => False
  | _ => False

theorem ctlOps_holdOk (w : World) (li : Nat) (op : NetCtl) (x y : Nat) (h : ¬ (op ≠ .hold ∧ Touches w x y li)) :
    ∀ o ∈ ctlOps w li (ctlOf op) x y, HoldOk o := by
  intro o ho
  unfold ctlOps at ho
  split at ho
  · rename_i ht
    simp only [List.mem_singleton] at ho
    subst ho
    have : op = .hold := by
      apply Classical.byContradiction
      intro hne
      exact h ⟨hne, ht⟩
    subst this
    exact trivial
  · cases ho

/-- one step that does not end the hold keeps the link held, appends new sends to the in-flight queue
    and hands out only what was already deliverable. -/
theorem held_step (cfg : Cfg) (w : World) (st : Step) (li : Nat) (l : Link Env) (ops : List GOp)
    (hh : C08.Held l) (hq : ReadyOK l) (hl : w.links[li]? = some l) (hs : StepOps w li l ops st) (hno : ¬ EndsHold w li st) :
    HeldRel l (grun cfg l ops).1 (grun cfg l ops).2 := by
  cases st with
  | host h hop =>
    cases hop
    case net c a b =>
      have h' : ops = ctlOps w li (ctlOf c) a b := hs
      subst h'
      exact held_grun cfg hh hq _ (ctlOps_holdOk w li c a b hno)
    all_goals exact held_grun cfg hh hq _ (fun o ho => isSend_holdOk ((hs : Sends w l ops) o ho).1)
  | crash h => exact held_grun cfg hh hq _ (fun o ho => isSend_holdOk ((hs : Sends w l ops) o ho).1)
  | bounce h => exact held_grun cfg hh hq _ (fun o ho => isSend_holdOk ((hs : Sends w l ops) o ho).1)
  | register ip c => have h' : ops = [] := hs; subst h'; exact HeldRel.refl hh
  | dns n => have h' : ops = [] := hs; subst h'; exact HeldRel.refl hh
  | stepEnd => have h' : ops = [] := hs; subst h'; exact HeldRel.refl hh
  | loDeliver a b => have h' : ops = [] := hs; subst h'; exact HeldRel.refl hh
  | stepBegin =>
    have h' : ops = [.tick (w.now + ceilMs w.cfg.tick)] := hs
    subst h'
    exact held_grun cfg hh hq _ (fun o ho => by simp only [List.mem_singleton] at ho; subst ho; exact trivial)
  | turn h =>
    obtain ⟨replies, hrep, he⟩ := hs
    subst he
    apply held_grun cfg hh hq
    intro o ho
    split at ho
    · rcases List.mem_cons.mp ho with e | ho
      · subst e; exact trivial
      · exact isReply_holdOk (hrep o ho).1
    · cases ho
  | link op x y =>
    have h' : ops = ctlOps w li (ctlOf op) x y := hs
    subst h'
    exact held_grun cfg hh hq _ (ctlOps_holdOk w li op x y hno)
  | linkPairs op xs ys =>
    have h' : ops = (pairList xs ys).flatMap (fun p => ctlOps w li (ctlOf op) p.1 p.2) := hs
    subst h'
    apply held_grun cfg hh hq
    intro o ho
    obtain ⟨p, hp, hop⟩ := List.mem_flatMap.mp ho
    exact ctlOps_holdOk w li op p.1 p.2 (fun hc => hno ⟨hc.1, p, hp, hc.2⟩) o hop
  | deliver x y i =>
    have h' : ops = ctlOps w li (fun _ _ => .manual i) x y := hs
    subst h'
    unfold ctlOps
    split
    · rename_i ht
      have hge : l.sent.length ≤ i := by
        apply Nat.le_of_not_lt
        intro hlt
        exact hno ⟨ht, l, hl, hlt⟩
      rw [grun_single]
      show HeldRel l (l.manualDeliver i) []
      rw [manual_ge l i hge]
      exact HeldRel.refl hh
    · exact HeldRel.refl hh
  | deliverAll x y =>
    have h' : ops = if Touches w x y li then (List.range l.sent.length).map (fun i => GOp.ctl (.manual i)) else [] := hs
    subst h'
    split
    · rename_i ht
      have he : l.sent = [] := by
        apply Classical.byContradiction
        intro hne
        exact hno ⟨ht, l, hl, hne⟩
      rw [he]
      exact HeldRel.refl hh
    · exact HeldRel.refl hh

/-- **C08, nothing is delivered while the hold lasts** (every model variant, every coin and delay).
    Link `li` is held in world `w` (both directions `Hold`, every in-flight message `Hold` — what
    `ctlHold` establishes, see `hold_establishes_world`).  Then for EVERY sequence of steps none of
    which ends the hold on this link (`EndsHold`):
    * the link is still held afterwards, and its in-flight queue is the old one with the messages sent
      during the run appended — in either direction, held, in send order;
    * what the link handed to hosts during the run (`handedOn`: the link's share of every
      `deliver_messages` of the run) together with what still waits in its two deliverable queues is a
      permutation of what waited in the deliverable queues when the run began.
    So no message that was in flight at the hold, and no message sent while the hold lasts, is handed
    to a host; a host can only still receive a message that had already matured (left the in-flight
    queue for the destination's deliverable queue) before the hold was imposed — `hold()` does not
    touch that queue in the tree before the repair of F-C08-1 (`fixMatured = false`; `Link::hold` only
    walked `self.sent`).  With the repair `hold` recalls the ready messages, both ready queues are empty
    for as long as the hold lasts (hypothesis and conclusion `ReadyOK`; `readyOK_hold`), and nothing at all
    is handed over: `LinksMatured.held_nothing_handed_fixed`. -/
theorem held_nothing_delivered (w : World) (li : Nat) (l : Link Env) (hl : w.links[li]? = some l)
    (hh : C08.Held l) (hq : ReadyOK l) (sts : List Step) (hno : ∀ p ∈ trail w sts, ¬ EndsHold p.1 li p.2) :
    ∃ l', (run w sts).links[li]? = some l' ∧ C08.Held l' ∧ (∃ new, l'.sent = l.sent ++ new) ∧
      (l'.toA ++ l'.toB ++ handedOn li w sts).Perm (l.toA ++ l.toB) ∧ ReadyOK l' ∧ l'.fixMatured = l.fixMatured := by
  obtain ⟨l', h1, h2, h3⟩ := run_inv li w (fun _ l' H => HeldRel l l' H ∧ l'.fixMatured = l.fixMatured)
    (fun w st => ¬ EndsHold w li st)
    (fun w' st lk ops H _ _ hA hlk hs _ hj => by
      have hqk : ReadyOK lk := hj.1.readyOK hj.2 hq
      have := held_step w'.cfg.link w' st li lk ops hj.1.held hqk hlk hs hA
      rw [stepOps_out _ w' li lk ops st hlk hs] at this
      exact ⟨hj.1.trans this, (grun_flag _ _ _).trans hj.2⟩)
    sts l hl hno ⟨HeldRel.refl hh, rfl⟩
  exact ⟨l', h1, h2.held, h2.sent, h2.queues, h2.readyOK h3 hq, h3⟩

/-- … in particular everything handed over during the hold had matured before it. -/
theorem held_only_matured (w : World) (li : Nat) (l : Link Env) (hl : w.links[li]? = some l)
    (hh : C08.Held l) (hq : ReadyOK l) (sts : List Step) (hno : ∀ p ∈ trail w sts, ¬ EndsHold p.1 li p.2) :
    ∀ x ∈ handedOn li w sts, x ∈ l.toA ∨ x ∈ l.toB := by
  obtain ⟨l', _, _, _, hp, _⟩ := held_nothing_delivered w li l hl hh hq sts hno
  intro x hx
  have : x ∈ l.toA ++ l.toB := hp.subset (by simp [hx])
  simpa using this

/-- … and when nothing was waiting in the deliverable queues at the hold, NOTHING travelling on this
    link is handed to either host for as long as the hold lasts. -/
theorem held_nothing_at_all (w : World) (li : Nat) (l : Link Env) (hl : w.links[li]? = some l)
    (hh : C08.Held l) (hA : l.toA = []) (hB : l.toB = []) (sts : List Step)
    (hno : ∀ p ∈ trail w sts, ¬ EndsHold p.1 li p.2) : handedOn li w sts = [] := by
  obtain ⟨l', _, _, _, hp, _⟩ := held_nothing_delivered w li l hl hh (fun _ => ⟨hA, hB⟩) sts hno
  rw [hA, hB] at hp
  have h1 := hp.length_eq
  simp only [List.append_nil, List.length_append, List.length_nil] at h1
  exact List.eq_nil_of_length_eq_zero (by omega)

/-- `hold(x, y)` — from the `Sim` handle — on a pair joined by link `li` establishes `Held` on it
    (and the same holds for `host _ (.net .hold x y)`, which is the same function). -/
theorem hold_establishes_world (w : World) (x y li : Nat) (l : Link Env) (hl : w.links[li]? = some l)
    (ht : Touches w x y li) :
    (applyStep w (.link .hold x y)).links[li]? = some l.hold ∧ C08.Held l.hold := by
  have := (lx_netCtl .hold w x y li).link l hl
  unfold ctlOps at this
  rw [if_pos ht, grun_single] at this
  exact ⟨this, C08.hold_establishes l⟩

/-- a purely syntactic sufficient condition: the step is no link-control call other than `hold` (on any
    link) and no manual delivery. -/
def isLinkCtl : Step → Bool
  | .link op _ _ => op != .hold
  | .linkPairs op _ _ => op != .hold
  | .deliver _ _ _ => true
  | .deliverAll _ _ => true
  | .host _ hop =>
      match hop with
      | .net op _ _ => op != .hold
      | _ => false
  | _ => false

theorem not_endsHold_of_syntactic (w : World) (li : Nat) (st : Step) (h : isLinkCtl st = false) : ¬ EndsHold w li st := by
  cases st with
  | link op x y => intro hc; simp only [isLinkCtl, bne_eq_false_iff_eq] at h; exact hc.1 h
  | linkPairs op xs ys => intro hc; simp only [isLinkCtl, bne_eq_false_iff_eq] at h; exact hc.1 h
  | deliver x y i => simp [isLinkCtl] at h
  | deliverAll x y => simp [isLinkCtl] at h
  | host hh hop =>
    cases hop
    case net op x y => intro hc; simp only [isLinkCtl, bne_eq_false_iff_eq] at h; exact hc.1 h
    all_goals exact fun hc => hc
  | _ => exact fun hc => hc

theorem mem_trail_step (w : World) (sts : List Step) (p : World × Step) (h : p ∈ trail w sts) : p.2 ∈ sts := by
  induction sts generalizing w with
  | nil => cases h
  | cons st sts ih =>
    simp only [trail, List.mem_cons] at h
    rcases h with rfl | h
    · simp
    · simp [ih _ h]

/-- `held_nothing_delivered` under the syntactic condition. -/
theorem held_nothing_delivered_syntactic (w : World) (li : Nat) (l : Link Env) (hl : w.links[li]? = some l)
    (hh : C08.Held l) (hq : ReadyOK l) (sts : List Step) (hno : ∀ st ∈ sts, isLinkCtl st = false) :
    ∃ l', (run w sts).links[li]? = some l' ∧ C08.Held l' ∧ (∃ new, l'.sent = l.sent ++ new) ∧
      (l'.toA ++ l'.toB ++ handedOn li w sts).Perm (l.toA ++ l.toB) ∧ ReadyOK l' ∧ l'.fixMatured = l.fixMatured :=
  held_nothing_delivered w li l hl hh hq sts
    (fun p hp => not_endsHold_of_syntactic p.1 li p.2 (hno p.2 (mem_trail_step w sts p hp)))

/-- the steps that are `release(x, y)`: from the `Sim` handle or from host code. -/
def IsCtlStep (op : NetCtl) (x y : Nat) (st : Step) : Prop :=
  st = .link op x y ∨ ∃ h, st = .host h (.net op x y)

theorem ctlStep_link (w : World) (op : NetCtl) (x y li : Nat) (l : Link Env) (st : Step) (hst : IsCtlStep op x y st)
    (hl : w.links[li]? = some l) (ht : Touches w x y li) :
    (applyStep w st).links[li]? = some ((ctlOf op (w.host! x).ipnum (w.host! y).ipnum).fn l).1 ∧
    (applyStep w st).now = w.now ∧ (applyStep w st).cfg = w.cfg := by
  have h1 := (lx_netCtl op w x y li)
  have e : applyStep w st = op.apply w x y := by
    rcases hst with rfl | ⟨h, rfl⟩ <;> rfl
  rw [e]
  refine ⟨?_, h1.now, h1.cfg⟩
  have := h1.link l hl
  unfold ctlOps at this
  rw [if_pos ht, grun_single] at this
  exact this

/-- **C08, release delivers everything exactly once, in order** (immediate-maturity case: the
    `release` is followed by the next step's clock tick — what `Sim::step` begins with).  Link `li` is
    held in `w` and its clock is not ahead of the topology clock (`ClockOK`, an invariant of every run
    from a world without links: `clockOK_run`).  After `release(x, y)` on a pair joined by the link
    (from the `Sim` handle or from host code) and `stepBegin`:
    * nothing is in flight on the link any more and both directions are healthy;
    * each deliverable queue is what it was, followed by EVERY held message of that destination — each
      exactly once, in the order of the in-flight queue (= send order), the messages unchanged but for
      their delivery status;
    * the next turn of a host hands it exactly its queue (`Link.drain`). -/
theorem release_delivers_all_once_in_order (w : World) (x y li : Nat) (l : Link Env) (st : Step)
    (hst : IsCtlStep .release x y st) (hl : w.links[li]? = some l) (hh : C08.Held l) (ht : Touches w x y li)
    (hclock : l.now ≤ w.now) :
    ∃ l2, (run w [st, .stepBegin]).links[li]? = some l2 ∧ l2.sent = [] ∧
      l2.stAB = .healthy ∧ l2.stBA = .healthy ∧ l2.a = l.a ∧ l2.b = l.b ∧
      l2.toA.map noStatus = (l.toA ++ l.sent.filter (fun s => s.dst == l.a)).map noStatus ∧
      l2.toB.map noStatus = (l.toB ++ l.sent.filter (fun s => s.dst != l.a)).map noStatus ∧
      ∀ h, handed (run w [st, .stepBegin]) li (.turn h) = (l2.drain ((run w [st, .stepBegin]).host! h).ipnum).2 := by
  obtain ⟨h1, h2, h3⟩ := ctlStep_link w .release x y li l st hst hl ht
  have e2 := (stepBegin_spec (applyStep w st)).2.2.2.2.2 li
  rw [h1] at e2
  simp only [Option.map_some] at e2
  have hnow : l.now ≤ (applyStep w st).now + ceilMs (applyStep w st).cfg.tick := by rw [h2]; omega
  obtain ⟨r1, r2, r3, r4, r5, r6, r7⟩ := release_tick_queues hh _ hnow
  refine ⟨_, e2, r1, r4, r5, r6, r7, r2, r3, fun h => ?_⟩
  show handedAt _ li _ = _
  unfold handedAt
  have e3 : (run w [st, .stepBegin]).links[li]? = _ := e2
  rw [e3]

/-- **C08, manual delivery** (`SentRef::deliver` through the links iterator, position `i` of the
    in-flight queue of a held link, then the next step's clock tick): exactly that message is moved to
    its destination's queue — once; every other message stays in flight, held, in order. -/
theorem manual_delivers_exactly_one (w : World) (x y li i : Nat) (l : Link Env)
    (hl : w.links[li]? = some l) (hh : C08.Held l) (ht : Touches w x y li) (hi : i < l.sent.length)
    (hclock : l.now ≤ w.now) :
    ∃ l2, (run w [.deliver x y i, .stepBegin]).links[li]? = some l2 ∧
      l2.sent.map (·.id) = (l.sent.eraseIdx i).map (·.id) ∧ (∀ s ∈ l2.sent, s.status = .hold) ∧
      (l2.toA ++ l2.toB).map (·.id) =
        (if (l.sent[i]).dst = l.a then (l.toA.map (·.id) ++ [(l.sent[i]).id]) ++ l.toB.map (·.id)
         else (l.toA.map (·.id) ++ l.toB.map (·.id)) ++ [(l.sent[i]).id]) := by
  have h1 := lx_onLink w x y li (.manual i)
  have e1 := h1.link l hl
  rw [if_pos ht, grun_single] at e1
  have e1' : (applyStep w (.deliver x y i)).links[li]? = some (l.manualDeliver i) := e1
  have e2 := (stepBegin_spec (applyStep w (.deliver x y i))).2.2.2.2.2 li
  rw [e1'] at e2
  simp only [Option.map_some] at e2
  have hnow : l.now ≤ (applyStep w (.deliver x y i)).now + ceilMs (applyStep w (.deliver x y i)).cfg.tick := by
    have : (applyStep w (.deliver x y i)).now = w.now := h1.now
    rw [this]; omega
  obtain ⟨m1, m2, m3⟩ := C08.manual_exactly_one hh i hi _ hnow
  exact ⟨_, e2, m1, m2, m3⟩

/-! ### non-vacuity (C08): a concrete world built with the model's own steps -/

/-- two hosts (ip numbers 1, 2; link 0), each with a UDP socket on port 9000; host 0 sends "ab" with a
    latency of 5 ns, so it is in flight when … -/
def exPre : List Step :=
  [ .register 1 false, .register 2 false,
    .host 0 (.udpBind 0 ⟨.any, 9000⟩), .host 1 (.udpBind 0 ⟨.any, 9000⟩),
    .host 0 (.udpSend 0 ⟨.host 1, 9000⟩ "ab") ]
def exW0 : World := run { oracle := [.fail false, .delay 5, .fail false, .delay 7] } exPre
/-- … the link is held. -/
def exW : World := applyStep exW0 (.link .hold 0 1)
def exL : Link Env := exW.links.getD 0 default

/-- during the hold: host 1 sends "cd" to host 0, two steps pass, both hosts take their turns twice. -/
def exHeld : List Step :=
  [ .host 1 (.udpSend 0 ⟨.host 0, 9000⟩ "cd"), .stepBegin, .turn 0, .turn 1, .stepEnd, .stepBegin, .turn 0, .turn 1 ]

/-- the hypotheses of `held_nothing_delivered` / `held_nothing_at_all` / `hold_establishes_world` hold:
    the pair is joined by link 0, the link is held with one message in flight, no step ends the hold. -/
example : Touches exW0 0 1 0 ∧ exW.links[0]? = some exL ∧ C08.Held exL ∧ ReadyOK exL ∧ exL.sent.map (·.id) = [0] ∧
    exL.toA = [] ∧ exL.toB = [] ∧ (∀ st ∈ exHeld, isLinkCtl st = false) :=
  ⟨by decide, by rfl, ⟨by decide, by decide, by decide⟩, fun _ => ⟨by decide, by decide⟩, by decide, by decide, by decide,
   by decide⟩
/-- … and the conclusion is what happens: nothing is handed over, both messages are in flight, held. -/
example : handedOn 0 exW exHeld = [] ∧
    ((run exW exHeld).links[0]?).map (fun l => l.sent.map (fun s => (s.id, s.status))) =
      some [(0, .hold), (1, .hold)] := by decide

def exW1 : World := run exW exHeld
def exL1 : Link Env := exW1.links.getD 0 default
/-- the hypotheses of `release_delivers_all_once_in_order` and `manual_delivers_exactly_one`: held link
    with two messages in flight, the pair (in either order) joined by it, clocks in step. -/
example : IsCtlStep .release 1 0 (.link .release 1 0) ∧ exW1.links[0]? = some exL1 ∧ C08.Held exL1 ∧
    Touches exW1 1 0 0 ∧ exL1.now ≤ exW1.now ∧ 1 < exL1.sent.length :=
  ⟨Or.inl rfl, by rfl, ⟨by decide, by decide, by decide⟩, by decide, by decide, by decide⟩
/-- … after `release` and the next clock tick host 0 is handed "cd" (id 1) and host 1 "ab" (id 0). -/
example : (handedOn 0 (run exW1 [.link .release 1 0, .stepBegin]) [.turn 0, .turn 1]).map (fun s => (s.id, s.msg.msg)) =
    [(1, .udp "cd"), (0, .udp "ab")] := by decide
/-- … after the manual delivery of position 1 only "cd" arrives, "ab" stays held. -/
example : (handedOn 0 (run exW1 [.deliver 0 1 1, .stepBegin]) [.turn 0, .turn 1]).map (fun s => (s.id, s.msg.msg)) =
    [(1, .udp "cd")] ∧
    ((run exW1 [.deliver 0 1 1, .stepBegin, .turn 0, .turn 1]).links[0]?).map (fun l => l.sent.map (fun s => (s.id, s.status))) =
      some [(0, .hold)] := by decide

/-- Why `held_nothing_delivered` speaks of the deliverable queues: a datagram sent with zero latency is
    moved to the destination's deliverable queue by the `process_deliverables` at the end of the very
    `enqueue_message` that sent it; a `hold` imposed afterwards (before the receiver's next turn) does
    not touch it (`Link::hold` walks `self.sent` only), and the receiver is handed it during the hold. -/
example :
    let w := run { oracle := [.fail false, .delay 0] } (exPre ++ [.link .hold 0 1])
    (w.links[0]?).map (fun l => (l.stAB, l.sent.length, l.toB.map (·.id))) = some (.hold, 0, [0]) ∧
    (handedOn 0 w [.stepBegin, .turn 1]).map (·.id) = [0] := by decide

/-! ## 3. C03 at World level (repaired random process `Cfg.fixed` — the committed `top.rs`) -/

/-- steps outside the C03 alphabet with respect to link `li`: `hold`, `release`, manual delivery on a
    pair joined by it (the crate documents combining hold with partitions as unsupported). -/
def UsesHold (w : World) (li : Nat) : Step → Prop
  | .link op x y => (op = .hold ∨ op = .release) ∧ Touches w x y li
  | .linkPairs op xs ys => (op = .hold ∨ op = .release) ∧ ∃ p ∈ pairList xs ys, Touches w p.1 p.2 li
  | .deliver x y _ => Touches w x y li
  | .deliverAll x y => Touches w x y li
  | .host _ hop =>
      match hop with
      | .net op x y => (op = .hold ∨ op = .release) ∧ Touches w x y li
      | _ => False
  | _ => False

/-- the ip numbers of a pair joined by link `li` are its two end points. -/
theorem touches_dir (w : World) (x y li : Nat) (l : Link Env) (hl : w.links[li]? = some l) (hlt : l.a < l.b)
    (ht : Touches w x y li) :
    ((w.host! x).ipnum = l.a ∧ (w.host! y).ipnum = l.b) ∨ ((w.host! x).ipnum = l.b ∧ (w.host! y).ipnum = l.a) := by
  apply findLink_dir w _ _ li l ?_ ht hl
  intro e
  obtain ⟨ha, hb⟩ := findLink_ends w _ _ li l ht hl
  rw [e] at ha hb
  simp at ha hb
  omega

theorem ctlOps_c03Ok (w : World) (li : Nat) (l : Link Env) (hl : w.links[li]? = some l) (hlt : l.a < l.b)
    (op : NetCtl) (x y : Nat) (h : ¬ ((op = .hold ∨ op = .release) ∧ Touches w x y li)) :
    ∀ o ∈ ctlOps w li (ctlOf op) x y, C03Ok l.a l.b o := by
  intro o ho
  unfold ctlOps at ho
  split at ho
  · rename_i ht
    simp only [List.mem_singleton] at ho
    subst ho
    have hd := touches_dir w x y li l hl hlt ht
    cases op with
    | partition => exact trivial
    | repair => exact trivial
    | partitionOneway => exact hd
    | repairOneway => exact hd
    | hold => exact absurd ⟨Or.inl rfl, ht⟩ h
    | release => exact absurd ⟨Or.inr rfl, ht⟩ h
  · cases ho

theorem c03_step (w : World) (st : Step) (li : Nat) (l : Link Env) (ops : List GOp)
    (hi : Inv2 l) (hl : w.links[li]? = some l) (hs : StepOps w li l ops st) (hno : ¬ UsesHold w li st) :
    ∀ o ∈ ops, C03Ok l.a l.b o := by
  have hlt := hi.inv.wf.lt
  cases st with
  | host h hop =>
    cases hop
    case net c a b =>
      have h' : ops = ctlOps w li (ctlOf c) a b := hs
      subst h'
      exact ctlOps_c03Ok w li l hl hlt c a b hno
    all_goals exact fun o ho => isSend_c03Ok ((hs : Sends w l ops) o ho).1
  | crash h => exact fun o ho => isSend_c03Ok ((hs : Sends w l ops) o ho).1
  | bounce h => exact fun o ho => isSend_c03Ok ((hs : Sends w l ops) o ho).1
  | register ip c => have h' : ops = [] := hs; subst h'; exact fun _ ho => by cases ho
  | dns n => have h' : ops = [] := hs; subst h'; exact fun _ ho => by cases ho
  | stepEnd => have h' : ops = [] := hs; subst h'; exact fun _ ho => by cases ho
  | loDeliver a b => have h' : ops = [] := hs; subst h'; exact fun _ ho => by cases ho
  | stepBegin =>
    have h' : ops = [.tick (w.now + ceilMs w.cfg.tick)] := hs
    subst h'
    exact fun o ho => by simp only [List.mem_singleton] at ho; subst ho; exact trivial
  | turn h =>
    obtain ⟨replies, hq, he⟩ := hs
    subst he
    intro o ho
    split at ho
    · rcases List.mem_cons.mp ho with e | ho
      · subst e; exact trivial
      · refine isReply_c03Ok ?_ (hq o ho).1
        intro x hx
        rcases drain_sub l _ x hx with hx | hx
        · exact hi.dir x (Or.inr (Or.inl hx))
        · exact hi.dir x (Or.inr (Or.inr hx))
    · cases ho
  | link op x y =>
    have h' : ops = ctlOps w li (ctlOf op) x y := hs
    subst h'
    exact ctlOps_c03Ok w li l hl hlt op x y hno
  | linkPairs op xs ys =>
    have h' : ops = (pairList xs ys).flatMap (fun p => ctlOps w li (ctlOf op) p.1 p.2) := hs
    subst h'
    intro o ho
    obtain ⟨p, hp, hop⟩ := List.mem_flatMap.mp ho
    exact ctlOps_c03Ok w li l hl hlt op p.1 p.2 (fun hc => hno ⟨hc.1, p, hp, hc.2⟩) o hop
  | deliver x y i =>
    have h' : ops = ctlOps w li (fun _ _ => .manual i) x y := hs
    subst h'
    intro o ho
    unfold ctlOps at ho
    split at ho
    · rename_i ht; exact absurd ht hno
    · cases ho
  | deliverAll x y =>
    have h' : ops = if Touches w x y li then (List.range l.sent.length).map (fun i => GOp.ctl (.manual i)) else [] := hs
    subst h'
    intro o ho
    split at ho
    · rename_i ht; exact absurd ht hno
    · cases ho

/-- **C03, never delivered** (variant: `cfg.link = Cfg.fixed`, the repaired random process = the
    committed `top.rs`; the unrepaired variant violates the statement already on one link,
    `C03.witness_rand_overrides_explicit`).  Link `li` satisfies the link invariant `Inv2` (true of every
    freshly registered link with distinct end points, `inv2_init`; it says in particular that no message
    on the link carries the ghost mark `bad` = "sent while its direction was explicitly partitioned").
    Then for EVERY sequence of steps that does not hold / release / hand-deliver on this link — all
    host calls, crashes, partitions and repairs (one- and two-way, from anywhere), clock ticks, every
    fail / repair coin and delay the oracle queue may hold — no message handed to a host by this link
    was sent while its direction was explicitly partitioned; and the invariant still holds, so the
    statement iterates.  (`enqueue_partitioned_refused`: such a message is not even queued.) -/
theorem partitioned_never_delivered (w : World) (li : Nat) (l : Link Env) (hcfg : w.cfg.link = Cfg.fixed)
    (hl : w.links[li]? = some l) (hi : Inv2 l) (sts : List Step) (hno : ∀ p ∈ trail w sts, ¬ UsesHold p.1 li p.2) :
    (∀ x ∈ handedOn li w sts, x.bad = false) ∧ ∃ l', (run w sts).links[li]? = some l' ∧ Inv2 l' := by
  obtain ⟨l', h1, h2⟩ := run_inv li w (fun _ l' H => Inv2 l' ∧ ∀ x ∈ H, x.bad = false) (fun w st => ¬ UsesHold w li st)
    (fun w' st lk ops H hc _ hA hlk hs _ hj => by
      have hc' : w'.cfg.link = Cfg.fixed := by rw [hc]; exact hcfg
      rw [hc']
      have hok := c03_step w' st li lk ops hj.1 hlk hs hA
      have := inv2_grun hj.1 ops hok
      rw [stepOps_out _ w' li lk ops st hlk hs] at this
      refine ⟨this.1, fun x hx => ?_⟩
      rcases List.mem_append.mp hx with hx | hx
      · exact hj.2 x hx
      · exact this.2 x hx)
    sts l hl hno ⟨hi, fun _ hx => by cases hx⟩
  exact ⟨h2.2, l', h1, h2.1⟩

/-- **the ghost mark is what it says, and a marked message is never queued**: `World.linkEnqueue` on a
    link whose direction `s → d` is explicitly partitioned (`exFor`, set by `partition` /
    `partition_oneway`, cleared by `repair` / `repair_oneway`) leaves on the link only messages that were
    on it before — whatever the coins and the delay. -/
theorem partitioned_send_refused (w : World) (li s d : Nat) (e : Env) (l : Link Env) (hcfg : w.cfg.link = Cfg.fixed)
    (hl : w.links[li]? = some l) (hi : Inv2 l) (hex : l.exFor s d = true) :
    ∃ l', (w.linkEnqueue li s d e).links[li]? = some l' ∧
      ∀ x, (x ∈ l'.sent ∨ x ∈ l'.toA ∨ x ∈ l'.toB) → (x ∈ l.sent ∨ x ∈ l.toA ∨ x ∈ l.toB) := by
  obtain ⟨cr, dl, hlinks, _⟩ := linkEnqueue_spec w li s d e l hl
  refine ⟨_, by rw [hlinks, C03Sets.getElem?_setAt_self, hl]; rfl, ?_⟩
  rw [hcfg]
  exact enqueue_partitioned_refused hi.inv _ cr dl s d e hex

/-- **C03, in-flight messages are dropped** — one-way: after `partition_oneway(x, y)` (from the `Sim`
    handle or from host code) on a pair joined by link `li`, no message from `x` is in flight on the
    link any more; the messages of the reverse direction stay (in order), the reverse direction keeps
    its state.  The ready queues: untouched in the tree before the repair of F-C03-2
    (`fixMatured = false`); with the repair the ready queue of the destination `y` is emptied too and the
    other one (the reverse direction's) is untouched. -/
theorem inflight_dropped (w : World) (x y li : Nat) (l : Link Env) (st : Step)
    (hst : IsCtlStep .partitionOneway x y st) (hl : w.links[li]? = some l) (hlt : l.a < l.b) (ht : Touches w x y li) :
    ∃ l', (applyStep w st).links[li]? = some l' ∧
      (∀ m ∈ l'.sent, m.src ≠ (w.host! x).ipnum) ∧
      l'.sent = l.sent.filter (fun m => m.src != (w.host! x).ipnum) ∧
      l'.stateFor (w.host! x).ipnum (w.host! y).ipnum = .explicit ∧
      l'.exFor (w.host! x).ipnum (w.host! y).ipnum = true ∧
      l'.stateFor (w.host! y).ipnum (w.host! x).ipnum = l.stateFor (w.host! y).ipnum (w.host! x).ipnum ∧
      (l.fixMatured = false → l'.toA = l.toA ∧ l'.toB = l.toB) ∧
      (l.fixMatured = true →
        ((w.host! y).ipnum = l.a → l'.toA = [] ∧ l'.toB = l.toB) ∧ ((w.host! y).ipnum = l.b → l'.toA = l.toA ∧ l'.toB = [])) := by
  obtain ⟨h1, _, _⟩ := ctlStep_link w .partitionOneway x y li l st hst hl ht
  refine ⟨_, h1, ?_⟩
  have hd := touches_dir w x y li l hl hlt ht
  have hnlt : ¬ l.b < l.a := Nat.not_lt.mpr (Nat.le_of_lt hlt)
  have hne : (l.b == l.a) = false := by simpa using (Nat.ne_of_gt hlt)
  have hne' : l.a ≠ l.b := Nat.ne_of_lt hlt
  show (∀ m ∈ (l.partitionOneway _ _).1.sent, _) ∧ (l.partitionOneway _ _).1.sent = _ ∧ _
  rcases hd with ⟨e1, e2⟩ | ⟨e1, e2⟩ <;> rw [e1, e2] <;> cases hf : l.fixMatured <;>
    simp [ctlOf, Ctl.fn, Link.partitionOneway, Link.clearReady, Link.stateFor, Link.exFor, hlt, hnlt, hf, hne, hne', hne'.symm]

/-- … two-way: `partition(x, y)` discards everything in flight on the link, in both directions; with the
    repair of F-C03-2 also both ready queues (without it they are untouched). -/
theorem inflight_dropped_twoway (w : World) (x y li : Nat) (l : Link Env) (st : Step)
    (hst : IsCtlStep .partition x y st) (hl : w.links[li]? = some l) (ht : Touches w x y li) :
    ∃ l', (applyStep w st).links[li]? = some l' ∧ l'.sent = [] ∧ l'.stAB = .explicit ∧ l'.stBA = .explicit ∧
      (l.fixMatured = false → l'.toA = l.toA ∧ l'.toB = l.toB) ∧ (l.fixMatured = true → l'.toA = [] ∧ l'.toB = []) := by
  obtain ⟨h1, _, _⟩ := ctlStep_link w .partition x y li l st hst hl ht
  obtain ⟨_, _, es, e1, e2, _⟩ := Link.explicitPartition_fields l
  refine ⟨_, h1, es, e1, e2, ?_, ?_⟩
  · intro hf
    show l.explicitPartition.1.toA = l.toA ∧ l.explicitPartition.1.toB = l.toB
    unfold Link.explicitPartition
    rw [hf]
    exact ⟨rfl, rfl⟩
  · intro hf
    show l.explicitPartition.1.toA = [] ∧ l.explicitPartition.1.toB = []
    unfold Link.explicitPartition
    rw [hf]
    exact ⟨rfl, rfl⟩

/-- **C03 / C08, other links are unaffected**: a link-control call (any of the six, from the `Sim` handle
    or from host code), a manual delivery or `deliver_all` on a pair joined by link `li` leaves every
    other link exactly as it was — state, in-flight queue, deliverable queues, clock. -/
theorem other_links_unaffected (w : World) (x y li lj : Nat) (ht : Touches w x y li) (hne : lj ≠ li) :
    (∀ op st, IsCtlStep op x y st → (applyStep w st).links[lj]? = w.links[lj]?) ∧
    (∀ i, (applyStep w (.deliver x y i)).links[lj]? = w.links[lj]?) ∧
    (applyStep w (.deliverAll x y)).links[lj]? = w.links[lj]? := by
  have hnt : ¬ Touches w x y lj := by
    intro h
    unfold Touches at h ht
    rw [ht] at h
    exact hne (Option.some.inj h).symm
  refine ⟨?_, ?_, ?_⟩
  · intro op st hst
    have e : applyStep w st = op.apply w x y := by
      rcases hst with rfl | ⟨h, rfl⟩ <;> rfl
    rw [e, netCtl_apply, (onLink_spec w x y _).2.2.2.2.2 lj, if_neg hnt]
  · intro i
    show (w.onLink x y (Ctl.manual i).fn).links[lj]? = _
    rw [(onLink_spec w x y _).2.2.2.2.2 lj, if_neg hnt]
  · show (ctlDeliverAll w x y).links[lj]? = _
    unfold ctlDeliverAll
    rw [(onLink_spec w x y _).2.2.2.2.2 lj, if_neg hnt]

/-- … and a send on one link leaves every other link alone (`WorldLinks.linkEnqueue_other`); in the
    vocabulary of this file: whatever a step does to link `lj` is listed by `StepOps w lj`, and for the
    calls on a pair not joined by `lj` that list is empty. -/
theorem ctl_ops_empty_elsewhere (w : World) (x y li lj : Nat) (ht : Touches w x y li) (hne : lj ≠ li)
    (c : Nat → Nat → Ctl) : ctlOps w lj c x y = [] := by
  unfold ctlOps
  rw [if_neg]
  intro h
  unfold Touches at h ht
  rw [ht] at h
  exact hne (Option.some.inj h).symm

/-! ### non-vacuity (C03) -/

def exOra : List Ora := [.fail false, .delay 5, .fail true, .fail false, .repair, .delay 3, .fail false, .delay 2]
def exCfg : WCfg := { link := Cfg.fixed }
/-- repaired random process; two hosts with a UDP socket each. -/
def exC : World := run { cfg := exCfg, oracle := exOra }
  [ .register 1 false, .register 2 false, .host 0 (.udpBind 0 ⟨.any, 9000⟩), .host 1 (.udpBind 0 ⟨.any, 9000⟩) ]
def exCsteps : List Step :=
  [ .host 0 (.udpSend 0 ⟨.host 1, 9000⟩ "ab"),          -- in flight (delay 5)
    .link .partitionOneway 0 1,                          -- "ab" is discarded
    .host 0 (.udpSend 0 ⟨.host 1, 9000⟩ "cd"),          -- fail coin up: the reverse direction fails randomly; "cd" refused
    .host 1 (.udpSend 0 ⟨.host 0, 9000⟩ "xy"),          -- repair coin up: the reverse direction heals; "xy" travels
    .link .repairOneway 0 1,
    .host 0 (.udpSend 0 ⟨.host 1, 9000⟩ "ef"),          -- travels again
    .stepBegin, .turn 0, .turn 1 ]

theorem not_usesHold_of_syntactic (w : World) (li : Nat) (st : Step)
    (h : match st with
         | .link op _ _ => op ≠ .hold ∧ op ≠ .release
         | .linkPairs op _ _ => op ≠ .hold ∧ op ≠ .release
         | .deliver _ _ _ => False
         | .deliverAll _ _ => False
         | .host _ (.net op _ _) => op ≠ .hold ∧ op ≠ .release
         | _ => True) : ¬ UsesHold w li st := by
  cases st with
  | link op x y => exact fun hc => hc.1.elim h.1 h.2
  | linkPairs op xs ys => exact fun hc => hc.1.elim h.1 h.2
  | deliver x y i => exact h.elim
  | deliverAll x y => exact h.elim
  | host hh hop =>
    cases hop
    case net op x y => exact fun hc => hc.1.elim h.1 h.2
    all_goals exact fun hc => hc
  | _ => exact fun hc => hc

/-- the hypotheses of `partitioned_never_delivered`: repaired variant, a fresh link (invariant
    `inv2_init`), a run inside the alphabet — with a fail coin and a repair coin coming up in it. -/
example : exC.cfg.link = Cfg.fixed ∧ exC.links[0]? = some ({ a := 1, b := 2, now := 0, fixMatured := true } : Link Env) ∧
    Inv2 ({ a := 1, b := 2, now := 0, fixMatured := true } : Link Env) ∧ (∀ p ∈ trail exC exCsteps, ¬ UsesHold p.1 0 p.2) := by
  refine ⟨rfl, by rfl, inv2_init 1 2 0 (by decide) true, ?_⟩
  intro p hp
  have := mem_trail_step exC exCsteps p hp
  apply not_usesHold_of_syntactic
  simp only [exCsteps, List.mem_cons, List.not_mem_nil, or_false] at this
  rcases this with h | h | h | h | h | h | h | h | h <;> rw [h] <;> simp
/-- … what arrives: "xy" and "ef", none marked; "ab" (in flight at the partition) and "cd" (sent across
    it) never do. -/
example : (handedOn 0 exC exCsteps).map (fun s => (s.id, s.bad, s.msg.msg)) =
    [(2, false, .udp "xy"), (3, false, .udp "ef")] := by decide
/-- `inflight_dropped` / `partitioned_send_refused`: the pair is joined by link 0 with distinct end
    points; after the one-way partition the direction's ghost flag is set and nothing is in flight. -/
example : Touches (run exC (exCsteps.take 1)) 0 1 0 ∧
    ((run exC (exCsteps.take 1)).links[0]?).map (fun l => (decide (l.a < l.b), l.sent.map (·.id))) = some (true, [0]) ∧
    ((run exC (exCsteps.take 2)).links[0]?).map (fun l => (l.exFor 1 2, l.sent.map (·.id))) = some (true, []) := by
  decide

/-! ## exactly once: no message is ever handed over twice (all three properties) -/

/-- **never duplicated** (every model variant, EVERY sequence of steps — no restriction at all): if the
    message numbers on link `li` are pairwise distinct and below the link's counter (`IdsOK`, true of a
    freshly registered link: `idsOK_init`), then the numbers of all messages the link ever hands to hosts
    are pairwise distinct, and distinct from those still on the link; the invariant persists. -/
theorem never_duplicated (w : World) (li : Nat) (l : Link Env) (hl : w.links[li]? = some l) (hid : IdsOK l [])
    (sts : List Step) :
    ((handedOn li w sts).map (·.id)).Nodup ∧
    ∃ l', (run w sts).links[li]? = some l' ∧ IdsOK l' (handedOn li w sts) := by
  obtain ⟨l', h1, h2⟩ := run_inv li w (fun _ l' H => IdsOK l' H) (fun _ _ => True)
    (fun w' st lk ops H _ _ _ hlk hs _ hj => by
      have := idsOK_grun w'.cfg.link hj ops
      rw [stepOps_out _ w' li lk ops st hlk hs] at this
      exact this)
    sts l hl (fun _ _ => trivial) hid
  exact ⟨(List.nodup_append.mp h2.nodup).2.1, l', h1, h2⟩

/-- … so, during a hold, a message handed to a host is none of those that were in flight at the hold
    (and none sent later: those carry numbers `≥ nextId`, the handed ones `< nextId`). -/
theorem held_not_inflight (w : World) (li : Nat) (l : Link Env) (hl : w.links[li]? = some l)
    (hh : C08.Held l) (hq : ReadyOK l) (hid : IdsOK l []) (sts : List Step) (hno : ∀ p ∈ trail w sts, ¬ EndsHold p.1 li p.2) :
    ∀ x ∈ handedOn li w sts, x.id ∉ l.sent.map (·.id) ∧ x.id < l.nextId := by
  intro x hx
  have hm := held_only_matured w li l hl hh hq sts hno x hx
  have hnd : (l.sent.map (·.id) ++ (l.toA ++ l.toB).map (·.id)).Nodup := by
    have := hid.nodup
    simpa [C08.ids, List.append_assoc] using this
  have hmem : x.id ∈ (l.toA ++ l.toB).map (·.id) := by
    rcases hm with hm | hm
    · exact List.mem_map.mpr ⟨x, by simp [hm], rfl⟩
    · exact List.mem_map.mpr ⟨x, by simp [hm], rfl⟩
  refine ⟨fun hs => (List.nodup_append.mp hnd).2.2 _ hs _ hmem rfl, hid.lt _ ?_⟩
  have : x.id ∈ l.sent.map (·.id) ++ (l.toA ++ l.toB).map (·.id) := List.mem_append_right _ hmem
  simpa [C08.ids, List.append_assoc] using this

/-! ## 4. C14 at World level -/

/-- a link-control call or manual delivery on a pair joined by link `li`. -/
def CtlOn (w : World) (li : Nat) : Step → Prop
  | .link _ x y => Touches w x y li
  | .linkPairs _ xs ys => ∃ p ∈ pairList xs ys, Touches w p.1 p.2 li
  | .deliver x y _ => Touches w x y li
  | .deliverAll x y => Touches w x y li
  | .host _ hop =>
      match hop with
      | .net _ x y => Touches w x y li
      | _ => False
  | _ => False

theorem ctlOps_nil_of_not (w : World) (li : Nat) (c : Nat → Nat → Ctl) (x y : Nat) (h : ¬ Touches w x y li) :
    ctlOps w li c x y = [] := by unfold ctlOps; rw [if_neg h]

theorem isSend_flowOk {a b : Nat} {o : GOp} (h : IsSend a b o) : FlowOk o := by
  cases o <;> simp [IsSend, FlowOk] at h ⊢
theorem isReply_flowOk {ms : List (Sent Env)} {o : GOp} (h : IsReply ms o) : FlowOk o := by
  cases o <;> simp [IsReply, FlowOk] at h ⊢

/-- a step that is no controller call on the link only sends, ticks and drains; with no failure coin
    in the oracle queue no send draws one. -/
theorem flow_step (w : World) (st : Step) (li : Nat) (l : Link Env) (ops : List GOp)
    (hs : StepOps w li l ops st) (hno : ¬ CtlOn w li st) (hnf : C09.NoFailCoin w) :
    ∀ o ∈ ops, FlowOk o ∧ o.noFail := by
  cases st with
  | host h hop =>
    cases hop
    case net c a b =>
      have h' : ops = ctlOps w li (ctlOf c) a b := hs
      rw [h', ctlOps_nil_of_not w li _ a b hno]
      exact fun _ ho => by cases ho
    all_goals exact fun o ho => ⟨isSend_flowOk ((hs : Sends w l ops) o ho).1, ((hs : Sends w l ops) o ho).2 hnf⟩
  | crash h => exact fun o ho => ⟨isSend_flowOk ((hs : Sends w l ops) o ho).1, ((hs : Sends w l ops) o ho).2 hnf⟩
  | bounce h => exact fun o ho => ⟨isSend_flowOk ((hs : Sends w l ops) o ho).1, ((hs : Sends w l ops) o ho).2 hnf⟩
  | register ip c => have h' : ops = [] := hs; subst h'; exact fun _ ho => by cases ho
  | dns n => have h' : ops = [] := hs; subst h'; exact fun _ ho => by cases ho
  | stepEnd => have h' : ops = [] := hs; subst h'; exact fun _ ho => by cases ho
  | loDeliver a b => have h' : ops = [] := hs; subst h'; exact fun _ ho => by cases ho
  | stepBegin =>
    have h' : ops = [.tick (w.now + ceilMs w.cfg.tick)] := hs
    subst h'
    exact fun o ho => by simp only [List.mem_singleton] at ho; subst ho; exact ⟨trivial, trivial⟩
  | turn h =>
    obtain ⟨replies, hq, he⟩ := hs
    subst he
    intro o ho
    split at ho
    · rcases List.mem_cons.mp ho with e | ho
      · subst e; exact ⟨trivial, trivial⟩
      · exact ⟨isReply_flowOk (hq o ho).1, (hq o ho).2 hnf⟩
    · cases ho
  | link op x y =>
    have h' : ops = ctlOps w li (ctlOf op) x y := hs
    rw [h', ctlOps_nil_of_not w li _ x y hno]
    exact fun _ ho => by cases ho
  | linkPairs op xs ys =>
    have h' : ops = (pairList xs ys).flatMap (fun p => ctlOps w li (ctlOf op) p.1 p.2) := hs
    subst h'
    intro o ho
    obtain ⟨p, hp, hop⟩ := List.mem_flatMap.mp ho
    rw [ctlOps_nil_of_not w li _ p.1 p.2 (fun ht => hno ⟨p, hp, ht⟩)] at hop
    cases hop
  | deliver x y i =>
    have h' : ops = ctlOps w li (fun _ _ => .manual i) x y := hs
    rw [h', ctlOps_nil_of_not w li _ x y hno]
    exact fun _ ho => by cases ho
  | deliverAll x y =>
    have h' : ops = if Touches w x y li then (List.range l.sent.length).map (fun i => GOp.ctl (.manual i)) else [] := hs
    have hno' : ¬ Touches w x y li := hno
    rw [h', if_neg hno']
    exact fun _ ho => by cases ho

/-- the end points of a link never change. -/
theorem run_ends (w : World) (li : Nat) (l : Link Env) (hl : w.links[li]? = some l) (sts : List Step) :
    ∃ l', (run w sts).links[li]? = some l' ∧ l'.a = l.a ∧ l'.b = l.b ∧ l'.fixMatured = l.fixMatured := by
  obtain ⟨l', h1, h2⟩ := run_inv li w (fun _ l' _ => l'.a = l.a ∧ l'.b = l.b ∧ l'.fixMatured = l.fixMatured) (fun _ _ => True)
    (fun w' st lk ops H _ _ _ _ _ _ hj =>
      ⟨(grun_ab w'.cfg.link lk ops).1.trans hj.1, (grun_ab w'.cfg.link lk ops).2.trans hj.2.1,
       (grun_flag w'.cfg.link lk ops).trans hj.2.2⟩)
    sts l hl (fun _ _ => trivial) ⟨rfl, rfl, rfl⟩
  exact ⟨l', h1, h2⟩

theorem run_cfg (w : World) (sts : List Step) : (run w sts).cfg = w.cfg := by
  induction sts generalizing w with
  | nil => rfl
  | cons st sts ih => rw [run_cons, ih, (step_frame w st).cfg]

/-- **the deliverable queues only ever hold matured messages** (every step sequence): an invariant, with
    "link clock = topology clock", of every run. -/
theorem matured_run (w : World) (li : Nat) (l : Link Env) (hl : w.links[li]? = some l) (hm : Matured l)
    (hclk : l.now = w.now) (sts : List Step) :
    ∃ l', (run w sts).links[li]? = some l' ∧ Matured l' ∧ l'.now = (run w sts).now := by
  obtain ⟨l', h1, h2⟩ := run_inv li w (fun w' l' _ => Matured l' ∧ l'.now = w'.now) (fun _ _ => True)
    (fun w' st lk ops H _ _ _ hlk hst _ hj => by
      obtain ⟨j1, j2⟩ := hj
      by_cases hsb : st = .stepBegin
      · subst hsb
        have h' : ops = [.tick (w'.now + ceilMs w'.cfg.tick)] := hst
        subst h'
        rw [grun_single]
        exact ⟨(matured_gstep w'.cfg.link j1 _ (fun n e => by cases e; omega)).1, ((step_frame w' .stepBegin).now).symm⟩
      · have hnt := stepOps_noTick w' li lk ops st hsb hst
        have hnow' : (applyStep w' st).now = w'.now := by
          rw [(step_frame w' st).now]; cases st <;> first | rfl | exact absurd rfl hsb
        exact ⟨(matured_grun_noTick w'.cfg.link j1 ops hnt).1, by rw [grun_now _ _ _ hnt, j2, hnow']⟩)
    sts l hl (fun _ _ => trivial) ⟨hm, hclk⟩
  exact ⟨l', h1, h2.1, h2.2⟩

/-- **C14, not before the deadline.**  A message `x` in flight on link `li` with deadline `T`
    (`status = after T`), link clock = topology clock, deliverable queues matured (both invariants of
    every run: `clockOK_run`, `matured_run`), no failure coin in the oracle queue.  Then over EVERY
    sequence of steps without a controller call on this link, as long as the topology clock is still
    before `T` at its end: `x` is still in flight, and every message the link handed to a host meanwhile
    had a deadline before `T` — `x` was not handed over. -/
theorem not_delivered_early (w : World) (li : Nat) (l : Link Env) (x : Sent Env) (T : Nat)
    (hl : w.links[li]? = some l) (hm : Matured l) (hclk : l.now = w.now) (hx : x ∈ l.sent) (hs : x.status = .after T)
    (hnf : C09.NoFailCoin w) (sts : List Step) (hq : ∀ p ∈ trail w sts, ¬ CtlOn p.1 li p.2)
    (hnow : (run w sts).now < T) :
    ∃ l', (run w sts).links[li]? = some l' ∧ x ∈ l'.sent ∧ Matured l' ∧ l'.now = (run w sts).now ∧
      ∀ y ∈ handedOn li w sts, (∃ t, y.status = .after t ∧ t < T) ∧ y ≠ x := by
  obtain ⟨l', h1, h2, h3, h4⟩ := run_inv li w
    (fun w' l' H => Matured l' ∧ l'.now = w'.now ∧ (w'.now < T → x ∈ l'.sent ∧ ∀ y ∈ H, ∃ t, y.status = .after t ∧ t < T))
    (fun w st => ¬ CtlOn w li st)
    (fun w' st lk ops H _ hora hA hlk hst he hj => by
      obtain ⟨j1, j2, j3⟩ := hj
      have hflow := flow_step w' st li lk ops hst hA (noFail_suffix hora hnf)
      have hout := stepOps_out w'.cfg.link w' li lk ops st hlk hst
      by_cases hsb : st = .stepBegin
      · subst hsb
        have h' : ops = [.tick (w'.now + ceilMs w'.cfg.tick)] := hst
        subst h'
        have hnow' : (applyStep w' .stepBegin).now = w'.now + ceilMs w'.cfg.tick := (step_frame w' .stepBegin).now
        rw [grun_single]
        have hmat := matured_gstep w'.cfg.link j1 (.tick (w'.now + ceilMs w'.cfg.tick)) (fun n e => by cases e; omega)
        refine ⟨hmat.1, hnow'.symm, fun hlt => ?_⟩
        have hlt0 : w'.now < T := by omega
        obtain ⟨k1, k2⟩ := j3 hlt0
        refine ⟨stays_gstep w'.cfg.link k1 hs _ trivial trivial (by show w'.now + ceilMs w'.cfg.tick < T; omega), ?_⟩
        simpa [handed] using k2
      · have hnt := stepOps_noTick w' li lk ops st hsb hst
        have hnow' : (applyStep w' st).now = w'.now := by
          rw [(step_frame w' st).now]; cases st <;> first | rfl | exact absurd rfl hsb
        have hmat := matured_grun_noTick w'.cfg.link j1 ops hnt
        refine ⟨hmat.1, by rw [grun_now _ _ _ hnt, j2, hnow'], fun hlt => ?_⟩
        rw [hnow'] at hlt
        obtain ⟨k1, k2⟩ := j3 hlt
        refine ⟨stays_grun_noTick w'.cfg.link k1 hs ops (fun o ho => ⟨(hflow o ho).1, (hflow o ho).2, hnt o ho⟩) (by rw [j2]; exact hlt), ?_⟩
        intro y hy
        rcases List.mem_append.mp hy with hy | hy
        · exact k2 y hy
        · rw [← hout] at hy
          obtain ⟨t, t1, t2⟩ := hmat.2 y hy
          exact ⟨t, t1, by rw [j2] at t2; omega⟩)
    sts l hl hq ⟨hm, hclk, fun _ => ⟨hx, fun _ hy => by cases hy⟩⟩
  obtain ⟨k1, k2⟩ := h4 hnow
  refine ⟨l', h1, k1, h2, h3, fun y hy => ⟨k2 y hy, fun e => ?_⟩⟩
  obtain ⟨t, t1, t2⟩ := k2 y hy
  rw [e, hs] at t1
  cases t1
  exact Nat.lt_irrefl _ t2

/-- **C14, at the deadline.**  The `stepBegin` whose new clock value reaches the deadline moves the message
    into the deliverable queue of its destination. -/
theorem matures_at_tick (w : World) (li : Nat) (l : Link Env) (x : Sent Env) (T : Nat)
    (hl : w.links[li]? = some l) (hx : x ∈ l.sent) (hs : x.status = .after T) (hT : T ≤ w.now + ceilMs w.cfg.tick) :
    ∃ l', (applyStep w .stepBegin).links[li]? = some l' ∧ inQueue l' x ∧ l'.a = l.a ∧ l'.b = l.b := by
  have e := (stepBegin_spec w).2.2.2.2.2 li
  rw [hl] at e
  exact ⟨_, e, moves_on_tick hx hs _ hT, rfl, rfl⟩

/-- steps that take messages out of the ready queues of link `li` when it carries the repair of
    F-C08-1 / F-C03-2: `hold`, `partition`, `partition_oneway` on a pair joined by it. -/
def RecallsOn (w : World) (li : Nat) : Step → Prop
  | .link op x y => (op = .hold ∨ op = .partition ∨ op = .partitionOneway) ∧ Touches w x y li
  | .linkPairs op xs ys => (op = .hold ∨ op = .partition ∨ op = .partitionOneway) ∧ ∃ p ∈ pairList xs ys, Touches w p.1 p.2 li
  | .host _ hop =>
      match hop with
      | .net op x y => (op = .hold ∨ op = .partition ∨ op = .partitionOneway) ∧ Touches w x y li
      | _ => False
  | _ => False

theorem ctlOps_noRecall (w : World) (li : Nat) (op : NetCtl) (x y : Nat)
    (h : ¬ ((op = .hold ∨ op = .partition ∨ op = .partitionOneway) ∧ Touches w x y li)) :
    ∀ o ∈ ctlOps w li (ctlOf op) x y, ¬ RecallOp o := by
  intro o ho
  unfold ctlOps at ho
  split at ho
  · rename_i ht
    simp only [List.mem_singleton] at ho
    subst ho
    cases op with
    | hold => exact absurd ⟨Or.inl rfl, ht⟩ h
    | partition => exact absurd ⟨Or.inr (Or.inl rfl), ht⟩ h
    | partitionOneway => exact absurd ⟨Or.inr (Or.inr rfl), ht⟩ h
    | _ => exact fun hc => hc
  · cases ho

theorem isSend_noRecall {a b : Nat} {o : GOp} (h : IsSend a b o) : ¬ RecallOp o := by
  cases o <;> simp [IsSend, RecallOp] at h ⊢
theorem isReply_noRecall {ms : List (Sent Env)} {o : GOp} (h : IsReply ms o) : ¬ RecallOp o := by
  cases o <;> simp [IsReply, RecallOp] at h ⊢

theorem noRecall_step (w : World) (st : Step) (li : Nat) (l : Link Env) (ops : List GOp)
    (hs : StepOps w li l ops st) (hno : ¬ RecallsOn w li st) : ∀ o ∈ ops, ¬ RecallOp o := by
  cases st with
  | host h hop =>
    cases hop
    case net c a b =>
      have h' : ops = ctlOps w li (ctlOf c) a b := hs
      subst h'
      exact ctlOps_noRecall w li c a b hno
    all_goals exact fun o ho => isSend_noRecall ((hs : Sends w l ops) o ho).1
  | crash h => exact fun o ho => isSend_noRecall ((hs : Sends w l ops) o ho).1
  | bounce h => exact fun o ho => isSend_noRecall ((hs : Sends w l ops) o ho).1
  | register ip c => have h' : ops = [] := hs; subst h'; exact fun _ ho => by cases ho
  | dns n => have h' : ops = [] := hs; subst h'; exact fun _ ho => by cases ho
  | stepEnd => have h' : ops = [] := hs; subst h'; exact fun _ ho => by cases ho
  | loDeliver a b => have h' : ops = [] := hs; subst h'; exact fun _ ho => by cases ho
  | stepBegin =>
    have h' : ops = [.tick (w.now + ceilMs w.cfg.tick)] := hs
    subst h'
    exact fun o ho => by simp only [List.mem_singleton] at ho; subst ho; exact fun hc => hc
  | turn h =>
    obtain ⟨replies, hq, he⟩ := hs
    subst he
    intro o ho
    split at ho
    · rcases List.mem_cons.mp ho with e | ho
      · subst e; exact fun hc => hc
      · exact isReply_noRecall (hq o ho).1
    · cases ho
  | link op x y =>
    have h' : ops = ctlOps w li (ctlOf op) x y := hs
    subst h'
    exact ctlOps_noRecall w li op x y hno
  | linkPairs op xs ys =>
    have h' : ops = (pairList xs ys).flatMap (fun p => ctlOps w li (ctlOf op) p.1 p.2) := hs
    subst h'
    intro o ho
    obtain ⟨p, hp, hop⟩ := List.mem_flatMap.mp ho
    exact ctlOps_noRecall w li op p.1 p.2 (fun hc => hno ⟨hc.1, p, hp, hc.2⟩) o hop
  | deliver x y i =>
    have h' : ops = ctlOps w li (fun _ _ => .manual i) x y := hs
    subst h'
    intro o ho
    unfold ctlOps at ho
    split at ho
    · simp only [List.mem_singleton] at ho; subst ho; exact fun hc => hc
    · cases ho
  | deliverAll x y =>
    have h' : ops = if Touches w x y li then (List.range l.sent.length).map (fun i => GOp.ctl (.manual i)) else [] := hs
    subst h'
    intro o ho
    split at ho
    · obtain ⟨i, _, rfl⟩ := List.mem_map.mp ho; exact fun hc => hc
    · cases ho

/-- **C14, waiting for the turn.**  Once in its destination's deliverable queue, a message stays there
    through EVERY sequence of steps until the link hands it to a host — in the tree before the repair of
    F-C08-1 / F-C03-2 without exception (no controller call touches the ready queues); with the repair
    (`fixMatured`) unless a `hold` recalls it or an explicit partition discards it (`RecallsOn`). -/
theorem waits_until_handed (w : World) (li : Nat) (l : Link Env) (x : Sent Env) (hl : w.links[li]? = some l)
    (hx : inQueue l x) (sts : List Step) (hsafe : l.fixMatured = true → ∀ p ∈ trail w sts, ¬ RecallsOn p.1 li p.2) :
    ∃ l', (run w sts).links[li]? = some l' ∧ l'.a = l.a ∧ l'.b = l.b ∧ (inQueue l' x ∨ x ∈ handedOn li w sts) := by
  obtain ⟨l', h1, h2, h3, _, h4⟩ := run_inv li w
    (fun _ l' H => l'.a = l.a ∧ l'.b = l.b ∧ l'.fixMatured = l.fixMatured ∧ (inQueue l' x ∨ x ∈ H))
    (fun w st => l.fixMatured = true → ¬ RecallsOn w li st)
    (fun w' st lk ops H _ _ hA hlk hst _ hj => by
      obtain ⟨j1, j2, jf, j3⟩ := hj
      have hab := grun_ab w'.cfg.link lk ops
      refine ⟨hab.1.trans j1, hab.2.trans j2, (grun_flag _ _ _).trans jf, ?_⟩
      rcases j3 with j3 | j3
      · rcases waits_grun w'.cfg.link j3 ops (fun hf => noRecall_step w' st li lk ops hst (hA (jf ▸ hf))) with k | k
        · exact Or.inl k
        · rw [stepOps_out _ w' li lk ops st hlk hst] at k
          exact Or.inr (List.mem_append_right _ k)
      · exact Or.inr (List.mem_append_left _ j3))
    sts l hl (fun p hp hf => hsafe hf p hp) ⟨rfl, rfl, rfl, Or.inl hx⟩
  exact ⟨l', h1, h2, h3, h4⟩

/-- **C14, the hand-over.**  The turn of the host the message waits for hands it over. -/
theorem handed_at_turn (w : World) (li h : Nat) (l : Link Env) (x : Sent Env) (hl : w.links[li]? = some l)
    (hx : inQueue l x) (hr : Receiver l x (w.host! h).ipnum) : x ∈ handed w li (.turn h) := by
  show x ∈ handedAt w li (w.host! h).ipnum
  unfold handedAt
  rw [hl]
  exact drain_receiver hx hr

theorem receiver_congr {l l' : Link Env} (ha : l'.a = l.a) (hb : l'.b = l.b) (x : Sent Env) (n : Nat)
    (h : Receiver l x n) : Receiver l' x n := by
  unfold Receiver at h ⊢
  rw [ha, hb]; exact h

/-- **C14, delivered within the latency window, exactly once.**  Setting: world `w` right after a send
    that queued message `x` on link `li` with deadline `t0 + d` (`t0` the topology clock at the send,
    `d` the sampled delay, `minL ≤ d ≤ maxL`: `send_scheduled`, `C14.delay_in_range`); clocks in step,
    queues matured, message numbers distinct, no failure coin in the oracle queue.  The run: `sts1` (any
    steps without a controller call on the link, clock still before the deadline at its end), the
    `stepBegin` whose tick reaches the deadline, `sts2` (ANY steps), then the turn of the host `x` waits
    for.  Then
    * `x` is not handed over during `sts1`;
    * it IS handed over — in `sts2` or at the final turn — and exactly once: its number occurs exactly
      once among the numbers of everything the link hands over in the whole run;
    * the clock value `now'` of the delivering step satisfies `t0 + d ≤ now' < t0 + d + A`
      (`A = ceilMs tick` = what the clock advances per step: it is the first step boundary at or after the
      deadline); so for a send instant `s ∈ [t0, t0 + A]` of the sender's step window the observed latency
      `now' − s` lies in `[minL − A, maxL + A]`. -/
theorem healthy_delivered_in_window (w : World) (li hb : Nat) (l : Link Env) (x : Sent Env) (t0 d minL maxL : Nat)
    (hl : w.links[li]? = some l) (hm : Matured l) (hclk : l.now = w.now) (hid : IdsOK l [])
    (hx : x ∈ l.sent) (hs : x.status = .after (t0 + d)) (hnf : C09.NoFailCoin w)
    (sts1 sts2 : List Step) (hq : ∀ p ∈ trail w sts1, ¬ CtlOn p.1 li p.2)
    (hbefore : (run w sts1).now < t0 + d) (hreach : t0 + d ≤ (run w sts1).now + ceilMs w.cfg.tick)
    (hsafe : l.fixMatured = true → ∀ p ∈ trail (run w (sts1 ++ [.stepBegin])) sts2, ¬ RecallsOn p.1 li p.2)
    (hr : Receiver l x ((run w (sts1 ++ [.stepBegin] ++ sts2)).host! hb).ipnum)
    (hd : minL ≤ d ∧ d ≤ maxL) :
    (∀ y ∈ handedOn li w sts1, y ≠ x) ∧
    x ∈ handedOn li w (sts1 ++ [.stepBegin] ++ sts2 ++ [.turn hb]) ∧
    ((handedOn li w (sts1 ++ [.stepBegin] ++ sts2 ++ [.turn hb])).map (·.id)).count x.id = 1 ∧
    (t0 + d ≤ (run w (sts1 ++ [.stepBegin])).now ∧ (run w (sts1 ++ [.stepBegin])).now < t0 + d + ceilMs w.cfg.tick) ∧
    (∀ s, t0 ≤ s → s ≤ t0 + ceilMs w.cfg.tick →
      s + minL ≤ (run w (sts1 ++ [.stepBegin])).now + ceilMs w.cfg.tick ∧
      (run w (sts1 ++ [.stepBegin])).now ≤ s + maxL + ceilMs w.cfg.tick) := by
  obtain ⟨l1, e1, x1, _, _, early⟩ := not_delivered_early w li l x (t0 + d) hl hm hclk hx hs hnf sts1 hq hbefore
  obtain ⟨l1', e1', a1, b1, f1⟩ := run_ends w li l hl sts1
  rw [e1] at e1'; cases e1'
  have hcfg1 := run_cfg w sts1
  obtain ⟨l2, e2, q2, a2, b2⟩ := matures_at_tick (run w sts1) li l1 x (t0 + d) e1 x1 hs (by rw [hcfg1]; exact hreach)
  have e2' : (run w (sts1 ++ [.stepBegin])).links[li]? = some l2 := by rw [run_append]; exact e2
  have f2 : l2.fixMatured = l.fixMatured := by
    obtain ⟨l2', e2'', _, _, f2'⟩ := run_ends w li l hl (sts1 ++ [.stepBegin])
    rw [e2'] at e2''; cases e2''; exact f2'
  obtain ⟨l3, e3, a3, b3, q3⟩ := waits_until_handed (run w (sts1 ++ [.stepBegin])) li l2 x e2' q2 sts2
    (fun hf => hsafe (f2 ▸ hf))
  have e3' : (run w (sts1 ++ [.stepBegin] ++ sts2)).links[li]? = some l3 := by rw [run_append]; exact e3
  have hr3 : Receiver l3 x ((run w (sts1 ++ [.stepBegin] ++ sts2)).host! hb).ipnum :=
    receiver_congr (a3.trans (a2.trans a1)) (b3.trans (b2.trans b1)) x _ hr
  have hmem : x ∈ handedOn li w (sts1 ++ [.stepBegin] ++ sts2 ++ [.turn hb]) := by
    rw [handedOn_append]
    rcases q3 with q3 | q3
    · refine List.mem_append_right _ ?_
      simp only [handedOn, List.append_nil]
      exact handed_at_turn _ li hb l3 x e3' q3 hr3
    · refine List.mem_append_left _ ?_
      rw [handedOn_append]
      exact List.mem_append_right _ q3
  have hnow' : (run w (sts1 ++ [.stepBegin])).now = (run w sts1).now + ceilMs w.cfg.tick := by
    rw [run_append]
    show (applyStep (run w sts1) .stepBegin).now = _
    rw [(step_frame (run w sts1) .stepBegin).now, hcfg1]
  have hnd := (never_duplicated w li l hl hid (sts1 ++ [.stepBegin] ++ sts2 ++ [.turn hb])).1
  refine ⟨fun y hy => (early y hy).2, hmem, ?_, ⟨by omega, by omega⟩, fun s h1 h2 => ⟨by omega, by omega⟩⟩
  have h1 := List.nodup_iff_count.mp hnd x.id
  have h2 := List.count_pos_iff.mpr (List.mem_map.mpr ⟨x, hmem, rfl⟩ :
    x.id ∈ (handedOn li w (sts1 ++ [.stepBegin] ++ sts2 ++ [.turn hb])).map (·.id))
  omega

/-! ### C14: FIFO -/

theorem ctlOps_c14Ok (w : World) (li : Nat) (op : NetCtl) (x y : Nat)
    (h : ¬ ((op = .hold ∨ op = .release) ∧ Touches w x y li)) : ∀ o ∈ ctlOps w li (ctlOf op) x y, C14Ok o := by
  intro o ho
  unfold ctlOps at ho
  split at ho
  · rename_i ht
    simp only [List.mem_singleton] at ho
    subst ho
    cases op with
    | hold => exact absurd ⟨Or.inl rfl, ht⟩ h
    | release => exact absurd ⟨Or.inr rfl, ht⟩ h
    | _ => exact trivial
  · cases ho

theorem isSend_c14Ok {a b : Nat} {o : GOp} (h : IsSend a b o) : C14Ok o := by
  cases o <;> simp [IsSend, C14Ok] at h ⊢
theorem isReply_c14Ok {ms : List (Sent Env)} {o : GOp} (h : IsReply ms o) : C14Ok o := by
  cases o <;> simp [IsReply, C14Ok] at h ⊢

theorem c14_step (w : World) (st : Step) (li : Nat) (l : Link Env) (ops : List GOp)
    (hs : StepOps w li l ops st) (hno : ¬ UsesHold w li st) : ∀ o ∈ ops, C14Ok o := by
  cases st with
  | host h hop =>
    cases hop
    case net c a b =>
      have h' : ops = ctlOps w li (ctlOf c) a b := hs
      subst h'
      exact ctlOps_c14Ok w li c a b hno
    all_goals exact fun o ho => isSend_c14Ok ((hs : Sends w l ops) o ho).1
  | crash h => exact fun o ho => isSend_c14Ok ((hs : Sends w l ops) o ho).1
  | bounce h => exact fun o ho => isSend_c14Ok ((hs : Sends w l ops) o ho).1
  | register ip c => have h' : ops = [] := hs; subst h'; exact fun _ ho => by cases ho
  | dns n => have h' : ops = [] := hs; subst h'; exact fun _ ho => by cases ho
  | stepEnd => have h' : ops = [] := hs; subst h'; exact fun _ ho => by cases ho
  | loDeliver a b => have h' : ops = [] := hs; subst h'; exact fun _ ho => by cases ho
  | stepBegin =>
    have h' : ops = [.tick (w.now + ceilMs w.cfg.tick)] := hs
    subst h'
    exact fun o ho => by simp only [List.mem_singleton] at ho; subst ho; exact trivial
  | turn h =>
    obtain ⟨replies, hq, he⟩ := hs
    subst he
    intro o ho
    split at ho
    · rcases List.mem_cons.mp ho with e | ho
      · subst e; exact trivial
      · exact isReply_c14Ok (hq o ho).1
    · cases ho
  | link op x y =>
    have h' : ops = ctlOps w li (ctlOf op) x y := hs
    subst h'
    exact ctlOps_c14Ok w li op x y hno
  | linkPairs op xs ys =>
    have h' : ops = (pairList xs ys).flatMap (fun p => ctlOps w li (ctlOf op) p.1 p.2) := hs
    subst h'
    intro o ho
    obtain ⟨p, hp, hop⟩ := List.mem_flatMap.mp ho
    exact ctlOps_c14Ok w li op p.1 p.2 (fun hc => hno ⟨hc.1, p, hp, hc.2⟩) o hop
  | deliver x y i =>
    have h' : ops = ctlOps w li (fun _ _ => .manual i) x y := hs
    have hno' : ¬ Touches w x y li := hno
    rw [h', ctlOps_nil_of_not w li _ x y hno']
    exact fun _ ho => by cases ho
  | deliverAll x y =>
    have h' : ops = if Touches w x y li then (List.range l.sent.length).map (fun i => GOp.ctl (.manual i)) else [] := hs
    have hno' : ¬ Touches w x y li := hno
    rw [h', if_neg hno']
    exact fun _ ho => by cases ho

/-- **C14, equal latencies arrive in order** (`C14.fifo` end to end; both model variants, every coin and
    delay, partitions and repairs included).  Link `li` satisfies the FIFO invariant (`FifoInv`; true of a
    freshly registered link, `fifo_init`).  Over EVERY sequence of steps that does not hold / release /
    hand-deliver on this link: among everything the link has handed to one host — and what still waits in
    that host's deliverable queue — a message never comes after a later-sent one (larger number) unless
    its own deadline (`key`) was strictly later.  So messages of one direction with equal latencies
    (deadline = clock at the send + delay; the clock never goes back) are handed over in send order. -/
theorem equal_latency_fifo (w : World) (li : Nat) (l : Link Env) (hl : w.links[li]? = some l)
    (hi : FifoInv l.a l []) (sts : List Step) (hno : ∀ p ∈ trail w sts, ¬ UsesHold p.1 li p.2) :
    ∃ l', (run w sts).links[li]? = some l' ∧ FifoInv l.a l' (handedOn li w sts) ∧
      ∀ m1 m2 : Sent Env,
        ([m2, m1].Sublist ((handedOn li w sts).filter (fun y => y.dst != l.a) ++ l'.toB) ∨
         [m2, m1].Sublist ((handedOn li w sts).filter (fun y => y.dst == l.a) ++ l'.toA)) →
        m1.id < m2.id → Link.key m1 ≤ Link.key m2 → False := by
  obtain ⟨l', h1, h2⟩ := run_inv li w (fun _ l' H => FifoInv l.a l' H) (fun w st => ¬ UsesHold w li st)
    (fun w' st lk ops H _ _ hA hlk hs _ hj => by
      have := fifo_grun w'.cfg.link hj ops (c14_step w' st li lk ops hs hA)
      rw [stepOps_out _ w' li lk ops st hlk hs] at this
      exact this)
    sts l hl hno hi
  refine ⟨l', h1, h2, ?_⟩
  intro m1 m2 hsub hid hkey
  have hinv := h2.finv
  rcases hsub with hsub | hsub
  · have := (hinv.seqB.sublist hsub)
    simp only [List.pairwise_cons, List.mem_singleton, forall_eq] at this
    have := this.1 hid
    omega
  · have := (hinv.seqA.sublist hsub)
    simp only [List.pairwise_cons, List.mem_singleton, forall_eq] at this
    have := this.1 hid
    omega

/-! ### C14: the send -/

theorem randStep_nofail_healthy (cfg : Cfg) (l : Link Env) (cr : Bool) (s d : Nat) (h : l.stateFor s d = .healthy) :
    (Link.randStep cfg l false cr).1.stateFor s d = .healthy ∧ (Link.randStep cfg l false cr).1.now = l.now ∧
    (Link.randStep cfg l false cr).1.nextId = l.nextId := by
  unfold Link.randStep
  simp only [Bool.and_false, Bool.false_eq_true, if_false]
  by_cases hfix : cfg.fixRand = true
  · simp only [hfix, if_true]
    by_cases hr : (l.anyRand && cr) = true
    · rw [if_pos hr]
      refine ⟨?_, rfl, rfl⟩
      unfold Link.stateFor at h ⊢
      split
      · rename_i hlt; rw [if_pos hlt] at h; simp [h]
      · rename_i hlt; rw [if_neg hlt] at h; simp [h]
    · rw [if_neg hr]; exact ⟨h, rfl, rfl⟩
  · simp only [hfix, Bool.false_eq_true, if_false]
    by_cases hr : (l.anyRand && cr) = true
    · rw [if_pos hr]
      refine ⟨?_, rfl, rfl⟩
      unfold Link.stateFor Link.release
      split <;> rfl
    · rw [if_neg hr]; exact ⟨h, rfl, rfl⟩

/-- **C14, a healthy send is scheduled** (`C14.healthy_send_scheduled` end to end): `enqueue_message` on
    link `li` in a direction that is healthy, with no failure coin in the oracle queue, creates a message
    carrying the envelope, the link's next number, and the deadline `clock + dl` — `dl` the delay the
    oracle supplies (inside the configured latency range: `C14.delay_in_range`) — and puts it on the link:
    in flight, or (only possible when `dl = 0`) straight into the destination's deliverable queue. -/
theorem send_scheduled (w : World) (li s d : Nat) (e : Env) (l : Link Env) (hl : w.links[li]? = some l)
    (hh : l.stateFor s d = .healthy) (hnf : C09.NoFailCoin w) :
    ∃ (dl : Nat) (l' : Link Env) (x : Sent Env), (w.linkEnqueue li s d e).links[li]? = some l' ∧
      x.msg = e ∧ x.src = s ∧ x.dst = d ∧ x.id = l.nextId ∧ x.status = .after (l.now + dl) ∧
      (x ∈ l'.sent ∨ inQueue l' x) ∧ (0 < dl → x ∈ l'.sent) := by
  obtain ⟨cr, dl, hlinks, _⟩ := linkEnqueue_spec w li s d e l hl
  rw [(C09.noFail_popFail w hnf).1] at hlinks
  obtain ⟨r1, r2, r3⟩ := randStep_nofail_healthy w.cfg.link l cr s d hh
  obtain ⟨x, hx1, hx2, hx3, hx4, _⟩ := C14.healthy_send_scheduled (Link.randStep w.cfg.link l false cr).1 dl s d e r1
  have hsrc : x.src = s ∧ x.dst = d := by
    have : x ∈ ((Link.randStep w.cfg.link l false cr).1.enqueueRaw dl s d e).1.sent := by rw [hx1]; simp
    unfold Link.enqueueRaw at this
    simp only [r1, List.mem_append, List.mem_singleton] at this
    rcases this with hm | rfl
    · -- an older message with the same fields cannot be told apart; take the appended one
      have e2 : (Link.randStep w.cfg.link l false cr).1.sent ++ [x] = (Link.randStep w.cfg.link l false cr).1.sent ++
          [({ src := s, dst := d, status := .after ((Link.randStep w.cfg.link l false cr).1.now + dl), msg := e,
              id := (Link.randStep w.cfg.link l false cr).1.nextId,
              bad := (Link.randStep w.cfg.link l false cr).1.exFor s d,
              sentAt := (Link.randStep w.cfg.link l false cr).1.now, delay := dl } : Sent Env)] := by
        rw [← hx1]; unfold Link.enqueueRaw; simp only [r1]
      have := List.append_cancel_left e2
      simp only [List.cons.injEq, and_true] at this
      rw [this]; exact ⟨rfl, rfl⟩
    · exact ⟨rfl, rfl⟩
  have hxm : x ∈ ((Link.randStep w.cfg.link l false cr).1.enqueueRaw dl s d e).1.sent := by rw [hx1]; simp
  have hn : ((Link.randStep w.cfg.link l false cr).1.enqueueRaw dl s d e).1.now = (Link.randStep w.cfg.link l false cr).1.now :=
    (enqueueRaw_queues _ dl s d e).2.2
  have hp := process_mem hxm
  refine ⟨dl, _, x, by rw [hlinks, C03Sets.getElem?_setAt_self, hl]; rfl, hx2, hsrc.1, hsrc.2, by rw [hx4, r3],
    by rw [hx3, r2], hp.1, fun hpos => hp.2 ?_⟩
  rw [hn]
  exact unmatured_of_lt hx3 (by omega)

/-- the number of clock ticks in a run, and the clock after it: `t0 + k·A`. -/
def ticksIn (sts : List Step) : Nat := (sts.filter (fun st => match st with | .stepBegin => true | _ => false)).length

theorem run_now (w : World) (sts : List Step) : (run w sts).now = w.now + ticksIn sts * ceilMs w.cfg.tick := by
  induction sts generalizing w with
  | nil => simp [ticksIn]
  | cons st sts ih =>
    rw [run_cons, ih, (step_frame w st).now, (step_frame w st).cfg]
    cases st <;> simp [ticksIn, Nat.add_mul, Nat.add_assoc, Nat.add_comm]

/-! ### non-vacuity (C14, exactly-once, FIFO) -/

/-- the two hosts of `exPre`; host 0's datagram "ab" is sent at clock 0 with a sampled delay of 2.5 ms
    (tick 1 ms): deadline 2.5 ms, so it is handed over in the step whose clock is 3 ms. -/
def exD : World := run { oracle := [.fail false, .delay 2500000] } exPre
def exDL : Link Env := exD.links.getD 0 default
def exDx : Sent Env := exDL.sent.getD 0 default
/-- two full steps (clock 2 ms), … -/
def exS1 : List Step := [.stepBegin, .turn 0, .turn 1, .stepEnd, .stepBegin, .turn 0, .turn 1, .stepEnd]
/-- … the third `stepBegin` (clock 3 ms), the sender's turn, then the receiver's. -/
def exS2 : List Step := [.turn 0]

/-- every hypothesis of `healthy_delivered_in_window` / `not_delivered_early` / `matures_at_tick` holds. -/
example : exD.links[0]? = some exDL ∧ Matured exDL ∧ exDL.now = exD.now ∧ IdsOK exDL [] ∧
    exDx ∈ exDL.sent ∧ exDx.status = .after (0 + 2500000) ∧ C09.NoFailCoin exD ∧
    (∀ p ∈ trail exD exS1, ¬ CtlOn p.1 0 p.2) ∧
    (run exD exS1).now < 0 + 2500000 ∧ 0 + 2500000 ≤ (run exD exS1).now + ceilMs exD.cfg.tick ∧
    Receiver exDL exDx ((run exD (exS1 ++ [.stepBegin] ++ exS2)).host! 1).ipnum := by
  refine ⟨by rfl, ?_, by decide, ⟨by decide, by decide⟩, by decide, by decide, by unfold C09.NoFailCoin; decide, ?_,
    by decide, by decide, by unfold Receiver; decide⟩
  · have e : exDL.toA = [] ∧ exDL.toB = [] := by decide
    intro y hy
    rw [e.1, e.2] at hy
    rcases hy with hy | hy <;> cases hy
  · intro p hp
    have := mem_trail_step exD exS1 p hp
    simp only [exS1, List.mem_cons, List.not_mem_nil, or_false] at this
    rcases this with h | h | h | h | h | h | h | h <;> rw [h] <;> exact fun hc => hc
/-- … and the conclusion is what happens: nothing before the third step, "ab" at the receiver's turn in it. -/
example : handedOn 0 exD (exS1 ++ [.stepBegin] ++ exS2) = [] ∧
    (handedOn 0 exD (exS1 ++ [.stepBegin] ++ exS2 ++ [.turn 1])).map (fun s => (s.id, s.msg.msg)) = [(0, .udp "ab")] ∧
    (run exD (exS1 ++ [.stepBegin])).now = 3000000 := by decide
/-- `send_scheduled`: the direction is healthy and the oracle holds no failure coin before the send. -/
example :
    let w := run { oracle := [.fail false, .delay 2500000] } (exPre.take 4)
    (w.links[0]?).map (fun l => l.stateFor 1 2) = some .healthy ∧ C09.NoFailCoin w := by
  refine ⟨by decide, by unfold C09.NoFailCoin; decide⟩
/-- `never_duplicated`, `equal_latency_fifo`, `partitioned_never_delivered`: a freshly registered link
    satisfies the three link invariants. -/
example : exC.links[0]? = some ({ a := 1, b := 2, now := 0, fixMatured := true } : Link Env) ∧
    IdsOK ({ a := 1, b := 2, now := 0, fixMatured := true } : Link Env) [] ∧ FifoInv 1 ({ a := 1, b := 2, now := 0, fixMatured := true } : Link Env) [] ∧
    Matured ({ a := 1, b := 2, now := 0, fixMatured := true } : Link Env) :=
  ⟨by rfl, idsOK_init 1 2 0 true, fifo_init 1 2 0 true, fun y hy => by rcases hy with hy | hy <;> cases hy⟩
/-- FIFO in action: three datagrams with delays 3 ms, 3 ms, 1 ms — the third legitimately overtakes, the
    two with equal latency arrive in send order. -/
example :
    let w := run { oracle := [.fail false, .delay 3000000, .fail false, .delay 3000000, .fail false, .delay 1000000] }
      (exPre.take 4 ++ [.host 0 (.udpSend 0 ⟨.host 1, 9000⟩ "a1"), .host 0 (.udpSend 0 ⟨.host 1, 9000⟩ "a2"),
                        .host 0 (.udpSend 0 ⟨.host 1, 9000⟩ "a3")])
    (handedOn 0 w [.stepBegin, .turn 1, .stepBegin, .turn 1, .stepBegin, .turn 1]).map (·.id) = [2, 0, 1] := by decide

/-! ### C08: `EndsHold` is exact — each of these steps really ends the hold -/

theorem deliverAt_mem {M : Type} (t : Nat) : ∀ (i : Nat) (xs : List (Sent M)), i < xs.length →
    ∃ s ∈ Link.deliverAt t i xs, s.status = .after t
  | _, [], h => by simp at h
  | 0, x :: xs, _ => ⟨{ x with status := .after t }, by simp [Link.deliverAt], rfl⟩
  | i + 1, x :: xs, h => by
    obtain ⟨s, hs, e⟩ := deliverAt_mem t i xs (by simpa using h)
    exact ⟨s, by simp [Link.deliverAt, hs], e⟩

/-- a link-control call other than `hold` on a pair joined by the link leaves it not held (some
    direction is no longer `Hold`), and a manual delivery of an existing position leaves a message
    scheduled: the conditions of `EndsHold` are not only sufficient but necessary for the hold to last. -/
theorem endsHold_exact (w : World) (x y li : Nat) (l : Link Env) (hl : w.links[li]? = some l) (ht : Touches w x y li) :
    (∀ op, op ≠ .hold → ∃ l', (applyStep w (.link op x y)).links[li]? = some l' ∧ ¬ C08.Held l') ∧
    (∀ i, i < l.sent.length → ∃ l', (applyStep w (.deliver x y i)).links[li]? = some l' ∧ ¬ C08.Held l') := by
  refine ⟨fun op hop => ?_, fun i hi => ?_⟩
  · obtain ⟨h1, _, _⟩ := ctlStep_link w op x y li l (.link op x y) (Or.inl rfl) hl ht
    refine ⟨_, h1, fun hh => ?_⟩
    cases op with
    | hold => exact hop rfl
    | partition =>
      have := (Link.explicitPartition_fields l).2.2.2.1
      exact absurd (this.symm.trans hh.ab) (by decide)
    | repair => exact absurd hh.ab (by simp [ctlOf, Ctl.fn, Link.explicitRepair])
    | release => exact absurd hh.ab (by simp [ctlOf, Ctl.fn, Link.release])
    | partitionOneway =>
      obtain ⟨_, _, _, e1, e2, _⟩ := Link.partitionOneway_fields l (w.host! x).ipnum (w.host! y).ipnum
      by_cases hlt : (w.host! x).ipnum < (w.host! y).ipnum
      · rw [if_pos hlt] at e1; exact absurd (e1.symm.trans hh.ab) (by decide)
      · rw [if_neg hlt] at e2; exact absurd (e2.symm.trans hh.ba) (by decide)
    | repairOneway =>
      by_cases hlt : (w.host! x).ipnum < (w.host! y).ipnum
      · exact absurd hh.ab (by simp [ctlOf, Ctl.fn, Link.repairOneway, hlt])
      · exact absurd hh.ba (by simp [ctlOf, Ctl.fn, Link.repairOneway, hlt])
  · have e1 := (lx_onLink w x y li (.manual i)).link l hl
    rw [if_pos ht, grun_single] at e1
    refine ⟨_, e1, fun hh => ?_⟩
    obtain ⟨s, hs, e⟩ := deliverAt_mem l.now i l.sent hi
    have := hh.all s hs
    rw [e] at this
    cases this

theorem readyOK_hold (l : Link Env) : ReadyOK l.hold := by
  intro hf
  rw [hold_flag] at hf
  unfold Link.hold
  rw [hf]
  exact ⟨rfl, rfl⟩

/-- **C08 in one statement** (both variants): `hold(x, y)` on a pair joined by link `li`, then ANY steps
    none of which ends the hold: everything the link hands to hosts meanwhile was already in a ready
    queue when `hold` was called — in particular none of the messages in flight at the call and none
    sent afterwards; those are all still in flight, held, in order, at the end (behind what `hold` made of
    the in-flight queue: `l.hold.sent` = `l.sent`, preceded under the repair of F-C08-1 by the recalled
    ready messages).  With the repair nothing at all is handed over: `held_nothing_handed_fixed`. -/
theorem hold_then_nothing_delivered (w : World) (x y li : Nat) (l : Link Env) (hl : w.links[li]? = some l)
    (ht : Touches w x y li) (sts : List Step)
    (hno : ∀ p ∈ trail (applyStep w (.link .hold x y)) sts, ¬ EndsHold p.1 li p.2) :
    (∀ m ∈ handedOn li w (.link .hold x y :: sts), m ∈ l.toA ∨ m ∈ l.toB) ∧
    ∃ l', (run w (.link .hold x y :: sts)).links[li]? = some l' ∧ C08.Held l' ∧
      ∃ new : List (Sent Env), l'.sent = l.hold.sent ++ new ∧ ∀ s ∈ new, s.status = Status.hold := by
  obtain ⟨e1, hh⟩ := hold_establishes_world w x y li l hl ht
  obtain ⟨l', h1, h2, ⟨new, h3⟩, _⟩ := held_nothing_delivered _ li l.hold e1 hh (readyOK_hold l) sts hno
  refine ⟨fun m hm => ?_, l', h1, h2, new, h3, fun s hs => h2.all s (by rw [h3]; exact List.mem_append_right _ hs)⟩
  have : m ∈ handedOn li (applyStep w (.link .hold x y)) sts := by simpa [handedOn, handed] using hm
  have hsub := ctl_queues_sub .hold l
  rcases held_only_matured _ li l.hold e1 hh (readyOK_hold l) sts hno m this with h | h
  · exact Or.inl (hsub.1.subset h)
  · exact Or.inr (hsub.2.subset h)

end TV.LinksWorld
