import TvCore.Props.C04
/-
  C04 — the aggregate release theorem.

  `dropAll` (the destructor sweep of `crash` / `bounce`) runs the destructor of every socket object
  of the host, in slot order.  Here its effect on the host's *bind tables* is computed exactly, for
  any number and kind of objects:

      udp'      = udp.filter      (port not owned by a dropped UDP object)
      tcpBinds' = tcpBinds.filter (port not owned by a dropped listener object)

  so under the ownership invariant `BindsOwned` (every table entry belongs to some object the host
  holds — evaluated by the driver on every state the correspondence replay reaches) both tables are
  empty after a crash: every port can be bound again.
-/
namespace TV.C04
open TV TV.World

theorem setAt_of_ge {α : Type} (l : List α) (i : Nat) (f : α → α) (h : l.length ≤ i) : setAt l i f = l := by
  induction l generalizing i with
  | nil => rfl
  | cons x xs ih =>
    cases i with
    | zero => simp at h
    | succ k => simp only [setAt]; rw [ih k (by simpa using h)]

/-- what `setHost h f` does to host `h` (nothing when `h` is not a host). -/
theorem host!_setHost (w : World) (h : Nat) (f : Host → Host) :
    (w.setHost h f).host! h = if h < w.hosts.length then f (w.host! h) else w.host! h := by
  split
  · next hh => exact host!_setHost_self w h f hh
  · next hh =>
    unfold host! setHost
    simp only
    rw [setAt_of_ge _ _ _ (by omega)]

/-- the two bind tables of a host. -/
def SameBinds (a b : Host) : Prop := b.udp = a.udp ∧ b.tcpBinds = a.tcpBinds

/-- the transition leaves the bind tables of host `h` as they are. -/
def Keeps (h : Nat) (w w' : World) : Prop := SameBinds (w.host! h) (w'.host! h)

theorem Keeps.refl (h : Nat) (w : World) : Keeps h w w := ⟨rfl, rfl⟩
theorem Keeps.trans {h : Nat} {a b c : World} (h1 : Keeps h a b) (h2 : Keeps h b c) : Keeps h a c :=
  ⟨h2.1.trans h1.1, h2.2.trans h1.2⟩

theorem keeps_of_hosts {h : Nat} {w w' : World} (e : w'.hosts = w.hosts) : Keeps h w w' := by
  unfold Keeps host!; rw [e]; exact ⟨rfl, rfl⟩

theorem keeps_setHost (h : Nat) (w : World) (f : Host → Host) (hf : ∀ a, SameBinds a (f a)) :
    Keeps h w (w.setHost h f) := by
  unfold Keeps
  rw [host!_setHost]
  split
  · exact hf _
  · exact ⟨rfl, rfl⟩

theorem keeps_tag {h : Nat} {w w' : World} (t : String) (hw : Keeps h w w') : Keeps h w (w'.tag t) :=
  hw.trans (keeps_of_hosts (hosts_tag w' t))

theorem keeps_ite {h : Nat} {w a b : World} (c : Prop) [Decidable c] (ha : Keeps h w a) (hb : Keeps h w b) :
    Keeps h w (if c then a else b) := by
  split <;> assumption

theorem keeps_netSend (h : Nat) (w : World) (e : Env) : Keeps h w (w.netSend h e).2 := by
  unfold netSend
  split
  · unfold sendLoopback
    exact keeps_tag _ (keeps_setHost h w _ (fun _ => ⟨rfl, rfl⟩))
  · exact keeps_of_hosts (hosts_sendMessage w e)

theorem keeps_removeSock (h : Nat) (w : World) (loc rem : Addr) : Keeps h w (w.removeSock h loc rem) := by
  unfold removeSock
  split
  · exact Keeps.refl h w
  · refine Keeps.trans ?_ (keeps_of_hosts (hosts_setChan _ _ _))
    exact keeps_setHost h w _ (fun _ => ⟨rfl, rfl⟩)

theorem keeps_closeStreamHalf (h : Nat) (w : World) (loc rem : Addr) : Keeps h w (w.closeStreamHalf h loc rem) := by
  unfold closeStreamHalf
  simp only
  split
  · refine Keeps.trans ?_ (keeps_of_hosts (hosts_setChan _ _ _))
    exact keeps_setHost h w _ (fun _ => ⟨rfl, rfl⟩)
  · exact keeps_setHost h w _ (fun _ => ⟨rfl, rfl⟩)

theorem keeps_dropRead (h : Nat) (w : World) (r : RdH) : Keeps h w (w.dropRead h r) := by
  unfold dropRead
  simp only
  have h0 : Keeps h w (w.setChan r.chan fun c => { c with rxAlive := false }) := keeps_of_hosts rfl
  apply keeps_ite
  · exact keeps_tag _ ((h0.trans (keeps_netSend h _ _)).trans (keeps_removeSock h _ _ _))
  · exact h0.trans (keeps_closeStreamHalf h _ _ _)

theorem keeps_dropWrite (h : Nat) (w : World) (x : WrH) : Keeps h w (w.dropWrite h x) := by
  unfold dropWrite
  refine Keeps.trans ?_ (keeps_closeStreamHalf h _ _ _)
  split
  · split
    · refine Keeps.trans ?_ (keeps_netSend h _ _)
      exact keeps_setHost h w _ (fun _ => ⟨rfl, rfl⟩)
    · exact Keeps.refl h w
  · exact Keeps.refl h w

theorem hosts_foldl_dropSyn (l : List SynReq) (w : World) :
    (l.foldl (fun w s => w.dropSyn s.id) w).hosts = w.hosts := by
  induction l generalizing w with
  | nil => rfl
  | cons x xs ih => simp only [List.foldl_cons]; rw [ih]; rfl

/-- port owned by a UDP socket object / by a listener object. -/
def udpPortOf : Obj → Option Nat
  | .udp loc _ => some loc.port
  | _ => none

def lisPortOf : Obj → Option Nat
  | .listener loc => some loc.port
  | _ => none

def udpKeep (o : Obj) (b : UdpBind) : Bool :=
  match udpPortOf o with | some p => b.port != p | none => true
def lisKeep (o : Obj) (b : TcpBind) : Bool :=
  match lisPortOf o with | some p => b.port != p | none => true

theorem keeps_dropConnecting (h : Nat) (w : World) (id : Nat) (loc rem : Addr) (chan fcW : Nat) :
    Keeps h w (w.dropObj h (.connecting id loc rem chan fcW)) := by
  unfold dropObj
  simp only
  have h1 : Keeps h w { w with syns := setAt w.syns id fun c => { c with rxAlive := false } } := keeps_of_hosts rfl
  have h2 := h1.trans (keeps_of_hosts (hosts_setChan _ chan fun c => { c with rxAlive := false }))
  have h3 := keeps_tag "connectdropped" h2
  split
  · exact h3.trans (keeps_removeSock h _ _ _)
  · exact h3

theorem keeps_dropStream (h : Nat) (w : World) (rd : Option RdH) (wr : Option WrH) :
    Keeps h w (w.dropObj h (.stream rd wr)) := by
  unfold dropObj
  simp only
  have h1 : Keeps h w (match rd with | some r => w.dropRead h r | none => w) := by
    cases rd with
    | some r => exact keeps_dropRead h w r
    | none => exact Keeps.refl h w
  cases wr with
  | some x => exact h1.trans (keeps_dropWrite h _ x)
  | none => exact h1

/-- **One destructor, exactly**: dropping object `o` of host `h` removes from the UDP table the
    entries of `o`'s port if `o` is a UDP socket, from the listener table those of `o`'s port if it
    is a listener, and nothing else from either. -/
theorem dropObj_binds (h : Nat) (w : World) (o : Obj) (hh : h < w.hosts.length) :
    ((w.dropObj h o).host! h).udp = (w.host! h).udp.filter (udpKeep o) ∧
    ((w.dropObj h o).host! h).tcpBinds = (w.host! h).tcpBinds.filter (lisKeep o) := by
  have triv : ∀ (w' : World), Keeps h w w' → (∀ b : UdpBind, udpKeep o b = true) → (∀ b : TcpBind, lisKeep o b = true) →
      (w'.host! h).udp = (w.host! h).udp.filter (udpKeep o) ∧
      (w'.host! h).tcpBinds = (w.host! h).tcpBinds.filter (lisKeep o) := by
    intro w' hk hu hl
    refine ⟨?_, ?_⟩
    · rw [hk.1]; exact (List.filter_eq_self.mpr (fun b _ => hu b)).symm
    · rw [hk.2]; exact (List.filter_eq_self.mpr (fun b _ => hl b)).symm
  cases o with
  | udp loc stash =>
    unfold dropObj
    simp only
    unfold udpUnbind
    have hm : (w.mgLeaveAll { ip := .host h, port := loc.port }).hosts = w.hosts := rfl
    have hl : h < (if ((w.mgLeaveAll { ip := .host h, port := loc.port }).host! h).udp.any (·.port == loc.port) = true
        then w.mgLeaveAll { ip := .host h, port := loc.port }
        else (w.mgLeaveAll { ip := .host h, port := loc.port }).panic "unknown bind").hosts.length := by
      split
      · rw [hm]; exact hh
      · rw [hosts_panic, hm]; exact hh
    rw [host!_setHost_self _ _ _ hl]
    have e : (if ((w.mgLeaveAll { ip := .host h, port := loc.port }).host! h).udp.any (·.port == loc.port) = true
        then w.mgLeaveAll { ip := .host h, port := loc.port }
        else (w.mgLeaveAll { ip := .host h, port := loc.port }).panic "unknown bind").host! h = w.host! h := by
      unfold host!
      split
      · rw [hm]
      · rw [hosts_panic, hm]
    rw [e]
    refine ⟨?_, ?_⟩
    · simp only
      apply List.filter_congr
      intro b _
      simp [udpKeep, udpPortOf]
    · simp only
      exact (List.filter_eq_self.mpr (fun b _ => by simp [lisKeep, lisPortOf])).symm
  | listener loc =>
    unfold dropObj
    simp only
    unfold tcpUnbind
    split
    · next hf =>
      -- the table holds no entry of that port: filtering by it changes nothing
      have eh : (w.panic "unknown bind").host! h = w.host! h := by unfold host!; rw [hosts_panic]
      rw [eh]
      refine ⟨?_, ?_⟩
      · exact (List.filter_eq_self.mpr (fun b _ => by simp [udpKeep, udpPortOf])).symm
      · refine (List.filter_eq_self.mpr (fun b hb => ?_)).symm
        have := List.find?_eq_none.mp hf b hb
        simpa [lisKeep, lisPortOf] using this
    · next b hf =>
      have e : ∀ w' : World, (b.deque.foldl (fun w s => w.dropSyn s.id) w').host! h = w'.host! h := by
        intro w'; unfold host!; rw [hosts_foldl_dropSyn]
      rw [e, host!_setHost_self _ _ _ hh]
      refine ⟨?_, ?_⟩
      · simp only
        exact (List.filter_eq_self.mpr (fun b _ => by simp [udpKeep, udpPortOf])).symm
      · simp only
        apply List.filter_congr
        intro b _
        simp [lisKeep, lisPortOf]
  | connecting id loc rem chan fcW =>
    exact triv _ (keeps_dropConnecting h w id loc rem chan fcW) (fun b => by simp [udpKeep, udpPortOf])
      (fun b => by simp [lisKeep, lisPortOf])
  | stream rd wr =>
    exact triv _ (keeps_dropStream h w rd wr) (fun b => by simp [udpKeep, udpPortOf]) (fun b => by simp [lisKeep, lisPortOf])

theorem length_dropObj (h : Nat) (w : World) (o : Obj) : (w.dropObj h o).hosts.length = w.hosts.length :=
  (only_dropObj h w o).2

/-- **Any number of destructors, exactly**: the bind tables after dropping `objs` are the tables
    before, minus the ports the dropped objects own. -/
theorem foldl_dropObj_binds (h : Nat) (objs : List (Nat × Obj)) (w : World) (hh : h < w.hosts.length) :
    ((objs.foldl (fun w p => w.dropObj h p.2) w).host! h).udp =
        (w.host! h).udp.filter (fun b => objs.all (fun p => udpKeep p.2 b)) ∧
    ((objs.foldl (fun w p => w.dropObj h p.2) w).host! h).tcpBinds =
        (w.host! h).tcpBinds.filter (fun b => objs.all (fun p => lisKeep p.2 b)) := by
  induction objs generalizing w with
  | nil =>
    simp only [List.foldl_nil, List.all_nil]
    exact ⟨(List.filter_eq_self.mpr (fun _ _ => rfl)).symm, (List.filter_eq_self.mpr (fun _ _ => rfl)).symm⟩
  | cons x xs ih =>
    simp only [List.foldl_cons]
    have hh' : h < (w.dropObj h x.2).hosts.length := by rw [length_dropObj]; exact hh
    have h1 := ih (w.dropObj h x.2) hh'
    have h2 := dropObj_binds h w x.2 hh
    rw [h1.1, h1.2, h2.1, h2.2, List.filter_filter, List.filter_filter]
    refine ⟨List.filter_congr (fun b _ => ?_), List.filter_congr (fun b _ => ?_)⟩
    · simp [List.all_cons, Bool.and_comm]
    · simp [List.all_cons, Bool.and_comm]

theorem all_mergeSort {α : Type} (l : List α) (le : α → α → Bool) (f : α → Bool) :
    (l.mergeSort le).all f = l.all f := by
  rw [Bool.eq_iff_iff]
  simp [List.all_eq_true, List.mem_mergeSort]

/-- **The destructor sweep, exactly** (`crash`, first half of `bounce`). -/
theorem dropAll_binds (h : Nat) (w : World) (hh : h < w.hosts.length) :
    ((w.dropAll h).host! h).udp =
        (w.host! h).udp.filter (fun b => (w.host! h).objs.all (fun p => udpKeep p.2 b)) ∧
    ((w.dropAll h).host! h).tcpBinds =
        (w.host! h).tcpBinds.filter (fun b => (w.host! h).objs.all (fun p => lisKeep p.2 b)) := by
  unfold dropAll
  simp only
  have hl : h < ((w.setHost h fun hs => { hs with objs := [], lo := [] }).dropEnvs (w.host! h).lo).hosts.length := by
    rw [hosts_dropEnvs]; simpa [setHost] using hh
  have hb := foldl_dropObj_binds h ((w.host! h).objs.mergeSort fun a b => a.1 ≤ b.1)
    ((w.setHost h fun hs => { hs with objs := [], lo := [] }).dropEnvs (w.host! h).lo) hl
  have e : ((w.setHost h fun hs => { hs with objs := [], lo := [] }).dropEnvs (w.host! h).lo).host! h =
      { w.host! h with objs := [], lo := [] } := by
    unfold host!
    rw [hosts_dropEnvs]
    exact host!_setHost_self w h _ hh
  rw [e] at hb
  simp only [all_mergeSort] at hb
  exact hb

/-- Ownership of the bind tables: every UDP bind and every listener bind belongs to a socket object
    the host's software holds. -/
def BindsOwned (hs : Host) : Prop :=
  (∀ b ∈ hs.udp, ∃ p ∈ hs.objs, udpPortOf p.2 = some b.port) ∧
  (∀ b ∈ hs.tcpBinds, ∃ p ∈ hs.objs, lisPortOf p.2 = some b.port)

/-- executable form, evaluated by the correspondence driver on every replayed state. -/
def bindsOwnedB (hs : Host) : Bool :=
  hs.udp.all (fun b => hs.objs.any (fun p => udpPortOf p.2 == some b.port)) &&
  hs.tcpBinds.all (fun b => hs.objs.any (fun p => lisPortOf p.2 == some b.port))

theorem bindsOwned_of_B (hs : Host) (h : bindsOwnedB hs = true) : BindsOwned hs := by
  unfold bindsOwnedB at h
  simp only [Bool.and_eq_true, List.all_eq_true, List.any_eq_true, beq_iff_eq] at h
  exact ⟨fun b hb => h.1 b hb, fun b hb => h.2 b hb⟩

theorem dropAll_releases_binds (h : Nat) (w : World) (hh : h < w.hosts.length) (ho : BindsOwned (w.host! h)) :
    ((w.dropAll h).host! h).udp = [] ∧ ((w.dropAll h).host! h).tcpBinds = [] := by
  have hb := dropAll_binds h w hh
  rw [hb.1, hb.2]
  refine ⟨List.filter_eq_nil_iff.mpr (fun b hb' => ?_), List.filter_eq_nil_iff.mpr (fun b hb' => ?_)⟩
  · obtain ⟨p, hp, e⟩ := ho.1 b hb'
    simp only [List.all_eq_true]
    intro hall
    have := hall p hp
    simp [udpKeep, e] at this
  · obtain ⟨p, hp, e⟩ := ho.2 b hb'
    simp only [List.all_eq_true]
    intro hall
    have := hall p hp
    simp [lisKeep, e] at this

/-- **C04, aggregate release**: crashing a running host whose bind tables are owned by its socket
    objects — any number of UDP sockets, listeners, streams, pending connects — leaves both tables
    empty: no port stays taken, nothing can still be delivered to a dead socket's queue. -/
theorem crash_releases_binds (h : Nat) (w : World) (hh : h < w.hosts.length)
    (hr : (w.host! h).running = true) (ho : BindsOwned (w.host! h)) :
    ((w.crash h).host! h).udp = [] ∧ ((w.crash h).host! h).tcpBinds = [] := by
  unfold crash
  simp only [hr, if_true]
  have hl : h < (w.dropAll h).hosts.length := by rw [(only_dropAll h w).2]; exact hh
  rw [host!_setHost_self _ _ _ hl]
  exact dropAll_releases_binds h w hh ho

/-- … and so does bouncing it: the restarted software finds every port free. -/
theorem bounce_releases_binds (h : Nat) (w : World) (hh : h < w.hosts.length) (ho : BindsOwned (w.host! h)) :
    ((w.bounce h).host! h).udp = [] ∧ ((w.bounce h).host! h).tcpBinds = [] := by
  unfold bounce
  simp only
  have hl : h < (w.dropAll h).hosts.length := by rw [(only_dropAll h w).2]; exact hh
  rw [host!_setHost_self _ _ _ hl]
  exact dropAll_releases_binds h w hh ho

end TV.C04
