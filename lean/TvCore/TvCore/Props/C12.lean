import TvCore.Model.Ops
import TvCore.Proofs.ListUtil
/-
  C12 — turmoil::net pairs every connect with exactly one accept, or refuses it.

  Components of the World model that decide pairing (the same functions the correspondence check
  executes): `acceptPick` (the listener's scan of its SYN queue), the SYN's one-shot cell, and
  `closeHalfList` (the stream table's half-close bookkeeping).
-/
namespace TV.C12
open TV TV.World

/-- **FIFO, skipping connectors that gave up**: `accept` returns the first queued request whose
    connector is still waiting; everything in front of it was dead; the rest of the queue is kept in
    order. -/
theorem pick_spec (alive : Nat → Bool) : ∀ (dq : List SynReq),
    (acceptPick alive dq).1 = dq.find? (fun r => alive r.id) ∧
    (∃ pre, (∀ r ∈ pre, alive r.id = false) ∧
       dq = pre ++ (acceptPick alive dq).1.toList ++ (acceptPick alive dq).2)
  | [] => ⟨rfl, [], by simp, rfl⟩
  | r :: rest => by
    unfold acceptPick
    by_cases h : alive r.id = true
    · simp only [h, if_true, List.find?_cons_of_pos]
      exact ⟨trivial, [], by simp, rfl⟩
    · have h' : alive r.id = false := by simpa using h
      obtain ⟨ih1, pre, hp, he⟩ := pick_spec alive rest
      simp only [h', Bool.false_eq_true, if_false]
      refine ⟨?_, r :: pre, ?_, ?_⟩
      · rw [List.find?_cons_of_neg (by simp [h'])]; exact ih1
      · intro x hx
        rcases List.mem_cons.mp hx with hx | hx
        · subst hx; exact h'
        · exact hp x hx
      · rw [List.cons_append, List.cons_append, ← he]

/-- `accept` stays pending exactly when no queued connector is still waiting, and then the queue is
    empty afterwards (dead requests are discarded, never resurrected). -/
theorem pick_none (alive : Nat → Bool) (dq : List SynReq) :
    (acceptPick alive dq).1 = none ↔ ∀ r ∈ dq, alive r.id = false := by
  rw [(pick_spec alive dq).1]
  simp [List.find?_eq_none]

theorem pick_none_empties (alive : Nat → Bool) : ∀ (dq : List SynReq),
    (acceptPick alive dq).1 = none → (acceptPick alive dq).2 = []
  | [], _ => rfl
  | r :: rest, h => by
    unfold acceptPick at h ⊢
    by_cases ha : alive r.id = true
    · simp [ha] at h
    · have ha' : alive r.id = false := by simpa using ha
      simp only [ha', Bool.false_eq_true, if_false] at h ⊢
      exact pick_none_empties alive rest h

/-- The request handed out belongs to a connector that was still waiting. -/
theorem pick_alive (alive : Nat → Bool) (dq : List SynReq) (r : SynReq)
    (h : (acceptPick alive dq).1 = some r) : alive r.id = true ∧ r ∈ dq := by
  rw [(pick_spec alive dq).1] at h
  exact ⟨by simpa using List.find?_some h, List.mem_of_find?_eq_some h⟩

@[simp] theorem tag_syns (w : World) (t : String) : (w.tag t).syns = w.syns := by
  unfold tag; split <;> rfl

@[simp] theorem setHost_syns (w : World) (h : Nat) (f : Host → Host) : (w.setHost h f).syns = w.syns := rfl

/-- what `accept` does to the one-shot cells: exactly the accepted request's cell becomes `acked`. -/
theorem acceptLoop_syns (w : World) (h : Nat) (port : Nat) (r : SynReq)
    (hacc : (acceptLoop w h port).2 = some r) :
    (acceptLoop w h port).1.syns = setAt w.syns r.id (fun c => { c with st := .acked }) := by
  unfold acceptLoop at hacc ⊢
  cases hb : (w.host! h).tcpBinds.findIdx? (·.port == port) with
  | none => simp [hb] at hacc
  | some bi =>
    simp only [hb] at hacc ⊢
    cases hp : acceptPick w.synAlive ((w.host! h).tcpBinds.getD bi default).deque with
    | mk r? rest =>
      simp only [hp] at hacc ⊢
      cases r? with
      | none => simp at hacc
      | some r' =>
        simp only [Option.some.injEq] at hacc
        subst hacc
        simp only
        congr 1
        repeat' split
        all_goals simp

/-- **Exactly one accept per connect**: once a request has been accepted its one-shot cell is no
    longer `pending`, so no later `accept` — on this or any other listener, wherever a stale copy of
    the request might sit — can hand it out again (`pick_alive`: only waiting connectors are picked). -/
theorem accepted_once (w : World) (h : Nat) (port : Nat) (r : SynReq)
    (hacc : (acceptLoop w h port).2 = some r) (hid : r.id < w.syns.length) :
    (acceptLoop w h port).1.synAlive r.id = false := by
  unfold synAlive
  rw [acceptLoop_syns w h port r hacc, setAt_getD _ _ _ _ hid]
  simp

/-- … and it was waiting (alive, pending) right before: a connector that gave up is never handed out. -/
theorem accepted_was_waiting (w : World) (h : Nat) (port : Nat) (r : SynReq)
    (hacc : (acceptLoop w h port).2 = some r) : w.synAlive r.id = true := by
  unfold acceptLoop at hacc
  cases hb : (w.host! h).tcpBinds.findIdx? (·.port == port) with
  | none => simp [hb] at hacc
  | some bi =>
    simp only [hb] at hacc
    cases hp : acceptPick w.synAlive ((w.host! h).tcpBinds.getD bi default).deque with
    | mk r? rest =>
      simp only [hp] at hacc
      cases r? with
      | none => simp at hacc
      | some r' =>
        simp only [Option.some.injEq] at hacc
        subst hacc
        exact (pick_alive w.synAlive _ r' (by rw [hp])).1

/-! ### both ends dropped ⇒ no longer counted -/

def hasKey (socks : List Sock) (loc rem : Addr) : Bool := socks.any (fun s => s.loc == loc && s.rem == rem)

/-- keys of the stream table are unique (`new_stream` asserts it). -/
def UniqueKeys (socks : List Sock) : Prop :=
  socks.Pairwise (fun a b => ¬ (a.loc = b.loc ∧ a.rem = b.rem))

theorem eraseIdx_removes_key (socks : List Sock) (loc rem : Addr) (hu : UniqueKeys socks) (i : Nat)
    (hi : socks.findIdx? (fun s => s.loc == loc && s.rem == rem) = some i) :
    hasKey (socks.eraseIdx i) loc rem = false := by
  induction socks generalizing i with
  | nil => simp at hi
  | cons x xs ih =>
    simp only [List.findIdx?_cons] at hi
    by_cases hx : (x.loc == loc && x.rem == rem) = true
    · simp only [hx, if_true, Option.some.injEq] at hi
      subst hi
      simp only [List.eraseIdx_cons_zero]
      -- nothing else in xs has the key, by uniqueness
      unfold hasKey
      rw [List.any_eq_false]
      intro y hy hyk
      have hxy := (List.pairwise_cons.mp hu).1 y hy
      simp only [Bool.and_eq_true, beq_iff_eq] at hx hyk
      exact hxy ⟨hx.1.trans hyk.1.symm, hx.2.trans hyk.2.symm⟩
    · simp only [hx, Bool.false_eq_true, if_false, Option.map_eq_some_iff] at hi
      obtain ⟨j, hj, rfl⟩ := hi
      simp only [List.eraseIdx_cons_succ]
      unfold hasKey at ih ⊢
      simp only [List.any_cons, hx, Bool.false_or]
      exact ih (List.pairwise_cons.mp hu).2 j hj

theorem closeHalf_dec (socks : List Sock) (loc rem : Addr) (i : Nat)
    (hi : socks.findIdx? (fun s => s.loc == loc && s.rem == rem) = some i)
    (hr : 2 ≤ (socks.getD i default).refCt) :
    (closeHalfList socks loc rem).1 = setAt socks i (fun s => { s with refCt := s.refCt - 1 }) := by
  unfold closeHalfList
  have : ¬ (socks.getD i default).refCt ≤ 1 := by omega
  simp only [hi, this, if_false]

theorem closeHalf_last (socks : List Sock) (loc rem : Addr) (i : Nat)
    (hi : socks.findIdx? (fun s => s.loc == loc && s.rem == rem) = some i)
    (hr : (socks.getD i default).refCt ≤ 1) :
    (closeHalfList socks loc rem).1 = socks.eraseIdx i := by
  unfold closeHalfList
  simp only [hi, hr, if_true]

/-- **Stream count**: an entry created with both halves alive (`ref_ct = 2`) is gone from the
    stream table — and therefore from `established_tcp_stream_count` — once both halves have been
    closed; exactly one entry disappears. -/
theorem closed_both_gone (socks : List Sock) (loc rem : Addr) (hu : UniqueKeys socks) (i : Nat)
    (hi : socks.findIdx? (fun s => s.loc == loc && s.rem == rem) = some i)
    (hr : (socks.getD i default).refCt = 2) :
    hasKey (closeHalfList (closeHalfList socks loc rem).1 loc rem).1 loc rem = false ∧
    (closeHalfList (closeHalfList socks loc rem).1 loc rem).1.length + 1 = socks.length := by
  have hilt : i < socks.length := (List.findIdx?_eq_some_iff_getElem.mp hi).1
  let dec : Sock → Sock := fun s => { s with refCt := s.refCt - 1 }
  -- first close: the count goes 2 → 1, same position, same keys
  have h1 : (closeHalfList socks loc rem).1 = setAt socks i dec := closeHalf_dec socks loc rem i hi (by omega)
  have hi2 : (setAt socks i dec).findIdx? (fun s => s.loc == loc && s.rem == rem) = some i := by
    rw [findIdx?_setAt socks i dec (fun s => s.loc == loc && s.rem == rem) (fun s => rfl)]; exact hi
  have hr2 : ((setAt socks i dec).getD i default).refCt ≤ 1 := by
    rw [setAt_getD _ _ _ _ hilt]
    show (socks.getD i default).refCt - 1 ≤ 1
    omega
  have h2 : (closeHalfList (setAt socks i dec) loc rem).1 = (setAt socks i dec).eraseIdx i :=
    closeHalf_last _ loc rem i hi2 hr2
  have hu1 : UniqueKeys (setAt socks i dec) :=
    pairwise_setAt socks i dec _ (fun a b h => h) (fun a b h => h) hu
  rw [h1, h2]
  refine ⟨eraseIdx_removes_key _ loc rem hu1 i hi2, ?_⟩
  rw [List.length_eraseIdx]
  simp [hilt]
  omega

example : (closeHalfList (closeHalfList
    [{ loc := ⟨.host 0, 1⟩, rem := ⟨.host 1, 80⟩, chan := 0, fcW := 0 }] ⟨.host 0, 1⟩ ⟨.host 1, 80⟩).1
    ⟨.host 0, 1⟩ ⟨.host 1, 80⟩).1.length = 0 := by decide

end TV.C12

namespace TV.C12
open TV TV.World

/-! ### refusals: the SYN object is dropped ⇒ its one-shot cell becomes `dropped` ⇒ `ConnectionRefused` -/

theorem dropSyn_dropped (w : World) (id : Nat) (hid : id < w.syns.length)
    (hp : (w.syns.getD id default).st = .pending) : ((w.dropSyn id).syns.getD id default).st = .dropped := by
  unfold dropSyn
  simp only
  rw [setAt_getD _ _ _ _ hid, hp]
  rfl

/-- **Partitioned direction / held link aside**: a message sent on an explicitly (or randomly)
    partitioned direction is handed back as discarded by the link — for a SYN that is the drop of its
    one-shot sender, i.e. an immediate `ConnectionRefused`. -/
theorem partitioned_send_dropped {M : Type} (l : Link M) (d src dst : Nat) (m : M)
    (h : l.stateFor src dst = .explicit ∨ l.stateFor src dst = .rand) :
    ∃ x, (l.enqueueRaw d src dst m).2 = some x ∧ x.msg = m ∧ (l.enqueueRaw d src dst m).1.sent = l.sent := by
  unfold Link.enqueueRaw
  rcases h with h | h <;> rw [h] <;> exact ⟨_, rfl, rfl, rfl⟩

/-- **Unowned address / no route**: `send_message` without a link fails and drops the SYN. -/
theorem unroutable_send_refused (w : World) (e : Env) (h : w.ipnumOf e.dst.ip = none) :
    (w.sendMessage e).1 = false := by
  unfold sendMessage
  cases w.ipnumOf e.src.ip <;> simp [h]

/-- **The connector's view**: once the cell is `dropped` the connect fails with ConnectionRefused,
    and with the repaired code its half-open table entry is gone. -/
theorem connect_refused_of_dropped (w : World) (h s id : Nat) (loc rem : Addr) (chan fcW : Nat)
    (ho : w.getObj h s = some (.connecting id loc rem chan fcW))
    (hd : (w.syns.getD id default).st = .dropped) : (w.connectPoll h s).2 = "err refused" := by
  unfold connectPoll
  simp only [ho, hd]

/-- while the cell is `pending` the connect stays pending (nobody refused it, nobody accepted it). -/
theorem connect_pending_of_pending (w : World) (h s id : Nat) (loc rem : Addr) (chan fcW : Nat)
    (ho : w.getObj h s = some (.connecting id loc rem chan fcW))
    (hd : (w.syns.getD id default).st = .pending) : (w.connectPoll h s).2 = "pending" := by
  unfold connectPoll
  simp only [ho, hd]


/-! ### a two-way partition refuses every request still in flight on the link — held or not -/

theorem syns_length_dropSyn (w : World) (id : Nat) : (w.dropSyn id).syns.length = w.syns.length := by
  unfold dropSyn; simp

theorem getD_setAt_ne {α : Type} (l : List α) (i j : Nat) (f : α → α) (d : α) (h : j ≠ i) :
    (setAt l i f).getD j d = l.getD j d := by
  induction l generalizing i j with
  | nil => rfl
  | cons x xs ih =>
    cases i with
    | zero =>
      cases j with
      | zero => exact absurd rfl h
      | succ k => simp [setAt, List.getD]
    | succ i' =>
      cases j with
      | zero => simp [setAt, List.getD]
      | succ k =>
        have := ih i' k (by omega)
        simpa [setAt, List.getD] using this

theorem dropSyn_other (w : World) (id id' : Nat) (h : id ≠ id') :
    (w.dropSyn id').syns.getD id default = w.syns.getD id default := by
  unfold dropSyn
  simp only
  exact getD_setAt_ne _ _ _ _ _ h

theorem dropSyn_keeps_dropped (w : World) (id id' : Nat)
    (hd : (w.syns.getD id default).st = .dropped) : ((w.dropSyn id').syns.getD id default).st = .dropped := by
  by_cases e : id = id'
  · subst e
    unfold dropSyn
    simp only
    by_cases hl : id < w.syns.length
    · rw [setAt_getD _ _ _ _ hl]
      generalize w.syns.getD id default = c at hd ⊢
      simp [hd]
    · have : setAt w.syns id (fun c => if c.st == .pending then { c with st := .dropped } else c) = w.syns := by
        clear hd
        generalize w.syns = l at hl
        induction l generalizing id with
        | nil => rfl
        | cons x xs ih =>
          cases id with
          | zero => simp at hl
          | succ k => simp only [setAt]; rw [ih k (by simpa using hl)]
      rw [this]; exact hd
  · rw [dropSyn_other w id id' e]; exact hd

theorem dropEnvs_keeps_dropped (es : List Env) (w : World) (id : Nat)
    (hd : (w.syns.getD id default).st = .dropped) : ((w.dropEnvs es).syns.getD id default).st = .dropped := by
  unfold dropEnvs
  induction es generalizing w with
  | nil => exact hd
  | cons e es ih =>
    simp only [List.foldl_cons]
    apply ih
    cases hm : e.msg with
    | syn id' => exact dropSyn_keeps_dropped w id id' hd
    | udp _ => exact hd
    | data _ _ => exact hd
    | fin _ => exact hd
    | rst => exact hd

/-- a pending request whose SYN is among the discarded envelopes is refused. -/
theorem dropEnvs_drops (es : List Env) (w : World) (id : Nat) (hid : id < w.syns.length)
    (hp : (w.syns.getD id default).st = .pending) (hmem : ∃ e ∈ es, e.msg = .syn id) :
    ((w.dropEnvs es).syns.getD id default).st = .dropped := by
  induction es generalizing w with
  | nil => obtain ⟨e, he, _⟩ := hmem; exact absurd he (by simp)
  | cons e es ih =>
    have hstep : (w.dropEnvs (e :: es)) = ((match e.msg with | .syn id' => w.dropSyn id' | _ => w).dropEnvs es) := by
      unfold dropEnvs; rfl
    rw [hstep]
    cases hm : e.msg with
    | syn id' =>
      simp only
      by_cases eq : id' = id
      · subst eq
        exact dropEnvs_keeps_dropped es _ id' (dropSyn_dropped w id' hid hp)
      · apply ih (w.dropSyn id')
        · rw [syns_length_dropSyn]; exact hid
        · rw [dropSyn_other w id id' (fun h => eq h.symm)]; exact hp
        · obtain ⟨x, hx, hxm⟩ := hmem
          rcases List.mem_cons.mp hx with h | h
          · subst h; rw [hm] at hxm; exact absurd (Msg.syn.inj hxm) eq
          · exact ⟨x, h, hxm⟩
    | udp _ | data _ _ | fin _ | rst =>
      simp only
      apply ih w hid hp
      obtain ⟨x, hx, hxm⟩ := hmem
      rcases List.mem_cons.mp hx with h | h
      · subst h; rw [hm] at hxm; exact absurd hxm (by simp)
      · exact ⟨x, h, hxm⟩

/-- **C12, partition around the handshake**: `partition(x, y)` refuses every connect whose request is
    still travelling on — or parked by a `hold` of — the link between the two hosts: its one-shot cell
    becomes `dropped`, so the connector's next poll returns ConnectionRefused
    (`connect_refused_of_dropped`) instead of hanging. -/
theorem partition_refuses_inflight (w : World) (x y li id : Nat) (l : Link Env)
    (hf : w.findLink (w.host! x).ipnum (w.host! y).ipnum = some li) (hl : w.links[li]? = some l)
    (hid : id < w.syns.length) (hp : (w.syns.getD id default).st = .pending)
    (hs : ∃ s ∈ l.sent, s.msg.msg = .syn id) :
    (((w.ctlPartition x y).syns).getD id default).st = .dropped := by
  unfold ctlPartition onLink
  simp only [hf, hl]
  obtain ⟨s, hs1, hs2⟩ := hs
  refine dropEnvs_drops _ { w with links := setAt w.links li fun _ => l.explicitPartition.1 } id (by exact hid) (by exact hp) ?_
  have hg : s ∈ l.explicitPartition.2 := by
    unfold Link.explicitPartition
    split
    · simp [hs1]
    · exact hs1
  exact ⟨s.msg, List.mem_map.mpr ⟨s, hg, rfl⟩, hs2⟩

end TV.C12
