import TvCore.Proofs.LinkFifo
import TvCore.Proofs.LinkC03
/-
  C14 — messages arrive within the configured latency window, in order on equal latency.
  Model: `TV.Link` (top.rs).  The delay is an oracle input; `delay_in_range` shows the code's clamp
  keeps every sampled delay inside the configured range, the window theorems turn a delay into
  delivery instants, and `fifo` is the run-level order theorem.
-/
namespace TV.C14
open TV TV.Link

variable {M : Type}

/-- `Link::delay`: `min(min_latency + floor(range * mult) ms, max_latency)`; `k` is the sampled
    offset (any natural number — the exponential sample is unbounded). -/
def clampDelay (minL maxL k : Nat) : Nat := min (minL + k) maxL

/-- Every sampled delay lies in the configured window (the builder rejects `max < min`). -/
theorem delay_in_range (minL maxL k : Nat) (h : minL ≤ maxL) :
    minL ≤ clampDelay minL maxL k ∧ clampDelay minL maxL k ≤ maxL := by
  unfold clampDelay; omega

/-- A per-link fixed latency (`set_link_latency`: min = max = v) yields exactly `v`. -/
theorem fixed_latency (v k : Nat) : clampDelay v v k = v := by unfold clampDelay; omega

/-- On a healthy direction a send is queued with deadline `link.now + delay`, after everything
    already in flight. -/
theorem healthy_send_scheduled (l : Link M) (d src dst : Nat) (m : M) (h : l.stateFor src dst = .healthy) :
    ∃ x : Sent M, (l.enqueueRaw d src dst m).1.sent = l.sent ++ [x] ∧ x.msg = m ∧
      x.status = .after (l.now + d) ∧ x.id = l.nextId ∧ (l.enqueueRaw d src dst m).2 = none := by
  unfold enqueueRaw; rw [h]
  exact ⟨_, rfl, rfl, rfl, rfl, rfl⟩

/-- A queued message matures (moves to its destination's queue) at a tick iff the tick's time has
    reached its deadline. -/
theorem matures_iff (now t : Nat) (x : Sent M) (h : x.status = .after t) :
    matured now x = decide (t ≤ now) := by simp [matured, h]

/-- **Window**: with ticks at `t0 + j·tick`, a message with deadline `t0 + d` matures at tick number
    `k = ⌈d / tick⌉` and not before; that instant `T` satisfies `t0 + d ≤ T < t0 + d + tick`. -/
theorem first_tick (t0 d tick : Nat) (htick : 0 < tick) :
    let k := (d + tick - 1) / tick
    t0 + d ≤ t0 + k * tick ∧ t0 + k * tick < t0 + d + tick ∧ ∀ j, j < k → ¬ (t0 + d ≤ t0 + j * tick) := by
  intro k
  have hdm := Nat.div_add_mod (d + tick - 1) tick
  have hml := Nat.mod_lt (d + tick - 1) htick
  have hk : k * tick = tick * ((d + tick - 1) / tick) := Nat.mul_comm _ _
  refine ⟨by omega, by omega, ?_⟩
  intro j hj hle
  have h1 : (j + 1) * tick ≤ k * tick := Nat.mul_le_mul_right tick hj
  rw [Nat.succ_mul] at h1
  omega

/-- The same in terms of what the two hosts observe: the sender sends at some instant of its step
    window `[t0, t0 + tick]`, the message is handed to the destination at the tick `T` of
    `first_tick`; for a delay `d ∈ [minL, maxL]` the observed latency `T − send` lies in
    `[minL − tick, maxL + tick]`. -/
theorem window (t0 d tick send minL maxL : Nat) (htick : 0 < tick)
    (hs : t0 ≤ send ∧ send ≤ t0 + tick) (hd : minL ≤ d ∧ d ≤ maxL) :
    let T := t0 + ((d + tick - 1) / tick) * tick
    send + minL ≤ T + tick ∧ T ≤ send + maxL + tick := by
  intro T
  have h := first_tick t0 d tick htick
  simp only at h
  have hT : T = t0 + ((d + tick - 1) / tick) * tick := rfl
  omega

/-! ### FIFO over whole runs -/

/-- The C14 alphabet: a link that is never held. -/
def inC14 : LinkOp M → Bool
  | .hold => false
  | .release => false
  | .manualDeliver _ => false
  | _ => true

/-- One step, recording separately what each host has been handed so far. -/
def fstep (cfg : Cfg) (s : FState M) : LinkOp M → FState M
  | .enqueue cf cr d ab m =>
      { s with l := (s.l.enqueue cfg cf cr d (if ab then s.l.a else s.l.b) (if ab then s.l.b else s.l.a) m).1 }
  | .tick dt => { s with l := s.l.tick (s.l.now + dt) }
  | .drain toB =>
      if toB then { s with l := { s.l with toB := [] }, outB := s.outB ++ s.l.toB }
      else { s with l := { s.l with toA := [] }, outA := s.outA ++ s.l.toA }
  | .partition => { s with l := s.l.explicitPartition.1 }
  | .partitionOneway ab =>
      { s with l := (if ab then s.l.partitionOneway s.l.a s.l.b else s.l.partitionOneway s.l.b s.l.a).1 }
  | .repair => { s with l := s.l.explicitRepair }
  | .repairOneway ab =>
      { s with l := if ab then s.l.repairOneway s.l.a s.l.b else s.l.repairOneway s.l.b s.l.a }
  | _ => s

def frun (cfg : Cfg) (s : FState M) (ops : List (LinkOp M)) : FState M := ops.foldl (fstep cfg) s

theorem fstep_inv (cfg : Cfg) {s : FState M} (h : FInv s) (op : LinkOp M) : FInv (fstep cfg s op) := by
  cases op with
  | enqueue cf cr d ab m => exact finv_enqueue cfg h cf cr d _ _ m
  | tick dt => exact finv_tick h _
  | drain toB =>
      cases toB
      · simpa [fstep] using finv_drainA h
      · simpa [fstep] using finv_drainB h
  | partition =>
      obtain ⟨_, _, es, e1, e2, _, _, sA, sB, _, en, _⟩ := explicitPartition_fields s.l
      exact finv_sublist3 h _ (by rw [es]; exact List.nil_sublist _) sA sB en (by rw [e1]; decide) (by rw [e2]; decide)
  | partitionOneway ab =>
      have key : ∀ p q : Nat, FInv { s with l := (s.l.partitionOneway p q).1 } := by
        intro p q
        obtain ⟨_, _, es, e1, e2, _, _, sA, sB, _, en, _⟩ := partitionOneway_fields s.l p q
        refine finv_sublist3 h _ (by rw [es]; exact List.filter_sublist) sA sB en ?_ ?_
        · rw [e1]; split
          · decide
          · exact h.nhAB
        · rw [e2]; split
          · exact h.nhBA
          · decide
      cases ab
      · exact key _ _
      · exact key _ _
  | repair =>
      exact finv_sublist h _ (List.Sublist.refl _) .healthy .healthy (by decide) (by decide) false false
  | repairOneway ab =>
      cases ab
      · simp only [fstep, Bool.false_eq_true, if_false, repairOneway]
        split
        · exact finv_sublist h _ (List.Sublist.refl _) .healthy _ (by decide) h.nhBA false _
        · exact finv_sublist h _ (List.Sublist.refl _) _ .healthy h.nhAB (by decide) _ false
      · simp only [fstep, if_true, repairOneway]
        split
        · exact finv_sublist h _ (List.Sublist.refl _) .healthy _ (by decide) h.nhBA false _
        · exact finv_sublist h _ (List.Sublist.refl _) _ .healthy h.nhAB (by decide) _ false
  | hold => exact h
  | release => exact h
  | manualDeliver i => exact h

theorem frun_inv (cfg : Cfg) {s : FState M} (h : FInv s) (ops : List (LinkOp M)) : FInv (frun cfg s ops) := by
  induction ops generalizing s with
  | nil => exact h
  | cons op ops ih => exact ih (fstep_inv cfg h op)

/-- **C14 FIFO** (both model variants, every coin and delay, partitions and repairs included):
    in everything ever handed to a host, a message never comes after a later-sent message unless
    its own deadline was strictly later.  In particular messages of one direction that were given
    equal latencies (deadline = send-time clock + delay, the clock never goes back) — e.g. under a
    fixed link latency — arrive in the order they were sent. -/
theorem fifo (cfg : Cfg) (a b : Nat) (ops : List (LinkOp M)) (m1 m2 : Sent M)
    (hsub : [m2, m1].Sublist ((frun cfg { l := Link.init a b } ops).outB ++ (frun cfg { l := Link.init a b } ops).l.toB)
          ∨ [m2, m1].Sublist ((frun cfg { l := Link.init a b } ops).outA ++ (frun cfg { l := Link.init a b } ops).l.toA))
    (hid : m1.id < m2.id) (hkey : key m1 ≤ key m2) : False := by
  have hinv := frun_inv cfg (finv_init a b) ops
  rcases hsub with hsub | hsub
  · have := (hinv.seqB.sublist hsub)
    simp only [List.pairwise_cons, List.mem_singleton, forall_eq] at this
    have := this.1 hid
    omega
  · have := (hinv.seqA.sublist hsub)
    simp only [List.pairwise_cons, List.mem_singleton, forall_eq] at this
    have := this.1 hid
    omega

/-- … the same for a link created under either variant of the ready-queue repair (`fixMatured`): with the
    repair a partition also discards ready messages, which only removes elements from the sequences. -/
theorem fifo_any_flag (cfg : Cfg) (a b : Nat) (fm : Bool) (ops : List (LinkOp M)) (m1 m2 : Sent M)
    (hsub : [m2, m1].Sublist ((frun cfg { l := Link.init a b fm } ops).outB ++ (frun cfg { l := Link.init a b fm } ops).l.toB)
          ∨ [m2, m1].Sublist ((frun cfg { l := Link.init a b fm } ops).outA ++ (frun cfg { l := Link.init a b fm } ops).l.toA))
    (hid : m1.id < m2.id) (hkey : key m1 ≤ key m2) : False := by
  have hinv := frun_inv cfg (finv_init a b fm) ops
  rcases hsub with hsub | hsub
  · have := (hinv.seqB.sublist hsub)
    simp only [List.pairwise_cons, List.mem_singleton, forall_eq] at this
    have := this.1 hid
    omega
  · have := (hinv.seqA.sublist hsub)
    simp only [List.pairwise_cons, List.mem_singleton, forall_eq] at this
    have := this.1 hid
    omega

/-- `fstep` is the link transition of `Link.step` (same link state), so the FIFO theorem speaks
    about the very model the correspondence check runs. -/
theorem fstep_link (cfg : Cfg) (s : FState M) (op : LinkOp M) (h : inC14 op = true) (hne : s.l.b ≠ s.l.a) :
    (fstep cfg s op).l = (Link.step cfg s.l op).1 := by
  cases op with
  | enqueue cf cr d ab m => cases ab <;> rfl
  | tick dt => rfl
  | drain toB =>
      cases toB
      · simp [fstep, Link.step, drain]
      · simp only [fstep, Link.step, drain, if_true]
        simp [hne]
  | partition => rfl
  | partitionOneway ab => cases ab <;> rfl
  | repair => rfl
  | repairOneway ab => cases ab <;> rfl
  | hold => simp [inC14] at h
  | release => simp [inC14] at h
  | manualDeliver i => simp [inC14] at h

/-- Non-vacuity: two messages with equal latency are handed over in send order; a third with a
    shorter latency legitimately overtakes. -/
example : ((frun Cfg.faithful { l := Link.init 0 1 }
    [ LinkOp.enqueue false false 3 true (), .enqueue false false 3 true (), .enqueue false false 1 true (),
      .tick 1, .drain true, .tick 2, .drain true ]).outB.map (·.id)) = [2, 0, 1] := by decide

end TV.C14
