import TvCore.Proofs.C05ReachRun
/-
  C05 — the clock statements over EVERY reachable World of the full step alphabet.

  `Props/C05.lean` states the clock facts host by host and `Props/C05Late.lean` over a two-letter
  alphabet (register / step boundary).  Here they are proved for every World the replay driver can
  compute: `Reach w0 w` (`Props/C04Reach.lean`) = `w` is obtained from `w0` by any sequence of
  `applyStep`s — host API calls incl. `sleep` / `exit` / `clock`, `crash`, `bounce`, late `register`,
  turn starts with network delivery, loopback deliveries, link control, `stepBegin`, `stepEnd`.
  Runs are also written as lists: `run w0 sts = sts.foldl applyStep w0` (`reach_run`,
  `exists_run_of_reach` convert).

  Method (`Proofs/C05ReachLemmas.lean`, `C05ReachOps.lean`): `tv w` is the *clock view* of a World
  (per host: `elapsed`, `startOffset`, `winStart`, `hnow`, `wake`, `t0`, `running`, `exited`; plus
  `Sim::elapsed` and the configuration).  Every function of the model is shown to leave it alone, except
  that `applyStep w st` acts on it like its *clock part* `clockPart w st`
  (`tv_applyStep : tv (applyStep w st) = tv (clockPart w st)`), which is `w` itself, `w.register`,
  `w.stepEnd`, `w.turnBegin h`, the sleep of `hopSleep`, or a `setHost` with `markExited` / `markCrashed`
  / `freshRuntime`.  `Proofs/C05ReachHost.lean` turns this into "one transition seen from one
  registered host" (`HStep`) and does the arithmetic there; `Proofs/C05ReachRun.lean` lifts to runs.

  crash / bounce and the timer ("keep counting across crash and bounce").  Model: `crash h` =
  `dropAll` + `running := false`; `bounce h` = `dropAll` + `freshRuntime` (`running := true`, `exited :=
  false`, the runtime clock `winStart`, `hnow`, `wake`, `t0` back to 0).  Neither writes `elapsed` or
  `startOffset`, and `stepEnd` adds the tick to every host whatever its flags (`hostStepEnd`).  Rust:
  `Rt::crash` takes the software handle and replaces the tokio runtime, `Rt::bounce` replaces the
  runtime and respawns the software (`rt.rs`); neither touches the `HostTimer` in `World::hosts`
  (`elapsed`, `start_offset`, and the stale `now`, which `Sim::step` overwrites with the new runtime's
  `Instant::now()` before the host's next turn); `Sim::step` calls `world.tick(addr, tick)` for running
  and for stopped hosts alike.  The model's `winStart` / `hnow` reset is that fresh runtime clock.
  (Only difference in timing: the crate ticks a host's `HostTimer` right after that host's turn, the
  model all of them at `stepEnd`; no host code can observe another host's timer in between.)

  Scope.  The model has clock reads only inside turns (`HOp.clock`), and that is what the theorems
  below speak about.  In the crate, host code can also run *outside* any step: destructors of the
  host's tasks run inside `Sim::crash` / `Sim::bounce`, and the software factory closure runs inside
  `Sim::bounce` (and `Sim::host`), all with `World::current` set to that host — `turmoil::elapsed()`
  etc. then compute `Instant::now() - timer.now` against a runtime that is gone or new, i.e. against
  the wall clock (probe: /tmp/c05reach/probe; reported, not modelled).

  Done here: 1 `reach_synced`, 2 `reach_step_counts`, 4 `reach_monotone` (+ observed values:
  `reach_observed_monotone`, and witnesses that the discipline it assumes is needed),
  5 `consistency_reach`, 3 `reach_in_window`.
-/
namespace TV.C05
open TV TV.World
open TV.C04 (Reach)

/-! ## 1. `Synced` in every reachable World -/

/-- **what every transition does to the timers**: `Sim::elapsed` and, for every registered host, the
    host timer advance by exactly one tick at `stepEnd` and are untouched by every other transition —
    host calls, sleeps, exit, crash, bounce, registrations, turn starts, deliveries, link control;
    `start_offset` is never written; hosts are only ever added, by `register`; the configuration is
    never written. -/
theorem step_timers (w : World) (st : Step) :
    (applyStep w st).elapsed = w.elapsed + (if isEnd st then w.cfg.tick else 0) ∧
    (applyStep w st).hosts.length = w.hosts.length + (if isReg st then 1 else 0) ∧
    (applyStep w st).cfg = w.cfg ∧
    ∀ i, i < w.hosts.length →
      ((applyStep w st).host! i).startOffset = (w.host! i).startOffset ∧
      ((applyStep w st).host! i).elapsed = (w.host! i).elapsed + (if isEnd st then w.cfg.tick else 0) :=
  ⟨applyStep_elapsed w st, applyStep_len w st, applyStep_cfg w st, fun i hi => applyStep_timer w st i hi⟩

/-- a host registered now starts with `start_offset = Sim::elapsed` and a zero timer, at the next index. -/
theorem register_timers (w : World) (ip : Nat) (c : Bool) :
    ((applyStep w (.register ip c)).host! w.hosts.length).startOffset = w.elapsed ∧
    ((applyStep w (.register ip c)).host! w.hosts.length).elapsed = 0 := by
  show ((w.register ip c).host! w.hosts.length).startOffset = _ ∧ ((w.register ip c).host! w.hosts.length).elapsed = 0
  rw [host!_register_new]
  exact ⟨rfl, rfl⟩

/-- **keep counting across crash and bounce**: neither writes `Sim::elapsed`, any host timer or any
    registration offset — of the crashed / bounced host or of any other. -/
theorem crash_bounce_keep_timers (w : World) (h i : Nat) (hi : i < w.hosts.length) :
    (w.crash h).elapsed = w.elapsed ∧ (w.bounce h).elapsed = w.elapsed ∧
    ((w.crash h).host! i).elapsed = (w.host! i).elapsed ∧ ((w.crash h).host! i).startOffset = (w.host! i).startOffset ∧
    ((w.bounce h).host! i).elapsed = (w.host! i).elapsed ∧ ((w.bounce h).host! i).startOffset = (w.host! i).startOffset := by
  have c1 := applyStep_elapsed w (.crash h)
  have c2 := applyStep_timer w (.crash h) i hi
  have b1 := applyStep_elapsed w (.bounce h)
  have b2 := applyStep_timer w (.bounce h) i hi
  exact ⟨c1, b1, c2.2, c2.1, b2.2, b2.1⟩

/-- **C05, `Synced` is an invariant of the full step alphabet**: in every World reachable from one
    without hosts, every host — registered at any time; running, finished (`exited`) or crashed —
    satisfies `start_offset + elapsed = Sim::elapsed`. -/
theorem reach_synced (w0 w : World) (h0 : w0.hosts = []) (hr : Reach w0 w) : Synced w := by
  induction hr with
  | init => intro hs hm; rw [h0] at hm; cases hm
  | step st _ ih => exact synced_applyStep _ st ih

/-- the form of the task statement: the initial World is the empty World of some configuration. -/
theorem reach_synced_cfg (cfg : WCfg) (w : World) (hr : Reach { cfg := cfg } w) : Synced w :=
  reach_synced _ w rfl hr

/-! ## 2. exactly one tick per step, counted over whole runs -/

/-- **C05, step counts**: take any run, from any World, that registers a host after the transitions
    `pre` and goes on with the transitions `post` — whatever they are: sleeps, exits, crashes and bounces
    of that host or of others, further registrations.  Then the host exists at the index the
    registration gave it, its registration offset is the simulation time of the registration, its timer
    reads `(number of stepEnds in post) · tick`, and `Sim::elapsed` has advanced by
    `(total number of stepEnds) · tick`. -/
theorem reach_step_counts (w0 : World) (pre post : List Step) (ip : Nat) (c : Bool) :
    let i := (run w0 pre).hosts.length
    let w := run w0 (pre ++ Step.register ip c :: post)
    i < w.hosts.length ∧
    (w.host! i).startOffset = w0.elapsed + nEnds pre * w0.cfg.tick ∧
    (w.host! i).elapsed = nEnds post * w0.cfg.tick ∧
    w.elapsed = w0.elapsed + (nEnds pre + nEnds post) * w0.cfg.tick := by
  intro i w
  have hw : w = run (applyStep (run w0 pre) (.register ip c)) post := by
    show run w0 (pre ++ Step.register ip c :: post) = _
    rw [run_append, run_cons]
  have hlen : i < (applyStep (run w0 pre) (.register ip c)).hosts.length := by
    rw [applyStep_len]; simp [isReg, i]
  have ht := run_timer _ post i hlen
  have hr := register_timers (run w0 pre) ip c
  have hc : (applyStep (run w0 pre) (.register ip c)).cfg = w0.cfg := by rw [applyStep_cfg, run_cfg]
  refine ⟨?_, ?_, ?_, ?_⟩
  · rw [hw, run_len]; omega
  · rw [hw, ht.1, hr.1, run_elapsed]
  · rw [hw, ht.2, hr.2, hc]; omega
  · rw [hw, run_elapsed, applyStep_elapsed, run_elapsed, hc, Nat.add_mul]; simp [isEnd]; omega

/-- … and every host of a run that started without hosts is such a host. -/
theorem every_host_was_registered (w0 : World) (h0 : w0.hosts = []) (sts : List Step) (i : Nat)
    (hi : i < (run w0 sts).hosts.length) :
    ∃ pre ip c post, sts = pre ++ Step.register ip c :: post ∧ (run w0 pre).hosts.length = i :=
  exists_registration w0 sts i (by rw [h0]; exact Nat.zero_le _) hi

/-- the simulation clock alone, and a host that is already there: `k` step ends add `k · tick`. -/
theorem run_counts (w : World) (sts : List Step) :
    (run w sts).elapsed = w.elapsed + nEnds sts * w.cfg.tick ∧
    ∀ i, i < w.hosts.length → ((run w sts).host! i).elapsed = (w.host! i).elapsed + nEnds sts * w.cfg.tick :=
  ⟨run_elapsed w sts, fun i hi => (run_timer w sts i hi).2⟩

/-! ## 4. monotone -/

/-- one transition: nothing that counts time goes back, and a registration offset never changes. -/
theorem step_monotone (w : World) (st : Step) :
    w.elapsed ≤ (applyStep w st).elapsed ∧ w.hosts.length ≤ (applyStep w st).hosts.length ∧
    ∀ i, i < w.hosts.length →
      (w.host! i).elapsed ≤ ((applyStep w st).host! i).elapsed ∧
      ((applyStep w st).host! i).startOffset = (w.host! i).startOffset := by
  refine ⟨by rw [applyStep_elapsed]; omega, by rw [applyStep_len]; omega, fun i hi => ?_⟩
  have := applyStep_timer w st i hi
  exact ⟨by rw [this.2]; omega, this.1⟩

/-- **C05, monotone along every continuation**: from any World `w` to any World `w'` reachable from it,
    `Sim::elapsed` (hence `Sim::since_epoch`) and the timer of every host of `w` do not decrease — across
    crashes and bounces of that host as across anything else — no host disappears and no registration
    offset changes. -/
theorem reach_monotone {w w' : World} (hr : Reach w w') :
    w.elapsed ≤ w'.elapsed ∧ w.hosts.length ≤ w'.hosts.length ∧
    ∀ i, i < w.hosts.length →
      (w.host! i).elapsed ≤ (w'.host! i).elapsed ∧ (w'.host! i).startOffset = (w.host! i).startOffset := by
  obtain ⟨sts, rfl⟩ := exists_run_of_reach hr
  refine ⟨by rw [run_elapsed]; omega, by rw [run_len]; omega, fun i hi => ?_⟩
  have := run_timer w sts i hi
  exact ⟨by rw [this.2]; omega, this.1⟩

/-- ghost flags of a whole run: host `h`'s turn has begun (`turn h`) and the step has not ended since. -/
def turned (sts : List Step) (h : Nat) : Bool := turnedFrom (fun _ => false) sts h

/-- the run respects the scheduling discipline of `Sim::step` that matters for clocks: a host's turn
    begins at most once per step, and a host is not bounced in the middle of a step in which it has
    already run (`Sim::bounce` needs `&mut Sim`: it happens between steps). -/
def Sched (sts : List Step) : Prop := SchedFrom (fun _ => false) sts

instance (sts : List Step) : Decidable (Sched sts) := by unfold Sched; infer_instance

/-- one disciplined transition, any registered host: the *observed time* `obsTime` (what its clock
    reads while its turn is on, its timer between turns) does not decrease. -/
theorem step_observed_monotone (w0 : World) (h0 : w0.hosts = []) (pre : List Step) (st : Step) (i : Nat)
    (hi : i < (run w0 pre).hosts.length) (ha : Allowed (turnedFrom (fun _ => false) pre) st) :
    obsTime (turned pre i) ((run w0 pre).host! i) ≤ obsTime (turned (pre ++ [st]) i) ((run w0 (pre ++ [st])).host! i) := by
  have hinv := winv_run w0 pre _ (winv_init w0 (fun _ => false) h0)
  have := (obs_applyStep (run w0 pre) st _ i hi hinv ha).1
  unfold turned
  rw [turnedFrom_append, run_append]
  exact this

/-- **C05, what host code observes is monotone**: in a run from a World without hosts that respects
    the scheduling discipline, take two points at which code of host `i` can run (its turn has begun and
    the step has not ended), the second later than the first.  Then `elapsed()`, `sim_elapsed()` and
    `since_epoch()` as read at the second point are not smaller than at the first — whatever happened
    in between: step ends, sleeps, crashes and bounces of that host, registrations. -/
theorem reach_observed_monotone (w0 : World) (h0 : w0.hosts = []) (pre mid : List Step) (i : Nat)
    (hs : Sched (pre ++ mid)) (hi : i < (run w0 pre).hosts.length)
    (h1 : turned pre i = true) (h2 : turned (pre ++ mid) i = true) (epoch : Nat) :
    elapsedNow ((run w0 pre).host! i) ≤ elapsedNow ((run w0 (pre ++ mid)).host! i) ∧
    simNow ((run w0 pre).host! i) ≤ simNow ((run w0 (pre ++ mid)).host! i) ∧
    epochNow epoch ((run w0 pre).host! i) ≤ epochNow epoch ((run w0 (pre ++ mid)).host! i) := by
  have hinv := winv_run w0 pre _ (winv_init w0 (fun _ => false) h0)
  have hs' := ((schedFrom_append _ pre mid).mp hs).2
  have ho := obs_run (run w0 pre) mid _ i hi hinv hs'
  unfold turned at h1 h2
  rw [turnedFrom_append] at h2
  rw [h1, h2, ← run_append] at ho
  have hle : elapsedNow ((run w0 pre).host! i) ≤ elapsedNow ((run w0 (pre ++ mid)).host! i) := ho.1
  unfold epochNow simNow
  rw [ho.2]
  omega

/-- the model allows transition sequences `Sim::step` cannot produce, and there the clock a host
    reads can go back: (a) a host bounced in the middle of its own turn, after a 1 ms sleep that ended
    inside the 2 ms window — the fresh runtime's clock starts at the window start again; -/
def tick2 : World := { cfg := { tick := 2000000 } }
def sleptInTurn : List Step := [.register 1 false, .stepBegin, .turn 0, .host 0 (.sleep 1)]

theorem witness_bounce_in_turn :
    simNow ((run tick2 (sleptInTurn ++ [.bounce 0])).host! 0) < simNow ((run tick2 sleptInTurn).host! 0) ∧
    ¬ Sched (sleptInTurn ++ [.bounce 0]) := by
  refine ⟨?_, by decide⟩
  rw [simNow_congr (clk_run_crun _ _ 0), simNow_congr (clk_run_crun _ _ 0)]
  decide

/-- (b) a second `turn` of the same host within one step: the task's Instant is set back to the window start. -/
theorem witness_double_turn :
    simNow ((run tick2 (sleptInTurn ++ [.turn 0])).host! 0) < simNow ((run tick2 sleptInTurn).host! 0) ∧
    ¬ Sched (sleptInTurn ++ [.turn 0]) := by
  refine ⟨?_, by decide⟩
  rw [simNow_congr (clk_run_crun _ _ 0), simNow_congr (clk_run_crun _ _ 0)]
  decide

/-- (c) between observation points the *function* `simNow` of the model state is not monotone even in a
    disciplined run (here: crashed inside its turn after the in-window sleep, the stale offset
    `hnow - winStart` survives the step end and is cleared by the bounce) — nobody can observe it
    there: the host has no code until its next `turn`, which is why `reach_observed_monotone` speaks
    about observation points (`obsTime`). -/
theorem witness_unobserved_value :
    simNow ((run tick2 (sleptInTurn ++ [.crash 0, .stepEnd, .bounce 0])).host! 0) <
      simNow ((run tick2 (sleptInTurn ++ [.crash 0, .stepEnd])).host! 0) ∧
    Sched (sleptInTurn ++ [.crash 0, .stepEnd, .bounce 0]) ∧
    turned (sleptInTurn ++ [.crash 0, .stepEnd]) 0 = false := by
  refine ⟨?_, by decide, by decide⟩
  rw [simNow_congr (clk_run_crun _ _ 0), simNow_congr (clk_run_crun _ _ 0)]
  decide

/-- the naive per-transition reading of "`sim_elapsed` is monotone" — the *state function* `simNow` of
    every registered host never decreases over any single transition of a disciplined run — -/
def SimNowMonotoneEveryStep : Prop :=
  ∀ (w0 : World) (sts : List Step) (st : Step) (i : Nat), w0.hosts = [] → Sched (sts ++ [st]) →
    i < (run w0 sts).hosts.length → simNow ((run w0 sts).host! i) ≤ simNow ((run w0 (sts ++ [st])).host! i)

/-- … is false in the model (witness (c); without `Sched` also (a), (b)).  None of the three sequences can
    be produced by the crate: `Sim::crash` / `Sim::bounce` take `&mut Sim` and so happen between steps, where
    every running host's offset inside its window has been cut off by the step end, and `Sim::step` runs
    each host once.  What host code *observes* is monotone: `reach_observed_monotone`. -/
theorem witness_simNow_not_stepwise_monotone : ¬ SimNowMonotoneEveryStep := by
  intro h
  have hw := witness_unobserved_value
  have := h tick2 (sleptInTurn ++ [.crash 0, .stepEnd]) (.bounce 0) 0 rfl hw.2.1 (by rw [run_len]; decide)
  exact Nat.lt_irrefl _ (Nat.lt_of_lt_of_le hw.1 this)

/-! ## 5. mutual consistency in every reachable World -/

/-- **C05, consistency for reachable Worlds**: for every host of every World reachable from one without
    hosts — at every point, in particular wherever host code can read the clocks —
    `sim_elapsed = start_offset + elapsed`, `since_epoch = epoch + sim_elapsed`, and `sim_elapsed` is the
    simulation's own clock plus what the host's runtime clock has advanced inside the current window; so
    at a window start (`hnow = winStart`) `sim_elapsed() = Sim::elapsed()` and
    `since_epoch() = Sim::since_epoch()`. -/
theorem consistency_reach (w0 w : World) (h0 : w0.hosts = []) (hr : Reach w0 w) (i : Nat) (hi : i < w.hosts.length)
    (epoch : Nat) :
    simNow (w.host! i) = (w.host! i).startOffset + elapsedNow (w.host! i) ∧
    epochNow epoch (w.host! i) = epoch + simNow (w.host! i) ∧
    simNow (w.host! i) = w.elapsed + ((w.host! i).hnow - (w.host! i).winStart) ∧
    ((w.host! i).hnow = (w.host! i).winStart →
      simNow (w.host! i) = w.elapsed ∧ epochNow epoch (w.host! i) = epoch + w.elapsed) := by
  have hs := (synced_iff w).mp (reach_synced w0 w h0 hr) i hi
  refine ⟨(consistency epoch _).1, (consistency epoch _).2, ?_, fun hw => ?_⟩
  · unfold simNow elapsedNow; omega
  · unfold epochNow simNow elapsedNow; rw [hw]; omega

/-- … and while the host's turn is on, what it reads as `sim_elapsed()` / `since_epoch()` lies in the
    simulation's current step window `[Sim::elapsed, Sim::elapsed + tick)`. -/
theorem consistency_in_turn (w0 : World) (h0 : w0.hosts = []) (sts : List Step) (i : Nat)
    (hi : i < (run w0 sts).hosts.length) (ht : turned sts i = true) (epoch : Nat) :
    (run w0 sts).elapsed ≤ simNow ((run w0 sts).host! i) ∧
    simNow ((run w0 sts).host! i) ≤ (run w0 sts).elapsed + w0.cfg.tick ∧
    (0 < w0.cfg.tick → simNow ((run w0 sts).host! i) < (run w0 sts).elapsed + w0.cfg.tick) ∧
    epochNow epoch ((run w0 sts).host! i) = epoch + simNow ((run w0 sts).host! i) := by
  have hinv := winv_run w0 sts _ (winv_init w0 (fun _ => false) h0) i hi
  rw [run_cfg] at hinv
  have hw := hinv.2 ht
  have hs := (synced_iff _).mp (reach_synced w0 _ h0 (reach_run w0 sts)) i hi
  have h1 := elapsedNow_le_tick hinv.1 hw
  refine ⟨by unfold simNow; omega, by unfold simNow; omega, fun hpos => ?_, rfl⟩
  have h2 := elapsedNow_lt_tick hpos hinv.1 hw
  unfold simNow; omega

/-- the window start itself: right after `turn i`, unless a sleep of the host ends inside this window
    (here: no sleep is pending), the host reads exactly the simulation's clock. -/
theorem window_start_reads_sim_clock (w0 : World) (h0 : w0.hosts = []) (pre : List Step) (i : Nat)
    (hi : i < (run w0 pre).hosts.length) (hw : ((run w0 pre).host! i).wake = none) (epoch : Nat) :
    simNow ((run w0 (pre ++ [.turn i])).host! i) = (run w0 (pre ++ [.turn i])).elapsed ∧
    epochNow epoch ((run w0 (pre ++ [.turn i])).host! i) = epoch + (run w0 (pre ++ [.turn i])).elapsed := by
  have hr : Reach w0 (run w0 (pre ++ [.turn i])) := reach_run _ _
  have hlen : i < (run w0 (pre ++ [.turn i])).hosts.length := by rw [run_len, nRegs_append]; rw [run_len] at hi; omega
  refine (consistency_reach w0 _ h0 hr i hlen epoch).2.2.2 ?_
  rw [run_append]
  show ((applyStep (run w0 pre) (.turn i)).host! i).hnow = ((applyStep (run w0 pre) (.turn i)).host! i).winStart
  have e := clk_host!_of_tv (tv_applyStep (run w0 pre) (.turn i)) i
  rw [clk_hnow e, clk_winStart e]
  show (((run w0 pre).turnBegin i).host! i).hnow = (((run w0 pre).turnBegin i).host! i).winStart
  unfold turnBegin
  rw [C04.host!_setHost_self _ _ _ hi]
  unfold hostTurnBegin
  rw [hw]

/-! ## 3. host code only observes times inside the window of the step it runs in -/

/-- the trace shape "between a `turn h` and the next `stepEnd`" sets the ghost flag. -/
theorem turned_of_turn (pre mid : List Step) (h : Nat) (hmid : nEnds mid = 0) :
    turned (pre ++ Step.turn h :: mid) h = true := turnedFrom_turn _ pre mid h hmid

/-- **C05, window**: in a run from a World without hosts, at every point at which code of the registered
    host `h` can run — after a `turn h`, before the next `stepEnd`, whatever else was executed in between:
    calls of `h` itself including sleeps, turns and calls of other hosts, deliveries, even a crash or a
    bounce of `h` — the host's runtime Instant lies in `[winStart, winStart + ceilMs tick)` and what
    `opClock` reports as `elapsed()` lies in `[elapsed, elapsed + ceilMs tick)`, where `elapsed` is the host
    timer at the start of the step.  This is the window the model guarantees as such for any tick > 0; it is
    `ceilMs tick` wide because the paused tokio runtime's clock advances `ceilMs tick` per step
    (cf. F-C05-1).  Moreover the runtime clock only ever moves on the millisecond grid, so the reading is
    even `< elapsed + tick`: the "window of the step" clause of C05 holds in the model for every tick > 0,
    whole milliseconds or not — F-C05-1 is not about readings leaving the window but about where windows
    *start*: the runtime's window start moves `ceilMs tick` per step, the host timer `tick`
    (`sleep_across_steps`). -/
theorem reach_in_window (w0 : World) (h0 : w0.hosts = []) (sts : List Step) (h : Nat)
    (hh : h < (run w0 sts).hosts.length) (ht : turned sts h = true) (hpos : 0 < w0.cfg.tick) :
    InWindow (ceilMs w0.cfg.tick) ((run w0 sts).host! h) ∧
    ((run w0 sts).host! h).elapsed ≤ elapsedNow ((run w0 sts).host! h) ∧
    elapsedNow ((run w0 sts).host! h) < ((run w0 sts).host! h).elapsed + ceilMs w0.cfg.tick ∧
    elapsedNow ((run w0 sts).host! h) < ((run w0 sts).host! h).elapsed + w0.cfg.tick ∧
    applyHOp (run w0 sts) h .clock =
      (run w0 sts, s!"ok elapsed={elapsedNow ((run w0 sts).host! h)} sim={simNow ((run w0 sts).host! h)} epoch={epochNow 1700000000123456789 ((run w0 sts).host! h)} inst={((run w0 sts).host! h).hnow - ((run w0 sts).host! h).t0}") := by
  have hinv := winv_run w0 sts _ (winv_init w0 (fun _ => false) h0) h hh
  rw [run_cfg] at hinv
  have hw := hinv.2 ht
  have hA : 0 < ceilMs w0.cfg.tick := by unfold ceilMs; omega
  have hin := hw.inWindow hA
  have h2 := elapsedNow_lt_tick hpos hinv.1 hw
  refine ⟨hin, h2.1, ?_, h2.2, rfl⟩
  unfold InWindow at hin; unfold elapsedNow; omega

/-- for ticks that are a whole number of milliseconds the window is exactly `[elapsed, elapsed + tick)`. -/
theorem reach_in_window_whole_ms (w0 : World) (h0 : w0.hosts = []) (sts : List Step) (h k : Nat)
    (hh : h < (run w0 sts).hosts.length) (ht : turned sts h = true) (hk : w0.cfg.tick = k * 1000000) (hpos : 0 < k) :
    InWindow w0.cfg.tick ((run w0 sts).host! h) ∧
    ((run w0 sts).host! h).elapsed ≤ elapsedNow ((run w0 sts).host! h) ∧
    elapsedNow ((run w0 sts).host! h) < ((run w0 sts).host! h).elapsed + w0.cfg.tick := by
  have := reach_in_window w0 h0 sts h hh ht (by omega)
  rw [hk, ceilMs_whole] at this
  rw [hk]
  exact ⟨this.1, this.2.1, this.2.2.1⟩

/-- without the assumption `tick > 0` (tick 0: the window is empty and the host reads the host timer). -/
theorem reach_in_window_any_tick (w0 : World) (h0 : w0.hosts = []) (sts : List Step) (h : Nat)
    (hh : h < (run w0 sts).hosts.length) (ht : turned sts h = true) :
    ((run w0 sts).host! h).elapsed ≤ elapsedNow ((run w0 sts).host! h) ∧
    elapsedNow ((run w0 sts).host! h) ≤ ((run w0 sts).host! h).elapsed + w0.cfg.tick := by
  have hinv := winv_run w0 sts _ (winv_init w0 (fun _ => false) h0) h hh
  rw [run_cfg] at hinv
  exact elapsedNow_le_tick hinv.1 (hinv.2 ht)

/-- the invariant behind it, for every registered host of every reachable World: the runtime clock is
    on the millisecond grid (window start, the task's Instant, a pending wake-up). -/
theorem reach_grid (w0 w : World) (h0 : w0.hosts = []) (hr : Reach w0 w) (i : Nat) (hi : i < w.hosts.length) :
    Grid (w.host! i) := by
  obtain ⟨sts, rfl⟩ := exists_run_of_reach hr
  exact (winv_run w0 sts _ (winv_init w0 (fun _ => false) h0) i hi).1

/-! ## non-vacuity: concrete runs -/

/-- tick 2 ms.  Host 0 registered at time 0; step 1: it sleeps 1 ms inside the window and reads the clock;
    between steps it is crashed; step 2 passes without it; it is bounced and host 1 is registered (at 2
    ticks); step 3: both begin their turns, host 1 starts a 3 ms sleep, host 0 reads the clock. -/
def demoPre : List Step :=
  [ .register 1 false,
    .stepBegin, .turn 0, .host 0 (.sleep 1), .host 0 .clock, .stepEnd,
    .crash 0, .stepBegin, .stepEnd,
    .bounce 0 ]
def demoPost : List Step :=
  [ .stepBegin, .turn 0, .turn 1, .host 1 (.sleep 3), .host 0 .clock ]
def demoRun : List Step := demoPre ++ Step.register 2 false :: demoPost

/-- the hypotheses of the theorems above on `demoRun`: reachable, disciplined, two hosts, both in their
    turn at the end, host 0 already in its turn at the first `clock` (prefix of length 4). -/
example : Reach tick2 (run tick2 demoRun) ∧ Sched demoRun ∧ (run tick2 demoRun).hosts.length = 2 ∧
    turned demoRun 0 = true ∧ turned demoRun 1 = true ∧ turned (demoRun.take 4) 0 = true ∧
    0 < (run tick2 (demoRun.take 4)).hosts.length ∧ 0 < tick2.cfg.tick :=
  ⟨reach_run _ _, by decide, by rw [run_len]; decide, by decide, by decide, by decide, by rw [run_len]; decide, by decide⟩

/-- `reach_synced` / `reach_step_counts` on it: host 1 joined at 2 ticks with a zero timer, host 0 has
    counted both steps although it was crashed during the second, `Sim::elapsed` = 2 ticks. -/
example : Synced (run tick2 demoRun) := reach_synced tick2 _ rfl (reach_run _ _)

example : ((run tick2 demoRun).host! 1).startOffset = 4000000 ∧ ((run tick2 demoRun).host! 1).elapsed = 0 ∧
    ((run tick2 demoRun).host! 0).elapsed = 4000000 ∧ (run tick2 demoRun).elapsed = 4000000 := by
  have h := reach_step_counts tick2 demoPre demoPost 2 false
  have hl : (run tick2 demoPre).hosts.length = 1 := by rw [run_len]; decide
  simp only [hl] at h
  have hc := (reach_step_counts tick2 [] (demoRun.tail) 1 false)
  refine ⟨h.2.1, h.2.2.1, hc.2.2.1, h.2.2.2⟩

/-- `reach_observed_monotone` between host 0's two `clock` calls (first step; third step after the crash,
    the idle step and the bounce): 1 ms ≤ 4 ms. -/
example : elapsedNow ((run tick2 (demoRun.take 4)).host! 0) ≤ elapsedNow ((run tick2 demoRun).host! 0) :=
  (reach_observed_monotone tick2 rfl (demoRun.take 4) (demoRun.drop 4) 0 (by decide) (by rw [run_len]; decide)
    (by decide) (by decide) 0).1

example : elapsedNow ((run tick2 (demoRun.take 4)).host! 0) = 1000000 ∧ elapsedNow ((run tick2 demoRun).host! 0) = 4000000 ∧
    simNow ((run tick2 demoRun).host! 1) = 4000000 ∧ ((run tick2 demoRun).host! 1).wake = some 3000000 := by
  rw [elapsedNow_congr (clk_run_crun _ _ 0), elapsedNow_congr (clk_run_crun _ _ 0), simNow_congr (clk_run_crun _ _ 1),
    clk_wake (clk_run_crun _ _ 1)]
  decide

/-- `reach_in_window` / `consistency_in_turn` at host 0's first `clock` call: it reads 1 ms inside the
    window `[0, 2 ms)` of the first step. -/
example : InWindow (ceilMs tick2.cfg.tick) ((run tick2 (demoRun.take 4)).host! 0) :=
  (reach_in_window tick2 rfl (demoRun.take 4) 0 (by rw [run_len]; decide) (by decide) (by decide)).1

example : (run tick2 (demoRun.take 4)).elapsed ≤ simNow ((run tick2 (demoRun.take 4)).host! 0) :=
  (consistency_in_turn tick2 rfl (demoRun.take 4) 0 (by rw [run_len]; decide) (by decide) 0).1

/-- `window_start_reads_sim_clock` for host 1's first turn (`demoRun.take 13` ends just before it). -/
example : simNow ((run tick2 (demoRun.take 13 ++ [.turn 1])).host! 1) = (run tick2 (demoRun.take 13 ++ [.turn 1])).elapsed :=
  (window_start_reads_sim_clock tick2 rfl (demoRun.take 13) 1 (by rw [run_len]; decide)
    (by rw [clk_wake (clk_run_crun _ _ 1)]; decide) 0).1

/-- a tick that is not a whole number of milliseconds (1.5 ms): the theorems apply as well, the Instant
    window is 2 ms wide, the reading stays below 1.5 ms. -/
def tick15 : World := { cfg := { tick := 1500000 } }

example : elapsedNow ((run tick15 sleptInTurn).host! 0) < ((run tick15 sleptInTurn).host! 0).elapsed + 1500000 :=
  (reach_in_window tick15 rfl sleptInTurn 0 (by rw [run_len]; decide) (by decide) (by decide)).2.2.2.1

example : elapsedNow ((run tick15 sleptInTurn).host! 0) = 1000000 ∧ ceilMs tick15.cfg.tick = 2000000 := by
  rw [elapsedNow_congr (clk_run_crun _ _ 0)]
  decide

end TV.C05
