import TvCore.Model.Ops
import TvCore.Proofs.ListUtil
/-
  C04 — a crashed host stops dead, releases everything, and restarts cleanly.

  Frame theorem: `crash h` / `bounce h` (every destructor of every socket object of `h`, in any
  number) change no other host's state — tables, sockets, clock, script position.  Release lemmas:
  each destructor removes its object's table entry.
-/
namespace TV.C04
open TV TV.World

/-- every host other than `h`, in order. -/
def others (h : Nat) (w : World) : List Host := w.hosts.eraseIdx h

theorem eraseIdx_setAt {α : Type} (l : List α) (i : Nat) (f : α → α) : (setAt l i f).eraseIdx i = l.eraseIdx i := by
  induction l generalizing i with
  | nil => rfl
  | cons x xs ih => cases i <;> simp [setAt, ih]

@[simp] theorem others_setHost (w : World) (h : Nat) (f : Host → Host) : others h (w.setHost h f) = others h w := by
  simp [others, setHost, eraseIdx_setAt]

@[simp] theorem hosts_tag (w : World) (t : String) : (w.tag t).hosts = w.hosts := by unfold tag; split <;> rfl
@[simp] theorem hosts_panic (w : World) (t : String) : (w.panic t).hosts = w.hosts := by unfold World.panic; split <;> rfl
@[simp] theorem hosts_dropSyn (w : World) (id : Nat) : (w.dropSyn id).hosts = w.hosts := rfl
@[simp] theorem hosts_setChan (w : World) (c : Nat) (f : Chan → Chan) : (w.setChan c f).hosts = w.hosts := rfl

@[simp] theorem hosts_dropEnvs (w : World) (es : List Env) : (w.dropEnvs es).hosts = w.hosts := by
  unfold dropEnvs
  induction es generalizing w with
  | nil => rfl
  | cons e es ih =>
    simp only [List.foldl_cons]
    rw [ih]
    cases e.msg <;> simp

@[simp] theorem hosts_popFail (w : World) : (w.popFail).2.hosts = w.hosts := by
  unfold popFail; split <;> rfl
@[simp] theorem hosts_popRepair (w : World) : (w.popRepair).2.hosts = w.hosts := by
  unfold popRepair; split <;> rfl
@[simp] theorem hosts_popDelay (w : World) : (w.popDelay).2.hosts = w.hosts := by
  unfold popDelay; split <;> rfl

@[simp] theorem hosts_linkEnqueue (w : World) (li s d : Nat) (e : Env) : (w.linkEnqueue li s d e).hosts = w.hosts := by
  unfold linkEnqueue
  split
  · rfl
  · simp only
    repeat' split
    all_goals simp

@[simp] theorem hosts_sendMessage (w : World) (e : Env) : (w.sendMessage e).2.hosts = w.hosts := by
  unfold sendMessage
  repeat' split
  all_goals simp

/-- predicate: the transition touches only host `h` (and global tables). -/
def Only (h : Nat) (w w' : World) : Prop := others h w' = others h w ∧ w'.hosts.length = w.hosts.length

theorem Only.refl (h : Nat) (w : World) : Only h w w := ⟨rfl, rfl⟩
theorem Only.trans {h : Nat} {a b c : World} (h1 : Only h a b) (h2 : Only h b c) : Only h a c :=
  ⟨h2.1.trans h1.1, h2.2.trans h1.2⟩

theorem only_of_hosts {h : Nat} {w w' : World} (e : w'.hosts = w.hosts) : Only h w w' := by
  unfold Only others; rw [e]; exact ⟨rfl, rfl⟩

theorem only_setHost (h : Nat) (w : World) (f : Host → Host) : Only h w (w.setHost h f) :=
  ⟨others_setHost w h f, by simp [setHost]⟩

theorem only_ite {h : Nat} {w a b : World} (c : Prop) [Decidable c] (ha : Only h w a) (hb : Only h w b) :
    Only h w (if c then a else b) := by
  split <;> assumption

theorem host!_setHost_self (w : World) (h : Nat) (f : Host → Host) (hh : h < w.hosts.length) :
    (w.setHost h f).host! h = f (w.host! h) := by
  unfold host! setHost
  exact setAt_getD _ _ _ _ hh

theorem only_tag {h : Nat} {w w' : World} (t : String) (hw : Only h w w') : Only h w (w'.tag t) :=
  hw.trans (only_of_hosts (hosts_tag w' t))

theorem only_sendLoopback (h : Nat) (w : World) (e : Env) : Only h w (w.sendLoopback h e) := by
  unfold sendLoopback; exact only_tag _ (only_setHost h w _)

theorem only_netSend (h : Nat) (w : World) (e : Env) : Only h w (w.netSend h e).2 := by
  unfold netSend
  split
  · exact only_sendLoopback h w e
  · exact only_of_hosts (hosts_sendMessage w e)

theorem only_removeSock (h : Nat) (w : World) (loc rem : Addr) : Only h w (w.removeSock h loc rem) := by
  unfold removeSock
  split
  · exact Only.refl h w
  · exact (only_setHost h w _).trans (only_of_hosts (hosts_setChan _ _ _))

theorem only_closeStreamHalf (h : Nat) (w : World) (loc rem : Addr) : Only h w (w.closeStreamHalf h loc rem) := by
  unfold closeStreamHalf
  simp only
  split
  · exact (only_setHost h w _).trans (only_of_hosts (hosts_setChan _ _ _))
  · exact only_setHost h w _

theorem only_mgLeaveAll (h : Nat) (w : World) (m : Addr) : Only h w (w.mgLeaveAll m) := only_of_hosts rfl

theorem only_udpUnbind (h : Nat) (w : World) (p : Nat) : Only h w (w.udpUnbind h p) := by
  unfold udpUnbind
  refine Only.trans ?_ (only_setHost h _ _)
  split
  · exact Only.refl h w
  · exact only_of_hosts (hosts_panic w _)

theorem only_foldl_dropSyn (h : Nat) (w : World) (l : List SynReq) :
    Only h w (l.foldl (fun w s => w.dropSyn s.id) w) := by
  induction l generalizing w with
  | nil => exact Only.refl h w
  | cons x xs ih => exact (only_of_hosts (hosts_dropSyn w x.id)).trans (ih _)

theorem only_tcpUnbind (h : Nat) (w : World) (p : Nat) : Only h w (w.tcpUnbind h p) := by
  unfold tcpUnbind
  split
  · exact only_of_hosts (hosts_panic w _)
  · exact (only_setHost h w _).trans (only_foldl_dropSyn h _ _)

theorem only_dropRead (h : Nat) (w : World) (r : RdH) : Only h w (w.dropRead h r) := by
  unfold dropRead
  simp only
  have h0 : Only h w (w.setChan r.chan fun c => { c with rxAlive := false }) := only_of_hosts rfl
  apply only_ite
  · exact only_tag _ ((h0.trans (only_netSend h _ _)).trans (only_removeSock h _ _ _))
  · exact h0.trans (only_closeStreamHalf h _ _ _)

theorem only_dropWrite (h : Nat) (w : World) (x : WrH) : Only h w (w.dropWrite h x) := by
  unfold dropWrite
  refine Only.trans ?_ (only_closeStreamHalf h _ _ _)
  split
  · split
    · exact (only_setHost h w _).trans (only_netSend h _ _)
    · exact Only.refl h w
  · exact Only.refl h w

/-- **Destructors are local**: dropping any socket object of host `h` leaves every other host as it
    is (it may put FIN / RST on links and refuse queued connectors — global tables). -/
theorem only_dropObj (h : Nat) (w : World) (o : Obj) : Only h w (w.dropObj h o) := by
  unfold dropObj
  cases o with
  | udp loc stash => exact (only_mgLeaveAll h w _).trans (only_udpUnbind h _ _)
  | listener loc => exact only_tcpUnbind h w _
  | connecting id loc rem chan fcW =>
    simp only
    have h1 : Only h w { w with syns := setAt w.syns id fun c => { c with rxAlive := false } } := only_of_hosts rfl
    have h2 := h1.trans (only_of_hosts (hosts_setChan _ chan fun c => { c with rxAlive := false }))
    have h3 := only_tag "connectdropped" h2
    split
    · exact h3.trans (only_removeSock h _ _ _)
    · exact h3
  | stream rd wr =>
    simp only
    have h1 : Only h w (match rd with | some r => w.dropRead h r | none => w) := by
      cases rd with
      | some r => exact only_dropRead h w r
      | none => exact Only.refl h w
    cases wr with
    | some x => exact h1.trans (only_dropWrite h _ x)
    | none => exact h1

theorem only_foldl_dropObj (h : Nat) (objs : List (Nat × Obj)) (w : World) :
    Only h w (objs.foldl (fun w p => w.dropObj h p.2) w) := by
  induction objs generalizing w with
  | nil => exact Only.refl h w
  | cons x xs ih => exact (only_dropObj h w x.2).trans (ih _)

theorem only_dropAll (h : Nat) (w : World) : Only h w (w.dropAll h) := by
  unfold dropAll
  simp only
  exact ((only_setHost h w _).trans (only_of_hosts (hosts_dropEnvs _ _))).trans (only_foldl_dropObj h _ _)

/-- **C04 frame**: crashing host `h` — however many sockets, streams, listeners, pending connects
    and in-flight loopback messages it holds — changes no other host. -/
theorem only_crash (h : Nat) (w : World) : Only h w (w.crash h) := by
  unfold crash
  exact (only_ite _ (only_dropAll h w) (Only.refl h w)).trans (only_setHost h _ _)

theorem crash_frame (h : Nat) (w : World) : others h (w.crash h) = others h w := (only_crash h w).1

/-- … and so does bouncing it. -/
theorem bounce_frame (h : Nat) (w : World) : others h (w.bounce h) = others h w := by
  unfold bounce
  exact ((only_dropAll h w).trans (only_setHost h _ _)).1

/-- **Stops dead**: after `crash` the host is not running; every later step skips it until it is
    bounced (`TURN` lines and `deliverTo` exist only for running hosts). -/
theorem crash_stops (h : Nat) (w : World) (hh : h < w.hosts.length) :
    ((w.crash h).host! h).running = false := by
  unfold crash
  have hl : h < (if (w.host! h).running = true then w.dropAll h else w).hosts.length := by
    have := (only_ite (h := h) (w := w) ((w.host! h).running = true) (only_dropAll h w) (Only.refl h w)).2
    omega
  rw [host!_setHost_self _ _ _ hl]

/-- **Release, per destructor**: after a UDP socket is dropped its port is unbound … -/
theorem udp_unbound (w : World) (h p : Nat) (hh : h < w.hosts.length) :
    udpPortUsed ((w.udpUnbind h p).host! h) p = false := by
  unfold udpUnbind
  have hl : h < (if (w.host! h).udp.any (·.port == p) = true then w else w.panic "unknown bind").hosts.length := by
    split
    · exact hh
    · rw [hosts_panic]; exact hh
  rw [host!_setHost_self _ _ _ hl]
  simp [udpPortUsed]

/-- … and after a listener is dropped its port can be bound again. -/
theorem listener_unbound (w : World) (h p : Nat) (hh : h < w.hosts.length)
    (hb : ((w.host! h).tcpBinds.find? (·.port == p)).isSome) :
    ((w.tcpUnbind h p).host! h).tcpBinds.any (·.port == p) = false := by
  unfold tcpUnbind
  cases hf : (w.host! h).tcpBinds.find? (·.port == p) with
  | none => simp [hf] at hb
  | some b =>
    simp only
    have hhosts : ∀ (l : List SynReq) (w' : World), (l.foldl (fun w s => w.dropSyn s.id) w').hosts = w'.hosts := by
      intro l
      induction l with
      | nil => intro w'; rfl
      | cons x xs ih => intro w'; simp only [List.foldl_cons]; rw [ih]; rfl
    have e : ∀ w' : World, (b.deque.foldl (fun w s => w.dropSyn s.id) w').host! h = w'.host! h := by
      intro w'; unfold host!; rw [hhosts]
    rw [e, host!_setHost_self _ _ _ hh]
    simp

end TV.C04
