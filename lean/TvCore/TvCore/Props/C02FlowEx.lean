import TvCore.Props.C02FlowRun
/-
  C02, flow control — non-vacuity of the run-level theorems: a concrete run (built from driver steps only) all
  of whose states satisfy `Estab` and all of whose steps satisfy `StepOk`; plus the decidable criterion
  `estab_of_dec` by which `Estab` is checked on a concrete world.
-/
namespace TV.C02
open TV TV.World

instance (D : Dir) (h : Nat) (x : WrH) : Decidable (Mine D h x) :=
  inferInstanceAs (Decidable (x.loc = D.loc ∧ x.rem = D.rem ∧ (isSame D.loc D.rem = true → h = D.b)))

instance (D : Dir) (h : Nat) (loc rem : Addr) : Decidable (NotRd D h loc rem) :=
  inferInstanceAs (Decidable (¬ (h = D.b ∧ loc = D.rem ∧ rem = D.loc)))

def WrEst (D : Dir) (h : Nat) : Option WrH → Prop
  | some x => (Mine D h x ∧ x.fc = D.f) ∨ (¬ Mine D h x ∧ D.f ≠ x.fc)
  | none => True

def RdEst (D : Dir) (h : Nat) : Option RdH → Prop
  | some r => (h = D.b ∧ r.chan = D.c ∧ r.fc = D.f ∧ r.loc = D.rem ∧ r.rem = D.loc) ∨
      (D.c ≠ r.chan ∧ D.f ≠ r.fc ∧ NotRd D h r.loc r.rem)
  | none => True

/-- the object-level part of `Estab`, one object. -/
def ObjEst (D : Dir) (h : Nat) : Obj → Prop
  | .stream rd wr => WrEst D h wr ∧ RdEst D h rd
  | .connecting _ loc rem chan _ => D.c ≠ chan ∧ NotRd D h loc rem
  | .udp _ _ => True
  | .listener _ => True

instance (D : Dir) (h : Nat) : (o : Option WrH) → Decidable (WrEst D h o)
  | some x => inferInstanceAs (Decidable ((Mine D h x ∧ x.fc = D.f) ∨ (¬ Mine D h x ∧ D.f ≠ x.fc)))
  | none => inferInstanceAs (Decidable True)

instance (D : Dir) (h : Nat) : (o : Option RdH) → Decidable (RdEst D h o)
  | some r => inferInstanceAs (Decidable ((h = D.b ∧ r.chan = D.c ∧ r.fc = D.f ∧ r.loc = D.rem ∧ r.rem = D.loc) ∨
      (D.c ≠ r.chan ∧ D.f ≠ r.fc ∧ NotRd D h r.loc r.rem)))
  | none => inferInstanceAs (Decidable True)

instance (D : Dir) (h : Nat) : (o : Obj) → Decidable (ObjEst D h o)
  | .stream rd wr => inferInstanceAs (Decidable (WrEst D h wr ∧ RdEst D h rd))
  | .connecting _ loc rem chan _ => inferInstanceAs (Decidable (D.c ≠ chan ∧ NotRd D h loc rem))
  | .udp _ _ => inferInstanceAs (Decidable True)
  | .listener _ => inferInstanceAs (Decidable True)

theorem host!_default_of_ge (w : World) (h : Nat) (hge : ¬ h < w.hosts.length) : w.host! h = default := by
  unfold World.host!
  rw [List.getD_eq_getElem?_getD, List.getElem?_eq_none (by omega)]; rfl

/-- **`Estab` from decidable checks** over the (finitely many) hosts, sockets and socket objects of a world. -/
theorem estab_of_dec (D : Dir) (w : World) (v0 : List (Nat × Seg) × Nat × Nat)
    (hnf : C09.NoFailCoin w) (hf : D.f < w.fcs.length) (hc : D.c < w.chans.length)
    (hv : skv D (w.host! D.b).socks = some v0) (hvc : v0.2.2 = D.c) (hvn : (v0.1.map (·.1)).Nodup)
    (hal : (w.chan! D.c).rxAlive = true)
    (hsc : ∀ h, h < w.hosts.length → ∀ sk ∈ (w.host! h).socks, sk.chan = D.c → h = D.b ∧ sk.loc = D.rem ∧ sk.rem = D.loc)
    (hg : C09.GeoW w) (hipb : (w.host! D.b).ipnum = D.nb)
    (hipu : ∀ h, h < w.hosts.length → (w.host! h).ipnum = D.nb → h = D.b)
    (hobj : ∀ h, h < w.hosts.length → ∀ p ∈ (w.host! h).objs, ObjEst D h p.2) : Estab D w := by
  have hobj' : ∀ h, ∀ p ∈ (w.host! h).objs, ObjEst D h p.2 := by
    intro h p hp
    by_cases hh : h < w.hosts.length
    · exact hobj h hh p hp
    · rw [host!_default_of_ge w h hh] at hp; cases hp
  refine ⟨⟨⟨⟨hnf, hf, hc⟩, by rw [hv]; rfl⟩, ⟨hal, fun v hv' => by rw [hv] at hv'; cases hv'; exact ⟨hvc, hvn⟩⟩, ?_⟩, hg, hipb, hipu, ?_, ?_, ?_⟩
  · intro h sk hs hch
    by_cases hh : h < w.hosts.length
    · exact hsc h hh sk hs hch
    · rw [host!_default_of_ge w h hh] at hs; cases hs
  · intro h p hp rd x hpe
    have := hobj' h p hp
    rw [hpe] at this
    exact this.1
  · intro h p hp r wr hpe
    have := hobj' h p hp
    rw [hpe] at this
    exact this.2
  · intro h p hp id loc rem chan fcW hpe
    have := hobj' h p hp
    rw [hpe] at this
    exact this

/-! ### a concrete run -/

def flowOracle : List Ora := (List.range 8).flatMap (fun _ => [Ora.fail false, Ora.delay 0])

def flowCfg : WCfg := { fixConnectLeak := true, fixFinRedrain := true, fixWriterReset := true, link := Cfg.fixed }

def flowInit : World := { cfg := flowCfg, oracle := flowOracle }

/-- `h0` listens on 80, `h1` connects (slot 0), `h0` accepts (slot 1), `h1` sees the ack. -/
def flowSetup : List Step :=
  [ .register 1 false, .register 2 true,
    .host 0 (.tcpBind 0 ⟨.any, 80⟩),
    .host 1 (.tcpConnect 0 ⟨.host 0, 80⟩),
    .turn 0,
    .host 0 (.tcpAccept 0 1),
    .host 1 (.tcpCPoll 0) ]

def flowW : World := LW.run flowInit flowSetup

/-- the direction `h1 → h0`: reader on host 0 (ip number 1), pair `h1:49152 → h0:80`, cell 0, channel 1. -/
def flowDir : Dir := { b := 0, nb := 1, loc := ⟨.host 1, 49152⟩, rem := ⟨.host 0, 80⟩, f := 0, c := 1 }

/-- write two bytes, the clock ticks, `h0`'s turn (the segment arrives), `h0` peeks and reads, a UDP bind on the
    side, the step ends. -/
def flowRun : List Step :=
  [ .host 1 (.tcpWrite 0 "4142"), .stepBegin, .turn 0, .host 0 (.tcpPeek 1 1), .host 0 (.tcpRead 1 8),
    .host 1 (.udpBind 5 ⟨.any, 9⟩), .stepEnd ]

theorem flow_geo (sts : List Step) : C09.GeoW (LW.run flowInit sts) := C09.geoW_run flowInit sts (C09.geoW_empty _ rfl)

theorem flow_estab (k : Nat) (v0 : List (Nat × Seg) × Nat × Nat)
    (hv : skv flowDir ((LW.run flowInit (flowSetup ++ flowRun.take k)).host! 0).socks = some v0)
    (hvc : v0.2.2 = 1) (hvn : (v0.1.map (·.1)).Nodup)
    (hrest : C09.NoFailCoin (LW.run flowInit (flowSetup ++ flowRun.take k)) ∧
      0 < (LW.run flowInit (flowSetup ++ flowRun.take k)).fcs.length ∧ 1 < (LW.run flowInit (flowSetup ++ flowRun.take k)).chans.length ∧
      ((LW.run flowInit (flowSetup ++ flowRun.take k)).chan! 1).rxAlive = true ∧
      (∀ h, h < (LW.run flowInit (flowSetup ++ flowRun.take k)).hosts.length →
        ∀ sk ∈ ((LW.run flowInit (flowSetup ++ flowRun.take k)).host! h).socks, sk.chan = flowDir.c →
          h = flowDir.b ∧ sk.loc = flowDir.rem ∧ sk.rem = flowDir.loc) ∧
      ((LW.run flowInit (flowSetup ++ flowRun.take k)).host! 0).ipnum = 1 ∧
      (∀ h, h < (LW.run flowInit (flowSetup ++ flowRun.take k)).hosts.length →
        ((LW.run flowInit (flowSetup ++ flowRun.take k)).host! h).ipnum = flowDir.nb → h = flowDir.b) ∧
      (∀ h, h < (LW.run flowInit (flowSetup ++ flowRun.take k)).hosts.length →
        ∀ p ∈ ((LW.run flowInit (flowSetup ++ flowRun.take k)).host! h).objs, ObjEst flowDir h p.2)) :
    Estab flowDir (LW.run flowInit (flowSetup ++ flowRun.take k)) :=
  estab_of_dec flowDir _ v0 hrest.1 hrest.2.1 hrest.2.2.1 hv hvc hvn hrest.2.2.2.1 hrest.2.2.2.2.1 (flow_geo _)
    hrest.2.2.2.2.2.1 hrest.2.2.2.2.2.2.1 hrest.2.2.2.2.2.2.2


instance (D : Dir) (e : Env) : Decidable (dirRst D e) :=
  inferInstanceAs (Decidable (e.src = D.loc ∧ e.dst = D.rem ∧ e.msg = .rst))

/-- the `k`-th state of the run. -/
abbrev flowAt (k : Nat) : World := LW.run flowInit (flowSetup ++ flowRun.take k)

theorem flow_estab_at (k : Nat) (v0 : List (Nat × Seg) × Nat × Nat)
    (hv : skv flowDir ((flowAt k).host! 0).socks = some v0) (hvc : v0.2.2 = 1) (hvn : (v0.1.map (·.1)).Nodup)
    (h1 : C09.NoFailCoin (flowAt k)) (h2 : 0 < (flowAt k).fcs.length) (h3 : 1 < (flowAt k).chans.length)
    (h4 : ((flowAt k).chan! 1).rxAlive = true)
    (h5 : ∀ h, h < (flowAt k).hosts.length → ∀ sk ∈ ((flowAt k).host! h).socks, sk.chan = flowDir.c →
          h = flowDir.b ∧ sk.loc = flowDir.rem ∧ sk.rem = flowDir.loc)
    (h6 : ((flowAt k).host! 0).ipnum = 1)
    (h7 : ∀ h, h < (flowAt k).hosts.length → ((flowAt k).host! h).ipnum = flowDir.nb → h = flowDir.b)
    (h8 : ∀ h, h < (flowAt k).hosts.length → ∀ p ∈ ((flowAt k).host! h).objs, ObjEst flowDir h p.2) :
    Estab flowDir (flowAt k) :=
  flow_estab k v0 hv hvc hvn ⟨h1, h2, h3, h4, h5, h6, h7, h8⟩

theorem flow_estab0 : Estab flowDir (flowAt 0) :=
  flow_estab_at 0 ([], 0, 1) (by decide) rfl (by simp) (by unfold C09.NoFailCoin; decide) (by decide) (by decide) (by decide)
    (by decide) (by decide) (by decide) (by decide)
theorem flow_estab1 : Estab flowDir (flowAt 1) :=
  flow_estab_at 1 ([], 0, 1) (by decide) rfl (by simp) (by unfold C09.NoFailCoin; decide) (by decide) (by decide) (by decide)
    (by decide) (by decide) (by decide) (by decide)
theorem flow_estab2 : Estab flowDir (flowAt 2) :=
  flow_estab_at 2 ([], 0, 1) (by decide) rfl (by simp) (by unfold C09.NoFailCoin; decide) (by decide) (by decide) (by decide)
    (by decide) (by decide) (by decide) (by decide)
theorem flow_estab3 : Estab flowDir (flowAt 3) :=
  flow_estab_at 3 ([], 1, 1) (by decide) rfl (by simp) (by unfold C09.NoFailCoin; decide) (by decide) (by decide) (by decide)
    (by decide) (by decide) (by decide) (by decide)
theorem flow_estab4 : Estab flowDir (flowAt 4) :=
  flow_estab_at 4 ([], 1, 1) (by decide) rfl (by simp) (by unfold C09.NoFailCoin; decide) (by decide) (by decide) (by decide)
    (by decide) (by decide) (by decide) (by decide)
theorem flow_estab5 : Estab flowDir (flowAt 5) :=
  flow_estab_at 5 ([], 1, 1) (by decide) rfl (by simp) (by unfold C09.NoFailCoin; decide) (by decide) (by decide) (by decide)
    (by decide) (by decide) (by decide) (by decide)
theorem flow_estab6 : Estab flowDir (flowAt 6) :=
  flow_estab_at 6 ([], 1, 1) (by decide) rfl (by simp) (by unfold C09.NoFailCoin; decide) (by decide) (by decide) (by decide)
    (by decide) (by decide) (by decide) (by decide)

/-- the write of the run is by the direction's write half, its socket exists and its route is up. -/
theorem flow_write_ok : StepOk flowDir (flowAt 0) (.host 1 (.tcpWrite 0 "4142")) := by
  intro rd x ho _
  have e : (flowAt 0).getObj 1 0 =
      some (.stream (some { loc := ⟨.host 1, 49152⟩, rem := ⟨.host 0, 80⟩, chan := 0, fc := 1 })
        (some { loc := ⟨.host 1, 49152⟩, rem := ⟨.host 0, 80⟩, fc := 0 })) := rfl
  rw [e] at ho
  cases ho
  exact ⟨by decide, Or.inr ⟨by decide, 2, 0, (flowAt 0).links.getD 0 default, by decide, by decide, by decide, by decide, rfl,
    Or.inl (by decide)⟩⟩

theorem flow_turn_ok : StepOk flowDir (flowAt 2) (.turn 0) := ⟨by decide, fun _ => by decide⟩

/-- **the hypotheses of `credits_conserved_run` are satisfiable**: the run `flowRun` (a write of the
    direction, a clock tick, the reader's turn with the arrival, a peek, a read, an unrelated bind, the end of
    the step) from the established world `flowW`. -/
theorem flow_runOk : RunOk flowDir flowW flowRun :=
  ⟨flow_estab0, flow_write_ok, flow_estab1, trivial, flow_estab2, flow_turn_ok, flow_estab3, trivial,
   flow_estab4, trivial, flow_estab5, trivial, flow_estab6, trivial, trivial⟩

/-- … the balance holds at the start (64 credits, nothing anywhere), no panic is recorded at the end, so it
    holds at the end — and in between the credit count is 63 with the segment on the link / in the channel. -/
example : Bal flowDir 64 flowW ∧ (flowRun.foldl applyStep flowW).panicked = none ∧
    Bal flowDir 64 (flowRun.foldl applyStep flowW) ∧
    (flowAt 1).credits 0 = 63 ∧ netFl flowDir (flowAt 1) = 1 ∧ queued flowDir (flowAt 3) = 1 ∧ (flowAt 5).credits 0 = 64 :=
  have hb : Bal flowDir 64 flowW := by unfold Bal; decide
  have hn : (flowRun.foldl applyStep flowW).panicked = none := by decide
  ⟨hb, hn, credits_conserved_run flowDir 64 flowRun flowW flow_runOk hn hb, by decide, by decide, by decide, by decide⟩

end TV.C02
