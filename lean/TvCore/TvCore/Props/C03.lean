import TvCore.Proofs.LinkC03
/-
  C03 — nothing sent across an explicitly partitioned direction is ever delivered.

  Model: `TV.Link` (top.rs).  Ghost flag `Sent.bad` = "sent while its direction was explicitly
  partitioned".  The alphabet is every link operation except hold / release / manual delivery
  (outside the property).  Coins and delays are universally quantified oracle inputs, so the
  theorems cover every fail_rate / repair_rate and every latency.
-/
namespace TV.C03
open TV TV.Link

variable {M : Type}

/-- Full statement: in every run over the C03 alphabet, no message handed to a host was sent while
    its direction was explicitly partitioned. -/
def Statement (cfg : Cfg) : Prop :=
  ∀ (M : Type) (a b : Nat), a < b → ∀ ops : List (LinkOp M), (∀ op ∈ ops, op.inC03 = true) →
    ∀ s ∈ (Link.run cfg (Link.init a b cfg.fixMatured) ops).2, s.bad = false

/-- One step of the C03 alphabet preserves the invariant and hands over only good messages. -/
theorem step_fixed {l : Link M} (h : Inv l) (op : LinkOp M) (hop : op.inC03 = true) :
    Inv (Link.step Cfg.fixed l op).1 ∧ ∀ s ∈ (Link.step Cfg.fixed l op).2.1, s.bad = false := by
  cases op with
  | enqueue cf cr d ab m =>
      refine ⟨?_, by simp [Link.step]⟩
      cases ab
      · exact inv_enqueue_fixed h cf cr d l.b l.a m (Or.inr ⟨rfl, rfl⟩)
      · exact inv_enqueue_fixed h cf cr d l.a l.b m (Or.inl ⟨rfl, rfl⟩)
  | tick dt => exact ⟨inv_tick h _, by simp [Link.step]⟩
  | drain toB => exact inv_drain h _
  | partition => exact ⟨inv_explicitPartition h, by simp [Link.step]⟩
  | partitionOneway ab => exact ⟨inv_partitionDir h ab, by simp [Link.step]⟩
  | repair => exact ⟨inv_explicitRepair h, by simp [Link.step]⟩
  | repairOneway ab => exact ⟨inv_repairDir h ab, by simp [Link.step]⟩
  | hold => simp [LinkOp.inC03] at hop
  | release => simp [LinkOp.inC03] at hop
  | manualDeliver i => simp [LinkOp.inC03] at hop

theorem run_fixed {l : Link M} (h : Inv l) (ops : List (LinkOp M)) (hops : ∀ op ∈ ops, op.inC03 = true) :
    Inv (Link.run Cfg.fixed l ops).1 ∧ ∀ s ∈ (Link.run Cfg.fixed l ops).2, s.bad = false := by
  induction ops generalizing l with
  | nil => exact ⟨h, by simp [Link.run]⟩
  | cons op ops ih =>
      have hs := step_fixed h op (hops op (by simp))
      have hr := ih hs.1 (fun o ho => hops o (by simp [ho]))
      refine ⟨hr.1, ?_⟩
      intro s hm
      simp only [Link.run, List.mem_append] at hm
      rcases hm with hm | hm
      · exact hs.2 s hm
      · exact hr.2 s hm

/-- **C03 (never delivered), repaired random process**: for every op sequence, every coin and every
    delay, nothing sent across an explicitly partitioned direction is delivered. -/
theorem fixed : Statement Cfg.fixed := by
  intro M a b hab ops hops
  exact (run_fixed (inv_init a b hab _) ops hops).2

/-- … for a link of either variant of the ready-queue repair (the `Link` functions read only `fixRand`
    from `cfg`; the link carries its own `fixMatured`): in particular for the tree before the repair of
    F-C03-2, `Cfg.fixedRand`, whose links have `fixMatured = false`. -/
theorem fixed_any_flag (M : Type) (a b : Nat) (hab : a < b) (fm : Bool) (ops : List (LinkOp M))
    (hops : ∀ op ∈ ops, op.inC03 = true) : ∀ s ∈ (Link.run Cfg.fixed (Link.init a b fm) ops).2, s.bad = false :=
  (run_fixed (inv_init a b hab fm) ops hops).2

/-- The faithful model (the code as it stands) violates the statement: a one-way partition a→b, a
    send b→a whose fail coin comes up (both directions become `rand`, overwriting the explicit
    state), a send a→b whose repair coin comes up (`release()` makes both directions healthy):
    that second message is delivered although a→b is still explicitly partitioned. -/
def witnessOps : List (LinkOp Unit) :=
  [ .partitionOneway true,
    .enqueue true false 0 false (),
    .enqueue false true 0 true (),
    .tick 1,
    .drain true ]

theorem witness_rand_overrides_explicit : ¬ Statement Cfg.faithful := by
  intro h
  have h' := h Unit 0 1 (by decide) witnessOps (by decide)
  have hex : ∃ s ∈ (Link.run Cfg.faithful (Link.init 0 1) witnessOps).2, s.bad = true := by
    refine ⟨{ src := 0, dst := 1, status := .after 0, msg := (), id := 1, bad := true, sentAt := 0, delay := 0 }, ?_, rfl⟩
    decide
  obtain ⟨s, hs, hb⟩ := hex
  rw [h' s hs] at hb
  cases hb

/-- Decidable pattern of the known finding F-C03-1: some `enqueue` consults a coin that comes up
    while a direction is explicitly partitioned (the only way the faithful random process can
    overwrite an explicit state). -/
def usesCoins : LinkOp M → Bool
  | .enqueue cf cr _ _ _ => cf || cr
  | _ => false

/-- The faithful random step with both coins false is the identity. -/
theorem randStep_nocoins (cfg : Cfg) (l : Link M) : randStep cfg l false false = (l, []) := by
  unfold randStep; simp

/-- Without coins coming up, faithful and repaired models take the same step. -/
theorem step_nocoins (l : Link M) (op : LinkOp M) (h : usesCoins op = false) :
    Link.step Cfg.faithful l op = Link.step Cfg.fixed l op := by
  cases op with
  | enqueue cf cr d ab m =>
      simp only [usesCoins, Bool.or_eq_false_iff] at h
      obtain ⟨rfl, rfl⟩ := h
      simp [Link.step, Link.enqueue, randStep_nocoins]
  | _ => rfl

theorem run_nocoins (l : Link M) (ops : List (LinkOp M)) (h : ∀ op ∈ ops, usesCoins op = false) :
    Link.run Cfg.faithful l ops = Link.run Cfg.fixed l ops := by
  induction ops generalizing l with
  | nil => rfl
  | cons op ops ih =>
      simp only [Link.run]
      rw [step_nocoins l op (h op (by simp)), ih _ (fun o ho => h o (by simp [ho]))]

/-- **C03_partial (code as it stands)**: when no fail / repair coin comes up (in particular
    fail_rate = 0, the builder default), the unchanged code satisfies the statement. -/
theorem partial_nocoins (M : Type) (a b : Nat) (hab : a < b) (ops : List (LinkOp M))
    (hops : ∀ op ∈ ops, op.inC03 = true) (hc : ∀ op ∈ ops, usesCoins op = false) :
    ∀ s ∈ (Link.run Cfg.faithful (Link.init a b) ops).2, s.bad = false := by
  rw [run_nocoins _ _ hc]
  exact (run_fixed (inv_init a b hab) ops hops).2

/-- Messages in flight in the partitioned direction when a one-way partition is imposed are
    discarded: none remains on the link (all model variants). -/
theorem inflight_dropped (l : Link M) (ab : Bool) :
    ∀ s ∈ (l.partitionDir ab).1.sent, s.src ≠ (if ab then l.a else l.b) := by
  cases ab
  · simp only [partitionDir, Bool.false_eq_true, if_false]
    rw [(partitionOneway_fields l l.b l.a).2.2.1]
    intro s hs; simpa using (List.mem_filter.mp hs).2
  · simp only [partitionDir, if_true]
    rw [(partitionOneway_fields l l.a l.b).2.2.1]
    intro s hs; simpa using (List.mem_filter.mp hs).2

/-- A two-way partition discards everything in flight. -/
theorem inflight_dropped_twoway (l : Link M) : l.explicitPartition.1.sent = [] :=
  (explicitPartition_fields l).2.2.1

/-- A one-way partition leaves the reverse direction alone: its state, every in-flight message of the
    reverse direction (in order), and the ready queue of the reverse direction's destination; without the
    repair of F-C03-2 (`fixMatured = false`) both ready queues. -/
theorem reverse_unaffected (l : Link M) (hlt : l.a < l.b) (ab : Bool) :
    (l.partitionDir ab).1.stateFor (if ab then l.b else l.a) (if ab then l.a else l.b)
        = l.stateFor (if ab then l.b else l.a) (if ab then l.a else l.b)
    ∧ (l.partitionDir ab).1.sent.filter (fun s => s.src != (if ab then l.a else l.b))
        = l.sent.filter (fun s => s.src != (if ab then l.a else l.b))
    ∧ (if ab then (l.partitionDir ab).1.toA = l.toA else (l.partitionDir ab).1.toB = l.toB)
    ∧ (l.fixMatured = false → (l.partitionDir ab).1.toA = l.toA ∧ (l.partitionDir ab).1.toB = l.toB) := by
  have hnlt : ¬ l.b < l.a := Nat.not_lt.mpr (Nat.le_of_lt hlt)
  have hne : (l.b == l.a) = false := by simpa using (Nat.ne_of_gt hlt)
  cases ab
  · simp only [partitionDir, Bool.false_eq_true, if_false]
    obtain ⟨_, _, es, e1, _, _, _, _, _, _⟩ := partitionOneway_fields l l.b l.a
    simp only [hnlt, if_false] at e1
    refine ⟨by simp [stateFor, hlt, e1], by rw [es, List.filter_filter]; simp, ?_, ?_⟩
    · unfold partitionOneway clearReady; simp only; split <;> simp
    · intro hf; unfold partitionOneway; simp [hf, hnlt]
  · simp only [partitionDir, if_true]
    obtain ⟨_, _, es, _, e2, _, _, _, _, _⟩ := partitionOneway_fields l l.a l.b
    simp only [hlt, if_true] at e2
    refine ⟨by simp [stateFor, hnlt, e2], by rw [es, List.filter_filter]; simp, ?_, ?_⟩
    · unfold partitionOneway clearReady; simp only; split <;> simp [hne]
    · intro hf; unfold partitionOneway; simp [hf, hlt]

/-- After an explicit repair the direction is healthy again, and a message sent while healthy (no
    fail coin) is scheduled `delay` after the link's clock — i.e. traffic flows again. -/
theorem flows_after_repair (cfg : Cfg) (l : Link M) (d src dst : Nat) (m : M) (cr : Bool)
    (hs : l.explicitRepair.stateFor src dst = .healthy) :
    ∃ x, x ∈ ((l.explicitRepair.enqueueRaw d src dst m).1).sent ∧ x.msg = m ∧
         x.status = .after (l.now + d) ∧ x.bad = false := by
  refine ⟨{ src := src, dst := dst, status := .after (l.now + d), msg := m,
            id := l.nextId, bad := false, sentAt := l.now, delay := d }, ?_, rfl, rfl, rfl⟩
  unfold enqueueRaw
  rw [hs]
  simp [explicitRepair, exFor]

theorem repair_heals (l : Link M) (src dst : Nat) : l.explicitRepair.stateFor src dst = .healthy := by
  unfold explicitRepair stateFor; split <;> rfl

/-- Non-vacuity: a concrete fixed-model run over the alphabet that delivers a good message and drops
    a bad one. -/
example : ((Link.run Cfg.fixed (Link.init 0 1)
    [ LinkOp.enqueue false false 2 true (), .partitionOneway true, .enqueue true true 0 true (),
      .repairOneway true, .enqueue false false 1 true (), .tick 5, .drain true ]).2.map (·.id)) = [2] := by
  decide

end TV.C03
