import TvCore.Props.C12
/-
  C12 — "a connect … across a partitioned direction … fails with ConnectionRefused instead of hanging":
  the cut that arrives *behind* the request.

  `C12.partition_refuses_inflight` covers the two-way `partition` and the in-flight queue.  This file adds
  the other three cells of the table {two-way, one-way} × {in flight, ready but not yet handed over}: the
  ready cells hold with the repair of finding F-C08-1 / F-C03-2 (/repo f865c39, model flag `fixMatured`)
  and are false without it (`witness_ready_survives`) — the regression seeded as C12-r7 (one-way partition
  clearing the ready queue of the wrong end) is exactly the false cell.
-/
namespace TV.C12
open TV TV.World

/-- **two-way partition, request already ready for its host** (matured at once or at this step's tick,
    destination has had its turn): with the repair it is discarded as well, hence refused. -/
theorem partition_refuses_ready (w : World) (x y li id : Nat) (l : Link Env)
    (hf : w.findLink (w.host! x).ipnum (w.host! y).ipnum = some li) (hl : w.links[li]? = some l)
    (hfix : l.fixMatured = true)
    (hid : id < w.syns.length) (hp : (w.syns.getD id default).st = .pending)
    (hs : ∃ s, (s ∈ l.toA ∨ s ∈ l.toB) ∧ s.msg.msg = .syn id) :
    (((w.ctlPartition x y).syns).getD id default).st = .dropped := by
  unfold ctlPartition onLink
  simp only [hf, hl]
  obtain ⟨s, hs1, hs2⟩ := hs
  refine dropEnvs_drops _ { w with links := setAt w.links li fun _ => l.explicitPartition.1 } id (by exact hid) (by exact hp) ?_
  have hg : s ∈ l.explicitPartition.2 := by
    unfold Link.explicitPartition
    simp only [hfix, if_true, List.mem_append]
    rcases hs1 with h | h
    · exact Or.inl (Or.inr h)
    · exact Or.inr h
  exact ⟨s.msg, List.mem_map.mpr ⟨s, hg, rfl⟩, hs2⟩

/-- what `partition_oneway` discards. -/
theorem partitionOneway_snd (l : Link Env) (src dst : Nat) :
    (l.partitionOneway src dst).2 =
      if l.fixMatured then l.sent.filter (fun s => s.src == src) ++ (l.clearReady dst).2.2
      else l.sent.filter (fun s => s.src == src) := by
  unfold Link.partitionOneway
  by_cases h : l.fixMatured = true <;> simp [h]

/-- **one-way partition, request in flight** (scheduled or parked by a hold): `partition_oneway(x, y)`
    discards every message of the link that `x` sent, so a request travelling `x → y` is refused. -/
theorem partition_oneway_refuses_inflight (w : World) (x y li id : Nat) (l : Link Env)
    (hf : w.findLink (w.host! x).ipnum (w.host! y).ipnum = some li) (hl : w.links[li]? = some l)
    (hid : id < w.syns.length) (hp : (w.syns.getD id default).st = .pending)
    (hs : ∃ s ∈ l.sent, s.src = (w.host! x).ipnum ∧ s.msg.msg = .syn id) :
    (((w.ctlPartitionOneway x y).syns).getD id default).st = .dropped := by
  unfold ctlPartitionOneway onLink
  simp only [hf, hl]
  obtain ⟨s, hs1, hsrc, hs2⟩ := hs
  refine dropEnvs_drops _ { w with links := setAt w.links li fun _ =>
      (l.partitionOneway (w.host! x).ipnum (w.host! y).ipnum).1 } id (by exact hid) (by exact hp) ?_
  have hg : s ∈ (l.partitionOneway (w.host! x).ipnum (w.host! y).ipnum).2 := by
    rw [partitionOneway_snd]
    have hm : s ∈ l.sent.filter (fun s => s.src == (w.host! x).ipnum) :=
      List.mem_filter.mpr ⟨hs1, by simp [hsrc]⟩
    split
    · exact List.mem_append.mpr (Or.inl hm)
    · exact hm
  exact ⟨s.msg, List.mem_map.mpr ⟨s, hg, rfl⟩, hs2⟩

/-- the ready queue of an end of the link. -/
def readyOf (l : Link Env) (dst : Nat) : List (Sent Env) :=
  if dst == l.a then l.toA else if dst == l.b then l.toB else []

/-- **one-way partition, request already ready for the destination**: with the repair,
    `partition_oneway(x, y)` clears the ready queue of `y` — the destination's, not the sender's — so the
    request is refused. -/
theorem partition_oneway_refuses_ready (w : World) (x y li id : Nat) (l : Link Env)
    (hf : w.findLink (w.host! x).ipnum (w.host! y).ipnum = some li) (hl : w.links[li]? = some l)
    (hfix : l.fixMatured = true)
    (hid : id < w.syns.length) (hp : (w.syns.getD id default).st = .pending)
    (hs : ∃ s ∈ readyOf l (w.host! y).ipnum, s.msg.msg = .syn id) :
    (((w.ctlPartitionOneway x y).syns).getD id default).st = .dropped := by
  unfold ctlPartitionOneway onLink
  simp only [hf, hl]
  obtain ⟨s, hs1, hs2⟩ := hs
  refine dropEnvs_drops _ { w with links := setAt w.links li fun _ =>
      (l.partitionOneway (w.host! x).ipnum (w.host! y).ipnum).1 } id (by exact hid) (by exact hp) ?_
  have hg : s ∈ (l.partitionOneway (w.host! x).ipnum (w.host! y).ipnum).2 := by
    rw [partitionOneway_snd]
    simp only [hfix, if_true]
    apply List.mem_append.mpr; right
    unfold readyOf at hs1
    unfold Link.clearReady
    by_cases ha : ((w.host! y).ipnum == l.a) = true
    · simp only [ha, if_true] at hs1 ⊢; exact hs1
    · simp only [ha, if_false, Bool.false_eq_true] at hs1 ⊢
      by_cases hb : ((w.host! y).ipnum == l.b) = true
      · simp only [hb, if_true] at hs1 ⊢; exact hs1
      · simp only [hb, if_false, Bool.false_eq_true] at hs1; exact absurd hs1 (by simp)
  exact ⟨s.msg, List.mem_map.mpr ⟨s, hg, rfl⟩, hs2⟩

/-- what the one-way partition does **not** do: the ready queue of the *sender's* end (traffic `y → x`) is
    kept — only the cut direction loses messages. -/
theorem partition_oneway_keeps_reverse_ready (l : Link Env) (src dst : Nat) (hne : src ≠ dst)
    (ha : src = l.a ∨ src = l.b) (hd : dst = l.a ∨ dst = l.b) (hab : l.a ≠ l.b) :
    readyOf (l.partitionOneway src dst).1 src = readyOf l src := by
  unfold Link.partitionOneway readyOf Link.clearReady
  rcases ha with ha | ha <;> rcases hd with hd | hd
  · exact absurd (ha.trans hd.symm) hne
  · subst ha; subst hd
    have h1 : (l.b == l.a) = false := by simpa using fun h => hab h.symm
    by_cases hf : l.fixMatured = true <;> by_cases hlt : l.a < l.b <;> simp [hf, hlt, h1]
  · subst ha; subst hd
    have h1 : (l.b == l.a) = false := by simpa using fun h => hab h.symm
    by_cases hf : l.fixMatured = true <;> by_cases hlt : l.b < l.a <;> simp [hf, hlt, h1]
  · exact absurd (ha.trans hd.symm) hne

end TV.C12

/-! ## Witnesses and non-vacuity: a zero-latency request, ready for the listener's host, when the direction is cut -/
namespace TV.C12
open TV TV.World

/-- hosts 0 and 1 (addresses 1, 2), a listener on host 1 port 80, a connect from host 0 whose request got
    latency 0: it is ready for host 1, not in flight. -/
def cutW (link : Cfg) : World :=
  let w0 : World := (({ cfg := { link := link } } : World).register 1 false).register 2 false
  let w1 := (w0.opTcpBind 1 0 ⟨.any, 80⟩).1
  ({ w1 with oracle := [.fail false, .delay 0] }.opTcpConnect 0 0 ⟨.host 1, 80⟩).1

def cutL (link : Cfg) : Link Env := (cutW link).links.getD 0 default

/-- the hypotheses of `partition_oneway_refuses_ready` / `partition_refuses_ready` hold in `cutW Cfg.fixed`. -/
example : (cutW Cfg.fixed).findLink ((cutW Cfg.fixed).host! 0).ipnum ((cutW Cfg.fixed).host! 1).ipnum = some 0 ∧
    (cutW Cfg.fixed).links[0]? = some (cutL Cfg.fixed) ∧ (cutL Cfg.fixed).fixMatured = true ∧
    0 < (cutW Cfg.fixed).syns.length ∧ ((cutW Cfg.fixed).syns.getD 0 default).st = .pending ∧
    (cutL Cfg.fixed).sent.length = 0 ∧
    (readyOf (cutL Cfg.fixed) ((cutW Cfg.fixed).host! 1).ipnum).map (fun s => s.msg.msg) = [.syn 0] :=
  ⟨by decide, by rfl, by decide, by decide, by decide, by decide, by decide⟩

/-- repaired tree: cutting `0 → 1` one way, or the pair both ways, refuses the connect at its next poll; cutting
    the reverse direction `1 → 0` does not (the request is delivered and accepted). -/
theorem fixed_cut_behind_connect :
    (((cutW Cfg.fixed).ctlPartitionOneway 0 1).connectPoll 0 0).2 = "err refused" ∧
    (((cutW Cfg.fixed).ctlPartition 0 1).connectPoll 0 0).2 = "err refused" ∧
    (((((cutW Cfg.fixed).ctlPartitionOneway 1 0).deliverTo 1).2).opTcpAccept 1 0 1).2 = "ok h1:80 h0:49152" := by decide

/-- **tree before f865c39** (and the regression seeded as C12-r7, which clears the ready queue of the wrong
    end): the ready request survives the one-way partition of its direction, is handed to the listener's host
    and accepted — a connect across a partitioned direction succeeds. -/
theorem witness_ready_survives :
    ((((cutW Cfg.fixedRand).ctlPartitionOneway 0 1).syns.getD 0 default).st = .pending) ∧
    (((((cutW Cfg.fixedRand).ctlPartitionOneway 0 1).deliverTo 1).2).opTcpAccept 1 0 1).2 = "ok h1:80 h0:49152" := by decide

end TV.C12
