import TvCore.Proofs.C09FanoutLemmas
/-
  C09, SENDER side — which envelopes a `turmoil::net` UDP send hands to the network.

  `Props/C09.lean` proves what a host does with a datagram that reaches it.  This file proves what
  `UdpSocket::send` (udp.rs: source rewriting, then broadcast / multicast / unicast routing through
  `try_for_each`, `send_loopback` and `World::send_message`) puts *into* the network, for every world.

  Vocabulary (definitions in `Proofs/C09FanoutLemmas.lean`):
    `mkEnv src p d`  = `{ src, dst := d, msg := .udp p }`                 the envelope for destination `d`
    `linkEnvs l`     = envelopes of `l.sent ++ l.toA ++ l.toB`            in flight (any status) or deliverable
    `inflight w`     = all links' `linkEnvs` ++ all hosts' `lo`           everything queued anywhere
    `NoFailCoin w`   = `Ora.fail true ∉ w.oracle`                         `fail_rate` never fires
    `allowed src loopOk d` = `src.ip != d.ip || loopOk d`                 the fan-out does not skip `d`

  `inflight` must contain the deliverable queues: `Link::enqueue_message` ends with
  `process_deliverables`, so an envelope sent with zero latency is in `toA`/`toB` when the call returns.
  A send can also *remove* messages: `enqueue_message` begins with the random failure process, and a
  link that fails discards what it had in flight.  So in general "what was there" shrinks to a
  sub-list; with no failure coin it stays exactly as it was.  That is `Handed`.
-/
namespace TV.C09
open TV TV.World TV.C04

/-- **`Handed w w' N`** — going from `w` to `w'`
    * the queued envelopes of `w'` are, up to permutation, a sub-list `kept` of those of `w` plus a
      sub-list `new` of `N` (each position of `N` used at most once, nothing else is created);
    * when the link-failure coin never comes up nothing is lost: `inflight w' ~ inflight w ++ new`;
    * no host table changes (`udp`, `tcpBinds`, `socks`, `objs` of every host, and the number of
      hosts), nor does the multicast group table. -/
def Handed (w w' : World) (N : List Env) : Prop :=
  (∃ kept new, kept.Sublist (inflight w) ∧ new.Sublist N ∧ (inflight w').Perm (kept ++ new)) ∧
  (NoFailCoin w → ∃ new, new.Sublist N ∧ (inflight w').Perm (inflight w ++ new)) ∧
  (w'.hosts.length = w.hosts.length ∧
    ∀ i, (w'.host! i).udp = (w.host! i).udp ∧ (w'.host! i).tcpBinds = (w.host! i).tcpBinds ∧
         (w'.host! i).socks = (w.host! i).socks ∧ (w'.host! i).objs = (w.host! i).objs) ∧
  w'.mgroups = w.mgroups

theorem handed_of_sends {w w' : World} {N : List Env} (h : Sends w w' N) : Handed w w' N :=
  ⟨h.1.kept_new, fun hn => h.1.strict_new hn,
   ⟨h.2.2.length, fun i => h.2.2.tables i⟩,
   h.2.2.2⟩

theorem Handed.mono {w w' : World} {N N' : List Env} (h : Handed w w' N) (hn : N.Sublist N') : Handed w w' N' := by
  obtain ⟨⟨k, n, hk, hnn, hp⟩, h2, h3⟩ := h
  refine ⟨⟨k, n, hk, hnn.trans hn, hp⟩, fun x => ?_, h3⟩
  obtain ⟨n', hn', hp'⟩ := h2 x
  exact ⟨n', hn'.trans hn, hp'⟩

/-- everything new is one of `N`: an envelope queued afterwards that was not queued before. -/
theorem Handed.new_mem {w w' : World} {N : List Env} (h : Handed w w' N) (e : Env)
    (he : e ∈ inflight w') (hn : e ∉ inflight w) : e ∈ N := by
  obtain ⟨⟨k, n, hk, hnn, hp⟩, _⟩ := h
  rcases List.mem_append.mp (hp.mem_iff.mp he) with h1 | h1
  · exact absurd (hk.mem h1) hn
  · exact hnn.mem h1

/-! ## 1. the fan-out -/

/-- **fanout_sends** — `try_for_each` over a destination list `ds`: the envelopes created all carry
    the sender's source address and the payload `p` unaltered, their destinations are taken from
    `ds`, **each position of `ds` is used at most once** (a sub-list of `ds.map (mkEnv src p)`), a
    destination refused by `send_message` (no link, unknown host) or dropped by a partitioned link is
    simply not added, and no host table or group changes. -/
theorem fanout_sends (w : World) (h : Nat) (src : Addr) (p : Hex) (loopOk : Addr → Bool) (ds : List Addr) :
    Handed w (udpFanout w h src p loopOk ds).1 (ds.map (mkEnv src p)) :=
  handed_of_sends ((sends_udpFanout h src p loopOk ds w).mono (List.filter_sublist.map _))

/-- … in the vocabulary of C04: the fan-out keeps the bind tables (`Keeps`) and the stream-socket table
    (`KeepsS`) of every host. -/
theorem fanout_keeps (w : World) (h : Nat) (src : Addr) (p : Hex) (loopOk : Addr → Bool) (ds : List Addr) (i : Nat) :
    Keeps i w (udpFanout w h src p loopOk ds).1 ∧ KeepsS i w (udpFanout w h src p loopOk ds).1 :=
  have t := (fanout_sends w h src p loopOk ds).2.2.1.2 i
  ⟨⟨t.1, t.2.1⟩, t.2.2.1⟩

/-- … sharper: same-host destinations the loop flag rejects are never used. -/
theorem fanout_sends_allowed (w : World) (h : Nat) (src : Addr) (p : Hex) (loopOk : Addr → Bool) (ds : List Addr) :
    Handed w (udpFanout w h src p loopOk ds).1 ((ds.filter (allowed src loopOk)).map (mkEnv src p)) :=
  handed_of_sends (sends_udpFanout h src p loopOk ds w)

/-- … and the loopback half is exact (an explicit append): the sender's loopback queue gains, in
    order, one envelope for every same-host destination the loop flag lets through, up to the point where the
    fan-out stopped; when the send returned `Ok` that is all of `ds`. -/
theorem fanout_loopback_exact (w : World) (h : Nat) (src : Addr) (p : Hex) (loopOk : Addr → Bool)
    (ds : List Addr) (hh : h < w.hosts.length) :
    ∃ ds', ds' <+: ds ∧ ((udpFanout w h src p loopOk ds).2 = true → ds' = ds) ∧
      ((udpFanout w h src p loopOk ds).1.host! h).lo =
        (w.host! h).lo ++ (ds'.filter (fun d => src.ip == d.ip && loopOk d)).map (mkEnv src p) :=
  fanout_lo h src p loopOk ds w hh

/-! ## the three routes of `UdpSocket::send` -/

/-- the source rewriting keeps the socket's port. -/
theorem udpSrc_port (h : Nat) (loc dst : Addr) : (udpSrc h loc dst).port = loc.port := by
  unfold udpSrc
  simp only
  split <;> split <;> rfl

/-- `SO_BROADCAST` of the socket bound to `port` (`is_broadcast_enabled`). -/
def bcastOn (hs : Host) (port : Nat) : Bool :=
  match hs.udp.find? (·.port == port) with | some b => b.bcast | none => false

/-- `IP_MULTICAST_LOOP` as the fan-out reads it: the flag of the sending host's socket bound to the
    *destination member's* port (`is_multicast_loop_enabled(dst.port())`). -/
def mloopOn (hs : Host) (d : Addr) : Bool :=
  match hs.udp.find? (·.port == d.port) with | some b => b.mloop | none => true

/-- broadcast destinations: `(host i, port)` for the hosts with `port` bound, in host order. -/
def bcastDsts (w : World) (port : Nat) : List Addr :=
  ((List.range w.hosts.length).filter (fun i => udpPortUsed (w.host! i) port)).map
    (fun i => ({ ip := .host i, port := port } : Addr))

theorem filterMap_ite {α β : Type} (l : List α) (c : α → Bool) (f : α → β) :
    l.filterMap (fun i => if c i then some (f i) else none) = (l.filter c).map f := by
  induction l with
  | nil => rfl
  | cons x xs ih => cases hc : c x <;> simp [hc, ih]

/-- the result string of a fan-out / send. -/
def sendRes (ok : Bool) (p : Hex) : String := if ok then s!"ok {hexLen p}" else "err refused"

/-- `opUdpSend` on a UDP socket object, written out route by route. -/
theorem opUdpSend_udp (w : World) (h s : Nat) (dst : Addr) (p : Hex) (loc : Addr) (stash : Option (Hex × Addr))
    (ho : w.getObj h s = some (.udp loc stash)) :
    w.opUdpSend h s dst p =
      if dst.ip.isBroadcast then
        if bcastOn (w.host! h) loc.port then
          let r := udpFanout (w.tag "bcast") h (udpSrc h loc dst) p (fun _ => true) (bcastDsts w dst.port)
          (r.1, sendRes r.2 p)
        else (w, "err permissiondenied")
      else if dst.ip.isMulticast then
        let r := udpFanout (w.tag "mcast") h (udpSrc h loc dst) p (mloopOn (w.host! h)) (members w dst)
        (r.1, sendRes r.2 p)
      else
        let r := w.netSend h (mkEnv (udpSrc h loc dst) p dst)
        (r.2, sendRes r.1 p) := by
  unfold opUdpSend
  simp only [ho, udpSrc_port, filterMap_ite]
  unfold mloopOn bcastDsts members sendRes mkEnv
  split
  · show (if (!bcastOn (w.host! h) loc.port) = true then _ else _) = _
    cases hflag : bcastOn (w.host! h) loc.port
    · simp
    · simp only [Bool.not_true, Bool.false_eq_true, if_false, if_true]
  · rfl

theorem sends_tag_fanout (w : World) (t : String) (h : Nat) (src : Addr) (p : Hex) (loopOk : Addr → Bool)
    (ds : List Addr) :
    Sends w (udpFanout (w.tag t) h src p loopOk ds).1 ((ds.filter (allowed src loopOk)).map (mkEnv src p)) := by
  have := (sends_tag w t []).trans (sends_udpFanout h src p loopOk ds (w.tag t))
  simpa using this

/-! ## 2. broadcast -/

/-- the broadcast destination list, spelled out: in host order … -/
theorem bcastDsts_ordered (w : World) (port : Nat) :
    (bcastDsts w port).Pairwise (fun a b => ∃ i j, a = { ip := .host i, port := port } ∧
      b = { ip := .host j, port := port } ∧ i < j) := by
  unfold bcastDsts
  rw [List.pairwise_map]
  refine List.Pairwise.imp ?_ (List.Pairwise.filter _ List.pairwise_lt_range)
  intro i j hij
  exact ⟨i, j, rfl, rfl, hij⟩

/-- … each host at most once … -/
theorem bcastDsts_nodup (w : World) (port : Nat) : (bcastDsts w port).Nodup := by
  refine List.Pairwise.imp ?_ (bcastDsts_ordered w port)
  rintro a b ⟨i, j, rfl, rfl, hij⟩ hab
  injection hab with h1 _
  injection h1 with h1
  omega

/-- … and exactly the hosts that have the port bound. -/
theorem mem_bcastDsts (w : World) (port : Nat) (a : Addr) :
    a ∈ bcastDsts w port ↔
      ∃ i, i < w.hosts.length ∧ udpPortUsed (w.host! i) port = true ∧ a = { ip := .host i, port := port } := by
  unfold bcastDsts
  simp only [List.mem_map, List.mem_filter, List.mem_range]
  constructor
  · rintro ⟨i, ⟨hi, hu⟩, rfl⟩; exact ⟨i, hi, hu, rfl⟩
  · rintro ⟨i, hi, hu, rfl⟩; exact ⟨i, ⟨hi, hu⟩, rfl⟩

/-- **bcast_targets** — a send to the broadcast address from a socket whose `SO_BROADCAST` flag is on
    is the fan-out over `bcastDsts w dst.port`: exactly `{ (host i, dst.port) | i < hosts.length ∧
    udpPortUsed (host i) dst.port }`, each once, in host order (`mem_bcastDsts`, `bcastDsts_nodup`,
    `bcastDsts_ordered`, restated here); so at most one envelope per such host is handed over, with the
    sender's source and payload.  With the flag off the result is `"err permissiondenied"` and the
    world is unchanged. -/
theorem bcast_targets (w : World) (h s : Nat) (dst : Addr) (p : Hex) (loc : Addr) (stash : Option (Hex × Addr))
    (ho : w.getObj h s = some (.udp loc stash)) (hb : dst.ip.isBroadcast = true) :
    (bcastOn (w.host! h) loc.port = false → w.opUdpSend h s dst p = (w, "err permissiondenied")) ∧
    (bcastOn (w.host! h) loc.port = true →
      (let r := udpFanout (w.tag "bcast") h (udpSrc h loc dst) p (fun _ => true) (bcastDsts w dst.port)
       w.opUdpSend h s dst p = (r.1, sendRes r.2 p)) ∧
      Handed w (w.opUdpSend h s dst p).1 ((bcastDsts w dst.port).map (mkEnv (udpSrc h loc dst) p))) ∧
    (bcastDsts w dst.port).Nodup ∧
    (∀ a, a ∈ bcastDsts w dst.port ↔
      ∃ i, i < w.hosts.length ∧ udpPortUsed (w.host! i) dst.port = true ∧ a = { ip := .host i, port := dst.port }) ∧
    (bcastDsts w dst.port).Pairwise (fun a b => ∃ i j, a = { ip := .host i, port := dst.port } ∧
      b = { ip := .host j, port := dst.port } ∧ i < j) := by
  refine ⟨?_, ?_, bcastDsts_nodup w _, mem_bcastDsts w _, bcastDsts_ordered w _⟩
  · intro hf
    rw [opUdpSend_udp w h s dst p loc stash ho, if_pos hb, hf]
    rfl
  · intro hf
    have he : w.opUdpSend h s dst p =
        ((udpFanout (w.tag "bcast") h (udpSrc h loc dst) p (fun _ => true) (bcastDsts w dst.port)).1,
         sendRes (udpFanout (w.tag "bcast") h (udpSrc h loc dst) p (fun _ => true) (bcastDsts w dst.port)).2 p) := by
      rw [opUdpSend_udp w h s dst p loc stash ho, if_pos hb, if_pos hf]
    refine ⟨he, ?_⟩
    rw [he]
    exact handed_of_sends ((sends_tag_fanout w "bcast" h _ p _ _).mono (List.filter_sublist.map _))

/-! ## 3. multicast -/

theorem mcast_not_bcast (ip : Ip) (hm : ip.isMulticast = true) : ip.isBroadcast = false := by
  cases ip <;> simp [Ip.isMulticast] at hm ⊢ <;> rfl

/-- **mcast_targets** — a send to a multicast address is the fan-out over the *current* member list of
    that group (`members w dst`), skipping exactly the same-host members whose loop flag is off
    (`allowed`); under `GroupsNodup` each member occurs at most once in that list. -/
theorem mcast_targets (w : World) (h s : Nat) (dst : Addr) (p : Hex) (loc : Addr) (stash : Option (Hex × Addr))
    (ho : w.getObj h s = some (.udp loc stash)) (hm : dst.ip.isMulticast = true) :
    (let r := udpFanout (w.tag "mcast") h (udpSrc h loc dst) p (mloopOn (w.host! h)) (members w dst)
     w.opUdpSend h s dst p = (r.1, sendRes r.2 p)) ∧
    Handed w (w.opUdpSend h s dst p).1
      (((members w dst).filter (allowed (udpSrc h loc dst) (mloopOn (w.host! h)))).map (mkEnv (udpSrc h loc dst) p)) ∧
    (GroupsNodup w → (members w dst).Nodup) := by
  have he : w.opUdpSend h s dst p =
      ((udpFanout (w.tag "mcast") h (udpSrc h loc dst) p (mloopOn (w.host! h)) (members w dst)).1,
       sendRes (udpFanout (w.tag "mcast") h (udpSrc h loc dst) p (mloopOn (w.host! h)) (members w dst)).2 p) := by
    rw [opUdpSend_udp w h s dst p loc stash ho, if_neg (by simp [mcast_not_bcast _ hm]), if_pos hm]
  refine ⟨he, ?_, members_nodup w dst⟩
  rw [he]
  exact handed_of_sends (sends_tag_fanout w "mcast" h _ p _ _)

/-- which flag decides: a member on another address than the sender's source is never skipped; a
    member on the sender's own address is skipped exactly when `mloopOn` is off for its port. -/
theorem allowed_iff (src : Addr) (loopOk : Addr → Bool) (d : Addr) :
    allowed src loopOk d = if src.ip = d.ip then loopOk d else true := by
  unfold allowed
  split
  · rename_i h; simp [h]
  · rename_i h; simp [h]

/-- **the sender's own membership** (socket bound to the wildcard address, so that its source address
    is `(host h, port)` — the very address it joins groups with): it is skipped exactly when the
    `IP_MULTICAST_LOOP` flag of the sender's own bind is off. -/
theorem mcast_own_loop (h : Nat) (loc dst : Addr) (hs : Host) (hm : dst.ip.isMulticast = true)
    (hu : loc.ip.isUnspecified = true) :
    udpSrc h loc dst = { ip := .host h, port := loc.port } ∧
    allowed (udpSrc h loc dst) (mloopOn hs) { ip := .host h, port := loc.port } =
      (match hs.udp.find? (·.port == loc.port) with | some b => b.mloop | none => true) := by
  have hsrc : udpSrc h loc dst = { ip := .host h, port := loc.port } := by
    unfold udpSrc
    have hl : dst.ip.isLoopback = false := by cases hd : dst.ip <;> simp [hd, Ip.isMulticast, Ip.isLoopback] at hm ⊢
    simp [hl, hu]
  refine ⟨hsrc, ?_⟩
  rw [hsrc, allowed_iff]
  simp only [if_true]
  rfl

/-- the loopback half of a multicast send, exactly: the sender's loopback queue gains one envelope per
    same-address member whose loop flag is on, in member order, up to where the fan-out stopped (all of
    them when the send returned `Ok`).  Together with `mcast_targets`: a same-address member gets the
    datagram **iff** the flag is on. -/
theorem mcast_loopback_exact (w : World) (h s : Nat) (dst : Addr) (p : Hex) (loc : Addr)
    (stash : Option (Hex × Addr)) (ho : w.getObj h s = some (.udp loc stash)) (hm : dst.ip.isMulticast = true)
    (hh : h < w.hosts.length) :
    let src := udpSrc h loc dst
    let r := udpFanout (w.tag "mcast") h src p (mloopOn (w.host! h)) (members w dst)
    ∃ ds', ds' <+: members w dst ∧ (r.2 = true → ds' = members w dst) ∧
      ((w.opUdpSend h s dst p).1.host! h).lo =
        (w.host! h).lo ++ (ds'.filter (fun d => src.ip == d.ip && mloopOn (w.host! h) d)).map (mkEnv src p) := by
  intro src r
  have he := (mcast_targets w h s dst p loc stash ho hm).1
  simp only at he
  rw [he]
  have hh' : h < (w.tag "mcast").hosts.length := by rw [hosts_tag]; exact hh
  obtain ⟨ds', hp, hok, hlo⟩ := fanout_lo h src p (mloopOn (w.host! h)) (members w dst) (w.tag "mcast") hh'
  refine ⟨ds', hp, hok, ?_⟩
  rw [hlo]
  unfold host!
  rw [hosts_tag]

/-- **leave_removes** — after a successful `leave_multicast`, the socket's member address is no longer
    in the group (members distinct, group addresses distinct — the two invariants of the table, kept
    by `join_nodup`, `join_keys_nodup`, `leave_nodup`, `leave_keys_nodup`), so by `mcast_targets` it is
    no longer a destination; every other member of the group stays. -/
theorem leave_removes (w : World) (h s : Nat) (g iface : Ip) (hn : GroupsNodup w) (hk : GroupKeysNodup w)
    (hok : (w.opUdpLeave h s g iface).2 = "ok") :
    ∃ loc stash, w.getObj h s = some (.udp loc stash) ∧
      let key : Addr := { ip := g, port := loc.port }
      let m : Addr := { ip := .host h, port := loc.port }
      m ∉ members (w.opUdpLeave h s g iface).1 key ∧
      ∀ x, x ∈ members w key → x ≠ m → x ∈ members (w.opUdpLeave h s g iface).1 key := by
  obtain ⟨loc, stash, gs', ho, _, hl, he⟩ := opUdpLeave_ok w h s g iface hok
  refine ⟨loc, stash, ho, ?_, ?_⟩
  · rw [he, members_eq]
    exact leaveTable_removes w.mgroups _ _ gs' hn hk hl
  · intro x hx hne
    rw [he, members_eq]
    exact leaveTable_keeps w.mgroups _ _ gs' hl x hx hne

theorem opUdpLeave_cases (w : World) (h s : Nat) (g iface : Ip) :
    (w.opUdpLeave h s g iface).1 = w ∨ (w.opUdpLeave h s g iface).2 = "ok" := by
  unfold opUdpLeave
  split
  · split
    · exact Or.inl rfl
    · split
      · exact Or.inl rfl
      · simp only
        split
        · exact Or.inl rfl
        · split
          · exact Or.inl rfl
          · exact Or.inr rfl
  · exact Or.inl rfl

theorem leave_nodup (w : World) (h s : Nat) (g iface : Ip) (hn : GroupsNodup w) :
    GroupsNodup (w.opUdpLeave h s g iface).1 := by
  by_cases hok : (w.opUdpLeave h s g iface).2 = "ok"
  · obtain ⟨loc, stash, gs', _, _, hl, he⟩ := opUdpLeave_ok w h s g iface hok
    rw [he]
    exact leaveTable_groupsNodup w.mgroups _ _ gs' hn hl
  · have : (w.opUdpLeave h s g iface).1 = w := (opUdpLeave_cases w h s g iface).resolve_right hok
    rw [this]; exact hn

theorem leave_keys_nodup (w : World) (h s : Nat) (g iface : Ip) (hk : GroupKeysNodup w) :
    GroupKeysNodup (w.opUdpLeave h s g iface).1 := by
  by_cases hok : (w.opUdpLeave h s g iface).2 = "ok"
  · obtain ⟨loc, stash, gs', _, _, hl, he⟩ := opUdpLeave_ok w h s g iface hok
    rw [he]
    exact leaveTable_keysNodup w.mgroups _ _ gs' hk hl
  · have : (w.opUdpLeave h s g iface).1 = w := (opUdpLeave_cases w h s g iface).resolve_right hok
    rw [this]; exact hk

theorem join_keys_nodup (w : World) (h s : Nat) (g iface : Ip) (hk : GroupKeysNodup w) :
    GroupKeysNodup (w.opUdpJoin h s g iface).1 := by
  rcases opUdpJoin_table w h s g iface with he | ⟨loc, stash, _, _, he⟩
  · rw [he]; exact hk
  · rw [he]; exact joinTable_keysNodup w.mgroups _ _ hk

/-- **only joining makes a member** ("never joined ⇒ not a destination"): a join adds the joining
    socket's member address to the group it names and nothing else to any group; a send changes no
    group at all (`Handed`, last clause). -/
theorem join_adds_only (w : World) (h s : Nat) (g iface : Ip) (k x : Addr)
    (hx : x ∈ members (w.opUdpJoin h s g iface).1 k) :
    x ∈ members w k ∨ ∃ loc stash, w.getObj h s = some (.udp loc stash) ∧
      x = { ip := .host h, port := loc.port } ∧ k = { ip := g, port := loc.port } := by
  rcases opUdpJoin_table w h s g iface with he | ⟨loc, stash, ho, _, he⟩
  · rw [he] at hx; exact Or.inl hx
  · rw [he, members_eq] at hx
    rcases joinTable_adds_only w.mgroups _ _ k x hx with h1 | ⟨h1, h2⟩
    · exact Or.inl h1
    · exact Or.inr ⟨loc, stash, ho, h1, h2⟩

/-! ## 4. unicast -/

/-- **unicast_one** — a unicast send adds at most one envelope: destination `dst` as given, source
    `udpSrc h loc dst`, payload `p`; through loopback when `is_same`, else through `send_message`. -/
theorem unicast_one (w : World) (h s : Nat) (dst : Addr) (p : Hex) (loc : Addr) (stash : Option (Hex × Addr))
    (ho : w.getObj h s = some (.udp loc stash)) (hb : dst.ip.isBroadcast = false) (hm : dst.ip.isMulticast = false) :
    (let r := w.netSend h (mkEnv (udpSrc h loc dst) p dst)
     w.opUdpSend h s dst p = (r.2, sendRes r.1 p)) ∧
    Handed w (w.opUdpSend h s dst p).1 [mkEnv (udpSrc h loc dst) p dst] := by
  have he : w.opUdpSend h s dst p = ((w.netSend h (mkEnv (udpSrc h loc dst) p dst)).2,
      sendRes (w.netSend h (mkEnv (udpSrc h loc dst) p dst)).1 p) := by
    rw [opUdpSend_udp w h s dst p loc stash ho, if_neg (by simp [hb]), if_neg (by simp [hm])]
  refine ⟨he, ?_⟩
  rw [he]
  apply handed_of_sends
  unfold netSend
  split
  · exact sends_sendLoopback w h _
  · exact sends_sendMessage w _

/-! ## 5. all routes in one statement -/

theorem mem_map_mkEnv {src : Addr} {p : Hex} {ds : List Addr} {e : Env} (h : e ∈ ds.map (mkEnv src p)) :
    e.msg = .udp p ∧ e.src = src ∧ e.dst ∈ ds := by
  obtain ⟨d, hd, rfl⟩ := List.mem_map.mp h
  exact ⟨rfl, rfl, hd⟩

/-- **send_sound** — every envelope queued anywhere after `send_to` that was not queued before
    carries the payload `p` unaltered and the sender's source address `udpSrc h loc dst`, and its
    destination is
    * unicast: `dst` itself;
    * broadcast: `(host i, dst.port)` of a registered host that has that port bound — and the sender's
      broadcast flag is on;
    * multicast: a current member of the group `dst` — and, if it sits on the sender's own source
      address, the loop flag for its port is on.
    (At most once per destination: `unicast_one`, `bcast_targets`, `mcast_targets`.) -/
theorem send_sound (w : World) (h s : Nat) (dst : Addr) (p : Hex) (e : Env)
    (he : e ∈ inflight (w.opUdpSend h s dst p).1) (hn : e ∉ inflight w) :
    ∃ loc stash, w.getObj h s = some (.udp loc stash) ∧ e.msg = .udp p ∧ e.src = udpSrc h loc dst ∧
      if dst.ip.isBroadcast then
        bcastOn (w.host! h) loc.port = true ∧
        ∃ i, i < w.hosts.length ∧ udpPortUsed (w.host! i) dst.port = true ∧ e.dst = { ip := .host i, port := dst.port }
      else if dst.ip.isMulticast then
        e.dst ∈ members w dst ∧ (e.dst.ip = (udpSrc h loc dst).ip → mloopOn (w.host! h) e.dst = true)
      else e.dst = dst := by
  have hbad : (∀ loc stash, w.getObj h s ≠ some (.udp loc stash)) → False := by
    intro hno
    have : (w.opUdpSend h s dst p).1 = w := by
      unfold opUdpSend
      split
      · rename_i loc stash ho; exact absurd ho (hno loc stash)
      · rfl
    rw [this] at he
    exact hn he
  cases ho : w.getObj h s with
  | none => exact (hbad (fun _ _ => by simp [ho])).elim
  | some o =>
    cases o with
    | listener _ => exact (hbad (fun _ _ => by simp [ho])).elim
    | connecting _ _ _ _ _ => exact (hbad (fun _ _ => by simp [ho])).elim
    | stream _ _ => exact (hbad (fun _ _ => by simp [ho])).elim
    | udp loc stash =>
      refine ⟨loc, stash, rfl, ?_⟩
      by_cases hb : dst.ip.isBroadcast = true
      · simp only [hb, if_true]
        cases hf : bcastOn (w.host! h) loc.port
        · have := (bcast_targets w h s dst p loc stash ho hb).1 hf
          rw [this] at he
          exact absurd he hn
        · have hH := ((bcast_targets w h s dst p loc stash ho hb).2.1 hf).2
          obtain ⟨h1, h2, h3⟩ := mem_map_mkEnv (hH.new_mem e he hn)
          exact ⟨h1, h2, rfl, (mem_bcastDsts w dst.port e.dst).mp h3⟩
      · by_cases hm : dst.ip.isMulticast = true
        · simp only [hb, hm, if_true, Bool.false_eq_true, if_false]
          have hH := (mcast_targets w h s dst p loc stash ho hm).2.1
          obtain ⟨h1, h2, h3⟩ := mem_map_mkEnv (hH.new_mem e he hn)
          obtain ⟨h4, h5⟩ := List.mem_filter.mp h3
          refine ⟨h1, h2, h4, fun hip => ?_⟩
          rw [allowed_iff, if_pos hip.symm] at h5
          exact h5
        · simp only [hb, hm, Bool.false_eq_true, if_false]
          have hH := (unicast_one w h s dst p loc stash ho (by simpa using hb) (by simpa using hm)).2
          have := hH.new_mem e he hn
          simp only [List.mem_singleton] at this
          subst this
          exact ⟨rfl, rfl, rfl⟩

/-! ## the flags are the ones the socket API sets -/

theorem find?_map_port (l : List UdpBind) (P : Nat) (g : UdpBind → UdpBind) (hg : ∀ b, (g b).port = b.port) :
    (l.map (fun b => if b.port == P then g b else b)).find? (·.port == P) = (l.find? (·.port == P)).map g := by
  induction l with
  | nil => rfl
  | cons x xs ih =>
    by_cases hx : x.port = P
    · simp [hx, hg]
    · have : (x.port == P) = false := by simpa using hx
      simp only [List.map_cons, this, Bool.false_eq_true, if_false, List.find?_cons, ih]

/-- `set_broadcast(on)` sets exactly the flag `bcast_targets` reads. -/
theorem setBcast_flag (w : World) (h s : Nat) (on : Bool) (loc : Addr) (stash : Option (Hex × Addr))
    (ho : w.getObj h s = some (.udp loc stash)) (hh : h < w.hosts.length)
    (hbound : udpPortUsed (w.host! h) loc.port = true) :
    bcastOn ((w.opUdpSetBcast h s on).1.host! h) loc.port = on := by
  unfold opUdpSetBcast
  simp only [ho]
  rw [host!_setHost_self _ _ _ hh]
  unfold bcastOn
  simp only
  rw [find?_map_port _ _ (fun b => { b with bcast := on }) (fun _ => rfl)]
  unfold udpPortUsed at hbound
  obtain ⟨b, hb, hp⟩ := List.any_eq_true.mp hbound
  cases hf : (w.host! h).udp.find? (·.port == loc.port) with
  | none => exact absurd hp (by simpa using List.find?_eq_none.mp hf b hb)
  | some b' => simp

/-- `set_multicast_loop_v4/v6(on)` sets exactly the flag `mcast_targets` reads for the socket's own
    member address. -/
theorem setMloop_flag (w : World) (h s : Nat) (on : Bool) (loc : Addr) (stash : Option (Hex × Addr))
    (ho : w.getObj h s = some (.udp loc stash)) (hh : h < w.hosts.length)
    (hbound : udpPortUsed (w.host! h) loc.port = true) :
    mloopOn ((w.opUdpSetMloop h s on).1.host! h) { ip := .host h, port := loc.port } = on := by
  unfold opUdpSetMloop
  simp only [ho]
  rw [host!_setHost_self _ _ _ hh]
  unfold mloopOn
  simp only
  rw [find?_map_port _ _ (fun b => { b with mloop := on }) (fun _ => rfl)]
  unfold udpPortUsed at hbound
  obtain ⟨b, hb, hp⟩ := List.any_eq_true.mp hbound
  cases hf : (w.host! h).udp.find? (·.port == loc.port) with
  | none => exact absurd hp (by simpa using List.find?_eq_none.mp hf b hb)
  | some b' => simp

/-! ## 6. non-vacuity: a concrete world satisfies the hypotheses

  Two registered hosts (one link), each with a wildcard socket on port 9000; both sockets are members
  of the group `mc0:9000` (host 1 joined first); host 0's socket has `SO_BROADCAST` on. -/

def exW0 : World := (({} : World).register 1 false).register 2 false
def exW1 : World := (exW0.opUdpBind 0 0 ⟨.any, 9000⟩).1
def exW2 : World := (exW1.opUdpBind 1 0 ⟨.any, 9000⟩).1
def exW3 : World := (exW2.opUdpJoin 1 0 (.mc 0) .any).1
def exW4 : World := (exW3.opUdpJoin 0 0 (.mc 0) .any).1
def exW : World := (exW4.opUdpSetBcast 0 0 true).1

/-- `ho` of every theorem here, `hh` of `fanout_loopback_exact` / `mcast_loopback_exact` / `set*_flag`. -/
example : exW.getObj 0 0 = some (.udp ⟨.any, 9000⟩ none) ∧ 0 < exW.hosts.length ∧
    udpPortUsed (exW.host! 0) 9000 = true := ⟨rfl, by decide, by decide⟩
/-- `bcast_targets`: a broadcast address; the flag on (`exW`) and off (`exW4`). -/
example : (Ip.bc).isBroadcast = true ∧ bcastOn (exW.host! 0) 9000 = true ∧ bcastOn (exW4.host! 0) 9000 = false := by
  decide
/-- … the destinations are both hosts, in host order; the two envelopes end up on the link (already
    deliverable: zero latency) and on the loopback queue — a permutation of the destination order. -/
example : bcastDsts exW 9000 = [⟨.host 0, 9000⟩, ⟨.host 1, 9000⟩] ∧
    inflight (exW.opUdpSend 0 0 ⟨.bc, 9000⟩ "ab").1 =
      [mkEnv ⟨.host 0, 9000⟩ "ab" ⟨.host 1, 9000⟩, mkEnv ⟨.host 0, 9000⟩ "ab" ⟨.host 0, 9000⟩] := by decide
/-- `mcast_targets`, `mcast_own_loop`, `mcast_loopback_exact`: a multicast address, a wildcard bind, a
    group with two distinct members. -/
example : (Ip.mc 0).isMulticast = true ∧ (Ip.any).isUnspecified = true ∧
    members exW ⟨.mc 0, 9000⟩ = [⟨.host 1, 9000⟩, ⟨.host 0, 9000⟩] := by decide
example : GroupsNodup exW := by unfold GroupsNodup; decide
example : GroupKeysNodup exW := by unfold GroupKeysNodup; decide
/-- … with the loop flag on (default) both members get it; with it off only the other host does. -/
example :
    inflight (exW.opUdpSend 0 0 ⟨.mc 0, 9000⟩ "ab").1 =
      [mkEnv ⟨.host 0, 9000⟩ "ab" ⟨.host 1, 9000⟩, mkEnv ⟨.host 0, 9000⟩ "ab" ⟨.host 0, 9000⟩] ∧
    inflight (((exW.opUdpSetMloop 0 0 false).1).opUdpSend 0 0 ⟨.mc 0, 9000⟩ "ab").1 =
      [mkEnv ⟨.host 0, 9000⟩ "ab" ⟨.host 1, 9000⟩] := by decide
/-- `leave_removes`: a successful leave; afterwards the group is `[host 1]` only. -/
example : (exW.opUdpLeave 0 0 (.mc 0) .any).2 = "ok" ∧
    members (exW.opUdpLeave 0 0 (.mc 0) .any).1 ⟨.mc 0, 9000⟩ = [⟨.host 1, 9000⟩] := by decide
/-- `join_adds_only`: a member after a join. -/
example : (⟨.host 0, 9000⟩ : Addr) ∈ members (exW3.opUdpJoin 0 0 (.mc 0) .any).1 ⟨.mc 0, 9000⟩ := by decide
/-- `unicast_one`: neither broadcast nor multicast. -/
example : (Ip.host 1).isBroadcast = false ∧ (Ip.host 1).isMulticast = false ∧
    inflight (exW.opUdpSend 0 0 ⟨.host 1, 9000⟩ "ab").1 = [mkEnv ⟨.host 0, 9000⟩ "ab" ⟨.host 1, 9000⟩] := by decide
/-- `send_sound`: an envelope that is queued after the send and was not before. -/
example : mkEnv ⟨.host 0, 9000⟩ "ab" ⟨.host 1, 9000⟩ ∈ inflight (exW.opUdpSend 0 0 ⟨.host 1, 9000⟩ "ab").1 ∧
    mkEnv ⟨.host 0, 9000⟩ "ab" ⟨.host 1, 9000⟩ ∉ inflight exW := by decide
/-- `NoFailCoin` (second clause of `Handed`): an oracle queue without a failure coin. -/
example : NoFailCoin exW ∧ NoFailCoin { exW with oracle := [.fail false, .delay 5] } := by
  unfold NoFailCoin; decide

/-- Why `kept` is only a sub-list in general: with a latency of 5 ns the first datagram stays in
    flight on the link; the next send draws the failure coin, the link fails, and `enqueue_message`
    discards the first datagram and refuses the second — after the second send nothing is queued. -/
example :
    let w1 := ({ exW with oracle := [.fail false, .delay 5] }.opUdpSend 0 0 ⟨.host 1, 9000⟩ "ab").1
    let w2 := ({ w1 with oracle := [.fail true] }.opUdpSend 0 0 ⟨.host 1, 9000⟩ "cd").1
    inflight w1 = [mkEnv ⟨.host 0, 9000⟩ "ab" ⟨.host 1, 9000⟩] ∧ inflight w2 = [] := by decide

/-- Whose loop flag?  `udp.rs` asks `is_multicast_loop_enabled(dst.port())`: the flag of the socket
    bound to the *member's* port on the sending host.  For the sender's own membership that is the
    sender's flag (`mcast_own_loop`).  But when a second socket of the same host (port 9001, slot 1)
    sends to the group of port 9000, the flag consulted is the *member* socket's, not the sender's:
    sender's flag off / member's on ⇒ looped back; sender's on / member's off ⇒ skipped. -/
example :
    let w := (exW.opUdpBind 0 1 ⟨.any, 9001⟩).1
    let senderOff := (w.opUdpSetMloop 0 1 false).1
    let memberOff := (w.opUdpSetMloop 0 0 false).1
    mkEnv ⟨.host 0, 9001⟩ "ab" ⟨.host 0, 9000⟩ ∈ inflight (senderOff.opUdpSend 0 1 ⟨.mc 0, 9000⟩ "ab").1 ∧
    mkEnv ⟨.host 0, 9001⟩ "ab" ⟨.host 0, 9000⟩ ∉ inflight (memberOff.opUdpSend 0 1 ⟨.mc 0, 9000⟩ "ab").1 := by
  decide

end TV.C09
