import TvCore.Props.C04Socks
/-
  C04 / C09 — multicast memberships across a destructor sweep.

  `UdpSocket::drop` calls `MulticastGroups::leave_all(member)`.  Whatever the number of groups, their
  sizes and the order of members:  the dropped member leaves every group, **every other member of
  every group stays a member**, nobody is added, and only groups that became empty disappear.
  Lifted to `dropAll` (crash / bounce of host `h`): a membership held by a socket of another host
  survives the crash of `h`.
-/
namespace TV.C04
open TV TV.World

/-- `swap_remove(i)` by positions: slot `i` receives the last element, the last slot goes away. -/
theorem getElem?_swapRemoveAt {α : Type} (l : List α) (i j : Nat) (hi : i < l.length) :
    (swapRemoveAt l i)[j]? = if j < l.length - 1 then (if j = i then l[l.length - 1]? else l[j]?) else none := by
  unfold swapRemoveAt
  simp only [hi, if_true]
  cases hl : l.getLast? with
  | none =>
    have : l = [] := List.getLast?_eq_none_iff.mp hl
    subst this
    simp at hi
  | some last =>
    have hlast : l[l.length - 1]? = some last := by rw [← List.getLast?_eq_getElem?]; exact hl
    simp only
    by_cases hend : i + 1 = l.length
    · have hb : (i + 1 == l.length) = true := by simpa using hend
      simp only [hb, if_true]
      rw [List.getElem?_dropLast]
      by_cases hj : j < l.length - 1
      · have hji : j ≠ i := by omega
        simp only [hj, if_true, hji, if_false]
      · simp only [hj, if_false]
    · have hb : (i + 1 == l.length) = false := by simpa using hend
      simp only [hb, Bool.false_eq_true, if_false]
      rw [List.getElem?_mapIdx, List.getElem?_dropLast]
      by_cases hj : j < l.length - 1
      · have hjl : j < l.length := by omega
        simp only [hj, if_true, List.getElem?_eq_getElem hjl, Option.map_some]
        by_cases hji : j = i
        · subst hji
          simp [hlast]
        · have hb2 : (j == i) = false := by simpa using hji
          simp [hb2, hji]
      · simp only [hj, if_false, Option.map_none]

/-- membership after `swap_remove(i)`: exactly the elements at the other positions. -/
theorem mem_swapRemoveAt {α : Type} (l : List α) (i : Nat) (hi : i < l.length) (x : α) :
    x ∈ swapRemoveAt l i ↔ ∃ j, j ≠ i ∧ l[j]? = some x := by
  rw [List.mem_iff_getElem?]
  constructor
  · rintro ⟨k, hk⟩
    rw [getElem?_swapRemoveAt l i k hi] at hk
    split at hk
    · next hkl =>
      split at hk
      · next hki => exact ⟨l.length - 1, by omega, hk⟩
      · next hki => exact ⟨k, hki, hk⟩
    · exact absurd hk (by simp)
  · rintro ⟨j, hji, hj⟩
    have hjl : j < l.length := (List.getElem?_eq_some_iff.mp hj).1
    by_cases hlast : j = l.length - 1
    · refine ⟨i, ?_⟩
      rw [getElem?_swapRemoveAt l i i hi, if_pos (by omega), if_pos rfl, ← hlast]
      exact hj
    · refine ⟨j, ?_⟩
      rw [getElem?_swapRemoveAt l i j hi, if_pos (by omega), if_neg hji]
      exact hj

/-- one group after `leave_all(m)`. -/
def leaveOne (m : Addr) (p : Addr × List Addr) : Addr × List Addr :=
  match p.2.findIdx? (· == m) with
  | some i => (p.1, swapRemoveAt p.2 i)
  | none => (p.1, p.2)

theorem mgLeaveAll_eq (w : World) (m : Addr) :
    (w.mgLeaveAll m).mgroups = (w.mgroups.map (leaveOne m)).filter (fun p => !p.2.isEmpty) := by
  unfold mgLeaveAll
  simp only
  congr 1

theorem leaveOne_keeps (m : Addr) (p : Addr × List Addr) (x : Addr) (hx : x ∈ p.2) (hne : x ≠ m) :
    (leaveOne m p).1 = p.1 ∧ x ∈ (leaveOne m p).2 := by
  unfold leaveOne
  cases hf : p.2.findIdx? (· == m) with
  | none => exact ⟨rfl, hx⟩
  | some i =>
    obtain ⟨hi, hp, _⟩ := List.findIdx?_eq_some_iff_getElem.mp hf
    refine ⟨rfl, (mem_swapRemoveAt p.2 i hi x).mpr ?_⟩
    obtain ⟨j, hj⟩ := List.mem_iff_getElem?.mp hx
    refine ⟨j, ?_, hj⟩
    intro e
    subst e
    rw [List.getElem?_eq_getElem hi] at hj
    have : p.2[j] = m := by simpa using hp
    exact hne ((Option.some.inj hj).symm.trans this)

theorem leaveOne_sub (m : Addr) (p : Addr × List Addr) (x : Addr) (hx : x ∈ (leaveOne m p).2) : x ∈ p.2 := by
  unfold leaveOne at hx
  cases hf : p.2.findIdx? (· == m) with
  | none => simpa [hf] using hx
  | some i =>
    simp only [hf] at hx
    obtain ⟨hi, _, _⟩ := List.findIdx?_eq_some_iff_getElem.mp hf
    obtain ⟨j, _, hj⟩ := (mem_swapRemoveAt p.2 i hi x).mp hx
    exact List.mem_iff_getElem?.mpr ⟨j, hj⟩

theorem leaveOne_removes (m : Addr) (p : Addr × List Addr) (hn : p.2.Nodup) : m ∉ (leaveOne m p).2 := by
  unfold leaveOne
  cases hf : p.2.findIdx? (· == m) with
  | none =>
    simp only
    intro hm
    have := List.findIdx?_eq_none_iff.mp hf m hm
    simp at this
  | some i =>
    simp only
    obtain ⟨hi, hp, _⟩ := List.findIdx?_eq_some_iff_getElem.mp hf
    intro hm
    obtain ⟨j, hji, hj⟩ := (mem_swapRemoveAt p.2 i hi m).mp hm
    obtain ⟨hjl, hjv⟩ := List.getElem?_eq_some_iff.mp hj
    have hiv : p.2[i] = m := by simpa using hp
    have hpw := List.pairwise_iff_getElem.mp hn
    rcases Nat.lt_or_gt_of_ne hji with hlt | hgt
    · exact hpw j i hjl hi hlt (hjv.trans hiv.symm)
    · exact hpw i j hi hjl hgt (hiv.trans hjv.symm)

/-- **Every other member stays**: after `leave_all(m)` each member `x ≠ m` of each group is still a
    member of a group with the same address. -/
theorem mgLeaveAll_keeps (w : World) (m : Addr) (g : Addr) (ms : List Addr) (x : Addr)
    (hg : (g, ms) ∈ w.mgroups) (hx : x ∈ ms) (hne : x ≠ m) :
    ∃ ms', (g, ms') ∈ (w.mgLeaveAll m).mgroups ∧ x ∈ ms' := by
  rw [mgLeaveAll_eq]
  have hk := leaveOne_keeps m (g, ms) x hx hne
  refine ⟨(leaveOne m (g, ms)).2, ?_, hk.2⟩
  rw [List.mem_filter]
  refine ⟨List.mem_map.mpr ⟨(g, ms), hg, ?_⟩, ?_⟩
  · exact Prod.ext hk.1 rfl
  · cases h : (leaveOne m (g, ms)).2 with
    | nil => rw [h] at hk; exact absurd hk.2 (by simp)
    | cons _ _ => simp

/-- **The leaver is gone** (members of a group are distinct — `C09.join_nodup`). -/
theorem mgLeaveAll_removes (w : World) (m : Addr) (hw : ∀ p ∈ w.mgroups, p.2.Nodup) :
    ∀ p ∈ (w.mgLeaveAll m).mgroups, m ∉ p.2 := by
  intro p hp
  rw [mgLeaveAll_eq, List.mem_filter] at hp
  obtain ⟨q, hq, rfl⟩ := List.mem_map.mp hp.1
  exact leaveOne_removes m q (hw q hq)

/-- **Nobody is added.** -/
theorem mgLeaveAll_sub (w : World) (m : Addr) :
    ∀ p ∈ (w.mgLeaveAll m).mgroups, ∃ q ∈ w.mgroups, q.1 = p.1 ∧ ∀ x ∈ p.2, x ∈ q.2 := by
  intro p hp
  rw [mgLeaveAll_eq, List.mem_filter] at hp
  obtain ⟨q, hq, rfl⟩ := List.mem_map.mp hp.1
  refine ⟨q, hq, ?_, fun x hx => leaveOne_sub m q x hx⟩
  unfold leaveOne
  split <;> rfl


/-! ### the group table is written by nothing else in a destructor -/

@[simp] theorem mg_tag (w : World) (t : String) : (w.tag t).mgroups = w.mgroups := by unfold tag; split <;> rfl
@[simp] theorem mg_panic (w : World) (t : String) : (w.panic t).mgroups = w.mgroups := by unfold World.panic; split <;> rfl
@[simp] theorem mg_setHost (w : World) (h : Nat) (f : Host → Host) : (w.setHost h f).mgroups = w.mgroups := rfl
@[simp] theorem mg_setChan (w : World) (c : Nat) (f : Chan → Chan) : (w.setChan c f).mgroups = w.mgroups := rfl
@[simp] theorem mg_dropSyn (w : World) (id : Nat) : (w.dropSyn id).mgroups = w.mgroups := rfl
@[simp] theorem mg_dropEnvs (w : World) (es : List Env) : (w.dropEnvs es).mgroups = w.mgroups := by
  unfold dropEnvs
  induction es generalizing w with
  | nil => rfl
  | cons e es ih =>
    simp only [List.foldl_cons]
    rw [ih]
    cases e.msg <;> simp
@[simp] theorem mg_popFail (w : World) : (w.popFail).2.mgroups = w.mgroups := by unfold popFail; split <;> rfl
@[simp] theorem mg_popRepair (w : World) : (w.popRepair).2.mgroups = w.mgroups := by unfold popRepair; split <;> rfl
@[simp] theorem mg_popDelay (w : World) : (w.popDelay).2.mgroups = w.mgroups := by unfold popDelay; split <;> rfl
@[simp] theorem mg_linkEnqueue (w : World) (li s d : Nat) (e : Env) : (w.linkEnqueue li s d e).mgroups = w.mgroups := by
  unfold linkEnqueue
  split
  · rfl
  · simp only
    repeat' split
    all_goals simp
@[simp] theorem mg_sendMessage (w : World) (e : Env) : (w.sendMessage e).2.mgroups = w.mgroups := by
  unfold sendMessage
  repeat' split
  all_goals simp
@[simp] theorem mg_netSend (w : World) (h : Nat) (e : Env) : (w.netSend h e).2.mgroups = w.mgroups := by
  unfold netSend sendLoopback
  split <;> simp
@[simp] theorem mg_removeSock (w : World) (h : Nat) (loc rem : Addr) : (w.removeSock h loc rem).mgroups = w.mgroups := by
  unfold removeSock
  split <;> rfl
@[simp] theorem mg_closeStreamHalf (w : World) (h : Nat) (loc rem : Addr) : (w.closeStreamHalf h loc rem).mgroups = w.mgroups := by
  unfold closeStreamHalf
  simp only
  split <;> rfl
theorem mg_ite {w a b : World} (c : Prop) [Decidable c] (ha : a.mgroups = w.mgroups) (hb : b.mgroups = w.mgroups) :
    (if c then a else b).mgroups = w.mgroups := by
  split <;> assumption
@[simp] theorem mg_dropRead (w : World) (h : Nat) (r : RdH) : (w.dropRead h r).mgroups = w.mgroups := by
  unfold dropRead
  simp only
  apply mg_ite <;> simp
@[simp] theorem mg_dropWrite (w : World) (h : Nat) (x : WrH) : (w.dropWrite h x).mgroups = w.mgroups := by
  unfold dropWrite
  rw [mg_closeStreamHalf]
  split
  · split
    · simp
    · rfl
  · rfl
theorem mg_foldl_dropSyn (l : List SynReq) (w : World) : (l.foldl (fun w s => w.dropSyn s.id) w).mgroups = w.mgroups := by
  induction l generalizing w with
  | nil => rfl
  | cons x xs ih => simp only [List.foldl_cons]; rw [ih]; rfl
@[simp] theorem mg_udpUnbind (w : World) (h p : Nat) : (w.udpUnbind h p).mgroups = w.mgroups := by
  unfold udpUnbind
  simp only [mg_setHost]
  split
  · rfl
  · exact mg_panic w _

/-- `x` stays a member of every group it belongs to. -/
def MKeeps (x : Addr) (w w' : World) : Prop :=
  ∀ g ms, (g, ms) ∈ w.mgroups → x ∈ ms → ∃ ms', (g, ms') ∈ w'.mgroups ∧ x ∈ ms'

theorem MKeeps.refl (x : Addr) (w : World) : MKeeps x w w := fun _ ms hg hx => ⟨ms, hg, hx⟩
theorem MKeeps.trans {x : Addr} {a b c : World} (h1 : MKeeps x a b) (h2 : MKeeps x b c) : MKeeps x a c := by
  intro g ms hg hx
  obtain ⟨ms1, hg1, hx1⟩ := h1 g ms hg hx
  exact h2 g ms1 hg1 hx1
theorem mkeeps_of_eq {x : Addr} {w w' : World} (e : w'.mgroups = w.mgroups) : MKeeps x w w' := by
  intro g ms hg hx
  exact ⟨ms, by rw [e]; exact hg, hx⟩

/-- **One destructor of host `h`** leaves the memberships of every other host's sockets alone. -/
theorem mkeeps_dropObj (x : Addr) (h : Nat) (w : World) (o : Obj) (hx : x.ip ≠ .host h) :
    MKeeps x w (w.dropObj h o) := by
  cases o with
  | udp loc stash =>
    unfold dropObj
    simp only
    refine MKeeps.trans ?_ (mkeeps_of_eq (mg_udpUnbind _ h loc.port))
    intro g ms hg hm
    exact mgLeaveAll_keeps w _ g ms x hg hm (fun e => hx (by rw [e]))
  | listener loc =>
    apply mkeeps_of_eq
    unfold dropObj tcpUnbind
    simp only
    split
    · exact mg_panic w _
    · rw [mg_foldl_dropSyn]; rfl
  | connecting id loc rem chan fcW =>
    apply mkeeps_of_eq
    unfold dropObj
    simp only
    split
    · rw [mg_removeSock, mg_tag]; rfl
    · rw [mg_tag]; rfl
  | stream rd wr =>
    apply mkeeps_of_eq
    unfold dropObj
    simp only
    cases rd <;> cases wr <;> simp

theorem mkeeps_foldl_dropObj (x : Addr) (h : Nat) (objs : List (Nat × Obj)) (w : World) (hx : x.ip ≠ .host h) :
    MKeeps x w (objs.foldl (fun w p => w.dropObj h p.2) w) := by
  induction objs generalizing w with
  | nil => exact MKeeps.refl x w
  | cons o os ih => exact (mkeeps_dropObj x h w o.2 hx).trans (ih _)

theorem mkeeps_dropAll (x : Addr) (h : Nat) (w : World) (hx : x.ip ≠ .host h) : MKeeps x w (w.dropAll h) := by
  unfold dropAll
  simp only
  refine MKeeps.trans (mkeeps_of_eq ?_) (mkeeps_foldl_dropObj x h _ _ hx)
  rw [mg_dropEnvs]; rfl

/-- **C04 / C09: a crash never cancels somebody else's multicast membership.**  Whatever sockets,
    streams and memberships the crashed host `h` held, every member socket of another host is still a
    member of each of its groups afterwards — in particular a group with exactly one other member
    survives the crash. -/
theorem crash_keeps_membership (x : Addr) (h : Nat) (w : World) (hx : x.ip ≠ .host h) : MKeeps x w (w.crash h) := by
  unfold crash
  refine MKeeps.trans ?_ (mkeeps_of_eq (mg_setHost _ h _))
  split
  · exact mkeeps_dropAll x h w hx
  · exact MKeeps.refl x w

theorem bounce_keeps_membership (x : Addr) (h : Nat) (w : World) (hx : x.ip ≠ .host h) : MKeeps x w (w.bounce h) := by
  unfold bounce
  exact (mkeeps_dropAll x h w hx).trans (mkeeps_of_eq (mg_setHost _ h _))

/-- non-vacuity: the two-member group of the seeded change — after the crash of host 0 the member of
    host 1 is still in the group. -/
example :
    let g : Addr := { ip := .mc 0, port := 9000 }
    let a : Addr := { ip := .host 0, port := 9000 }
    let b : Addr := { ip := .host 1, port := 9000 }
    let w : World := { mgroups := [(g, [a, b])] }
    (w.mgLeaveAll a).mgroups = [(g, [b])] := by decide

end TV.C04
