import TvCore.Model.Run
/-
  C11 — `Sim::run` succeeds exactly when every client finished Ok in time.
  Model: `TV.Run` (sim.rs `run` / `step`, rt.rs `tick`).  `Sim.fixLateRun` switches between the code before
  (false) and after (true) the repair of F-C11-1 (a guard at the head of `Sim::step`); the theorems are stated
  for both values unless they say otherwise.  Headline: `run_ok_iff_fixed` (repaired code, from any state),
  `run_ok_iff_in_time` (unrepaired code, only for a run that begins within the duration), `witness_F_C11_1` /
  `fixed_F_C11_1` (the corpus scenario), `run_fault` (an error as soon as a software returns one).
-/
namespace TV.C11
open TV.Run

/-- software `s` produces its outcome in global step `k`. -/
def firesAt (tick _k : Nat) (s : Sw) : Bool := s.running && s.finStep tick == s.ticks + 1 && s.effective != .never

/-- **Finished or crashed software is never polled again**: `tickAll` leaves every software whose
    handle is gone exactly as it is. -/
theorem no_repoll (tick k : Nat) : ∀ (sws : List Sw) (i : Nat) (s : Sw), sws[i]? = some s → s.running = false →
    (tickAll tick k sws).1[i]? = some s
  | [], i, s, h, _ => by simp at h
  | x :: rest, i, s, h, hr => by
    unfold tickAll
    cases i with
    | zero =>
      simp only [List.getElem?_cons_zero, Option.some.injEq] at h
      subst h
      simp [hr]
    | succ j =>
      simp only [List.getElem?_cons_succ] at h
      by_cases hx : x.running = true
      · simp only [hx, Bool.not_true, Bool.false_eq_true, if_false]
        by_cases hf : (x.finStep tick == x.ticks + 1 && x.effective != .never) = true
        · simp only [hf, if_true]
          cases x.effective with
          | ok => simpa using no_repoll tick k rest j s h hr
          | err => simpa using h
          | never => simpa using h
          | panic => simpa using h
        · simp only [hf, Bool.false_eq_true, if_false]
          simpa using no_repoll tick k rest j s h hr
      · have hx' : x.running = false := by simpa using hx
        simp only [hx', Bool.not_false, if_true]
        simpa using no_repoll tick k rest j s h hr

/-- The step aborts with a software error only if some running software returns Err in this step;
    with a panic only if some running software panics in this step. -/
theorem abort_has_cause (tick k : Nat) : ∀ (sws : List Sw),
    ((tickAll tick k sws).2.2 = some .errSoftware → ∃ s ∈ sws, firesAt tick k s = true ∧ s.effective = .err) ∧
    ((tickAll tick k sws).2.2 = some .panic → ∃ s ∈ sws, firesAt tick k s = true ∧ s.effective = .panic) ∧
    ((tickAll tick k sws).2.2 ≠ some .errTimeout) ∧ (∀ b, (tickAll tick k sws).2.2 ≠ some (.cont b))
  | [] => by simp [tickAll]
  | x :: rest => by
    have ih := abort_has_cause tick k rest
    unfold tickAll
    by_cases hx : x.running = true
    · simp only [hx, Bool.not_true, Bool.false_eq_true, if_false]
      by_cases hf : (x.finStep tick == x.ticks + 1 && x.effective != .never) = true
      · simp only [hf, if_true]
        have hfire : firesAt tick k x = true := by
          unfold firesAt; simp only [hx, Bool.true_and]; exact hf
        cases he : x.effective with
        | ok =>
          simp only
          refine ⟨fun h => ?_, fun h => ?_, ih.2.2.1, ih.2.2.2⟩
          · obtain ⟨s, hs, hh⟩ := ih.1 h; exact ⟨s, by simp [hs], hh⟩
          · obtain ⟨s, hs, hh⟩ := ih.2.1 h; exact ⟨s, by simp [hs], hh⟩
        | err =>
          simp only
          exact ⟨fun _ => ⟨x, by simp, hfire, he⟩, by simp, by simp, by simp⟩
        | never => simp [he] at hf
        | panic =>
          simp only
          exact ⟨by simp, fun _ => ⟨x, by simp, hfire, he⟩, by simp, by simp⟩
      · simp only [hf, Bool.false_eq_true, if_false]
        refine ⟨fun h => ?_, fun h => ?_, ih.2.2.1, ih.2.2.2⟩
        · obtain ⟨s, hs, hh⟩ := ih.1 h; exact ⟨s, by simp [hs], hh⟩
        · obtain ⟨s, hs, hh⟩ := ih.2.1 h; exact ⟨s, by simp [hs], hh⟩
    · have hx' : x.running = false := by simpa using hx
      simp only [hx', Bool.not_false, if_true]
      refine ⟨fun h => ?_, fun h => ?_, ih.2.2.1, ih.2.2.2⟩
      · obtain ⟨s, hs, hh⟩ := ih.1 h; exact ⟨s, by simp [hs], hh⟩
      · obtain ⟨s, hs, hh⟩ := ih.2.1 h; exact ⟨s, by simp [hs], hh⟩

/-- **Hosts do not block success; clients do**: when the step does not abort, it reports completion
    iff every client whose handle is still present finishes Ok in this very step.  Host software —
    finishing, never finishing — does not enter the condition. -/
theorem finished_iff (tick k : Nat) : ∀ (sws : List Sw), (tickAll tick k sws).2.2 = none →
    ((tickAll tick k sws).2.1 = true ↔
      ∀ s ∈ sws, s.running = true → s.client = true → (firesAt tick k s = true ∧ s.effective = .ok))
  | [], _ => by simp [tickAll]
  | x :: rest, hno => by
    unfold tickAll at hno ⊢
    by_cases hx : x.running = true
    · simp only [hx, Bool.not_true, Bool.false_eq_true, if_false] at hno ⊢
      by_cases hf : (x.finStep tick == x.ticks + 1 && x.effective != .never) = true
      · simp only [hf, if_true] at hno ⊢
        have hfire : firesAt tick k x = true := by
          unfold firesAt; simp only [hx, Bool.true_and]; exact hf
        cases he : x.effective with
        | ok =>
          simp only [he] at hno ⊢
          rw [finished_iff tick k rest hno]
          constructor
          · intro h s hs hr hc
            rcases List.mem_cons.mp hs with hs | hs
            · subst hs; exact ⟨hfire, he⟩
            · exact h s hs hr hc
          · intro h s hs hr hc; exact h s (by simp [hs]) hr hc
        | err => simp [he] at hno
        | never => simp [he] at hf
        | panic => simp [he] at hno
      · simp only [hf, Bool.false_eq_true, if_false] at hno ⊢
        have hnf : firesAt tick k x = false := by
          unfold firesAt; simp only [hx, Bool.true_and]; simpa using hf
        by_cases hc : x.client = true
        · simp only [hc, if_true]
          constructor
          · intro h; cases h
          · intro h
            have := (h x (by simp) hx hc).1
            rw [hnf] at this; cases this
        · have hc' : x.client = false := by simpa using hc
          simp only [hc', Bool.false_eq_true, if_false]
          rw [finished_iff tick k rest hno]
          constructor
          · intro h s hs hr hcl
            rcases List.mem_cons.mp hs with hs | hs
            · subst hs; rw [hc'] at hcl; cases hcl
            · exact h s hs hr hcl
          · intro h s hs hr hcl; exact h s (by simp [hs]) hr hcl
    · have hx' : x.running = false := by simpa using hx
      simp only [hx', Bool.not_false, if_true] at hno ⊢
      rw [finished_iff tick k rest hno]
      constructor
      · intro h s hs hr hcl
        rcases List.mem_cons.mp hs with hs | hs
        · subst hs; rw [hx'] at hr; cases hr
        · exact h s hs hr hcl
      · intro h s hs hr hcl; exact h s (by simp [hs]) hr hcl

/-- **An error is reported once**: the software whose Err aborts the step has lost its handle in the
    resulting state (`running = false`), so by `no_repoll` no later step polls it or reports it again —
    the simulation can be driven on after the error. -/
theorem err_marks_finished (tick k : Nat) : ∀ (sws : List Sw), (tickAll tick k sws).2.2 = some .errSoftware →
    ∃ (i : Nat) (s s' : Sw), sws[i]? = some s ∧ firesAt tick k s = true ∧ s.effective = .err ∧
      (tickAll tick k sws).1[i]? = some s' ∧ s'.running = false
  | [], h => by simp [tickAll] at h
  | x :: rest, h => by
    unfold tickAll at h ⊢
    by_cases hx : x.running = true
    · simp only [hx, Bool.not_true, Bool.false_eq_true, if_false] at h ⊢
      by_cases hf : (x.finStep tick == x.ticks + 1 && x.effective != .never) = true
      · simp only [hf, if_true] at h ⊢
        have hfire : firesAt tick k x = true := by
          unfold firesAt; simp only [hx, Bool.true_and]; exact hf
        cases he : x.effective with
        | ok =>
          simp only [he] at h ⊢
          obtain ⟨i, s, s', h1, h2, h3, h4, h5⟩ := err_marks_finished tick k rest h
          exact ⟨i + 1, s, s', by rw [List.getElem?_cons_succ]; exact h1, h2, h3, by rw [List.getElem?_cons_succ]; exact h4, h5⟩
        | err =>
          simp only [he]
          exact ⟨0, x, ({ x with running := false, ticks := x.ticks + 1 } : Sw), List.getElem?_cons_zero, hfire, he, List.getElem?_cons_zero, rfl⟩
        | never => simp [he] at hf
        | panic => simp [he] at h
      · simp only [hf, Bool.false_eq_true, if_false] at h ⊢
        obtain ⟨i, s, s', h1, h2, h3, h4, h5⟩ := err_marks_finished tick k rest h
        exact ⟨i + 1, s, s', by rw [List.getElem?_cons_succ]; exact h1, h2, h3, by rw [List.getElem?_cons_succ]; exact h4, h5⟩
    · have hx' : x.running = false := by simpa using hx
      simp only [hx', Bool.not_false, if_true] at h ⊢
      obtain ⟨i, s, s', h1, h2, h3, h4, h5⟩ := err_marks_finished tick k rest h
      exact ⟨i + 1, s, s', by rw [List.getElem?_cons_succ]; exact h1, h2, h3, by rw [List.getElem?_cons_succ]; exact h4, h5⟩

/-- what `tickAll` can return as an abort reason. -/
def AbortOk (a : Option StepRes) : Prop := a = none ∨ a = some .errSoftware ∨ a = some .panic

theorem tickAll_abortOk (tick k : Nat) (sws : List Sw) : AbortOk (tickAll tick k sws).2.2 := by
  have hc := abort_has_cause tick k sws
  unfold AbortOk
  cases h : (tickAll tick k sws).2.2 with
  | none => exact Or.inl rfl
  | some r =>
    cases r with
    | cont b => exact absurd h (hc.2.2.2 b)
    | errTimeout => exact absurd h hc.2.2.1
    | errSoftware => exact Or.inr (Or.inl rfl)
    | panic => exact Or.inr (Or.inr rfl)

/-! ### `step` with and without the repair of F-C11-1

`Sim.fixLateRun` switches on the guard the repair puts at the head of `Sim::step` (`lateGuard`).  The theorems
above are about the tick loop and do not see the flag.  Below, every statement holds for BOTH values of the
flag; where the guard changes a statement the change is spelt out (`step_counts`, `timeout_iff`), and the
statement of the unrepaired code is kept as the `…_faithful` corollary. -/

theorem lateGuard_iff (m : Sim) : lateGuard m = true ↔
    m.fixLateRun = true ∧ m.steps * m.tick > m.duration ∧ ∃ s ∈ m.sws, s.client = true ∧ s.running = true := by
  unfold lateGuard
  simp only [Bool.and_eq_true, decide_eq_true_eq, List.any_eq_true]
  constructor
  · rintro ⟨⟨h1, h2⟩, s, hs, h3⟩; exact ⟨h1, h2, s, hs, h3⟩
  · rintro ⟨h1, h2, s, hs, h3⟩; exact ⟨⟨h1, h2⟩, s, hs, h3⟩

theorem lateGuard_faithful (m : Sim) (h : m.fixLateRun = false) : lateGuard m = false := by
  unfold lateGuard; simp [h]

/-- **The repaired step refuses to begin late**: with the repair, a step that would begin after the duration
    has elapsed while a client is still unfinished returns the timeout at once and changes nothing — no
    software is ticked, `steps` / `elapsed` stay. -/
theorem step_late (m : Sim) (h : lateGuard m = true) : step m = (m, .errTimeout) := by
  unfold step; simp [h]

theorem step_not_late (m : Sim) (h : lateGuard m = false) :
    step m = stepOf m (tickAll m.tick (m.steps + 1) m.sws).1 (tickAll m.tick (m.steps + 1) m.sws).2.1
      (tickAll m.tick (m.steps + 1) m.sws).2.2 := by
  unfold step; simp [h]

/-- `step` counts a step (and so advances `Sim::elapsed`) exactly when it does not abort. -/
theorem stepOf_counts (m : Sim) (sws : List Sw) (fin : Bool) (a : Option StepRes) (ha : AbortOk a) :
    ((stepOf m sws fin a).2 = .errSoftware ∨ (stepOf m sws fin a).2 = .panic → (stepOf m sws fin a).1.steps = m.steps) ∧
    ((∃ b, (stepOf m sws fin a).2 = .cont b) ∨ (stepOf m sws fin a).2 = .errTimeout → (stepOf m sws fin a).1.steps = m.steps + 1) := by
  unfold stepOf
  rcases ha with rfl | rfl | rfl
  · simp only
    split <;> simp
  · simp
  · simp

/-- **Which steps count** (both variants).  A step that aborts with a software error or a panic does not
    advance `steps`; a step that answers `cont` always does; a step that reports the timeout does, unless it
    is the guarded step of the repair, which leaves the whole state as it is.
    (Statement adjusted for the flag: before the repair the third clause had no exception — that form is
    `step_counts_faithful`.) -/
theorem step_counts (m : Sim) :
    ((step m).2 = .errSoftware ∨ (step m).2 = .panic → (step m).1.steps = m.steps) ∧
    ((∃ b, (step m).2 = .cont b) → (step m).1.steps = m.steps + 1) ∧
    ((step m).2 = .errTimeout → if lateGuard m then (step m).1 = m else (step m).1.steps = m.steps + 1) := by
  by_cases hg : lateGuard m = true
  · rw [step_late m hg]; simp [hg]
  · have hg' : lateGuard m = false := by simpa using hg
    have h := stepOf_counts m (tickAll m.tick (m.steps + 1) m.sws).1 (tickAll m.tick (m.steps + 1) m.sws).2.1 _
      (tickAll_abortOk m.tick (m.steps + 1) m.sws)
    rw [step_not_late m hg']
    refine ⟨h.1, fun hb => h.2 (Or.inl hb), fun ht => ?_⟩
    simp only [hg', Bool.false_eq_true, if_false]
    exact h.2 (Or.inr ht)

theorem step_counts_faithful (m : Sim) (hf : m.fixLateRun = false) :
    ((step m).2 = .errSoftware ∨ (step m).2 = .panic → (step m).1.steps = m.steps) ∧
    ((∃ b, (step m).2 = .cont b) ∨ (step m).2 = .errTimeout → (step m).1.steps = m.steps + 1) := by
  have h := step_counts m
  refine ⟨h.1, fun hb => ?_⟩
  rcases hb with hb | hb
  · exact h.2.1 hb
  · have := h.2.2 hb
    simpa [lateGuard_faithful m hf] using this

/-- **Timeout** (both variants): a step reports the timeout iff it is the guarded step of the repair (it
    would begin with the duration already exceeded and a client unfinished), or nothing aborted, the
    duration is exceeded after this step, and some client is still unfinished.
    (Statement adjusted for the flag: the first disjunct is new; `timeout_iff_faithful` is the old form.) -/
theorem timeout_iff (m : Sim) :
    (step m).2 = .errTimeout ↔
      lateGuard m = true ∨
      ((tickAll m.tick (m.steps + 1) m.sws).2.2 = none ∧ (m.steps + 1) * m.tick > m.duration ∧
       (tickAll m.tick (m.steps + 1) m.sws).2.1 = false) := by
  by_cases hg : lateGuard m = true
  · rw [step_late m hg]; simp [hg]
  · have hg' : lateGuard m = false := by simpa using hg
    have ha := tickAll_abortOk m.tick (m.steps + 1) m.sws
    rw [step_not_late m hg']
    simp only [hg', Bool.false_eq_true, false_or]
    unfold stepOf
    rcases ha with h | h | h
    · rw [h]
      simp only [true_and]
      by_cases hd : (m.steps + 1) * m.tick > m.duration <;> cases (tickAll m.tick (m.steps + 1) m.sws).2.1 <;> simp [hd]
    · rw [h]; simp
    · rw [h]; simp

theorem timeout_iff_faithful (m : Sim) (hf : m.fixLateRun = false) :
    (step m).2 = .errTimeout ↔
      (tickAll m.tick (m.steps + 1) m.sws).2.2 = none ∧ (m.steps + 1) * m.tick > m.duration ∧
      (tickAll m.tick (m.steps + 1) m.sws).2.1 = false := by
  rw [timeout_iff m]; simp [lateGuard_faithful m hf]

/-- once the duration is exceeded a step never says "not finished yet, keep going" (both variants; unchanged). -/
theorem late_step_decides (m : Sim) (h : (m.steps + 1) * m.tick > m.duration) : (step m).2 ≠ .cont false := by
  by_cases hg : lateGuard m = true
  · rw [step_late m hg]; simp
  · have hg' : lateGuard m = false := by simpa using hg
    have ha := tickAll_abortOk m.tick (m.steps + 1) m.sws
    rw [step_not_late m hg']
    unfold stepOf
    rcases ha with h' | h' | h'
    · rw [h']
      cases (tickAll m.tick (m.steps + 1) m.sws).2.1 <;> simp [h]
    · rw [h']; simp
    · rw [h']; simp

theorem step_tick (m : Sim) : (step m).1.tick = m.tick ∧ (step m).1.duration = m.duration ∧
    (step m).1.fixLateRun = m.fixLateRun := by
  by_cases hg : lateGuard m = true
  · rw [step_late m hg]; exact ⟨rfl, rfl, rfl⟩
  · have hg' : lateGuard m = false := by simpa using hg
    rw [step_not_late m hg']
    unfold stepOf
    cases (tickAll m.tick (m.steps + 1) m.sws).2.2 with
    | some r => exact ⟨rfl, rfl, rfl⟩
    | none => simp only; split <;> exact ⟨rfl, rfl, rfl⟩

/-- **`step` never polls finished software again** (both variants): software whose handle is gone is, after
    the step, exactly as before — whether the step counted, aborted or was refused by the guard. -/
theorem step_no_repoll (m : Sim) (i : Nat) (s : Sw) (h : m.sws[i]? = some s) (hr : s.running = false) :
    (step m).1.sws[i]? = some s := by
  by_cases hg : lateGuard m = true
  · rw [step_late m hg]; exact h
  · have hg' : lateGuard m = false := by simpa using hg
    have hn := no_repoll m.tick (m.steps + 1) m.sws i s h hr
    rw [step_not_late m hg']
    unfold stepOf
    cases (tickAll m.tick (m.steps + 1) m.sws).2.2 with
    | some r => exact hn
    | none => simp only; split <;> exact hn

/-- **`run` always decides** (success, software error, timeout or panic) — it never runs out of
    fuel: the loop needs at most ⌊duration/tick⌋ + 1 further steps (both variants). -/
theorem runLoop_decides : ∀ (fuel : Nat) (m : Sim), 0 < m.tick → m.duration < (m.steps + fuel) * m.tick →
    0 < fuel → (runLoop fuel m).2 ≠ .cont false
  | 0, _, _, _, hf => by omega
  | fuel + 1, m, ht, hd, _ => by
    unfold runLoop
    cases hs : step m with
    | mk m' r =>
      simp only
      cases r with
      | cont b =>
        cases b with
        | true => simp
        | false =>
          simp only
          have hlate : ¬ (m.steps + 1) * m.tick > m.duration := by
            intro hl
            have := late_step_decides m hl
            rw [hs] at this; exact this rfl
          have hst : m'.steps = m.steps + 1 := by
            have := (step_counts m).2.1 ⟨false, by rw [hs]⟩
            rw [hs] at this; exact this
          have htk := step_tick m
          rw [hs] at htk
          have hfuel : 0 < fuel := by
            cases fuel with
            | zero => simp at hd; omega
            | succ f => omega
          apply runLoop_decides fuel m' (by rw [htk.1]; exact ht) ?_ hfuel
          rw [hst, htk.1, htk.2.1]
          have : m.steps + 1 + fuel = m.steps + (fuel + 1) := by omega
          rw [this]; exact hd
      | errSoftware => simp
      | errTimeout => simp
      | panic => simp

theorem run_fuel (m : Sim) (ht : 0 < m.tick) :
    m.duration < (m.steps + (m.duration / m.tick + 2 - m.steps + 1)) * m.tick := by
  have h1 : m.duration < (m.duration / m.tick + 1) * m.tick := by
    have := Nat.div_add_mod m.duration m.tick
    have := Nat.mod_lt m.duration ht
    rw [Nat.add_mul, Nat.one_mul, Nat.mul_comm]; omega
  have h2 : m.duration / m.tick + 1 ≤ m.steps + (m.duration / m.tick + 2 - m.steps + 1) := by omega
  exact Nat.lt_of_lt_of_le h1 (Nat.mul_le_mul_right _ h2)

/-- **`run` decides from any state** (both variants).  Stronger than before the repair work: the former
    hypothesis `steps * tick ≤ duration + tick` was never used — also a run that begins long after the
    duration has elapsed ends after one step (its fuel is 1 and a late step decides). -/
theorem run_decides (m : Sim) (ht : 0 < m.tick) : (run m).2 ≠ .cont false := by
  unfold run
  split
  · simp
  · exact runLoop_decides _ m ht (run_fuel m ht) (by omega)

/-- **Zero clients**: `run` returns Ok at once without stepping (both variants; unchanged). -/
theorem run_zero_clients (m : Sim) (h : m.sws.any (·.client) = false) : run m = (m, .cont true) := by
  unfold run; simp [h]

/-- non-vacuity / boundary: duration 2 ticks; a client finishing exactly at 2·tick is observed in
    step 3 — the step in which the duration is crossed — and still counts; one finishing a tick later
    does not. -/
example : (run (register { tick := 1000, duration := 2000 } { client := true, atUs := 2000, outcome := .ok })).2 = .cont true := by decide
example : (run (register { tick := 1000, duration := 2000 } { client := true, atUs := 3000, outcome := .ok })).2 = .errTimeout := by decide
example : (run (register (register { tick := 1000, duration := 5000 } { client := true, atUs := 3000, outcome := .ok })
            { client := false, atUs := 1000, outcome := .err })).2 = .errSoftware := by decide
example : (run (register { tick := 1000, duration := 2000, fixLateRun := true } { client := true, atUs := 2000, outcome := .ok })).2 = .cont true := by decide
example : (run (register { tick := 1000, duration := 2000, fixLateRun := true } { client := true, atUs := 3000, outcome := .ok })).2 = .errTimeout := by decide

/-! ### `run` decided from the starting state

Every step that is not refused ticks every running software exactly once, so for running software the
difference `steps − ticks` never changes: `finAt m s` — the global step in which `s` produces its outcome —
can be read off any state of the run. -/

/-- the global step (= number of completed steps when it is over) in which running software `s` produces
    its outcome; meaningful when `s.ticks < s.finStep` (otherwise the instant is already past and `s` never
    produces anything).  For software registered by `register` at `regStep` this is `regStep + ⌊at/tick⌋ + 1`.
    That step BEGINS at `Sim::elapsed = (finAt − 1) · tick`. -/
def finAt (m : Sim) (s : Sw) : Nat := m.steps + s.finStep m.tick - s.ticks

/-- client `c` finishes Ok, and the step in which it does begins with `elapsed ≤ duration`
    (`≤`, not `<`: the Rust tests `elapsed > duration`, so a step beginning exactly at the duration still runs). -/
def InTime (m : Sim) (c : Sw) : Prop :=
  c.effective = .ok ∧ c.ticks < c.finStep m.tick ∧ (finAt m c - 1) * m.tick ≤ m.duration

/-- every client whose handle is still present finishes Ok in a step that begins within the duration.
    (Clients whose handle is gone were judged by the `run` / `step` that took the handle.) -/
def AllInTime (m : Sim) : Prop := ∀ c ∈ m.sws, c.client = true → c.running = true → InTime m c

/-- no running software returns Err or panics up to and including global step `K`. -/
def QuietUntil (m : Sim) (K : Nat) : Prop :=
  ∀ s ∈ m.sws, s.running = true → (s.effective = .err ∨ s.effective = .panic) → s.ticks < s.finStep m.tick →
    K < finAt m s

/-- one software after a tick in which nothing aborted. -/
def tickOne (tick : Nat) (s : Sw) : Sw :=
  if firesAt tick 0 s then { s with running := false, ticks := s.ticks + 1 }
  else if s.running then { s with ticks := s.ticks + 1 } else s

/-- the state after a step that was neither refused nor aborted. -/
def stepped (m : Sim) : Sim := { m with sws := m.sws.map (tickOne m.tick), steps := m.steps + 1 }

theorem firesAt_iff (tick k : Nat) (s : Sw) : firesAt tick k s = true ↔
    s.running = true ∧ s.finStep tick = s.ticks + 1 ∧ s.effective ≠ .never := by
  unfold firesAt
  simp only [Bool.and_eq_true, beq_iff_eq, bne_iff_ne, ne_eq, and_assoc]

theorem tickAll_none_map (tick k : Nat) : ∀ (sws : List Sw), (tickAll tick k sws).2.2 = none →
    (tickAll tick k sws).1 = sws.map (tickOne tick)
  | [], _ => by simp [tickAll]
  | x :: rest, hno => by
    unfold tickAll at hno ⊢
    by_cases hx : x.running = true
    · simp only [hx, Bool.not_true, Bool.false_eq_true, if_false] at hno ⊢
      by_cases hf : (x.finStep tick == x.ticks + 1 && x.effective != .never) = true
      · simp only [hf, if_true] at hno ⊢
        have hfire : firesAt tick 0 x = true := by
          unfold firesAt; simp only [hx, Bool.true_and]; exact hf
        cases he : x.effective with
        | ok =>
          simp only [he] at hno ⊢
          rw [tickAll_none_map tick k rest hno]
          simp [tickOne, hfire]
        | err => simp [he] at hno
        | never => simp [he] at hf
        | panic => simp [he] at hno
      · simp only [hf, Bool.false_eq_true, if_false] at hno ⊢
        have hnf : firesAt tick 0 x = false := by
          unfold firesAt; simp only [hx, Bool.true_and]; simpa using hf
        rw [tickAll_none_map tick k rest hno]
        simp [tickOne, hnf, hx]
    · have hx' : x.running = false := by simpa using hx
      simp only [hx', Bool.not_false, if_true] at hno ⊢
      have hnf : firesAt tick 0 x = false := by
        unfold firesAt; simp [hx']
      rw [tickAll_none_map tick k rest hno]
      simp [tickOne, hnf, hx']

theorem no_abort_of_quiet (tick k : Nat) (sws : List Sw)
    (h : ∀ s ∈ sws, firesAt tick k s = true → s.effective = .ok) : (tickAll tick k sws).2.2 = none := by
  have hc := abort_has_cause tick k sws
  rcases tickAll_abortOk tick k sws with h' | h' | h'
  · exact h'
  · obtain ⟨s, hs, hf, he⟩ := hc.1 h'
    have := h s hs hf; rw [he] at this; cases this
  · obtain ⟨s, hs, hf, he⟩ := hc.2.1 h'
    have := h s hs hf; rw [he] at this; cases this

/-- a step that is neither refused nor aborted, in closed form. -/
theorem step_quiet (m : Sim) (hg : lateGuard m = false)
    (hno : (tickAll m.tick (m.steps + 1) m.sws).2.2 = none) :
    step m = (stepped m,
      if (m.steps + 1) * m.tick > m.duration && !(tickAll m.tick (m.steps + 1) m.sws).2.1 then .errTimeout
      else .cont (tickAll m.tick (m.steps + 1) m.sws).2.1) := by
  rw [step_not_late m hg]
  unfold stepOf
  rw [hno, tickAll_none_map m.tick (m.steps + 1) m.sws hno]
  simp only
  split <;> rfl

theorem quiet_now (m : Sim) (K : Nat) (hK : m.steps + 1 ≤ K) (hq : QuietUntil m K) :
    ∀ s ∈ m.sws, firesAt m.tick (m.steps + 1) s = true → s.effective = .ok := by
  intro s hs hf
  obtain ⟨hr, hfs, hne⟩ := (firesAt_iff _ _ _).mp hf
  cases he : s.effective with
  | ok => rfl
  | never => exact absurd he hne
  | err =>
    have := hq s hs hr (Or.inl he) (by omega)
    unfold finAt at this; omega
  | panic =>
    have := hq s hs hr (Or.inr he) (by omega)
    unfold finAt at this; omega

theorem tickOne_running (tick : Nat) (c : Sw) (h : (tickOne tick c).running = true) :
    c.running = true ∧ firesAt tick 0 c = false ∧ tickOne tick c = { c with ticks := c.ticks + 1 } := by
  unfold tickOne at h ⊢
  by_cases hf : firesAt tick 0 c = true
  · simp [hf] at h
  · have hf' : firesAt tick 0 c = false := by simpa using hf
    by_cases hr : c.running = true
    · simp [hf', hr]
    · have hr' : c.running = false := by simpa using hr
      simp [hf', hr'] at h

theorem tickOne_idle (tick : Nat) (c : Sw) (hr : c.running = true) (hf : firesAt tick 0 c = false) :
    tickOne tick c = { c with ticks := c.ticks + 1 } := by
  unfold tickOne; simp [hf, hr]

/-- a client that finishes Ok in the step beginning now, with `elapsed ≤ duration`, is in time. -/
theorem inTime_of_fires (m : Sim) (c : Sw) (hf : firesAt m.tick (m.steps + 1) c = true) (he : c.effective = .ok)
    (hd : m.steps * m.tick ≤ m.duration) : InTime m c := by
  obtain ⟨_, hfs, _⟩ := (firesAt_iff _ _ _).mp hf
  refine ⟨he, by omega, ?_⟩
  have : finAt m c - 1 = m.steps := by unfold finAt; omega
  rw [this]; exact hd

/-- the guard of the repair fires only when some client can no longer be in time. -/
theorem late_not_allInTime (m : Sim) (hg : lateGuard m = true) : ¬ AllInTime m := by
  obtain ⟨_, hl, c, hc, hcl, hr⟩ := (lateGuard_iff m).mp hg
  intro hall
  obtain ⟨_, hlt, hle⟩ := hall c hc hcl hr
  have h1 : m.steps ≤ finAt m c - 1 := by unfold finAt; omega
  have h2 := Nat.le_trans (Nat.mul_le_mul_right m.tick h1) hle
  omega

theorem allInTime_of_fin (m : Sim) (hnow : ∀ s ∈ m.sws, firesAt m.tick (m.steps + 1) s = true → s.effective = .ok)
    (hfin : (tickAll m.tick (m.steps + 1) m.sws).2.1 = true)
    (hin : ∀ c ∈ m.sws, c.client = true → c.running = true → m.steps * m.tick ≤ m.duration) : AllInTime m := by
  have hno := no_abort_of_quiet _ _ _ hnow
  have h := (finished_iff m.tick (m.steps + 1) m.sws hno).mp hfin
  intro c hc hcl hr
  obtain ⟨hf, he⟩ := h c hc hr hcl
  exact inTime_of_fires m c hf he (hin c hc hcl hr)

theorem fin_of_allInTime_late (m : Sim) (hnow : ∀ s ∈ m.sws, firesAt m.tick (m.steps + 1) s = true → s.effective = .ok)
    (hall : AllInTime m) (hl : (m.steps + 1) * m.tick > m.duration) :
    (tickAll m.tick (m.steps + 1) m.sws).2.1 = true := by
  have hno := no_abort_of_quiet _ _ _ hnow
  apply (finished_iff m.tick (m.steps + 1) m.sws hno).mpr
  intro c hc hr hcl
  obtain ⟨he, hlt, hle⟩ := hall c hc hcl hr
  refine ⟨(firesAt_iff _ _ _).mpr ⟨hr, ?_, by rw [he]; simp⟩, he⟩
  apply Classical.byContradiction
  intro hne
  have h1 : m.steps + 1 ≤ finAt m c - 1 := by unfold finAt; omega
  have h2 := Nat.le_trans (Nat.mul_le_mul_right m.tick h1) hle
  omega

theorem finAt_stepped (m : Sim) (c : Sw) :
    finAt (stepped m) { c with ticks := c.ticks + 1 } = finAt m c := by
  show m.steps + 1 + c.finStep m.tick - (c.ticks + 1) = m.steps + c.finStep m.tick - c.ticks
  omega

theorem allInTime_stepped (m : Sim) (hnow : ∀ s ∈ m.sws, firesAt m.tick (m.steps + 1) s = true → s.effective = .ok)
    (hd : (m.steps + 1) * m.tick ≤ m.duration) : AllInTime m ↔ AllInTime (stepped m) := by
  have hd0 : m.steps * m.tick ≤ m.duration :=
    Nat.le_trans (Nat.mul_le_mul_right m.tick (Nat.le_succ m.steps)) hd
  constructor
  · intro hall c' hc' hcl' hr'
    obtain ⟨c, hc, rfl⟩ := List.mem_map.mp hc'
    obtain ⟨hr, hnf, heq⟩ := tickOne_running m.tick c hr'
    rw [heq] at hcl' ⊢
    obtain ⟨he, hlt, hle⟩ := hall c hc hcl' hr
    have hne : c.finStep m.tick ≠ c.ticks + 1 := by
      intro h
      have : firesAt m.tick 0 c = true := (firesAt_iff _ _ _).mpr ⟨hr, h, by rw [he]; simp⟩
      rw [hnf] at this; cases this
    refine ⟨he, ?_, ?_⟩
    · show c.ticks + 1 < c.finStep m.tick
      omega
    · rw [finAt_stepped]; exact hle
  · intro hall c hc hcl hr
    by_cases hf : firesAt m.tick 0 c = true
    · exact inTime_of_fires m c hf (hnow c hc hf) hd0
    · have hnf : firesAt m.tick 0 c = false := by simpa using hf
      have heq := tickOne_idle m.tick c hr hnf
      have hmem : ({ c with ticks := c.ticks + 1 } : Sw) ∈ (stepped m).sws := by
        rw [← heq]; exact List.mem_map.mpr ⟨c, hc, rfl⟩
      obtain ⟨he, hlt, hle⟩ := hall _ hmem hcl hr
      rw [finAt_stepped] at hle
      have hlt' : c.ticks + 1 < c.finStep m.tick := hlt
      exact ⟨he, by omega, hle⟩

theorem quietUntil_stepped (m : Sim) (K : Nat) (hq : QuietUntil m K) : QuietUntil (stepped m) K := by
  intro s' hs' hr' he' hlt'
  obtain ⟨s, hs, rfl⟩ := List.mem_map.mp hs'
  obtain ⟨hr, _, heq⟩ := tickOne_running m.tick s hr'
  rw [heq] at he' hlt' ⊢
  rw [finAt_stepped]
  have hlt : s.ticks + 1 < s.finStep m.tick := hlt'
  exact hq s hs hr he' (by omega)

/-- the loop of `run`, decided from its starting state.  `K` is the horizon up to which no software error or
    panic is due; the disjunction says the loop begins within the duration or the repair is in. -/
theorem runLoop_spec (K : Nat) : ∀ (fuel : Nat) (m : Sim), 0 < m.tick →
    m.duration < (m.steps + fuel) * m.tick → 0 < fuel →
    (m.fixLateRun = true ∨ m.steps * m.tick ≤ m.duration) →
    m.duration / m.tick + 1 ≤ K → m.steps + 1 ≤ K → QuietUntil m K →
    ((AllInTime m → (runLoop fuel m).2 = .cont true) ∧ (¬ AllInTime m → (runLoop fuel m).2 = .errTimeout))
  | 0, _, _, _, hf, _, _, _, _ => by omega
  | fuel + 1, m, ht, hd, _, hflag, hK1, hK2, hq => by
    by_cases hg : lateGuard m = true
    · have hnot := late_not_allInTime m hg
      unfold runLoop
      rw [step_late m hg]
      exact ⟨fun h => absurd h hnot, fun _ => rfl⟩
    · have hg' : lateGuard m = false := by simpa using hg
      have hnow := quiet_now m K hK2 hq
      have hno := no_abort_of_quiet _ _ _ hnow
      have hstep := step_quiet m hg' hno
      have hin : ∀ c ∈ m.sws, c.client = true → c.running = true → m.steps * m.tick ≤ m.duration := by
        intro c hc hcl hr
        rcases hflag with hfl | hle
        · apply Classical.byContradiction
          intro hgt
          have : lateGuard m = true := (lateGuard_iff m).mpr ⟨hfl, by omega, c, hc, hcl, hr⟩
          rw [hg'] at this; cases this
        · exact hle
      unfold runLoop
      rw [hstep]
      cases hfin : (tickAll m.tick (m.steps + 1) m.sws).2.1 with
      | true =>
        have hall := allInTime_of_fin m hnow hfin hin
        simp only [Bool.not_true, Bool.and_false, Bool.false_eq_true, if_false]
        exact ⟨fun _ => trivial, fun h => absurd hall h⟩
      | false =>
        by_cases hl : (m.steps + 1) * m.tick > m.duration
        · have hnot : ¬ AllInTime m := by
            intro hall
            have := fin_of_allInTime_late m hnow hall hl
            rw [hfin] at this; cases this
          simp only [hl, decide_true, Bool.not_false, Bool.and_self, if_true]
          exact ⟨fun h => absurd h hnot, fun _ => trivial⟩
        · have hle : (m.steps + 1) * m.tick ≤ m.duration := by omega
          simp only [hl, decide_false, Bool.false_and, Bool.false_eq_true, if_false]
          have hfuel : 0 < fuel := by
            cases fuel with
            | zero => simp at hd; omega
            | succ f => omega
          have hd' : (stepped m).duration < ((stepped m).steps + fuel) * (stepped m).tick := by
            show m.duration < (m.steps + 1 + fuel) * m.tick
            have : m.steps + 1 + fuel = m.steps + (fuel + 1) := by omega
            rw [this]; exact hd
          have hK2' : (stepped m).steps + 1 ≤ K := by
            show m.steps + 1 + 1 ≤ K
            have := (Nat.le_div_iff_mul_le ht).mpr hle
            omega
          have ih := runLoop_spec K fuel (stepped m) ht hd' hfuel (Or.inr hle) hK1 hK2'
            (quietUntil_stepped m K hq)
          rw [← allInTime_stepped m hnow hle] at ih
          exact ih

/-- the quiet horizon of a whole `run`: the steps `run` can execute are those that begin within the
    duration — global steps up to `⌊duration/tick⌋ + 1` — and, when it begins later than that with no client
    left running, the one step `steps + 1`. -/
def horizon (m : Sim) : Nat := max (m.steps + 1) (m.duration / m.tick + 1)

/-- **`run`, decided from its starting state** (both variants).  Assume the run begins within the duration
    (`steps · tick ≤ duration`) or the repair is in, and no software error or panic is due in a step the run
    can execute.  Then `run` returns Ok iff every client still running finishes Ok in a step that BEGINS
    within the duration (`(finAt − 1) · tick ≤ duration`), and the timeout otherwise.  Host software that
    never finishes does not enter the condition. -/
theorem run_spec (m : Sim) (ht : 0 < m.tick) (hflag : m.fixLateRun = true ∨ m.steps * m.tick ≤ m.duration)
    (hq : QuietUntil m (horizon m)) :
    ((run m).2 = .cont true ↔ AllInTime m) ∧ ((run m).2 = .errTimeout ↔ ¬ AllInTime m) := by
  have key : (AllInTime m → (run m).2 = .cont true) ∧ (¬ AllInTime m → (run m).2 = .errTimeout) := by
    unfold run
    split
    · rename_i hnc
      have hall : AllInTime m := by
        intro c hc hcl _
        have : m.sws.any (·.client) = true := List.any_eq_true.mpr ⟨c, hc, hcl⟩
        rw [this] at hnc; simp at hnc
      exact ⟨fun _ => rfl, fun h => absurd hall h⟩
    · exact runLoop_spec (horizon m) _ m ht (run_fuel m ht) (by omega) hflag
        (Nat.le_max_right _ _) (Nat.le_max_left _ _) hq
  by_cases hall : AllInTime m
  · have h := key.1 hall
    exact ⟨⟨fun _ => hall, fun _ => h⟩, ⟨fun h' => (by rw [h] at h'; cases h'), fun h' => absurd hall h'⟩⟩
  · have h := key.2 hall
    exact ⟨⟨fun h' => (by rw [h] at h'; cases h'), fun h' => absurd h' hall⟩, ⟨fun _ => hall, fun _ => h⟩⟩

/-- **C11 for the repaired code — the clean form F-C11-1 was the exception to.**  With the repair, from ANY
    state — any number of completed steps, in particular also when the duration has already elapsed —
    `run` returns Ok iff every client still running finishes Ok in a step that begins with
    `elapsed ≤ duration`, i.e. `(finAt − 1) · tick ≤ duration`, and returns the timeout otherwise, provided no
    software error or panic is due up to the horizon.  Boundary: a step beginning with `elapsed = duration`
    exactly may still complete clients (the Rust tests `>`), one beginning later may not. -/
theorem run_ok_iff_fixed (m : Sim) (ht : 0 < m.tick) (hf : m.fixLateRun = true) (hq : QuietUntil m (horizon m)) :
    ((run m).2 = .cont true ↔ AllInTime m) ∧ ((run m).2 = .errTimeout ↔ ¬ AllInTime m) :=
  run_spec m ht (Or.inl hf) hq

/-- the same with the plain hypothesis "no running software returns Err or panics at all". -/
theorem run_ok_iff_fixed_nofault (m : Sim) (ht : 0 < m.tick) (hf : m.fixLateRun = true)
    (hq : ∀ s ∈ m.sws, s.running = true → s.effective = .ok ∨ s.effective = .never) :
    ((run m).2 = .cont true ↔ AllInTime m) ∧ ((run m).2 = .errTimeout ↔ ¬ AllInTime m) := by
  apply run_ok_iff_fixed m ht hf
  intro s hs hr he _
  rcases hq s hs hr with h | h <;> rcases he with he | he <;> rw [h] at he <;> cases he

/-- **Before the repair** the same equivalence holds only for a run that begins within the duration —
    `witness_F_C11_1` shows that the hypothesis cannot be dropped. -/
theorem run_ok_iff_in_time (m : Sim) (ht : 0 < m.tick) (hs : m.steps * m.tick ≤ m.duration)
    (hq : QuietUntil m (horizon m)) :
    ((run m).2 = .cont true ↔ AllInTime m) ∧ ((run m).2 = .errTimeout ↔ ¬ AllInTime m) :=
  run_spec m ht (Or.inr hs) hq

/-- **A late run is refused, state untouched** (repaired code): if the duration has already elapsed and a
    client is unfinished, `run` returns the timeout and the simulation is exactly as it was. -/
theorem run_late_fixed (m : Sim) (hg : lateGuard m = true) : run m = (m, .errTimeout) := by
  obtain ⟨_, _, c, hc, hcl, _⟩ := (lateGuard_iff m).mp hg
  have hany : m.sws.any (·.client) = true := List.any_eq_true.mpr ⟨c, hc, hcl⟩
  unfold run
  simp only [hany, Bool.not_true, Bool.false_eq_true, if_false]
  have : m.duration / m.tick + 2 - m.steps + 1 = (m.duration / m.tick + 2 - m.steps) + 1 := rfl
  rw [this]
  unfold runLoop
  rw [step_late m hg]

/-! ### F-C11-1: the corpus scenario, before and after the repair

duration 2 ms, tick 1 ms.  The first run ends Ok after 3 steps (its client finishes at 2 ms, in the step that
crosses the duration) with `elapsed` = 3 ms > 2 ms.  A client registered then, finishing at once, makes a
second `run` succeed before the repair; with the repair the second run is refused and nothing changes. -/

def sc1 (fix : Bool) : Sim :=
  register { tick := 1000, duration := 2000, fixLateRun := fix } { client := true, atUs := 2000, outcome := .ok }
/-- the state in which the second run begins. -/
def sc2 (fix : Bool) : Sim := register (run (sc1 fix)).1 { client := true, atUs := 0, outcome := .ok }

/-- **Witness of F-C11-1** (unrepaired code): the second run begins with elapsed 3 ms > duration 2 ms, its
    client completes after the duration had elapsed (it is not in time), and `run` still returns Ok —
    the conclusion of `run_ok_iff_in_time` fails without its hypothesis. -/
theorem witness_F_C11_1 :
    (run (sc1 false)).2 = .cont true ∧ (run (sc1 false)).1.steps = 3 ∧
    (sc2 false).steps * (sc2 false).tick > (sc2 false).duration ∧
    (run (sc2 false)).2 = .cont true ∧ (run (sc2 false)).1.steps = 4 := by decide

theorem witness_F_C11_1_not_in_time : ¬ AllInTime (sc2 false) := by
  intro h
  have hm : ({ client := true, atUs := 0, outcome := .ok, regStep := 3 } : Sw) ∈ (sc2 false).sws :=
    List.mem_of_getElem? (i := 1) rfl
  have h2 := (h _ hm rfl rfl).2.2
  revert h2; decide

/-- **The repair on the same scenario**: the first run is as before; the second returns the timeout and
    leaves the state as it was. -/
theorem fixed_F_C11_1 :
    (run (sc1 true)).2 = .cont true ∧ (run (sc1 true)).1.steps = 3 ∧
    (run (sc2 true)).2 = .errTimeout ∧ (run (sc2 true)).1.steps = 3 ∧
    (run (sc2 true)).1.sws.map (fun s => (s.running, s.ticks)) = (sc2 true).sws.map (fun s => (s.running, s.ticks)) := by
  decide

/-- … and in full: the state after the refused run IS the state before it. -/
theorem fixed_F_C11_1_state : run (sc2 true) = (sc2 true, .errTimeout) :=
  run_late_fixed _ (by decide)

/-- The clean form of the property as one statement per code variant (findings pattern, CONVENTIONS §1):
    from any state, absent software errors up to the horizon, `run` returns Ok iff every client still running
    finishes Ok in a step that begins within the duration. -/
def RunOkIff (fix : Bool) : Prop :=
  ∀ m : Sim, m.fixLateRun = fix → 0 < m.tick → QuietUntil m (horizon m) → ((run m).2 = .cont true ↔ AllInTime m)

/-- the repaired code satisfies it … -/
theorem RunOkIff_fixed : RunOkIff true := fun m hf ht hq => (run_ok_iff_fixed m ht hf hq).1

/-- … the code before the repair does not (F-C11-1). -/
theorem RunOkIff_witness : ¬ RunOkIff false := by
  intro h
  have hq : QuietUntil (sc2 false) (horizon (sc2 false)) := by
    intro s hs _ he; revert he; revert s; decide
  exact witness_F_C11_1_not_in_time ((h (sc2 false) rfl (by decide) hq).mp (by decide))

/-! non-vacuity of `run_ok_iff_fixed` / `run_spec`: both sides of each equivalence occur, with the repair in and
    the duration already elapsed (`sc2 true`: refused), within the duration (`sc1 true`: Ok), on the boundary
    (a step beginning at elapsed = duration exactly still completes a client; one tick later does not), and
    with a host error due only beyond the horizon. -/
example : QuietUntil (sc2 true) (horizon (sc2 true)) := by
  intro s hs _ he; revert he; revert s; decide
example : (run (sc2 true)).2 = .errTimeout := by decide
example : QuietUntil (sc1 true) (horizon (sc1 true)) := by
  intro s hs _ he; revert he; revert s; decide
example : AllInTime (sc1 true) := ((run_ok_iff_fixed_nofault (sc1 true) (by decide) rfl (by decide)).1).mp (by decide)
example : (run (register { tick := 1000, duration := 2000, fixLateRun := true } { client := true, atUs := 2999, outcome := .ok })).2 = .cont true := by decide
example : (run (register { tick := 1000, duration := 2000, fixLateRun := true } { client := true, atUs := 3000, outcome := .ok })).2 = .errTimeout := by decide
/-- a host whose Err is due in global step 5 > horizon 3 does not disturb the run. -/
def sc3 : Sim := register (sc1 true) { client := false, atUs := 4000, outcome := .err }
example : QuietUntil sc3 (horizon sc3) := by
  intro s hs _ he hlt
  have : s = { client := true, atUs := 2000, outcome := .ok } ∨ s = { client := false, atUs := 4000, outcome := .err } := by
    simpa [sc3, sc1, register] using hs
  rcases this with rfl | rfl
  · rcases he with he | he <;> cases he
  · decide
example : (run sc3).2 = .cont true := by decide

/-! ### "an error as soon as any software returns an error", at the level of `run` -/

theorem none_all_ok (tick k : Nat) : ∀ (sws : List Sw), (tickAll tick k sws).2.2 = none →
    ∀ s ∈ sws, firesAt tick k s = true → s.effective = .ok
  | [], _ => by simp
  | x :: rest, hno => by
    unfold tickAll at hno
    intro s hs hf
    by_cases hx : x.running = true
    · simp only [hx, Bool.not_true, Bool.false_eq_true, if_false] at hno
      by_cases hfx : (x.finStep tick == x.ticks + 1 && x.effective != .never) = true
      · simp only [hfx, if_true] at hno
        cases he : x.effective with
        | ok =>
          simp only [he] at hno
          rcases List.mem_cons.mp hs with hs | hs
          · rw [hs]; exact he
          · exact none_all_ok tick k rest hno s hs hf
        | err => simp [he] at hno
        | never => simp [he] at hfx
        | panic => simp [he] at hno
      · simp only [hfx, Bool.false_eq_true, if_false] at hno
        rcases List.mem_cons.mp hs with hs | hs
        · exfalso
          rw [hs] at hf
          unfold firesAt at hf; simp only [hx, Bool.true_and] at hf
          exact hfx hf
        · exact none_all_ok tick k rest hno s hs hf
    · have hx' : x.running = false := by simpa using hx
      simp only [hx', Bool.not_false, if_true] at hno
      rcases List.mem_cons.mp hs with hs | hs
      · exfalso
        rw [hs] at hf
        unfold firesAt at hf; simp [hx'] at hf
      · exact none_all_ok tick k rest hno s hs hf

/-- the converse of `abort_has_cause`: a running software that returns Err or panics in this step aborts it. -/
theorem fault_aborts (tick k : Nat) (sws : List Sw) (s : Sw) (hs : s ∈ sws) (hf : firesAt tick k s = true)
    (he : s.effective = .err ∨ s.effective = .panic) :
    (tickAll tick k sws).2.2 = some .errSoftware ∨ (tickAll tick k sws).2.2 = some .panic := by
  rcases tickAll_abortOk tick k sws with h | h | h
  · have := none_all_ok tick k sws h s hs hf
    rcases he with he | he <;> rw [this] at he <;> cases he
  · exact Or.inl h
  · exact Or.inr h

/-- client `c` has finished Ok before global step `g` begins. -/
def DoneBefore (m : Sim) (g : Nat) (c : Sw) : Prop :=
  c.effective = .ok ∧ c.ticks < c.finStep m.tick ∧ finAt m c < g

theorem runLoop_fault (g : Nat) : ∀ (fuel : Nat) (m : Sim), g ≤ m.steps + fuel →
    QuietUntil m (g - 1) → (g - 1) * m.tick ≤ m.duration →
    (∃ s ∈ m.sws, s.running = true ∧ (s.effective = .err ∨ s.effective = .panic) ∧ s.ticks < s.finStep m.tick ∧
      finAt m s = g) →
    (∃ c ∈ m.sws, c.client = true ∧ c.running = true ∧ ¬ DoneBefore m g c) →
    ((runLoop fuel m).2 = .errSoftware ∨ (runLoop fuel m).2 = .panic) ∧ (runLoop fuel m).1.steps = g - 1
  | 0, m, hfuel, _, _, ⟨s, _, _, _, hlt, hg⟩, _ => by
    exfalso; unfold finAt at hg; omega
  | fuel + 1, m, hfuel, hq, hd, ⟨s, hs, hr, he, hlt, hg⟩, ⟨c, hc, hcl, hcr, hnd⟩ => by
    have hn : m.steps + 1 ≤ g := by unfold finAt at hg; omega
    have hd0 : m.steps * m.tick ≤ m.duration :=
      Nat.le_trans (Nat.mul_le_mul_right m.tick (by omega)) hd
    have hg' : lateGuard m = false := by
      cases h : lateGuard m with
      | false => rfl
      | true => have := ((lateGuard_iff m).mp h).2.1; omega
    by_cases hnow : g = m.steps + 1
    · -- the fault fires in this very step
      have hf : firesAt m.tick (m.steps + 1) s = true :=
        (firesAt_iff _ _ _).mpr ⟨hr, by unfold finAt at hg; omega, by rcases he with he | he <;> rw [he] <;> simp⟩
      have hab := fault_aborts m.tick (m.steps + 1) m.sws s hs hf he
      unfold runLoop
      rw [step_not_late m hg']
      unfold stepOf
      rcases hab with hab | hab <;> rw [hab] <;> simp <;> omega
    · have hK : m.steps + 1 ≤ g - 1 := by omega
      have hq' := quiet_now m (g - 1) hK hq
      have hno := no_abort_of_quiet _ _ _ hq'
      have hcnf : firesAt m.tick 0 c = false := by
        cases hcf : firesAt m.tick 0 c with
        | false => rfl
        | true =>
          exfalso
          obtain ⟨_, hfs, _⟩ := (firesAt_iff _ _ _).mp hcf
          exact hnd ⟨hq' c hc hcf, by omega, by unfold finAt; omega⟩
      have hfin : (tickAll m.tick (m.steps + 1) m.sws).2.1 = false := by
        cases hfin : (tickAll m.tick (m.steps + 1) m.sws).2.1 with
        | false => rfl
        | true =>
          have := ((finished_iff m.tick (m.steps + 1) m.sws hno).mp hfin c hc hcr hcl).1
          rw [show firesAt m.tick (m.steps + 1) c = firesAt m.tick 0 c from rfl, hcnf] at this; cases this
      have hle : (m.steps + 1) * m.tick ≤ m.duration :=
        Nat.le_trans (Nat.mul_le_mul_right m.tick hK) hd
      have hnl : ¬ (m.steps + 1) * m.tick > m.duration := by omega
      unfold runLoop
      rw [step_quiet m hg' hno, hfin]
      simp only [hnl, decide_false, Bool.false_and, Bool.false_eq_true, if_false]
      have hsnf : firesAt m.tick 0 s = false := by
        cases hsf : firesAt m.tick 0 s with
        | false => rfl
        | true =>
          exfalso
          obtain ⟨_, hfs, _⟩ := (firesAt_iff _ _ _).mp hsf
          unfold finAt at hg; omega
      have hs' : ({ s with ticks := s.ticks + 1 } : Sw) ∈ (stepped m).sws := by
        rw [← tickOne_idle m.tick s hr hsnf]; exact List.mem_map.mpr ⟨s, hs, rfl⟩
      have hc' : ({ c with ticks := c.ticks + 1 } : Sw) ∈ (stepped m).sws := by
        rw [← tickOne_idle m.tick c hcr hcnf]; exact List.mem_map.mpr ⟨c, hc, rfl⟩
      have hsne : s.finStep m.tick ≠ s.ticks + 1 := by unfold finAt at hg; omega
      apply runLoop_fault g fuel (stepped m) (by show g ≤ m.steps + 1 + fuel; omega)
        (quietUntil_stepped m (g - 1) hq) hd
      · refine ⟨_, hs', hr, he, ?_, ?_⟩
        · show s.ticks + 1 < s.finStep m.tick
          omega
        · rw [finAt_stepped]; exact hg
      · refine ⟨_, hc', hcl, hcr, ?_⟩
        rintro ⟨h1, h2, h3⟩
        rw [finAt_stepped] at h3
        have h2' : c.ticks + 1 < c.finStep m.tick := h2
        exact hnd ⟨h1, by omega, h3⟩

/-- **An error as soon as a software returns one** (both variants): if the earliest software error / panic is
    due in global step `g`, that step begins within the duration, and some client has not finished Ok before
    it begins, then `run` executes exactly the `g − 1` steps before it and returns the software error (or
    panics) in step `g` — neither success nor the timeout pre-empts it. -/
theorem run_fault (m : Sim) (ht : 0 < m.tick) (g : Nat) (hq : QuietUntil m (g - 1)) (hd : (g - 1) * m.tick ≤ m.duration)
    (hs : ∃ s ∈ m.sws, s.running = true ∧ (s.effective = .err ∨ s.effective = .panic) ∧ s.ticks < s.finStep m.tick ∧
      finAt m s = g)
    (hc : ∃ c ∈ m.sws, c.client = true ∧ c.running = true ∧ ¬ DoneBefore m g c) :
    ((run m).2 = .errSoftware ∨ (run m).2 = .panic) ∧ (run m).1.steps = g - 1 := by
  obtain ⟨c, hcm, hcl, hcr, hnd⟩ := hc
  have hany : m.sws.any (·.client) = true := List.any_eq_true.mpr ⟨c, hcm, hcl⟩
  unfold run
  simp only [hany, Bool.not_true, Bool.false_eq_true, if_false]
  apply runLoop_fault g _ m ?_ hq hd hs ⟨c, hcm, hcl, hcr, hnd⟩
  have := (Nat.le_div_iff_mul_le ht).mpr hd
  omega

/-- non-vacuity: a host Err due in step 2 while the client needs step 3 — `run` stops in step 2, one step counted. -/
example : (run (register (sc1 true) { client := false, atUs := 1000, outcome := .err })).2 = .errSoftware ∧
    (run (register (sc1 true) { client := false, atUs := 1000, outcome := .err })).1.steps = 1 := by decide

end TV.C11
