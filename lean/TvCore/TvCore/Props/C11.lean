import TvCore.Model.Run
/-
  C11 — `Sim::run` succeeds exactly when every client finished Ok in time.
  Model: `TV.Run` (sim.rs `run` / `step`, rt.rs `tick`).
-/
namespace TV.C11
open TV.Run

/-- software `s` produces its outcome in global step `k`. -/
def firesAt (tick _k : Nat) (s : Sw) : Bool := s.running && s.finStep tick == s.ticks + 1 && s.effective != .never

/-- **Finished or crashed software is never polled again**: `tickAll` leaves every software whose
    handle is gone exactly as it is. -/
theorem no_repoll (tick k : Nat) : ∀ (sws : List Sw) (i : Nat) (s : Sw), sws[i]? = some s → s.running = false →
    (tickAll tick k sws).1[i]? = some s
  | [], i, s, h, _ => by simp at h
  | x :: rest, i, s, h, hr => by
    unfold tickAll
    cases i with
    | zero =>
      simp only [List.getElem?_cons_zero, Option.some.injEq] at h
      subst h
      simp [hr]
    | succ j =>
      simp only [List.getElem?_cons_succ] at h
      by_cases hx : x.running = true
      · simp only [hx, Bool.not_true, Bool.false_eq_true, if_false]
        by_cases hf : (x.finStep tick == x.ticks + 1 && x.effective != .never) = true
        · simp only [hf, if_true]
          cases x.effective with
          | ok => simpa using no_repoll tick k rest j s h hr
          | err => simpa using h
          | never => simpa using h
          | panic => simpa using h
        · simp only [hf, Bool.false_eq_true, if_false]
          simpa using no_repoll tick k rest j s h hr
      · have hx' : x.running = false := by simpa using hx
        simp only [hx', Bool.not_false, if_true]
        simpa using no_repoll tick k rest j s h hr

/-- The step aborts with a software error only if some running software returns Err in this step;
    with a panic only if some running software panics in this step. -/
theorem abort_has_cause (tick k : Nat) : ∀ (sws : List Sw),
    ((tickAll tick k sws).2.2 = some .errSoftware → ∃ s ∈ sws, firesAt tick k s = true ∧ s.effective = .err) ∧
    ((tickAll tick k sws).2.2 = some .panic → ∃ s ∈ sws, firesAt tick k s = true ∧ s.effective = .panic) ∧
    ((tickAll tick k sws).2.2 ≠ some .errTimeout) ∧ (∀ b, (tickAll tick k sws).2.2 ≠ some (.cont b))
  | [] => by simp [tickAll]
  | x :: rest => by
    have ih := abort_has_cause tick k rest
    unfold tickAll
    by_cases hx : x.running = true
    · simp only [hx, Bool.not_true, Bool.false_eq_true, if_false]
      by_cases hf : (x.finStep tick == x.ticks + 1 && x.effective != .never) = true
      · simp only [hf, if_true]
        have hfire : firesAt tick k x = true := by
          unfold firesAt; simp only [hx, Bool.true_and]; exact hf
        cases he : x.effective with
        | ok =>
          simp only
          refine ⟨fun h => ?_, fun h => ?_, ih.2.2.1, ih.2.2.2⟩
          · obtain ⟨s, hs, hh⟩ := ih.1 h; exact ⟨s, by simp [hs], hh⟩
          · obtain ⟨s, hs, hh⟩ := ih.2.1 h; exact ⟨s, by simp [hs], hh⟩
        | err =>
          simp only
          exact ⟨fun _ => ⟨x, by simp, hfire, he⟩, by simp, by simp, by simp⟩
        | never => simp [he] at hf
        | panic =>
          simp only
          exact ⟨by simp, fun _ => ⟨x, by simp, hfire, he⟩, by simp, by simp⟩
      · simp only [hf, Bool.false_eq_true, if_false]
        refine ⟨fun h => ?_, fun h => ?_, ih.2.2.1, ih.2.2.2⟩
        · obtain ⟨s, hs, hh⟩ := ih.1 h; exact ⟨s, by simp [hs], hh⟩
        · obtain ⟨s, hs, hh⟩ := ih.2.1 h; exact ⟨s, by simp [hs], hh⟩
    · have hx' : x.running = false := by simpa using hx
      simp only [hx', Bool.not_false, if_true]
      refine ⟨fun h => ?_, fun h => ?_, ih.2.2.1, ih.2.2.2⟩
      · obtain ⟨s, hs, hh⟩ := ih.1 h; exact ⟨s, by simp [hs], hh⟩
      · obtain ⟨s, hs, hh⟩ := ih.2.1 h; exact ⟨s, by simp [hs], hh⟩

/-- **Hosts do not block success; clients do**: when the step does not abort, it reports completion
    iff every client whose handle is still present finishes Ok in this very step.  Host software —
    finishing, never finishing — does not enter the condition. -/
theorem finished_iff (tick k : Nat) : ∀ (sws : List Sw), (tickAll tick k sws).2.2 = none →
    ((tickAll tick k sws).2.1 = true ↔
      ∀ s ∈ sws, s.running = true → s.client = true → (firesAt tick k s = true ∧ s.effective = .ok))
  | [], _ => by simp [tickAll]
  | x :: rest, hno => by
    unfold tickAll at hno ⊢
    by_cases hx : x.running = true
    · simp only [hx, Bool.not_true, Bool.false_eq_true, if_false] at hno ⊢
      by_cases hf : (x.finStep tick == x.ticks + 1 && x.effective != .never) = true
      · simp only [hf, if_true] at hno ⊢
        have hfire : firesAt tick k x = true := by
          unfold firesAt; simp only [hx, Bool.true_and]; exact hf
        cases he : x.effective with
        | ok =>
          simp only [he] at hno ⊢
          rw [finished_iff tick k rest hno]
          constructor
          · intro h s hs hr hc
            rcases List.mem_cons.mp hs with hs | hs
            · subst hs; exact ⟨hfire, he⟩
            · exact h s hs hr hc
          · intro h s hs hr hc; exact h s (by simp [hs]) hr hc
        | err => simp [he] at hno
        | never => simp [he] at hf
        | panic => simp [he] at hno
      · simp only [hf, Bool.false_eq_true, if_false] at hno ⊢
        have hnf : firesAt tick k x = false := by
          unfold firesAt; simp only [hx, Bool.true_and]; simpa using hf
        by_cases hc : x.client = true
        · simp only [hc, if_true]
          constructor
          · intro h; cases h
          · intro h
            have := (h x (by simp) hx hc).1
            rw [hnf] at this; cases this
        · have hc' : x.client = false := by simpa using hc
          simp only [hc', Bool.false_eq_true, if_false]
          rw [finished_iff tick k rest hno]
          constructor
          · intro h s hs hr hcl
            rcases List.mem_cons.mp hs with hs | hs
            · subst hs; rw [hc'] at hcl; cases hcl
            · exact h s hs hr hcl
          · intro h s hs hr hcl; exact h s (by simp [hs]) hr hcl
    · have hx' : x.running = false := by simpa using hx
      simp only [hx', Bool.not_false, if_true] at hno ⊢
      rw [finished_iff tick k rest hno]
      constructor
      · intro h s hs hr hcl
        rcases List.mem_cons.mp hs with hs | hs
        · subst hs; rw [hx'] at hr; cases hr
        · exact h s hs hr hcl
      · intro h s hs hr hcl; exact h s (by simp [hs]) hr hcl

/-- **An error is reported once**: the software whose Err aborts the step has lost its handle in the
    resulting state (`running = false`), so by `no_repoll` no later step polls it or reports it again —
    the simulation can be driven on after the error. -/
theorem err_marks_finished (tick k : Nat) : ∀ (sws : List Sw), (tickAll tick k sws).2.2 = some .errSoftware →
    ∃ (i : Nat) (s s' : Sw), sws[i]? = some s ∧ firesAt tick k s = true ∧ s.effective = .err ∧
      (tickAll tick k sws).1[i]? = some s' ∧ s'.running = false
  | [], h => by simp [tickAll] at h
  | x :: rest, h => by
    unfold tickAll at h ⊢
    by_cases hx : x.running = true
    · simp only [hx, Bool.not_true, Bool.false_eq_true, if_false] at h ⊢
      by_cases hf : (x.finStep tick == x.ticks + 1 && x.effective != .never) = true
      · simp only [hf, if_true] at h ⊢
        have hfire : firesAt tick k x = true := by
          unfold firesAt; simp only [hx, Bool.true_and]; exact hf
        cases he : x.effective with
        | ok =>
          simp only [he] at h ⊢
          obtain ⟨i, s, s', h1, h2, h3, h4, h5⟩ := err_marks_finished tick k rest h
          exact ⟨i + 1, s, s', by rw [List.getElem?_cons_succ]; exact h1, h2, h3, by rw [List.getElem?_cons_succ]; exact h4, h5⟩
        | err =>
          simp only [he]
          exact ⟨0, x, ({ x with running := false, ticks := x.ticks + 1 } : Sw), List.getElem?_cons_zero, hfire, he, List.getElem?_cons_zero, rfl⟩
        | never => simp [he] at hf
        | panic => simp [he] at h
      · simp only [hf, Bool.false_eq_true, if_false] at h ⊢
        obtain ⟨i, s, s', h1, h2, h3, h4, h5⟩ := err_marks_finished tick k rest h
        exact ⟨i + 1, s, s', by rw [List.getElem?_cons_succ]; exact h1, h2, h3, by rw [List.getElem?_cons_succ]; exact h4, h5⟩
    · have hx' : x.running = false := by simpa using hx
      simp only [hx', Bool.not_false, if_true] at h ⊢
      obtain ⟨i, s, s', h1, h2, h3, h4, h5⟩ := err_marks_finished tick k rest h
      exact ⟨i + 1, s, s', by rw [List.getElem?_cons_succ]; exact h1, h2, h3, by rw [List.getElem?_cons_succ]; exact h4, h5⟩

/-- what `tickAll` can return as an abort reason. -/
def AbortOk (a : Option StepRes) : Prop := a = none ∨ a = some .errSoftware ∨ a = some .panic

theorem tickAll_abortOk (tick k : Nat) (sws : List Sw) : AbortOk (tickAll tick k sws).2.2 := by
  have hc := abort_has_cause tick k sws
  unfold AbortOk
  cases h : (tickAll tick k sws).2.2 with
  | none => exact Or.inl rfl
  | some r =>
    cases r with
    | cont b => exact absurd h (hc.2.2.2 b)
    | errTimeout => exact absurd h hc.2.2.1
    | errSoftware => exact Or.inr (Or.inl rfl)
    | panic => exact Or.inr (Or.inr rfl)

/-- `step` counts a step (and so advances `Sim::elapsed`) exactly when it does not abort. -/
theorem stepOf_counts (m : Sim) (sws : List Sw) (fin : Bool) (a : Option StepRes) (ha : AbortOk a) :
    ((stepOf m sws fin a).2 = .errSoftware ∨ (stepOf m sws fin a).2 = .panic → (stepOf m sws fin a).1.steps = m.steps) ∧
    ((∃ b, (stepOf m sws fin a).2 = .cont b) ∨ (stepOf m sws fin a).2 = .errTimeout → (stepOf m sws fin a).1.steps = m.steps + 1) := by
  unfold stepOf
  rcases ha with rfl | rfl | rfl
  · simp only
    split <;> simp
  · simp
  · simp

theorem step_counts (m : Sim) :
    ((step m).2 = .errSoftware ∨ (step m).2 = .panic → (step m).1.steps = m.steps) ∧
    ((∃ b, (step m).2 = .cont b) ∨ (step m).2 = .errTimeout → (step m).1.steps = m.steps + 1) :=
  stepOf_counts m _ _ _ (tickAll_abortOk _ _ _)

/-- **Timeout**: a step reports the timeout iff nothing aborted, the duration is exceeded after
    this step, and some client is still unfinished. -/
theorem timeout_iff (m : Sim) :
    (step m).2 = .errTimeout ↔
      (tickAll m.tick (m.steps + 1) m.sws).2.2 = none ∧ (m.steps + 1) * m.tick > m.duration ∧
      (tickAll m.tick (m.steps + 1) m.sws).2.1 = false := by
  have ha := tickAll_abortOk m.tick (m.steps + 1) m.sws
  unfold step stepOf
  simp only
  rcases ha with h | h | h
  · rw [h]
    simp only [true_and]
    by_cases hd : (m.steps + 1) * m.tick > m.duration <;> cases (tickAll m.tick (m.steps + 1) m.sws).2.1 <;> simp [hd]
  · rw [h]; simp
  · rw [h]; simp

/-- once the duration is exceeded a step never says "not finished yet, keep going". -/
theorem late_step_decides (m : Sim) (h : (m.steps + 1) * m.tick > m.duration) : (step m).2 ≠ .cont false := by
  have ha := tickAll_abortOk m.tick (m.steps + 1) m.sws
  unfold step stepOf
  simp only
  rcases ha with h' | h' | h'
  · rw [h']
    cases (tickAll m.tick (m.steps + 1) m.sws).2.1 <;> simp [h]
  · rw [h']; simp
  · rw [h']; simp

theorem step_tick (m : Sim) : (step m).1.tick = m.tick ∧ (step m).1.duration = m.duration := by
  unfold step stepOf
  simp only
  cases (tickAll m.tick (m.steps + 1) m.sws).2.2 with
  | some r => exact ⟨rfl, rfl⟩
  | none => simp only; split <;> exact ⟨rfl, rfl⟩

/-- **`run` always decides** (success, software error, timeout or panic) — it never runs out of
    fuel: the loop needs at most ⌊duration/tick⌋ + 1 further steps. -/
theorem runLoop_decides : ∀ (fuel : Nat) (m : Sim), 0 < m.tick → m.duration < (m.steps + fuel) * m.tick →
    0 < fuel → (runLoop fuel m).2 ≠ .cont false
  | 0, _, _, _, hf => by omega
  | fuel + 1, m, ht, hd, _ => by
    unfold runLoop
    cases hs : step m with
    | mk m' r =>
      simp only
      cases r with
      | cont b =>
        cases b with
        | true => simp
        | false =>
          simp only
          have hlate : ¬ (m.steps + 1) * m.tick > m.duration := by
            intro hl
            have := late_step_decides m hl
            rw [hs] at this; exact this rfl
          have hst : m'.steps = m.steps + 1 := by
            have := (step_counts m).2 (Or.inl ⟨false, by rw [hs]⟩)
            rw [hs] at this; exact this
          have htk := step_tick m
          rw [hs] at htk
          have hfuel : 0 < fuel := by
            cases fuel with
            | zero => simp at hd; omega
            | succ f => omega
          apply runLoop_decides fuel m' (by rw [htk.1]; exact ht) ?_ hfuel
          rw [hst, htk.1, htk.2]
          have : m.steps + 1 + fuel = m.steps + (fuel + 1) := by omega
          rw [this]; exact hd
      | errSoftware => simp
      | errTimeout => simp
      | panic => simp

theorem run_decides (m : Sim) (ht : 0 < m.tick) (hs : m.steps * m.tick ≤ m.duration + m.tick) :
    (run m).2 ≠ .cont false := by
  unfold run
  split
  · simp
  · apply runLoop_decides _ m ht ?_ (by omega)
    have h1 : m.duration < (m.duration / m.tick + 1) * m.tick := by
      have := Nat.div_add_mod m.duration m.tick
      have := Nat.mod_lt m.duration ht
      rw [Nat.add_mul, Nat.one_mul, Nat.mul_comm]; omega
    have h2 : m.duration / m.tick + 1 ≤ m.steps + (m.duration / m.tick + 2 - m.steps + 1) := by omega
    exact Nat.lt_of_lt_of_le h1 (Nat.mul_le_mul_right _ h2)

/-- **Zero clients**: `run` returns Ok at once without stepping. -/
theorem run_zero_clients (m : Sim) (h : m.sws.any (·.client) = false) : run m = (m, .cont true) := by
  unfold run; simp [h]

/-- non-vacuity / boundary: duration 2 ticks; a client finishing exactly at 2·tick is observed in
    step 3 — the step in which the duration is crossed — and still counts; one finishing a tick later
    does not. -/
example : (run (register { tick := 1000, duration := 2000 } { client := true, atUs := 2000, outcome := .ok })).2 = .cont true := by decide
example : (run (register { tick := 1000, duration := 2000 } { client := true, atUs := 3000, outcome := .ok })).2 = .errTimeout := by decide
example : (run (register (register { tick := 1000, duration := 5000 } { client := true, atUs := 3000, outcome := .ok })
            { client := false, atUs := 1000, outcome := .err })).2 = .errSoftware := by decide

end TV.C11
