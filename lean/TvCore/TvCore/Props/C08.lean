import TvCore.Model.Link
/-
  C08 — held links deliver nothing until released, then everything exactly once, in order.
  Model: `TV.Link` (top.rs).  All theorems hold for both model variants (`cfg` arbitrary) and for
  every coin / delay oracle.
-/
namespace TV.C08
open TV TV.Link

variable {M : Type}

/-- The link is held: both directions `hold`, every in-flight message has status `Hold`. -/
structure Held (l : Link M) : Prop where
  ab : l.stAB = .hold
  ba : l.stBA = .hold
  all : ∀ s ∈ l.sent, s.status = .hold

theorem held_holdRaw (l : Link M) : Held l.holdRaw := by
  refine ⟨rfl, rfl, ?_⟩
  intro s hs
  simp only [Link.holdRaw, List.mem_map] at hs
  obtain ⟨x, _, rfl⟩ := hs
  rfl

/-- `hold()` establishes `Held`, whatever was in flight (both variants: with the repair of F-C08-1 the
    ready messages are recalled into the in-flight queue first, and held with the rest). -/
theorem hold_establishes (l : Link M) : Held l.hold := by
  unfold Link.hold
  split
  · exact held_holdRaw _
  · exact held_holdRaw _

theorem filter_matured_held {l : Link M} (h : Held l) : l.sent.filter (matured l.now) = [] := by
  apply List.filter_eq_nil_iff.mpr
  intro s hs
  simp [matured, h.all s hs]

theorem filter_unmatured_held {l : Link M} (h : Held l) :
    l.sent.filter (fun s => !matured l.now s) = l.sent := by
  apply List.filter_eq_self.mpr
  intro s hs
  simp [matured, h.all s hs]

/-- While held, maturing moves nothing. -/
theorem process_noop {l : Link M} (h : Held l) : l.processDeliverables = l := by
  unfold processDeliverables
  rw [filter_matured_held h, filter_unmatured_held h]
  simp

/-- While held, time passing delivers nothing and keeps every message (in order). -/
theorem tick_held {l : Link M} (h : Held l) (now : Nat) :
    (l.tick now).sent = l.sent ∧ (l.tick now).toA = l.toA ∧ (l.tick now).toB = l.toB ∧ Held (l.tick now) := by
  have h' : Held { l with now := now } := ⟨h.ab, h.ba, h.all⟩
  unfold tick
  rw [process_noop h']
  exact ⟨rfl, rfl, rfl, h'⟩

/-- The random failure / repair process does nothing on a held link (no direction is healthy or
    randomly partitioned), whatever the coins. -/
theorem randStep_held (cfg : Cfg) {l : Link M} (h : Held l) (cf cr : Bool) :
    randStep cfg l cf cr = (l, []) := by
  unfold randStep anyHealthy anyRand
  simp [h.ab, h.ba]

/-- **New sends are held**: a message sent on a held link (either direction) is appended to the
    in-flight queue with status `Hold`; nothing is delivered and nothing is discarded. -/
theorem enqueue_held (cfg : Cfg) {l : Link M} (h : Held l) (cf cr : Bool) (d src dst : Nat) (m : M) :
    ∃ x : Sent M, x.msg = m ∧ x.status = .hold ∧ x.src = src ∧ x.dst = dst ∧
      (l.enqueue cfg cf cr d src dst m).1.sent = l.sent ++ [x] ∧
      (l.enqueue cfg cf cr d src dst m).1.toA = l.toA ∧
      (l.enqueue cfg cf cr d src dst m).1.toB = l.toB ∧
      (l.enqueue cfg cf cr d src dst m).2 = [] ∧
      Held (l.enqueue cfg cf cr d src dst m).1 := by
  have hst : l.stateFor src dst = .hold := by unfold stateFor; split <;> simp [h.ab, h.ba]
  let x : Sent M := { src := src, dst := dst, status := .hold, msg := m, id := l.nextId, sentAt := l.now, delay := d, bad := (l.exFor src dst) }
  refine ⟨x, rfl, rfl, rfl, rfl, ?_⟩
  have hH : Held { l with sent := l.sent ++ [x], nextId := l.nextId + 1 } := by
    refine ⟨h.ab, h.ba, ?_⟩
    intro s hs
    rcases List.mem_append.mp hs with hs | hs
    · exact h.all s hs
    · simp at hs; subst hs; rfl
  have e : l.enqueue cfg cf cr d src dst m = ({ l with sent := l.sent ++ [x], nextId := l.nextId + 1 }, []) := by
    unfold enqueue
    rw [randStep_held cfg h]
    simp only [enqueueRaw, hst]
    rw [process_noop hH]
    rfl
  rw [e]
  exact ⟨rfl, rfl, rfl, rfl, hH⟩

/-- **Release delivers everything exactly once, in order**: after `release`, the next maturing
    pass (the next tick or send) moves *every* held message to its destination's queue, in the order
    the messages were sent, and leaves nothing in flight. -/
theorem release_all_in_order {l : Link M} (h : Held l) (now : Nat) (hnow : l.now ≤ now) :
    (l.release.tick now).sent = [] ∧
    ((l.release.tick now).toA).map (·.id) = (l.toA ++ l.sent.filter (fun s => s.dst == l.a)).map (·.id) ∧
    ((l.release.tick now).toB).map (·.id) = (l.toB ++ l.sent.filter (fun s => s.dst != l.a)).map (·.id) := by
  have hmat : ∀ s ∈ l.release.sent, matured now s = true := by
    intro s hs
    simp only [release, List.mem_map] at hs
    obtain ⟨x, hx, rfl⟩ := hs
    simp [releaseOne, h.all x hx, matured, hnow]
  have hf : (l.release.sent).filter (matured now) = l.release.sent :=
    List.filter_eq_self.mpr hmat
  have hnf : (l.release.sent).filter (fun s => !matured now s) = [] := by
    apply List.filter_eq_nil_iff.mpr
    intro s hs; simp [hmat s hs]
  have hmap : ∀ (p : Sent M → Bool), (∀ s : Sent M, p (releaseOne l.now s) = p s) →
      ((l.release.sent).filter p).map (·.id) = (l.sent.filter p).map (·.id) := by
    intro p hp
    simp only [release]
    induction l.sent with
    | nil => rfl
    | cons x xs ih =>
      have e2 : (releaseOne l.now x).id = x.id := by
        unfold releaseOne; cases x.status <;> rfl
      simp only [List.map_cons, List.filter_cons, hp]
      cases hpx : p x
      · simp only [Bool.false_eq_true, if_false]; exact ih
      · simp only [if_true, List.map_cons, e2, ih]
  unfold tick processDeliverables
  simp only [hf, hnf]
  refine ⟨trivial, ?_, ?_⟩
  · simp only [List.map_append]
    congr 1
    exact hmap (fun s => s.dst == l.a) (fun s => by unfold releaseOne; cases s.status <;> rfl)
  · simp only [List.map_append]
    congr 1
    exact hmap (fun s => s.dst != l.a) (fun s => by unfold releaseOne; cases s.status <;> rfl)

/-- Release makes both directions healthy again. -/
theorem release_heals (l : Link M) : l.release.stAB = .healthy ∧ l.release.stBA = .healthy := ⟨rfl, rfl⟩

theorem deliverAt_split (t now : Nat) (ht : t ≤ now) :
    ∀ (i : Nat) (xs : List (Sent M)), (∀ s ∈ xs, s.status = .hold) → (hi : i < xs.length) →
      ((deliverAt t i xs).filter (matured now)).map (·.id) = [(xs[i]).id] ∧
      ((deliverAt t i xs).filter (fun s => !matured now s)).map (·.id) = (xs.eraseIdx i).map (·.id) ∧
      (∀ s ∈ (deliverAt t i xs).filter (matured now), s.dst = (xs[i]).dst) ∧
      (∀ s ∈ (deliverAt t i xs).filter (fun s => !matured now s), s.status = .hold)
  | _, [], _, hi => by simp at hi
  | 0, x :: xs, hall, _ => by
    have hx : ∀ s ∈ xs, matured now s = false := by
      intro s hs; simp [matured, hall s (by simp [hs])]
    have h1 : xs.filter (matured now) = [] := List.filter_eq_nil_iff.mpr (by intro s hs; simp [hx s hs])
    have h2 : xs.filter (fun s => !matured now s) = xs := List.filter_eq_self.mpr (by intro s hs; simp [hx s hs])
    have hm0 : matured now ({ x with status := .after t } : Sent M) = true := by simp [matured, ht]
    simp only [deliverAt, List.filter_cons, hm0, if_true, h1, Bool.not_true,
      Bool.false_eq_true, if_false, h2, List.eraseIdx_cons_zero, List.map_cons, List.map_nil,
      List.getElem_cons_zero, true_and, List.mem_singleton]
    refine ⟨?_, ?_⟩
    · intro s hs; subst hs; rfl
    · intro s hs; exact hall s (by simp [hs])
  | i + 1, x :: xs, hall, hi => by
    have hxs : ∀ s ∈ xs, s.status = .hold := fun s hs => hall s (by simp [hs])
    have hi' : i < xs.length := by simpa using hi
    obtain ⟨a, b, c, d⟩ := deliverAt_split t now ht i xs hxs hi'
    have hx : matured now x = false := by simp [matured, hall x (by simp)]
    simp only [deliverAt, List.filter_cons, hx, Bool.false_eq_true, if_false, Bool.not_false, if_true,
      List.map_cons, List.eraseIdx_cons_succ, List.getElem_cons_succ, a, b, true_and]
    refine ⟨c, ?_⟩
    intro s hs
    rcases List.mem_cons.mp hs with hs | hs
    · subst hs; exact hall _ (by simp)
    · exact d s hs

/-- **Manual delivery** of the `i`-th in-flight message on a held link: the next maturing pass
    moves exactly that message to its destination's queue; every other message stays held, in order. -/
theorem manual_exactly_one {l : Link M} (h : Held l) (i : Nat) (hi : i < l.sent.length) (now : Nat)
    (hnow : l.now ≤ now) :
    ((l.manualDeliver i).tick now).sent.map (·.id) = (l.sent.eraseIdx i).map (·.id) ∧
    (∀ s ∈ ((l.manualDeliver i).tick now).sent, s.status = .hold) ∧
    (((l.manualDeliver i).tick now).toA ++ ((l.manualDeliver i).tick now).toB).map (·.id) =
      (if (l.sent[i]).dst = l.a then (l.toA.map (·.id) ++ [(l.sent[i]).id]) ++ l.toB.map (·.id)
       else (l.toA.map (·.id) ++ l.toB.map (·.id)) ++ [(l.sent[i]).id]) := by
  obtain ⟨a, b, c, d⟩ := deliverAt_split l.now now hnow i l.sent h.all hi
  refine ⟨?_, ?_, ?_⟩
  · simpa [tick, processDeliverables, manualDeliver] using b
  · simpa [tick, processDeliverables, manualDeliver] using d
  · simp only [tick, processDeliverables, manualDeliver, List.map_append]
    by_cases hd : (l.sent[i]).dst = l.a
    · have e1 : ((deliverAt l.now i l.sent).filter (matured now)).filter (fun s => s.dst == l.a)
          = (deliverAt l.now i l.sent).filter (matured now) :=
        List.filter_eq_self.mpr (by intro s hs; simp [c s hs, hd])
      have e2 : ((deliverAt l.now i l.sent).filter (matured now)).filter (fun s => s.dst != l.a) = [] :=
        List.filter_eq_nil_iff.mpr (by intro s hs; simp [c s hs, hd])
      simp only [e1, e2, a, hd, if_true, List.map_nil, List.append_nil]
    · have e1 : ((deliverAt l.now i l.sent).filter (matured now)).filter (fun s => s.dst == l.a) = [] :=
        List.filter_eq_nil_iff.mpr (by intro s hs; simp [c s hs, hd])
      have e2 : ((deliverAt l.now i l.sent).filter (matured now)).filter (fun s => s.dst != l.a)
          = (deliverAt l.now i l.sent).filter (matured now) :=
        List.filter_eq_self.mpr (by intro s hs; simp [c s hs, hd])
      simp only [e1, e2, a, hd, if_false, List.map_nil, List.append_nil, List.append_assoc]

/-- all message ids currently on the link (in flight or waiting for the destination's turn). -/
def ids (l : Link M) : List Nat := (l.sent ++ l.toA ++ l.toB).map (·.id)

theorem count_split (p : Sent M → Bool) (xs : List (Sent M)) (a : Nat) :
    ((xs.filter p).map (·.id)).count a + ((xs.filter (fun s => !p s)).map (·.id)).count a
      = (xs.map (·.id)).count a := by
  induction xs with
  | nil => simp
  | cons x xs ih =>
    simp only [List.filter_cons]
    cases p x <;> simp [List.count_cons] <;> omega

theorem perm_process (l : Link M) : (ids l.processDeliverables).Perm (ids l) := by
  apply List.perm_iff_count.mpr
  intro a
  unfold ids processDeliverables
  simp only [List.map_append, List.count_append]
  have h1 := count_split (matured l.now) l.sent a
  have h2 := count_split (fun s => s.dst == l.a) (l.sent.filter (matured l.now)) a
  have e : (fun s : Sent M => !(s.dst == l.a)) = (fun s => s.dst != l.a) := by funext s; rfl
  rw [e] at h2
  omega

/-- **Exactly once**: maturing, time, hold, release and manual delivery neither lose nor duplicate a
    message — the multiset of message ids on the link is unchanged. -/
theorem perm_tick (l : Link M) (now : Nat) : (ids (l.tick now)).Perm (ids l) := by
  have := perm_process { l with now := now }
  simpa [tick, ids] using this

theorem ids_holdRaw (l : Link M) : ids l.holdRaw = ids l := by
  simp [ids, Link.holdRaw, List.map_map, Function.comp_def]

/-- `recall` only moves messages (from the ready queues to the front of the in-flight queue). -/
theorem perm_recall (l : Link M) : (ids l.recall).Perm (ids l) := by
  have e : ∀ xs : List (Sent M), (xs.map (fun s => ({ s with status := Status.after l.now } : Sent M))).map (·.id) =
      xs.map (·.id) := by
    intro xs; rw [List.map_map]; rfl
  apply List.perm_iff_count.mpr
  intro a
  simp only [ids, Link.recall, List.map_append, List.append_nil, List.count_append, e]
  omega

/-- `hold` neither loses nor duplicates a message (both variants; without the repair of F-C08-1 the three
    queues are untouched, `ids_hold_off`). -/
theorem ids_hold (l : Link M) : (ids l.hold).Perm (ids l) := by
  unfold Link.hold
  split
  · rw [ids_holdRaw]; exact perm_recall l
  · rw [ids_holdRaw]

theorem ids_hold_off (l : Link M) (h : l.fixMatured = false) : ids l.hold = ids l := by
  unfold Link.hold
  rw [h]
  exact ids_holdRaw l

theorem ids_release (l : Link M) : ids l.release = ids l := by
  have : ∀ s : Sent M, (releaseOne l.now s).id = s.id := by
    intro s; unfold releaseOne; cases s.status <;> rfl
  simp [ids, Link.release, List.map_map, Function.comp_def, this]

theorem deliverAt_ids (t : Nat) : ∀ (i : Nat) (xs : List (Sent M)),
    (deliverAt t i xs).map (·.id) = xs.map (·.id)
  | 0, [] => rfl
  | _ + 1, [] => rfl
  | 0, _ :: _ => rfl
  | i + 1, x :: xs => by simp [deliverAt, deliverAt_ids t i xs]

theorem ids_manual (l : Link M) (i : Nat) : ids (l.manualDeliver i) = ids l := by
  simp [ids, manualDeliver, deliverAt_ids]

/-- draining hands over exactly what was waiting: ids after ++ ids handed over = ids before. -/
theorem perm_drain (l : Link M) (host : Nat) :
    (ids (l.drain host).1 ++ (l.drain host).2.map (·.id)).Perm (ids l) := by
  unfold drain ids
  split
  · simp only [List.append_nil, List.map_append, List.append_assoc]
    apply List.perm_iff_count.mpr; intro a; simp only [List.count_append]; omega
  · split
    · simp only [List.append_nil, List.map_append, List.append_assoc]
      exact List.Perm.refl _
    · simp

/-- Non-vacuity: a held link with two messages, release, tick → both delivered in order. -/
example : ((Link.run Cfg.faithful (Link.init 0 1)
    [ LinkOp.hold, .enqueue false false 5 true (), .enqueue true true 9 true (), .tick 3, .drain true,
      .release, .tick 1, .drain true ]).2.map (·.id)) = [0, 1] := by decide

end TV.C08
