import TvCore.Proofs.C02FlowRd
/-
  C02 — flow control: credits are conserved, a writer that outruns the reader is told so.

  One direction of an established stream (`Dir`, `Proofs/C02FlowLemmas.lean`): reader on host `b` (ip number
  `nb`), writer's address pair `loc → rem`, the flow-control cell `f` shared by the writer's write half and
  the reader's read half, the channel `c` of the reader's socket.

      Bal D cap w :  credits f + #data segments of the direction on links (towards nb) + … on b's loopback
                     queue + … parked in the reader's reorder buffer + … in the channel  =  cap

  FIN segments hold no credit (`oursE` / `parkedData` / `dataSegs` count data segments only); a data segment
  that a read or peek moved from the channel into the read half's stash has returned its credit
  (`opTcpRead`: `fcs[r.fc] += 1` in the same step that pops the channel — as `poll_read_priv` /`poll_peek` in
  stream.rs call `flow_control.release()` right after `recv.poll_recv`).

  ## what is proved
  * the three transitions of the direction keep the balance:
      `credits_conserved_write`   `opTcpWrite` (try_write / poll_write) by the direction's write half,
      `credits_conserved_arrival` `Host::receive_from_network` of a data segment / the FIN at the reader's socket,
      `credits_conserved_read`    `opTcpRead` (read / peek, incl. the re-drain of the repair) by its read half;
  * every other host call keeps it, under explicit conditions on what the call closes (`credits_frame_*`,
    relation `Q`): UDP calls, binds, connect / accept / connect-poll, writes / shutdowns / drops of other
    stream halves, `dropAll` of another host;
  * `never_overflows`, `backpressure`.
  Side conditions (what leaks credits and is therefore outside the clause): a failure coin (`Pre.noFail`:
  the random failure discards in-flight segments), a partitioned / randomly failed direction at the moment of
  the write (`Route`: the segment is dropped, the credit is gone), a crash / bounce / exit of `b` (its
  loopback queue and socket go away), a duplicate delivery (the model records the panic "duplicate segment",
  as `StreamSocket::buffer` asserts), dropping the read half or the reader's socket.

  The induction over every driver step and over runs is in `Props/C02FlowRun.lean` (`credits_conserved`,
  `credits_conserved_run`, `never_overflows_run`; state predicate `Estab`, excluded steps `StepOk`), a concrete
  run satisfying its hypotheses in `Props/C02FlowEx.lean`, and the finding that the no-sharing part of `Estab`
  is not an invariant of `Reach` (F-C02-2, stale halves after pair reuse) in `Props/C02Stale.lean`.
-/
namespace TV.C02
open TV TV.World

/-- **a write by the direction's write half keeps the balance**: with the route up (same-host loopback, or
    a link whose direction towards the reader is healthy or held) and no failure coin, `try_write` /
    `poll_write` either sends nothing and takes no credit (empty buffer, shut down, no credit) or takes
    exactly one credit and puts exactly one data segment in flight. -/
theorem credits_conserved_write (D : Dir) (cap : Nat) (w : World) (h s : Nat) (p : Hex) (poll : Bool)
    (rd : Option RdH) (x : WrH) (hp : Pre D w) (hobj : w.getObj h s = some (.stream rd (some x)))
    (hm : Mine D h x) (hfc : x.fc = D.f) (hsock : (findSock (w.host! h) x.loc x.rem).isSome = true)
    (hr : Route D w h) (hb : Bal D cap w) :
    Bal D cap (w.opTcpWrite h s p poll).1 ∧ Pre D (w.opTcpWrite h s p poll).1 := by
  have ht := tot_tryWrite_mine D w h x p hp hm hfc hsock hr
  unfold opTcpWrite
  rw [hobj]
  simp only
  split
  · exact ⟨hb, hp⟩
  · exact ⟨show tot D _ = cap by rw [ht.1]; exact hb, ht.2⟩

/-- **an arrival at the reader's socket keeps the balance**: when host `b` is handed a data segment of the
    direction (it has left the link / loopback queue, so it is no longer counted in flight) and no
    duplicate is recorded, buffer + channel hold exactly one data segment more; the FIN adds nothing.
    The drain loop moves segments from buffer to channel without losing or duplicating one
    (`drainBuf_conserves`). -/
theorem credits_conserved_arrival (D : Dir) (w : World) (e : Env) (seg : Seg) (hp : Pre D w) (hr : RdOk D w)
    (hsrc : e.src = D.loc) (hdst : e.dst = D.rem) (hseg : segOf e.msg = some seg)
    (hnp : (w.receive D.b e).2.panicked = none) :
    tot D (w.receive D.b e).2 = tot D w + (if seg.isData then 1 else 0) ∧
    Pre D (w.receive D.b e).2 ∧ RdOk D (w.receive D.b e).2 := by
  obtain ⟨i, hi⟩ := idx_of_pre hp
  have hf : findSock (w.host! D.b) e.dst e.src = some i := by
    unfold findSock; rw [hsrc, hdst]; exact hi
  have he := (receive_is_sockBuffer w D.b e seg hseg).1 i hf
  rw [he] at hnp ⊢
  exact tot_sockBuffer_ours D w i _ seg hp hr hi hnp

/-- … in terms of the balance: if the balance holds with the handed-over data segment counted as in transit
    (`tot + 1 = cap`), it holds afterwards. -/
theorem credits_conserved_arrival_bal (D : Dir) (cap : Nat) (w : World) (e : Env) (q : Nat) (p : Hex)
    (hp : Pre D w) (hr : RdOk D w) (he : e = { src := D.loc, dst := D.rem, msg := .data q p })
    (hnp : (w.receive D.b e).2.panicked = none) (hb : tot D w + 1 = cap) : Bal D cap (w.receive D.b e).2 := by
  subst he
  have := (credits_conserved_arrival D w _ (.data p) hp hr rfl rfl rfl hnp).1
  show tot D _ = cap
  rw [this]
  exact hb

/-- **a read by the direction's read half keeps the balance**: a data segment leaves the channel and one
    credit goes back in the same step; the stash, the FIN, an empty channel, a closed half change nothing;
    the re-drain of the repair moves parked segments into the freed slot. -/
theorem credits_conserved_read (D : Dir) (cap : Nat) (w : World) (s n : Nat) (peek : Bool) (r : RdH) (wr : Option WrH)
    (hp : Pre D w) (hr : RdOk D w) (hobj : w.getObj D.b s = some (.stream (some r) wr))
    (hc : r.chan = D.c) (hf : r.fc = D.f) (hloc : r.loc = D.rem) (hrem : r.rem = D.loc) (hb : Bal D cap w) :
    Bal D cap (w.opTcpRead D.b s n peek).1 ∧ Pre D (w.opTcpRead D.b s n peek).1 ∧ RdOk D (w.opTcpRead D.b s n peek).1 := by
  have ht := tot_opTcpRead_mine D w s n peek r wr hp hr hobj hc hf hloc hrem
  exact ⟨show tot D _ = cap by rw [ht.1]; exact hb, ht.2⟩

/-! ### everything else leaves the view alone -/

/-- the balance, the standing assumptions and the facts about the reader's end survive any transition that
    keeps the view (`Q`). -/
theorem credits_frame (D : Dir) (cap : Nat) (w w' : World) (hq : Q D w w') (hp : Pre D w) (hr : RdOk D w) (hb : Bal D cap w) :
    Bal D cap w' ∧ Pre D w' ∧ RdOk D w' :=
  ⟨bal_of_view (hq.view hp) hb, hq.pre hp, RdOk.of_view (hq.view hp) hr⟩

/-- **host calls that are not one of the three transitions keep the view**: UDP calls and binds
    unconditionally; a connect that does not reuse the reader's port towards the writer's address
    (`ConnSafe` — `C15.assign_fresh` rules that out when the cursor is in range), an accept; a connect-poll
    whose pending connect is not the reader's (`SlotSafe`); a write by a write half that is not the
    direction's (other cell, not `Mine`); any shutdown; dropping a socket object that is not the reader's
    (`ObjSafe`); all tasks of a host other than `b` dropped (crash / bounce / exit of another host). -/
theorem credits_frame_calls (D : Dir) (w : World) (h : Nat) :
    (∀ s a, Q D w (w.opUdpBind h s a).1) ∧ (∀ s a, Q D w (w.opTcpBind h s a).1) ∧
    (∀ s dst p, Q D w (w.opUdpSend h s dst p).1) ∧ (∀ s n, Q D w (w.opUdpTryRecv h s n).1) ∧
    (∀ s n, Q D w (w.opUdpRecv h s n).1) ∧ (∀ s, Q D w (w.opUdpReadable h s).1) ∧
    (∀ s dst, Q D w (w.opUdpConnect h s dst).1) ∧ (∀ s on, Q D w (w.opUdpSetBcast h s on).1) ∧
    (∀ s on, Q D w (w.opUdpSetMloop h s on).1) ∧ (∀ s g i, Q D w (w.opUdpJoin h s g i).1) ∧
    (∀ s g i, Q D w (w.opUdpLeave h s g i).1) ∧
    (∀ s dst, ConnSafe D w h dst → Q D w (w.opTcpConnect h s dst).1) ∧
    (∀ ls s, Q D w (w.opTcpAccept h ls s).1) ∧
    (∀ s, SlotSafe D w h s → Q D w (w.connectPoll h s).1) ∧
    (∀ x p, D.f ≠ x.fc → ¬ Mine D h x → Q D w (w.tryWrite h x p).1) ∧
    (∀ s, Q D w (w.opTcpShutdown h s).1) ∧
    (∀ o, ObjSafe D h o → Q D w (w.dropObj h o)) ∧
    (h ≠ D.b → (∀ p ∈ (w.host! h).objs, ObjSafe D h p.2) → Q D w (w.dropAll h)) :=
  ⟨q_opUdpBind D w h, q_opTcpBind D w h, q_opUdpSend D w h, q_opUdpTryRecv D w h, q_opUdpRecv D w h,
   q_opUdpReadable D w h, q_opUdpConnect D w h, q_opUdpSetBcast D w h, q_opUdpSetMloop D w h, q_opUdpJoin D w h,
   q_opUdpLeave D w h, fun s dst hs => q_opTcpConnect D w h s dst hs, q_opTcpAccept D w h,
   fun s hs => q_connectPoll D w h s hs, fun x p hf hm => q_tryWrite D w h x p hf hm, q_opTcpShutdown D w h,
   fun o ho => q_dropObj D w h o ho, fun hb hs => q_dropAll D w h hb hs⟩

/-- what the links do to the direction's segments: with the failure coin down `Link.enqueue` of anything
    else, the step clock, and every controller call but the two partitions keep their number; a drain hands
    over exactly what leaves; a partition only ever removes. -/
theorem credits_frame_links (D : Dir) (cfg : Cfg) (l : Link Env) :
    (∀ cr dl s d e, (d == D.nb && oursE D e) = false → linkFl D (l.enqueue cfg false cr dl s d e).1 = linkFl D l) ∧
    (∀ now, linkFl D (l.tick now) = linkFl D l) ∧
    (∀ n, linkFl D (l.drain n).1 + (l.drain n).2.countP (oursS D) = linkFl D l) ∧
    (∀ c, Ctl.keeps c = true → linkFl D (c.fn l).1 = linkFl D l) ∧
    (∀ c : LW.Ctl, linkFl D (c.fn l).1 ≤ linkFl D l) :=
  ⟨fun cr dl s d e h => linkFl_enqueue_other D cfg l cr dl s d e h, linkFl_tick D l, linkFl_drain D l,
   fun c h => linkFl_ctl_keeps D c l h, fun c => linkFl_ctl_le D c l⟩

/-! ### consequences -/

/-- **never overflows**: while a data segment of the direction is still on its way, buffer and channel of
    the reader together hold fewer than `cap` data segments — the arriving segment finds room; after any
    arrival they hold at most `cap` (the FIN, which holds no credit, comes on top). -/
theorem never_overflows (D : Dir) (cap : Nat) (w : World) (hb : Bal D cap w) :
    (0 < netFl D w + loFl D w → parked D w + queued D w + 1 ≤ cap) ∧ parked D w + queued D w ≤ cap := by
  unfold Bal at hb
  exact ⟨fun h => by omega, by omega⟩

/-- … and the channel itself never exceeds its capacity (`drainBuf_bound`, Props/C02.lean). -/
theorem channel_bounded (cap fuel : Nat) (buf : List (Nat × Seg)) (rs : Nat) (items : List Seg) (h : items.length ≤ cap) :
    (drainBuf cap true fuel buf rs items).2.2.1.length ≤ cap := drainBuf_bound cap fuel buf rs items h

/-- **backpressure**: a write half without credits (non-empty buffer, not shut down, socket present) sends
    nothing — `try_write` returns `WouldBlock`, `poll_write` is pending — and the world is unchanged except
    for the coverage tag "nocredit". -/
theorem backpressure (w : World) (h s : Nat) (p : Hex) (poll : Bool) (rd : Option RdH) (x : WrH)
    (hobj : w.getObj h s = some (.stream rd (some x))) (hlen : hexLen p ≠ 0) (hs : x.shutdown = false)
    (hc : w.credits x.fc = 0) (hsock : (findSock (w.host! h) x.loc x.rem).isSome = true) :
    w.opTcpWrite h s p poll = (w.tag "nocredit", if poll then "pending" else "err wouldblock") ∧
    (∃ cov, w.tag "nocredit" = { w with cov := cov }) := by
  have ht := tryWrite_nocredit w h x p hlen hs hc hsock
  refine ⟨?_, ht.2⟩
  unfold opTcpWrite
  rw [hobj]
  simp only [hs, Bool.and_false, Bool.false_eq_true, if_false, ht.1]
  cases poll <;> rfl

/-! ### non-vacuity: the established stream of `Props/C02Refine.lean` (client `h1` → server `h0`) -/

/-- the direction client → server of `exEst`: reader on host 0 (ip number 1), writer pair
    `h1:49152 → h0:80`, cell 0, the server socket's channel 1. -/
def exDir : Dir := { b := 0, nb := 1, loc := exRem, rem := exLoc, f := 0, c := 1 }

example : Pre exDir exEst ∧ RdOk exDir exEst ∧ Bal exDir 64 exEst :=
  ⟨⟨⟨by unfold C09.NoFailCoin; decide, by decide, by decide⟩, by decide⟩, ⟨by decide, fun v hv => by
      have : v = ([], 0, 1) := by
        have e : skv exDir (exEst.host! exDir.b).socks = some ([], 0, 1) := by decide
        rw [e] at hv; cases hv; rfl
      subst this; exact ⟨rfl, by simp⟩⟩, by unfold Bal; decide⟩

/-- the client's write half in slot 0 of host 1 is the direction's; the route is up. -/
example : ∃ rd x, exEst.getObj 1 0 = some (.stream rd (some x)) ∧ Mine exDir 1 x ∧ x.fc = exDir.f ∧
    (findSock (exEst.host! 1) x.loc x.rem).isSome = true ∧ Route exDir exEst 1 :=
  ⟨_, _, rfl, ⟨by decide, by decide, by decide⟩, by decide, by decide,
   Or.inr ⟨by decide, 2, 0, exEst.links.getD 0 default, by decide, by decide, by decide, by decide, rfl,
     Or.inl (by decide)⟩⟩

/-- after the write one credit is gone and one data segment is on the link; after the delivery it is in
    the channel; after the read the credit is back. -/
example : (exEst.opTcpWrite 1 0 "4142" false).1.credits 0 = 63 ∧ netFl exDir (exEst.opTcpWrite 1 0 "4142" false).1 = 1 ∧
    netFl exDir exData = 0 ∧ queued exDir exData = 1 ∧ exData.credits 0 = 63 ∧
    (exData.opTcpRead 0 1 8 false).1.credits 0 = 64 ∧ queued exDir (exData.opTcpRead 0 1 8 false).1 = 0 := by
  refine ⟨by decide, by decide, by decide, by decide, by decide, by decide, by decide⟩

end TV.C02
