import TvCore.Props.C02Flow
import TvCore.Props.C04Reach
/-
  C02 — FINDING F-C02-2 (found while proving flow-control conservation): **stream halves are tied to their
  connection by the address pair only**.

  `WriteHalf::try_write` looks its socket up by `pair` (`is_connected` → `Tcp::has_stream(pair)`,
  `seq` → `Tcp::assign_send_seq(pair)`), `Drop for ReadHalf / WriteHalf` call `Tcp::close_stream_half(pair)`,
  `has_buffered_data(pair)`; the model does the same (`findSock (w.host! h) x.loc x.rem`).  A RST removes the
  socket-table entry but not the `TcpStream` object the application holds; the entry's port is free again
  (`is_port_assigned` looks at the table), and there is no TIME_WAIT.  When the ephemeral cursor comes back to
  that port (after a wrap of the 16384-port default range, or at once with a small
  `Builder::ephemeral_ports` range) a NEW connection gets the SAME address pair, and the stale halves of the
  old, reset connection act on the new connection's socket:

    * `witness_stale_half_same_pair`   the uniqueness "two write halves a host holds for one address pair share
                                       their flow-control cell (are halves of one connection)" fails in a
                                       reachable world without a recorded panic;
    * `witness_stale_write_accepted`   a write on the old, reset stream — `BrokenPipe` before the reconnect —
                                       is accepted again (`ok 2`), numbered with the new connection's
                                       `next_send_seq`, paid from the old connection's credits;
    * `stale_bytes_read_by_new_connection`  the peer's reader of the NEW connection reads those bytes, which
                                       nobody wrote on the new stream — the prefix clause of C02 read at
                                       object level is violated;
    * `stale_drop_kills_new_connection` dropping the old stream object injects a FIN into the new connection
                                       (its reader sees EOF although its writer never shut down) and
                                       releases the new connection's table entry (its writer gets
                                       `BrokenPipe`, the host's stream count is 0).
  All on the committed variant (every repair flag on), ephemeral range `49152..=49152`.
-/
namespace TV.C02
open TV TV.World

def staleOracle : List Ora := (List.range 12).flatMap (fun _ => [Ora.fail false, Ora.delay 0])

def staleCfg : WCfg :=
  { ephLo := 49152, ephHi := 49152, fixConnectLeak := true, fixFinRedrain := true, fixWriterReset := true, link := Cfg.fixed }

/-- no hosts yet; the committed variant; one ephemeral port. -/
def staleInit : World := { cfg := staleCfg, oracle := staleOracle }

/-- `h0` listens on 80; `h1` connects (slot 0), writes two bytes; `h0` accepts (slot 1) and drops its stream
    with the bytes unread: RST; `h1` takes the RST (its table entry is gone, slot 0 still holds the stream
    object); `h1` connects again (slot 2) — the one ephemeral port is free, the pair is the same; `h0`
    accepts (slot 3). -/
def staleSteps : List Step :=
  [ .register 1 false, .register 2 true,
    .host 0 (.tcpBind 0 ⟨.any, 80⟩),
    .host 1 (.tcpConnect 0 ⟨.host 0, 80⟩),
    .turn 0,
    .host 0 (.tcpAccept 0 1),
    .host 1 (.tcpCPoll 0),
    .host 1 (.tcpWrite 0 "4141"),
    .turn 0,
    .host 0 (.drop 1),
    .turn 1,
    .host 1 (.tcpConnect 2 ⟨.host 0, 80⟩),
    .turn 0,
    .host 0 (.tcpAccept 0 3),
    .host 1 (.tcpCPoll 2) ]

def staleW : World := staleSteps.foldl applyStep staleInit

/-- the world right after `h1` took the RST (before it reconnects). -/
def staleReset : World := (staleSteps.take 11).foldl applyStep staleInit

theorem staleW_reach : C04.Reach staleInit staleW := C04.reach_foldl staleInit staleSteps

/-- two write halves a host holds for the same address pair share their flow-control cell. -/
def HalvesOwnPair (w : World) : Prop :=
  ∀ h s s' rd rd' x x', w.getObj h s = some (.stream rd (some x)) → w.getObj h s' = some (.stream rd' (some x')) →
    x.loc = x'.loc → x.rem = x'.rem → x.fc = x'.fc

/-- the uniqueness one would like as an invariant of `Reach`. -/
def PairUnique_Statement (w0 : World) : Prop :=
  ∀ w, C04.Reach w0 w → w.panicked = none → HalvesOwnPair w

/-- **F-C02-2, the invariant fails**: in the reachable world `staleW` (no panic recorded, no oracle error)
    host `h1` holds, in slots 0 and 2, write halves for the same pair `h1:49152 → h0:80` with different
    flow-control cells (0 and 4): the old, reset connection's and the new one's. -/
theorem witness_stale_half_same_pair : ¬ PairUnique_Statement staleInit := by
  intro hst
  have h := hst staleW staleW_reach (by decide) 1 0 2
    (some { loc := ⟨.host 1, 49152⟩, rem := ⟨.host 0, 80⟩, chan := 0, fc := 1 })
    (some { loc := ⟨.host 1, 49152⟩, rem := ⟨.host 0, 80⟩, chan := 2, fc := 5 })
    { loc := ⟨.host 1, 49152⟩, rem := ⟨.host 0, 80⟩, fc := 0, sid := 0 }
    { loc := ⟨.host 1, 49152⟩, rem := ⟨.host 0, 80⟩, fc := 4, sid := 2 }
    rfl rfl rfl rfl
  exact absurd h (by decide)

/-- the clause "a write on a stream whose connection was reset fails", on this scenario. -/
def StaleWriteStatement : Prop := (applyHOp staleW 1 (.tcpWrite 0 "5858")).2 = "err brokenpipe"

/-- right after the reset it does fail … -/
theorem stale_write_refused_before_reconnect : (applyHOp staleReset 1 (.tcpWrite 0 "5858")).2 = "err brokenpipe" := by decide

/-- **… after the reconnect it is accepted again.** -/
theorem witness_stale_write_accepted : ¬ StaleWriteStatement := by unfold StaleWriteStatement; decide

theorem stale_write_result : (applyHOp staleW 1 (.tcpWrite 0 "5858")).2 = "ok 2" := by decide

/-- what the calls of a step list return (`-` for steps that are no host calls). -/
def obsRun (w : World) : List Step → List String
  | [] => []
  | .host h op :: r => (applyHOp w h op).2 :: obsRun (applyStep w (.host h op)) r
  | st :: r => "-" :: obsRun (applyStep w st) r

/-- **the stale bytes are read on the new connection**: `h1` writes "XX" on the OLD stream (slot 0), then "BB"
    on the new one (slot 2); the reader of the new connection on `h0` (slot 3) reads "XX" and then "BB". -/
theorem stale_bytes_read_by_new_connection :
    obsRun staleW [.host 1 (.tcpWrite 0 "5858"), .turn 0, .host 0 (.tcpRead 3 8),
                   .host 1 (.tcpWrite 2 "4242"), .turn 0, .host 0 (.tcpRead 3 8)] =
      ["ok 2", "-", "ok 5858", "ok 2", "-", "ok 4242"] := by decide

/-- **dropping the old stream object destroys the new connection**: the new connection's reader sees EOF
    (the old write half's FIN, numbered by the new socket), the new writer gets `BrokenPipe`, and `h1`'s
    stream table is empty. -/
theorem stale_drop_kills_new_connection :
    obsRun staleW [.host 1 (.drop 0), .turn 0, .host 0 (.tcpRead 3 8), .host 1 (.tcpWrite 2 "4242"), .host 1 .count] =
      ["ok", "-", "ok -", "err brokenpipe", "ok streams=0 udp=0 tcpb=0"] := by decide

/-- the scenario is clean: no panic, every oracle value was there. -/
example : staleW.panicked = none ∧ staleW.oraErr = false ∧ (staleW.host! 1).socks.length = 1 := by decide

end TV.C02
