import TvCore.Model.Link
/-
  C01 — same seed, configuration and programs give the same execution.

  Every model function takes its randomness as explicit oracle arguments, so the model is a function
  of (configuration, programs, oracle stream): that part is definitional.  What needs proof is
  order-independence wherever the code iterates an unordered container: the nondeterminism scan
  (tools/nondet_scan.py, run by the check on every run) finds one such place, `Fs::dir_entries`
  (used by `read_dir` and `remove_dir_all`): entries are gathered into a set and then listed.

  `listing order entries`: the entries are inserted in the (deterministic) discovery order
  `entries`; `order` is what iterating the container yields.
-/
namespace TV.C01

def listing (order : List Nat → List Nat) (entries : List Nat) : List Nat := order entries

def leNat (a b : Nat) : Bool := decide (a ≤ b)

/-- an ordered set (BTreeSet — the repair): iteration yields the entries sorted. -/
def sortedOrder (l : List Nat) : List Nat := l.mergeSort leNat

theorem sorted_perm_eq : ∀ (l1 l2 : List Nat), l1.Pairwise (· ≤ ·) → l2.Pairwise (· ≤ ·) → l1.Perm l2 → l1 = l2
  | [], l2, _, _, h => by simpa using h.symm.eq_nil
  | a :: t, [], _, _, h => by simpa using h.eq_nil
  | a :: t, b :: u, h1, h2, h => by
    have ha : a ∈ b :: u := h.subset (by simp)
    have hb : b ∈ a :: t := h.symm.subset (by simp)
    have h1' := List.pairwise_cons.mp h1
    have h2' := List.pairwise_cons.mp h2
    have hab : a = b := by
      rcases List.mem_cons.mp ha with e | e
      · exact e
      · rcases List.mem_cons.mp hb with e' | e'
        · exact e'.symm
        · exact Nat.le_antisymm (h1'.1 b e') (h2'.1 a e)
    subst hab
    rw [sorted_perm_eq t u h1'.2 h2'.2 (List.Perm.cons_inv h)]

theorem sortedOrder_pairwise (l : List Nat) : (sortedOrder l).Pairwise (· ≤ ·) := by
  have := List.pairwise_mergeSort (le := leNat)
    (by intro a b c h1 h2; simp [leNat] at *; omega) (by intro a b; simp [leNat]; omega) l
  exact this.imp (by intro a b h; simpa [leNat] using h)

/-- **Order-independence (repaired code)**: with an ordered set the listing depends only on which
    entries exist, not on the order in which they were discovered or on any hasher state: two runs
    that gather the same entries — in any order — list them identically. -/
theorem listing_sorted_invariant (e1 e2 : List Nat) (h : e1.Perm e2) :
    listing sortedOrder e1 = listing sortedOrder e2 := by
  unfold listing
  apply sorted_perm_eq _ _ (sortedOrder_pairwise e1) (sortedOrder_pairwise e2)
  exact (List.mergeSort_perm e1 leNat).trans (h.trans (List.mergeSort_perm e2 leNat).symm)

/-- the listing is complete and invents nothing. -/
theorem listing_sorted_perm (e : List Nat) : (listing sortedOrder e).Perm e := List.mergeSort_perm e leNat

/-- Full statement for a given container iteration order: any two admissible iteration orders
    (any two hasher states) give the same listing. -/
def Statement (admissible : (List Nat → List Nat) → Prop) : Prop :=
  ∀ o1 o2, admissible o1 → admissible o2 → ∀ e, listing o1 e = listing o2 e

/-- a hash set may iterate in any permutation of its entries. -/
def hashOrder (o : List Nat → List Nat) : Prop := ∀ e, (o e).Perm e

/-- **F-C01-1 (the code before the repair)**: with `std::collections::HashSet` two executions may
    list the same directory differently. -/
theorem witness_hashset : ¬ Statement hashOrder := by
  intro h
  have := h id List.reverse (fun e => List.Perm.refl e) (fun e => List.reverse_perm e) [1, 2]
  simp [listing] at this

/-- with the ordered set there is exactly one admissible order, and the statement holds. -/
theorem fixed_btreeset : Statement (fun o => o = sortedOrder) := by
  intro o1 o2 h1 h2 e; rw [h1, h2]

example : listing sortedOrder [3, 1, 2] = listing sortedOrder [2, 3, 1] :=
  listing_sorted_invariant _ _ (by decide)

/-- The link's random process consults the repair coin only when the failure coin did not fire and a
    direction is randomly partitioned — so the number of draws per send is a function of the link
    state and the draws so far, never of anything outside the model. -/
theorem draws_determined {M : Type} (l : Link M) (cf : Bool) :
    l.wantsRepairCoin cf = (!(l.anyHealthy && cf) && l.anyRand) := rfl

end TV.C01
