import TvCore.Proofs.C15WorldBind
/-
  C15 at the level of the World operations — the functions the replay driver runs — and over every
  reachable state.

  `Props/C15.lean` is about the scan function and the name table in isolation.  Here:

  1. `udp_bind0_fresh` / `tcp_bind0_fresh` (+ `…_ok_fresh`): a bind to port 0 returns `ok p` with `p` in the
     ephemeral range and used by nothing on that host — no UDP bind, no TCP listener, no stream-table
     entry has it as local port: the three tables are consulted JOINTLY, whatever the protocol of the
     socket that asks (`portUsed`; same as `Host::assign_ephemeral_port` in host.rs, which asks
     `udp.is_port_assigned(p) || tcp.is_port_assigned(p)`) — the tables gain exactly that entry and
     the cursor moves to the successor of `p`; if every port of the range is in use the result is
     `"panic"` (the model records `panicked := "ports exhausted"`: the Rust code panics, it does not
     return an error).
  2. `connect_port_fresh`: the same for the local port of `opTcpConnect`.
  3. `udp_bind_in_use_iff` / `tcp_bind_in_use_iff`: an explicit-port bind fails with `AddrInUse` iff
     the port is in the table OF THAT PROTOCOL (UDP binds for UDP, listeners for TCP — neither looks
     at the other protocol nor at the stream table); then nothing but the coverage tag changes;
     otherwise it succeeds and the table gains exactly that entry.
  4. `drop_udp_frees_port` / `drop_listener_frees_port` / `crash_frees_ports` / `bounce_frees_ports`.
  5. `reach_udp_ports_nodup`, `reach_tcp_ports_nodup`, `reach_stream_pairs_nodup`, `reach_cursor_inrange`.
  6. `dns_stable`, `dns_distinct`, `register_uses_dns`.
-/
namespace TV.C15
open TV TV.World TV.C04

/-! ### example worlds (non-vacuity)

  One host with the three-port ephemeral range 10..12.  In `exFull` each of the three tables holds
  one port of the range: a UDP socket on 10, a listener on 11, and a pending loopback connect to that
  listener whose local port the scan chose as 12 (10 and 11 were skipped). -/

def exCfg : WCfg := { ephLo := 10, ephHi := 12, fixConnectLeak := true }
def exW : World := { cfg := exCfg }
def ex1 : World := applyStep exW (.register 1 false)
def exSteps : List Step :=
  [ .register 1 false,
    .host 0 (.udpBind 0 ⟨.any, 10⟩),
    .host 0 (.tcpBind 1 ⟨.any, 11⟩),
    .host 0 (.tcpConnect 2 ⟨.lo, 11⟩) ]
def exFull : World := exSteps.foldl applyStep exW
theorem exFull_reach : Reach exW exFull := reach_foldl exW exSteps
theorem ex1_reach : Reach exW ex1 := Reach.step _ Reach.init

example : (exFull.host! 0).udp.map (·.port) = [10] ∧ (exFull.host! 0).tcpBinds.map (·.port) = [11] ∧
    (exFull.host! 0).socks.map (·.loc.port) = [12] ∧ (exFull.host! 0).nextEph = 10 ∧
    (exFull.host! 0).running = true ∧ exFull.panicked = none := by decide

/-! ## 1. binding to port 0 -/

/-- the call `r` handed out port `p` on host `h`. -/
structure Assigned (w : World) (h : Nat) (r : World × String) (p : Nat) : Prop where
  /-- in the ephemeral range and, before the call, used by nothing on the host -/
  fresh : Fresh w h p
  result : r.2 = s!"ok {p}"
  /-- the cursor advances to the successor of `p` (wrapping from `ephHi` to `ephLo`) -/
  cursor : (r.1.host! h).nextEph = nextCur w.cfg.ephLo w.cfg.ephHi p
  others : ∀ i, i ≠ h → r.1.host! i = w.host! i
  nopanic : r.1.panicked = w.panicked

/-- the call `r` found every port of the range in use: the documented failure is a panic, not an
    error value; no table changes. -/
structure Exhaust (w : World) (h : Nat) (r : World × String) : Prop where
  all : Exhausted w h
  result : r.2 = "panic"
  panicked : r.1.panicked.isSome = true
  udp : (r.1.host! h).udp = (w.host! h).udp
  tcpBinds : (r.1.host! h).tcpBinds = (w.host! h).tcpBinds
  socks : (r.1.host! h).socks = (w.host! h).socks

theorem host!_cursorSet_self (w : World) (h : Nat) (hh : h < w.hosts.length) :
    (cursorSet w h).host! h = { w.host! h with nextEph := (scanOf w h).2 } := by
  rw [host!_cursorSet]; simp [hh]

theorem host!_cursorSet_ne (w : World) (h i : Nat) (hi : i ≠ h) : (cursorSet w h).host! i = w.host! i := by
  rw [host!_cursorSet]; simp [hi]

theorem exhaust_of_none (w : World) (h : Nat) (hh : h < w.hosts.length)
    (hr : InRange w.cfg.ephLo w.cfg.ephHi (w.host! h)) (hp : (w.assignPort h).1 = none) :
    Exhaust w h ((w.assignPort h).2, "panic") := by
  have hs : (scanOf w h).1 = none := by rw [← assignPort_fst]; exact hp
  rw [assignPort_none w h hp]
  have e : ((cursorSet w h).panic "ports exhausted").host! h = { w.host! h with nextEph := (scanOf w h).2 } := by
    rw [C12.host!_panic, host!_cursorSet_self w h hh]
  exact ⟨scanOf_none w h hr hs, rfl, panic_isSome _ _, by rw [e], by rw [e], by rw [e]⟩

/-- **port-0 UDP bind**: either a fresh port `p` is handed out — result `ok p`, the UDP table gains
    exactly the entry for `p`, the other tables are untouched, the cursor advances — or every port of
    the range is in use and the call panics. -/
theorem udp_bind0_fresh (w : World) (h s : Nat) (a : Addr) (ha : a.port = 0) (hip : bindIpOk a.ip = true)
    (hh : h < w.hosts.length) (hr : InRange w.cfg.ephLo w.cfg.ephHi (w.host! h)) :
    (∃ p, Assigned w h (w.opUdpBind h s a) p ∧
        ((w.opUdpBind h s a).1.host! h).udp =
          (w.host! h).udp ++ [{ port := p, bindAddr := { ip := a.ip, port := p } }] ∧
        ((w.opUdpBind h s a).1.host! h).tcpBinds = (w.host! h).tcpBinds ∧
        ((w.opUdpBind h s a).1.host! h).socks = (w.host! h).socks) ∨
    Exhaust w h (w.opUdpBind h s a) := by
  rw [opUdpBind_port0 w h s a ha hip]
  cases hap : (w.assignPort h).1 with
  | none => exact Or.inr (exhaust_of_none w h hh hr hap)
  | some p =>
    refine Or.inl ⟨p, ?_⟩
    simp only
    have hs : (scanOf w h).1 = some p := by rw [← assignPort_fst]; exact hap
    obtain ⟨hf, hc⟩ := scanOf_some w h p hr hs
    rw [assignPort_some w h p hap]
    simp only
    have hc0 := host!_cursorSet_self w h hh
    have hfree : udpPortUsed ((cursorSet w h).host! h) p = false := by
      rw [hc0]
      unfold udpPortUsed
      rw [List.any_eq_false]
      intro b hb
      simpa using hf.udp b hb
    have hl : h < (cursorSet w h).hosts.length := by rw [hostsLen_cursorSet]; exact hh
    unfold udpBindCore
    simp only [hfree, Bool.false_eq_true, if_false]
    have hb := host!_udpBound (cursorSet w h) h s { ip := a.ip, port := p } hl
    rw [hc0] at hb
    refine ⟨⟨hf, rfl, ?_, fun i hi => ?_, ?_⟩, ?_, ?_, ?_⟩
    · show ((udpBound (cursorSet w h) h s { ip := a.ip, port := p }).host! h).nextEph = _
      rw [hb]; exact hc
    · show (udpBound (cursorSet w h) h s { ip := a.ip, port := p }).host! i = _
      rw [host!_udpBound_ne _ _ _ _ _ hi, host!_cursorSet_ne _ _ _ hi]
    · exact panicked_cursorSet w h
    · show ((udpBound (cursorSet w h) h s { ip := a.ip, port := p }).host! h).udp = _
      rw [hb]
    · show ((udpBound (cursorSet w h) h s { ip := a.ip, port := p }).host! h).tcpBinds = _
      rw [hb]
    · show ((udpBound (cursorSet w h) h s { ip := a.ip, port := p }).host! h).socks = _
      rw [hb]

/-- **port-0 listener bind**: the same, on the listener table. -/
theorem tcp_bind0_fresh (w : World) (h s : Nat) (a : Addr) (ha : a.port = 0) (hip : bindIpOk a.ip = true)
    (hh : h < w.hosts.length) (hr : InRange w.cfg.ephLo w.cfg.ephHi (w.host! h)) :
    (∃ p, Assigned w h (w.opTcpBind h s a) p ∧
        ((w.opTcpBind h s a).1.host! h).tcpBinds =
          (w.host! h).tcpBinds ++ [{ port := p, bindAddr := { ip := a.ip, port := p } }] ∧
        ((w.opTcpBind h s a).1.host! h).udp = (w.host! h).udp ∧
        ((w.opTcpBind h s a).1.host! h).socks = (w.host! h).socks) ∨
    Exhaust w h (w.opTcpBind h s a) := by
  rw [opTcpBind_port0 w h s a ha hip]
  cases hap : (w.assignPort h).1 with
  | none => exact Or.inr (exhaust_of_none w h hh hr hap)
  | some p =>
    refine Or.inl ⟨p, ?_⟩
    simp only
    have hs : (scanOf w h).1 = some p := by rw [← assignPort_fst]; exact hap
    obtain ⟨hf, hc⟩ := scanOf_some w h p hr hs
    rw [assignPort_some w h p hap]
    simp only
    have hc0 := host!_cursorSet_self w h hh
    have hfree : ((cursorSet w h).host! h).tcpBinds.any (·.port == p) = false := by
      rw [hc0]
      rw [List.any_eq_false]
      intro b hb
      simpa using hf.lis b hb
    have hl : h < (cursorSet w h).hosts.length := by rw [hostsLen_cursorSet]; exact hh
    unfold tcpBindCore
    simp only [hfree, Bool.false_eq_true, if_false]
    have hb := host!_tcpBound (cursorSet w h) h s { ip := a.ip, port := p } hl
    rw [hc0] at hb
    refine ⟨⟨hf, rfl, ?_, fun i hi => ?_, ?_⟩, ?_, ?_, ?_⟩
    · show ((tcpBound (cursorSet w h) h s { ip := a.ip, port := p }).host! h).nextEph = _
      rw [hb]; exact hc
    · show (tcpBound (cursorSet w h) h s { ip := a.ip, port := p }).host! i = _
      rw [host!_tcpBound_ne _ _ _ _ _ hi, host!_cursorSet_ne _ _ _ hi]
    · exact panicked_cursorSet w h
    · show ((tcpBound (cursorSet w h) h s { ip := a.ip, port := p }).host! h).tcpBinds = _
      rw [hb]
    · show ((tcpBound (cursorSet w h) h s { ip := a.ip, port := p }).host! h).udp = _
      rw [hb]
    · show ((tcpBound (cursorSet w h) h s { ip := a.ip, port := p }).host! h).socks = _
      rw [hb]

/-- **`bind0_fresh`** (both protocols): see `udp_bind0_fresh` / `tcp_bind0_fresh`. -/
theorem bind0_fresh (w : World) (h s : Nat) (a : Addr) (ha : a.port = 0) (hip : bindIpOk a.ip = true)
    (hh : h < w.hosts.length) (hr : InRange w.cfg.ephLo w.cfg.ephHi (w.host! h)) :
    ((∃ p, Assigned w h (w.opUdpBind h s a) p ∧
        ((w.opUdpBind h s a).1.host! h).udp =
          (w.host! h).udp ++ [{ port := p, bindAddr := { ip := a.ip, port := p } }] ∧
        ((w.opUdpBind h s a).1.host! h).tcpBinds = (w.host! h).tcpBinds ∧
        ((w.opUdpBind h s a).1.host! h).socks = (w.host! h).socks) ∨
      Exhaust w h (w.opUdpBind h s a)) ∧
    ((∃ p, Assigned w h (w.opTcpBind h s a) p ∧
        ((w.opTcpBind h s a).1.host! h).tcpBinds =
          (w.host! h).tcpBinds ++ [{ port := p, bindAddr := { ip := a.ip, port := p } }] ∧
        ((w.opTcpBind h s a).1.host! h).udp = (w.host! h).udp ∧
        ((w.opTcpBind h s a).1.host! h).socks = (w.host! h).socks) ∨
      Exhaust w h (w.opTcpBind h s a)) :=
  ⟨udp_bind0_fresh w h s a ha hip hh hr, tcp_bind0_fresh w h s a ha hip hh hr⟩

/-- **whatever port a port-0 UDP bind reports is fresh** (the statement read off the observation). -/
theorem udp_bind0_ok_fresh (w : World) (h s : Nat) (a : Addr) (ha : a.port = 0) (hip : bindIpOk a.ip = true)
    (hh : h < w.hosts.length) (hr : InRange w.cfg.ephLo w.cfg.ephHi (w.host! h)) (p : Nat)
    (hok : (w.opUdpBind h s a).2 = s!"ok {p}") : Fresh w h p ∧ Assigned w h (w.opUdpBind h s a) p := by
  rcases udp_bind0_fresh w h s a ha hip hh hr with ⟨q, hq, _⟩ | hx
  · have : q = p := okp_inj (hq.result.symm.trans hok)
    subst this
    exact ⟨hq.fresh, hq⟩
  · exact absurd (hok.symm.trans hx.result) (okp_ne_panic p)

theorem tcp_bind0_ok_fresh (w : World) (h s : Nat) (a : Addr) (ha : a.port = 0) (hip : bindIpOk a.ip = true)
    (hh : h < w.hosts.length) (hr : InRange w.cfg.ephLo w.cfg.ephHi (w.host! h)) (p : Nat)
    (hok : (w.opTcpBind h s a).2 = s!"ok {p}") : Fresh w h p ∧ Assigned w h (w.opTcpBind h s a) p := by
  rcases tcp_bind0_fresh w h s a ha hip hh hr with ⟨q, hq, _⟩ | hx
  · have : q = p := okp_inj (hq.result.symm.trans hok)
    subst this
    exact ⟨hq.fresh, hq⟩
  · exact absurd (hok.symm.trans hx.result) (okp_ne_panic p)

/-- a port-0 bind never fails with `AddrInUse`. -/
theorem bind0_never_addrinuse (w : World) (h s : Nat) (a : Addr) (ha : a.port = 0) (hip : bindIpOk a.ip = true)
    (hh : h < w.hosts.length) (hr : InRange w.cfg.ephLo w.cfg.ephHi (w.host! h)) :
    (w.opUdpBind h s a).2 ≠ "err addrinuse" ∧ (w.opTcpBind h s a).2 ≠ "err addrinuse" := by
  refine ⟨fun e => ?_, fun e => ?_⟩
  · rcases udp_bind0_fresh w h s a ha hip hh hr with ⟨q, hq, _⟩ | hx
    · exact okp_ne_addrinuse q (hq.result.symm.trans e)
    · rw [hx.result] at e; exact absurd e (by decide)
  · rcases tcp_bind0_fresh w h s a ha hip hh hr with ⟨q, hq, _⟩ | hx
    · exact okp_ne_addrinuse q (hq.result.symm.trans e)
    · rw [hx.result] at e; exact absurd e (by decide)


/-- hypotheses of the port-0 theorems on `ex1` (fresh host) and `exFull` (range exhausted), and both
    outcomes: `ok 10` with the cursor moved to 11; `"panic"` with `panicked = "ports exhausted"` — for
    the UDP bind, the listener bind and the connect alike, although each port is blocked by a
    different table (the three tables are consulted jointly). -/
example : 0 < ex1.hosts.length ∧ InRange ex1.cfg.ephLo ex1.cfg.ephHi (ex1.host! 0) ∧
    0 < exFull.hosts.length ∧ InRange exFull.cfg.ephLo exFull.cfg.ephHi (exFull.host! 0) ∧ bindIpOk Ip.any = true := by
  unfold InRange; decide
example : (ex1.opUdpBind 0 0 ⟨.any, 0⟩).2 = "ok 10" ∧ (ex1.opTcpBind 0 0 ⟨.any, 0⟩).2 = "ok 10" ∧
    ((ex1.opUdpBind 0 0 ⟨.any, 0⟩).1.host! 0).nextEph = 11 ∧
    nextCur 10 12 10 = 11 ∧ nextCur 10 12 12 = 10 := by decide
example : (exFull.opUdpBind 0 3 ⟨.any, 0⟩).2 = "panic" ∧ (exFull.opTcpBind 0 3 ⟨.any, 0⟩).2 = "panic" ∧
    (exFull.opTcpConnect 0 3 ⟨.lo, 11⟩).2 = "panic" ∧
    (exFull.opUdpBind 0 3 ⟨.any, 0⟩).1.panicked = some "ports exhausted" := by decide

/-! ## 2. the local port of an outgoing connect -/

theorem syns_cursorSet (w : World) (h : Nat) : (cursorSet w h).syns = w.syns := by
  unfold cursorSet tag
  repeat' split
  all_goals rfl

/-- `opTcpConnect` on host `h` handed out local port `p`. -/
structure ConnectAssigned (w : World) (h s : Nat) (dst : Addr) (p : Nat) : Prop where
  /-- in the ephemeral range and, before the call, used by nothing on the host -/
  fresh : Fresh w h p
  /-- the rest of the call runs with local address `connectLocal h dst p`, whose port is `p` -/
  tail : w.opTcpConnect h s dst = C12.connectTail (cursorSet w h) h s p dst
  cursor : ((w.opTcpConnect h s dst).1.host! h).nextEph = nextCur w.cfg.ephLo w.cfg.ephHi p
  udp : ((w.opTcpConnect h s dst).1.host! h).udp = (w.host! h).udp
  tcpBinds : ((w.opTcpConnect h s dst).1.host! h).tcpBinds = (w.host! h).tcpBinds
  /-- every stream-table entry after the call is an old one or the new one, whose local port is `p` -/
  socks : ∀ sk ∈ ((w.opTcpConnect h s dst).1.host! h).socks,
    (∃ sk0 ∈ (w.host! h).socks, pairOf sk0 = pairOf sk) ∨ pairOf sk = (C12.connectLocal h dst p, dst)
  /-- a connect that is under way holds the new entry -/
  pending : (w.opTcpConnect h s dst).2 = "pending" →
    ∃ chan fcW, (w.opTcpConnect h s dst).1.getObj h s =
        some (.connecting w.syns.length (C12.connectLocal h dst p) dst chan fcW) ∧
      (findSock ((w.opTcpConnect h s dst).1.host! h) (C12.connectLocal h dst p) dst).isSome = true

example (h p : Nat) (dst : Addr) : (C12.connectLocal h dst p).port = p := rfl

/-- **outgoing connect**: either a fresh local port `p` is handed out — the three tables are
    consulted jointly, exactly as for a port-0 bind — the cursor advances, the bind tables are
    untouched and the only new stream-table entry has local port `p`; or every port of the range is
    in use and the call panics. -/
theorem connect_port_fresh (w : World) (h s : Nat) (dst : Addr) (hh : h < w.hosts.length)
    (hr : InRange w.cfg.ephLo w.cfg.ephHi (w.host! h)) :
    (∃ p, ConnectAssigned w h s dst p) ∨ Exhaust w h (w.opTcpConnect h s dst) := by
  rw [C12.opTcpConnect_eq]
  cases hap : (w.assignPort h).1 with
  | none => exact Or.inr (exhaust_of_none w h hh hr hap)
  | some p =>
    refine Or.inl ⟨p, ?_⟩
    have hs : (scanOf w h).1 = some p := by rw [← assignPort_fst]; exact hap
    obtain ⟨hf, hc⟩ := scanOf_some w h p hr hs
    have htail : w.opTcpConnect h s dst = C12.connectTail (cursorSet w h) h s p dst := by
      rw [C12.opTcpConnect_eq, hap, assignPort_some w h p hap]
    have hc0 := host!_cursorSet_self w h hh
    have hl : h < (cursorSet w h).hosts.length := by rw [hostsLen_cursorSet]; exact hh
    have hpend : (w.opTcpConnect h s dst).2 = "pending" →
        ∃ chan fcW, (w.opTcpConnect h s dst).1.getObj h s =
            some (.connecting w.syns.length (C12.connectLocal h dst p) dst chan fcW) ∧
          (findSock ((w.opTcpConnect h s dst).1.host! h) (C12.connectLocal h dst p) dst).isSome = true := by
      rw [htail]
      intro hp
      obtain ⟨chan, fcW, h1, _, h3, _, _⟩ := C12.connectTail_pending (cursorSet w h) h s p dst hl hp
      rw [syns_cursorSet] at h1
      exact ⟨chan, fcW, h1, h3⟩
    by_cases hne : (C12.connectLocal h dst p == dst) = true
    · -- the `assert_ne!(local, dst)` fires: nothing but the cursor has changed
      have e : C12.connectTail (cursorSet w h) h s p dst = ((cursorSet w h).panic "assert_ne", "panic") := by
        unfold C12.connectTail; simp only [hne, if_true]
      have eh : (w.opTcpConnect h s dst).1.host! h = { w.host! h with nextEph := (scanOf w h).2 } := by
        rw [htail, e]
        show ((cursorSet w h).panic "assert_ne").host! h = _
        rw [C12.host!_panic, hc0]
      refine ⟨hf, htail, by rw [eh]; exact hc, by rw [eh], by rw [eh], fun sk hsk => ?_, hpend⟩
      rw [eh] at hsk
      exact Or.inl ⟨sk, hsk, rfl⟩
    · have hne' : (C12.connectLocal h dst p == dst) = false := by simpa using hne
      have T := tailFr_connectTail (cursorSet w h) h s p dst hne'
      obtain ⟨chan, fcW, hpre⟩ := host!_connectPre (cursorSet w h) h p dst hl
      rw [hc0] at hpre
      unfold TailFr at T
      rw [hpre, ← htail] at T
      refine ⟨hf, htail, T.2.2.1.trans hc, T.1, T.2.1, fun sk hsk => ?_, hpend⟩
      obtain ⟨sk0, hs0, e0⟩ := T.2.2.2 sk hsk
      rcases List.mem_append.mp hs0 with hs0 | hs0
      · exact Or.inl ⟨sk0, hs0, e0⟩
      · rw [List.mem_singleton] at hs0
        subst hs0
        exact Or.inr e0.symm


/-- a connect on the world with a UDP socket on 10 and a listener on 11: pending, local port 12. -/
example : ((exSteps.take 3).foldl applyStep exW |>.opTcpConnect 0 2 ⟨.lo, 11⟩).2 = "pending" ∧
    (exFull.host! 0).socks.map (fun sk => (sk.loc.port, sk.rem.port)) = [(12, 11)] := by decide

/-! ## 3. explicit-port binds: `AddrInUse` iff the port is bound in that protocol's table -/

theorem udpPortUsed_iff (hs : Host) (p : Nat) : udpPortUsed hs p = true ↔ ∃ b ∈ hs.udp, b.port = p := by
  unfold udpPortUsed
  simp only [List.any_eq_true, beq_iff_eq]

theorem lisPortUsed_iff (hs : Host) (p : Nat) : hs.tcpBinds.any (·.port == p) = true ↔ ∃ b ∈ hs.tcpBinds, b.port = p := by
  simp only [List.any_eq_true, beq_iff_eq]

/-- **explicit-port UDP bind**: it fails with `AddrInUse` iff a UDP bind with that port exists on the
    host — TCP listeners and streams on the same port do not matter (the UDP and TCP port spaces are
    separate for explicit binds: `Udp::bind` looks at `udp.binds` only).  When it fails nothing
    changes (`World.tag` only adds a coverage tag: `C12.tag_eq`); otherwise it returns `ok port` and
    the world is `udpBound`: the UDP table gains exactly that entry (`udp_bind_ok_tables`). -/
theorem udp_bind_in_use_iff (w : World) (h s : Nat) (a : Addr) (ha : a.port ≠ 0) (hip : bindIpOk a.ip = true) :
    ((w.opUdpBind h s a).2 = "err addrinuse" ↔ ∃ b ∈ (w.host! h).udp, b.port = a.port) ∧
    ((∃ b ∈ (w.host! h).udp, b.port = a.port) → w.opUdpBind h s a = (w.tag "addrinuse", "err addrinuse")) ∧
    ((∀ b ∈ (w.host! h).udp, b.port ≠ a.port) → w.opUdpBind h s a = (udpBound w h s a, s!"ok {a.port}")) := by
  rw [opUdpBind_explicit w h s a ha hip]
  unfold udpBindCore
  by_cases hu : udpPortUsed (w.host! h) a.port = true
  · have hex := (udpPortUsed_iff _ _).mp hu
    rw [if_pos hu]
    refine ⟨⟨fun _ => hex, fun _ => rfl⟩, fun _ => rfl, fun hall => ?_⟩
    obtain ⟨b, hb, e⟩ := hex
    exact absurd e (hall b hb)
  · have hnone : ∀ b ∈ (w.host! h).udp, b.port ≠ a.port := fun b hb e => hu ((udpPortUsed_iff _ _).mpr ⟨b, hb, e⟩)
    rw [if_neg hu]
    refine ⟨⟨fun e => absurd e (okp_ne_addrinuse _), fun hex => ?_⟩, fun hex => ?_, fun _ => rfl⟩
    · obtain ⟨b, hb, e⟩ := hex; exact absurd e (hnone b hb)
    · obtain ⟨b, hb, e⟩ := hex; exact absurd e (hnone b hb)

/-- **explicit-port listener bind**: it fails with `AddrInUse` iff a LISTENER with that port exists on
    the host.  Live streams whose local port is that port do not matter (`Tcp::bind` looks at
    `tcp.binds` only; the seeded change that made it look at the stream table too was a violation),
    nor do UDP binds. -/
theorem tcp_bind_in_use_iff (w : World) (h s : Nat) (a : Addr) (ha : a.port ≠ 0) (hip : bindIpOk a.ip = true) :
    ((w.opTcpBind h s a).2 = "err addrinuse" ↔ ∃ b ∈ (w.host! h).tcpBinds, b.port = a.port) ∧
    ((∃ b ∈ (w.host! h).tcpBinds, b.port = a.port) → w.opTcpBind h s a = (w.tag "addrinuse", "err addrinuse")) ∧
    ((∀ b ∈ (w.host! h).tcpBinds, b.port ≠ a.port) → w.opTcpBind h s a = (tcpBound w h s a, s!"ok {a.port}")) := by
  rw [opTcpBind_explicit w h s a ha hip]
  unfold tcpBindCore
  by_cases hu : (w.host! h).tcpBinds.any (·.port == a.port) = true
  · have hex := (lisPortUsed_iff _ _).mp hu
    rw [if_pos hu]
    refine ⟨⟨fun _ => hex, fun _ => rfl⟩, fun _ => rfl, fun hall => ?_⟩
    obtain ⟨b, hb, e⟩ := hex
    exact absurd e (hall b hb)
  · have hnone : ∀ b ∈ (w.host! h).tcpBinds, b.port ≠ a.port := fun b hb e => hu ((lisPortUsed_iff _ _).mpr ⟨b, hb, e⟩)
    rw [if_neg hu]
    refine ⟨⟨fun e => absurd e (okp_ne_addrinuse _), fun hex => ?_⟩, fun hex => ?_, fun _ => rfl⟩
    · obtain ⟨b, hb, e⟩ := hex; exact absurd e (hnone b hb)
    · obtain ⟨b, hb, e⟩ := hex; exact absurd e (hnone b hb)

/-- **`bind_in_use_iff`** (both protocols). -/
theorem bind_in_use_iff (w : World) (h s : Nat) (a : Addr) (ha : a.port ≠ 0) (hip : bindIpOk a.ip = true) :
    (((w.opUdpBind h s a).2 = "err addrinuse" ↔ ∃ b ∈ (w.host! h).udp, b.port = a.port) ∧
     ((∃ b ∈ (w.host! h).udp, b.port = a.port) → w.opUdpBind h s a = (w.tag "addrinuse", "err addrinuse")) ∧
     ((∀ b ∈ (w.host! h).udp, b.port ≠ a.port) → w.opUdpBind h s a = (udpBound w h s a, s!"ok {a.port}"))) ∧
    (((w.opTcpBind h s a).2 = "err addrinuse" ↔ ∃ b ∈ (w.host! h).tcpBinds, b.port = a.port) ∧
     ((∃ b ∈ (w.host! h).tcpBinds, b.port = a.port) → w.opTcpBind h s a = (w.tag "addrinuse", "err addrinuse")) ∧
     ((∀ b ∈ (w.host! h).tcpBinds, b.port ≠ a.port) → w.opTcpBind h s a = (tcpBound w h s a, s!"ok {a.port}"))) :=
  ⟨udp_bind_in_use_iff w h s a ha hip, tcp_bind_in_use_iff w h s a ha hip⟩

/-- the tables after a successful UDP bind: exactly one more UDP entry, everything else as before. -/
theorem udp_bind_ok_tables (w : World) (h s : Nat) (a' : Addr) (hh : h < w.hosts.length) :
    ((udpBound w h s a').host! h).udp = (w.host! h).udp ++ [{ port := a'.port, bindAddr := a' }] ∧
    ((udpBound w h s a').host! h).tcpBinds = (w.host! h).tcpBinds ∧
    ((udpBound w h s a').host! h).socks = (w.host! h).socks ∧
    ((udpBound w h s a').host! h).nextEph = (w.host! h).nextEph ∧
    (∀ i, i ≠ h → (udpBound w h s a').host! i = w.host! i) ∧
    (udpBound w h s a').panicked = w.panicked := by
  rw [host!_udpBound w h s a' hh]
  exact ⟨rfl, rfl, rfl, rfl, fun i hi => host!_udpBound_ne w h s i a' hi, rfl⟩

theorem tcp_bind_ok_tables (w : World) (h s : Nat) (a' : Addr) (hh : h < w.hosts.length) :
    ((tcpBound w h s a').host! h).tcpBinds = (w.host! h).tcpBinds ++ [{ port := a'.port, bindAddr := a' }] ∧
    ((tcpBound w h s a').host! h).udp = (w.host! h).udp ∧
    ((tcpBound w h s a').host! h).socks = (w.host! h).socks ∧
    ((tcpBound w h s a').host! h).nextEph = (w.host! h).nextEph ∧
    (∀ i, i ≠ h → (tcpBound w h s a').host! i = w.host! i) ∧
    (tcpBound w h s a').panicked = w.panicked := by
  rw [host!_tcpBound w h s a' hh]
  exact ⟨rfl, rfl, rfl, rfl, fun i hi => host!_tcpBound_ne w h s i a' hi, rfl⟩


/-- on `exFull` (UDP socket on 10, listener on 11, live stream with local port 12): the UDP bind
    conflicts with the UDP socket only, the listener bind with the listener only — in particular a
    listener can be bound on port 12 although a live stream uses it, and on 10 although a UDP socket
    holds it. -/
example : (exFull.opUdpBind 0 3 ⟨.any, 10⟩).2 = "err addrinuse" ∧ (exFull.opUdpBind 0 3 ⟨.any, 11⟩).2 = "ok 11" ∧
    (exFull.opUdpBind 0 3 ⟨.any, 12⟩).2 = "ok 12" ∧
    (exFull.opTcpBind 0 3 ⟨.any, 11⟩).2 = "err addrinuse" ∧ (exFull.opTcpBind 0 3 ⟨.any, 10⟩).2 = "ok 10" ∧
    (exFull.opTcpBind 0 3 ⟨.any, 12⟩).2 = "ok 12" := by decide

/-! ## 4. a dropped socket, a crashed or bounced host: the port is available again -/

/-- **dropping a UDP socket frees its port**: every UDP bind of that port leaves the table (by
    `reach_udp_ports_nodup` there is at most one), nothing else does, and an explicit bind of the
    port succeeds at once. -/
theorem drop_udp_frees_port (w : World) (h s : Nat) (loc : Addr) (stash : Option (Hex × Addr))
    (hh : h < w.hosts.length) (ho : w.getObj h s = some (.udp loc stash)) :
    (w.opDrop h s).2 = "ok" ∧
    ((w.opDrop h s).1.host! h).udp = (w.host! h).udp.filter (fun b => b.port != loc.port) ∧
    ((w.opDrop h s).1.host! h).tcpBinds = (w.host! h).tcpBinds ∧
    udpPortUsed ((w.opDrop h s).1.host! h) loc.port = false ∧
    (∀ s' ip, bindIpOk ip = true → loc.port ≠ 0 →
      ((w.opDrop h s).1.opUdpBind h s' { ip := ip, port := loc.port }).2 = s!"ok {loc.port}") := by
  have hd : w.opDrop h s = ((w.delObj h s).dropObj h (.udp loc stash), "ok") := by
    unfold opDrop; simp only [ho]
  rw [hd]
  have hl : h < (w.delObj h s).hosts.length := by simpa [delObj, setHost] using hh
  have e1 : (w.delObj h s).host! h = { w.host! h with objs := (w.host! h).objs.filter (·.1 != s) } := by
    unfold delObj; exact host!_setHost_self w h _ hh
  have hb := dropObj_binds h (w.delObj h s) (.udp loc stash) hl
  rw [e1] at hb
  simp only at hb
  have hu : (((w.delObj h s).dropObj h (.udp loc stash)).host! h).udp = (w.host! h).udp.filter (fun b => b.port != loc.port) := by
    rw [hb.1]
    apply List.filter_congr
    intro b _
    simp [udpKeep, udpPortOf]
  have ht : (((w.delObj h s).dropObj h (.udp loc stash)).host! h).tcpBinds = (w.host! h).tcpBinds := by
    rw [hb.2]
    exact List.filter_eq_self.mpr (fun b _ => by simp [lisKeep, lisPortOf])
  have hfree : udpPortUsed (((w.delObj h s).dropObj h (.udp loc stash)).host! h) loc.port = false := by
    unfold udpPortUsed
    rw [hu, List.any_eq_false]
    intro b hb'
    have := (List.mem_filter.mp hb').2
    simpa using this
  refine ⟨rfl, hu, ht, hfree, fun s' ip hip hp0 => ?_⟩
  show (((w.delObj h s).dropObj h (.udp loc stash)).opUdpBind h s' { ip := ip, port := loc.port }).2 = _
  rw [opUdpBind_explicit _ h s' { ip := ip, port := loc.port } hp0 hip]
  unfold udpBindCore
  simp only [hfree, Bool.false_eq_true, if_false]

/-- **dropping a listener frees its port** for listeners (streams it accepted keep that local port;
    they never block an explicit bind, see `tcp_bind_in_use_iff`). -/
theorem drop_listener_frees_port (w : World) (h s : Nat) (loc : Addr)
    (hh : h < w.hosts.length) (ho : w.getObj h s = some (.listener loc)) :
    (w.opDrop h s).2 = "ok" ∧
    ((w.opDrop h s).1.host! h).tcpBinds = (w.host! h).tcpBinds.filter (fun b => b.port != loc.port) ∧
    ((w.opDrop h s).1.host! h).udp = (w.host! h).udp ∧
    ((w.opDrop h s).1.host! h).tcpBinds.any (·.port == loc.port) = false ∧
    (∀ s' ip, bindIpOk ip = true → loc.port ≠ 0 →
      ((w.opDrop h s).1.opTcpBind h s' { ip := ip, port := loc.port }).2 = s!"ok {loc.port}") := by
  have hd : w.opDrop h s = ((w.delObj h s).dropObj h (.listener loc), "ok") := by
    unfold opDrop; simp only [ho]
  rw [hd]
  have hl : h < (w.delObj h s).hosts.length := by simpa [delObj, setHost] using hh
  have e1 : (w.delObj h s).host! h = { w.host! h with objs := (w.host! h).objs.filter (·.1 != s) } := by
    unfold delObj; exact host!_setHost_self w h _ hh
  have hb := dropObj_binds h (w.delObj h s) (.listener loc) hl
  rw [e1] at hb
  simp only at hb
  have ht : (((w.delObj h s).dropObj h (.listener loc)).host! h).tcpBinds = (w.host! h).tcpBinds.filter (fun b => b.port != loc.port) := by
    rw [hb.2]
    apply List.filter_congr
    intro b _
    simp [lisKeep, lisPortOf]
  have hu : (((w.delObj h s).dropObj h (.listener loc)).host! h).udp = (w.host! h).udp := by
    rw [hb.1]
    exact List.filter_eq_self.mpr (fun b _ => by simp [udpKeep, udpPortOf])
  have hfree : (((w.delObj h s).dropObj h (.listener loc)).host! h).tcpBinds.any (·.port == loc.port) = false := by
    rw [ht, List.any_eq_false]
    intro b hb'
    have := (List.mem_filter.mp hb').2
    simpa using this
  refine ⟨rfl, ht, hu, hfree, fun s' ip hip hp0 => ?_⟩
  show (((w.delObj h s).dropObj h (.listener loc)).opTcpBind h s' { ip := ip, port := loc.port }).2 = _
  rw [opTcpBind_explicit _ h s' { ip := ip, port := loc.port } hp0 hip]
  unfold tcpBindCore
  simp only [hfree, Bool.false_eq_true, if_false]

/-- **`drop_frees_port`** (UDP socket / listener): see `drop_udp_frees_port`, `drop_listener_frees_port`. -/
theorem drop_frees_port (w : World) (h s : Nat) (loc : Addr) (hh : h < w.hosts.length) :
    (∀ stash, w.getObj h s = some (.udp loc stash) →
      udpPortUsed ((w.opDrop h s).1.host! h) loc.port = false ∧
      (∀ s' ip, bindIpOk ip = true → loc.port ≠ 0 →
        ((w.opDrop h s).1.opUdpBind h s' { ip := ip, port := loc.port }).2 = s!"ok {loc.port}")) ∧
    (w.getObj h s = some (.listener loc) →
      ((w.opDrop h s).1.host! h).tcpBinds.any (·.port == loc.port) = false ∧
      (∀ s' ip, bindIpOk ip = true → loc.port ≠ 0 →
        ((w.opDrop h s).1.opTcpBind h s' { ip := ip, port := loc.port }).2 = s!"ok {loc.port}")) :=
  ⟨fun stash ho => ⟨(drop_udp_frees_port w h s loc stash hh ho).2.2.2.1, (drop_udp_frees_port w h s loc stash hh ho).2.2.2.2⟩,
   fun ho => ⟨(drop_listener_frees_port w h s loc hh ho).2.2.2.1, (drop_listener_frees_port w h s loc hh ho).2.2.2.2⟩⟩

/-- a host whose two bind tables are empty accepts every explicit bind. -/
theorem binds_succeed_of_empty (w : World) (h : Nat) (hu : (w.host! h).udp = []) (ht : (w.host! h).tcpBinds = []) :
    (∀ p, udpPortUsed (w.host! h) p = false ∧ (w.host! h).tcpBinds.any (·.port == p) = false) ∧
    (∀ s ip p, bindIpOk ip = true → p ≠ 0 →
      (w.opUdpBind h s { ip := ip, port := p }).2 = s!"ok {p}" ∧ (w.opTcpBind h s { ip := ip, port := p }).2 = s!"ok {p}") := by
  have hfree : ∀ p, udpPortUsed (w.host! h) p = false ∧ (w.host! h).tcpBinds.any (·.port == p) = false := by
    intro p; unfold udpPortUsed; rw [hu, ht]; exact ⟨rfl, rfl⟩
  refine ⟨hfree, fun s ip p hip hp0 => ⟨?_, ?_⟩⟩
  · rw [opUdpBind_explicit w h s { ip := ip, port := p } hp0 hip]
    unfold udpBindCore
    simp only [(hfree p).1, Bool.false_eq_true, if_false]
  · rw [opTcpBind_explicit w h s { ip := ip, port := p } hp0 hip]
    unfold tcpBindCore
    simp only [(hfree p).2, Bool.false_eq_true, if_false]


/-- the hypotheses of the two drop theorems on `exFull`, and the rebinds. -/
example : exFull.getObj 0 0 = some (.udp ⟨.any, 10⟩ none) ∧ exFull.getObj 0 1 = some (.listener ⟨.any, 11⟩) ∧
    udpPortUsed (exFull.host! 0) 10 = true ∧
    ((exFull.opDrop 0 0).1.opUdpBind 0 3 ⟨.any, 10⟩).2 = "ok 10" ∧
    ((exFull.opDrop 0 1).1.opTcpBind 0 3 ⟨.any, 11⟩).2 = "ok 11" := ⟨rfl, rfl, by decide, by decide, by decide⟩

/-! ## 5. state invariants over every reachable world -/

/-- every reachable world is `Pres`-related to the initial one (`Proofs/C15WorldOps.lean`: every
    transition of `applyStep` is `Pres`). -/
theorem reach_pres {w0 w : World} (hr : Reach w0 w) : ∃ qs, PresQ qs w0 w := by
  induction hr with
  | init => exact ⟨[], Pres.refl w0⟩
  | step st _ ih =>
    obtain ⟨qs, hq⟩ := ih
    exact ⟨qs ++ stepQs st, hq.comp (pres_applyStep _ st)⟩

theorem Reach.trans {w0 w w' : World} (h1 : Reach w0 w) (h2 : Reach w w') : Reach w0 w' := by
  induction h2 with
  | init => exact h1
  | step st _ ih => exact Reach.step st ih

theorem portsOK_init (w0 : World) (h0 : w0.hosts = []) : PortsOK w0 := by
  intro i
  rw [host!_of_ge w0 i (by simp [h0])]
  exact ⟨List.nodup_nil, List.nodup_nil⟩

theorem rangeOK_init (w0 : World) (h0 : w0.hosts = []) (hlh : w0.cfg.ephLo ≤ w0.cfg.ephHi) : RangeOK w0 :=
  ⟨hlh, fun i hi => by simp [h0] at hi⟩

theorem pairsOK_init (w0 : World) (h0 : w0.hosts = []) : PairsOK w0 := by
  refine Or.inr (fun i => ?_)
  rw [host!_of_ge w0 i (by simp [h0])]
  exact List.Pairwise.nil

theorem host!_of_mem {w : World} {hs : Host} (hm : hs ∈ w.hosts) : ∃ i, i < w.hosts.length ∧ w.host! i = hs := by
  obtain ⟨i, hi, rfl⟩ := List.mem_iff_getElem.mp hm
  refine ⟨i, hi, ?_⟩
  unfold host!
  rw [List.getD_eq_getElem?_getD, List.getElem?_eq_getElem hi]
  rfl

/-- **UDP ports are never handed out twice while in use**: on every host of every reachable world
    the ports of the UDP bind table are pairwise distinct (also in worlds with a recorded panic). -/
theorem reach_udp_ports_nodup (w0 w : World) (h0 : w0.hosts = []) (hr : Reach w0 w) :
    ∀ hs ∈ w.hosts, (hs.udp.map (·.port)).Nodup := by
  intro hs hm
  obtain ⟨i, _, rfl⟩ := host!_of_mem hm
  obtain ⟨_, hq⟩ := reach_pres hr
  exact (hq.ports (portsOK_init w0 h0) i).1

/-- **listener ports are never handed out twice while in use.** -/
theorem reach_tcp_ports_nodup (w0 w : World) (h0 : w0.hosts = []) (hr : Reach w0 w) :
    ∀ hs ∈ w.hosts, (hs.tcpBinds.map (·.port)).Nodup := by
  intro hs hm
  obtain ⟨i, _, rfl⟩ := host!_of_mem hm
  obtain ⟨_, hq⟩ := reach_pres hr
  exact (hq.ports (portsOK_init w0 h0) i).2

/-- the same, entry by entry. -/
theorem reach_bind_ports_pairwise (w0 w : World) (h0 : w0.hosts = []) (hr : Reach w0 w) :
    ∀ hs ∈ w.hosts, hs.udp.Pairwise (fun a b => a.port ≠ b.port) ∧ hs.tcpBinds.Pairwise (fun a b => a.port ≠ b.port) :=
  fun hs hm => ⟨List.pairwise_map.mp (reach_udp_ports_nodup w0 w h0 hr hs hm),
    List.pairwise_map.mp (reach_tcp_ports_nodup w0 w h0 hr hs hm)⟩

/-- **address pairs of the stream table are pairwise distinct** in every reachable world in which no
    panic is recorded — for every configuration (`reach_socksOwned` gives it for the configuration with
    the connect-leak repair only).  The restriction to `panicked = none` is needed: `Tcp::new_stream`
    asserts that the pair is new; the model records that panic ("already connected") and goes on
    with a duplicate entry where the real code has aborted. -/
theorem reach_stream_pairs_nodup (w0 w : World) (h0 : w0.hosts = []) (hr : Reach w0 w) (hp : w.panicked = none) :
    ∀ hs ∈ w.hosts, PairsNodup hs.socks := by
  intro hs hm
  obtain ⟨i, _, rfl⟩ := host!_of_mem hm
  obtain ⟨_, hq⟩ := reach_pres hr
  rcases hq.pairs (pairsOK_init w0 h0) with hpan | hok
  · rw [hp] at hpan; cases hpan
  · exact hok i

/-- **the cursor never leaves the range** (and the configuration is never written): the hypothesis
    `InRange` of sections 1 and 2 holds in every reachable world. -/
theorem reach_cursor_inrange (w0 w : World) (h0 : w0.hosts = []) (hlh : w0.cfg.ephLo ≤ w0.cfg.ephHi)
    (hr : Reach w0 w) :
    w.cfg = w0.cfg ∧ ∀ i, i < w.hosts.length → InRange w.cfg.ephLo w.cfg.ephHi (w.host! i) := by
  obtain ⟨_, hq⟩ := reach_pres hr
  exact ⟨hq.cfg, (hq.range (rangeOK_init w0 h0 hlh)).2⟩

/-- sections 1 and 2 for reachable worlds, without a hypothesis on the state. -/
theorem reach_udp_bind0_fresh (w0 w : World) (h0 : w0.hosts = []) (hlh : w0.cfg.ephLo ≤ w0.cfg.ephHi)
    (hr : Reach w0 w) (h s : Nat) (a : Addr) (ha : a.port = 0) (hip : bindIpOk a.ip = true) (hh : h < w.hosts.length) :
    (∃ p, Assigned w h (w.opUdpBind h s a) p ∧
        ((w.opUdpBind h s a).1.host! h).udp =
          (w.host! h).udp ++ [{ port := p, bindAddr := { ip := a.ip, port := p } }] ∧
        ((w.opUdpBind h s a).1.host! h).tcpBinds = (w.host! h).tcpBinds ∧
        ((w.opUdpBind h s a).1.host! h).socks = (w.host! h).socks) ∨
    Exhaust w h (w.opUdpBind h s a) :=
  udp_bind0_fresh w h s a ha hip hh ((reach_cursor_inrange w0 w h0 hlh hr).2 h hh)

theorem reach_tcp_bind0_fresh (w0 w : World) (h0 : w0.hosts = []) (hlh : w0.cfg.ephLo ≤ w0.cfg.ephHi)
    (hr : Reach w0 w) (h s : Nat) (a : Addr) (ha : a.port = 0) (hip : bindIpOk a.ip = true) (hh : h < w.hosts.length) :
    (∃ p, Assigned w h (w.opTcpBind h s a) p ∧
        ((w.opTcpBind h s a).1.host! h).tcpBinds =
          (w.host! h).tcpBinds ++ [{ port := p, bindAddr := { ip := a.ip, port := p } }] ∧
        ((w.opTcpBind h s a).1.host! h).udp = (w.host! h).udp ∧
        ((w.opTcpBind h s a).1.host! h).socks = (w.host! h).socks) ∨
    Exhaust w h (w.opTcpBind h s a) :=
  tcp_bind0_fresh w h s a ha hip hh ((reach_cursor_inrange w0 w h0 hlh hr).2 h hh)

theorem reach_connect_port_fresh (w0 w : World) (h0 : w0.hosts = []) (hlh : w0.cfg.ephLo ≤ w0.cfg.ephHi)
    (hr : Reach w0 w) (h s : Nat) (dst : Addr) (hh : h < w.hosts.length) :
    (∃ p, ConnectAssigned w h s dst p) ∨ Exhaust w h (w.opTcpConnect h s dst) :=
  connect_port_fresh w h s dst hh ((reach_cursor_inrange w0 w h0 hlh hr).2 h hh)

/-- the object table after `opDrop`: slot `s` is gone, nothing else. -/
theorem objs_opDrop (w : World) (h s : Nat) (hh : h < w.hosts.length) :
    ((w.opDrop h s).1.host! h).objs = (w.host! h).objs.filter (·.1 != s) := by
  unfold opDrop
  cases ho : w.getObj h s with
  | none =>
    simp only
    refine (List.filter_eq_self.mpr (fun x hx => ?_)).symm
    have := slotObj_none (o := (w.host! h).objs) (s := s) ho x hx
    simpa using this
  | some o =>
    simp only
    rw [(frs_dropObj (w.delObj h s) h o).objs_eq h]
    unfold delObj
    rw [host!_setHost_self w h _ hh]

/-- **dropping a stream (or a pending connect) frees its address pair**: in a reachable world (with
    the connect-leak repair, no panic recorded) once slot `s` has been dropped, an address pair that
    no remaining socket object of the host refers to has no stream-table entry any more. -/
theorem drop_stream_frees_pair (w0 w : World) (h0 : w0.hosts = []) (hfix : w0.cfg.fixConnectLeak = true)
    (hr : Reach w0 w) (h s : Nat) (hh : h < w.hosts.length) (pr : Pair)
    (hno : avail true ((w.host! h).objs.filter (·.1 != s)) pr = 0)
    (hp : (w.opDrop h s).1.panicked = none) :
    ∀ sk ∈ ((w.opDrop h s).1.host! h).socks, pairOf sk ≠ pr := by
  have hr' : Reach w0 (w.opDrop h s).1 := Reach.step (.host h (.drop s)) hr
  have hS := reach_socksOwned_host w0 _ h0 hfix hr' hp h
  rw [reach_fix w0 _ h0 hfix hr'] at hS
  unfold SocksOwned at hS
  rw [objs_opDrop w h s hh] at hS
  intro sk hsk e
  have := hS.2 sk hsk
  rw [e, hno] at this
  omega

/-- … and with it the local port, if nothing else uses it: no UDP socket, no listener, and no
    remaining socket object refers to a pair with that local port. -/
theorem drop_stream_frees_port (w0 w : World) (h0 : w0.hosts = []) (hfix : w0.cfg.fixConnectLeak = true)
    (hr : Reach w0 w) (h s : Nat) (hh : h < w.hosts.length) (o : Obj) (ho : w.getObj h s = some o)
    (hou : udpPortOf o = none) (hol : lisPortOf o = none) (p : Nat)
    (hu : udpPortUsed (w.host! h) p = false) (hl : (w.host! h).tcpBinds.any (·.port == p) = false)
    (hno : ∀ q : Pair, q.1.port = p → avail true ((w.host! h).objs.filter (·.1 != s)) q = 0)
    (hp : (w.opDrop h s).1.panicked = none) :
    portUsed ((w.opDrop h s).1.host! h) p = false := by
  have hfree := drop_stream_frees_pair w0 w h0 hfix hr h s hh
  have hd : w.opDrop h s = ((w.delObj h s).dropObj h o, "ok") := by
    unfold opDrop; simp only [ho]
  have hl' : h < (w.delObj h s).hosts.length := by simpa [delObj, setHost] using hh
  have e1 : (w.delObj h s).host! h = { w.host! h with objs := (w.host! h).objs.filter (·.1 != s) } := by
    unfold delObj; exact host!_setHost_self w h _ hh
  have hb := dropObj_binds h (w.delObj h s) o hl'
  rw [e1] at hb
  simp only at hb
  have hb1 : ((w.opDrop h s).1.host! h).udp = (w.host! h).udp := by
    rw [hd]; show (((w.delObj h s).dropObj h o).host! h).udp = _
    rw [hb.1]; exact List.filter_eq_self.mpr (fun b _ => by simp [udpKeep, hou])
  have hb2 : ((w.opDrop h s).1.host! h).tcpBinds = (w.host! h).tcpBinds := by
    rw [hd]; show (((w.delObj h s).dropObj h o).host! h).tcpBinds = _
    rw [hb.2]; exact List.filter_eq_self.mpr (fun b _ => by simp [lisKeep, hol])
  rw [portUsed_false_iff]
  refine ⟨?_, ?_, fun sk hsk e => ?_⟩
  · rw [hb1]; intro b hb' e; exact absurd ((udpPortUsed_iff _ _).mpr ⟨b, hb', e⟩) (by rw [hu]; exact Bool.false_ne_true)
  · rw [hb2]; intro b hb' e; exact absurd ((lisPortUsed_iff _ _).mpr ⟨b, hb', e⟩) (by rw [hl]; exact Bool.false_ne_true)
  · exact hfree (pairOf sk) (hno _ e) hp sk hsk rfl

/-- on `exFull`: dropping the pending connect (slot 2, local port 12) frees port 12. -/
example : exFull.getObj 0 2 = some (.connecting 0 ⟨.lo, 12⟩ ⟨.lo, 11⟩ 0 0) ∧
    portUsed (exFull.host! 0) 12 = true ∧ (exFull.opDrop 0 2).1.panicked = none ∧
    portUsed ((exFull.opDrop 0 2).1.host! 0) 12 = false := ⟨rfl, by decide, by decide, by decide⟩

/-- **a crashed host's ports are all available again**: in every reachable world, after `crash` of a
    running host no UDP port and no listener port of it is in use and every explicit bind succeeds;
    with the connect-leak repair (and no recorded panic) the stream table is empty too, so that no
    port at all is in use (`portUsed`, what port-0 binds and connects consult). -/
theorem crash_frees_ports (w0 w : World) (h0 : w0.hosts = []) (hr : Reach w0 w) (h : Nat)
    (hh : h < w.hosts.length) (hrun : (w.host! h).running = true) :
    (∀ p, udpPortUsed ((w.crash h).host! h) p = false ∧ ((w.crash h).host! h).tcpBinds.any (·.port == p) = false) ∧
    (∀ s ip p, bindIpOk ip = true → p ≠ 0 →
      ((w.crash h).opUdpBind h s { ip := ip, port := p }).2 = s!"ok {p}" ∧
      ((w.crash h).opTcpBind h s { ip := ip, port := p }).2 = s!"ok {p}") ∧
    (w0.cfg.fixConnectLeak = true → w.panicked = none → ∀ p, portUsed ((w.crash h).host! h) p = false) := by
  obtain ⟨hu, ht⟩ := reach_crash_releases_binds w0 w h0 hr h hh hrun
  obtain ⟨a, b⟩ := binds_succeed_of_empty (w.crash h) h hu ht
  refine ⟨a, b, fun hfix hp p => ?_⟩
  have hs := reach_crash_releases_socks w0 w h0 hfix hr hp h hh hrun
  unfold portUsed udpPortUsed tcpPortUsed
  rw [hu, ht, hs]
  rfl

/-- **… and a bounced host's** (running or not). -/
theorem bounce_frees_ports (w0 w : World) (h0 : w0.hosts = []) (hr : Reach w0 w) (h : Nat)
    (hh : h < w.hosts.length) :
    (∀ p, udpPortUsed ((w.bounce h).host! h) p = false ∧ ((w.bounce h).host! h).tcpBinds.any (·.port == p) = false) ∧
    (∀ s ip p, bindIpOk ip = true → p ≠ 0 →
      ((w.bounce h).opUdpBind h s { ip := ip, port := p }).2 = s!"ok {p}" ∧
      ((w.bounce h).opTcpBind h s { ip := ip, port := p }).2 = s!"ok {p}") ∧
    (w0.cfg.fixConnectLeak = true → w.panicked = none → ∀ p, portUsed ((w.bounce h).host! h) p = false) := by
  obtain ⟨hu, ht⟩ := reach_bounce_releases_binds w0 w h0 hr h hh
  obtain ⟨a, b⟩ := binds_succeed_of_empty (w.bounce h) h hu ht
  refine ⟨a, b, fun hfix hp p => ?_⟩
  have hs := reach_bounce_releases_socks w0 w h0 hfix hr hp h hh
  unfold portUsed udpPortUsed tcpPortUsed
  rw [hu, ht, hs]
  rfl


/-- the reachable world `exFull` has non-empty tables; the theorems of this section apply to it. -/
example : ∀ hs ∈ exFull.hosts, (hs.udp.map (·.port)).Nodup := reach_udp_ports_nodup exW exFull rfl exFull_reach
example : ∀ hs ∈ exFull.hosts, PairsNodup hs.socks := reach_stream_pairs_nodup exW exFull rfl exFull_reach (by decide)
example : ∀ i, i < exFull.hosts.length → InRange exFull.cfg.ephLo exFull.cfg.ephHi (exFull.host! i) :=
  (reach_cursor_inrange exW exFull rfl (by decide) exFull_reach).2
example : Exhaust exFull 0 (exFull.opUdpBind 0 3 ⟨.any, 0⟩) := by
  rcases reach_udp_bind0_fresh exW exFull rfl (by decide) exFull_reach 0 3 ⟨.any, 0⟩ rfl rfl (by decide) with ⟨p, hp, _⟩ | hx
  · have e : (exFull.opUdpBind 0 3 ⟨.any, 0⟩).2 = "panic" := by decide
    exact absurd (hp.result.symm.trans e) (okp_ne_panic p)
  · exact hx
example : ∀ p, portUsed ((exFull.crash 0).host! 0) p = false :=
  (crash_frees_ports exW exFull rfl exFull_reach 0 (by decide) (by decide)).2.2 rfl (by decide)
example : ∀ p, portUsed ((exFull.bounce 0).host! 0) p = false :=
  (bounce_frees_ports exW exFull rfl exFull_reach 0 (by decide)).2.2 rfl (by decide)

/-- without the connect-leak repair (F-C12-1, repaired in the crate) the last clause of
    `crash_frees_ports` has no analogue even for a plain drop: a refused connect leaves its
    stream-table entry behind, so port 10 stays "in use" for port-0 binds and connects although no
    socket object exists any more; with the repair the entry is gone. -/
def exLeakSteps : List Step :=
  [ .register 1 false, .host 0 (.tcpConnect 0 ⟨.lo, 99⟩), .loDeliver 0 0, .host 0 (.tcpCPoll 0) ]
example : let w := exLeakSteps.foldl applyStep { cfg := { ephLo := 10, ephHi := 12 } }
    (w.host! 0).objs.length = 0 ∧ portUsed (w.host! 0) 10 = true := by decide
example : let w := exLeakSteps.foldl applyStep exW
    (w.host! 0).objs.length = 0 ∧ portUsed (w.host! 0) 10 = false := by decide

/-! ## 6. DNS at World level

  `World.dnsLookup` is what `Sim::lookup`, `turmoil::lookup` inside host code and host registration
  use.  Which transitions write the name table?  Only the two that are lookups: the controller's
  `Step.dns name` and the host call `HOp.lookup name` (`stepQs`); every other transition leaves `dns`
  (and the address family `v6`) exactly as it was. -/

theorem step_dns (w : World) (st : Step) :
    (applyStep w st).dns = w.dns.run (stepQs st) ∧ (applyStep w st).v6 = w.v6 :=
  ⟨(pres_applyStep w st).dns, (pres_applyStep w st).v6⟩

theorem stepQs_ne_nil_iff (st : Step) :
    stepQs st ≠ [] ↔ (∃ n, st = .dns n) ∨ (∃ h n, st = .host h (.lookup n)) := by
  constructor
  · intro hne
    cases st with
    | dns n => exact Or.inl ⟨n, rfl⟩
    | host h op =>
      cases op with
      | lookup n => exact Or.inr ⟨h, n, rfl⟩
      | _ => exact absurd rfl hne
    | _ => exact absurd rfl hne
  · rintro (⟨n, rfl⟩ | ⟨h, n, rfl⟩) <;> exact fun e => nomatch e

/-- every transition that is not a lookup leaves the name table untouched. -/
theorem step_dns_unchanged (w : World) (st : Step) (h1 : ∀ n, st ≠ .dns n) (h2 : ∀ h n, st ≠ .host h (.lookup n)) :
    (applyStep w st).dns = w.dns := by
  have : stepQs st = [] := by
    apply Classical.byContradiction
    intro hne
    rcases (stepQs_ne_nil_iff st).mp hne with ⟨n, e⟩ | ⟨h, n, e⟩
    · exact h1 n e
    · exact h2 h n e
  rw [(step_dns w st).1, this]; rfl

/-- **the name table of a reachable world is the initial one after a sequence of lookups**, and the
    address family never changes. -/
theorem reach_dns {w0 w : World} (hr : Reach w0 w) : ∃ qs, w.dns = w0.dns.run qs ∧ w.v6 = w0.v6 := by
  obtain ⟨qs, hq⟩ := reach_pres hr
  exact ⟨qs, hq.dns, hq.v6⟩

/-- … hence well-formed in every world reachable from one with a well-formed (e.g. empty) table. -/
theorem reach_dns_wf {w0 w : World} (hd : DnsWF w0.dns) (hr : Reach w0 w) : DnsWF w.dns := by
  obtain ⟨qs, hq⟩ := reach_pres hr
  exact hq.dnsWF hd

theorem dnsWF_empty : DnsWF (({} : World).dns) := wf_init

/-- **stable**: once a name has been looked up, looking it up in any later reachable world returns
    the same address. -/
theorem dns_stable (w w' : World) (hd : DnsWF w.dns) (name : String) (hr : Reach (w.dnsLookup name).2 w') :
    (w'.dnsLookup name).1 = (w.dnsLookup name).1 := by
  obtain ⟨qs, hq, hv⟩ := reach_dns hr
  show ipOfCounter w'.v6 (w'.dns.lookup name).1 = ipOfCounter w.v6 (w.dns.lookup name).1
  rw [hv, hq]
  show ipOfCounter w.v6 ((((w.dns.lookup name).2.run qs).lookup name).1) = _
  rw [lookup_stable hd name qs]

/-- the address split is injective below the wrap of the counter (2^16 names for v4, 2^64 for v6). -/
def dnsBound (v6 : Bool) : Nat := if v6 then 2 ^ 64 else 65536

theorem ipOfCounter_v4 (n : Nat) : ipOfCounter false n = 3232235520 + (n / 256 % 256) * 256 + n % 256 := rfl
theorem ipOfCounter_v6 (n : Nat) :
    ipOfCounter true n = 0xfe80 * 2 ^ 112 + (n / 2 ^ 48 % 65536) * 2 ^ 48 + (n / 2 ^ 32 % 65536) * 2 ^ 32 +
      (n / 2 ^ 16 % 65536) * 2 ^ 16 + n % 65536 := rfl

theorem ipOfCounter_injective (v6 : Bool) (n m : Nat) (hn : n < dnsBound v6) (hm : m < dnsBound v6)
    (h : ipOfCounter v6 n = ipOfCounter v6 m) : n = m := by
  cases v6 with
  | false =>
    have hn' : n < 65536 := hn
    have hm' : m < 65536 := hm
    rw [ipOfCounter_v4, ipOfCounter_v4] at h
    omega
  | true =>
    have hn' : n < 2 ^ 64 := hn
    have hm' : m < 2 ^ 64 := hm
    rw [ipOfCounter_v6, ipOfCounter_v6] at h
    omega

theorem lookup_next_le {α : Type} [DecidableEq α] (d : Dns α) (q : α) : (d.lookup q).2.next ≤ d.next + 1 := by
  unfold Dns.lookup
  split
  · exact Nat.le_succ _
  · exact Nat.le_refl _

/-- **distinct**: a name looked up in `w` and a different name looked up in a later reachable world
    `w'` get different addresses (as long as the counter has not wrapped: fewer than 2^16 names in a
    v4 simulation, 2^64 in a v6 one — `ip.rs` truncates the counter in the same way). -/
theorem dns_distinct (w w' : World) (hd : DnsWF w.dns) (n1 n2 : String) (hne : n1 ≠ n2)
    (hr : Reach (w.dnsLookup n1).2 w') (hb : w'.dns.next + 1 ≤ dnsBound w'.v6) :
    (w'.dnsLookup n2).1 ≠ (w.dnsLookup n1).1 := by
  obtain ⟨qs, hq⟩ := reach_pres hr
  have hw1 : DnsWF (w.dnsLookup n1).2.dns := wf_lookup hd n1
  have hw' : DnsWF w'.dns := hq.dnsWF hw1
  have hw2 : DnsWF (w'.dns.lookup n2).2 := wf_lookup hw' n2
  have m1 : (n1, (w.dns.lookup n1).1) ∈ (w'.dns.lookup n2).2.names :=
    mem_lookup n2 _ (hq.dnsLe _ (lookup_mem w.dns n1))
  have m2 : (n2, (w'.dns.lookup n2).1) ∈ (w'.dns.lookup n2).2.names := lookup_mem w'.dns n2
  have hv := distinct hw2 n1 n2 _ _ m1 m2 hne
  have hle := lookup_next_le w'.dns n2
  have b1 := hw2.lt _ m1
  have b2 := hw2.lt _ m2
  have ev : w'.v6 = w.v6 := hq.v6
  intro e
  apply hv
  apply ipOfCounter_injective w'.v6 _ _ (by simp only at b1; omega) (by simp only at b2; omega)
  have e' : ipOfCounter w'.v6 (w'.dns.lookup n2).1 = ipOfCounter w.v6 (w.dns.lookup n1).1 := e
  rw [e', ev]

/-- `Sim::host` / `Sim::client` (and the driver's `reg` / `reglate`): the name is looked up and the
    host is registered with the address the lookup returned — two transitions of `applyStep`. -/
def registerNamed (w : World) (name : String) (isClient : Bool) : World :=
  applyStep (applyStep w (.dns name)) (.register (w.dnsLookup name).1 isClient)

theorem Reach.registerNamed {w0 w : World} (hr : Reach w0 w) (name : String) (c : Bool) :
    Reach w0 (registerNamed w name c) := Reach.step _ (Reach.step _ hr)

/-- **registration uses the address DNS gave the name**: the new host is host number
    `w.hosts.length`, its address is what the lookup returned, the other hosts are untouched. -/
theorem register_uses_dns (w : World) (name : String) (c : Bool) :
    (registerNamed w name c).hosts.length = w.hosts.length + 1 ∧
    ((registerNamed w name c).host! w.hosts.length).ipnum = (w.dnsLookup name).1 ∧
    (∀ i, i < w.hosts.length → (registerNamed w name c).host! i = w.host! i) := by
  have e : registerNamed w name c = (w.dnsLookup name).2.register (w.dnsLookup name).1 c := rfl
  have hl : (w.dnsLookup name).2.hosts = w.hosts := rfl
  refine ⟨by rw [e]; simp [register, hl], ?_, fun i hi => ?_⟩
  · rw [e, host!_register, hl]; simp
  · rw [e, host!_register, hl]; simp only [hi, if_true]; rfl

/-- … and it stays that way: in every later reachable world that host still has that address and
    the name still resolves to it. -/
theorem registered_address_stable (w w' : World) (hd : DnsWF w.dns) (name : String) (c : Bool)
    (hr : Reach (registerNamed w name c) w') :
    (w'.host! w.hosts.length).ipnum = (w.dnsLookup name).1 ∧ (w'.dnsLookup name).1 = (w.dnsLookup name).1 := by
  obtain ⟨hl, hip, _⟩ := register_uses_dns w name c
  obtain ⟨qs, hq⟩ := reach_pres hr
  refine ⟨(hq.ipnum _ (by omega)).trans hip, ?_⟩
  have hr' : Reach (w.dnsLookup name).2 w' :=
    Reach.trans (Reach.step (.register (w.dnsLookup name).1 c) Reach.init) hr
  exact dns_stable w w' hd name hr'

/-- **hosts registered under different names have different addresses**, in every later world
    (below the wrap of the counter). -/
theorem registered_hosts_distinct (w w' w'' : World) (hd : DnsWF w.dns) (n1 n2 : String) (c1 c2 : Bool)
    (hne : n1 ≠ n2) (hr : Reach (registerNamed w n1 c1) w') (hb : w'.dns.next + 1 ≤ dnsBound w'.v6)
    (hr' : Reach (registerNamed w' n2 c2) w'') :
    (w''.host! w.hosts.length).ipnum ≠ (w''.host! w'.hosts.length).ipnum := by
  have hd' : DnsWF w'.dns := reach_dns_wf hd (Reach.trans (Reach.registerNamed Reach.init n1 c1) hr)
  have s1 := (registered_address_stable w w'' hd n1 c1
    (Reach.trans hr (Reach.trans (Reach.registerNamed Reach.init n2 c2) hr'))).1
  have s2 := (registered_address_stable w' w'' hd' n2 c2 hr').1
  rw [s1, s2]
  have hr1 : Reach (w.dnsLookup n1).2 w' :=
    Reach.trans (Reach.step (.register (w.dnsLookup n1).1 c1) Reach.init) hr
  exact (dns_distinct w w' hd n1 n2 hne hr1 hb).symm

/-- two hosts registered by name on the empty world: 192.168.0.1 and 192.168.0.2; the hypotheses of
    the theorems of this section hold there. -/
example : ((registerNamed exW "a" false).host! 0).ipnum = 3232235521 ∧
    ((registerNamed (registerNamed exW "a" false) "b" true).host! 1).ipnum = 3232235522 ∧
    (registerNamed exW "a" false).dns.next + 1 ≤ dnsBound (registerNamed exW "a" false).v6 ∧
    ((registerNamed exW "a" false).dnsLookup "a").1 = 3232235521 := by decide
example : DnsWF exW.dns := wf_init
example : ((registerNamed (registerNamed exW "a" false) "b" true).host! 0).ipnum ≠
    ((registerNamed (registerNamed exW "a" false) "b" true).host! 1).ipnum :=
  registered_hosts_distinct exW (registerNamed exW "a" false) _ wf_init "a" "b" false true (by decide)
    Reach.init (by decide) Reach.init

end TV.C15
