import TvCore.Proofs.C04LateLemmas
import TvCore.Props.C04Reach
import TvCore.Props.C04Notify
import TvCore.Props.LinksWorld
import TvCore.Proofs.C15WorldOps
/-
  C04 — while the host is down, and the first thing that happens after `bounce`.

  "… none of its code runs and it causes no further observable effect until it is bounced … connection
  attempts and datagrams that reach the host while it is down may stay pending until it is bounced, when
  they must be refused, reset or dropped rather than handed to the new incarnation as if nothing happened.
  Sim::bounce starts the host's software exactly once per call on a fresh runtime, and crashing or bouncing
  one host never disturbs the tasks, sockets, filesystem or clock of any other host."

  The theorems are about runs of the step alphabet the replay driver executes (`Model/Step.lean`;
  `LW.run`, `LW.trail`), from worlds reachable from an empty one (`Reach`).

  1. `down_host_silent` (+ `down_host_tables`, `loopback_sources_own`): over every run of steps that are not the down host's own
     (`SilentAt h`) its record is untouched but for the timer, and no message with its ip number as source
     is put on any link.  Helpers: every step writes no host but its actor (`only_actor`,
     `Proofs/C04LateOnly.lean`); host calls and destructors of host `g` only enqueue with `g`'s own number
     (`lrq_applyHOp`, from the local-address invariant `LocOK`, `Proofs/C04LateLoc.lean`, `C04LateSend.lean`);
     RST replies of a turn go out from the receiving end point (`drain_dst`, link invariants `AllDir`, `QInv`
     for every model variant and operation, `Proofs/C04LateLinks.lean`); `step_link_quiet`, `quiet_run`.
  2. `down_host_mail_waits`, `down_host_mail_matures_and_waits` (for an ip number: `ready_mail_waits`,
     `mail_matures_and_waits`): what matures for the host while it is down stays in the link's ready queue
     towards it — once, handed to nobody — until `turn h`.
  3. `bounce_meets_empty_tables`: at the first turn after `bounce` every envelope handed over meets empty
     tables (`receive_on_empty`: dropped / refused / RST / ignored), no host is written, and this happens
     before any operation of the new incarnation.
  4. `bounce_frame_full`, `bounce_frame_fields`: the frame of `crash` / `bounce` for every field of every
     other host and the world's clocks.

  ## what `Sim::step`, `Sim::crash`, `Sim::bounce` do (crates/turmoil/src/sim.rs, rt.rs)

  * `Sim::step` partitions `self.rts` by `rt.is_software_running()` (`handle.is_some()`).  For the running
    ones, in order: `topology.deliver_messages(rng, host)`, set `current`, `timer.now(rt.now())`, then
    `rt.tick(tick)`.  For the stopped ones only `world.tick(addr, tick)` (the `HostTimer`).  So for a crashed
    host there is no `turn h` (no `deliver_messages`), and none of its code or loopback tasks runs (its
    `Runtime` and `LocalSet` were dropped by `Rt::crash` → `cancel_tasks`): the excluded steps of clause 1.
    The replay driver checks the hosts that took a turn against `runningOrder` (filter on `running`).
  * `Rt::bounce`: `cancel_tasks()`, then `with(&tokio, &local, || spawn_local(software()))` where
    `with = tokio.block_on(local.run_until(async { f() }))`.  `RunUntil::poll` polls the given future
    first and returns as soon as it is ready — without ticking the `LocalSet`.  So the software future is
    only SPAWNED inside `bounce`; its first poll is in `rt.tick` of the next `Sim::step`, which is preceded,
    in the same loop iteration, by `deliver_messages` for that host.  Hence the order of clause 3: the
    turn's delivery comes before the first operation of the new incarnation, and meets empty tables
    (`Drop` of the old sockets emptied them).  Clause 3 holds in the crate on every schedule `Sim::step` can
    produce.  What DOES run inside `bounce` is the software factory `software()` — the body of the user's
    `Fn() -> Fut` closure, for the usual `|| async { … }` nothing at all.  A factory that binds a socket
    synchronously (all of turmoil's bind functions are `async fn`, so it would have to drive the future by
    hand) would have its bind in place before the first delivery; the model has no step for factory code
    (`bounce` creates no object: `bounce_objs`), and the last example of section 5 shows that the hypothesis
    "no operation of `h` before its first turn" of clause 3 cannot be dropped in the model's step alphabet.
  * `send_loopback` (net/tcp/stream.rs) returns early when `Handle::try_current()` fails — the drop path of
    `crash` / `bounce`.  The model's `sendLoopback` has no such test: after `bounce` of a RUNNING host the
    model's loopback queue of the new incarnation may hold the FINs the old incarnation's own streams sent to
    each other (`exLoop`, section 5); the crate spawns no delivery there (at most onto the runtime that is
    being dropped): nothing of it is ever delivered.  Harmless for the property (such a
    FIN meets no socket), but a difference between model and crate; `bounce_lo_of_down` states the empty
    queue for the case in which they agree (the host was down).
-/
namespace TV.C04
open TV TV.World TV.LW TV.C09

/-! ## 1. a host that is down is silent -/

theorem reach_worldOK (w0 w : World) (h0 : w0.hosts = []) (hl0 : w0.links = []) (hr : Reach w0 w) : WorldOK w := by
  induction hr with
  | init => exact worldOK_init w0 h0 hl0
  | step st _ ih => exact worldOK_step _ st ih

/-- **C04, "no further observable effect".**  `w` is any reachable world in which host `h` is down
    (`running = false`: crashed, or its software has returned).  `sts` is any sequence of the steps that can
    occur while it stays down (`SilentAt h`): everything EXCEPT
    * `turn h` — `Sim::step` partitions the runtimes by `is_software_running()` and runs
      `deliver_messages` / `rt.tick` only for the running ones (the replay driver checks the set of hosts
      that took a turn against `runningOrder`, which filters on `running`);
    * `host h op` — a call made by `h`'s code: its runtime and `LocalSet` were dropped by `crash`, its tasks
      with them, and nothing polls a crashed host;
    * `loDeliver h i` — the body of a loopback task `h` spawned: same runtime, gone;
    * `bounce h` — which ends the down time;
    (turns are turns of registered hosts; `crash h` is allowed — crashing a crashed host does nothing).
    The hosts registered by the end of the run have pairwise different ip numbers.  Then
    * **none of `h`'s tables changes**: the whole record of `h` is what it was — bind tables, stream table,
      socket objects, loopback queue, address, port cursor, runtime clock — except that its `HostTimer`
      advanced by one tick per completed step (`Sim::step` ticks the stopped hosts' timers too) and the
      `exited` flag is cleared by the end of a step;
    * **no message from `h` is put on any link**: every message whose source is `h`'s ip number (`Sent.src`,
      the number `send_message` resolved the envelope's source address to) that is on a link at the end was
      on that link at the beginning — the same message, only its delivery status may differ; a link created
      meanwhile (`register`) carries none;
    * **nor on its loopback queue** (part of the first clause, restated; for the queues of the OTHER hosts see
      `loopback_sources_own`).
    (Membership level; a message is not duplicated either: message numbers on a link are distinct in every
    run, `LW.never_duplicated`.) -/
theorem down_host_silent (w0 w : World) (h0 : w0.hosts = []) (hl0 : w0.links = []) (hr : Reach w0 w)
    (h : Nat) (hh : h < w.hosts.length) (hdown : (w.host! h).running = false) (sts : List Step)
    (hq : ∀ p ∈ trail w sts, SilentAt h p.1 p.2) (hd : IpsDistinct (run w sts)) :
    (SameButTimer (w.host! h) ((run w sts).host! h) ∧ ((run w sts).host! h).running = false ∧
      ((run w sts).host! h).elapsed = (w.host! h).elapsed + endsIn sts * w.cfg.tick) ∧
    (∀ (li : Nat) (l' : Link Env), (run w sts).links[li]? = some l' → ∀ x, OnLink l' x → x.src = (w.host! h).ipnum →
      ∃ l, w.links[li]? = some l ∧ ∃ x0, OnLink l x0 ∧ noStatus x0 = noStatus x) ∧
    ((run w sts).host! h).lo = (w.host! h).lo := by
  have hsil : ∀ st ∈ sts, Silent h st := by
    intro st hst
    have key : ∀ (sts : List Step) (w : World), (∀ p ∈ trail w sts, SilentAt h p.1 p.2) → ∀ st ∈ sts, Silent h st := by
      intro sts
      induction sts with
      | nil => intro _ _ st hst; cases hst
      | cons s ss ih =>
        intro w hq st hst
        rcases List.mem_cons.mp hst with rfl | hst
        · exact (hq (w, st) (by simp [trail])).silent
        · exact ih (applyStep w s) (fun p hp => hq p (by simp [trail, hp])) st hst
    exact key sts w hq st hst
  obtain ⟨d1, d2, d3, _⟩ := down_run w sts h hh hdown hsil
  exact ⟨⟨d1, d2, d3⟩, quiet_run h sts w (reach_worldOK w0 w h0 hl0 hr) hh hdown hq hd, d1.fields.2.2.2.2.1⟩

theorem reach_loOK (w0 w : World) (h0 : w0.hosts = []) (hr : Reach w0 w) : LocOK w ∧ LoOK w := by
  induction hr with
  | init => exact ⟨locOK_init w0 h0, loOK_init w0 h0⟩
  | step st _ ih => exact ⟨locOK_applyStep _ st ih.1, loOK_applyStep _ st ih.1 ih.2⟩

/-- **… and no envelope with `h`'s source address sits in any other host's loopback queue — ever.**  In every
    reachable world every envelope waiting in a host's loopback queue carries a source address of THAT host
    (its own address or loopback): a loopback queue is written only by its own host's code (`only_actor`),
    with envelopes built from its own socket objects (`LocOK`).  Together with `down_host_silent` (the down
    host's own queue does not change): while `h` is down no envelope with source host `h` is added to any
    loopback queue. -/
theorem loopback_sources_own (w0 w : World) (h0 : w0.hosts = []) (hr : Reach w0 w) (g : Nat) (e : Env)
    (he : e ∈ (w.host! g).lo) :
    (e.src.ip = .host g ∨ e.src.ip = .lo) ∧ ∀ h, h ≠ g → e.src.ip ≠ .host h := by
  have ho : OwnIp g e.src := (reach_loOK w0 w h0 hr).2 g e he
  refine ⟨ho, fun h hne hc => ?_⟩
  rcases ho with e1 | e1
  · rw [e1] at hc
    exact hne (Ip.host.inj hc).symm
  · rw [e1] at hc
    cases hc

/-- … read off for the tables and the clock fields one by one. -/
theorem down_host_tables (w0 w : World) (h0 : w0.hosts = []) (hl0 : w0.links = []) (hr : Reach w0 w)
    (h : Nat) (hh : h < w.hosts.length) (hdown : (w.host! h).running = false) (sts : List Step)
    (hq : ∀ p ∈ trail w sts, SilentAt h p.1 p.2) (hd : IpsDistinct (run w sts)) :
    tablesOf ((run w sts).host! h) = tablesOf (w.host! h) ∧ ((run w sts).host! h).ipnum = (w.host! h).ipnum ∧
    ((run w sts).host! h).nextEph = (w.host! h).nextEph ∧ ((run w sts).host! h).winStart = (w.host! h).winStart ∧
    ((run w sts).host! h).hnow = (w.host! h).hnow ∧ ((run w sts).host! h).wake = (w.host! h).wake ∧
    ((run w sts).host! h).t0 = (w.host! h).t0 ∧ ((run w sts).host! h).startOffset = (w.host! h).startOffset := by
  obtain ⟨⟨d1, _, _⟩, _, _⟩ := down_host_silent w0 w h0 hl0 hr h hh hdown sts hq hd
  obtain ⟨f1, f2, f3, f4, f5, _, f7, f8, f9, f10, f11, f12, f13, _⟩ := d1.fields
  refine ⟨?_, f7, f8, f10, f11, f12, f13, f9⟩
  unfold tablesOf
  rw [f1, f2, f3, f4, f5]

/-! ## 2. mail for a host that is down waits on the link -/

/-- **ready mail waits for its end point** (stated for an ip number; `down_host_mail_waits` below is the
    statement for a host that is down).  Link `li` (message numbers distinct: `IdsOK`, an invariant of every run — `LW.never_duplicated`), a
    message `x` that is ready for the end point with ip number `n` (`inQueue`: it has matured and sits in
    the ready queue of its destination; `Receiver`: that destination is `n`).  Over EVERY sequence of steps
    in which no host with ip number `n` takes a turn — as while that host is down: `Sim::step` runs
    `deliver_messages` only for the hosts whose software is running — and, on a link that carries the
    repair of F-C08-1 / F-C03-2, no `hold` / `partition` towards `n` recalls or discards it:
    * `x` is still in that ready queue (`inQueue`; `x ∈ (l'.drain n).2` = what the next turn of `n` takes);
    * it is there exactly once (its number occurs once among the numbers on the link) — not duplicated;
    * it has not been handed to anybody (`handedOn`: everything the link handed to hosts during the run) —
      not lost to another host, not delivered early;
    * and the next turn of a host with ip number `n` hands it over (`handed … (.turn g)`). -/
theorem ready_mail_waits (w : World) (li n : Nat) (l : Link Env) (x : Sent Env)
    (hl : w.links[li]? = some l) (hid : IdsOK l []) (hx : inQueue l x) (hr : Receiver l x n) (sts : List Step)
    (hno : ∀ p ∈ trail w sts, ∀ g, p.2 = .turn g → (p.1.host! g).ipnum ≠ n)
    (hsafe : l.fixMatured = true → ∀ p ∈ trail w sts, ¬ LinksWorld.RecallsOn p.1 li p.2) :
    ∃ l', (run w sts).links[li]? = some l' ∧ inQueue l' x ∧ Receiver l' x n ∧ x ∈ (l'.drain n).2 ∧
      (C08.ids l').count x.id = 1 ∧ x.id ∉ (handedOn li w sts).map (·.id) ∧ x ∉ handedOn li w sts ∧
      IdsOK l' (handedOn li w sts) ∧
      ∀ g, ((run w sts).host! g).ipnum = n → x ∈ handed (run w sts) li (.turn g) := by
  obtain ⟨l', h1, h2, h3, h4, h5, h6⟩ := run_inv li w
    (fun _ l' H => IdsOK l' H ∧ l'.a = l.a ∧ l'.b = l.b ∧ l'.fixMatured = l.fixMatured ∧ inQueue l' x)
    (fun w st => (∀ g, st = .turn g → (w.host! g).ipnum ≠ n) ∧ (l.fixMatured = true → ¬ LinksWorld.RecallsOn w li st))
    (fun w' st lk ops H _ _ hA hlk hst _ hj => by
      obtain ⟨j1, j2, j3, jf, j4⟩ := hj
      have hab := grun_ab w'.cfg.link lk ops
      have hout := stepOps_out w'.cfg.link w' li lk ops st hlk hst
      have hids := idsOK_grun w'.cfg.link j1 ops
      rw [hout] at hids
      refine ⟨hids, hab.1.trans j2, hab.2.trans j3, (grun_flag _ _ _).trans jf, ?_⟩
      rcases LW.waits_grun w'.cfg.link j4 ops
        (fun hf => LinksWorld.noRecall_step w' st li lk ops hst (hA.2 (jf ▸ hf))) with k | k
      · exact k
      · exfalso
        rw [hout] at k
        cases st with
        | turn g =>
          have hk : x ∈ (lk.drain (w'.host! g).ipnum).2 := by
            have : x ∈ handedAt w' li (w'.host! g).ipnum := k
            unfold handedAt at this
            rw [hlk] at this
            exact this
          have hrk : Receiver lk x n := LinksWorld.receiver_congr j2 j3 x n hr
          exact drain_other (List.nodup_append.mp j1.nodup).1 j4 hrk (hA.1 g rfl) hk
        | _ => cases k)
    sts l hl (fun p hp => ⟨hno p hp, fun hf => hsafe hf p hp⟩) ⟨hid, rfl, rfl, rfl, hx⟩
  have hr' : Receiver l' x n := LinksWorld.receiver_congr h3 h4 x n hr
  have hmem : x.id ∈ C08.ids l' := by
    unfold C08.ids
    refine List.mem_map.mpr ⟨x, ?_, rfl⟩
    rcases h6 with ⟨_, q⟩ | ⟨_, q⟩
    · exact List.mem_append_left _ (List.mem_append_right _ q)
    · exact List.mem_append_right _ q
  have hnd := List.nodup_append.mp h2.nodup
  have hnot : x.id ∉ (handedOn li w sts).map (·.id) := fun hc => hnd.2.2 x.id hmem x.id hc rfl
  refine ⟨l', h1, h6, hr', drain_receiver h6 hr', ?_, hnot, fun hc => hnot (List.mem_map.mpr ⟨x, hc, rfl⟩), h2, ?_⟩
  · have h0 := List.nodup_iff_count.mp hnd.1 x.id
    have h1' := List.count_pos_iff.mpr hmem
    omega
  · intro g hg
    show x ∈ handedAt (run w sts) li ((run w sts).host! g).ipnum
    unfold handedAt
    rw [h1, hg]
    exact drain_receiver h6 hr'

/-- **mail in flight matures into the ready queue and waits there** (for an ip number;
    `down_host_mail_matures_and_waits` is the statement for a host that is down).  `x` is in flight on link `li` with deadline `T` (clocks in step, ready queues matured,
    numbers distinct — the three invariants of every run —, no failure coin in the oracle queue).  `sts1`:
    any steps without a controller call on the link, the clock still before `T` at their end; then the
    `stepBegin` whose tick reaches `T`; then `sts2`: any steps in which no host with ip number `n` (the
    destination's) takes a turn and nothing recalls the ready queue.  Then `x` was handed to nobody during
    the whole run, and at its end it waits — exactly once — in the ready queue towards `n`, where the next
    turn of that host finds it. -/
theorem mail_matures_and_waits (w : World) (li n : Nat) (l : Link Env) (x : Sent Env) (T : Nat)
    (hl : w.links[li]? = some l) (hm : Matured l) (hclk : l.now = w.now) (hid : IdsOK l [])
    (hx : x ∈ l.sent) (hs : x.status = .after T) (hnf : NoFailCoin w) (hr : Receiver l x n)
    (sts1 sts2 : List Step) (hq : ∀ p ∈ trail w sts1, ¬ LinksWorld.CtlOn p.1 li p.2)
    (hbefore : (run w sts1).now < T) (hreach : T ≤ (run w sts1).now + ceilMs w.cfg.tick)
    (hno : ∀ p ∈ trail (run w (sts1 ++ [.stepBegin])) sts2, ∀ g, p.2 = .turn g → (p.1.host! g).ipnum ≠ n)
    (hsafe : l.fixMatured = true → ∀ p ∈ trail (run w (sts1 ++ [.stepBegin])) sts2, ¬ LinksWorld.RecallsOn p.1 li p.2) :
    ∃ l', (run w (sts1 ++ [.stepBegin] ++ sts2)).links[li]? = some l' ∧ inQueue l' x ∧ x ∈ (l'.drain n).2 ∧
      (C08.ids l').count x.id = 1 ∧ x ∉ handedOn li w (sts1 ++ [.stepBegin] ++ sts2) ∧
      ∀ g, ((run w (sts1 ++ [.stepBegin] ++ sts2)).host! g).ipnum = n →
        x ∈ handed (run w (sts1 ++ [.stepBegin] ++ sts2)) li (.turn g) := by
  obtain ⟨l1, e1, x1, _, _, early⟩ := LinksWorld.not_delivered_early w li l x T hl hm hclk hx hs hnf sts1 hq hbefore
  obtain ⟨l1', e1', a1, b1, f1⟩ := LinksWorld.run_ends w li l hl sts1
  rw [e1] at e1'; cases e1'
  have hcfg1 := LinksWorld.run_cfg w sts1
  obtain ⟨l2, e2, q2, a2, b2⟩ := LinksWorld.matures_at_tick (run w sts1) li l1 x T e1 x1 hs (by rw [hcfg1]; exact hreach)
  have e2' : (run w (sts1 ++ [.stepBegin])).links[li]? = some l2 := by rw [run_append]; exact e2
  obtain ⟨_, l2', e2'', i2⟩ := LinksWorld.never_duplicated w li l hl hid (sts1 ++ [.stepBegin])
  rw [e2'] at e2''; cases e2''
  have f2 : l2.fixMatured = l.fixMatured := by
    obtain ⟨l2b, e2b, _, _, f2'⟩ := LinksWorld.run_ends w li l hl (sts1 ++ [.stepBegin])
    rw [e2'] at e2b; cases e2b; exact f2'
  have hr2 : Receiver l2 x n := LinksWorld.receiver_congr (a2.trans a1) (b2.trans b1) x n hr
  obtain ⟨l3, e3, q3, _, d3, c3, _, n3, _, t3⟩ := ready_mail_waits (run w (sts1 ++ [.stepBegin])) li n l2 x e2'
    (IdsOK.forget i2) q2 hr2 sts2 hno (fun hf => hsafe (f2 ▸ hf))
  refine ⟨l3, by rw [run_append]; exact e3, q3, d3, c3, ?_, fun g hg => ?_⟩
  · rw [handedOn_append, handedOn_append]
    intro hc
    rcases List.mem_append.mp hc with hc | hc
    · rcases List.mem_append.mp hc with hc | hc
      · exact (early x hc).2 rfl
      · simp [handedOn, handed] at hc
    · exact n3 hc
  · have := t3 g (by rw [← run_append]; exact hg)
    rw [← run_append] at this
    exact this

/-- **C04, envelopes that have matured for a host that is down wait in the link's ready queue towards it.**
    Host `h` is registered; message `x` on link `li` is ready for `h` (`inQueue`: matured, in the ready queue
    of its destination; `Receiver`: that destination is `h`'s ip number); the link's message numbers are
    distinct (`IdsOK`, an invariant of every run).  `sts`: any steps that can occur while `h` is down
    (`SilentAt h`: no `turn h` — `Sim::step` calls `deliver_messages` only for running hosts —, no code of
    `h`, no `bounce h`), the registered hosts having pairwise different ip numbers; on a link with the
    repair of F-C08-1 / F-C03-2, no `hold` / `partition` that recalls or discards ready messages.  Then at
    the end `x` is still in that ready queue, exactly once (not duplicated), it has been handed to nobody
    (not lost), and `turn h` — the first thing that happens to `h` after `bounce` — hands it over. -/
theorem down_host_mail_waits (w : World) (h li : Nat) (l : Link Env) (x : Sent Env) (hh : h < w.hosts.length)
    (hl : w.links[li]? = some l) (hid : IdsOK l []) (hx : inQueue l x) (hr : Receiver l x (w.host! h).ipnum)
    (sts : List Step) (hq : ∀ p ∈ trail w sts, SilentAt h p.1 p.2) (hd : IpsDistinct (run w sts))
    (hsafe : l.fixMatured = true → ∀ p ∈ trail w sts, ¬ LinksWorld.RecallsOn p.1 li p.2) :
    ∃ l', (run w sts).links[li]? = some l' ∧ inQueue l' x ∧ x ∈ (l'.drain (w.host! h).ipnum).2 ∧
      (C08.ids l').count x.id = 1 ∧ x.id ∉ (handedOn li w sts).map (·.id) ∧ x ∉ handedOn li w sts ∧
      x ∈ handed (run w sts) li (.turn h) := by
  obtain ⟨l', h1, h2, _, h4, h5, h6, h7, _, h9⟩ := ready_mail_waits w li (w.host! h).ipnum l x hl hid hx hr sts
    (silent_noTurn w sts h hh hq hd) hsafe
  exact ⟨l', h1, h2, h4, h5, h6, h7, h9 h (ipnum_run w sts h hh).2⟩

/-- **… and the envelopes still in flight when the host went down mature into that queue and wait there.**
    `x` is in flight on link `li` towards `h` with deadline `T` (clocks in step, ready queues matured,
    numbers distinct — invariants of every run —, no failure coin in the oracle queue).  `sts1`: any steps
    without a controller call on the link, the clock still before `T` at their end; the `stepBegin` whose
    tick reaches `T`; `sts2`: any steps that can occur while `h` is down.  Then `x` was handed to nobody
    during the whole run and waits — exactly once — in the ready queue towards `h`; `turn h` hands it over. -/
theorem down_host_mail_matures_and_waits (w : World) (h li : Nat) (l : Link Env) (x : Sent Env) (T : Nat)
    (hh : h < w.hosts.length) (hl : w.links[li]? = some l) (hm : Matured l) (hclk : l.now = w.now) (hid : IdsOK l [])
    (hx : x ∈ l.sent) (hs : x.status = .after T) (hnf : NoFailCoin w) (hr : Receiver l x (w.host! h).ipnum)
    (sts1 sts2 : List Step) (hq1 : ∀ p ∈ trail w sts1, ¬ LinksWorld.CtlOn p.1 li p.2)
    (hbefore : (run w sts1).now < T) (hreach : T ≤ (run w sts1).now + ceilMs w.cfg.tick)
    (hq : ∀ p ∈ trail (run w (sts1 ++ [.stepBegin])) sts2, SilentAt h p.1 p.2)
    (hd : IpsDistinct (run w (sts1 ++ [.stepBegin] ++ sts2)))
    (hsafe : l.fixMatured = true → ∀ p ∈ trail (run w (sts1 ++ [.stepBegin])) sts2, ¬ LinksWorld.RecallsOn p.1 li p.2) :
    ∃ l', (run w (sts1 ++ [.stepBegin] ++ sts2)).links[li]? = some l' ∧ inQueue l' x ∧
      x ∈ (l'.drain (w.host! h).ipnum).2 ∧ (C08.ids l').count x.id = 1 ∧
      x ∉ handedOn li w (sts1 ++ [.stepBegin] ++ sts2) ∧
      x ∈ handed (run w (sts1 ++ [.stepBegin] ++ sts2)) li (.turn h) := by
  obtain ⟨hh1, hn1⟩ := ipnum_run w (sts1 ++ [.stepBegin]) h hh
  have hd' : IpsDistinct (run (run w (sts1 ++ [.stepBegin])) sts2) := by rw [← run_append]; exact hd
  have hno := silent_noTurn (run w (sts1 ++ [.stepBegin])) sts2 h hh1 hq hd'
  rw [hn1] at hno
  obtain ⟨l', e, q, d, c, nh, t⟩ := mail_matures_and_waits w li (w.host! h).ipnum l x T hl hm hclk hid hx hs hnf hr
    sts1 sts2 hq1 hbefore hreach hno hsafe
  exact ⟨l', e, q, d, c, nh, t h (ipnum_run w _ h hh).2⟩

/-! ## 3. the first turn after `bounce` -/

/-- `bounce` leaves no socket object (the sweep takes them all away and creates none). -/
theorem bounce_objs (w : World) (h : Nat) (hh : h < w.hosts.length) :
    ((w.bounce h).host! h).objs = [] ∧ ((w.bounce h).host! h).running = true ∧ ((w.bounce h).host! h).exited = false := by
  have hl : h < (w.dropAll h).hosts.length := by rw [(only_dropAll h w).2]; exact hh
  have e : (w.bounce h).host! h = { (w.dropAll h).host! h with running := true, exited := false, winStart := 0, hnow := 0, wake := none, t0 := 0 } := by
    unfold bounce
    exact host!_setHost_self _ h _ hl
  rw [e]
  refine ⟨?_, rfl, rfl⟩
  show ((w.dropAll h).host! h).objs = []
  rw [(sh_dropAll_rest w h).objs_eq h, host!_setHost_self w h _ hh]

/-- the loopback queue after `bounce` of a host that holds no socket object (a host that is down: `crash`
    took them away) is empty.  For a host bounced while RUNNING the model's queue may hold the FINs its own
    old streams sent over loopback in their destructors (example below); the crate's `send_loopback`
    returns early on that path (`Handle::try_current().is_err()`: the runtime is gone), so there the queue
    of spawned deliveries is empty in both cases. -/
theorem bounce_lo_of_down (w : World) (h : Nat) (hh : h < w.hosts.length) (ho : (w.host! h).objs = []) :
    ((w.bounce h).host! h).lo = [] := by
  have hd : w.dropAll h = (w.setHost h (fun hs => { hs with objs := [], lo := [] })).dropEnvs (w.host! h).lo := by
    unfold dropAll
    simp only [ho, List.mergeSort_nil, List.foldl_nil]
  have hl : h < (w.dropAll h).hosts.length := by rw [(only_dropAll h w).2]; exact hh
  unfold bounce
  rw [host!_setHost_self _ h _ hl]
  show ((w.dropAll h).host! h).lo = []
  rw [hd]
  unfold host!
  rw [hosts_dropEnvs]
  show ((w.setHost h fun hs => { hs with objs := [], lo := [] }).host! h).lo = []
  rw [host!_setHost_self w h _ hh]

/-- **C04, nothing that reached the host while it was down is handed to the new incarnation.**
    `w` is any reachable world (no recorded panic, connect-leak repair on), host `h` is bounced (down or
    running), and then ANY steps happen that are not `h`'s own — no call of `h`'s code, no turn of `h`, no
    delivery by a loopback task of `h`, no further crash / bounce of `h`; everything the other hosts, the
    controller and the clock do is allowed, in particular sends to `h` that mature meanwhile.  Then comes the
    first turn of `h` (`turnStep`, the driver's TURN line = `Sim::step` reaching `h`:
    `deliver_messages` and only then `rt.tick`, in which the software is polled for the first time):
    * when the turn begins `h`'s UDP, listener and stream tables are empty, it holds no socket object, and
      its software is marked running (the new incarnation has been spawned but has not been polled);
    * the turn's delivery IS `deliver_messages` with `onEmpty` in the place of `receive`: every envelope
      handed over (`LW.turnStep_out`: the whole ready queue of every link towards `h`) is dropped
      (datagram), refused (SYN), answered with a RST (data / FIN — `replyStep_on_empty`) or ignored (RST);
    * no host is written by it: after the delivery — the instant at which the new incarnation's first
      operation can run — `h`'s tables are still empty and it still holds no object: nothing has been queued
      on any socket, because none exists;
    * every SYN handed over whose one-shot was still pending has it dropped, so the connector's next poll
      returns `ConnectionRefused`. -/
theorem bounce_meets_empty_tables (w0 w : World) (h0 : w0.hosts = []) (hfix : w0.cfg.fixConnectLeak = true)
    (hr : Reach w0 w) (hp : w.panicked = none) (h : Nat) (hh : h < w.hosts.length)
    (sts : List Step) (hq : ∀ st ∈ sts, Step.actor st ≠ some h) :
    let w1 := run (w.bounce h) sts
    let d := deliverWith onEmpty (w1.turnBegin h) h
    (TablesEmpty (w1.host! h) ∧ (w1.host! h).objs = [] ∧ (w1.host! h).running = true) ∧
    turnStep w1 h = (d.1, { d.2 with cur := some h }) ∧
    ((turnStep w1 h).2.hosts = (w1.turnBegin h).hosts ∧ TablesEmpty ((turnStep w1 h).2.host! h) ∧
      ((turnStep w1 h).2.host! h).objs = []) ∧
    (∀ e ∈ (turnStep w1 h).1, ∀ id, e.msg = .syn id → id < w1.syns.length → (w1.syns.getD id default).st = .pending →
      ((turnStep w1 h).2.syns.getD id default).st = .dropped ∧
      ∀ c sc a b chan fcW, (turnStep w1 h).2.getObj c sc = some (.connecting id a b chan fcW) →
        ((turnStep w1 h).2.connectPoll c sc).2 = "err refused") := by
  intro w1 d
  have hhb : h < (w.bounce h).hosts.length := by rw [(only_bounce h w).2]; exact hh
  -- the bounced host
  have hb := reach_bounce_releases_binds w0 w h0 hr h hh
  have hs := reach_bounce_releases_socks w0 w h0 hfix hr hp h hh
  have hE0 : TablesEmpty ((w.bounce h).host! h) := ⟨hb.1, hb.2, hs⟩
  obtain ⟨ho0, hr0, hx0⟩ := bounce_objs w h hh
  -- the steps of the others
  obtain ⟨t1, _, t3, t4⟩ := tables_run_other (w.bounce h) sts h hhb hq
  have hE1 : TablesEmpty (w1.host! h) := tablesEmpty_of_tables t1 hE0
  have ho1 : (w1.host! h).objs = [] := (objs_of_tables t1).1.trans ho0
  have hr1 := (t3 ⟨hr0, hx0⟩).1
  -- the turn
  have t5 := tablesOf_turnBegin w1 h
  have hE2 : TablesEmpty ((w1.turnBegin h).host! h) := tablesEmpty_of_tables t5 hE1
  obtain ⟨k1, k2⟩ := deliverTo_on_empty (w1.turnBegin h) h hE2
  have eT : turnStep w1 h = (d.1, { d.2 with cur := some h }) := by
    unfold turnStep
    rw [k1]
  have hhosts : (turnStep w1 h).2.hosts = (w1.turnBegin h).hosts := by
    unfold turnStep
    exact k2
  have hhost : (turnStep w1 h).2.host! h = (w1.turnBegin h).host! h := by unfold host!; rw [hhosts]
  refine ⟨⟨hE1, ho1, hr1⟩, eT, ⟨hhosts, by rw [hhost]; exact hE2, by rw [hhost, (objs_of_tables t5).1]; exact ho1⟩, ?_⟩
  intro e he id hm hid hpend
  obtain ⟨m1, m2⟩ := deliverWith_onEmpty_syns (w1.turnBegin h) h
  have he' : e ∈ d.1 := by rw [eT] at he; exact he
  have hnp := m2 e he' id hm hid
  have hcell := m1.2 id
  have hsyn : (turnStep w1 h).2.syns = d.2.syns := by rw [eT]
  have hd : (d.2.syns.getD id default).st = .dropped := by
    rcases hcell.1 with e1 | ⟨_, e1⟩
    · exact absurd (e1.trans hpend) hnp
    · exact e1
  refine ⟨by rw [hsyn]; exact hd, fun c sc a b chan fcW hobj => ?_⟩
  exact C12.connect_refused_of_dropped _ c sc id a b chan fcW hobj (by rw [hsyn]; exact hd)

/-! ## 4. the frame of `crash` / `bounce`, every field -/

/-- **C04 frame, extended** (`crash_frame` / `bounce_frame` say it for the list of the other hosts; here
    host by host and for the world's own clocks).  Crashing or bouncing host `h` leaves the WHOLE record of
    every other host `g` as it is — in particular its clock (`HostTimer`: `elapsed`, `startOffset`; the
    runtime's tokio clock: `winStart`, `hnow`, `wake`, `t0`; the flags `running`, `exited`), its loopback
    queue `lo`, its tables and socket objects and its port cursor — and does not move the topology clock
    `now`, `Sim::elapsed`, the configuration or the DNS table.  (The model carries no filesystem: the
    per-host `Fs` of the crate is the subject of C07 / C10.) -/
theorem bounce_frame_full (h g : Nat) (w : World) (hne : g ≠ h) :
    ((w.crash h).host! g = w.host! g ∧ (w.bounce h).host! g = w.host! g) ∧
    ((w.crash h).hosts.length = w.hosts.length ∧ (w.bounce h).hosts.length = w.hosts.length) ∧
    ((w.crash h).now = w.now ∧ (w.crash h).elapsed = w.elapsed ∧ (w.crash h).cfg = w.cfg ∧ (w.crash h).dns = w.dns) ∧
    ((w.bounce h).now = w.now ∧ (w.bounce h).elapsed = w.elapsed ∧ (w.bounce h).cfg = w.cfg ∧ (w.bounce h).dns = w.dns) := by
  refine ⟨⟨host_of_others w _ h g (only_crash h w) hne, host_of_others w _ h g (only_bounce h w) hne⟩,
    ⟨(only_crash h w).2, (only_bounce h w).2⟩, ⟨?_, ?_, ?_, ?_⟩, ⟨?_, ?_, ?_, ?_⟩⟩
  · exact (lr_crash (li := 0) w h).now
  · exact (C05.elapsed_of_tv (C05.tv_crash w h)).trans rfl
  · exact (lr_crash (li := 0) w h).cfg
  · exact (C15.pres_crash w h).dns
  · exact (lr_bounce (li := 0) w h).now
  · exact (C05.elapsed_of_tv (C05.tv_bounce w h)).trans rfl
  · exact (lr_bounce (li := 0) w h).cfg
  · exact (C15.pres_bounce w h).dns

/-- … spelled out for the clock fields and the loopback queue. -/
theorem bounce_frame_fields (h g : Nat) (w : World) (hne : g ≠ h) :
    C05.clk ((w.crash h).host! g) = C05.clk (w.host! g) ∧ C05.clk ((w.bounce h).host! g) = C05.clk (w.host! g) ∧
    ((w.crash h).host! g).lo = (w.host! g).lo ∧ ((w.bounce h).host! g).lo = (w.host! g).lo ∧
    tablesOf ((w.crash h).host! g) = tablesOf (w.host! g) ∧ tablesOf ((w.bounce h).host! g) = tablesOf (w.host! g) := by
  obtain ⟨⟨e1, e2⟩, _⟩ := bounce_frame_full h g w hne
  rw [e1, e2]
  exact ⟨rfl, rfl, rfl, rfl, rfl, rfl⟩

theorem Reach.run {w0 w : World} (hr : Reach w0 w) (sts : List Step) : Reach w0 (LW.run w sts) := by
  induction sts generalizing w with
  | nil => exact hr
  | cons st sts ih => exact ih (Reach.step st hr)

/-! ## 5. non-vacuity: one concrete run, built with the model's own steps

  Two hosts (ip numbers 1, 2; link 0; connect-leak repair on; every coin "no failure", every delay 0).
  Host 0 listens on `:80`, has a UDP socket on `:9000` and holds the accepted end of a stream to host 1.
  Host 0 is crashed (`exDown`; its FIN to host 1 goes out).  While it is down (`exWhile`) host 1 writes a
  byte on the stream, sends a datagram to `h0:9000`, starts a second connect to `h0:80`, a step passes
  (host 1 takes its turn and is handed the FIN), host 0 is crashed once more.  Then host 0 is bounced and a
  step begins (`exUp`); its first turn finds the three envelopes.
  (`crashS` / `bounceS`: `crash` / `bounce` with the object table taken in its stored order — equal to them
  here, `crash_sorted` / `bounce_sorted`; `List.mergeSort` does not reduce in the kernel.) -/

namespace Late

def exOra : List Ora := (List.replicate 12 (Ora.fail false)).flatMap (fun o => [o, Ora.delay 0])
def ex0 : World := { cfg := { fixConnectLeak := true }, oracle := exOra }
def exPreSteps : List Step :=
  [ .register 1 false, .register 2 false,
    .host 0 (.tcpBind 0 ⟨.any, 80⟩),
    .host 0 (.udpBind 1 ⟨.any, 9000⟩),
    .host 1 (.tcpConnect 0 ⟨.host 0, 80⟩),
    .turn 0,
    .host 0 (.tcpAccept 0 2),
    .host 1 (.tcpCPoll 0),
    .host 1 (.udpBind 1 ⟨.any, 9000⟩) ]
def exPre : World := run ex0 exPreSteps
def exDown : World := crashS exPre 0
def exWhile : List Step :=
  [ .host 1 (.tcpWrite 0 "41"),
    .host 1 (.udpSend 1 ⟨.host 0, 9000⟩ "ab"),
    .host 1 (.tcpConnect 5 ⟨.host 0, 80⟩),
    .stepBegin, .turn 1, .stepEnd, .crash 0 ]
def exLater : World := run exDown exWhile
def exUp : World := run (bounceS exLater 0) [.stepBegin]

theorem exPre_reach : Reach ex0 exPre := Reach.run Reach.init exPreSteps
theorem exDown_eq : exDown = applyStep exPre (.crash 0) := (crash_sorted exPre 0 (by decide)).symm
theorem exDown_reach : Reach ex0 exDown := by rw [exDown_eq]; exact Reach.step (.crash 0) exPre_reach
theorem exLater_reach : Reach ex0 exLater := Reach.run exDown_reach exWhile
theorem exUp_eq : exUp = run (exLater.bounce 0) [.stepBegin] := by
  unfold exUp; rw [bounce_sorted exLater 0 (by decide)]

/-- `down_host_silent`: every hypothesis holds for host 0 of `exDown` and the run `exWhile` … -/
example : ex0.hosts = [] ∧ ex0.links = [] ∧ 0 < exDown.hosts.length ∧ (exDown.host! 0).running = false ∧
    (∀ p ∈ trail exDown exWhile, SilentAt 0 p.1 p.2) ∧ ((run exDown exWhile).hosts.map (·.ipnum)).Nodup := by decide

/-- … so it applies; and this is what it says there: before the run host 0's FIN (source number 1) waits
    for host 1; after it — host 1 has taken it — nothing from number 1 is on the link, while three messages
    from number 2 wait for host 0; host 0's tables are what they were (empty), its timer one tick further. -/
example :
    (exDown.links.map (fun l => ((l.sent ++ l.toA ++ l.toB).map (fun s => (s.src, s.msg.msg))))) = [[(1, .fin 1)]] ∧
    (exLater.links.map (fun l => ((l.sent ++ l.toA ++ l.toB).map (fun s => (s.src, s.msg.msg))))) =
      [[(2, .data 1 "41"), (2, .udp "ab"), (2, .syn 1)]] ∧
    (exLater.host! 0).objs.length = 0 ∧ (exLater.host! 0).lo = [] ∧
    (exLater.host! 0).elapsed = (exDown.host! 0).elapsed + 1000000 := by decide

example := down_host_silent ex0 exDown rfl rfl exDown_reach 0 (by decide) (by decide) exWhile (by decide)
  (ipsDistinct_of_nodup _ (by decide))

/-- `down_host_mail_waits`: after host 1's write the data segment is ready for host 0 (`exM`, message `exMx`
    on link `exML`); it waits through the rest of `exWhile` … -/
def exM : World := run exDown (exWhile.take 1)
def exML : Link Env := exM.links.getD 0 default
def exMx : Sent Env := exML.toA.getD 0 default

example : exM.links[0]? = some exML := by rfl
example : 0 < exM.hosts.length ∧ exMx.msg.msg = .data 1 "41" ∧
    (∀ p ∈ trail exM (exWhile.drop 1), SilentAt 0 p.1 p.2) ∧ ((run exM (exWhile.drop 1)).hosts.map (·.ipnum)).Nodup ∧
    exML.fixMatured = false := by decide
theorem exML_ids : IdsOK exML [] := ⟨by decide, by decide⟩
theorem exMx_queue : inQueue exML exMx := by unfold inQueue; decide
theorem exMx_receiver : Receiver exML exMx (exM.host! 0).ipnum := by unfold Receiver; decide

example := down_host_mail_waits exM 0 0 exML exMx (by decide) (by rfl) exML_ids exMx_queue exMx_receiver
  (exWhile.drop 1) (by decide) (ipsDistinct_of_nodup _ (by decide)) (fun hf => absurd hf (by decide))

/-- … the only thing the link hands to anybody meanwhile is host 0's FIN, to host 1; the turn of host 0
    (after the bounce) is handed the segment, with the two envelopes that came later. -/
example : (handed (run exM (exWhile.drop 1)) 0 (.turn 0)).map (·.msg.msg) = [.data 1 "41", .udp "ab", .syn 1] ∧
    (handedOn 0 exM (exWhile.drop 1)).map (fun s => (s.dst, s.msg.msg)) = [(2, .fin 1)] := by decide

/-- `down_host_mail_matures_and_waits`: a datagram sent to the down host with a latency of 1.5 ms at clock
    1 ms (deadline 2.5 ms) is in flight (`exF`, message `exFx`); one step later the clock is 2 ms; the
    `stepBegin` after that reaches the deadline. -/
def exF0 : World := { run exDown [.stepBegin, .turn 1, .stepEnd] with oracle := [.fail false, .delay 1500000] }
def exF : World := run exF0 [.host 1 (.udpSend 1 ⟨.host 0, 9000⟩ "ab")]
def exFL : Link Env := exF.links.getD 0 default
def exFx : Sent Env := exFL.sent.getD 0 default
def exF1 : List Step := [.stepBegin, .turn 1, .stepEnd]
def exF2 : List Step := [.turn 1, .stepEnd, .crash 0]

theorem exFL_matured : Matured exFL := by
  have e : exFL.toA = [] ∧ exFL.toB = [] := by decide
  intro y hy
  rw [e.1, e.2] at hy
  rcases hy with hy | hy <;> cases hy

theorem exF1_noCtl : ∀ p ∈ trail exF exF1, ¬ LinksWorld.CtlOn p.1 0 p.2 := by
  intro p hp
  have := LinksWorld.mem_trail_step exF exF1 p hp
  simp only [exF1, List.mem_cons, List.not_mem_nil, or_false] at this
  rcases this with h | h | h <;> rw [h] <;> exact fun hc => hc

example : exF.links[0]? = some exFL := by rfl
example : 0 < exF.hosts.length ∧ exFL.now = exF.now ∧ exFx ∈ exFL.sent ∧
    exFx.status = .after 2500000 ∧ (run exF exF1).now < 2500000 ∧ 2500000 ≤ (run exF exF1).now + ceilMs exF.cfg.tick ∧
    (∀ p ∈ trail (run exF (exF1 ++ [.stepBegin])) exF2, SilentAt 0 p.1 p.2) ∧
    ((run exF (exF1 ++ [.stepBegin] ++ exF2)).hosts.map (·.ipnum)).Nodup := by decide

example := down_host_mail_matures_and_waits exF 0 0 exFL exFx 2500000 (by decide) (by rfl) exFL_matured (by decide)
  ⟨by decide, by decide⟩ (by decide) (by decide) (by unfold NoFailCoin; decide) (by unfold Receiver; decide)
  exF1 exF2 exF1_noCtl (by decide) (by decide) (by decide) (ipsDistinct_of_nodup _ (by decide))
  (fun hf => absurd hf (by decide))

example : (handed (run exF (exF1 ++ [.stepBegin] ++ exF2)) 0 (.turn 0)).map (·.msg.msg) = [.udp "ab"] := by decide

/-- `bounce_meets_empty_tables`: the hypotheses hold for `exLater`, host 0 and the step start … -/
example : ex0.hosts = [] ∧ ex0.cfg.fixConnectLeak = true ∧ exLater.panicked = none ∧ 0 < exLater.hosts.length ∧
    (∀ st ∈ [Step.stepBegin], Step.actor st ≠ some 0) := by decide

example := bounce_meets_empty_tables ex0 exLater rfl rfl exLater_reach (by decide) 0 (by decide) [.stepBegin] (by decide)

/-- … and this is the turn it describes (`exUp` is `run (exLater.bounce 0) [.stepBegin]`, `exUp_eq`): the
    three envelopes are handed over; afterwards host 0 has no bind, no stream and no object; the data segment
    has drawn a RST, which waits for host 1; the datagram is gone; the second connect's one-shot — pending
    before — is dropped and host 1's poll says refused (the first one-shot, accepted long ago, is untouched). -/
example :
    (turnStep exUp 0).1.map (·.msg) = [.data 1 "41", .udp "ab", .syn 1] ∧
    ((turnStep exUp 0).2.host! 0).udp.length = 0 ∧ ((turnStep exUp 0).2.host! 0).tcpBinds.length = 0 ∧
    ((turnStep exUp 0).2.host! 0).socks.length = 0 ∧ ((turnStep exUp 0).2.host! 0).objs.length = 0 ∧
    ((turnStep exUp 0).2.links.map (fun l => ((l.sent ++ l.toA ++ l.toB).map (fun s => (s.src, s.dst, s.msg.msg))))) =
      [[(1, 2, .rst)]] ∧
    exUp.syns.map (·.st) = [.acked, .pending] ∧ (turnStep exUp 0).2.syns.map (·.st) = [.acked, .dropped] ∧
    ((turnStep exUp 0).2.connectPoll 1 5).2 = "err refused" := by decide

/-- `bounce_frame_full`: host 1 next to the crash of host 0. -/
example := bounce_frame_full 0 1 exPre (by decide)

/-- `bounce_lo_of_down` and the remark there: host 0 of `exLater` is down and holds no object, its loopback
    queue after `bounce` is empty.  `exLoop`: one host that listens on `:9`, connects to it over loopback
    and accepts; bounced while RUNNING, the model's loopback queue of the new incarnation holds the FIN of
    the old accepted stream (the crate's `send_loopback` returns early in the drop path: no runtime). -/
def exLoop : World := run ex0
  [ .register 1 false, .host 0 (.tcpBind 1 ⟨.any, 9⟩), .host 0 (.tcpConnect 2 ⟨.lo, 9⟩), .loDeliver 0 0,
    .host 0 (.tcpAccept 1 3) ]

example : (exLater.host! 0).objs = [] ∧ ((bounceS exLater 0).host! 0).lo = [] ∧
    (exLoop.host! 0).running = true ∧ ((bounceS exLoop 0).host! 0).lo.map (·.msg) = [.fin 1] := by decide
/-- `loopback_sources_own`: a reachable world with a non-empty loopback queue (the connect's SYN, before it
    is delivered), whose envelope carries the loopback source address. -/
example : ((run ex0 [ .register 1 false, .host 0 (.tcpBind 1 ⟨.any, 9⟩), .host 0 (.tcpConnect 2 ⟨.lo, 9⟩) ]).host! 0).lo.map
    (fun e => (e.src.ip, e.msg)) = [(.lo, .syn 0)] := by decide

example : exLoop.bounce 0 = bounceS exLoop 0 := bounce_sorted exLoop 0 (by decide)

/-- **the order matters in the model's step alphabet**: `Reach` allows a call of host 0's code between
    `bounce 0` and its first turn — a schedule `Sim::step` cannot produce (see the header).  If the new
    incarnation bound `:9000` there, the datagram sent while host 0 was down WOULD be queued on the new
    socket: the hypothesis of `bounce_meets_empty_tables` that no step before the first turn is `h`'s own is
    needed. -/
example :
    ((run (bounceS exLater 0) [.host 0 (.udpBind 1 ⟨.any, 9000⟩), .stepBegin, .turn 0]).host! 0).udp.map (·.queue.map (·.1))
      = [["ab"]] := by decide

end Late

end TV.C04
