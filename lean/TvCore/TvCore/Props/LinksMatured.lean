import TvCore.Props.LinksWorld
import TvCore.Props.C12
/-
  F-C08-1 / F-C03-2 and their repair (`Cfg.fixMatured`, copied into every link as `Link.fixMatured`).

  Finding (tree before the repair, `Cfg.fixedRand`): a message whose latency has elapsed sits in a
  `deliverable` (ready) queue of its link until its destination's next turn.  `Link::hold` walked only
  `self.sent`, `explicit_partition` / `partition_oneway` cleared only `self.sent`: a ready message was
  handed over during the hold / after the partition (`witness_F_C08_1`, `witness_F_C03_2`).

  Repair (`top.rs`): `hold` first recalls the ready messages to the FRONT of the in-flight queue — the
  queue of the lower end point `a` first, then that of `b`, each in order — and holds them with the rest;
  `explicit_partition` also empties both ready queues; `partition_oneway(from, to)` also empties the
  ready queue of `to`.  Model: `Link.recall`, `Link.hold`, `Link.explicitPartition`, `Link.clearReady`,
  `Link.partitionOneway`.
-/
namespace TV.LinksMatured
open TV TV.World TV.LW TV.LinksWorld TV.Link

variable {M : Type}

/-! ## Link level -/

/-- the message, held. -/
def held (s : Sent M) : Sent M := { s with status := .hold }

/-- **`hold` recalls the ready messages** (repair on): afterwards both ready queues are empty and the
    in-flight queue is: the ready messages for `a`, those for `b` (each queue in its order), then the old
    in-flight queue — every one of them `Hold`; the link is `Held`, and no message is lost or duplicated. -/
theorem hold_recalls (l : Link M) (hf : l.fixMatured = true) :
    l.hold.toA = [] ∧ l.hold.toB = [] ∧ l.hold.sent = (l.toA ++ l.toB ++ l.sent).map held ∧
    C08.Held l.hold ∧ (C08.ids l.hold).Perm (C08.ids l) ∧ l.hold.nextId = l.nextId := by
  refine ⟨?_, ?_, ?_, C08.hold_establishes l, C08.ids_hold l, ?_⟩
  all_goals unfold Link.hold; rw [hf]
  · rfl
  · rfl
  · simp only [if_true, Link.holdRaw, Link.recall, List.map_append, List.map_map]
    rfl
  · rfl

/-- without the repair `hold` leaves the ready queues alone (the defect). -/
theorem hold_keeps_ready_unrepaired (l : Link M) (hf : l.fixMatured = false) :
    l.hold.toA = l.toA ∧ l.hold.toB = l.toB ∧ l.hold.sent = l.sent.map held := by
  unfold Link.hold; rw [hf]; exact ⟨rfl, rfl, rfl⟩

/-- **an explicit partition drops the ready messages too** (repair on): nothing is left on the link, and
    the discarded list — what `ctlPartition` feeds to the SYN bookkeeping — is everything it held. -/
theorem partition_drops_ready (l : Link M) (hf : l.fixMatured = true) :
    l.explicitPartition.1.sent = [] ∧ l.explicitPartition.1.toA = [] ∧ l.explicitPartition.1.toB = [] ∧
    l.explicitPartition.2 = l.sent ++ l.toA ++ l.toB := by
  unfold Link.explicitPartition; rw [hf]; exact ⟨rfl, rfl, rfl, rfl⟩

/-- **a one-way partition drops the ready messages of the cut direction** (repair on; `ab`: the direction
    `a → b` is cut, else `b → a`): the ready queue of the destination is emptied, the other one untouched;
    the discarded list is the in-flight messages of the source followed by that ready queue. -/
theorem partitionOneway_drops_ready (l : Link M) (hf : l.fixMatured = true) (hlt : l.a < l.b) (ab : Bool) :
    (if ab then (l.partitionDir ab).1.toB = [] ∧ (l.partitionDir ab).1.toA = l.toA
     else (l.partitionDir ab).1.toA = [] ∧ (l.partitionDir ab).1.toB = l.toB) ∧
    (l.partitionDir ab).2 =
      l.sent.filter (fun s => s.src == (if ab then l.a else l.b)) ++ (if ab then l.toB else l.toA) := by
  have hne : (l.b == l.a) = false := by simpa using (Nat.ne_of_gt hlt)
  cases ab <;> simp [Link.partitionDir, Link.partitionOneway, Link.clearReady, hf, hne]

/-- whatever a partition (two-way or one-way, either variant) discards, plus what it leaves on the link,
    is exactly what was on the link. -/
theorem partition_conserves (l : Link Env) :
    (C08.ids l.explicitPartition.1 ++ l.explicitPartition.2.map (·.id)).Perm (C08.ids l) ∧
    ∀ s d, (C08.ids (l.partitionOneway s d).1 ++ (l.partitionOneway s d).2.map (·.id)).Perm (C08.ids l) := by
  constructor
  · unfold Link.explicitPartition
    split
    · simp [C08.ids]
    · apply List.perm_iff_count.mpr
      intro a
      simp only [C08.ids, List.map_append, List.count_append, List.map_nil, List.count_nil]
      omega
  · intro s d
    have hs := C08.count_split (fun x : Sent Env => x.src != s) l.sent
    have e : (fun x : Sent Env => !(x.src != s)) = (fun x => x.src == s) := by
      funext x; simp [bne]
    rw [e] at hs
    apply List.perm_iff_count.mpr
    intro a
    have hs := hs a
    unfold Link.partitionOneway
    cases hfm : l.fixMatured
    · simp only [Bool.false_eq_true, if_false]
      by_cases hlt : s < d <;>
        simp only [hlt, if_true, if_false, C08.ids, List.map_append, List.count_append] <;> omega
    · simp only [if_true]
      unfold Link.clearReady
      by_cases hlt : s < d <;> by_cases h1 : (d == l.a) = true <;> by_cases h2 : (d == l.b) = true <;>
        simp only [hlt, h1, h2, Bool.false_eq_true, if_true, if_false, C08.ids, List.map_append, List.count_append,
          List.map_nil, List.count_nil] <;> omega

/-! ## World level -/

/-- the two ways a controller call reaches the model. -/
theorem ctlStep_gone (w : World) (op : NetCtl) (x y li : Nat) (l : Link Env) (st : Step) (hst : IsCtlStep op x y st)
    (hl : w.links[li]? = some l) (ht : Touches w x y li) :
    (applyStep w st).links[li]? = some ((ctlOf op (w.host! x).ipnum (w.host! y).ipnum).fn l).1 :=
  (ctlStep_link w op x y li l st hst hl ht).1

/-- **C08 with the repair: NOTHING is handed over while the hold lasts.**  Link `li` carries the repair
    (`fixMatured`).  From `hold(x, y)` — from the `Sim` handle or from host code — on a pair joined by the
    link, through ANY steps none of which ends the hold (`EndsHold`), the link hands nothing to any host:
    not what was in flight, not what was ready but not yet handed over (it has been recalled), not what is
    sent meanwhile.  At the end the link is still held, both ready queues are empty, and its in-flight
    queue is `l.hold.sent` (`hold_recalls`: ready-for-`a`, ready-for-`b`, old in-flight queue) followed by
    the messages sent during the hold — all `Hold`. -/
theorem held_nothing_handed_fixed (w : World) (x y li : Nat) (l : Link Env) (st : Step)
    (hst : IsCtlStep .hold x y st) (hl : w.links[li]? = some l) (ht : Touches w x y li) (hf : l.fixMatured = true)
    (sts : List Step) (hno : ∀ p ∈ trail (applyStep w st) sts, ¬ EndsHold p.1 li p.2) :
    handedOn li w (st :: sts) = [] ∧
    ∃ l', (run w (st :: sts)).links[li]? = some l' ∧ C08.Held l' ∧ l'.toA = [] ∧ l'.toB = [] ∧
      ∃ new, l'.sent = (l.toA ++ l.toB ++ l.sent).map held ++ new ∧ ∀ s ∈ new, s.status = Status.hold := by
  have e1 : (applyStep w st).links[li]? = some l.hold := ctlStep_gone w .hold x y li l st hst hl ht
  obtain ⟨qa, qb, qs, hh, _, _⟩ := hold_recalls l hf
  have hst0 : handed w li st = [] := by
    cases st <;> first | rfl | (exfalso; unfold IsCtlStep at hst; simp at hst)
  obtain ⟨l', h1, h2, ⟨new, h3⟩, hp, hq, hfl⟩ := held_nothing_delivered _ li l.hold e1 hh (readyOK_hold l) sts hno
  have hnone := held_nothing_at_all _ li l.hold e1 hh qa qb sts hno
  have hq' := hq (by rw [hfl, hold_flag]; exact hf)
  refine ⟨by simp only [handedOn, hst0, hnone, List.append_nil], l', h1, h2, hq'.1, hq'.2, new, by rw [h3, qs],
    fun s hs => h2.all s (by rw [h3]; exact List.mem_append_right _ hs)⟩

theorem map_held_filter (p : Sent Env → Bool) (hp : ∀ s, p (held s) = p s) (xs : List (Sent Env)) :
    ((xs.map held).filter p).map noStatus = (xs.filter p).map noStatus := by
  induction xs with
  | nil => rfl
  | cons x xs ih =>
    simp only [List.map_cons, List.filter_cons, hp]
    split
    · simp only [List.map_cons, ih]; rfl
    · exact ih

/-- **C08 with the repair: after release the recalled messages come first.**  `hold`, any steps that do
    not end the hold, `release`, the next `stepBegin`: each ready queue then holds, in this order, the
    messages that were ready for that destination when `hold` was called (recalled, in their old order),
    then the messages for it that were in flight, then those sent during the hold — every one exactly
    once, unchanged but for the delivery status; nothing is left in flight.  So "in the order they were
    sent, per direction" covers the recalled messages (they were sent before everything still in flight:
    they had already matured). -/
theorem release_delivers_recalled_first (w : World) (x y li : Nat) (l : Link Env) (sth str : Step)
    (hsth : IsCtlStep .hold x y sth) (hstr : IsCtlStep .release x y str)
    (hl : w.links[li]? = some l) (ht : Touches w x y li) (hf : l.fixMatured = true) (hclk : ClockOK w)
    (sts : List Step) (hno : ∀ p ∈ trail (applyStep w sth) sts, ¬ EndsHold p.1 li p.2)
    (ht' : Touches (run w (sth :: sts)) x y li) :
    ∃ new l2, (run w (sth :: sts ++ [str, .stepBegin])).links[li]? = some l2 ∧ l2.sent = [] ∧
      (∀ s ∈ new, s.status = Status.hold) ∧
      l2.toA.map noStatus = ((l.toA ++ l.toB ++ l.sent ++ new).filter (fun s => s.dst == l.a)).map noStatus ∧
      l2.toB.map noStatus = ((l.toA ++ l.toB ++ l.sent ++ new).filter (fun s => s.dst != l.a)).map noStatus := by
  obtain ⟨_, l', h1, h2, qa, qb, new, h3, h4⟩ := held_nothing_handed_fixed w x y li l sth hsth hl ht hf sts hno
  have hck := clockOK_run w (sth :: sts) hclk li l' h1
  obtain ⟨l2, e2, r1, _, _, ra, rb, rA, rB, _⟩ :=
    release_delivers_all_once_in_order (run w (sth :: sts)) x y li l' str hstr h1 h2 ht' (Nat.le_of_eq hck)
  have hrun : run w (sth :: sts ++ [str, .stepBegin]) = run (run w (sth :: sts)) [str, .stepBegin] := by
    rw [← run_append]
  have ea : l'.a = l.a := by
    obtain ⟨l'', e'', a'', _⟩ := run_ends w li l hl (sth :: sts)
    rw [h1] at e''; cases e''; exact a''
  refine ⟨new, l2, by rw [hrun]; exact e2, r1, h4, ?_, ?_⟩
  · rw [rA, qa, List.nil_append, h3, ea, List.filter_append, List.map_append, map_held_filter _ (fun _ => rfl)]
    simp only [List.filter_append, List.map_append, List.append_assoc]
  · rw [rB, qb, List.nil_append, h3, ea, List.filter_append, List.map_append, map_held_filter _ (fun _ => rfl)]
    simp only [List.filter_append, List.map_append, List.append_assoc]

/-- **C03: whatever an explicit partition discards is never handed over** (either variant; the point of
    the repair is WHAT it discards: with `fixMatured`, `partition_drops_ready` /
    `partitionOneway_drops_ready` — besides the in-flight messages of the cut direction(s) also the ready
    messages of the cut direction(s)).  Message numbers on the link pairwise distinct (`IdsOK`).  After
    `partition(x, y)` or `partition_oneway(x, y)` — from the `Sim` handle or from host code — on a pair
    joined by link `li`, over EVERY sequence of steps (repairs, random coins, anything): no message the
    link hands to a host carries the number of a discarded message. -/
theorem partitioned_inflight_never_delivered_fixed (w : World) (op : NetCtl) (x y li : Nat) (l : Link Env) (st : Step)
    (hop : op = .partition ∨ op = .partitionOneway) (hst : IsCtlStep op x y st)
    (hl : w.links[li]? = some l) (ht : Touches w x y li) (hid : IdsOK l []) (sts : List Step) :
    ∀ m ∈ ((ctlOf op (w.host! x).ipnum (w.host! y).ipnum).fn l).2,
      ∀ z ∈ handedOn li (applyStep w st) sts, z.id ≠ m.id := by
  have e1 := ctlStep_gone w op x y li l st hst hl ht
  have hperm : (C08.ids ((ctlOf op (w.host! x).ipnum (w.host! y).ipnum).fn l).1 ++
      ((ctlOf op (w.host! x).ipnum (w.host! y).ipnum).fn l).2.map (·.id)).Perm (C08.ids l) := by
    rcases hop with rfl | rfl
    · exact (partition_conserves l).1
    · exact (partition_conserves l).2 _ _
  have hn : l.nextId ≤ ((ctlOf op (w.host! x).ipnum (w.host! y).ipnum).fn l).1.nextId := by
    rcases hop with rfl | rfl
    · exact Nat.le_of_eq (Link.explicitPartition_fields l).2.2.2.2.2.2.2.2.2.2.1.symm
    · exact Nat.le_of_eq (Link.partitionOneway_fields l _ _).2.2.2.2.2.2.2.2.2.2.1.symm
  have hid1 := idsOK_of_subPerm hid (SubPerm.of_perm hperm) hn
  simp only [List.nil_append] at hid1
  obtain ⟨l', _, h2⟩ := run_inv li (applyStep w st)
    (fun _ l' H => IdsOK l' (((ctlOf op (w.host! x).ipnum (w.host! y).ipnum).fn l).2 ++ H)) (fun _ _ => True)
    (fun w' st' lk ops H _ _ _ hlk hs _ hj => by
      have := idsOK_grun w'.cfg.link hj ops
      rw [stepOps_out _ w' li lk ops st' hlk hs, List.append_assoc] at this
      exact this)
    sts _ e1 (fun _ _ => trivial) (by simpa using hid1)
  intro m hm z hz he
  have hnd := (List.nodup_append.mp h2.nodup).2.1
  rw [List.map_append] at hnd
  exact (List.nodup_append.mp hnd).2.2 _ (List.mem_map.mpr ⟨m, hm, rfl⟩) _ (List.mem_map.mpr ⟨z, hz, rfl⟩) he.symm

/-- … in particular (repair on) a message that was ready for `y`, or in flight from `x`, when the
    direction `x → y` was cut, and one that was ready or in flight in either direction at a two-way
    partition. -/
theorem partitioned_ready_never_delivered_fixed (w : World) (x y li : Nat) (l : Link Env) (st : Step)
    (hst : IsCtlStep .partition x y st) (hl : w.links[li]? = some l) (ht : Touches w x y li)
    (hf : l.fixMatured = true) (hid : IdsOK l []) (sts : List Step) :
    ∀ m, (m ∈ l.sent ∨ m ∈ l.toA ∨ m ∈ l.toB) → ∀ z ∈ handedOn li (applyStep w st) sts, z.id ≠ m.id := by
  intro m hm
  apply partitioned_inflight_never_delivered_fixed w .partition x y li l st (Or.inl rfl) hst hl ht hid sts m
  show m ∈ l.explicitPartition.2
  rw [(partition_drops_ready l hf).2.2.2]
  simp only [List.mem_append]
  rcases hm with h | h | h
  · exact Or.inl (Or.inl h)
  · exact Or.inl (Or.inr h)
  · exact Or.inr h

/-- **a ready SYN that a partition discards refuses its connector** (repair on), like an in-flight one
    (`C12.partition_refuses_inflight`): `ctlPartition` feeds everything `explicit_partition` discards —
    with the repair also the ready queues — to the SYN bookkeeping, so the pending connect whose SYN sat in
    a ready queue completes with "connection refused" instead of hanging. -/
theorem partition_refuses_ready (w : World) (x y li id : Nat) (l : Link Env)
    (hf : w.findLink (w.host! x).ipnum (w.host! y).ipnum = some li) (hl : w.links[li]? = some l)
    (hfm : l.fixMatured = true) (hid : id < w.syns.length) (hp : (w.syns.getD id default).st = .pending)
    (hs : ∃ s, (s ∈ l.toA ∨ s ∈ l.toB) ∧ s.msg.msg = .syn id) :
    (((w.ctlPartition x y).syns).getD id default).st = .dropped := by
  unfold ctlPartition onLink
  simp only [hf, hl]
  obtain ⟨s, hs1, hs2⟩ := hs
  refine C12.dropEnvs_drops _ { w with links := setAt w.links li fun _ => l.explicitPartition.1 } id (by exact hid) (by exact hp) ?_
  have hg : s ∈ l.explicitPartition.2 := by
    rw [(partition_drops_ready l hfm).2.2.2]
    simp only [List.mem_append]
    rcases hs1 with h | h
    · exact Or.inl (Or.inr h)
    · exact Or.inr h
  exact ⟨s.msg, List.mem_map.mpr ⟨s, hg, rfl⟩, hs2⟩

/-! ## the findings, and their repair, on a concrete two-host world -/

/-- two hosts (ip numbers 1, 2; link 0), a UDP socket each; host 0 sends "ab" with ZERO latency: the
    `process_deliverables` at the end of `enqueue_message` files it in host 1's ready queue at once. -/
def preM : List Step :=
  [ .register 1 false, .register 2 false,
    .host 0 (.udpBind 0 ⟨.any, 9000⟩), .host 1 (.udpBind 0 ⟨.any, 9000⟩),
    .host 0 (.udpSend 0 ⟨.host 1, 9000⟩ "ab") ]
def cfgM (link : Cfg) : WCfg := { link := link }
def wM (link : Cfg) : World := run { cfg := cfgM link, oracle := [.fail false, .delay 0] } preM

/-- the message is ready, not in flight, in both variants. -/
example : ((wM Cfg.fixedRand).links[0]?).map (fun l => (l.sent.length, l.toB.map (·.id), l.fixMatured)) = some (0, [0], false) ∧
    ((wM Cfg.fixed).links[0]?).map (fun l => (l.sent.length, l.toB.map (·.id), l.fixMatured)) = some (0, [0], true) := by decide

/-- **F-C08-1** (tree before the repair): the message sent before `hold` is handed to host 1 during the
    hold. -/
theorem witness_F_C08_1 :
    (handedOn 0 (wM Cfg.fixedRand) [.link .hold 0 1, .stepBegin, .turn 0, .turn 1]).map (fun s => (s.id, s.msg.msg)) =
      [(0, .udp "ab")] := by decide

/-- … repaired: nothing is handed over during the hold (two steps); the message is in flight, held; after
    `release` and the next step it arrives, once. -/
theorem fixed_F_C08_1 :
    handedOn 0 (wM Cfg.fixed) [.link .hold 0 1, .stepBegin, .turn 0, .turn 1, .stepEnd, .stepBegin, .turn 0, .turn 1] = [] ∧
    ((run (wM Cfg.fixed) [.link .hold 0 1, .stepBegin, .turn 0, .turn 1]).links[0]?).map
      (fun l => (l.sent.map (fun s => (s.id, s.status)), l.toA.length, l.toB.length)) = some ([(0, .hold)], 0, 0) ∧
    (handedOn 0 (wM Cfg.fixed) [.link .hold 0 1, .stepBegin, .turn 0, .turn 1, .stepEnd, .link .release 0 1,
      .stepBegin, .turn 0, .turn 1]).map (fun s => (s.id, s.msg.msg)) = [(0, .udp "ab")] := by decide

/-- **F-C03-2** (tree before the repair): the message that was ready when the pair was partitioned is
    handed to host 1 after the partition. -/
theorem witness_F_C03_2 :
    (handedOn 0 (wM Cfg.fixedRand) [.link .partition 0 1, .stepBegin, .turn 0, .turn 1]).map (fun s => (s.id, s.msg.msg)) =
      [(0, .udp "ab")] ∧
    (handedOn 0 (wM Cfg.fixedRand) [.link .partitionOneway 0 1, .stepBegin, .turn 0, .turn 1]).map (fun s => (s.id, s.msg.msg)) =
      [(0, .udp "ab")] := by decide

/-- … repaired: it is discarded with the in-flight messages — never handed over, not after a repair
    either; the reverse one-way partition (1 → 0) does not touch it. -/
theorem fixed_F_C03_2 :
    handedOn 0 (wM Cfg.fixed) [.link .partition 0 1, .stepBegin, .turn 0, .turn 1, .stepEnd, .link .repair 0 1,
      .stepBegin, .turn 0, .turn 1] = [] ∧
    handedOn 0 (wM Cfg.fixed) [.link .partitionOneway 0 1, .stepBegin, .turn 0, .turn 1, .stepEnd, .link .repairOneway 0 1,
      .stepBegin, .turn 0, .turn 1] = [] ∧
    (handedOn 0 (wM Cfg.fixed) [.link .partitionOneway 1 0, .stepBegin, .turn 0, .turn 1]).map (fun s => (s.id, s.msg.msg)) =
      [(0, .udp "ab")] := by decide

/-- non-vacuity of the World-level theorems above: the repaired link of `wM Cfg.fixed` (one ready message
    for `b`), joined to the pair of hosts 0, 1 in either order; clocks in step; distinct numbers. -/
def lM : Link Env := (wM Cfg.fixed).links.getD 0 default
example : (wM Cfg.fixed).links[0]? = some lM ∧ Touches (wM Cfg.fixed) 0 1 0 ∧ lM.fixMatured = true ∧
    lM.toB.map (·.id) = [0] ∧ IdsOK lM [] ∧ lM.now = (wM Cfg.fixed).now ∧ lM.a < lM.b ∧
    IsCtlStep .hold 0 1 (.link .hold 0 1) ∧ IsCtlStep .partition 0 1 (.host 1 (.net .partition 0 1)) :=
  ⟨by rfl, by decide, by decide, by decide, ⟨by decide, by decide⟩, by decide, by decide, Or.inl rfl, Or.inr ⟨1, rfl⟩⟩
/-- … `release_delivers_recalled_first`: the clocks are in step (a run from a world without links), and the
    pair is still joined by the link after the hold. -/
example : ClockOK (wM Cfg.fixed) ∧
    Touches (run (wM Cfg.fixed) [.link .hold 0 1, .host 1 (.udpSend 0 ⟨.host 0, 9000⟩ "cd"), .stepBegin, .turn 0, .turn 1]) 0 1 0 ∧
    (∀ st ∈ [Step.host 1 (.udpSend 0 ⟨.host 0, 9000⟩ "cd"), .stepBegin, .turn 0, .turn 1], isLinkCtl st = false) :=
  ⟨clockOK_run _ preM (clockOK_empty _ rfl), by decide, by decide⟩
/-- `hold_recalls`, `partition_drops_ready`, `partitionOneway_drops_ready` on that link. -/
example : lM.hold.sent.map (fun s => (s.id, s.status)) = [(0, .hold)] ∧ lM.hold.toB = [] ∧
    lM.explicitPartition.2.map (·.id) = [0] ∧ (lM.partitionDir true).2.map (·.id) = [0] ∧
    (lM.partitionDir false).2 = [] := by decide

end TV.LinksMatured
