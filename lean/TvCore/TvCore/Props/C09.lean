import TvCore.Model.Ops
import TvCore.Proofs.ListUtil
/-
  C09 — turmoil::net UDP delivers datagrams whole, to the right sockets, at most once.

  `udpReceive` is the host-side decision (the function `World.receive` runs for every datagram that
  reaches a host, from a link or through loopback); the multicast group table decides fan-out.
-/
namespace TV.C09
open TV TV.World

/-- total number of queued datagrams on a host. -/
def queued (hs : Host) : Nat := (hs.udp.map (·.queue.length)).sum

theorem sum_setAt_queue (l : List UdpBind) (i : Nat) (x : Hex × Addr) (h : i < l.length) :
    ((setAt l i (fun b => { b with queue := b.queue ++ [x] })).map (·.queue.length)).sum
      = (l.map (·.queue.length)).sum + 1 := by
  induction l generalizing i with
  | nil => simp at h
  | cons b bs ih =>
    cases i with
    | zero => simp [setAt]; omega
    | succ k =>
      have := ih k (by simpa using h)
      simp [setAt, this]; omega

/-- **Sound routing**: a datagram is queued only on the socket bound to its destination port, only if
    that socket's bind address accepts the destination (wildcard, or exactly that address — a
    localhost bind does not see traffic addressed to the host's own address) and its connected-peer
    filter accepts the source; what is queued is the sender's payload and the sender's address,
    unaltered; every other socket is untouched. -/
theorem receiveAt_sound (cap : Nat) (hs : Host) (bi : Nat) (b : UdpBind) (src dst : Addr) (p : Hex)
    (h : (udpReceiveAt cap hs bi b src dst p).2 = "") :
    addrMatches b.bindAddr dst = true ∧ filterOk b src = true ∧ b.queue.length < cap ∧
      (udpReceiveAt cap hs bi b src dst p).1 =
        { hs with udp := setAt hs.udp bi (fun b => { b with queue := b.queue ++ [(p, src)] }) } := by
  unfold udpReceiveAt at h ⊢
  cases h1 : filterOk b src
  · simp [h1] at h
  · cases h2 : addrMatches b.bindAddr dst
    · simp [h1, h2] at h
    · by_cases h3 : cap ≤ b.queue.length
      · simp [h1, h2, h3] at h
      · simp only [h3, Bool.true_eq_false, if_false]
        exact ⟨trivial, trivial, by omega, trivial⟩

theorem receive_sound (cap : Nat) (hs : Host) (src dst : Addr) (p : Hex)
    (h : (udpReceive cap hs src dst p).2 = "") :
    ∃ bi b, hs.udp.findIdx? (fun b => b.port == dst.port) = some bi ∧ b = hs.udp.getD bi default ∧
      b.port = dst.port ∧ addrMatches b.bindAddr dst = true ∧ filterOk b src = true ∧ b.queue.length < cap ∧
      (udpReceive cap hs src dst p).1 =
        { hs with udp := setAt hs.udp bi (fun b => { b with queue := b.queue ++ [(p, src)] }) } := by
  unfold udpReceive at h ⊢
  cases hf : hs.udp.findIdx? (fun b => b.port == dst.port) with
  | none => simp [hf] at h
  | some bi =>
    simp only [hf] at h ⊢
    have hport : (hs.udp.getD bi default).port = dst.port := by
      obtain ⟨hlt, hp, _⟩ := List.findIdx?_eq_some_iff_getElem.mp hf
      simp only [beq_iff_eq] at hp
      simpa [List.getD, List.getElem?_eq_getElem hlt] using hp
    obtain ⟨a, b, c, d⟩ := receiveAt_sound cap hs bi _ src dst p h
    exact ⟨bi, _, rfl, rfl, hport, a, b, c, d⟩

theorem dropAt_isolated (cap : Nat) (hs : Host) (bi : Nat) (b : UdpBind) (src dst : Addr) (p : Hex)
    (h : (udpReceiveAt cap hs bi b src dst p).2 ≠ "") : (udpReceiveAt cap hs bi b src dst p).1 = hs := by
  unfold udpReceiveAt at h ⊢
  cases h1 : filterOk b src
  · simp
  · cases h2 : addrMatches b.bindAddr dst
    · simp
    · by_cases h3 : cap ≤ b.queue.length
      · simp [h3]
      · simp [h1, h2, h3] at h

/-- **A dropped datagram disturbs nothing**: unbound port, bind address or peer filter mismatch, or a
    full queue leave the host exactly as it was. -/
theorem drop_isolated (cap : Nat) (hs : Host) (src dst : Addr) (p : Hex)
    (h : (udpReceive cap hs src dst p).2 ≠ "") : (udpReceive cap hs src dst p).1 = hs := by
  unfold udpReceive at h ⊢
  cases hf : hs.udp.findIdx? (fun b => b.port == dst.port) with
  | none => rfl
  | some bi =>
    simp only [hf] at h ⊢
    exact dropAt_isolated cap hs bi _ src dst p h

/-- **At most once per arrival**: one datagram reaching a host adds at most one entry, to at most
    one socket. -/
theorem at_most_one (cap : Nat) (hs : Host) (src dst : Addr) (p : Hex) :
    queued (udpReceive cap hs src dst p).1 ≤ queued hs + 1 := by
  by_cases h : (udpReceive cap hs src dst p).2 = ""
  · obtain ⟨bi, b, hf, _, _, _, _, _, he⟩ := receive_sound cap hs src dst p h
    rw [he]
    have hlt : bi < hs.udp.length := (List.findIdx?_eq_some_iff_getElem.mp hf).1
    unfold queued
    simp only
    rw [sum_setAt_queue _ _ _ hlt]
    omega
  · rw [drop_isolated cap hs src dst p h]; omega

/-- The receive buffer cuts the datagram to its length and returns the rest unaltered. -/
theorem truncation (p : Hex) (n : Nat) : hexTake p n ++ hexDrop p n = p := by
  unfold hexTake hexDrop
  rw [← String.ofList_append, List.take_append_drop, String.ofList_toList]

/-! ### multicast membership -/

def members (w : World) (g : Addr) : List Addr :=
  match w.mgroups.find? (·.1 == g) with | some p => p.2 | none => []

/-- joining twice does not duplicate a member: the members of every group stay distinct. -/
def GroupsNodup (w : World) : Prop := ∀ p ∈ w.mgroups, p.2.Nodup

theorem join_nodup (w : World) (h s : Nat) (g iface : Ip) (hw : GroupsNodup w) :
    GroupsNodup (w.opUdpJoin h s g iface).1 := by
  unfold opUdpJoin
  split
  · split
    · exact hw
    · split
      · exact hw
      · rename_i loc _ _ _
        simp only
        split
        · intro p hp
          simp only [List.mem_map] at hp
          obtain ⟨q, hq, rfl⟩ := hp
          split
          · split
            · exact hw q hq
            · rename_i hnc
              refine List.nodup_append.mpr ⟨hw q hq, by simp, ?_⟩
              intro a ha b hb
              simp at hb; subst hb
              intro hab; subst hab
              exact hnc (by simpa using ha)
          · exact hw q hq
        · intro p hp
          rcases List.mem_append.mp hp with hp | hp
          · exact hw p hp
          · simp at hp; subst hp; simp
  · exact hw

end TV.C09
