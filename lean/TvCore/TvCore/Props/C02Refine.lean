import TvCore.Proofs.C02RefineLemmas
/-
  C02 — refinement: the abstract receive-side machine `TV.C02.Rx` of `Props/C02.lean` IS what the World
  operations run.

  `Props/C02.lean` proves the prefix property for the machine `Rx` (`arrive`, `pop`, `popRedrain`).  Here
  that machine is tied to the World model the replay driver executes.

  1. projection (defined in `Proofs/C02RefineLemmas.lean`):
       `sockAt w h i`  = `(w.host! h).socks.getD i default`      socket `i` of host `h`
       `chanOf w h i`  = `w.chan! (sockAt w h i).chan`            its mpsc channel
       `rxOf w h i consumed : Rx` = ⟨buf, recvSeq of the socket, items of its channel, consumed (ghost)⟩
       `SockWf w h i`  : host, socket and channel indices are in range
       `RxFrame w w' h i` : nothing but that socket's buf / recvSeq and that channel's items differs
                            (and the bookkeeping fields `cov`, `panicked`)
  2. `sockBuffer_refines` / `sockBuffer_dead` / `sockBuffer_rst_only_dead`: `World.sockBuffer` = `arrive`, frame;
     `receive_is_sockBuffer`: `World.receive` of a data / FIN envelope is `sockBuffer` on the socket found.
  3. `read_refines`, `read_stash_untouched`, `peek_then_read`, `chunks_concat`, `reads_concat`:
     `World.opTcpRead` = `pop` / `popRedrain`, the stash, peek, partial reads.
  4. `tryWrite_numbers`, `tryWrite_nosend(_frame)`, `shutdown_numbers`, `shutdown_nosend`, `dropWrite_numbers`,
     `tx_sends`, `writes_consecutive`, `writes_numbered`: sender numbering;
     `witness_refused_consumes_seq`: a write refused by the network HAS used its sequence number.
  5. `step_refines`, `world_run_refines`, `world_prefix`, `world_prefix_fresh`: any interleaving of World-level
     arrivals (each sequence number at most once) and reads on one socket pops a prefix of the sender's
     segment sequence (via `allAdmissible_of_nodup` and `TV.C02.run_inv`).
  6. non-vacuity: an established stream between two hosts built with the model's own ops.
-/
namespace TV.C02
open TV TV.World

/-! ## 2. `sockBuffer` refines `arrive` -/

/-- **`sockBuffer` is `arrive`** (receiver alive): the socket's projection after `World.sockBuffer` is the
    abstract `arrive` of its projection before, with the channel's capacity; no RST is requested; and
    nothing else of the world changes (`RxFrame`: other hosts, other sockets of the host, the socket's
    addresses / send counter / channel / half-close count, other channels, the channel's capacity and
    liveness flags, links, credits, SYN cells, … — only `cov` tags and the panic flag may differ). -/
theorem sockBuffer_refines (w : World) (h i seq : Nat) (seg : Seg) (consumed : List Seg)
    (hwf : SockWf w h i) (halive : (chanOf w h i).rxAlive = true) :
    rxOf (w.sockBuffer h i seq seg).2 h i consumed = arrive (chanOf w h i).cap (rxOf w h i consumed) seq seg ∧
    (w.sockBuffer h i seq seg).1 = false ∧
    RxFrame w (w.sockBuffer h i seq seg).2 h i := by
  rcases hd : drainBuf (chanOf w h i).cap (chanOf w h i).rxAlive (((sockAt w h i).buf ++ [(seq, seg)]).length + 1)
      ((sockAt w h i).buf ++ [(seq, seg)]) (sockAt w h i).recvSeq (chanOf w h i).items with ⟨b, rs, items, rst⟩
  obtain ⟨W, hbk, he⟩ := sockBuffer_eq w h i seq seg b rs items rst hd
  rw [he]
  have hwfW : SockWf W h i := (sameSocks_of_bk hbk h).wf hwf
  refine ⟨?_, ?_, rxFrame_setRx w W hbk h i b rs items hwf⟩
  · simp only
    rw [← hbk.sockAt, rxOf_setRx W h i b rs items hwfW]
    rw [halive] at hd
    simp only [arrive_eq_drainRx, drainRx, rxOf, hd]
  · simp only
    cases rst with
    | false => rfl
    | true =>
      have := drainBuf_rst _ _ _ _ _ _ (by rw [hd])
      rw [halive] at this
      exact absurd this (by simp)

/-- the Bool `sockBuffer` returns (RST needed) is true only when the channel's receiver is gone — no
    side condition. -/
theorem sockBuffer_rst_only_dead (w : World) (h i seq : Nat) (seg : Seg)
    (hr : (w.sockBuffer h i seq seg).1 = true) : (chanOf w h i).rxAlive = false := by
  rcases hd : drainBuf (chanOf w h i).cap (chanOf w h i).rxAlive (((sockAt w h i).buf ++ [(seq, seg)]).length + 1)
      ((sockAt w h i).buf ++ [(seq, seg)]) (sockAt w h i).recvSeq (chanOf w h i).items with ⟨b, rs, items, rst⟩
  obtain ⟨W, _, he⟩ := sockBuffer_eq w h i seq seg b rs items rst hd
  rw [he] at hr
  exact drainBuf_rst _ _ _ _ _ _ (by rw [hd]; exact hr)

/-- **receiver gone** (read half dropped / connector gone): the segment is parked, nothing reaches the
    channel; if the next expected segment is now parked, `recv_seq` is bumped by one (and the segment
    stays parked — as in `StreamSocket::buffer`, which returns before undoing the increment) and a RST
    is requested; otherwise nothing else happens.  Same frame. -/
theorem sockBuffer_dead (w : World) (h i seq : Nat) (seg : Seg) (consumed : List Seg)
    (hwf : SockWf w h i) (hdead : (chanOf w h i).rxAlive = false) :
    let buf := (sockAt w h i).buf ++ [(seq, seg)]
    let nxt := buf.any (fun p => p.1 == (sockAt w h i).recvSeq + 1)
    rxOf (w.sockBuffer h i seq seg).2 h i consumed =
      { buf := buf, recvSeq := if nxt then (sockAt w h i).recvSeq + 1 else (sockAt w h i).recvSeq,
        chan := (chanOf w h i).items, consumed := consumed } ∧
    (w.sockBuffer h i seq seg).1 = nxt ∧
    RxFrame w (w.sockBuffer h i seq seg).2 h i := by
  intro buf nxt
  have hd : drainBuf (chanOf w h i).cap (chanOf w h i).rxAlive (buf.length + 1) buf (sockAt w h i).recvSeq
      (chanOf w h i).items =
        if (buf.any fun p => p.1 == (sockAt w h i).recvSeq + 1) then (buf, (sockAt w h i).recvSeq + 1, (chanOf w h i).items, true)
        else (buf, (sockAt w h i).recvSeq, (chanOf w h i).items, false) := by
    rw [hdead]; exact drainBuf_dead (chanOf w h i).cap buf.length buf (sockAt w h i).recvSeq (chanOf w h i).items
  cases hn : nxt with
  | false =>
    have hn' : (buf.any fun p => p.1 == (sockAt w h i).recvSeq + 1) = false := hn
    rw [hn'] at hd
    obtain ⟨W, hbk, he⟩ := sockBuffer_eq w h i seq seg _ _ _ _ hd
    rw [he]
    have hwfW : SockWf W h i := (sameSocks_of_bk hbk h).wf hwf
    refine ⟨?_, rfl, rxFrame_setRx w W hbk h i _ _ _ hwf⟩
    simp only
    rw [← hbk.sockAt, rxOf_setRx W h i _ _ _ hwfW, hbk.sockAt]
    rfl
  | true =>
    have hn' : (buf.any fun p => p.1 == (sockAt w h i).recvSeq + 1) = true := hn
    rw [hn'] at hd
    obtain ⟨W, hbk, he⟩ := sockBuffer_eq w h i seq seg _ _ _ _ hd
    rw [he]
    have hwfW : SockWf W h i := (sameSocks_of_bk hbk h).wf hwf
    refine ⟨?_, rfl, rxFrame_setRx w W hbk h i _ _ _ hwf⟩
    simp only
    rw [← hbk.sockAt, rxOf_setRx W h i _ _ _ hwfW, hbk.sockAt]
    rfl

/-! ## 3. `opTcpRead` refines `pop` / `popRedrain` -/

/-- what a read that pops segment `seg` with a buffer of `n` bytes reports. -/
def popObs (seg : Seg) (n : Nat) : String :=
  match seg with
  | .data b => s!"ok {hexTok (hexTake b n)}"
  | .fin => "ok -"

/-- core of the pop case: any world with the socket table / channels of "`w` with the head taken off
    channel `r.chan`", followed by the model's `redrain`. -/
theorem read_core (w w2 : World) (h i : Nat) (r : RdH) (seg : Seg) (rest cons : List Seg)
    (hwf : SockWf w h i) (hfind : findSock (w.host! h) r.loc r.rem = some i)
    (hch : (sockAt w h i).chan = r.chan) (hit : (w.chan! r.chan).items = seg :: rest)
    (halive : (chanOf w h i).rxAlive = true)
    (hs : SameSocks (w.setChan r.chan (fun c => { c with items := rest })) w2 h) :
    rxOf (w2.redrain h r) h i (cons ++ [seg]) =
      if w.cfg.fixFinRedrain then popRedrain (chanOf w h i).cap (rxOf w h i cons) else pop (rxOf w h i cons) := by
  have hwf1 := sockWf_setChan w h i r.chan (fun c => { c with items := rest }) hwf
  have hpop := rxOf_popChan w h i r.chan seg rest cons hwf hch hit
  have hc1 : chanOf (w.setChan r.chan (fun c => { c with items := rest })) h i = { chanOf w h i with items := rest } := by
    have hs1 : sockAt (w.setChan r.chan (fun c => { c with items := rest })) h i = sockAt w h i := rfl
    unfold chanOf
    rw [hs1, hch]
    unfold World.chan! setChan
    exact setAt_getD _ _ _ _ (by rw [← hch]; exact hwf.chan)
  have hal2 : (chanOf w2 h i).rxAlive = true := by rw [hs.chanOf, hc1]; exact halive
  have hf2 : findSock (w2.host! h) r.loc r.rem = some i := by rw [hs.findSock]; exact hfind
  rw [rxOf_redrain w2 h r i _ (hs.wf hwf1) hf2 hal2, hs.rxOf, hs.chanOf, hc1, hpop, hs.cfg]
  rfl

/-- **`opTcpRead` is `pop` (and `popRedrain` with the repair)**: a read (or peek) with a non-zero buffer
    on an open read half with an empty stash, whose channel is non-empty, takes exactly the head
    segment off the channel — the projection of the socket afterwards, with the popped segment appended
    to the ghost history, is the abstract `pop` of the projection before, and with `cfg.fixFinRedrain`
    the abstract `popRedrain` — and reports that segment's first `n` bytes (`"ok -"` = EOF for the FIN). -/
theorem read_refines (w : World) (h s n i : Nat) (peek : Bool) (r : RdH) (wr : Option WrH)
    (seg : Seg) (rest cons : List Seg)
    (hobj : w.getObj h s = some (.stream (some r) wr)) (hcl : r.closed = false) (hn : n ≠ 0)
    (hst : r.stash = none)
    (hwf : SockWf w h i) (hfind : findSock (w.host! h) r.loc r.rem = some i)
    (hch : (sockAt w h i).chan = r.chan) (halive : (chanOf w h i).rxAlive = true)
    (hit : (chanOf w h i).items = seg :: rest) :
    rxOf (w.opTcpRead h s n peek).1 h i (cons ++ [seg]) =
      (if w.cfg.fixFinRedrain then popRedrain (chanOf w h i).cap (rxOf w h i cons) else pop (rxOf w h i cons)) ∧
    (w.opTcpRead h s n peek).2 = popObs seg n := by
  have hit' : (w.chan! r.chan).items = seg :: rest := by rw [← hch]; exact hit
  cases seg with
  | data b =>
    rw [opTcpRead_data w h s n peek r wr b rest hobj hcl hn hst hit']
    refine ⟨?_, rfl⟩
    apply read_core w _ h i r (.data b) rest cons hwf hfind hch hit' halive
    refine SameSocks.trans ?_ (sameSocks_setObj _ h s _)
    have h1 : SameSocks (w.setChan r.chan (fun c => { c with items := rest })) (popW w r rest) h :=
      sameSocks_fcs _ h _
    split
    · exact h1.trans (sameSocks_of_bk (bk_tag _ _) h)
    · exact h1
  | fin =>
    rw [opTcpRead_fin w h s n peek r wr rest hobj hcl hn hst hit']
    refine ⟨?_, rfl⟩
    apply read_core w _ h i r .fin rest cons hwf hfind hch hit' halive
    exact (sameSocks_setObj _ h s _).trans (sameSocks_of_bk (bk_tag _ _) h)

/-- **with a stash the read touches neither buffer nor channel**: the bytes come out of the stash, the
    only thing that changes is the read half's stash (and nothing at all for a peek). -/
theorem read_stash_untouched (w : World) (h s n : Nat) (peek : Bool) (r : RdH) (wr : Option WrH) (b : Hex)
    (hobj : w.getObj h s = some (.stream (some r) wr)) (hcl : r.closed = false) (hn : n ≠ 0)
    (hst : r.stash = some b) :
    (w.opTcpRead h s n peek).2 = s!"ok {hexTok (hexTake b n)}" ∧
    (w.opTcpRead h s n peek).1 =
      (if peek then w else w.setObj h s (.stream (some { r with stash := stashAfter b n }) wr)) ∧
    (w.opTcpRead h s n peek).1.chans = w.chans ∧
    (∀ h', ((w.opTcpRead h s n peek).1.host! h').socks = (w.host! h').socks) ∧
    (∀ i consumed, rxOf (w.opTcpRead h s n peek).1 h i consumed = rxOf w h i consumed) := by
  rw [opTcpRead_stash w h s n peek r wr b hobj hcl hn hst]
  refine ⟨rfl, rfl, ?_, ?_, ?_⟩
  · cases peek <;> rfl
  · intro h'
    cases peek
    · simp only [Bool.false_eq_true, if_false]
      by_cases e : h' = h
      · subst e; exact (sameSocks_setObj w h' s _).socks
      · unfold setObj; rw [host!_setHost_ne _ _ _ _ e]
    · rfl
  · intro i consumed
    cases peek
    · exact (sameSocks_setObj w h s _).rxOf i consumed
    · rfl

/-- **peek neither loses nor duplicates**: with an empty stash and a data segment `b` at the head of the
    channel, `peek n` shows the first `n` bytes of `b` — the same bytes a `read n` in its place returns —
    and parks all of `b` in the stash; a following read or peek of any size `m` is served the first `m`
    bytes of the same `b`; after `peek n; read m` the read half holds the same leftover
    (`stashAfter b m`) as after a plain `read m`, and the socket / channel projection is the same in both
    (exactly one segment was popped). -/
theorem peek_then_read (w : World) (h s n m i : Nat) (r : RdH) (wr : Option WrH) (b : Hex) (rest cons : List Seg)
    (hobj : w.getObj h s = some (.stream (some r) wr)) (hcl : r.closed = false) (hn : n ≠ 0) (hm : m ≠ 0)
    (hst : r.stash = none)
    (hwf : SockWf w h i) (hfind : findSock (w.host! h) r.loc r.rem = some i)
    (hch : (sockAt w h i).chan = r.chan) (halive : (chanOf w h i).rxAlive = true)
    (hit : (chanOf w h i).items = .data b :: rest) :
    let wp := (w.opTcpRead h s n true).1
    (w.opTcpRead h s n true).2 = s!"ok {hexTok (hexTake b n)}" ∧
    (w.opTcpRead h s n false).2 = s!"ok {hexTok (hexTake b n)}" ∧
    wp.getObj h s = some (.stream (some { r with stash := some b }) wr) ∧
    (∀ pk, (wp.opTcpRead h s m pk).2 = s!"ok {hexTok (hexTake b m)}") ∧
    (wp.opTcpRead h s m false).1.getObj h s = some (.stream (some { r with stash := stashAfter b m }) wr) ∧
    (w.opTcpRead h s m false).1.getObj h s = some (.stream (some { r with stash := stashAfter b m }) wr) ∧
    rxOf (wp.opTcpRead h s m false).1 h i (cons ++ [.data b]) = rxOf (w.opTcpRead h s m false).1 h i (cons ++ [.data b]) := by
  intro wp
  have hit' : (w.chan! r.chan).items = .data b :: rest := by rw [← hch]; exact hit
  have hp := read_refines w h s n i true r wr (.data b) rest cons hobj hcl hn hst hwf hfind hch halive hit
  have hr := read_refines w h s n i false r wr (.data b) rest cons hobj hcl hn hst hwf hfind hch halive hit
  have hrm := read_refines w h s m i false r wr (.data b) rest cons hobj hcl hm hst hwf hfind hch halive hit
  have hobjp : wp.getObj h s = some (.stream (some { r with stash := some b }) wr) :=
    getObj_after_data w h s n true r wr b rest hwf.host hobj hcl hn hst hit'
  have hlen : h < wp.hosts.length := by
    show h < (w.opTcpRead h s n true).1.hosts.length
    rw [hosts_length_opTcpRead]; exact hwf.host
  have hst2 := fun pk => read_stash_untouched wp h s m pk { r with stash := some b } wr b hobjp hcl hm rfl
  refine ⟨hp.2, hr.2, hobjp, fun pk => (hst2 pk).1, ?_, ?_, ?_⟩
  · rw [(hst2 false).2.1]
    exact getObj_setObj_self wp h s _ hlen
  · exact getObj_after_data w h s m false r wr b rest hwf.host hobj hcl hm hst hit'
  · rw [(hst2 false).2.2.2.2 i _, hp.1, hrm.1]

/-! ### partial reads of one segment -/

/-- the pieces successive reads with buffer sizes `ns` cut off pending bytes `b`. -/
def chunks : Hex → List Nat → List Hex
  | _, [] => []
  | b, n :: ns => hexTake b n :: chunks (hexDrop b n) ns

/-- what is left of `b` after those reads. -/
def leftover : Hex → List Nat → Hex
  | b, [] => b
  | b, n :: ns => leftover (hexDrop b n) ns

/-- concatenation of hex strings. -/
def catHex (l : List Hex) : Hex := l.foldr (· ++ ·) ""

/-- the segment is not used up before the last of the reads `ns`. -/
def Within : Hex → List Nat → Prop
  | _, [] => True
  | b, n :: ns => (ns = [] ∨ (hexDrop b n).isEmpty = false) ∧ Within (hexDrop b n) ns

/-- **`hexTake`/`hexDrop` algebra**: the pieces handed out, in order, followed by what is left, are the
    segment's payload — whatever the buffer sizes. -/
theorem chunks_concat : ∀ (b : Hex) (ns : List Nat), catHex (chunks b ns) ++ leftover b ns = b
  | b, [] => by simp [catHex, chunks, leftover]
  | b, n :: ns => by
    have ih := chunks_concat (hexDrop b n) ns
    simp only [catHex, chunks, leftover, List.foldr_cons] at ih ⊢
    rw [String.append_assoc, ih]
    exact take_drop b n

/-- `reads` with buffer sizes `ns` on slot `s` of host `h`, collecting what each returns. -/
def readMany (h s : Nat) : World → List Nat → World × List String
  | w, [] => (w, [])
  | w, n :: ns => ((readMany h s (w.opTcpRead h s n false).1 ns).1,
                   (w.opTcpRead h s n false).2 :: (readMany h s (w.opTcpRead h s n false).1 ns).2)

theorem reads_from_stash (h s : Nat) : ∀ (ns : List Nat) (w : World) (r : RdH) (wr : Option WrH) (b : Hex),
    h < w.hosts.length → w.getObj h s = some (.stream (some r) wr) → r.closed = false → r.stash = some b →
    (∀ n ∈ ns, n ≠ 0) → Within b ns →
    (readMany h s w ns).2 = (chunks b ns).map (fun c => s!"ok {hexTok c}") ∧
    (readMany h s w ns).1.chans = w.chans ∧
    (∀ h', ((readMany h s w ns).1.host! h').socks = (w.host! h').socks) ∧
    (ns ≠ [] → ∃ r', (readMany h s w ns).1.getObj h s = some (.stream (some r') wr) ∧
        r'.stash = (if (leftover b ns).isEmpty then none else some (leftover b ns)))
  | [], w, r, wr, b, _, _, _, _, _, _ => ⟨rfl, rfl, fun _ => rfl, fun e => absurd rfl e⟩
  | n :: ns, w, r, wr, b, hh, hobj, hcl, hst, hnz, hwi => by
    have hn : n ≠ 0 := hnz n (by simp)
    have h1 := read_stash_untouched w h s n false r wr b hobj hcl hn hst
    have hw1 : (w.opTcpRead h s n false).1 = w.setObj h s (.stream (some { r with stash := stashAfter b n }) wr) := by
      rw [h1.2.1]; rfl
    have hobj1 : (w.opTcpRead h s n false).1.getObj h s = some (.stream (some { r with stash := stashAfter b n }) wr) := by
      rw [hw1]; exact getObj_setObj_self w h s _ hh
    have hh1 : h < (w.opTcpRead h s n false).1.hosts.length := by rw [hosts_length_opTcpRead]; exact hh
    cases ns with
    | nil =>
      refine ⟨?_, h1.2.2.1, h1.2.2.2.1, fun _ => ⟨_, hobj1, rfl⟩⟩
      simp only [readMany, chunks, List.map_cons, List.map_nil]
      rw [h1.1]
    | cons m ms =>
      have hne : (hexDrop b n).isEmpty = false := by
        rcases hwi.1 with e | e
        · exact absurd e (by simp)
        · exact e
      have hst1 : ({ r with stash := stashAfter b n } : RdH).stash = some (hexDrop b n) := by
        simp [stashAfter, hne]
      have ih := reads_from_stash h s (m :: ms) (w.opTcpRead h s n false).1 _ wr (hexDrop b n) hh1 hobj1 hcl hst1
        (fun k hk => hnz k (by simp [hk])) hwi.2
      refine ⟨?_, ?_, ?_, fun _ => ?_⟩
      · show (w.opTcpRead h s n false).2 :: (readMany h s (w.opTcpRead h s n false).1 (m :: ms)).2 = _
        rw [ih.1, h1.1]; rfl
      · show (readMany h s (w.opTcpRead h s n false).1 (m :: ms)).1.chans = _
        rw [ih.2.1, h1.2.2.1]
      · intro h'
        show ((readMany h s (w.opTcpRead h s n false).1 (m :: ms)).1.host! h').socks = _
        rw [ih.2.2.1 h', h1.2.2.2.1 h']
      · exact ih.2.2.2 (by simp)

/-- **successive partial reads of one data segment**: with an empty stash and the data segment `b` at
    the head of the channel, reads with arbitrary non-zero buffer sizes `n :: ns` (such that `b` is not
    used up before the last of them) return, in order, exactly the pieces `chunks b (n :: ns)`; by
    `chunks_concat` these pieces followed by the leftover are `b`; the read half ends up holding the
    leftover as its stash (none when `b` has been read completely — then the pieces alone are `b`). -/
theorem reads_concat (w : World) (h s n : Nat) (ns : List Nat) (r : RdH) (wr : Option WrH) (b : Hex) (rest : List Seg)
    (hh : h < w.hosts.length)
    (hobj : w.getObj h s = some (.stream (some r) wr)) (hcl : r.closed = false) (hst : r.stash = none)
    (hit : (w.chan! r.chan).items = .data b :: rest)
    (hnz : ∀ k ∈ n :: ns, k ≠ 0) (hwi : Within b (n :: ns)) :
    (readMany h s w (n :: ns)).2 = (chunks b (n :: ns)).map (fun c => s!"ok {hexTok c}") ∧
    catHex (chunks b (n :: ns)) ++ leftover b (n :: ns) = b ∧
    (∃ r', (readMany h s w (n :: ns)).1.getObj h s = some (.stream (some r') wr) ∧
        r'.stash = (if (leftover b (n :: ns)).isEmpty then none else some (leftover b (n :: ns)))) ∧
    ((leftover b (n :: ns)).isEmpty = true → catHex (chunks b (n :: ns)) = b) := by
  have hn : n ≠ 0 := hnz n (by simp)
  have hobj1 := getObj_after_data w h s n false r wr b rest hh hobj hcl hn hst hit
  have hobs : (w.opTcpRead h s n false).2 = s!"ok {hexTok (hexTake b n)}" := by
    rw [opTcpRead_data w h s n false r wr b rest hobj hcl hn hst hit]
  have hh1 : h < (w.opTcpRead h s n false).1.hosts.length := by rw [hosts_length_opTcpRead]; exact hh
  have hcat := chunks_concat b (n :: ns)
  refine ⟨?_, hcat, ?_, ?_⟩
  rotate_left 2
  · intro he
    have : leftover b (n :: ns) = "" := by simpa using he
    rw [this] at hcat
    simpa using hcat
  · cases ns with
    | nil =>
      simp only [readMany, chunks, List.map_cons, List.map_nil]
      rw [hobs]
    | cons m ms =>
      have hne : (hexDrop b n).isEmpty = false := by
        rcases hwi.1 with e | e
        · exact absurd e (by simp)
        · exact e
      have hst1 : ({ r with stash := if false = true then some b else stashAfter b n } : RdH).stash = some (hexDrop b n) := by
        simp [stashAfter, hne]
      have ih := reads_from_stash h s (m :: ms) (w.opTcpRead h s n false).1 _ wr (hexDrop b n) hh1 hobj1 hcl hst1
        (fun k hk => hnz k (by simp [hk])) hwi.2
      show (w.opTcpRead h s n false).2 :: (readMany h s (w.opTcpRead h s n false).1 (m :: ms)).2 = _
      rw [ih.1, hobs]; rfl
  · cases ns with
    | nil => exact ⟨_, hobj1, by simp [leftover, stashAfter]⟩
    | cons m ms =>
      have hne : (hexDrop b n).isEmpty = false := by
        rcases hwi.1 with e | e
        · exact absurd e (by simp)
        · exact e
      have hst1 : ({ r with stash := if false = true then some b else stashAfter b n } : RdH).stash = some (hexDrop b n) := by
        simp [stashAfter, hne]
      have ih := reads_from_stash h s (m :: ms) (w.opTcpRead h s n false).1 _ wr (hexDrop b n) hh1 hobj1 hcl hst1
        (fun k hk => hnz k (by simp [hk])) hwi.2
      exact ih.2.2.2 (by simp)

/-! ## 4. sender side: numbering -/

/-- the socket update of a write / shutdown that reaches the network: `assign_seq`. -/
def bumpSeq (i : Nat) : Host → Host :=
  fun hs => { hs with socks := setAt hs.socks i (fun s => { s with nextSendSeq := s.nextSendSeq + 1 }) }

theorem findSock_lt {hs : Host} {loc rem : Addr} {i : Nat} (hf : findSock hs loc rem = some i) : i < hs.socks.length := by
  unfold findSock at hf
  exact (List.findIdx?_eq_some_iff_getElem.mp hf).1

/-- a send that reports failure has sent nothing (for a data / FIN / RST envelope: the world is unchanged). -/
theorem netSend_refused (w : World) (h : Nat) (e : Env) (hm : ∀ id, e.msg ≠ .syn id)
    (hr : (w.netSend h e).1 = false) : (w.netSend h e).2 = w := by
  have hd : w.dropEnvs [e] = w := by
    unfold dropEnvs
    simp only [List.foldl_cons, List.foldl_nil]
  unfold netSend at hr ⊢
  split at hr
  · simp at hr
  · rename_i hs
    simp only [hs, Bool.false_eq_true, if_false]
    unfold sendMessage at hr ⊢
    split
    · rename_i s d hs' hd'
      simp only [hs', hd'] at hr
      split
      · exact hd
      · rename_i hne
        simp only [hne] at hr
        split
        · rename_i li hli
          simp [hli] at hr
        · exact hd
    · exact hd

/-- **`tryWrite` numbers its segment with `next_send_seq`**: a write of a non-empty buffer on a write half that
    is not shut down, has a credit and whose socket exists performs exactly one `netSend`, of the envelope
    `x.loc → x.rem : .data q p` with `q` the socket's `next_send_seq` before the call, on the world in
    which one credit is taken and that socket's `next_send_seq` is `q + 1`; afterwards the socket's
    `next_send_seq` is `q + 1`, every other socket of the host is as before; the result is `ok len` or,
    when `netSend` reports failure, `err refused` — and then nothing was sent but `q` IS used up
    (see `witness_refused_consumes_seq`). -/
theorem tryWrite_numbers (w : World) (h : Nat) (x : WrH) (p : Hex) (i : Nat)
    (hh : h < w.hosts.length) (hp : hexLen p ≠ 0) (hs : x.shutdown = false) (hc : w.credits x.fc ≠ 0)
    (hf : findSock (w.host! h) x.loc x.rem = some i) :
    let q := (sockAt w h i).nextSendSeq
    let w1 := ({ w with fcs := setAt w.fcs x.fc (· - 1) } : World).setHost h (bumpSeq i)
    let e : Env := { src := x.loc, dst := x.rem, msg := .data q p }
    w.tryWrite h x p = ((w1.netSend h e).2, if (w1.netSend h e).1 then s!"ok {hexLen p}" else "err refused") ∧
    (sockAt (w.tryWrite h x p).1 h i).nextSendSeq = q + 1 ∧
    (∀ j, j ≠ i → sockAt (w.tryWrite h x p).1 h j = sockAt w h j) ∧
    ((w1.netSend h e).1 = false → (w.tryWrite h x p).1 = w1) := by
  intro q w1 e
  have heq : w.tryWrite h x p = ((w1.netSend h e).2, if (w1.netSend h e).1 then s!"ok {hexLen p}" else "err refused") := by
    unfold tryWrite
    have hp' : (hexLen p == 0) = false := by simpa using hp
    have hc' : (w.credits x.fc == 0) = false := by simpa using hc
    have hfn : (w.cfg.fixWriterReset && (findSock (w.host! h) x.loc x.rem).isNone) = false := by
      rw [hf]; simp
    simp only [hp', hs, hfn, hc', Bool.false_eq_true, if_false]
    have hf' : findSock (({ w with fcs := setAt w.fcs x.fc (· - 1) } : World).host! h) x.loc x.rem = some i := hf
    rw [hf']
    rfl
  have hi := findSock_lt hf
  have hsocks : ((w1.netSend h e).2.host! h).socks = (bumpSeq i (w.host! h)).socks := by
    rw [C04.keepsS_netSend h w1 e]
    show ((({ w with fcs := setAt w.fcs x.fc (· - 1) } : World).setHost h (bumpSeq i)).host! h).socks = _
    exact congrArg Host.socks
      (C04.host!_setHost_self ({ w with fcs := setAt w.fcs x.fc (· - 1) } : World) h (bumpSeq i) hh)
  refine ⟨heq, ?_, ?_, ?_⟩
  · rw [heq]
    unfold sockAt
    rw [hsocks]
    simp only [bumpSeq]
    rw [setAt_getD _ _ _ _ hi]
    rfl
  · intro j hne
    rw [heq]
    unfold sockAt
    rw [hsocks]
    simp only [bumpSeq]
    rw [C12.getD_setAt_ne _ _ _ _ _ hne]
  · intro hr
    rw [heq]
    exact netSend_refused w1 h e (fun id => by simp [e]) hr

/-- writes that do not reach the network: nothing is sent, no sequence number is used.  With the repair
    of F-C04-1 (`fixWriterReset`) a missing socket is noticed before the credit check — whatever the
    credit count, and without taking a credit; before it, only a write that still had a credit found out. -/
theorem tryWrite_nosend (w : World) (h : Nat) (x : WrH) (p : Hex) :
    (hexLen p = 0 → w.tryWrite h x p = (w, "ok 0")) ∧
    (hexLen p ≠ 0 → x.shutdown = true → w.tryWrite h x p = (w, "err brokenpipe")) ∧
    (hexLen p ≠ 0 → x.shutdown = false → w.credits x.fc = 0 →
        (w.cfg.fixWriterReset = false ∨ (findSock (w.host! h) x.loc x.rem).isSome) →
        w.tryWrite h x p = (w.tag "nocredit", "err wouldblock")) ∧
    (hexLen p ≠ 0 → x.shutdown = false → w.credits x.fc ≠ 0 → findSock (w.host! h) x.loc x.rem = none →
        w.cfg.fixWriterReset = false →
        w.tryWrite h x p = ({ w with fcs := setAt w.fcs x.fc (· - 1) }, "err brokenpipe")) ∧
    (hexLen p ≠ 0 → x.shutdown = false → findSock (w.host! h) x.loc x.rem = none →
        w.cfg.fixWriterReset = true → w.tryWrite h x p = (w, "err brokenpipe")) := by
  refine ⟨fun hp => ?_, fun hp hs => ?_, fun hp hs hc hx => ?_, fun hp hs hc hf hfx => ?_, fun hp hs hf hfx => ?_⟩
  · unfold tryWrite; simp [hp]
  · have hp' : (hexLen p == 0) = false := by simpa using hp
    unfold tryWrite; simp [hp', hs]
  · have hp' : (hexLen p == 0) = false := by simpa using hp
    have hfn : (w.cfg.fixWriterReset && (findSock (w.host! h) x.loc x.rem).isNone) = false := by
      rcases hx with e | e
      · simp [e]
      · cases hfs : findSock (w.host! h) x.loc x.rem with
        | none => simp [hfs] at e
        | some i => simp
    unfold tryWrite; simp [hp', hs, hfn, hc]
  · have hp' : (hexLen p == 0) = false := by simpa using hp
    have hc' : (w.credits x.fc == 0) = false := by simpa using hc
    have hf' : findSock (({ w with fcs := setAt w.fcs x.fc (· - 1) } : World).host! h) x.loc x.rem = none := hf
    have hfn : (w.cfg.fixWriterReset && (findSock (w.host! h) x.loc x.rem).isNone) = false := by simp [hfx]
    unfold tryWrite
    simp only [hp', hs, hfn, hc', Bool.false_eq_true, if_false]
    rw [hf']
  · have hp' : (hexLen p == 0) = false := by simpa using hp
    have hfn : (w.cfg.fixWriterReset && (findSock (w.host! h) x.loc x.rem).isNone) = true := by simp [hfx, hf]
    unfold tryWrite
    simp only [hp', hs, hfn, Bool.false_eq_true, if_false, if_true]

/-- … in each of these cases the host table (every `next_send_seq`) and every link are as before. -/
theorem tryWrite_nosend_frame (w : World) (h : Nat) (x : WrH) (p : Hex)
    (hno : hexLen p = 0 ∨ x.shutdown = true ∨ w.credits x.fc = 0 ∨ findSock (w.host! h) x.loc x.rem = none) :
    (w.tryWrite h x p).1.hosts = w.hosts ∧ (w.tryWrite h x p).1.links = w.links := by
  have hc := tryWrite_nosend w h x p
  by_cases hp : hexLen p = 0
  · rw [hc.1 hp]; exact ⟨rfl, rfl⟩
  · cases hs : x.shutdown with
    | true => rw [hc.2.1 hp hs]; exact ⟨rfl, rfl⟩
    | false =>
      cases hfx : w.cfg.fixWriterReset with
      | true =>
        cases hfs : findSock (w.host! h) x.loc x.rem with
        | none => rw [hc.2.2.2.2 hp hs hfs hfx]; exact ⟨rfl, rfl⟩
        | some i =>
          by_cases hcr : w.credits x.fc = 0
          · rw [hc.2.2.1 hp hs hcr (Or.inr (by simp [hfs]))]; exact ⟨C04.hosts_tag _ _, WorldLinks.links_tag _ _⟩
          · rcases hno with e | e | e | e
            · exact absurd e hp
            · rw [hs] at e; exact absurd e (by simp)
            · exact absurd e hcr
            · rw [hfs] at e; exact absurd e (by simp)
      | false =>
        by_cases hcr : w.credits x.fc = 0
        · rw [hc.2.2.1 hp hs hcr (Or.inl hfx)]; exact ⟨C04.hosts_tag _ _, WorldLinks.links_tag _ _⟩
        · rcases hno with e | e | e | e
          · exact absurd e hp
          · rw [hs] at e; exact absurd e (by simp)
          · exact absurd e hcr
          · rw [hc.2.2.2.1 hp hs hcr e hfx]; exact ⟨rfl, rfl⟩

/-- the shape of a world after a numbered send from socket `i` of host `h`. -/
theorem sent_shape (w0 : World) (h i : Nat) (e : Env) (hh : h < w0.hosts.length) :
    let w' := ((w0.setHost h (bumpSeq i)).netSend h e).2
    (w'.host! h).socks = setAt (w0.host! h).socks i (fun s => { s with nextSendSeq := s.nextSendSeq + 1 }) ∧
    (w'.host! h).objs = (w0.host! h).objs ∧
    w'.hosts.length = w0.hosts.length := by
  intro w'
  have h1 : ((w0.setHost h (bumpSeq i)).host! h) = bumpSeq i (w0.host! h) := C04.host!_setHost_self _ _ _ hh
  refine ⟨?_, ?_, ?_⟩
  · show (w'.host! h).socks = _
    rw [C04.keepsS_netSend h _ e, h1]; rfl
  · show (((w0.setHost h (bumpSeq i)).netSend h e).2.host! h).objs = _
    unfold netSend
    split
    · unfold sendLoopback
      have : ∀ (W : World) (t : String), (W.tag t).host! h = W.host! h := fun W t => (bk_tag W t).host! h
      rw [this, C04.host!_setHost]
      split
      · simp only; rw [h1]; rfl
      · rw [h1]; rfl
    · have : ∀ (W : World) (e : Env), (W.sendMessage e).2.host! h = W.host! h := by
        intro W e; unfold World.host!; rw [C04.hosts_sendMessage]
      rw [this, h1]; rfl
  · show ((w0.setHost h (bumpSeq i)).netSend h e).2.hosts.length = _
    rw [C04.len_netSend]; simp [setHost]

/-- **`opTcpShutdown` numbers the FIN like a write**: a shutdown of a write half that is not yet shut down
    and whose socket exists hands the network exactly one `.fin q` envelope, `q` the socket's
    `next_send_seq` before the call, and increments `next_send_seq` by one. -/
theorem shutdown_numbers (w : World) (h s : Nat) (rd : Option RdH) (x : WrH) (i : Nat)
    (hh : h < w.hosts.length) (hobj : w.getObj h s = some (.stream rd (some x)))
    (hs : x.shutdown = false) (hf : findSock (w.host! h) x.loc x.rem = some i) :
    let q := (sockAt w h i).nextSendSeq
    let w1 := w.setHost h (bumpSeq i)
    let e : Env := { src := x.loc, dst := x.rem, msg := .fin q }
    w.opTcpShutdown h s =
      (if (w1.netSend h e).1 then ((w1.netSend h e).2.setObj h s (.stream rd (some { x with shutdown := true })), "ok")
       else ((w1.netSend h e).2, "err refused")) ∧
    (sockAt (w.opTcpShutdown h s).1 h i).nextSendSeq = q + 1 := by
  intro q w1 e
  have heq : w.opTcpShutdown h s =
      (if (w1.netSend h e).1 then ((w1.netSend h e).2.setObj h s (.stream rd (some { x with shutdown := true })), "ok")
       else ((w1.netSend h e).2, "err refused")) := by
    unfold opTcpShutdown
    rw [hobj]
    simp only [hs, Bool.false_eq_true, if_false, hf]
    rfl
  have hi := findSock_lt hf
  have hsh := sent_shape w h i e hh
  refine ⟨heq, ?_⟩
  rw [heq]
  have hfin : (sockAt (w1.netSend h e).2 h i).nextSendSeq = q + 1 := by
    unfold sockAt
    rw [hsh.1, setAt_getD _ _ _ _ hi]
    rfl
  split
  · simp only
    rw [(sameSocks_setObj _ h s _).sockAt]; exact hfin
  · exact hfin

/-- a shutdown that does not reach the network. -/
theorem shutdown_nosend (w : World) (h s : Nat) (rd : Option RdH) (x : WrH)
    (hobj : w.getObj h s = some (.stream rd (some x))) :
    (x.shutdown = true → w.opTcpShutdown h s = (w, "err notconnected")) ∧
    (x.shutdown = false → findSock (w.host! h) x.loc x.rem = none → w.opTcpShutdown h s = (w, "err brokenpipe")) := by
  refine ⟨fun hs => ?_, fun hs hf => ?_⟩
  · unfold opTcpShutdown; rw [hobj]; simp [hs]
  · unfold opTcpShutdown; rw [hobj]; simp [hs, hf]

/-! ### the sender's accepted writes are numbered consecutively -/

/-- sender-side calls on one stream object (slot `s` of host `h`). -/
inductive TxOp | write (p : Hex) (poll : Bool) | shutdown

/-- the write half held in slot `s`. -/
def wrHalf (w : World) (h s : Nat) : Option WrH :=
  match w.getObj h s with
  | some (.stream _ (some x)) => some x
  | _ => none

/-- ghost: the TCP message a sender call hands to the network (`none`: the call does not get that far:
    empty buffer, shut down, no credit, no socket).  `tx_sends` shows it is what `netSend` receives. -/
def txMsg (w : World) (h s : Nat) : TxOp → Option Msg
  | .write p _ =>
    match wrHalf w h s with
    | some x =>
      if x.shutdown || hexLen p == 0 || w.credits x.fc == 0 then none
      else (findSock (w.host! h) x.loc x.rem).map (fun i => Msg.data (sockAt w h i).nextSendSeq p)
    | none => none
  | .shutdown =>
    match wrHalf w h s with
    | some x =>
      if x.shutdown then none
      else (findSock (w.host! h) x.loc x.rem).map (fun i => Msg.fin (sockAt w h i).nextSendSeq)
    | none => none

def txStep (h s : Nat) (w : World) : TxOp → World
  | .write p poll => (w.opTcpWrite h s p poll).1
  | .shutdown => (w.opTcpShutdown h s).1

/-- the messages handed to the network over a run of sender calls, in order. -/
def txTrace (h s : Nat) : World → List TxOp → List Msg
  | _, [] => []
  | w, op :: ops => (txMsg w h s op).toList ++ txTrace h s (txStep h s w op) ops

def msgSeq : Msg → Nat
  | .data q _ => q
  | .fin q => q
  | _ => 0

/-- slot `s` of host `h` holds a stream object whose write half belongs to socket `i` (pair `loc`,`rem`). -/
structure TxLinked (w : World) (h s i : Nat) (loc rem : Addr) : Prop where
  host : h < w.hosts.length
  find : findSock (w.host! h) loc rem = some i
  obj : ∃ rd x, w.getObj h s = some (.stream rd (some x)) ∧ x.loc = loc ∧ x.rem = rem

theorem wrHalf_of_obj {w : World} {h s : Nat} {rd : Option RdH} {x : WrH}
    (hobj : w.getObj h s = some (.stream rd (some x))) : wrHalf w h s = some x := by
  unfold wrHalf; rw [hobj]

/-- **the ghost is what the network gets**: when `txMsg` is `some m` the call performs exactly one
    `netSend`, of the envelope `x.loc → x.rem : m`, on the world in which the socket's `next_send_seq`
    has been incremented (and, for a write, one credit taken); the stream object is re-stored only by a
    successful shutdown.  When it is `none` the host table and all links are untouched. -/
theorem tx_sends (w : World) (h s i : Nat) (loc rem : Addr) (hl : TxLinked w h s i loc rem) (op : TxOp) :
    match txMsg w h s op with
    | some m => ∃ (w0 : World) (o : Option (Option RdH × WrH)), SameSocks w w0 h ∧ (w0.host! h).objs = (w.host! h).objs ∧
        (∀ ob ∈ o, ob.2.loc = loc ∧ ob.2.rem = rem) ∧
        txStep h s w op =
          (match o with
           | some ob => (((w0.setHost h (bumpSeq i)).netSend h { src := loc, dst := rem, msg := m }).2).setObj h s
                          (.stream ob.1 (some ob.2))
           | none => ((w0.setHost h (bumpSeq i)).netSend h { src := loc, dst := rem, msg := m }).2)
    | none => (txStep h s w op).hosts = w.hosts ∧ (txStep h s w op).links = w.links := by
  obtain ⟨rd, x, hobj, rfl, rfl⟩ := hl.obj
  have hwr := wrHalf_of_obj hobj
  cases op with
  | write p poll =>
    simp only [txMsg, hwr, txStep]
    have hop : w.opTcpWrite h s p poll =
        if (poll && x.shutdown) = true then (w, "err brokenpipe")
        else ((w.tryWrite h x p).1, if (poll && (w.tryWrite h x p).2 == "err wouldblock") = true then "pending" else (w.tryWrite h x p).2) := by
      unfold opTcpWrite; rw [hobj]
    by_cases hc : (x.shutdown || hexLen p == 0 || w.credits x.fc == 0) = true
    · simp only [hc, if_true]
      rw [hop]
      split
      · exact ⟨rfl, rfl⟩
      · simp only
        apply tryWrite_nosend_frame
        simp only [Bool.or_eq_true, beq_iff_eq] at hc
        rcases hc with (hc | hc) | hc
        · exact Or.inr (Or.inl hc)
        · exact Or.inl hc
        · exact Or.inr (Or.inr (Or.inl hc))
    · simp only [hc, Bool.false_eq_true, if_false, hl.find, Option.map_some]
      simp only [Bool.or_eq_true, beq_iff_eq, not_or] at hc
      have hs : x.shutdown = false := by simpa using hc.1.1
      have hn := tryWrite_numbers w h x p i hl.host hc.1.2 hs hc.2 hl.find
      refine ⟨{ w with fcs := setAt w.fcs x.fc (· - 1) }, none, sameSocks_fcs w h _, rfl, by simp, ?_⟩
      rw [hop]
      simp only [hs, Bool.and_false, Bool.false_eq_true, if_false]
      rw [hn.1]
  | shutdown =>
    simp only [txMsg, hwr, txStep]
    cases hs : x.shutdown with
    | true =>
      simp only [if_true]
      rw [(shutdown_nosend w h s rd x hobj).1 hs]
      exact ⟨rfl, rfl⟩
    | false =>
      simp only [Bool.false_eq_true, if_false, hl.find, Option.map_some]
      have hn := shutdown_numbers w h s rd x i hl.host hobj hs hl.find
      rw [hn.1]
      by_cases hok : ((w.setHost h (bumpSeq i)).netSend h { src := x.loc, dst := x.rem, msg := .fin (sockAt w h i).nextSendSeq }).1 = true
      · exact ⟨w, some (rd, { x with shutdown := true }), SameSocks.refl w h, rfl, by simp, by simp only [hok, if_true]⟩
      · exact ⟨w, none, SameSocks.refl w h, rfl, by simp, by simp only [hok]; rfl⟩

theorem txMsg_seq (w : World) (h s i : Nat) (loc rem : Addr) (hl : TxLinked w h s i loc rem) (op : TxOp) (m : Msg)
    (hm : txMsg w h s op = some m) : msgSeq m = (sockAt w h i).nextSendSeq ∧ (∀ id, m ≠ .syn id) := by
  obtain ⟨rd, x, hobj, rfl, rfl⟩ := hl.obj
  have hwr := wrHalf_of_obj hobj
  cases op with
  | write p poll =>
    simp only [txMsg, hwr, hl.find, Option.map_some] at hm
    split at hm
    · exact absurd hm (by simp)
    · cases hm; exact ⟨rfl, by simp⟩
  | shutdown =>
    simp only [txMsg, hwr, hl.find, Option.map_some] at hm
    split at hm
    · exact absurd hm (by simp)
    · cases hm; exact ⟨rfl, by simp⟩

theorem tx_step (w : World) (h s i : Nat) (loc rem : Addr) (hl : TxLinked w h s i loc rem) (op : TxOp) :
    TxLinked (txStep h s w op) h s i loc rem ∧
    (sockAt (txStep h s w op) h i).nextSendSeq = (sockAt w h i).nextSendSeq + (txMsg w h s op).toList.length := by
  have hts := tx_sends w h s i loc rem hl op
  cases hm : txMsg w h s op with
  | none =>
    rw [hm] at hts
    have hhost : (txStep h s w op).host! h = w.host! h := by unfold World.host!; rw [hts.1]
    refine ⟨⟨by rw [hts.1]; exact hl.host, by rw [hhost]; exact hl.find, ?_⟩, ?_⟩
    · obtain ⟨rd, x, hobj, h1, h2⟩ := hl.obj
      exact ⟨rd, x, by rw [getObj_of_host (w := w) (by rw [hhost]) s]; exact hobj, h1, h2⟩
    · unfold sockAt; rw [hhost]; rfl
  | some m =>
    rw [hm] at hts
    obtain ⟨w0, o, hsame, hobjs, hob, heq⟩ := hts
    have hh0 : h < w0.hosts.length := by rw [hsame.len]; exact hl.host
    have hsh := sent_shape w0 h i { src := loc, dst := rem, msg := m } hh0
    have hi := findSock_lt hl.find
    obtain ⟨rd, x, hobj, h1, h2⟩ := hl.obj
    -- facts about the world right after the send
    have hsocks := hsh.1
    rw [hsame.socks] at hsocks
    have hfind1 : findSock (((w0.setHost h (bumpSeq i)).netSend h { src := loc, dst := rem, msg := m }).2.host! h) loc rem = some i := by
      unfold findSock; rw [hsocks]
      exact (findIdx?_setAt (w.host! h).socks i (fun s => { s with nextSendSeq := s.nextSendSeq + 1 }) _ (fun _ => rfl)).trans hl.find
    have hseq1 : (sockAt ((w0.setHost h (bumpSeq i)).netSend h { src := loc, dst := rem, msg := m }).2 h i).nextSendSeq
        = (sockAt w h i).nextSendSeq + 1 := by
      unfold sockAt; rw [hsocks, setAt_getD _ _ _ _ hi]
    have hlen1 := hsh.2.2
    rw [hsame.len] at hlen1
    cases o with
    | none =>
      simp only at heq
      rw [heq]
      refine ⟨⟨by rw [hlen1]; exact hl.host, hfind1, rd, x, ?_, h1, h2⟩, by simpa using hseq1⟩
      rw [getObj_of_host (hsh.2.1.trans hobjs) s]; exact hobj
    | some ob =>
      simp only at heq
      rw [heq]
      have hss := sameSocks_setObj ((w0.setHost h (bumpSeq i)).netSend h { src := loc, dst := rem, msg := m }).2 h s
        (.stream ob.1 (some ob.2))
      refine ⟨⟨by rw [hss.len, hlen1]; exact hl.host, by rw [hss.findSock]; exact hfind1, ob.1, ob.2, ?_, hob ob rfl⟩, ?_⟩
      · exact getObj_setObj_self _ h s _ (by rw [hlen1]; exact hl.host)
      · rw [hss.sockAt]; simpa using hseq1

/-- **consecutive numbering**: over any run of writes (any payloads, `try_write` or `poll_write`) and
    shutdowns on a stream object, the messages handed to the network carry the sequence numbers
    `q0, q0+1, q0+2, …` (`q0` = the socket's `next_send_seq` at the start; 1 on a fresh stream), one per
    accepted call, FIN included, none skipped, none reused; and `next_send_seq` ends at `q0 + their number`. -/
theorem writes_consecutive (h s i : Nat) (loc rem : Addr) : ∀ (ops : List TxOp) (w : World),
    TxLinked w h s i loc rem →
    (txTrace h s w ops).map msgSeq = List.range' (sockAt w h i).nextSendSeq (txTrace h s w ops).length ∧
    (sockAt (ops.foldl (txStep h s) w) h i).nextSendSeq = (sockAt w h i).nextSendSeq + (txTrace h s w ops).length ∧
    TxLinked (ops.foldl (txStep h s) w) h s i loc rem
  | [], w, hl => ⟨rfl, rfl, hl⟩
  | op :: ops, w, hl => by
    have hst := tx_step w h s i loc rem hl op
    have ih := writes_consecutive h s i loc rem ops (txStep h s w op) hst.1
    simp only [txTrace, List.foldl_cons, List.map_append, List.length_append]
    refine ⟨?_, ?_, ih.2.2⟩
    · rw [ih.1, hst.2]
      cases hm : txMsg w h s op with
      | none => simp
      | some m =>
        have := (txMsg_seq w h s i loc rem hl op m hm).1
        simp only [Option.toList_some, List.map_cons, List.map_nil, List.length_cons, List.length_nil, this]
        rw [Nat.add_comm 1, List.range'_succ]
        simp
    · rw [ih.2.1, hst.2]; omega

/-- the clause "a refused write leaves `next_send_seq` unchanged", as a statement. -/
def RefusedKeepsSeq : Prop :=
  ∀ (w : World) (h : Nat) (x : WrH) (p : Hex) (i : Nat), findSock (w.host! h) x.loc x.rem = some i →
    (w.tryWrite h x p).2 = "err refused" →
    (sockAt (w.tryWrite h x p).1 h i).nextSendSeq = (sockAt w h i).nextSendSeq

/-- a socket whose peer address belongs to no host (what a refused `connect` leaves behind in the
    unrepaired model), and a write half for it. -/
def wRefused : World :=
  { hosts := [{ ipnum := 1, nextEph := 49152,
                socks := [{ loc := ⟨.host 0, 5000⟩, rem := ⟨.x 7, 80⟩, chan := 0, fcW := 0 }] }],
    chans := [{ cap := 64 }], fcs := [64, 64] }
def xRefused : WrH := { loc := ⟨.host 0, 5000⟩, rem := ⟨.x 7, 80⟩, fc := 0 }

/-- **that clause is false in the model (and in `WriteHalf::try_write`, which calls `seq()?` before
    `send()?`)**: a write refused by the network has already taken its sequence number (and a credit). -/
theorem witness_refused_consumes_seq : ¬ RefusedKeepsSeq := by
  intro hk
  have := hk wRefused 0 xRefused "41" 0 (by decide) (by decide)
  revert this
  decide

/-! ### the two ends meet: what the sender numbers is what `receive` buffers -/

/-- the application-level segment a TCP message carries. -/
def segOf : Msg → Option Seg
  | .data _ p => some (.data p)
  | .fin _ => some .fin
  | _ => none

/-- **`receive` is `sockBuffer`**: `Host::receive_from_network` hands a data / FIN message for an existing
    socket (looked up by the envelope's destination / source pair) to that socket's `sockBuffer`, with the
    message's sequence number and the segment it carries; without a socket it asks for a RST and only tags. -/
theorem receive_is_sockBuffer (w : World) (h : Nat) (e : Env) (seg : Seg) (hm : segOf e.msg = some seg) :
    (∀ i, findSock (w.host! h) e.dst e.src = some i → w.receive h e = w.sockBuffer h i (msgSeq e.msg) seg) ∧
    (findSock (w.host! h) e.dst e.src = none → w.receive h e = (true, w.tag "rstnosock")) := by
  cases hmsg : e.msg with
  | data q p =>
    rw [hmsg] at hm
    cases hm
    refine ⟨fun i hf => ?_, fun hf => ?_⟩ <;> (unfold receive; simp only [hmsg, hf, msgSeq])
  | fin q =>
    rw [hmsg] at hm
    cases hm
    refine ⟨fun i hf => ?_, fun hf => ?_⟩ <;> (unfold receive; simp only [hmsg, hf, msgSeq])
  | udp p => rw [hmsg] at hm; cases hm
  | syn id => rw [hmsg] at hm; cases hm
  | rst => rw [hmsg] at hm; cases hm

/-- the `k`-th message handed to the network carries sequence number `q0 + k`. -/
theorem writes_numbered (h s i : Nat) (loc rem : Addr) (ops : List TxOp) (w : World)
    (hl : TxLinked w h s i loc rem) (k : Nat) (m : Msg) (hk : (txTrace h s w ops)[k]? = some m) :
    msgSeq m = (sockAt w h i).nextSendSeq + k := by
  have hc := (writes_consecutive h s i loc rem ops w hl).1
  have h1 : ((txTrace h s w ops).map msgSeq)[k]? = some (msgSeq m) := by simp [hk]
  rw [hc] at h1
  have hlt : k < (txTrace h s w ops).length := by
    have := List.getElem?_eq_some_iff.mp hk
    exact this.1
  rw [List.getElem?_range' (by omega)] at h1
  simpa using h1.symm

/-- `Drop for WriteHalf` without a previous shutdown sends the FIN with the next sequence number, too. -/
theorem dropWrite_numbers (w : World) (h : Nat) (x : WrH) (i : Nat) (hs : x.shutdown = false)
    (hf : findSock (w.host! h) x.loc x.rem = some i) :
    w.dropWrite h x =
      ((w.setHost h (bumpSeq i)).netSend h { src := x.loc, dst := x.rem, msg := .fin (sockAt w h i).nextSendSeq }).2.closeStreamHalf
        h x.loc x.rem := by
  unfold dropWrite
  simp only [hs, Bool.not_false, if_true, hf]
  rfl

/-! ## 5. any interleaving of World-level arrivals and reads pops a prefix -/

/-- World-level events on the receive side of one connection: the host's `sockBuffer` is handed the
    sender's `q`-th segment; the application reads / peeks with a buffer of `n` bytes. -/
inductive WOp | arrive (q : Nat) | read (n : Nat) (peek : Bool)

/-- ghost: the segment a read takes off the channel (`none`: served from the stash, read half closed,
    zero-size buffer, empty channel, no stream object).  `read_refines` shows that this is the popped
    segment and that the read reports its bytes. -/
def readPops (w : World) (h s n : Nat) : Option Seg :=
  match w.getObj h s with
  | some (.stream (some r) _) =>
    if r.closed || n == 0 then none else
    match r.stash with
    | some _ => none
    | none => (w.chan! r.chan).items.head?
  | _ => none

/-- one World-level event; the second component collects what reads have popped so far (ghost). -/
def wStep (segs : Nat → Seg) (h i s : Nat) : World × List Seg → WOp → World × List Seg
  | (w, c), .arrive q => ((w.sockBuffer h i q (segs q)).2, c)
  | (w, c), .read n pk => ((w.opTcpRead h s n pk).1, c ++ (readPops w h s n).toList)

/-- the abstract op(s) an event amounts to in the state it is applied to. -/
def absOf (w : World) (h s : Nat) : WOp → List RxOp
  | .arrive q => [.arrive q]
  | .read n _ => if (readPops w h s n).isSome then [.pop] else []

def absRun (segs : Nat → Seg) (h i s : Nat) : World × List Seg → List WOp → List RxOp
  | _, [] => []
  | st, op :: ops => absOf st.1 h s op ++ absRun segs h i s (wStep segs h i s st op) ops

def arrivals : List WOp → List Nat
  | [] => []
  | .arrive q :: ops => q :: arrivals ops
  | .read _ _ :: ops => arrivals ops

/-- socket `i` of host `h` (address pair `loc`/`rem`, channel `c` of capacity `cap`, receiver alive) and the
    stream object in slot `s` of that host, whose read half reads that channel. -/
structure Linked (w : World) (h i s : Nat) (loc rem : Addr) (c cap : Nat) (fx : Bool) : Prop where
  wf : SockWf w h i
  find : findSock (w.host! h) loc rem = some i
  chan : (sockAt w h i).chan = c
  cap : (w.chan! c).cap = cap
  alive : (w.chan! c).rxAlive = true
  fx : w.cfg.fixFinRedrain = fx
  obj : ∃ r wr, w.getObj h s = some (.stream (some r) wr) ∧ r.loc = loc ∧ r.rem = rem ∧ r.chan = c

theorem cfg_of_nonSock {w w' : World} (h : nonSock w' = nonSock w) : w'.cfg = w.cfg := by
  unfold nonSock at h
  exact (Prod.mk.inj h).1

theorem Linked.of_frame {w w' : World} {h i s : Nat} {loc rem : Addr} {c cap : Nat} {fx : Bool}
    (hf : RxFrame w w' h i) (hl : Linked w h i s loc rem c cap fx) : Linked w' h i s loc rem c cap fx := by
  obtain ⟨b, rs, hsr⟩ := hf.sockRest
  obtain ⟨items, hcr⟩ := hf.chanRest
  obtain ⟨socks', hhr⟩ := hf.hostRest
  have hchan : (sockAt w' h i).chan = c := by rw [hsr]; exact hl.chan
  have hco : chanOf w h i = w.chan! c := by unfold chanOf; rw [hl.chan]
  have hco' : chanOf w' h i = w'.chan! c := by unfold chanOf; rw [hchan]
  refine ⟨⟨by rw [hf.hostsLen]; exact hl.wf.host, by rw [hf.socksLen]; exact hl.wf.sock, ?_⟩, ?_, hchan, ?_, ?_, ?_, ?_⟩
  · rw [hchan, hf.chansLen, ← hl.chan]; exact hl.wf.chan
  · rw [hf.findSame]; exact hl.find
  · rw [← hco', hcr, hco]; exact hl.cap
  · rw [← hco', hcr, hco]; exact hl.alive
  · rw [cfg_of_nonSock hf.rest]; exact hl.fx
  · obtain ⟨r, wr, ho, h1, h2, h3⟩ := hl.obj
    exact ⟨r, wr, by rw [getObj_of_host (w := w) (by rw [hhr]) s]; exact ho, h1, h2, h3⟩

theorem Linked.of_same {w w' : World} {h i s : Nat} {loc rem : Addr} {c cap : Nat} {fx : Bool}
    (hs : SameSocks w w' h) (hl : Linked w h i s loc rem c cap fx)
    (ho : ∃ r wr, w'.getObj h s = some (.stream (some r) wr) ∧ r.loc = loc ∧ r.rem = rem ∧ r.chan = c) :
    Linked w' h i s loc rem c cap fx := by
  have hch : ∀ k, w'.chan! k = w.chan! k := fun k => by unfold World.chan!; rw [hs.chans]
  exact ⟨hs.wf hl.wf, by rw [hs.findSock]; exact hl.find, by rw [hs.sockAt]; exact hl.chan,
    by rw [hch]; exact hl.cap, by rw [hch]; exact hl.alive, by rw [hs.cfg]; exact hl.fx, ho⟩


theorem getObj_tag (w : World) (t : String) (h s : Nat) : (w.tag t).getObj h s = w.getObj h s :=
  getObj_of_host (by rw [(bk_tag w t).host!]) s

theorem readPops_eq (w : World) (h s n : Nat) (r : RdH) (wr : Option WrH)
    (ho : w.getObj h s = some (.stream (some r) wr)) :
    readPops w h s n =
      if r.closed = true ∨ n = 0 then none else
      match r.stash with
      | some _ => none
      | none => (w.chan! r.chan).items.head? := by
  unfold readPops
  rw [ho]
  simp only [Bool.or_eq_true, beq_iff_eq]

/-- **one World-level event = the abstract op(s) `absOf` names**, and the link between socket, channel
    and stream object is kept. -/
theorem step_refines (segs : Nat → Seg) (w : World) (h i s : Nat) (loc rem : Addr) (c cap : Nat) (fx : Bool)
    (hl : Linked w h i s loc rem c cap fx) (cons : List Seg) (op : WOp) :
    Linked (wStep segs h i s (w, cons) op).1 h i s loc rem c cap fx ∧
    rxOf (wStep segs h i s (w, cons) op).1 h i (wStep segs h i s (w, cons) op).2 =
      (absOf w h s op).foldl (rxStep segs cap fx) (rxOf w h i cons) := by
  have hco : chanOf w h i = w.chan! c := by unfold chanOf; rw [hl.chan]
  have halive : (chanOf w h i).rxAlive = true := by rw [hco]; exact hl.alive
  have hcap : (chanOf w h i).cap = cap := by rw [hco]; exact hl.cap
  cases op with
  | arrive q =>
    have hr := sockBuffer_refines w h i q (segs q) cons hl.wf halive
    refine ⟨hl.of_frame hr.2.2, ?_⟩
    simp only [wStep, absOf, List.foldl_cons, List.foldl_nil, rxStep]
    rw [hr.1, hcap]
  | read n pk =>
    obtain ⟨r, wr, ho, hloc, hrem, hrc⟩ := hl.obj
    have hpops := readPops_eq w h s n r wr ho
    simp only [wStep, absOf]
    by_cases hz : r.closed = true ∨ n = 0
    · rw [opTcpRead_idle w h s n pk r wr ho hz]
      rw [hpops]; simp only [hz, if_true, Option.toList_none, List.append_nil, Option.isSome_none, Bool.false_eq_true, if_false, List.foldl_nil]
      exact ⟨hl, trivial⟩
    · have hcl : r.closed = false := by
        cases hc : r.closed with
        | false => rfl
        | true => exact absurd (Or.inl hc) hz
      have hn : n ≠ 0 := fun e => hz (Or.inr e)
      cases hst : r.stash with
      | some b =>
        have hu := read_stash_untouched w h s n pk r wr b ho hcl hn hst
        rw [hpops]
        simp only [hz, if_false, hst, Option.toList_none, List.append_nil, Option.isSome_none, Bool.false_eq_true, List.foldl_nil]
        refine ⟨?_, hu.2.2.2.2 i cons⟩
        rw [hu.2.1]
        cases pk
        · simp only [Bool.false_eq_true, if_false]
          exact hl.of_same (sameSocks_setObj w h s _)
            ⟨_, wr, getObj_setObj_self w h s _ hl.wf.host, hloc, hrem, hrc⟩
        · exact hl
      | none =>
        cases hit : (w.chan! r.chan).items with
        | nil =>
          rw [opTcpRead_empty w h s n pk r wr ho hcl hn hst hit, hpops]
          simp only [hz, if_false, hst, hit, List.head?_nil, Option.toList_none, List.append_nil, Option.isSome_none, Bool.false_eq_true, List.foldl_nil]
          split
          · exact ⟨hl, rfl⟩
          · exact ⟨hl.of_same (sameSocks_of_bk (bk_tag w _) h)
              ⟨r, wr, by rw [getObj_tag]; exact ho, hloc, hrem, hrc⟩,
              (sameSocks_of_bk (bk_tag w _) h).rxOf i cons⟩
        | cons seg rest =>
          have hfind : findSock (w.host! h) r.loc r.rem = some i := by rw [hloc, hrem]; exact hl.find
          have hch : (sockAt w h i).chan = r.chan := by rw [hrc]; exact hl.chan
          have hit' : (chanOf w h i).items = seg :: rest := by rw [hco, ← hrc]; exact hit
          have hr := read_refines w h s n i pk r wr seg rest cons ho hcl hn hst hl.wf hfind hch halive hit'
          rw [hpops]
          simp only [hz, if_false, hst, hit, List.head?_cons, Option.toList_some, Option.isSome_some, if_true,
            List.foldl_cons, List.foldl_nil, rxStep]
          refine ⟨?_, ?_⟩
          rotate_left
          · rw [hr.1, hl.fx, hcap]
          · -- the link is kept: w → head taken off → (bookkeeping, credit, object) → redrain
            have hl1 : Linked (w.setChan r.chan (fun ch => { ch with items := rest })) h i s loc rem c cap fx := by
              have := rxFrame_popChan w h i rest hl.wf
              rw [hch] at this
              exact hl.of_frame this
            have hlen : ∀ (o : Obj) (W : World), SameSocks (w.setChan r.chan (fun ch => { ch with items := rest })) W h →
                ∀ r' : RdH, r'.loc = loc → r'.rem = rem → r'.chan = c →
                Linked ((W.setObj h s (.stream (some r') wr)).redrain h r) h i s loc rem c cap fx := by
              intro o W hW r' h1 h2 h3
              have hl2 : Linked (W.setObj h s (.stream (some r') wr)) h i s loc rem c cap fx :=
                hl1.of_same (hW.trans (sameSocks_setObj W h s _))
                  ⟨r', wr, getObj_setObj_self W h s _ (by rw [hW.len]; exact hl.wf.host), h1, h2, h3⟩
              exact hl2.of_frame (rxFrame_redrain _ h r i hl2.wf (by rw [hloc, hrem]; exact hl2.find))
            cases seg with
            | data b =>
              rw [opTcpRead_data w h s n pk r wr b rest ho hcl hn hst hit]
              simp only
              apply hlen (.listener loc)
              · have h1 : SameSocks (w.setChan r.chan (fun c => { c with items := rest })) (popW w r rest) h :=
                  sameSocks_fcs _ h _
                split
                · exact h1.trans (sameSocks_of_bk (bk_tag _ _) h)
                · exact h1
              · exact hloc
              · exact hrem
              · exact hrc
            | fin =>
              rw [opTcpRead_fin w h s n pk r wr rest ho hcl hn hst hit]
              simp only
              -- here the tag comes after setObj
              have hl2 : Linked ((w.setChan r.chan (fun ch => { ch with items := rest })).setObj h s
                  (.stream (some { r with closed := true }) wr)) h i s loc rem c cap fx :=
                hl1.of_same (sameSocks_setObj _ h s _)
                  ⟨_, wr, getObj_setObj_self _ h s _ hl.wf.host, hloc, hrem, hrc⟩
              have hl3 : Linked (((w.setChan r.chan (fun ch => { ch with items := rest })).setObj h s
                  (.stream (some { r with closed := true }) wr)).tag "eof") h i s loc rem c cap fx := by
                obtain ⟨r2, wr2, ho2, a1, a2, a3⟩ := hl2.obj
                exact hl2.of_same (sameSocks_of_bk (bk_tag _ _) h)
                  ⟨r2, wr2, by rw [getObj_tag]; exact ho2, a1, a2, a3⟩
              exact hl3.of_frame (rxFrame_redrain _ h r i hl3.wf (by have := hl3.find; rw [← hloc, ← hrem] at this; exact this))

theorem arrivalsOf_absRun (segs : Nat → Seg) (h i s : Nat) : ∀ (ops : List WOp) (st : World × List Seg),
    arrivalsOf (absRun segs h i s st ops) = arrivals ops
  | [], _ => rfl
  | .arrive q :: ops, st => by
    simp only [absRun, absOf, arrivals, List.singleton_append, arrivalsOf]
    rw [arrivalsOf_absRun segs h i s ops]
  | .read n pk :: ops, st => by
    simp only [absRun, absOf, arrivals, arrivalsOf_append]
    rw [arrivalsOf_absRun segs h i s ops]
    split <;> simp [arrivalsOf]

/-- **the World run is the abstract run** (refinement over whole histories): for every list of
    World-level events on a linked socket / stream object, the projection of the final world — with the
    ghost history the reads produced — is the abstract machine's run of the corresponding abstract ops,
    started from the projection of the initial world; the link is kept. -/
theorem world_run_refines (segs : Nat → Seg) (h i s : Nat) (loc rem : Addr) (c cap : Nat) (fx : Bool) :
    ∀ (ops : List WOp) (st : World × List Seg), Linked st.1 h i s loc rem c cap fx →
      Linked (ops.foldl (wStep segs h i s) st).1 h i s loc rem c cap fx ∧
      rxOf (ops.foldl (wStep segs h i s) st).1 h i (ops.foldl (wStep segs h i s) st).2 =
        (absRun segs h i s st ops).foldl (rxStep segs cap fx) (rxOf st.1 h i st.2)
  | [], _, hl => ⟨hl, rfl⟩
  | op :: ops, st, hl => by
    have hs := step_refines segs st.1 h i s loc rem c cap fx hl st.2 op
    have ih := world_run_refines segs h i s loc rem c cap fx ops (wStep segs h i s st op) hs.1
    simp only [List.foldl_cons, absRun, List.foldl_append]
    refine ⟨ih.1, ?_⟩
    rw [ih.2]
    have hs2 : rxOf (wStep segs h i s st op).1 h i (wStep segs h i s st op).2 =
        (absOf st.1 h s op).foldl (rxStep segs cap fx) (rxOf st.1 h i st.2) := hs.2
    rw [hs2]

/-- **C02 prefix at World level**: take a socket and the stream object reading it (`Linked`), in a
    state whose projection satisfies the receive-side invariant `Inv segs` and has seen the sequence
    numbers `seen0`.  Then for ANY sequence of World-level events — `sockBuffer` arrivals of the sender's
    segments `segs q` in any order, each sequence number at most once and none seen before, interleaved
    in any way with `opTcpRead` reads / peeks of any buffer sizes — the invariant still holds of the
    final world, every abstract op was admissible, and the segments the reads have popped so far are
    `firstSegs segs k` for some `k`: a prefix of what the sender's writes were numbered with. -/
theorem world_prefix (segs : Nat → Seg) (h i s : Nat) (loc rem : Addr) (c cap : Nat) (fx : Bool)
    (w0 : World) (cons0 : List Seg) (seen0 : List Nat) (hl : Linked w0 h i s loc rem c cap fx)
    (hinv : Inv segs (rxOf w0 h i cons0)) (hseen : SeenBy seen0 (rxOf w0 h i cons0))
    (ops : List WOp) (hnd : (seen0 ++ arrivals ops).Nodup) (hpos : ∀ q ∈ arrivals ops, 0 < q) :
    Inv segs (rxOf (ops.foldl (wStep segs h i s) (w0, cons0)).1 h i (ops.foldl (wStep segs h i s) (w0, cons0)).2) ∧
    AllAdmissible segs cap fx (rxOf w0 h i cons0) (absRun segs h i s (w0, cons0) ops) ∧
    ∃ k, (ops.foldl (wStep segs h i s) (w0, cons0)).2 = firstSegs segs k := by
  have hr := world_run_refines segs h i s loc rem c cap fx ops (w0, cons0) hl
  have hadm : AllAdmissible segs cap fx (rxOf w0 h i cons0) (absRun segs h i s (w0, cons0) ops) :=
    allAdmissible_of_nodup segs cap fx _ _ seen0 hseen
      (by rw [arrivalsOf_absRun]; exact hnd) (by rw [arrivalsOf_absRun]; exact hpos)
  have hI := run_inv segs cap fx _ _ hinv hadm
  rw [← hr.2] at hI
  exact ⟨hI, hadm, _, prefix_is_firstSegs segs _ _ _ hI.hist⟩

/-- … in particular from a fresh stream (nothing buffered, `recv_seq = 0`, empty channel, nothing read). -/
theorem world_prefix_fresh (segs : Nat → Seg) (h i s : Nat) (loc rem : Addr) (c cap : Nat) (fx : Bool)
    (w0 : World) (hl : Linked w0 h i s loc rem c cap fx)
    (hbuf : (sockAt w0 h i).buf = []) (hrs : (sockAt w0 h i).recvSeq = 0) (hit : (w0.chan! c).items = [])
    (ops : List WOp) (hnd : (arrivals ops).Nodup) (hpos : ∀ q ∈ arrivals ops, 0 < q) :
    ∃ k, (ops.foldl (wStep segs h i s) (w0, [])).2 = firstSegs segs k := by
  have hrx : rxOf w0 h i [] = {} := by
    unfold rxOf chanOf
    rw [hl.chan, hbuf, hrs, hit]
  refine (world_prefix segs h i s loc rem c cap fx w0 [] [] hl ?_ ?_ ops (by simpa using hnd) hpos).2.2
  · rw [hrx]; exact inv_init segs
  · rw [hrx]; intro q hq hc; simp at hc; omega

/-! ## 6. non-vacuity -/

/-- two hosts (`h0` server, `h1` client) and oracle values for three sends. -/
def exInit : World :=
  (({ oracle := [.fail false, .delay 0, .fail false, .delay 0, .fail false, .delay 0] } : World).register 1 false).register 2 true

/-- an established stream built with the model's own ops: bind + listen on `h0:80`, connect from `h1`,
    the SYN is delivered, `h0` accepts into slot 1, the connector sees the ack. -/
def exEst : World :=
  let w := (exInit.opTcpBind 0 0 ⟨.any, 80⟩).1
  let w := (w.opTcpConnect 1 0 ⟨.host 0, 80⟩).1
  let w := (w.deliverTo 0).2
  let w := (w.opTcpAccept 0 0 1).1
  (w.connectPoll 1 0).1

/-- the client writes two bytes; the segment is delivered to `h0`. -/
def exData : World :=
  let w := (exEst.opTcpWrite 1 0 "4142" false).1
  (w.deliverTo 0).2


def exLoc : Addr := ⟨.host 0, 80⟩
def exRem : Addr := ⟨.host 1, 49152⟩

/-- the server's socket (host 0, index 0, channel 1 of capacity 64) and its stream object (slot 1) are linked. -/
theorem exEst_linked : Linked exEst 0 0 1 exLoc exRem 1 64 false :=
  ⟨⟨by decide, by decide, by decide⟩, by decide, by decide, by decide, by decide, by decide,
   ⟨_, _, rfl, by decide, by decide, by decide⟩⟩

/-- hypotheses of `sockBuffer_refines` hold there, and the arrival of segment 2 before segment 1 parks it. -/
example : SockWf exEst 0 0 ∧ (chanOf exEst 0 0).rxAlive = true ∧
    (rxOf (exEst.sockBuffer 0 0 2 (.data "43")).2 0 0).buf = [(2, .data "43")] :=
  ⟨exEst_linked.wf, by decide, by decide⟩

/-- the server drops its read half (nothing unread): the receiver of channel 1 is gone, the socket stays. -/
def exDead : World := (exEst.opDropRead 0 1).1

/-- hypotheses of `sockBuffer_dead` hold there; the next segment asks for a RST and bumps `recv_seq`. -/
example : SockWf exDead 0 0 ∧ (chanOf exDead 0 0).rxAlive = false ∧
    (exDead.sockBuffer 0 0 1 (.data "41")).1 = true ∧
    (rxOf (exDead.sockBuffer 0 0 1 (.data "41")).2 0 0).recvSeq = 1 ∧
    (exDead.sockBuffer 0 0 2 (.data "41")).1 = false :=
  ⟨⟨by decide, by decide, by decide⟩, by decide, by decide, by decide, by decide⟩

theorem exData_linked : Linked exData 0 0 1 exLoc exRem 1 64 false :=
  ⟨⟨by decide, by decide, by decide⟩, by decide, by decide, by decide, by decide, by decide,
   ⟨_, _, rfl, by decide, by decide, by decide⟩⟩

/-- hypotheses of `read_refines` / `peek_then_read` / `reads_concat` hold in `exData`. -/
example : ∃ r wr, exData.getObj 0 1 = some (.stream (some r) wr) ∧ r.closed = false ∧ r.stash = none ∧
    SockWf exData 0 0 ∧ findSock (exData.host! 0) r.loc r.rem = some 0 ∧ (sockAt exData 0 0).chan = r.chan ∧
    (chanOf exData 0 0).rxAlive = true ∧ (chanOf exData 0 0).items = [.data "4142"] ∧
    (exData.chan! r.chan).items = [.data "4142"] ∧ Within "4142" [1, 1] :=
  ⟨_, _, rfl, by decide, by decide, exData_linked.wf, by decide, by decide, by decide, by decide, by decide,
   ⟨Or.inr (by decide), Or.inl rfl, trivial⟩⟩

/-- … and two one-byte reads return the two bytes; peek then read returns the same byte twice. -/
example : (readMany 0 1 exData [1, 1]).2 = ["ok 41", "ok 42"] ∧
    (exData.opTcpRead 0 1 1 true).2 = "ok 41" ∧ ((exData.opTcpRead 0 1 1 true).1.opTcpRead 0 1 1 false).2 = "ok 41" :=
  ⟨by decide, by decide, by decide⟩


/-- hypotheses of `tryWrite_numbers` / `shutdown_numbers` hold for the client's write half in `exEst`. -/
example : ∃ rd x, exEst.getObj 1 0 = some (.stream rd (some x)) ∧ 1 < exEst.hosts.length ∧ hexLen "4142" ≠ 0 ∧
    x.shutdown = false ∧ exEst.credits x.fc ≠ 0 ∧ findSock (exEst.host! 1) x.loc x.rem = some 0 ∧
    (exEst.tryWrite 1 x "4142").2 = "ok 2" :=
  ⟨_, _, rfl, by decide, by decide, by decide, by decide, by decide, by decide⟩

/-- hypotheses of `receive_is_sockBuffer` hold for the client's first data envelope arriving at `h0`. -/
example : segOf (Msg.data 1 "41") = some (.data "41") ∧ findSock (exEst.host! 0) exLoc exRem = some 0 :=
  ⟨rfl, by decide⟩

theorem exEst_txLinked : TxLinked exEst 1 0 0 exRem exLoc :=
  ⟨by decide, by decide, ⟨_, _, rfl, by decide, by decide⟩⟩

/-- a run of sender calls: empty write and the write after shutdown send nothing; the others are numbered 1, 2, 3. -/
example : txTrace 1 0 exEst [.write "41" false, .write "" false, .write "4243" true, .shutdown, .write "44" false] =
    [.data 1 "41", .data 2 "4243", .fin 3] := by decide

/-- the sender's segments of the example run. -/
def exSegs : Nat → Seg := fun q => if q == 1 then .data "4142" else if q == 2 then .data "43" else .fin

/-- hypotheses of `world_prefix_fresh` hold in `exEst`, and a reordered run (segment 2, a read, segment 1,
    a peek, reads, the FIN, reads) pops exactly the first three segments. -/
example : (sockAt exEst 0 0).buf = [] ∧ (sockAt exEst 0 0).recvSeq = 0 ∧ (exEst.chan! 1).items = [] ∧
    (arrivals [.arrive 2, .read 4 false, .arrive 1, .read 1 true, .read 1 false, .read 8 false, .read 8 false, .arrive 3,
        .read 8 false]).Nodup ∧
    ([WOp.arrive 2, .read 4 false, .arrive 1, .read 1 true, .read 1 false, .read 8 false, .read 8 false, .arrive 3,
        .read 8 false].foldl (wStep exSegs 0 0 1) (exEst, [])).2 = [.data "4142", .data "43", .fin] :=
  ⟨by decide, by decide, by decide, by decide, by decide⟩

end TV.C02
