import TvCore.Proofs.C12WorldLemmas
import TvCore.Proofs.C12ConnectLemmas
/-
  C12 — end-to-end statements at the level of the World operations the replay driver runs
  (`opTcpAccept`, `connectPoll`, `receive` / `loReceive`, `opDrop`).

  How the model (and the crate) represent the handshake.  There is no SYN-ACK *message*: the SYN
  envelope carries the sender half of a tokio one-shot (`Syn { ack }`); `accept` answers it in place
  (`syn.ack.send(())`), a refusal is the drop of that sender.  The model keeps one `SynCell` per
  connect: `st = .pending | .acked | .dropped` is the state of the one-shot, `rxAlive` says whether the
  connector still waits.  So "the SYN-ACK was received" is `st = .acked`, "the connect was refused"
  is `st = .dropped`; neither travels over a link, both are visible to the connector at its next poll.
  Likewise a SYN nobody listens for is not answered with a RST envelope: its `Syn` value is dropped.

  Sections: 1 `accept_mirrors` · 2 `accept_pending_iff` (+ `_world`, `_unchanged`, witness
  `accept_pending_may_change`) · 3 `connect_completes_iff` · 4 `syn_to_unbound_port_refused`,
  `syn_to_listener_queued`, `rst_does_not_answer_connect` · 5 `listener_drop_refuses_pending` ·
  6 `mirror_of_queued`, `pairing`, `no_second_accept` · 7 from `opTcpConnect`: `connect_pending_state`,
  `connect_unowned_refused`, `connect_partitioned_refused`.

  Hypotheses of the form `id < w.syns.length` are needed because `default : SynCell` is
  `{ st := .pending, rxAlive := true }`: a request id outside the cell table reads as "waiting".
-/
namespace TV.C12
open TV TV.World TV.C04

/-! ## 1. a successful accept mirrors the connector -/

/-- Everything a successful `opTcpAccept w h ls s = (w', res)` did; one field per clause. -/
structure Accepted (w : World) (h ls s : Nat) (w' : World) (res : String)
    (lloc : Addr) (bi : Nat) (req : SynReq) (pre : List SynReq) (ci : Nat) : Prop where
  /-- slot `ls` holds a listener, bound in the host's table -/
  listener : w.getObj h ls = some (.listener lloc)
  bound : (w.host! h).tcpBinds.findIdx? (·.port == lloc.port) = some bi
  /-- FIFO: the request handed out is the first one of the queue whose connector still waits … -/
  first_live : (pendingQueue w h lloc.port).find? (fun r => w.synAlive r.id) = some req
  was_waiting : w.synAlive req.id = true
  /-- … everything in front of it was dead (and is discarded), it is removed, and what is left of the
      queue is exactly what was behind it, in the same order -/
  skipped_dead : ∀ r ∈ pre, w.synAlive r.id = false
  queue_split : pendingQueue w h lloc.port = pre ++ req :: pendingQueue w' h lloc.port
  /-- the observation: local address, peer address -/
  result : res = s!"ok {(acceptLocal h lloc req.src).toTok} {req.src.toTok}"
  /-- the stream object in slot `s`: local = `acceptLocal`, peer = the request's origin (both halves) -/
  stream : ∃ fc, w'.getObj h s = some (acceptedObj (acceptLocal h lloc req.src) req.src w.chans.length fc)
  /-- exactly one stream-table entry, for exactly that pair, was added on host `h` -/
  entry : (w'.host! h).socks = (w.host! h).socks ++
    [{ loc := acceptLocal h lloc req.src, rem := req.src, chan := w.chans.length, fcW := w.fcs.length }]
  /-- the one-shot of exactly that request is answered (the model's SYN-ACK); no other cell changes -/
  answered : w'.syns = setAt w.syns req.id (fun c => { c with st := .acked })
  /-- the connector's half-open entry — the mirrored pair — sits in the stream table of its host -/
  client : clientHost h req.src = some ci
  client_entry : ∃ cs ∈ (w.host! ci).socks, cs.loc = req.src ∧ cs.rem = acceptLocal h lloc req.src
  distinct : acceptLocal h lloc req.src ≠ req.src
  /-- frame: other hosts untouched, nothing is put on a link or on a loopback queue -/
  others_same : others h w' = others h w
  slots_same : ∀ s', s' ≠ s → w'.getObj h s' = w.getObj h s'
  links_same : w'.links = w.links
  lo_same : (w'.host! h).lo = (w.host! h).lo

/-- **C12, accept side, end to end.**  Whenever `opTcpAccept` returns a stream (anything but
    `"pending"`, `"panic"`, `"err badslot"`), all of `Accepted` holds. -/
theorem accept_mirrors (w : World) (h ls s : Nat)
    (h1 : (w.opTcpAccept h ls s).2 ≠ "pending") (h2 : (w.opTcpAccept h ls s).2 ≠ "panic")
    (h3 : (w.opTcpAccept h ls s).2 ≠ "err badslot") :
    ∃ lloc bi req pre ci,
      Accepted w h ls s (w.opTcpAccept h ls s).1 (w.opTcpAccept h ls s).2 lloc bi req pre ci := by
  -- the slot holds a listener
  have hol : ∃ lloc, w.getObj h ls = some (.listener lloc) := by
    apply Classical.byContradiction
    intro hn
    have := opTcpAccept_badslot w h ls s (fun lloc e => hn ⟨lloc, e⟩)
    rw [this] at h3
    exact h3 rfl
  obtain ⟨lloc, ho⟩ := hol
  have hh : h < w.hosts.length := lt_of_getObj w h ls _ ho
  rw [opTcpAccept_eq w h ls s lloc ho] at h1 h2 ⊢
  have hpick := acceptLoop_pick w h lloc.port
  cases hacc : (acceptLoop w h lloc.port).2 with
  | none => rw [hacc] at h1; exact absurd rfl h1
  | some req =>
    rw [hacc] at hpick
    simp only [hacc] at h1 h2 ⊢
    obtain ⟨ci, i, hne, hc, hf, heq⟩ := acceptTail_inv _ h s lloc req h2
    -- the bind exists, since its queue is not empty
    have hmem := (pick_alive w.synAlive _ req hpick.symm)
    obtain ⟨bi, hb⟩ := bind_of_pendingQueue_ne w h lloc.port (List.ne_nil_of_mem hmem.2)
    obtain ⟨hfind, pre, hpre, hsplit⟩ := pick_spec w.synAlive (pendingQueue w h lloc.port)
    rw [← hpick] at hfind hsplit
    -- the world afterwards
    obtain ⟨c, p, hW⟩ := accept_world w h lloc.port bi hb (acceptLocal h lloc req.src) req.src s
      (acceptedObj (acceptLocal h lloc req.src) req.src (acceptLoop w h lloc.port).1.chans.length
        ((((acceptLoop w h lloc.port).1.newStream h (acceptLocal h lloc req.src) req.src).2.host! ci).socks.getD i default).fcW)
    obtain ⟨hpre_hosts, hchans⟩ := accept_world_pre w h lloc.port bi hb (acceptLocal h lloc req.src) req.src
    generalize ((((acceptLoop w h lloc.port).1.newStream h (acceptLocal h lloc req.src) req.src).2.host! ci).socks.getD i default).fcW = fc at heq hW
    rw [heq]
    simp only
    generalize (((acceptLoop w h lloc.port).1.newStream h (acceptLocal h lloc req.src) req.src).2.setObj h s _) = X at hW ⊢
    have hhosts := congrArg World.hosts hW
    have hsyns := congrArg World.syns hW
    have hlinks := congrArg World.links hW
    simp only at hhosts hsyns hlinks
    have hH := host!_of_setAt hhosts hh
    have hbl : bi < (w.host! h).tcpBinds.length := findIdx?_lt _ _ _ hb
    refine ⟨lloc, bi, req, pre, ci, ?_⟩
    refine
      { listener := ho, bound := hb, first_live := hfind.symm, was_waiting := hmem.1, skipped_dead := hpre
        queue_split := ?_, result := rfl, stream := ?_, entry := ?_, answered := ?_, client := hc
        client_entry := ?_, distinct := hne, others_same := ?_, slots_same := ?_, links_same := hlinks, lo_same := ?_ }
    · -- the queue afterwards is what the scan left
      have hq : pendingQueue X h lloc.port = (acceptPick w.synAlive (pendingQueue w h lloc.port)).2 :=
        pendingQueue_after w X h lloc.port bi _ hb (by rw [hH])
      rw [hq]
      refine hsplit.trans ?_
      simp
    · refine ⟨fc, ?_⟩
      unfold getObj
      rw [hH]
      simp only
      rw [List.find?_append]
      have : ((w.host! h).objs.filter (·.1 != s)).find? (·.1 == s) = none := by
        rw [List.find?_eq_none]
        intro x hx
        have := (List.mem_filter.mp hx).2
        simp only [bne_iff_ne, ne_eq] at this
        simp [this]
      rw [this, hchans]
      simp
    · rw [hH]
    · rw [hsyns, ← hpick]
    · -- the connector's entry was there before: the entry just added has a different pair
      have hx : (fun (sk : Sock) => sk.loc == req.src && sk.rem == acceptLocal h lloc req.src)
          { loc := acceptLocal h lloc req.src, rem := req.src, chan := w.chans.length, fcW := w.fcs.length } = false := by
        simp only [Bool.and_eq_false_iff, beq_eq_false_iff_ne, ne_eq]
        exact Or.inl hne
      have hf' : findSock (w.host! ci) req.src (acceptLocal h lloc req.src) = some i := by
        unfold findSock at hf ⊢
        by_cases hci : ci = h
        · subst hci
          rw [host!_of_setAt hpre_hosts hh] at hf
          simp only at hf
          rw [findIdx?_append_one (w.host! ci).socks _
            (fun (sk : Sock) => sk.loc == req.src && sk.rem == acceptLocal ci lloc req.src) hx] at hf
          exact hf
        · rw [host!_of_setAt_ne hpre_hosts hci] at hf
          exact hf
      unfold findSock at hf'
      obtain ⟨hil, hp, _⟩ := List.findIdx?_eq_some_iff_getElem.mp hf'
      refine ⟨_, List.getElem_mem hil, ?_⟩
      simpa using hp
    · exact others_of_setAt hhosts
    · intro s' hs'
      unfold getObj
      rw [hH]
      simp only
      rw [find?_objs_update _ _ _ _ hs']
    · rw [hH]

/-- the four kinds of observation `opTcpAccept` can produce — so "none of `pending`, `panic`,
    `err badslot`" in `accept_mirrors` is the same as "returned `ok <local> <peer>`". -/
theorem accept_result_cases (w : World) (h ls s : Nat) :
    (w.opTcpAccept h ls s).2 = "err badslot" ∨ (w.opTcpAccept h ls s).2 = "pending" ∨
    (w.opTcpAccept h ls s).2 = "panic" ∨
    ∃ my origin : Addr, (w.opTcpAccept h ls s).2 = s!"ok {my.toTok} {origin.toTok}" := by
  by_cases hol : ∃ lloc, w.getObj h ls = some (.listener lloc)
  · obtain ⟨lloc, ho⟩ := hol
    rw [opTcpAccept_eq w h ls s lloc ho]
    cases hacc : (acceptLoop w h lloc.port).2 with
    | none => exact Or.inr (Or.inl rfl)
    | some req =>
      rcases acceptTail_cases (acceptLoop w h lloc.port).1 h s lloc req with e | e
      · exact Or.inr (Or.inr (Or.inl e))
      · exact Or.inr (Or.inr (Or.inr ⟨_, _, e⟩))
  · rw [opTcpAccept_badslot w h ls s (fun lloc e => hol ⟨lloc, e⟩)]
    exact Or.inl rfl

/-! ### non-vacuity: two hosts, a wildcard listener on host 1, a connect from host 0 -/

def exW0 : World := (({} : World).register 1 false).register 2 false
/-- host 1 binds `0.0.0.0:80` (slot 0). -/
def exW1 : World := (exW0.opTcpBind 1 0 ⟨.any, 80⟩).1
/-- host 0 connects to `h1:80` (slot 0); the link is healthy, latency 0. -/
def exW2 : World := ({ exW1 with oracle := [.fail false, .delay 0] }.opTcpConnect 0 0 ⟨.host 1, 80⟩).1
/-- the SYN is delivered to host 1. -/
def exW3 : World := (exW2.deliverTo 1).2

example : (exW1.opTcpBind 1 0 ⟨.any, 80⟩).2 = "err addrinuse" ∧
    ({ exW1 with oracle := [.fail false, .delay 0] }.opTcpConnect 0 0 ⟨.host 1, 80⟩).2 = "pending" ∧
    pendingQueue exW3 1 80 = [⟨0, ⟨.host 0, 49152⟩⟩] := by decide

/-- hypotheses of `accept_mirrors` hold in `exW3`, and the addresses are the mirrored ones. -/
example : (exW3.opTcpAccept 1 0 1).2 = "ok h1:80 h0:49152" ∧
    (exW3.opTcpAccept 1 0 1).2 ≠ "pending" ∧ (exW3.opTcpAccept 1 0 1).2 ≠ "panic" ∧
    (exW3.opTcpAccept 1 0 1).2 ≠ "err badslot" := by decide

/-! ## 2. accept stays pending iff nobody waits -/

/-- **`opTcpAccept` returns `"pending"` exactly when no request in the listener's queue has a live
    connector** (an empty queue included). -/
theorem accept_pending_iff (w : World) (h ls s : Nat) (lloc : Addr)
    (ho : w.getObj h ls = some (.listener lloc)) :
    (w.opTcpAccept h ls s).2 = "pending" ↔ ∀ r ∈ pendingQueue w h lloc.port, w.synAlive r.id = false := by
  rw [opTcpAccept_eq w h ls s lloc ho, ← pick_none, ← acceptLoop_pick]
  cases hacc : (acceptLoop w h lloc.port).2 with
  | none => simp
  | some req =>
    simp only
    constructor
    · intro hp
      rcases acceptTail_cases (acceptLoop w h lloc.port).1 h s lloc req with e | e
      · rw [e] at hp; exact absurd hp (by decide)
      · rw [e] at hp; exact absurd hp (ok_ne_pending _ _)
    · intro hn; exact absurd hn (by simp)

/-- … and then the world is unchanged up to coverage tags, except that the dead requests that were
    scanned are discarded: the listener's queue is empty afterwards (`pick_none_empties`). -/
theorem accept_pending_world (w : World) (h ls s : Nat) (lloc : Addr) (bi : Nat)
    (ho : w.getObj h ls = some (.listener lloc))
    (hb : (w.host! h).tcpBinds.findIdx? (·.port == lloc.port) = some bi)
    (hp : (w.opTcpAccept h ls s).2 = "pending") :
    ∃ c, (w.opTcpAccept h ls s).1 =
      { w with
        hosts := setAt w.hosts h (fun hs => { hs with tcpBinds := setAt hs.tcpBinds bi (fun b => { b with deque := [] }) })
        cov := c } := by
  have hdead := (accept_pending_iff w h ls s lloc ho).mp hp
  have hnone := (pick_none w.synAlive _).mpr hdead
  have hempty := pick_none_empties w.synAlive _ hnone
  rw [opTcpAccept_eq w h ls s lloc ho, acceptLoop_pick, hnone]
  simp only
  obtain ⟨c, hA⟩ := acceptLoop_world w h lloc.port bi hb
  rw [hA, hnone, hempty]
  exact ⟨c, rfl⟩

/-- with an empty queue the poll changes nothing at all (up to tags). -/
theorem accept_pending_unchanged (w : World) (h ls s : Nat) (lloc : Addr) (bi : Nat)
    (ho : w.getObj h ls = some (.listener lloc))
    (hb : (w.host! h).tcpBinds.findIdx? (·.port == lloc.port) = some bi)
    (hq : pendingQueue w h lloc.port = []) :
    ∃ c, w.opTcpAccept h ls s = ({ w with cov := c }, "pending") := by
  have hp : (w.opTcpAccept h ls s).2 = "pending" :=
    (accept_pending_iff w h ls s lloc ho).mpr (by rw [hq]; intro r hr; exact absurd hr (by simp))
  obtain ⟨c, hc⟩ := accept_pending_world w h ls s lloc bi ho hb hp
  refine ⟨c, Prod.ext ?_ hp⟩
  rw [hc]
  have hh : h < w.hosts.length := lt_of_getObj w h ls _ ho
  have hbl := findIdx?_lt _ _ _ hb
  rw [pendingQueue_of_bind w h lloc.port bi hb] at hq
  have : setAt w.hosts h (fun hs => { hs with tcpBinds := setAt hs.tcpBinds bi (fun b => { b with deque := [] }) }) = w.hosts := by
    apply setAt_id _ _ _ default _ hh
    show { w.host! h with tcpBinds := setAt (w.host! h).tcpBinds bi (fun b => { b with deque := [] }) } = w.host! h
    have : setAt (w.host! h).tcpBinds bi (fun b => { b with deque := [] }) = (w.host! h).tcpBinds := by
      apply setAt_id _ _ _ default _ hbl
      rw [← hq]
    rw [this]
  simp only [this]

example : (exW1.opTcpAccept 1 0 1).2 = "pending" ∧ pendingQueue exW1 1 80 = [] ∧
    exW1.getObj 1 0 = some (.listener ⟨.any, 80⟩) := ⟨by decide, by decide, rfl⟩

/-- the connector of `exW3` gives up (its future is dropped) before the listener polls. -/
def exG : World := (exW3.opDrop 0 0).1

/-- **"world unchanged" fails for a pending accept when dead requests were queued**: the poll returns
    `"pending"` *and* empties the queue (the crate pops and discards every request whose `ack.send`
    fails).  `accept_pending_world` is the exact statement; this is the witness that the queue can
    change. -/
theorem accept_pending_may_change : ∃ (w : World) (h ls s : Nat),
    (w.opTcpAccept h ls s).2 = "pending" ∧
    pendingQueue w h 80 ≠ pendingQueue (w.opTcpAccept h ls s).1 h 80 :=
  ⟨exG, 1, 0, 1, by decide, by decide⟩

/-- two connects from host 0 (slots 0 and 1) are queued in arrival order; the first connector gives
    up; the accept skips it and hands out the second — and the queue is empty afterwards. -/
def exS : World :=
  let w := ({ exW1 with oracle := [.fail false, .delay 0, .fail false, .delay 0] }.opTcpConnect 0 0 ⟨.host 1, 80⟩).1
  let w := (w.opTcpConnect 0 1 ⟨.host 1, 80⟩).1
  let w := (w.deliverTo 1).2
  (w.opDrop 0 0).1

example : pendingQueue exS 1 80 = [⟨0, ⟨.host 0, 49152⟩⟩, ⟨1, ⟨.host 0, 49153⟩⟩] ∧
    exS.synAlive 0 = false ∧ exS.synAlive 1 = true ∧
    (exS.opTcpAccept 1 0 1).2 = "ok h1:80 h0:49153" ∧
    pendingQueue (exS.opTcpAccept 1 0 1).1 1 80 = [] := by decide

/-! ## 3. the connector's three outcomes -/

/-- **`connectPoll` of a pending connect**: Ok (with the connector's own address pair) exactly when
    its one-shot was answered by an accept, `ConnectionRefused` exactly when the SYN object (its
    one-shot sender) was dropped, pending exactly otherwise.  The three cell states are exclusive and
    exhaustive, hence so are the three outcomes. -/
theorem connect_completes_iff (w : World) (h s id : Nat) (loc rem : Addr) (chan fcW : Nat)
    (ho : w.getObj h s = some (.connecting id loc rem chan fcW)) :
    ((w.connectPoll h s).2 = s!"ok {loc.toTok} {rem.toTok}" ↔ (w.syns.getD id default).st = .acked) ∧
    ((w.connectPoll h s).2 = "err refused" ↔ (w.syns.getD id default).st = .dropped) ∧
    ((w.connectPoll h s).2 = "pending" ↔ (w.syns.getD id default).st = .pending) := by
  unfold connectPoll
  simp only [ho]
  cases hst : (w.syns.getD id default).st with
  | pending =>
    simp only
    refine ⟨⟨fun e => absurd e.symm (ok_ne_pending _ _), fun e => nomatch e⟩,
      ⟨fun e => absurd e (by decide), fun e => nomatch e⟩, trivial⟩
  | acked =>
    simp only
    refine ⟨trivial, ⟨fun e => absurd e (ok_ne_refused _ _), fun e => nomatch e⟩,
      ⟨fun e => absurd e (ok_ne_pending _ _), fun e => nomatch e⟩⟩
  | dropped =>
    simp only
    refine ⟨⟨fun e => absurd e.symm (ok_ne_refused _ _), fun e => nomatch e⟩, trivial,
      ⟨fun e => absurd e (by decide), fun e => nomatch e⟩⟩

/-- what the successful poll leaves in the slot: a stream whose local address is the connector's and
    whose peer is the address it connected to; a pending poll changes nothing. -/
theorem connect_ok_stream (w : World) (h s id : Nat) (loc rem : Addr) (chan fcW : Nat)
    (ho : w.getObj h s = some (.connecting id loc rem chan fcW))
    (hst : (w.syns.getD id default).st = .acked) :
    (w.connectPoll h s).1.getObj h s =
      some (.stream (some { loc := loc, rem := rem, chan := chan, fc := fcW + 1 })
                    (some { loc := loc, rem := rem, fc := fcW, sid := chan })) := by
  unfold connectPoll
  simp only [ho, hst]
  exact getObj_setObj_self w h s _ (lt_of_getObj w h s _ ho)

theorem connect_pending_unchanged (w : World) (h s id : Nat) (loc rem : Addr) (chan fcW : Nat)
    (ho : w.getObj h s = some (.connecting id loc rem chan fcW))
    (hst : (w.syns.getD id default).st = .pending) : w.connectPoll h s = (w, "pending") := by
  unfold connectPoll
  simp only [ho, hst]

example : exW3.getObj 0 0 = some (.connecting 0 ⟨.host 0, 49152⟩ ⟨.host 1, 80⟩ 0 0) ∧
    (exW3.syns.getD 0 default).st = .pending ∧
    (((exW3.opTcpAccept 1 0 1).1).syns.getD 0 default).st = .acked := ⟨rfl, by decide, by decide⟩

/-! ## 4. a SYN nobody listens for is refused, one that is listened for is queued

  Neither the crate nor the model answers such a SYN with a RST *message*: `receive_from_network`
  returns `Ok(())` (here: `false`, "no RST to send") and lets the `Syn` value — the one-shot sender —
  fall out of scope.  That drop is the refusal the connector sees. -/

/-- **no listener on the destination port, or a listener whose bind address does not accept the
    destination** (`listenerFor … = false`): the SYN is not queued (the host tables and all links are
    untouched), no RST envelope is produced, the one-shot is dropped — and the connector's next poll
    returns `ConnectionRefused`.  Same for a loopback delivery (`loReceive`). -/
theorem syn_to_unbound_port_refused (w : World) (h c sc id : Nat) (a b : Addr) (chan fcW : Nat)
    (hC : w.getObj c sc = some (.connecting id a b chan fcW))
    (hid : id < w.syns.length) (hpend : (w.syns.getD id default).st = .pending)
    (hno : listenerFor (w.host! h) b = false) :
    (w.receive h { src := a, dst := b, msg := .syn id }).1 = false ∧
    (w.receive h { src := a, dst := b, msg := .syn id }).2.hosts = w.hosts ∧
    (w.receive h { src := a, dst := b, msg := .syn id }).2.links = w.links ∧
    (w.receive h { src := a, dst := b, msg := .syn id }).2.syns = (w.dropSyn id).syns ∧
    ((w.receive h { src := a, dst := b, msg := .syn id }).2.connectPoll c sc).2 = "err refused" ∧
    w.loReceive h { src := a, dst := b, msg := .syn id } = (w.receive h { src := a, dst := b, msg := .syn id }).2 := by
  obtain ⟨cv, p, hr⟩ := receive_syn_refused w h a b id hno
  refine ⟨by rw [hr], by rw [hr]; rfl, by rw [hr]; rfl, by rw [hr], ?_, ?_⟩
  · rw [hr]
    refine connect_refused_of_dropped _ c sc id a b chan fcW ?_ ?_
    · exact hC
    · exact dropSyn_dropped w id hid hpend
  · unfold loReceive
    rw [hr]
    simp

/-- **a listener that accepts the destination**: the request `⟨id, source⟩` is appended at the back
    of its queue (arrival order = queue order), the one-shot stays pending, no RST. -/
theorem syn_to_listener_queued (w : World) (h id : Nat) (a b : Addr)
    (hyes : listenerFor (w.host! h) b = true) :
    (w.receive h { src := a, dst := b, msg := .syn id }).1 = false ∧
    pendingQueue (w.receive h { src := a, dst := b, msg := .syn id }).2 h b.port =
      pendingQueue w h b.port ++ [{ id := id, src := a }] ∧
    (w.receive h { src := a, dst := b, msg := .syn id }).2.syns = w.syns ∧
    others h (w.receive h { src := a, dst := b, msg := .syn id }).2 = others h w := by
  have hbi : ∃ bi, (w.host! h).tcpBinds.findIdx? (·.port == b.port) = some bi := by
    unfold listenerFor at hyes
    cases hb : (w.host! h).tcpBinds.findIdx? (·.port == b.port) with
    | none => simp [hb] at hyes
    | some bi => exact ⟨bi, rfl⟩
  obtain ⟨bi, hb⟩ := hbi
  obtain ⟨p, hr⟩ := receive_syn_queued w h a b id bi hb hyes
  have hbl := findIdx?_lt _ _ _ hb
  have hh : h < w.hosts.length := lt_of_bind w h b.port bi hb
  rw [hr]
  refine ⟨rfl, ?_, rfl, others_of_setAt rfl⟩
  rw [pendingQueue_setAt w _ h b.port bi (fun bd => { bd with deque := bd.deque ++ [{ id := id, src := a }] })
    (fun _ => rfl) hb (by rw [host!_of_setAt rfl hh])]
  rw [pendingQueue_of_bind w h b.port bi hb]

/-- a localhost-only listener on host 1 (`127.0.0.1:80`); host 0 connects to `h1:80`. -/
def exL1 : World := (exW0.opTcpBind 1 0 ⟨.lo, 80⟩).1
def exL2 : World := ({ exL1 with oracle := [.fail false, .delay 0] }.opTcpConnect 0 0 ⟨.host 1, 80⟩).1

/-- hypotheses of `syn_to_unbound_port_refused`: a bind exists on the port, but it does not accept
    the destination; nothing is bound on port 81.  And through `deliverTo`: the connect is refused. -/
example : listenerFor (exL2.host! 1) ⟨.host 1, 80⟩ = false ∧ listenerFor (exL2.host! 1) ⟨.host 1, 81⟩ = false ∧
    listenerFor (exW2.host! 1) ⟨.host 1, 80⟩ = true ∧
    exL2.getObj 0 0 = some (.connecting 0 ⟨.host 0, 49152⟩ ⟨.host 1, 80⟩ 0 0) ∧
    0 < exL2.syns.length ∧ (exL2.syns.getD 0 default).st = .pending ∧
    ((exL2.deliverTo 1).2.connectPoll 0 0).2 = "err refused" :=
  ⟨by decide, by decide, by decide, rfl, by decide, by decide, by decide⟩

/-- the connector's own `receive` of a RST for its address pair does **not** answer its one-shot
    (it only removes the half-open table entry): the cells, the objects and hence the verdict of
    `connectPoll` are what they were.  (No component ever sends a RST in reply to a SYN.) -/
theorem rst_does_not_answer_connect (w : World) (h s : Nat) (src dst : Addr) :
    (w.receive h { src := src, dst := dst, msg := .rst }).2.syns = w.syns ∧
    (w.receive h { src := src, dst := dst, msg := .rst }).2.getObj h s = w.getObj h s := by
  unfold receive
  simp only
  unfold removeSock
  split
  · exact ⟨by simp, getObj_of_host (by simp) s⟩
  · refine ⟨by simp, getObj_of_host ?_ s⟩
    simp only [host!_tag, host!_setChan]
    rw [host!_setHost]
    split <;> rfl

/-! ## 5. dropping the listener refuses everything still queued -/

/-- **`opDrop` of a bound listener**: the port is free again, the object is gone, and every request
    still in its queue whose one-shot is pending is dropped — so each such connector's next poll returns
    `ConnectionRefused`; no other one-shot cell changes (an already accepted connect stays accepted). -/
theorem listener_drop_refuses_pending (w : World) (h ls : Nat) (lloc : Addr) (bi : Nat)
    (ho : w.getObj h ls = some (.listener lloc))
    (hb : (w.host! h).tcpBinds.findIdx? (·.port == lloc.port) = some bi) :
    (w.opDrop h ls).2 = "ok" ∧
    ((w.opDrop h ls).1.host! h).tcpBinds = (w.host! h).tcpBinds.filter (·.port != lloc.port) ∧
    ((w.opDrop h ls).1.host! h).tcpBinds.any (·.port == lloc.port) = false ∧
    pendingQueue (w.opDrop h ls).1 h lloc.port = [] ∧
    (∀ r ∈ pendingQueue w h lloc.port, r.id < w.syns.length → (w.syns.getD r.id default).st = .pending →
      ((w.opDrop h ls).1.syns.getD r.id default).st = .dropped) ∧
    (∀ id, (∀ r ∈ pendingQueue w h lloc.port, r.id ≠ id) →
      (w.opDrop h ls).1.syns.getD id default = w.syns.getD id default) ∧
    (∀ c sc id a b chan fcW, w.getObj c sc = some (.connecting id a b chan fcW) →
      (∃ r ∈ pendingQueue w h lloc.port, r.id = id) → id < w.syns.length →
      (w.syns.getD id default).st = .pending → ((w.opDrop h ls).1.connectPoll c sc).2 = "err refused") := by
  have hh : h < w.hosts.length := lt_of_getObj w h ls _ ho
  have hd : w.opDrop h ls = ((w.delObj h ls).tcpUnbind h lloc.port, "ok") := by
    unfold opDrop
    simp only [ho]
    rfl
  have hdel : (w.delObj h ls).host! h = { w.host! h with objs := (w.host! h).objs.filter (·.1 != ls) } := by
    unfold delObj; exact host!_setHost_self w h _ hh
  have hb1 : ((w.delObj h ls).host! h).tcpBinds.findIdx? (·.port == lloc.port) = some bi := by rw [hdel]; exact hb
  have hq1 : pendingQueue (w.delObj h ls) h lloc.port = pendingQueue w h lloc.port := by
    unfold pendingQueue; rw [hdel]
  have hW := tcpUnbind_world (w.delObj h ls) h lloc.port bi hb1
  rw [hq1] at hW
  rw [hd]
  simp only
  rw [hW]
  have hl1 : h < (w.delObj h ls).hosts.length := by unfold delObj setHost; simpa using hh
  have hhost : ∀ c, ((pendingQueue w h lloc.port).foldl (fun w s => w.dropSyn s.id)
      ((w.delObj h ls).setHost h (fun hs => { hs with tcpBinds := hs.tcpBinds.filter (·.port != lloc.port) }))).host! c =
      ((w.delObj h ls).setHost h (fun hs => { hs with tcpBinds := hs.tcpBinds.filter (·.port != lloc.port) })).host! c :=
    fun c => host!_of_hosts (hosts_foldl_dropSyn _ _) c
  have htb : (((pendingQueue w h lloc.port).foldl (fun w s => w.dropSyn s.id)
      ((w.delObj h ls).setHost h (fun hs => { hs with tcpBinds := hs.tcpBinds.filter (·.port != lloc.port) }))).host! h).tcpBinds
      = (w.host! h).tcpBinds.filter (·.port != lloc.port) := by
    rw [hhost, host!_setHost_self _ _ _ hl1, hdel]
  refine ⟨trivial, htb, ?_, ?_, ?_, ?_, ?_⟩
  · rw [htb]; simp
  · apply pendingQueue_nobind
    rw [htb, List.findIdx?_eq_none_iff]
    intro x hx
    have := (List.mem_filter.mp hx).2
    simpa using this
  · intro r hr hid hp
    exact foldl_dropSyn_drops _ _ r.id hid hp ⟨r, hr, rfl⟩
  · intro id hno
    exact foldl_dropSyn_other _ _ id hno
  · intro c sc id a b chan fcW hC hmem hid hp
    refine connect_refused_of_dropped _ c sc id a b chan fcW ?_ (foldl_dropSyn_drops _ _ id hid hp hmem)
    have hne : ¬ (c = h ∧ sc = ls) := by
      rintro ⟨rfl, rfl⟩
      rw [ho] at hC
      exact nomatch hC
    rw [getObj_of_host (congrArg Host.objs (hhost c)) sc,
      getObj_setHost_objs (w.delObj h ls) h c sc
        (fun hs => { hs with tcpBinds := hs.tcpBinds.filter (·.port != lloc.port) }) (fun _ => rfl)]
    by_cases hc : c = h
    · subst hc
      rw [getObj_delObj_ne_slot _ _ _ _ (fun e => hne ⟨rfl, e⟩)]
      exact hC
    · rw [getObj_delObj_ne_host _ _ _ _ _ hc]
      exact hC

/-- `exW3`: the request of host 0 sits in the queue of the listener in slot 0 of host 1; after the
    listener is dropped the connector is refused and the port can be bound again. -/
example : exW3.getObj 1 0 = some (.listener ⟨.any, 80⟩) ∧
    (exW3.host! 1).tcpBinds.findIdx? (·.port == 80) = some 0 ∧
    pendingQueue exW3 1 80 = [⟨0, ⟨.host 0, 49152⟩⟩] ∧
    (((exW3.opDrop 1 0).1).connectPoll 0 0).2 = "err refused" ∧
    (((exW3.opDrop 1 0).1).opTcpBind 1 0 ⟨.any, 80⟩).2 = "ok 80" := ⟨rfl, by decide, by decide, by decide, by decide⟩

/-! ## 6. pairing: one connect ⟷ one accepted stream, mirrored addresses -/

/-- the accepted stream's local address is the destination the connector used: what was checked
    when the SYN was queued (`syn_to_listener_queued` needs `listenerFor`, i.e. `addrMatches`) plus how
    `TcpStream::connect` forms its addresses is enough (`acceptLocal_eq_dst`).  World-level form: the
    listener's bind address is the listener object's address (`opTcpBind` stores the same value in
    both), the SYN `a → b` is accepted by that bind, and it was routed to `h` by address or loopback. -/
theorem mirror_of_queued (w : World) (h bi : Nat) (lloc a b : Addr)
    (hb : (w.host! h).tcpBinds.findIdx? (·.port == b.port) = some bi)
    (hbind : ((w.host! h).tcpBinds.getD bi default).bindAddr = lloc) (hip : bindIpOk lloc.ip = true)
    (hyes : listenerFor (w.host! h) b = true)
    (hroute : (b.ip = .host h ∧ a.ip.isLoopback = false) ∨ (b.ip.isLoopback = true ∧ a.ip = b.ip)) :
    acceptLocal h lloc a = b := by
  unfold listenerFor at hyes
  simp only [hb, hbind] at hyes
  exact acceptLocal_eq_dst h lloc a b hip hyes hroute

/-- **C12, pairing.**  Host `c` has a pending connect `a → b` (request `id`) whose SYN is the first
    live request in the queue of listener `ls` on host `h`; the connector's half-open entry exists; the
    addresses mirror (`mirror_of_queued`).  Then `opTcpAccept` succeeds with local `b`, peer `a`; the
    accepted stream and its table entry have local `b`, peer `a`; the connector's next poll — the one-shot
    has been answered in place, nothing has to be delivered — returns Ok with local `a`, peer `b` and
    leaves a stream with exactly these addresses; and no later accept, on any listener of any host, can
    hand out request `id` again. -/
theorem pairing (w : World) (h ls s c sc id : Nat) (lloc a b : Addr) (chan fcW : Nat)
    (hL : w.getObj h ls = some (.listener lloc))
    (hC : w.getObj c sc = some (.connecting id a b chan fcW))
    (hQ : (pendingQueue w h lloc.port).find? (fun r => w.synAlive r.id) = some ⟨id, a⟩)
    (hid : id < w.syns.length)
    (hM : acceptLocal h lloc a = b) (hab : a ≠ b)
    (hci : clientHost h a = some c)
    (hS : (findSock (w.host! c) a b).isSome)
    (hslot : ¬ (c = h ∧ sc = s)) :
    (w.opTcpAccept h ls s).2 = s!"ok {b.toTok} {a.toTok}" ∧
    (∃ fc, (w.opTcpAccept h ls s).1.getObj h s = some (acceptedObj b a w.chans.length fc)) ∧
    (∃ sk ∈ ((w.opTcpAccept h ls s).1.host! h).socks, sk.loc = b ∧ sk.rem = a) ∧
    ((w.opTcpAccept h ls s).1.connectPoll c sc).2 = s!"ok {a.toTok} {b.toTok}" ∧
    ((w.opTcpAccept h ls s).1.connectPoll c sc).1.getObj c sc =
      some (.stream (some { loc := a, rem := b, chan := chan, fc := fcW + 1 })
                    (some { loc := a, rem := b, fc := fcW, sid := chan })) ∧
    (∃ pre, (∀ r ∈ pre, w.synAlive r.id = false) ∧
      pendingQueue w h lloc.port = pre ++ ⟨id, a⟩ :: pendingQueue (w.opTcpAccept h ls s).1 h lloc.port) ∧
    (w.opTcpAccept h ls s).1.synAlive id = false ∧
    (∀ h2 p2 r2, (acceptLoop (w.opTcpAccept h ls s).1 h2 p2).2 = some r2 → r2.id ≠ id) := by
  -- the scan hands out ⟨id, a⟩
  have hpick : (acceptLoop w h lloc.port).2 = some ⟨id, a⟩ := by
    rw [acceptLoop_pick, (pick_spec w.synAlive _).1]; exact hQ
  have hmem : (⟨id, a⟩ : SynReq) ∈ pendingQueue w h lloc.port := List.mem_of_find?_eq_some hQ
  obtain ⟨bi, hb⟩ := bind_of_pendingQueue_ne w h lloc.port (List.ne_nil_of_mem hmem)
  have hh : h < w.hosts.length := lt_of_getObj w h ls _ hL
  -- the connector's entry is still found after the new entry was appended
  obtain ⟨hpre_hosts, _⟩ := accept_world_pre w h lloc.port bi hb b a
  have hfind : ∃ i, findSock (((acceptLoop w h lloc.port).1.newStream h b a).2.host! c) a b = some i := by
    cases hfs : findSock (w.host! c) a b with
    | none => rw [hfs] at hS; exact absurd hS (by simp)
    | some i =>
      refine ⟨i, ?_⟩
      unfold findSock at hfs ⊢
      by_cases hch : c = h
      · subst hch
        rw [host!_of_setAt hpre_hosts hh]
        simp only
        rw [findIdx?_append_one (w.host! c).socks _ (fun (sk : Sock) => sk.loc == a && sk.rem == b)
          (by simp only [Bool.and_eq_false_iff, beq_eq_false_iff_ne, ne_eq]; exact Or.inl (fun e => hab e.symm))]
        exact hfs
      · rw [host!_of_setAt_ne hpre_hosts hch]
        exact hfs
  obtain ⟨i, hfi⟩ := hfind
  have hres : (w.opTcpAccept h ls s).2 = s!"ok {b.toTok} {a.toTok}" := by
    rw [opTcpAccept_eq w h ls s lloc hL, hpick]
    simp only
    have := acceptTail_ok (acceptLoop w h lloc.port).1 h s lloc ⟨id, a⟩ c i
      (by simp only; rw [hM]; exact fun e => hab e.symm) hci (by simp only; rw [hM]; exact hfi)
    simp only [hM] at this
    exact this
  -- everything else from `accept_mirrors`
  obtain ⟨lloc', bi', req', pre', ci', A⟩ := accept_mirrors w h ls s
    (by rw [hres]; exact ok_ne_pending _ _) (by rw [hres]; exact ok_ne_panic _ _) (by rw [hres]; exact ok_ne_badslot _ _)
  have hl : lloc' = lloc := by
    have := A.listener; rw [hL] at this; injection this with this; injection this with this; exact this.symm
  subst hl
  have hr : req' = ⟨id, a⟩ := by
    have := A.first_live; rw [hQ] at this; exact (Option.some.inj this).symm
  subst hr
  have hAM : acceptLocal h lloc' a = b := hM
  have hcell : ((w.opTcpAccept h ls s).1.syns.getD id default).st = .acked := by
    rw [A.answered, setAt_getD _ _ _ _ hid]
  have hdead : (w.opTcpAccept h ls s).1.synAlive id = false := by
    show (((w.opTcpAccept h ls s).1.syns.getD id default).rxAlive &&
      ((w.opTcpAccept h ls s).1.syns.getD id default).st == .pending) = false
    rw [hcell]
    cases ((w.opTcpAccept h ls s).1.syns.getD id default).rxAlive <;> rfl
  have hC' : (w.opTcpAccept h ls s).1.getObj c sc = some (.connecting id a b chan fcW) := by
    by_cases hch : c = h
    · subst hch
      rw [A.slots_same sc (fun e => hslot ⟨rfl, e⟩)]; exact hC
    · rw [getObj_of_host (congrArg Host.objs (host!_of_others A.others_same hch)) sc]; exact hC
  refine ⟨hres, ?_, ?_, ?_, ?_, ⟨pre', A.skipped_dead, A.queue_split⟩, hdead, ?_⟩
  · obtain ⟨fc, hfc⟩ := A.stream
    refine ⟨fc, ?_⟩
    rw [hfc]
    show some (acceptedObj (acceptLocal h lloc' a) a _ _) = _
    rw [hAM]
  · rw [A.entry]
    exact ⟨{ loc := acceptLocal h lloc' a, rem := a, chan := w.chans.length, fcW := w.fcs.length }, by simp, hAM, rfl⟩
  · exact (connect_completes_iff _ c sc id a b chan fcW hC').1.mpr hcell
  · exact connect_ok_stream _ c sc id a b chan fcW hC' hcell
  · intro h2 p2 r2 hacc
    exact dead_never_accepted _ id hdead h2 p2 r2 hacc

/-- a request that is not waiting any more is not what a successful `opTcpAccept` hands out — the
    operation-level reading of `dead_never_accepted` (with `pairing`: no second accept of `id`). -/
theorem no_second_accept (w : World) (id : Nat) (hdead : w.synAlive id = false) (h ls s : Nat) (w' : World)
    (res : String) (lloc : Addr) (bi : Nat) (req : SynReq) (pre : List SynReq) (ci : Nat)
    (A : Accepted w h ls s w' res lloc bi req pre ci) : req.id ≠ id := by
  intro e
  have := A.was_waiting
  rw [e, hdead] at this
  exact Bool.noConfusion this

/-- hypotheses of `pairing` in `exW3` (host 0 = connector `c`, slot 0; host 1 = listener, slot 0; the
    accepted stream goes to slot 1), and its conclusion computed on the model. -/
example : exW3.getObj 1 0 = some (.listener ⟨.any, 80⟩) ∧
    exW3.getObj 0 0 = some (.connecting 0 ⟨.host 0, 49152⟩ ⟨.host 1, 80⟩ 0 0) ∧
    (pendingQueue exW3 1 80).find? (fun r => exW3.synAlive r.id) = some ⟨0, ⟨.host 0, 49152⟩⟩ ∧
    0 < exW3.syns.length ∧ acceptLocal 1 ⟨.any, 80⟩ ⟨.host 0, 49152⟩ = ⟨.host 1, 80⟩ ∧
    clientHost 1 ⟨.host 0, 49152⟩ = some 0 ∧
    (findSock (exW3.host! 0) ⟨.host 0, 49152⟩ ⟨.host 1, 80⟩).isSome = true :=
  ⟨rfl, rfl, by decide, by decide, by decide, by decide, by decide⟩

example : (exW3.opTcpAccept 1 0 1).2 = "ok h1:80 h0:49152" ∧
    ((exW3.opTcpAccept 1 0 1).1.connectPoll 0 0).2 = "ok h0:49152 h1:80" ∧
    ((exW3.opTcpAccept 1 0 1).1.opTcpAccept 1 0 2).2 = "pending" := by decide

/-- hypotheses of `mirror_of_queued` at the moment the SYN is received (`exW2`, host 1). -/
example : (exW2.host! 1).tcpBinds.findIdx? (·.port == 80) = some 0 ∧
    ((exW2.host! 1).tcpBinds.getD 0 default).bindAddr = ⟨.any, 80⟩ ∧ bindIpOk Ip.any = true ∧
    listenerFor (exW2.host! 1) ⟨.host 1, 80⟩ = true := by decide

/-- the same over loopback: host 1 connects to its own listener via `127.0.0.1:80`; the accepted
    stream is `lo:80 ↔ lo:49152` on both sides. -/
def exO2 : World := (exW1.opTcpConnect 1 1 ⟨.lo, 80⟩).1
def exO3 : World := exO2.loReceive 1 ⟨⟨.lo, 49152⟩, ⟨.lo, 80⟩, .syn 0⟩

example : (exO2.host! 1).lo = [⟨⟨.lo, 49152⟩, ⟨.lo, 80⟩, .syn 0⟩] ∧
    (exO3.opTcpAccept 1 0 2).2 = "ok lo:80 lo:49152" ∧
    ((exO3.opTcpAccept 1 0 2).1.connectPoll 1 1).2 = "ok lo:49152 lo:80" ∧
    clientHost 1 ⟨.lo, 49152⟩ = some 1 ∧ acceptLocal 1 ⟨.any, 80⟩ ⟨.lo, 49152⟩ = ⟨.lo, 80⟩ := by decide

/-! ## 7. the connector's side, from the operation `opTcpConnect` -/

/-- **the connector's side of `pairing`'s hypotheses, from the operation**: when `opTcpConnect`
    returns `"pending"` the slot holds a pending connect whose request id is the fresh cell
    `w.syns.length`, local address `connectLocal h dst p` (its host's own address, or the loopback
    address it connects to) ≠ `dst`, the half-open entry for exactly (local, dst) is in the host's
    stream table, and the one-shot cell exists and is pending. -/
theorem connect_pending_state (w : World) (h s : Nat) (dst : Addr) (hh : h < w.hosts.length)
    (hp : (w.opTcpConnect h s dst).2 = "pending") :
    ∃ p chan fcW,
      (w.opTcpConnect h s dst).1.getObj h s =
        some (.connecting w.syns.length (connectLocal h dst p) dst chan fcW) ∧
      connectLocal h dst p ≠ dst ∧
      clientHost h (connectLocal h dst p) = some h ∧
      (findSock ((w.opTcpConnect h s dst).1.host! h) (connectLocal h dst p) dst).isSome ∧
      (w.opTcpConnect h s dst).1.syns.length = w.syns.length + 1 ∧
      ((w.opTcpConnect h s dst).1.syns.getD w.syns.length default).st = .pending := by
  rw [opTcpConnect_eq] at hp ⊢
  cases hap : (w.assignPort h).1 with
  | none => rw [hap] at hp; simp only at hp; exact absurd hp (by decide)
  | some p =>
    rw [hap] at hp
    simp only at hp ⊢
    obtain ⟨chan, fcW, h1, h2, h3, h4, h5⟩ :=
      connectTail_pending (w.assignPort h).2 h s p dst (by rw [hostsLen_assignPort]; exact hh) hp
    rw [syns_assignPort] at h1 h4 h5
    exact ⟨p, chan, fcW, h1, h2, clientHost_connectLocal h dst p, h3, h4, h5⟩


/-- **an address no host owns**: the connect fails with `ConnectionRefused` at once (or the host has
    run out of ephemeral ports — the documented panic). -/
theorem connect_unowned_refused (w : World) (h s : Nat) (dst : Addr)
    (hlo : dst.ip.isLoopback = false) (hown : dst.ip ≠ .host h) (hno : w.ipnumOf dst.ip = none) :
    (w.opTcpConnect h s dst).2 = "err refused" ∨
    ((w.assignPort h).1 = none ∧ (w.opTcpConnect h s dst).2 = "panic") := by
  rw [opTcpConnect_eq]
  cases hap : (w.assignPort h).1 with
  | none => exact Or.inr ⟨rfl, rfl⟩
  | some p =>
    refine Or.inl ?_
    simp only
    have hloc : connectLocal h dst p = { ip := .host h, port := p } := by
      unfold connectLocal; simp [hlo]
    have hne : (connectLocal h dst p == dst) = false := by
      rw [hloc]
      simp only [beq_eq_false_iff_ne, ne_eq]
      intro e
      exact hown (by rw [← e])
    obtain ⟨pn, hpre, hcf, hlen⟩ := connectPre_world (w.assignPort h).2 h p dst
    have hsame : isSame (connectLocal h dst p) dst = false := by
      unfold isSame
      rw [hloc, hlo]
      simp only [Bool.false_or, beq_eq_false_iff_ne, ne_eq]
      exact fun e => hown e.symm
    have hno' : (connectPre (w.assignPort h).2 h p dst).ipnumOf dst.ip = none := by
      apply ipnumOf_none_of_len _ dst.ip hno
      rw [hpre]
      simp
    have hsend : ∀ id, ((connectPre (w.assignPort h).2 h p dst).netSend h
        { src := connectLocal h dst p, dst := dst, msg := .syn id }).1 = false := by
      intro id
      unfold netSend
      simp only [hsame, Bool.false_eq_true, if_false]
      exact unroutable_send_refused _ _ hno'
    unfold connectTail
    simp only [hne, Bool.false_eq_true, if_false, hsend, Bool.not_false, if_true]


/-- **across a partitioned direction**: host `h` connects to an address of another host `dh` while the
    direction `h → dh` of their link is explicitly partitioned (and the opposite direction is not in the
    randomly-failed state, see `randStep_keeps_closed`).  Whatever the oracle says, the SYN is handed
    back by the link, its one-shot is dropped, and the connect returns `ConnectionRefused` in the same
    call — it never hangs.  (Or the documented ephemeral-port panic.) -/
theorem connect_partitioned_refused (w : World) (h s dh li : Nat) (dst : Addr) (l : Link Env)
    (hd : dst.ip = .host dh) (hh : h < w.hosts.length) (hdh : dh < w.hosts.length)
    (hnum : (w.host! h).ipnum ≠ (w.host! dh).ipnum)
    (hf : w.findLink (w.host! h).ipnum (w.host! dh).ipnum = some li) (hl : w.links[li]? = some l)
    (hst : l.stateFor (w.host! h).ipnum (w.host! dh).ipnum = .explicit)
    (hother : l.stateFor (w.host! dh).ipnum (w.host! h).ipnum ≠ .rand) :
    (w.opTcpConnect h s dst).2 = "err refused" ∨
    ((w.assignPort h).1 = none ∧ (w.opTcpConnect h s dst).2 = "panic") := by
  have hdne : dh ≠ h := fun e => hnum (by rw [e])
  rw [opTcpConnect_eq]
  cases hap : (w.assignPort h).1 with
  | none => exact Or.inr ⟨rfl, rfl⟩
  | some p =>
    refine Or.inl ?_
    simp only
    generalize hw1 : (w.assignPort h).2 = w1
    have hl1 : w1.hosts.length = w.hosts.length := by rw [← hw1]; exact hostsLen_assignPort w h
    have hk1 : w1.links = w.links := by rw [← hw1]; exact links_assignPort w h
    have hs1 : w1.syns = w.syns := by rw [← hw1]; exact syns_assignPort w h
    have hi1 : ∀ i, (w1.host! i).ipnum = (w.host! i).ipnum := by intro i; rw [← hw1]; exact ipnum_assignPort w h i
    have hlo : dst.ip.isLoopback = false := by rw [hd]; rfl
    have hloc : connectLocal h dst p = { ip := .host h, port := p } := by
      unfold connectLocal; simp [hlo]
    have hne : (connectLocal h dst p == dst) = false := by
      rw [hloc]
      simp only [beq_eq_false_iff_ne, ne_eq]
      intro e
      rw [← e] at hd
      injection hd with hd
      exact hdne hd.symm
    obtain ⟨pn, hpre, hcf, hlen⟩ := connectPre_world w1 h p dst
    have hsame : isSame (connectLocal h dst p) dst = false := by
      unfold isSame
      rw [hloc, hlo, hd]
      simp only [Bool.false_or, beq_eq_false_iff_ne, ne_eq]
      intro e
      injection e with e
      exact hdne e.symm
    generalize hW : connectPre w1 h p dst = W at hpre
    have hWl : W.hosts.length = w.hosts.length := by rw [hpre]; simpa using hl1
    have hWi : ∀ i, (W.host! i).ipnum = (w.host! i).ipnum := by
      intro i
      rw [← hi1 i]
      by_cases hi : i = h
      · subst hi
        rw [host!_of_setAt (by rw [hpre]) (by omega)]
      · rw [host!_of_setAt_ne (by rw [hpre]) hi]
    have hWk : W.links = w.links := by rw [hpre]; exact hk1
    have hWs : W.syns = w.syns ++ [({} : SynCell)] := by rw [hpre, ← hs1]
    -- the send: routed to the link, dropped there
    have hsend : W.netSend h { src := connectLocal h dst p, dst := dst, msg := .syn w.syns.length } =
        (true, W.linkEnqueue li (w.host! h).ipnum (w.host! dh).ipnum
          { src := connectLocal h dst p, dst := dst, msg := .syn w.syns.length }) := by
      unfold netSend
      simp only [hsame, Bool.false_eq_true, if_false]
      unfold sendMessage
      simp only [hloc, hd]
      rw [ipnumOf_host W h (by omega), ipnumOf_host W dh (by omega), hWi, hWi]
      simp only
      have : ((w.host! h).ipnum == (w.host! dh).ipnum) = false := by simpa using hnum
      simp only [this, Bool.false_eq_true, if_false]
      have hfl : W.findLink (w.host! h).ipnum (w.host! dh).ipnum = some li := by
        unfold findLink at hf ⊢; rw [hWk]; exact hf
      rw [hfl]
    have hdrop : ((W.linkEnqueue li (w.host! h).ipnum (w.host! dh).ipnum
          { src := connectLocal h dst p, dst := dst, msg := .syn w.syns.length }).syns.getD w.syns.length default).st = .dropped := by
      apply linkEnqueue_partitioned_drops W li _ _ _ w.syns.length l (by rw [hWk]; exact hl) hnum hst hother rfl
      · rw [hWs]; simp
      · rw [hWs]
        simp only [List.getD_eq_getElem?_getD]
        rw [List.getElem?_append_right (Nat.le_refl _)]
        simp
    unfold connectTail
    simp only [hne, Bool.false_eq_true, if_false]
    rw [hlen, hcf, hs1, hW, hsend]
    simp only [Bool.not_true, Bool.false_eq_true, if_false]
    refine connect_refused_of_dropped _ h s w.syns.length (connectLocal h dst p) dst w1.chans.length w1.fcs.length ?_ ?_
    · apply getObj_setObj_self
      rw [hosts_linkEnqueue]; omega
    · exact hdrop

/-- hypotheses of `connect_pending_state` (`exW1`, host 0, any free slot) and of
    `connect_unowned_refused` (an address of a host that does not exist, a non-host address). -/
example : ({ exW1 with oracle := [.fail false, .delay 0] }.opTcpConnect 0 0 ⟨.host 1, 80⟩).2 = "pending" ∧
    exW1.ipnumOf (.host 7) = none ∧ exW1.ipnumOf (.x 3) = none ∧
    (exW1.opTcpConnect 0 0 ⟨.host 7, 80⟩).2 = "err refused" ∧
    (exW1.opTcpConnect 0 0 ⟨.x 3, 80⟩).2 = "err refused" := by decide

/-- hypotheses of `connect_partitioned_refused`: hosts 0 and 1 partitioned (both directions explicit). -/
def exP : World := exW1.ctlPartition 0 1

example : exP.findLink (exP.host! 0).ipnum (exP.host! 1).ipnum = some 0 ∧
    (exP.links[0]?).map (fun l => (l.stateFor (exP.host! 0).ipnum (exP.host! 1).ipnum,
      l.stateFor (exP.host! 1).ipnum (exP.host! 0).ipnum)) = some (.explicit, .explicit) ∧
    (exP.host! 0).ipnum ≠ (exP.host! 1).ipnum ∧
    ({ exP with oracle := [.fail true] }.opTcpConnect 0 0 ⟨.host 1, 80⟩).2 = "err refused" ∧
    (exP.opTcpConnect 0 0 ⟨.host 1, 80⟩).2 = "err refused" := by decide

end TV.C12
