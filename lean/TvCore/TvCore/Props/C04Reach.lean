import TvCore.Proofs.C04ReachOps
import TvCore.Proofs.C04ReachSocksOps
/-
  C04 — the ownership invariant of the bind tables holds in every reachable state.

  `Props/C04Own.lean` proves that crash / bounce empty a host's UDP and listener tables under the
  hypothesis `BindsOwned` (every bind belongs to a socket object the host's software holds).  Here
  that hypothesis is discharged for every state the model can reach: `Reach w0 w` is "w is obtained
  from w0 by any sequence of `applyStep`s" — host API calls (`applyHOp`), controller calls, turn
  starts with network delivery, loopback deliveries: exactly the functions the correspondence driver
  executes (`Driver/Replay.lean`).  The induction carries `AllOK` (`BindsOwned` plus "slot keys of the
  object table are unique", for every host); the per-transition lemmas are in
  `Proofs/C04ReachLemmas.lean`, `C04ReachSh.lean`, `C04ReachOps.lean`.

  Panics: for the bind tables a state with `panicked = some _` is not excluded — every model function
  keeps that invariant also on the paths that record a panic.  For the stream-socket table (second
  half of this file: `SocksOwned`, with the connect-leak repair `cfg.fixConnectLeak`) the theorems are
  restricted to `w.panicked = none`: `Tcp::new_stream` asserts that the address pair is new, the model
  records that panic ("already connected") and goes on with a duplicate entry, where the real code has
  aborted.  The induction carries "a panic is recorded ∨ the invariant holds" together with the facts
  that the configuration is never written and a recorded panic is never cleared
  (`Proofs/C04ReachSocksBase.lean`, `C04ReachSocksFr.lean`, `C04ReachSocksOps.lean`).
-/
namespace TV.C04
open TV TV.World

/-- the states reachable from `w0` by the transitions of the driver. -/
inductive Reach (w0 : World) : World → Prop
  | init : Reach w0 w0
  | step {w : World} (st : Step) : Reach w0 w → Reach w0 (applyStep w st)

theorem reach_allOK (w0 w : World) (h0 : w0.hosts = []) (hr : Reach w0 w) : AllOK w := by
  induction hr with
  | init => exact allOK_init w0 h0
  | step st _ ih => exact allOK_applyStep _ st ih

/-- **Ownership is an invariant**: in every state reachable from a world without hosts, every UDP
    bind and every listener bind of every host belongs to a socket object that host holds. -/
theorem reach_bindsOwned (w0 w : World) (h0 : w0.hosts = []) (hr : Reach w0 w) : ∀ hs ∈ w.hosts, BindsOwned hs :=
  fun hs hm => (allOK_mem (reach_allOK w0 w h0 hr) hs hm).bindsOwned

/-- … and slot keys of the object tables are unique (the auxiliary invariant). -/
theorem reach_keysNodup (w0 w : World) (h0 : w0.hosts = []) (hr : Reach w0 w) : ∀ hs ∈ w.hosts, KeysNodup hs.objs :=
  fun hs hm => (allOK_mem (reach_allOK w0 w h0 hr) hs hm).2.2

theorem reach_bindsOwned_host (w0 w : World) (h0 : w0.hosts = []) (hr : Reach w0 w) (h : Nat) : BindsOwned (w.host! h) :=
  (reach_allOK w0 w h0 hr h).bindsOwned

/-- **C04, aggregate release, unconditional for reachable states**: crashing a running host leaves
    its UDP table and its listener table empty. -/
theorem reach_crash_releases_binds (w0 w : World) (h0 : w0.hosts = []) (hr : Reach w0 w) (h : Nat)
    (hh : h < w.hosts.length) (hrun : (w.host! h).running = true) :
    ((w.crash h).host! h).udp = [] ∧ ((w.crash h).host! h).tcpBinds = [] :=
  crash_releases_binds h w hh hrun (reach_bindsOwned_host w0 w h0 hr h)

/-- … and so does bouncing it (running or not). -/
theorem reach_bounce_releases_binds (w0 w : World) (h0 : w0.hosts = []) (hr : Reach w0 w) (h : Nat)
    (hh : h < w.hosts.length) :
    ((w.bounce h).host! h).udp = [] ∧ ((w.bounce h).host! h).tcpBinds = [] :=
  bounce_releases_binds h w hh (reach_bindsOwned_host w0 w h0 hr h)

/-- the crashed / bounced state is reachable again, so the statements iterate. -/
theorem Reach.crash {w0 w : World} (hr : Reach w0 w) (h : Nat) : Reach w0 (w.crash h) := Reach.step (.crash h) hr
theorem Reach.bounce {w0 w : World} (hr : Reach w0 w) (h : Nat) : Reach w0 (w.bounce h) := Reach.step (.bounce h) hr

/-! ### the stream-socket table -/

theorem reach_good (w0 w : World) (h0 : w0.hosts = []) (hfix : w0.cfg.fixConnectLeak = true) (hr : Reach w0 w) : Good w := by
  induction hr with
  | init => exact good_init w0 h0 hfix
  | step st _ ih => exact good_applyStep _ st ih

/-- the configuration is never written. -/
theorem reach_fix (w0 w : World) (h0 : w0.hosts = []) (hfix : w0.cfg.fixConnectLeak = true) (hr : Reach w0 w) :
    w.cfg.fixConnectLeak = true := (reach_good w0 w h0 hfix hr).1

/-- **Ownership of the stream table is an invariant** (with the connect-leak repair): in every
    reachable state in which no panic is recorded, address pairs are unique in every host's stream
    table and every entry needs no more releases than the socket objects held by that host perform. -/
theorem reach_socksOwned (w0 w : World) (h0 : w0.hosts = []) (hfix : w0.cfg.fixConnectLeak = true) (hr : Reach w0 w)
    (hp : w.panicked = none) : ∀ hs ∈ w.hosts, SocksOwned true hs := by
  rcases (reach_good w0 w h0 hfix hr).2.2 with hpan | hS
  · rw [hp] at hpan; cases hpan
  · exact allS_mem hS

theorem reach_socksOwned_host (w0 w : World) (h0 : w0.hosts = []) (hfix : w0.cfg.fixConnectLeak = true) (hr : Reach w0 w)
    (hp : w.panicked = none) (h : Nat) : SocksOwned w.cfg.fixConnectLeak (w.host! h) := by
  rw [reach_fix w0 w h0 hfix hr]
  rcases (reach_good w0 w h0 hfix hr).2.2 with hpan | hS
  · rw [hp] at hpan; cases hpan
  · exact hS h

/-- **C04, aggregate release of streams, unconditional for reachable states**: crashing a running
    host leaves its stream-socket table empty. -/
theorem reach_crash_releases_socks (w0 w : World) (h0 : w0.hosts = []) (hfix : w0.cfg.fixConnectLeak = true)
    (hr : Reach w0 w) (hp : w.panicked = none) (h : Nat) (hh : h < w.hosts.length) (hrun : (w.host! h).running = true) :
    ((w.crash h).host! h).socks = [] :=
  crash_releases_socks h w hh hrun (reach_socksOwned_host w0 w h0 hfix hr hp h)

theorem reach_bounce_releases_socks (w0 w : World) (h0 : w0.hosts = []) (hfix : w0.cfg.fixConnectLeak = true)
    (hr : Reach w0 w) (hp : w.panicked = none) (h : Nat) (hh : h < w.hosts.length) :
    ((w.bounce h).host! h).socks = [] :=
  bounce_releases_socks h w hh (reach_socksOwned_host w0 w h0 hfix hr hp h)

/-! ### non-vacuity: a reachable world with non-empty bind tables -/

/-- register a host, bind a UDP socket on port 7 in slot 0 and a listener on port 9 in slot 1. -/
def demoSteps : List Step :=
  [ .register 1 false,
    .host 0 (.udpBind 0 { ip := .any, port := 7 }),
    .host 0 (.tcpBind 1 { ip := .any, port := 9 }) ]

def demoWorld : World := demoSteps.foldl applyStep {}

theorem reach_foldl (w0 : World) (sts : List Step) : Reach w0 (sts.foldl applyStep w0) := by
  suffices H : ∀ w, Reach w0 w → Reach w0 (sts.foldl applyStep w) from H w0 Reach.init
  induction sts with
  | nil => exact fun _ h => h
  | cons st sts ih => exact fun w h => ih _ (Reach.step st h)

theorem demo_reach : Reach {} demoWorld := reach_foldl {} demoSteps

/-- the reachable world `demoWorld` has one running host whose UDP table holds port 7, whose
    listener table holds port 9, and which holds the two socket objects: the hypotheses of the
    theorems above are satisfiable by a state with non-empty bind tables. -/
example : demoWorld.hosts.length = 1 ∧ (demoWorld.host! 0).running = true ∧
    (demoWorld.host! 0).udp.map (·.port) = [7] ∧ (demoWorld.host! 0).tcpBinds.map (·.port) = [9] ∧
    (demoWorld.host! 0).objs.length = 2 := by decide

/-- … and the release theorem applies to it. -/
example : ((demoWorld.crash 0).host! 0).udp = [] ∧ ((demoWorld.crash 0).host! 0).tcpBinds = [] :=
  reach_crash_releases_binds {} demoWorld rfl demo_reach 0 (by decide) (by decide)

/-- repaired configuration; one host that listens on port 9 and connects to it over loopback: the
    pending connect owns a stream-table entry. -/
def demoFix : World := { cfg := { fixConnectLeak := true } }

def demoSockSteps : List Step :=
  [ .register 1 false,
    .host 0 (.tcpBind 1 { ip := .any, port := 9 }),
    .host 0 (.tcpConnect 2 { ip := .lo, port := 9 }) ]

def demoSockWorld : World := demoSockSteps.foldl applyStep demoFix

theorem demoSock_reach : Reach demoFix demoSockWorld := reach_foldl demoFix demoSockSteps

example : demoSockWorld.panicked = none ∧ (demoSockWorld.host! 0).running = true ∧
    (demoSockWorld.host! 0).socks.length = 1 ∧ (demoSockWorld.host! 0).objs.length = 2 := by decide

example : ((demoSockWorld.crash 0).host! 0).socks = [] :=
  reach_crash_releases_socks demoFix demoSockWorld rfl rfl demoSock_reach (by decide) 0 (by decide) (by decide)

end TV.C04
