import TvCore.Props.WorldLinks
import TvCore.Proofs.LinkC03
/-
  C03 — host sets.

  `Sim::partition_oneway(A, B)` with host *sets* (names, regexes) is the single-pair call on every
  ordered pair `(a, b)`, `a ∈ A`, `b ∈ B`, `a ≠ b` (`for_pairs`).  The sets may overlap; then both
  `(a, b)` and `(b, a)` occur, and they are different directions of one link.  Theorem: after the
  set call **every** such direction is explicitly partitioned — none is skipped because "its link was
  already visited".
-/
namespace TV.C03Sets
open TV TV.World TV.WorldLinks

/-- direction `s → d` (ip numbers) of link `li` is explicitly partitioned. -/
def DirExplicit (w : World) (li s d : Nat) : Prop :=
  ∃ l, w.links[li]? = some l ∧ l.stateFor s d = .explicit

theorem stateFor_partitionOneway_self {M : Type} (l : Link M) (s d : Nat) :
    (l.partitionOneway s d).1.stateFor s d = .explicit := by
  obtain ⟨_, _, _, e1, e2, _⟩ := Link.partitionOneway_fields l s d
  unfold Link.stateFor
  rw [e1, e2]
  by_cases h : s < d <;> simp [h]

theorem stateFor_partitionOneway_keeps {M : Type} (l : Link M) (p q s d : Nat)
    (h : l.stateFor s d = .explicit) : (l.partitionOneway p q).1.stateFor s d = .explicit := by
  obtain ⟨_, _, _, e1, e2, _⟩ := Link.partitionOneway_fields l p q
  unfold Link.stateFor at *
  rw [e1, e2]
  by_cases h1 : p < q <;> by_cases h2 : s < d <;> simp only [h1, h2, if_true, if_false] at h ⊢ <;> first | rfl | exact h

theorem ab_partitionOneway {M : Type} (l : Link M) (p q : Nat) :
    (l.partitionOneway p q).1.a = l.a ∧ (l.partitionOneway p q).1.b = l.b :=
  ⟨(Link.partitionOneway_fields l p q).1, (Link.partitionOneway_fields l p q).2.1⟩

theorem findIdx?_setAt_at {α : Type} (l : List α) (i : Nat) (f : α → α) (p : α → Bool)
    (hp : ∀ x, l[i]? = some x → p (f x) = p x) : (setAt l i f).findIdx? p = l.findIdx? p := by
  induction l generalizing i with
  | nil => rfl
  | cons x xs ih =>
    cases i with
    | zero =>
      have := hp x (by simp)
      simp [setAt, List.findIdx?_cons, this]
    | succ k =>
      have := ih k (fun y hy => hp y (by simpa using hy))
      simp [setAt, List.findIdx?_cons, this]

theorem getElem?_setAt_self {α : Type} (l : List α) (i : Nat) (f : α → α) : (setAt l i f)[i]? = l[i]?.map f := by
  induction l generalizing i with
  | nil => simp [setAt]
  | cons x xs ih =>
    cases i with
    | zero => simp [setAt]
    | succ k => simpa [setAt] using ih k

@[simp] theorem links_panic (w : World) (t : String) : (w.panic t).links = w.links := by
  unfold World.panic; split <;> rfl

/-- what a control call may change: nothing about hosts, nothing about which link joins which pair,
    and no explicit partition is lifted. -/
def Stable (w w' : World) : Prop :=
  w'.hosts = w.hosts ∧ (∀ a b, w'.findLink a b = w.findLink a b) ∧
  (∀ li s d, DirExplicit w li s d → DirExplicit w' li s d)

theorem Stable.refl (w : World) : Stable w w := ⟨rfl, fun _ _ => rfl, fun _ _ _ h => h⟩
theorem Stable.trans {a b c : World} (h1 : Stable a b) (h2 : Stable b c) : Stable a c :=
  ⟨h2.1.trans h1.1, fun x y => (h2.2.1 x y).trans (h1.2.1 x y), fun li s d h => h2.2.2 li s d (h1.2.2 li s d h)⟩

theorem findLink_of_links (w w' : World) (h : ∀ (p : Link Env → Bool), w'.links.findIdx? p = w.links.findIdx? p) (a b : Nat) :
    w'.findLink a b = w.findLink a b := by
  unfold findLink
  exact h _

/-- a one-way partition call is stable, and partitions its own direction. -/
theorem partitionOneway_stable (w : World) (x y : Nat) : Stable w (w.ctlPartitionOneway x y) := by
  unfold ctlPartitionOneway
  refine ⟨onLink_hosts w x y _, ?_, ?_⟩
  · intro a b
    unfold onLink
    simp only
    cases hf : w.findLink (w.host! x).ipnum (w.host! y).ipnum with
    | none => simp only; unfold findLink; rw [links_panic]
    | some li =>
      simp only
      cases hl : w.links[li]? with
      | none => rfl
      | some l =>
        simp only
        unfold findLink
        simp only [links_dropEnvs]
        apply findIdx?_setAt_at
        intro z hz
        rw [hl] at hz
        have e := Option.some.inj hz
        subst e
        have := ab_partitionOneway l (w.host! x).ipnum (w.host! y).ipnum
        simp [this.1, this.2]
  · intro lj s d ⟨l0, hl0, hs0⟩
    unfold DirExplicit onLink
    simp only
    cases hf : w.findLink (w.host! x).ipnum (w.host! y).ipnum with
    | none => exact ⟨l0, by simpa using hl0, hs0⟩
    | some li =>
      simp only
      cases hl : w.links[li]? with
      | none => exact ⟨l0, hl0, hs0⟩
      | some l =>
        simp only [links_dropEnvs]
        by_cases e : lj = li
        · subst e
          rw [hl] at hl0
          have e2 := Option.some.inj hl0
          subst e2
          refine ⟨(l.partitionOneway (w.host! x).ipnum (w.host! y).ipnum).1, ?_, stateFor_partitionOneway_keeps l _ _ s d hs0⟩
          have hlen : lj < w.links.length := (List.getElem?_eq_some_iff.mp hl).1
          have := getElem?_setAt_self w.links lj (fun _ => (l.partitionOneway (w.host! x).ipnum (w.host! y).ipnum).1)
          rw [this, hl]; rfl
        · refine ⟨l0, ?_, hs0⟩
          rw [getElem?_setAt_ne _ _ _ _ e]; exact hl0

theorem partitionOneway_sets (w : World) (x y li : Nat) (l : Link Env)
    (hf : w.findLink (w.host! x).ipnum (w.host! y).ipnum = some li) (hl : w.links[li]? = some l) :
    DirExplicit (w.ctlPartitionOneway x y) li (w.host! x).ipnum (w.host! y).ipnum := by
  unfold ctlPartitionOneway DirExplicit onLink
  simp only [hf, hl, links_dropEnvs]
  refine ⟨(l.partitionOneway (w.host! x).ipnum (w.host! y).ipnum).1, ?_, stateFor_partitionOneway_self l _ _⟩
  have := getElem?_setAt_self w.links li (fun _ => (l.partitionOneway (w.host! x).ipnum (w.host! y).ipnum).1)
  rw [this, hl]; rfl


theorem host!_of_hosts {w w' : World} (h : w'.hosts = w.hosts) (x : Nat) : w'.host! x = w.host! x := by
  unfold host!; rw [h]

/-- the step `for_pairs` takes for one ordered pair. -/
def pairStep (w : World) (x y : Nat) : World := if x != y then w.ctlPartitionOneway x y else w

theorem pairStep_stable (w : World) (x y : Nat) : Stable w (pairStep w x y) := by
  unfold pairStep
  split
  · exact partitionOneway_stable w x y
  · exact Stable.refl w

theorem links_length_pairStep (w : World) (x y : Nat) : (pairStep w x y).links.length = w.links.length := by
  unfold pairStep
  split
  · unfold ctlPartitionOneway onLink
    simp only
    split
    · simp
    · split
      · rfl
      · simp [links_dropEnvs]
  · rfl

/-- a control call never removes a link. -/
theorem link_survives (w : World) (x y li : Nat) (hl : ∃ l, w.links[li]? = some l) :
    ∃ l, (pairStep w x y).links[li]? = some l := by
  obtain ⟨l, hl⟩ := hl
  have hlt : li < w.links.length := (List.getElem?_eq_some_iff.mp hl).1
  have : li < (pairStep w x y).links.length := by rw [links_length_pairStep]; exact hlt
  exact ⟨_, List.getElem?_eq_getElem this⟩

theorem inner_stable (x : Nat) (ys : List Nat) (w : World) : Stable w (ys.foldl (fun w y => pairStep w x y) w) := by
  induction ys generalizing w with
  | nil => exact Stable.refl w
  | cons y ys ih => exact (pairStep_stable w x y).trans (ih _)

/-- inner loop of `for_pairs`: the direction `x → y0` is partitioned for every `y0` in the second set. -/
theorem inner_sets (x y0 li : Nat) (ys : List Nat) (w : World) (hy : y0 ∈ ys) (hne : x ≠ y0)
    (hf : w.findLink (w.host! x).ipnum (w.host! y0).ipnum = some li) (hl : ∃ l, w.links[li]? = some l) :
    DirExplicit (ys.foldl (fun w y => pairStep w x y) w) li (w.host! x).ipnum (w.host! y0).ipnum := by
  induction ys generalizing w with
  | nil => exact absurd hy (by simp)
  | cons y ys ih =>
    simp only [List.foldl_cons]
    have hst := pairStep_stable w x y
    by_cases e : y = y0
    · subst e
      have h1 : DirExplicit (pairStep w x y) li (w.host! x).ipnum (w.host! y).ipnum := by
        unfold pairStep
        have : (x != y) = true := by simpa using hne
        simp only [this, if_true]
        obtain ⟨l, hl⟩ := hl
        exact partitionOneway_sets w x y li l hf hl
      exact (inner_stable x ys _).2.2 li _ _ h1
    · have hy' : y0 ∈ ys := by
        rcases List.mem_cons.mp hy with h | h
        · exact absurd h.symm e
        · exact h
      have hh := hst.1
      have := ih (pairStep w x y) hy'
        (by rw [host!_of_hosts hh, host!_of_hosts hh, hst.2.1]; exact hf)
        (link_survives w x y li hl)
      rw [host!_of_hosts hh, host!_of_hosts hh] at this
      exact this


theorem forPairs_eq (w : World) (xs ys : List Nat) :
    w.forPairs xs ys ctlPartitionOneway = xs.foldl (fun w x => ys.foldl (fun w y => pairStep w x y) w) w := rfl

theorem outer_stable (xs ys : List Nat) (w : World) :
    Stable w (xs.foldl (fun w x => ys.foldl (fun w y => pairStep w x y) w) w) := by
  induction xs generalizing w with
  | nil => exact Stable.refl w
  | cons x xs ih => exact (inner_stable x ys w).trans (ih _)

theorem inner_link_survives (x : Nat) (ys : List Nat) (w : World) (li : Nat) (hl : ∃ l, w.links[li]? = some l) :
    ∃ l, (ys.foldl (fun w y => pairStep w x y) w).links[li]? = some l := by
  induction ys generalizing w with
  | nil => exact hl
  | cons y ys ih => exact ih _ (link_survives w x y li hl)

/-- **C03, host sets**: `partition_oneway(A, B)` — sets given by name or regex, overlapping or not —
    explicitly partitions the direction `a → b` of **every** ordered pair `a ∈ A`, `b ∈ B`, `a ≠ b`
    that is joined by a link; in particular when both `(a, b)` and `(b, a)` occur, both directions of
    their link.  (With `C03.fixed` nothing sent on such a direction is delivered until it is repaired.) -/
theorem partition_oneway_sets (w : World) (xs ys : List Nat) (x0 y0 li : Nat)
    (hx : x0 ∈ xs) (hy : y0 ∈ ys) (hne : x0 ≠ y0)
    (hf : w.findLink (w.host! x0).ipnum (w.host! y0).ipnum = some li) (hl : ∃ l, w.links[li]? = some l) :
    DirExplicit (w.forPairs xs ys ctlPartitionOneway) li (w.host! x0).ipnum (w.host! y0).ipnum := by
  rw [forPairs_eq]
  induction xs generalizing w with
  | nil => exact absurd hx (by simp)
  | cons x xs ih =>
    simp only [List.foldl_cons]
    by_cases e : x = x0
    · subst e
      have h1 := inner_sets x y0 li ys w hy hne hf hl
      exact (outer_stable xs ys _).2.2 li _ _ h1
    · have hx' : x0 ∈ xs := by
        rcases List.mem_cons.mp hx with h | h
        · exact absurd h.symm e
        · exact h
      have hst := inner_stable x ys w
      have := ih (ys.foldl (fun w y => pairStep w x y) w) hx'
        (by rw [host!_of_hosts hst.1, host!_of_hosts hst.1, hst.2.1]; exact hf)
        (inner_link_survives x ys w li hl)
      rw [host!_of_hosts hst.1, host!_of_hosts hst.1] at this
      exact this

end TV.C03Sets
