import TvCore.Proofs.C09WorldLemmas
/-
  C09 END TO END — sender side (`Props/C09Fanout.lean`), links (`Props/LinksWorld.lean`) and receiver
  side (`Props/C09.lean`) composed over the steps the replay driver runs (`applyStep`).

  3. `tryrecv_returns_queue_head` — `Rx::try_recv_from` returns the head of the socket's pending datagrams
     (stash, then queue) cut to the buffer, removes exactly it, changes nothing else; `wouldblock` iff none.
  5. `dropped_disturbs_nothing` (+ `_loopback`, `dropped_leaves_table`) — a datagram dropped at arrival (unbound
     port, peer filter, bind address, full queue) leaves the whole world as it was (but the coverage tag).
  1. `recv_was_sent` (+ `sentLog_sound`) — every entry of every receive queue in every world reachable from a
     fresh one is the payload and source of a record of the ghost send log whose destination targets that
     socket (port, bind address, peer filter at arrival, loopback on the sender's host / a link to this
     host's number).
  2. `recv_at_most_once` (+ `_fresh`, `_socket`) — conservation of keyed datagram envelopes over every run:
     arrivals + still queued ≤ log records + initially queued; so every record accounts for at most one arrival.
     `turn_queues`, `loDeliver_queues`: the arrivals are exactly the growth of the queues.
  4. `healthy_exactly_once` (+ `handed_datagram_queued`) — `healthy_delivered_in_window` composed with the
     receiver side: the datagram is handed over exactly once, at the receiver's turn, and a socket that
     accepts it at that moment queues it exactly once.
  Helpers: `Proofs/C09World{Recv,Defs,Links,Ops,Steps,Arr,Lemmas}.lean`.
-/
namespace TV.C09
open TV TV.World TV.C04 TV.LW

/-! ## 3. `try_recv_from` returns the head of the socket's queue -/

/-- Everything `try_recv_from` on the UDP socket in slot `s` of host `h` (local address `loc`) did when
    it went from `w` to `w'` and returned a datagram, `rest` being what the socket had still to return
    behind it; one field per clause. -/
structure TookHead (w : World) (h s : Nat) (loc : Addr) (rest : List (Hex × Addr)) (w' : World) : Prop where
  /-- exactly the head is gone: what the socket has still to return is the rest, in order -/
  pending' : pending w' h s = rest
  /-- the slot still holds the socket, with the same local address -/
  obj : ∃ st, w'.getObj h s = some (.udp loc st)
  /-- no other slot of the host changes -/
  slots : ∀ s', s' ≠ s → w'.getObj h s' = w.getObj h s'
  /-- the host's bind table is the same but for one queue: ports, bind addresses, connected peers, flags -/
  binds : (w'.host! h).udp.map noQueue = (w.host! h).udp.map noQueue
  /-- the queue of every other port is untouched -/
  queues : ∀ port, port ≠ loc.port → bindQueue (w'.host! h) port = bindQueue (w.host! h) port
  /-- nothing else of the host changes: listener and stream tables, loopback queue, port cursor, clocks … -/
  host : { w'.host! h with objs := (w.host! h).objs, udp := (w.host! h).udp } = w.host! h
  /-- no other host changes -/
  others : ∀ i, i ≠ h → w'.host! i = w.host! i
  len : w'.hosts.length = w.hosts.length
  /-- nothing outside the host table changes: links, channels, groups, oracle, clocks, coverage -/
  world : { w' with hosts := w.hosts } = w

/-- **C09, `try_recv_from` returns the queue head, cut to the buffer.**  For a UDP socket object in slot
    `s` of host `h`, with `pending w h s` = the datagram `readable()` already took out of the queue (if
    any) followed by the receive queue of the socket's bind:
    * nothing pending ⇒ `"err wouldblock"` and the world is unchanged;
    * `x = (payload, origin)` first ⇒ the result is `recvRes n x` — `min n (len payload)` bytes, the
      origin, the payload cut to `n` bytes (`hexTake`; `hexLen_hexTake`, `truncation`: the cut is
      lossless and exactly `n` bytes long) — exactly `x` is removed and nothing else changes (`TookHead`);
    * so `"err wouldblock"` is returned iff nothing is pending. -/
theorem tryrecv_returns_queue_head (w : World) (h s n : Nat) (loc : Addr) (stash : Option (Hex × Addr))
    (ho : w.getObj h s = some (.udp loc stash)) :
    (pending w h s = [] → w.opUdpTryRecv h s n = (w, "err wouldblock")) ∧
    (∀ x rest, pending w h s = x :: rest →
      (w.opUdpTryRecv h s n).2 = recvRes n x ∧ TookHead w h s loc rest (w.opUdpTryRecv h s n).1 ∧
      hexLen (hexTake x.1 n) = min n (hexLen x.1) ∧ hexTake x.1 n ++ hexDrop x.1 n = x.1) ∧
    ((w.opUdpTryRecv h s n).2 = "err wouldblock" ↔ pending w h s = []) := by
  have hh : h < w.hosts.length := C12.lt_of_getObj w h s _ ho
  have hpend : pending w h s = stash.toList ++ bindQueue (w.host! h) loc.port := by
    unfold pending; rw [ho]
  -- the three cases, each with its equation
  have key : (pending w h s = [] ∧ w.opUdpTryRecv h s n = (w, "err wouldblock")) ∨
      (∃ x rest, pending w h s = x :: rest ∧ (w.opUdpTryRecv h s n).2 = recvRes n x ∧
        TookHead w h s loc rest (w.opUdpTryRecv h s n).1) := by
    cases stash with
    | some x =>
      refine Or.inr ⟨x, bindQueue (w.host! h) loc.port, by rw [hpend]; rfl, ?_, ?_⟩
      · rw [tryRecv_stash w h s n loc x ho]
      · rw [tryRecv_stash w h s n loc x ho]
        have hhost := host!_setObj_self w h s (.udp loc none) hh
        refine ⟨?_, ⟨none, C12.getObj_setObj_self w h s _ hh⟩, fun s' hs' => C12.getObj_setObj_ne_slot w h s s' _ hs',
          by rw [hhost], fun port _ => by rw [hhost]; rfl, by rw [hhost], fun i hi => host!_setObj_ne w h s i _ hi,
          by simp [setObj, setHost], rfl⟩
        unfold pending
        rw [C12.getObj_setObj_self w h s _ hh, hhost]
        rfl
    | none =>
      cases hb : (w.host! h).udp.findIdx? (·.port == loc.port) with
      | none =>
        exact Or.inl ⟨by rw [hpend, bindQueue_none _ _ hb]; rfl, tryRecv_nobind w h s n loc ho hb⟩
      | some bi =>
        cases hq : ((w.host! h).udp.getD bi default).queue with
        | nil =>
          exact Or.inl ⟨by rw [hpend, bindQueue_of_findIdx? _ _ _ hb, hq]; rfl, tryRecv_empty w h s n loc bi ho hb hq⟩
        | cons x rest =>
          refine Or.inr ⟨x, rest, by rw [hpend, bindQueue_of_findIdx? _ _ _ hb, hq]; rfl, ?_, ?_⟩
          · rw [tryRecv_queue w h s n loc bi x rest ho hb hq]
          · rw [tryRecv_queue w h s n loc bi x rest ho hb hq]
            have hhost : (w.setHost h (fun hs => setQueue hs bi rest)).host! h = setQueue (w.host! h) bi rest :=
              host!_setHost_self _ _ _ hh
            have hobj : ∀ s', (w.setHost h (fun hs => setQueue hs bi rest)).getObj h s' = w.getObj h s' :=
              fun s' => C12.getObj_setHost_objs w h h s' _ (fun _ => rfl)
            refine ⟨?_, ⟨none, by rw [hobj, ho]⟩, fun s' _ => hobj s', by rw [hhost, map_noQueue_setQueue],
              fun port hp => by rw [hhost, bindQueue_setQueue_ne _ _ _ _ _ hb hp], by rw [hhost]; rfl,
              fun i hi => C12.host!_setHost_ne _ _ _ _ hi, by simp [setHost], rfl⟩
            unfold pending
            rw [hobj, ho, hhost]
            show ([] : List (Hex × Addr)) ++ bindQueue (setQueue (w.host! h) bi rest) loc.port = rest
            rw [bindQueue_setQueue_self _ _ _ _ hb]
            rfl
  refine ⟨fun he => ?_, fun x rest hx => ?_, ?_⟩
  · rcases key with ⟨_, e⟩ | ⟨x, rest, hx, _⟩
    · exact e
    · rw [he] at hx; cases hx
  · rcases key with ⟨he, _⟩ | ⟨x', rest', hx', hr, ht⟩
    · rw [he] at hx; cases hx
    · rw [hx] at hx'
      cases hx'
      exact ⟨hr, ht, hexLen_hexTake _ _, truncation _ _⟩
  · rcases key with ⟨he, e⟩ | ⟨x, rest, hx, hr, _⟩
    · rw [e]; exact ⟨fun _ => he, fun _ => rfl⟩
    · rw [hr, hx]
      exact ⟨fun e => absurd e (recvRes_ne_wouldblock n x), fun e => by cases e⟩

/-! ## 5. a dropped datagram disturbs nothing -/

/-- **C09, a datagram dropped at arrival leaves the world as it was** (`drop_isolated` lifted through
    `Host::receive_from_network`, the function every datagram reaching a host goes through — from a link
    at the start of the host's turn, or from the loopback task).  If the host-side decision drops the
    UDP envelope `e` — the tag says why: `"udpnobind"` no socket bound to the destination port,
    `"udpfilter"` the connected-peer filter rejects the source, `"udpnomatch"` the bind address does not
    accept the destination, `"udpfull"` the queue is at capacity (`udpReceive_tag`: each tag with its
    condition) — then no RST is sent back and the world after `receive` is the world before it: every
    host (all tables, all queues, all socket objects), every link, channel, group, the oracle; only the
    driver's coverage tag is recorded. -/
theorem dropped_disturbs_nothing (w : World) (h : Nat) (e : Env) (p : Hex) (hm : e.msg = .udp p)
    (hd : (udpReceive w.cfg.udpCap (w.host! h) e.src e.dst p).2 ≠ "") :
    w.receive h e = (false, w.tag (udpReceive w.cfg.udpCap (w.host! h) e.src e.dst p).2) ∧
    (w.receive h e).2.hosts = w.hosts ∧ (w.receive h e).2.links = w.links ∧
    { (w.receive h e).2 with cov := w.cov } = w := by
  have he : w.receive h e = (false, w.tag (udpReceive w.cfg.udpCap (w.host! h) e.src e.dst p).2) := by
    rw [receive_udp w h e p hm, isEmpty_false_of_ne hd, drop_isolated _ _ _ _ _ hd, setHost_same]
    rfl
  rw [he]
  exact ⟨rfl, hosts_tag _ _, WorldLinks.links_tag _ _, tag_cov _ _⟩

/-- … on the loopback path: when the `i`-th loopback message of host `h` is a UDP datagram that the
    host drops, its delivery (`loDeliver h i`) only takes it off the loopback queue. -/
theorem dropped_disturbs_nothing_loopback (w : World) (h i : Nat) (e : Env) (p : Hex)
    (he : (w.host! h).lo.getD i default = e) (hm : e.msg = .udp p)
    (hd : (udpReceive w.cfg.udpCap (w.host! h) e.src e.dst p).2 ≠ "") :
    loStep w h i =
      ((w.setHost h (fun hs => { hs with lo := hs.lo.eraseIdx i })).tag
         (udpReceive w.cfg.udpCap (w.host! h) e.src e.dst p).2, none) := by
  have hu : ((w.setHost h (fun hs => { hs with lo := hs.lo.eraseIdx i })).host! h).udp = (w.host! h).udp := by
    rw [host!_setHost]; split <;> rfl
  have ht := (udpReceive_congr w.cfg.udpCap (w.host! h)
    ((w.setHost h (fun hs => { hs with lo := hs.lo.eraseIdx i })).host! h) e.src e.dst p hu).1
  have hd' : (udpReceive (w.setHost h (fun hs => { hs with lo := hs.lo.eraseIdx i })).cfg.udpCap
      ((w.setHost h (fun hs => { hs with lo := hs.lo.eraseIdx i })).host! h) e.src e.dst p).2 ≠ "" := by
    show (udpReceive w.cfg.udpCap _ e.src e.dst p).2 ≠ ""
    rw [ht]; exact hd
  have hr := (dropped_disturbs_nothing _ h e p hm hd').1
  unfold loStep
  simp only [he, hr]
  show ((w.setHost h _).tag (udpReceive w.cfg.udpCap _ e.src e.dst p).2, none) = _
  rw [ht]

/-! ## 1. every datagram received was sent — 2. at most once

  Ghost instrumentation of a run `sts` of driver steps from world `w` (definitions in
  `Proofs/C09WorldDefs.lean`):
  * `sentLog w sts : List SendRec` — for every `send_to(dst, p)` step, in order, one record per destination
    the call addresses (`sentRecs`: unicast the address itself; broadcast — flag on — the hosts with the port
    bound; multicast the current members the loop flag lets through; minus destinations without any route):
    the sending host, the envelope `(source, destination, payload)`, and its route (`Place`): `.lo h` = the
    loopback queue of the sender, `.net d` = a link, addressed to host number `d`.  `sentRecs_sound` is
    `send_sound` for the records; `sentRecs_dsts`: one record per destination at most.
  * `arrivedOn w sts : List Arrival` — for every host turn and loopback delivery, in order, one entry per
    datagram that `udpReceive` queued: the receiving host, the route it came by, the envelope, and the bind
    that took it as it was at that moment.  `turn_queues` / `loDeliver_queues` tie the arrivals to the
    queues: the host's bind table after the step is `udpReceive` folded over the envelopes handed over.
  * `flightCount w k` — how often the keyed envelope `k = (route, envelope)` is queued in `w` (on the
    loopback queue of that host / on any link with that destination number, in flight or deliverable).
  Hypotheses on a run (`RunOK`): the routing invariant of the links holds at its start (`GeoW`; true of a
  world without links and kept by every step) and every `loDeliver h i` step delivers a message that is on
  the queue (`LoValid`; the driver looks the message up in the queue — the model's `loStep` on an index out
  of range would deliver `default : Env`). -/

/-- **C09, every datagram received was sent.**  Start from a world in which nothing is queued (`Fresh`; e.g.
    no hosts and no links: `fresh_of_empty`) and run ANY sequence of driver steps.  Then every entry
    `x = (payload, origin)` in the receive queue of every bind `b` of every host `i` is justified by a record
    `r` of the send log and an arrival `a`:
    * `r` carries exactly that payload, and its source address is the reported origin;
    * the datagram arrived at host `i` on a bind with `b`'s port and bind address, unaltered, by the route
      it was sent on;
    * its destination targets this socket: the destination port is `b`'s port, `b`'s bind address accepts
      the destination address (`addrMatches`: wildcard bind, or exactly that address — a localhost bind does
      not take traffic addressed to the host's own address), the connected-peer filter of the bind at the
      moment of arrival accepted the source, and
      - loopback route: the sender is host `i` itself and the destination address is a loopback address or
        the source's own address,
      - network route: the destination address is the address of a host whose number is host `i`'s — of
        host `i` itself when host numbers are distinct.
    (`sentLog_sound`: what each record says about the `send_to` call that created it.) -/
theorem recv_was_sent (w0 : World) (sts : List Step) (hf : Fresh w0) (hv : ∀ p ∈ trail w0 sts, LoValid p.1 p.2)
    (i : Nat) (b : UdpBind) (x : Hex × Addr) (hb : b ∈ ((run w0 sts).host! i).udp) (hx : x ∈ b.queue) :
    ∃ r ∈ sentLog w0 sts, ∃ a ∈ arrivedOn w0 sts,
      r.env.msg = .udp x.1 ∧ r.env.src = x.2 ∧
      a.host = i ∧ a.bind.port = b.port ∧ a.bind.bindAddr = b.bindAddr ∧ a.env = r.env ∧ a.place = r.place ∧
      r.env.dst.port = b.port ∧ addrMatches b.bindAddr r.env.dst = true ∧ filterOk a.bind x.2 = true ∧
      (match r.place with
       | .lo j => j = i ∧ r.host = i ∧ (r.env.dst.ip.isLoopback = true ∨ r.env.src.ip = r.env.dst.ip)
       | .net d => (run w0 sts).ipnumOf r.env.dst.ip = some d ∧ d = ((run w0 sts).host! i).ipnum ∧
           (((run w0 sts).hosts.map (·.ipnum)).Nodup → r.env.dst.ip = .host i)) := by
  have hrun : RunOK w0 sts := ⟨hf.geo, hv⟩
  -- the entry arrived during the run
  rcases run_queues w0 sts hrun i b hb x hx with ⟨b0, hb0, _, _, x0⟩ | ⟨a, ha, a1, a2, a3, a4, a5⟩
  · rw [hf.queues i b0 hb0] at x0; cases x0
  · obtain ⟨o1, o2, o3, o4, o5, _, o7⟩ := run_arrOK w0 sts hrun a ha
    -- the arrival is accounted for by a record of the log
    have hcount := run_fl w0 sts hrun a.key o1
    rw [hf.flight a.key o1] at hcount
    have hpos : 0 < ((arrivedOn w0 sts).map Arrival.key).count a.key :=
      List.count_pos_iff.mpr (List.mem_map.mpr ⟨a, ha, rfl⟩)
    have hmem : a.key ∈ (sentLog w0 sts).map SendRec.key := List.count_pos_iff.mp (by omega)
    obtain ⟨r, hr, hk⟩ := List.mem_map.mp hmem
    have hpl : r.place = a.place := congrArg Prod.fst hk
    have henv : r.env = a.env := congrArg Prod.snd hk
    have hrok := (run_recOK w0 sts hrun r hr).2
    refine ⟨r, hr, a, ha, by rw [henv]; exact a4, by rw [henv]; exact a5, a1, a2, a3, henv.symm, hpl.symm,
      by rw [henv, o3]; exact a2, by rw [henv, ← a3]; exact o4, by rw [← a5]; exact o5, ?_⟩
    cases hp : r.place with
    | lo j =>
      rw [hp] at hrok
      rw [← hpl, hp] at o7
      simp only at hrok o7 ⊢
      exact ⟨o7.trans a1, hrok.1.symm.trans (o7.trans a1), hrok.2⟩
    | net d =>
      rw [hp] at hrok
      rw [← hpl, hp, a1] at o7
      simp only at hrok o7 ⊢
      refine ⟨hrok, o7, fun hnd => ?_⟩
      -- distinct host numbers: the address with that number is host `i`'s
      rw [ipnumOf_nums] at hrok
      cases hip : r.env.dst.ip with
      | host j =>
        rw [hip] at hrok
        simp only at hrok
        have hi : i < (run w0 sts).hosts.length := by rw [← a1]; exact o2
        have hj : j < ((run w0 sts).hosts.map (·.ipnum)).length := (List.getElem?_eq_some_iff.mp hrok).1
        have hi' : i < ((run w0 sts).hosts.map (·.ipnum)).length := by simpa using hi
        have e1 : ((run w0 sts).hosts.map (·.ipnum))[j] = d := (List.getElem?_eq_some_iff.mp hrok).2
        have e2 : ((run w0 sts).hosts.map (·.ipnum))[i] = d := by
          rw [o7]
          unfold host!
          rw [List.getD_eq_getElem?_getD, List.getElem?_eq_getElem hi]
          simp
        have hp' := List.pairwise_iff_getElem.mp hnd
        rcases Nat.lt_trichotomy j i with hlt | heq | hgt
        · exact absurd (e1.trans e2.symm) (hp' j i hj hi' hlt)
        · rw [heq]
        · exact absurd (e2.trans e1.symm) (hp' i j hi' hj hgt)
      | _ => rw [hip] at hrok; cases hrok

/-- **what a record of the send log says about the call that created it** (`send_sound` for the log): it
    was added by a `send_to(dst, p)` step of the run, on a UDP socket object of host `h` in the world `w'`
    that step was applied to, carries the payload `p` unaltered and the socket's (rewritten) source
    address, and its destination is `dst` itself (unicast), a registered host with the port bound — the
    sender's broadcast flag being on — (broadcast), or a current member of the group — the loop flag for
    its port being on if it sits on the sender's own address — (multicast); and one `send_to` adds at most
    one record per destination it fans out over (`sendDsts`). -/
theorem sentLog_sound (w0 : World) (sts : List Step) (r : SendRec) (hr : r ∈ sentLog w0 sts) :
    ∃ w' h s dst p, (w', Step.host h (.udpSend s dst p)) ∈ trail w0 sts ∧ r ∈ sentRecs w' h s dst p ∧
      ((sentRecs w' h s dst p).map (·.env.dst)).Sublist (sendDsts w' dst) ∧
      ∃ loc stash, w'.getObj h s = some (.udp loc stash) ∧ r.host = h ∧ r.env.msg = .udp p ∧
        r.env.src = udpSrc h loc dst ∧
        if dst.ip.isBroadcast then
          bcastOn (w'.host! h) loc.port = true ∧
          ∃ i, i < w'.hosts.length ∧ udpPortUsed (w'.host! i) dst.port = true ∧ r.env.dst = { ip := .host i, port := dst.port }
        else if dst.ip.isMulticast then
          r.env.dst ∈ members w' dst ∧ (r.env.dst.ip = (udpSrc h loc dst).ip → mloopOn (w'.host! h) r.env.dst = true)
        else r.env.dst = dst := by
  obtain ⟨w', h, s, dst, p, ht, hrr⟩ := mem_sentLog w0 sts r hr
  exact ⟨w', h, s, dst, p, ht, hrr, sentRecs_dsts w' h s dst p, sentRecs_sound w' h s dst p r hrr⟩

/-- **C09, at most once.**  For EVERY run of driver steps (any start world whose links satisfy the routing
    invariant) and every keyed datagram envelope `k = (route, envelope)`: the number of arrivals of `k`
    during the run — queue entries created on any socket — plus the number of copies of `k` still queued
    somewhere at the end is at most the number of records of `k` in the send log plus the number of copies
    queued at the start.  Occurrences are counted, so this is "per position of the log": `n` equal records
    account for at most `n` arrivals.  Ingredients: `sentRecs_dsts` (one record per destination),
    conservation on the links (`netKeys_plain`; cf. `never_duplicated`), `arrivalsOf_count` (one arrival per
    envelope handed over at most; cf. `at_most_one`). -/
theorem recv_at_most_once (w0 : World) (sts : List Step) (hg : GeoW w0) (hv : ∀ p ∈ trail w0 sts, LoValid p.1 p.2)
    (k : Key) (hk : isUdp k.2 = true) :
    ((arrivedOn w0 sts).map Arrival.key).count k + flightCount (run w0 sts) k ≤
      ((sentLog w0 sts).map SendRec.key).count k + flightCount w0 k := by
  have := run_fl w0 sts ⟨hg, hv⟩ k hk
  omega

/-- … from a fresh world: every record of the log accounts for at most one arrival — in total, so in
    particular on any one socket (an envelope has one destination address: one host, one port). -/
theorem recv_at_most_once_fresh (w0 : World) (sts : List Step) (hf : Fresh w0) (hv : ∀ p ∈ trail w0 sts, LoValid p.1 p.2)
    (k : Key) (hk : isUdp k.2 = true) :
    ((arrivedOn w0 sts).map Arrival.key).count k ≤ ((sentLog w0 sts).map SendRec.key).count k := by
  have := recv_at_most_once w0 sts hf.geo hv k hk
  rw [hf.flight k hk] at this
  omega

/-- … per socket: the arrivals on the bind of port `port` of host `i`. -/
theorem recv_at_most_once_socket (w0 : World) (sts : List Step) (hf : Fresh w0) (hv : ∀ p ∈ trail w0 sts, LoValid p.1 p.2)
    (i port : Nat) (k : Key) (hk : isUdp k.2 = true) :
    (((arrivedOn w0 sts).filter (fun a => a.host == i && a.bind.port == port)).map Arrival.key).count k ≤
      ((sentLog w0 sts).map SendRec.key).count k :=
  Nat.le_trans (List.Sublist.count_le k (List.filter_sublist.map _)) (recv_at_most_once_fresh w0 sts hf hv k hk)

/-! ### the arrivals are the growth of the queues -/

/-- **a host's turn, on its bind table** (`receive_sound` / `drop_isolated` lifted through
    `Topology::deliver_messages`): the envelopes handed over are `handedKeys` (link by link, each link's
    deliverable queue towards the host), and the host's UDP bind table after the step is `udpReceive`
    folded over them in order (`tableAfter`; one envelope: `udpPut_cases` — either the table is unchanged,
    or exactly one entry `(payload, source)` is appended to the queue of the first bind with the
    destination port); no other host's table changes, no loopback queue changes; the arrivals of the step
    are read off the same fold (`arrivalsOf`). -/
theorem turn_queues (w : World) (h : Nat) :
    (turnStep w h).1 = (handedKeys w h).map (·.2) ∧
    ((applyStep w (.turn h)).host! h).udp = tableAfter w.cfg.udpCap (w.host! h).udp ((handedKeys w h).map (·.2)) ∧
    (∀ i, i ≠ h → ((applyStep w (.turn h)).host! i).udp = (w.host! i).udp) ∧
    (∀ i, ((applyStep w (.turn h)).host! i).lo = (w.host! i).lo) ∧
    arrived w (.turn h) = arrivalsOf w.cfg.udpCap h (w.host! h).udp (handedKeys w h) := by
  obtain ⟨hv, _⟩ := turnStep_view w h
  rw [turnStep_envs] at hv
  have hhost := host_of_view h _ hv
  refine ⟨turnStep_envs w h, ?_, fun i hi => ?_, fun i => ?_, rfl⟩
  · have hu : ((applyStep w (.turn h)).host! h).udp = (viewOf ((turnStep w h).2.host! h)).2.2 := rfl
    rw [hu, hhost h]
    split
    · rfl
    · next c =>
      have hge : w.hosts.length ≤ h := by
        apply Nat.le_of_not_lt; intro hh; exact c ⟨rfl, hh⟩
      show (w.host! h).udp = _
      rw [host!_of_ge w h hge]
      exact (tableAfter_nil _ _).symm
  · have hu : ((applyStep w (.turn h)).host! i).udp = (viewOf ((turnStep w h).2.host! i)).2.2 := rfl
    rw [hu, hhost i, if_neg (fun c => hi c.1)]
    rfl
  · have hu : ((applyStep w (.turn h)).host! i).lo = (viewOf ((turnStep w h).2.host! i)).2.1 := rfl
    rw [hu, hhost i]
    split
    · next c => obtain ⟨rfl, _⟩ := c; rfl
    · rfl

/-- **a loopback delivery, on the bind table**: the `i`-th loopback message leaves the queue and is handed
    to the host's own UDP table (`udpPut`); nothing else changes any bind table or loopback queue. -/
theorem loDeliver_queues (w : World) (h i : Nat) (hi : i < (w.host! h).lo.length) :
    ((applyStep w (.loDeliver h i)).host! h).udp = udpPut w.cfg.udpCap (w.host! h).udp ((w.host! h).lo[i]) ∧
    ((applyStep w (.loDeliver h i)).host! h).lo = (w.host! h).lo.eraseIdx i ∧
    (∀ j, j ≠ h → ((applyStep w (.loDeliver h i)).host! j).udp = (w.host! j).udp ∧
      ((applyStep w (.loDeliver h i)).host! j).lo = (w.host! j).lo) ∧
    arrived w (.loDeliver h i) = arrivalsOf w.cfg.udpCap h (w.host! h).udp [(Place.lo h, (w.host! h).lo[i])] := by
  have hh : h < w.hosts.length := lt_of_lo_ne_nil w h (fun e => by rw [e] at hi; simp at hi)
  have hget : (w.host! h).lo.getD i default = (w.host! h).lo[i] := by
    rw [List.getD_eq_getElem?_getD, List.getElem?_eq_getElem hi]; rfl
  obtain ⟨hv, _⟩ := loStep_view w h i
  rw [hget] at hv
  have hhost := host_of_view h _ hv
  have hself := hhost h
  rw [if_pos ⟨rfl, hh⟩] at hself
  refine ⟨congrArg (fun v => v.2.2) hself, congrArg (fun v => v.2.1) hself, fun j hj => ?_, ?_⟩
  · have := hhost j
    rw [if_neg (fun c => hj c.1)] at this
    exact ⟨congrArg (fun v => v.2.2) this, congrArg (fun v => v.2.1) this⟩
  · show arrivalsOf _ _ _ (loKeys w h i) = _
    unfold loKeys
    rw [List.getElem?_eq_getElem hi]

/-- a datagram that is dropped at arrival leaves the bind table as it was, whichever way it arrives
    (`dropped_disturbs_nothing` inside a turn's fold). -/
theorem dropped_leaves_table (cap : Nat) (u : List UdpBind) (e : Env) (h : taker cap u e = none) : udpPut cap u e = u := by
  rcases udpPut_cases cap u e with ⟨_, h1⟩ | ⟨_, _, _, _, _, _, ht, _⟩
  · exact h1
  · rw [h] at ht; cases ht

/-! ## 4. exactly once on a healthy link -/

/-- **a datagram handed over at a host's turn to a socket that accepts it is queued — once.**  If the
    keyed envelope `(pl, e)` stands at some position of what the links hand to host `h` (`handedKeys`), and
    in the bind table as it is at that moment — after the envelopes in front of it — the first bind with
    the destination port accepts the destination address and the source and has room, then the arrivals of
    the step are those of the envelopes in front, then exactly one for `e` on that bind, then those of the
    envelopes behind; and the bind's queue gains exactly `(payload, source)` at its end. -/
theorem handed_datagram_queued (w : World) (h : Nat) (pre post : List (Place × Env)) (pl : Place) (e : Env) (p : Hex)
    (b : UdpBind) (hk : handedKeys w h = pre ++ (pl, e) :: post) (hm : e.msg = .udp p)
    (hf : (tableAfter w.cfg.udpCap (w.host! h).udp (pre.map (·.2))).find? (fun b => b.port == e.dst.port) = some b)
    (ha : addrMatches b.bindAddr e.dst = true) (hfl : filterOk b e.src = true) (hq : b.queue.length < w.cfg.udpCap) :
    arrived w (.turn h) =
      arrivalsOf w.cfg.udpCap h (w.host! h).udp pre ++
        ⟨h, pl, e, b⟩ :: arrivalsOf w.cfg.udpCap h
          (udpPut w.cfg.udpCap (tableAfter w.cfg.udpCap (w.host! h).udp (pre.map (·.2))) e) post ∧
    ∃ bi, (tableAfter w.cfg.udpCap (w.host! h).udp (pre.map (·.2)))[bi]? = some b ∧
      udpPut w.cfg.udpCap (tableAfter w.cfg.udpCap (w.host! h).udp (pre.map (·.2))) e =
        setAt (tableAfter w.cfg.udpCap (w.host! h).udp (pre.map (·.2))) bi
          (fun b => { b with queue := b.queue ++ [(p, e.src)] }) := by
  obtain ⟨ht, bi, _, hget, hput⟩ := taker_of_accepts w.cfg.udpCap _ e p b hm hf ha hfl hq
  refine ⟨?_, bi, hget, hput⟩
  show arrivalsOf _ _ _ (handedKeys w h) = _
  rw [hk, arrivalsOf_append, arrivalsOf_cons, ht]
  rfl

/-- **C09, exactly once on a healthy link** — `healthy_delivered_in_window` composed with the receiver
    side.  Setting and hypotheses of `LinksWorld.healthy_delivered_in_window`: world `w` right after a send
    queued the message `x` on link `li` with deadline `t0 + d` (a healthy direction, no failure coin in the
    oracle queue, no controller call on the link before the deadline, no recall after it); `x` carries a UDP
    envelope; the links satisfy the routing invariant; in `sts2` (the steps between the clock tick that
    matures `x` and the receiver's turn) no host with `x`'s destination number takes a turn.  `wt` is the
    world at the receiver's turn.  Acceptance at arrival (`hacc`): in host `hb`'s bind table as it is when
    `x`'s turn comes — after the messages handed over in front of it — the first bind with the destination
    port accepts the destination address and the source and has room.  Then
    * `x` is not handed to any host before that turn, and is handed over at it — exactly once in the whole run;
    * at that turn exactly one arrival is recorded for it (between those of the messages in front of it and
      behind it), on that bind, and the bind's queue gains exactly `(payload, source)` at its end. -/
theorem healthy_exactly_once (w : World) (li hb : Nat) (l : Link Env) (x : Sent Env) (t0 d minL maxL : Nat)
    (hl : w.links[li]? = some l) (hm : Matured l) (hclk : l.now = w.now) (hid : IdsOK l [])
    (hx : x ∈ l.sent) (hs : x.status = .after (t0 + d)) (hnf : NoFailCoin w)
    (sts1 sts2 : List Step) (hq : ∀ p ∈ trail w sts1, ¬ LinksWorld.CtlOn p.1 li p.2)
    (hbefore : (run w sts1).now < t0 + d) (hreach : t0 + d ≤ (run w sts1).now + ceilMs w.cfg.tick)
    (hsafe : l.fixMatured = true → ∀ p ∈ trail (run w (sts1 ++ [.stepBegin])) sts2, ¬ LinksWorld.RecallsOn p.1 li p.2)
    (hr : Receiver l x ((run w (sts1 ++ [.stepBegin] ++ sts2)).host! hb).ipnum)
    (hd : minL ≤ d ∧ d ≤ maxL)
    (hg : GeoW w) (p : Hex) (hmsg : x.msg.msg = .udp p)
    (hturns : ∀ q ∈ trail (run w (sts1 ++ [.stepBegin])) sts2, ∀ h', q.2 = .turn h' → (q.1.host! h').ipnum ≠ x.dst)
    (wt : World) (hwt : wt = run w (sts1 ++ [.stepBegin] ++ sts2))
    (hacc : ∀ preS postS, (List.range wt.links.length).flatMap (fun j => handed wt j (.turn hb)) = preS ++ x :: postS →
      ∃ b, (tableAfter wt.cfg.udpCap (wt.host! hb).udp (preS.map (·.msg))).find? (fun b => b.port == x.msg.dst.port) = some b ∧
        addrMatches b.bindAddr x.msg.dst = true ∧ filterOk b x.msg.src = true ∧ b.queue.length < wt.cfg.udpCap) :
    (∀ y ∈ handedOn li w (sts1 ++ [.stepBegin] ++ sts2), y ≠ x) ∧
    x ∈ handed wt li (.turn hb) ∧ x.dst = (wt.host! hb).ipnum ∧
    ((handedOn li w (sts1 ++ [.stepBegin] ++ sts2 ++ [.turn hb])).map (·.id)).count x.id = 1 ∧
    ∃ preS postS b bi,
      (List.range wt.links.length).flatMap (fun j => handed wt j (.turn hb)) = preS ++ x :: postS ∧
      arrived wt (.turn hb) =
        arrivalsOf wt.cfg.udpCap hb (wt.host! hb).udp (preS.map (fun y => (Place.net y.dst, y.msg))) ++
          ⟨hb, .net x.dst, x.msg, b⟩ :: arrivalsOf wt.cfg.udpCap hb
            (udpPut wt.cfg.udpCap (tableAfter wt.cfg.udpCap (wt.host! hb).udp (preS.map (·.msg))) x.msg)
            (postS.map (fun y => (Place.net y.dst, y.msg))) ∧
      (tableAfter wt.cfg.udpCap (wt.host! hb).udp (preS.map (·.msg)))[bi]? = some b ∧
      udpPut wt.cfg.udpCap (tableAfter wt.cfg.udpCap (wt.host! hb).udp (preS.map (·.msg))) x.msg =
        setAt (tableAfter wt.cfg.udpCap (wt.host! hb).udp (preS.map (·.msg))) bi
          (fun b => { b with queue := b.queue ++ [(p, x.msg.src)] }) := by
  obtain ⟨early, hmem, hcnt, _, _⟩ := LinksWorld.healthy_delivered_in_window w li hb l x t0 d minL maxL hl hm hclk hid hx hs hnf
    sts1 sts2 hq hbefore hreach hsafe hr hd
  -- not handed over before the receiver's turn
  have hnot : ∀ y ∈ handedOn li w (sts1 ++ [.stepBegin] ++ sts2), y ≠ x := by
    intro y hy e
    subst e
    rw [handedOn_append, handedOn_append] at hy
    rcases List.mem_append.mp hy with hy | hy
    · rcases List.mem_append.mp hy with hy | hy
      · exact early y hy rfl
      · simp [handedOn, handed] at hy
    · obtain ⟨w', h', ht, hh⟩ := mem_handedOn li _ sts2 y hy
      have hgw : GeoW w' := geoW_trail _ sts2 (geoW_run w _ hg) (w', .turn h') ht
      exact hturns (w', .turn h') ht h' rfl (handedAt_dst w' hgw li _ y hh).symm
  -- so it is handed over at that turn
  have hat : x ∈ handed wt li (.turn hb) := by
    rw [handedOn_append] at hmem
    rcases List.mem_append.mp hmem with hy | hy
    · exact absurd rfl (hnot x hy)
    · rw [← hwt] at hy
      simpa [handedOn] using hy
  have hgt : GeoW wt := by rw [hwt]; exact geoW_run w _ hg
  have hdst : x.dst = (wt.host! hb).ipnum := handedAt_dst wt hgt li _ x hat
  have hli : li < wt.links.length := by
    apply Classical.byContradiction
    intro hn
    have : handed wt li (.turn hb) = [] := by
      show handedAt wt li _ = []
      unfold handedAt
      rw [List.getElem?_eq_none (by omega)]
    rw [this] at hat; cases hat
  have hflat : x ∈ (List.range wt.links.length).flatMap (fun j => handed wt j (.turn hb)) :=
    List.mem_flatMap.mpr ⟨li, List.mem_range.mpr hli, hat⟩
  obtain ⟨preS, postS, hsplit⟩ := List.append_of_mem hflat
  obtain ⟨b, hf, ha, hfl, hroom⟩ := hacc preS postS hsplit
  have hkeys : handedKeys wt hb =
      preS.map (fun y => (Place.net y.dst, y.msg)) ++ (Place.net x.dst, x.msg) :: postS.map (fun y => (Place.net y.dst, y.msg)) := by
    unfold handedKeys
    rw [hsplit, List.map_append, List.map_cons]
  have hpre : (preS.map (fun y => (Place.net y.dst, y.msg))).map (·.2) = preS.map (·.msg) := by
    rw [List.map_map]; rfl
  obtain ⟨h1, bi, h2, h3⟩ := handed_datagram_queued wt hb _ _ (.net x.dst) x.msg p b hkeys hmsg
    (by rw [hpre]; exact hf) ha hfl hroom
  rw [hpre] at h1 h2 h3
  exact ⟨hnot, hat, hdst, hcnt, preS, postS, b, bi, hsplit, h1, h2, h3⟩

/-! ## non-vacuity: a concrete run built with the model's own steps

  Two hosts (ip numbers 1, 2), each with a wildcard socket on port 9000.  Host 0 sends "abcd" to host 1
  (zero latency) and "ef" to its own address (loopback); one step later the link hands "abcd" to host 1 and
  the loopback task delivers "ef". -/

instance (w : World) (st : Step) : Decidable (LoValid w st) := by
  cases st <;> unfold LoValid <;> exact inferInstance

def exSteps : List Step :=
  [ .register 1 false, .register 2 false,
    .host 0 (.udpBind 0 ⟨.any, 9000⟩), .host 1 (.udpBind 0 ⟨.any, 9000⟩),
    .host 0 (.udpSend 0 ⟨.host 1, 9000⟩ "abcd"),
    .host 0 (.udpSend 0 ⟨.host 0, 9000⟩ "ef"),
    .stepBegin, .turn 0, .loDeliver 0 0, .turn 1 ]
def exStart : World := { oracle := [.fail false, .delay 0] }
def exEnd : World := run exStart exSteps

/-- `tryrecv_returns_queue_head`: a UDP socket object with a pending datagram; a 1-byte buffer cuts "abcd" to
    "ab" (one byte = two hex digits), the origin is host 0's socket; afterwards nothing is pending and the
    next call would block. -/
example : exEnd.getObj 1 0 = some (.udp ⟨.any, 9000⟩ none) ∧ pending exEnd 1 0 = [("abcd", ⟨.host 0, 9000⟩)] ∧
    (exEnd.opUdpTryRecv 1 0 1).2 = "ok 1 h0:9000 ab" ∧ pending (exEnd.opUdpTryRecv 1 0 1).1 1 0 = [] ∧
    ((exEnd.opUdpTryRecv 1 0 1).1.opUdpTryRecv 1 0 1).2 = "err wouldblock" :=
  ⟨rfl, by decide, by decide, by decide, by decide⟩
/-- … and with the datagram already moved into the stash by `readable()`. -/
example : (exEnd.opUdpReadable 1 0).1.getObj 1 0 = some (.udp ⟨.any, 9000⟩ (some ("abcd", ⟨.host 0, 9000⟩))) ∧
    pending (exEnd.opUdpReadable 1 0).1 1 0 = [("abcd", ⟨.host 0, 9000⟩)] ∧
    ((exEnd.opUdpReadable 1 0).1.opUdpTryRecv 1 0 8).2 = "ok 2 h0:9000 abcd" :=
  ⟨rfl, by decide, by decide⟩

/-- `dropped_disturbs_nothing`: datagrams that host 1 drops, one for each reason — unbound port; peer filter
    (after `connect` to another peer); bind address (a localhost bind does not take traffic for the host's
    address); full queue (capacity 1). -/
example :
    (udpReceive exEnd.cfg.udpCap (exEnd.host! 1) ⟨.host 0, 9000⟩ ⟨.host 1, 9001⟩ "aa").2 = "udpnobind" ∧
    (udpReceive exEnd.cfg.udpCap ((exEnd.opUdpConnect 1 0 ⟨.host 0, 7⟩).1.host! 1) ⟨.host 0, 9000⟩ ⟨.host 1, 9000⟩ "aa").2 = "udpfilter" ∧
    (udpReceive exEnd.cfg.udpCap ((exEnd.opUdpBind 1 1 ⟨.lo, 9001⟩).1.host! 1) ⟨.host 0, 9000⟩ ⟨.host 1, 9001⟩ "aa").2 = "udpnomatch" ∧
    (udpReceive 1 (exEnd.host! 1) ⟨.host 0, 9000⟩ ⟨.host 1, 9000⟩ "aa").2 = "udpfull" := by decide
/-- … on the loopback path: host 0 sends to a port of its own nobody is bound to. -/
example :
    let w := (exEnd.opUdpSend 0 0 ⟨.host 0, 9001⟩ "aa").1
    (w.host! 0).lo.getD 0 default = mkEnv ⟨.host 0, 9000⟩ "aa" ⟨.host 0, 9001⟩ ∧
    (udpReceive w.cfg.udpCap (w.host! 0) ⟨.host 0, 9000⟩ ⟨.host 0, 9001⟩ "aa").2 = "udpnobind" := by decide

/-- `recv_was_sent`, `recv_at_most_once*`: a fresh start, valid loopback deliveries, and queues that are
    not empty at the end. -/
example : Fresh exStart ∧ (∀ p ∈ trail exStart exSteps, LoValid p.1 p.2) ∧
    (exEnd.host! 1).udp.map (·.queue) = [[("abcd", ⟨.host 0, 9000⟩)]] ∧
    (exEnd.host! 0).udp.map (·.queue) = [[("ef", ⟨.host 0, 9000⟩)]] :=
  ⟨fresh_of_empty exStart rfl rfl, by decide, by decide, by decide⟩
/-- … the log and the arrivals of that run: one record and one arrival per datagram, by the same route. -/
example : (sentLog exStart exSteps).map (fun r => (r.host, r.place, r.env)) =
      [(0, .net 2, mkEnv ⟨.host 0, 9000⟩ "abcd" ⟨.host 1, 9000⟩), (0, .lo 0, mkEnv ⟨.host 0, 9000⟩ "ef" ⟨.host 0, 9000⟩)] ∧
    (arrivedOn exStart exSteps).map (fun a => (a.host, a.place, a.env)) =
      [(0, .lo 0, mkEnv ⟨.host 0, 9000⟩ "ef" ⟨.host 0, 9000⟩), (1, .net 2, mkEnv ⟨.host 0, 9000⟩ "abcd" ⟨.host 1, 9000⟩)] := by
  decide
/-- … a broadcast (flag on) adds one record per host with the port bound, each by its own route. -/
example :
    let w := (exEnd.opUdpSetBcast 0 0 true).1
    (sentRecs w 0 0 ⟨.bc, 9000⟩ "aa").map (fun r => (r.place, r.env.dst)) =
      [(.lo 0, ⟨.host 0, 9000⟩), (.net 2, ⟨.host 1, 9000⟩)] ∧ sendDsts w ⟨.bc, 9000⟩ = [⟨.host 0, 9000⟩, ⟨.host 1, 9000⟩] := by
  decide
/-- `GeoW` of `recv_at_most_once`: a world without links. -/
example : GeoW exStart := geoW_empty exStart rfl

/-- Why `LoValid`: the model's `loStep` on an index that is not on the queue delivers `default : Env` — a
    datagram with an empty payload from `h0:0` to `h0:0`.  (The driver never does that: it looks the message
    up in the queue.) -/
example : (exEnd.host! 0).lo = [] ∧ (exEnd.host! 0).lo.getD 5 default = mkEnv ⟨.host 0, 0⟩ "" ⟨.host 0, 0⟩ := by decide

/-- … and without `LoValid` the statement of `recv_was_sent` is false of the MODEL (not of the crate: the
    loopback task of `send_loopback` delivers the very envelope it was spawned with, and `bind` never assigns
    port 0): with an ephemeral range starting at 0, a socket bound through port 0 gets port 0, and the
    phantom datagram of an out-of-range `loDeliver` lands in its queue although nothing was ever sent. -/
theorem witness_phantom_loopback : ∃ (w0 : World) (sts : List Step), Fresh w0 ∧ sentLog w0 sts = [] ∧
    ∃ b ∈ ((run w0 sts).host! 0).udp, b.queue = [("", ⟨.host 0, 0⟩)] := by
  refine ⟨{ cfg := { ephLo := 0 } }, [ .register 1 false, .host 0 (.udpBind 0 ⟨.any, 0⟩), .loDeliver 0 7 ],
    fresh_of_empty _ rfl rfl, by decide, ?_⟩
  refine ⟨((run { cfg := { ephLo := 0 } } [ .register 1 false, .host 0 (.udpBind 0 ⟨.any, 0⟩), .loDeliver 0 7 ]).host! 0).udp.getD 0 default,
    List.mem_of_getElem? (i := 0) (by rfl), by decide⟩

/-! ### `healthy_exactly_once` on the run of `LinksWorld`'s C14 example

  `LinksWorld.exD`: host 0's datagram "ab" to host 1, sent at clock 0 with a sampled delay of 2.5 ms; two
  full steps (`exS1`), the third `stepBegin`, the sender's turn (`exS2`), then the receiver's turn. -/

def exT : World := run LinksWorld.exD (LinksWorld.exS1 ++ [.stepBegin] ++ LinksWorld.exS2)

/-- the hypotheses `healthy_exactly_once` adds to those of `healthy_delivered_in_window` (shown satisfiable in
    `Props/LinksWorld.lean`): a UDP envelope, the routing invariant, no turn of a host with the destination
    number in `sts2`, and acceptance at arrival — the message is alone in what the links hand to host 1, and
    host 1's socket on port 9000 (wildcard bind, no peer filter, empty queue) accepts it. -/
example : LinksWorld.exDx.msg.msg = .udp "ab" ∧ GeoW LinksWorld.exD ∧
    (∀ q ∈ trail (run LinksWorld.exD (LinksWorld.exS1 ++ [.stepBegin])) LinksWorld.exS2, ∀ h', q.2 = .turn h' →
      (q.1.host! h').ipnum ≠ LinksWorld.exDx.dst) ∧
    (∀ preS postS, (List.range exT.links.length).flatMap (fun j => handed exT j (.turn 1)) = preS ++ LinksWorld.exDx :: postS →
      ∃ b, (tableAfter exT.cfg.udpCap (exT.host! 1).udp (preS.map (·.msg))).find? (fun b => b.port == LinksWorld.exDx.msg.dst.port) = some b ∧
        addrMatches b.bindAddr LinksWorld.exDx.msg.dst = true ∧ filterOk b LinksWorld.exDx.msg.src = true ∧
        b.queue.length < exT.cfg.udpCap) := by
  refine ⟨by decide, geoW_run _ _ (geoW_empty _ rfl), ?_, ?_⟩
  · intro q hq h' e
    have hq' : q = (run LinksWorld.exD (LinksWorld.exS1 ++ [.stepBegin]), .turn 0) := by
      simpa [LinksWorld.exS2, trail] using hq
    subst hq'
    cases e
    decide
  · intro preS postS hsplit
    have hflat : (List.range exT.links.length).flatMap (fun j => handed exT j (.turn 1)) = [LinksWorld.exDx] := by decide
    rw [hflat] at hsplit
    cases preS with
    | cons a t =>
      have := congrArg List.length hsplit
      simp at this
    | nil =>
      exact ⟨(exT.host! 1).udp.getD 0 default, rfl, by decide, by decide, by decide⟩
/-- … and the conclusion is what happens: exactly one arrival at the receiver's turn, and its queue gains the datagram. -/
example : (arrived exT (.turn 1)).map (fun a => (a.host, a.place, a.env)) = [(1, .net 2, mkEnv ⟨.host 0, 9000⟩ "ab" ⟨.host 1, 9000⟩)] ∧
    ((applyStep exT (.turn 1)).host! 1).udp.map (·.queue) = [[("ab", ⟨.host 0, 9000⟩)]] := by decide

end TV.C09
