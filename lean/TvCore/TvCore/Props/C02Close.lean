import TvCore.Props.C04Mcast
/-
  C02 — the close half: which drops are graceful.

  `Drop for ReadHalf` resets the connection only when *data* is unread: a stashed partial segment, a
  data segment at the head of the receive queue, or data parked in the reorder buffer.  An unread
  FIN (the peer's graceful close) is not data.  When nothing is unread the drop only closes the
  stream half: no message is sent — no RST — and with the write half's drop the peer gets a FIN.
-/
namespace TV.C02
open TV TV.World

/-- the destructor's test, as the model evaluates it. -/
def hasUnread (w : World) (h : Nat) (r : RdH) : Bool :=
  let c := w.chan! r.chan
  let sockHasData := match findSock (w.host! h) r.loc r.rem with
    | some i => ((w.host! h).socks.getD i default).buf.any (fun p => p.2.isData)
    | none => false
  let headData := match c.items with | s :: _ => s.isData | [] => false
  !r.closed && (r.stash.isSome || headData || sockHasData)

theorem dropRead_cases (w : World) (h : Nat) (r : RdH) :
    w.dropRead h r =
      if hasUnread w h r then
        (((w.setChan r.chan fun c => { c with rxAlive := false }).netSend h { src := r.loc, dst := r.rem, msg := .rst }).2.removeSock h r.loc r.rem).tag "rstunread"
      else (w.setChan r.chan fun c => { c with rxAlive := false }).closeStreamHalf h r.loc r.rem := rfl

@[simp] theorem links_setHost (w : World) (h : Nat) (f : Host → Host) : (w.setHost h f).links = w.links := rfl
@[simp] theorem links_setChan (w : World) (c : Nat) (f : Chan → Chan) : (w.setChan c f).links = w.links := rfl
theorem links_closeStreamHalf (w : World) (h : Nat) (loc rem : Addr) : (w.closeStreamHalf h loc rem).links = w.links := by
  unfold closeStreamHalf
  simp only
  split <;> rfl

theorem lo_closeStreamHalf (w : World) (h : Nat) (loc rem : Addr) :
    ((w.closeStreamHalf h loc rem).host! h).lo = (w.host! h).lo := by
  unfold closeStreamHalf
  simp only
  have e : ∀ (w' : World) (c : Nat) (f : Chan → Chan), (w'.setChan c f).host! h = w'.host! h := fun _ _ _ => rfl
  split
  · rw [e, C04.host!_setHost]; split <;> rfl
  · rw [C04.host!_setHost]; split <;> rfl

/-- **An unread FIN is not unread data**: with every received byte consumed — nothing stashed, the
    head of the queue not a data segment (empty, or the peer's FIN), no data in the reorder buffer —
    dropping the read half sends nothing: no RST goes out on any link or on loopback. -/
theorem dropRead_graceful (w : World) (h : Nat) (r : RdH) (hu : hasUnread w h r = false) :
    (w.dropRead h r).links = w.links ∧ ((w.dropRead h r).host! h).lo = (w.host! h).lo := by
  rw [dropRead_cases, hu]
  simp only [Bool.false_eq_true, if_false]
  exact ⟨by rw [links_closeStreamHalf]; rfl, by rw [lo_closeStreamHalf]; rfl⟩

/-- the queue head being the FIN is the graceful case. -/
theorem fin_at_head_is_graceful (w : World) (h : Nat) (r : RdH) (rest : List Seg)
    (hs : r.stash = none) (hq : (w.chan! r.chan).items = .fin :: rest)
    (hb : ∀ i, findSock (w.host! h) r.loc r.rem = some i →
      ((w.host! h).socks.getD i default).buf.any (fun p => p.2.isData) = false) :
    hasUnread w h r = false := by
  unfold hasUnread
  simp only [hs, hq, Option.isSome_none, Bool.false_or]
  have hfin : Seg.fin.isData = false := rfl
  rw [hfin]
  cases hf : findSock (w.host! h) r.loc r.rem with
  | none => simp
  | some i =>
    simp only
    rw [hb i hf]
    simp

end TV.C02
