import TvCore.Props.C02FlowRun
import TvCore.Proofs.C15WorldBind
/-
  C02, flow control — the side condition `ConnSafe` of a connect is discharged when the ephemeral cursor of
  the connecting host is in range: `Host::assign_ephemeral_port` never hands out a port some stream socket of
  the host uses (`C15.assign_fresh`), so a connect from `b` cannot be given the reader's own port.
-/
namespace TV.C02
open TV TV.World

theorem connSafe_of_cursor (D : Dir) (w : World) (h : Nat) (dst : Addr) (hp : Pre D w)
    (hlo : w.cfg.ephLo ≤ (w.host! h).nextEph) (hhi : (w.host! h).nextEph ≤ w.cfg.ephHi) : ConnSafe D w h dst := by
  intro p hport hc
  obtain ⟨hb, hloc, _⟩ := hc
  rw [C15.assignPort_fst] at hport
  have hscan : assignEphemeral w.cfg.ephLo w.cfg.ephHi (C15.portUsed (w.host! h)) (w.host! h).nextEph =
      (some p, (C15.scanOf w h).2) := by
    have : C15.scanOf w h = ((C15.scanOf w h).1, (C15.scanOf w h).2) := rfl
    rw [hport] at this
    exact this
  have hfree := (C15.assign_fresh _ _ _ _ p _ hlo hhi hscan).1
  -- the reader's socket uses that port
  have h2 := hp.2
  unfold skv at h2
  cases hf : (w.host! D.b).socks.find? (sockP D) with
  | none => rw [hf] at h2; cases h2
  | some sk =>
    have hm : sk ∈ (w.host! D.b).socks := List.mem_of_find?_eq_some hf
    have hsp : sockP D sk = true := List.find?_some hf
    unfold sockP at hsp
    simp only [Bool.and_eq_true, beq_iff_eq] at hsp
    have hport' : sk.loc.port = p := by rw [hsp.1, ← hloc]
    have hused : C15.portUsed (w.host! h) p = true := by
      unfold C15.portUsed tcpPortUsed
      rw [hb]
      have : (w.host! D.b).socks.any (fun s => s.loc.port == p) = true :=
        List.any_eq_true.mpr ⟨sk, hm, by simpa using hport'⟩
      rw [this]
      simp
    rw [hfree] at hused
    cases hused

end TV.C02
