import TvCore.Proofs.C02FlowSteps
import TvCore.Props.C02Flow
/-
  C02 — flow control, run level: **every driver step keeps the balance** `Bal` while the direction is
  established (`Estab`) and the step is none of the excluded ones (`StepOk`), on a run without failure
  coin and without a recorded panic.

  `Estab D w` (Proofs/C02FlowSteps.lean) — the state predicate "the direction is established and shares its
  cell / channel / address pair with no other socket object":
      `FInv`  (no `.fail true` left in the oracle queue; cell `f`, channel `c` and the reader's socket exist;
               the channel's receiver is alive; sequence numbers in the reorder buffer are distinct; only the
               reader's socket uses channel `c`),
      `GeoW`  (routing invariant of the links — holds in every world reachable from one without links,
               `C09.geoW_run`),
      `b`'s ip number is `nb`, no other host has it,
      every write half any host holds uses cell `f` iff it is the direction's (`Mine`); every read half is the
      direction's or shares neither channel, cell nor the reader's pair; no pending connect uses channel `c`
      or the reader's pair.
  The no-sharing part is a HYPOTHESIS on every state of the run, not derived from `Reach`:
  `witness_stale_half_same_pair` (Props/C02Stale.lean, finding F-C02-2) is a reachable world in which it
  fails.

  `StepOk D w st` — the excluded steps, exactly:
      * `tcpConnect` on `b` towards the writer's address that is handed the reader's own port (`ConnSafe`;
        `C15.assign_fresh` excludes it when the cursor is in range);
      * `tcpWrite` / `tcpPWrite` by a write half of the direction while its socket is gone or its route is down
        (`Route`: same-host loopback on `b`, or a link whose direction towards `nb` is healthy or held) —
        a segment sent onto a partitioned / randomly failed direction is discarded and its credit is lost;
      * `drop` / `tcpDropR` / `tcpDropW` of an object that is the reader's read half, or any half with the
        reader's address pair on `b` (`ObjSafe`, `RdSafe`, `NotRd`) — the latter includes the reverse
        direction's write half on `b`, a restriction of this proof, not of the model;
      * `exit`, `crash`, `bounce` of host `b`;
      * `partition` / `partition_oneway` (single, over host sets, or from host code) while a data segment of the
        direction is on any link (`CtlOk`); `repair`, `hold`, `release`, manual deliveries are always allowed;
      * `turn h` for a host index that does not exist; `turn b` when a RST of the direction is among what the
        links hand over; `loDeliver b i` of a RST of the direction (or of a segment whose RST reply is one).
  A random link failure is excluded by `FInv.pre` (no `.fail true` in the oracle queue), a duplicate delivery
  by "no panic recorded afterwards" (`StreamSocket::buffer` asserts, the model records the panic).
-/
namespace TV.C02
open TV TV.World

/-- **C02, credits are conserved — every driver step.** -/
theorem credits_conserved (D : Dir) (cap : Nat) (w : World) (st : Step) (he : Estab D w) (hok : StepOk D w st)
    (hnp : (applyStep w st).panicked = none) (hb : Bal D cap w) : Bal D cap (applyStep w st) := by
  show tot D (applyStep w st) = cap
  rw [step_keeps_tot D w st he hok hnp]
  exact hb

/-- a run all of whose states satisfy `Estab` and all of whose steps satisfy `StepOk`. -/
def RunOk (D : Dir) : World → List Step → Prop
  | _, [] => True
  | w, st :: sts => Estab D w ∧ StepOk D w st ∧ RunOk D (applyStep w st) sts

theorem meta_run (w : World) : ∀ (sts : List Step), C04.Meta w (sts.foldl applyStep w)
  | [] => C04.Meta.refl w
  | st :: sts => (C04.stepOK_applyStep w st).1.trans (meta_run (applyStep w st) sts)

/-- **C02, credits are conserved — every run**: along any sequence of driver steps during which the direction
    stays established and no excluded step occurs, with no panic recorded at the end, the balance
    `credits + in flight + parked + queued = capacity` holds at the end if it held at the start. -/
theorem credits_conserved_run (D : Dir) (cap : Nat) : ∀ (sts : List Step) (w : World), RunOk D w sts →
    (sts.foldl applyStep w).panicked = none → Bal D cap w → Bal D cap (sts.foldl applyStep w)
  | [], _, _, _, hb => hb
  | st :: sts, w, hr, hnp, hb => by
    simp only [List.foldl_cons] at hnp ⊢
    have hnp1 : (applyStep w st).panicked = none := noPanic_of_meta (meta_run (applyStep w st) sts) hnp
    exact credits_conserved_run D cap sts _ hr.2.2 hnp (credits_conserved D cap w st hr.1 hr.2.1 hnp1 hb)

/-- **never overflows, run level**: at every point of such a run the reader's reorder buffer and channel
    together hold at most `cap` data segments, and strictly fewer while one is still on its way — an
    arriving data segment always finds room. -/
theorem never_overflows_run (D : Dir) (cap : Nat) (sts : List Step) (w : World) (hr : RunOk D w sts)
    (hnp : (sts.foldl applyStep w).panicked = none) (hb : Bal D cap w) :
    parked D (sts.foldl applyStep w) + queued D (sts.foldl applyStep w) ≤ cap ∧
    (0 < netFl D (sts.foldl applyStep w) + loFl D (sts.foldl applyStep w) →
      parked D (sts.foldl applyStep w) + queued D (sts.foldl applyStep w) + 1 ≤ cap) :=
  let h := never_overflows D cap _ (credits_conserved_run D cap sts w hr hnp hb)
  ⟨h.2, h.1⟩

end TV.C02
