import TvCore.Model.World
import TvCore.Model.Ops
/-
  C02 — turmoil::net TCP delivers an intact, ordered byte stream and then EOF.

  The receive side of one direction of a stream, exactly as `World.sockBuffer` / `opTcpRead` run it:
  segments (numbered 1, 2, 3 … by the sender, FIN included) arrive in ANY order, each at most once
  (the link neither duplicates nor invents messages — C08 `perm_*`); `drainBuf` moves the contiguous
  ones into the bounded channel; the reader pops the channel.

  `segs q` is the sender's q-th segment (ghost).  All theorems quantify over every arrival order,
  every capacity and every interleaving of arrivals and reads.
-/
namespace TV.C02
open TV TV.World

/-- receive-side state of one direction (+ ghost: what the reader has already popped). -/
structure Rx where
  buf : List (Nat × Seg) := []
  recvSeq : Nat := 0
  chan : List Seg := []
  consumed : List Seg := []

/-- the first `n` segments of the sender, in order. -/
def firstSegs (segs : Nat → Seg) (n : Nat) : List Seg := (List.range n).map (fun i => segs (i + 1))

theorem firstSegs_succ (segs : Nat → Seg) (n : Nat) : firstSegs segs (n + 1) = firstSegs segs n ++ [segs (n + 1)] := by
  simp [firstSegs, List.range_succ]

/-- `StreamSocket::buffer` with a live receiver (the transition `World.sockBuffer` performs). -/
def arrive (cap : Nat) (r : Rx) (seq : Nat) (seg : Seg) : Rx :=
  let buf := r.buf ++ [(seq, seg)]
  let (b, rs, items, _) := drainBuf cap true (buf.length + 1) buf r.recvSeq r.chan
  { r with buf := b, recvSeq := rs, chan := items }

/-- the reader takes one segment off the channel (`poll_recv`). -/
def pop (r : Rx) : Rx :=
  match r.chan with
  | [] => r
  | s :: rest => { r with chan := rest, consumed := r.consumed ++ [s] }

/-- the repaired reader: pop, then let the host drain the reorder buffer again. -/
def popRedrain (cap : Nat) (r : Rx) : Rx :=
  let r := pop r
  let (b, rs, items, _) := drainBuf cap true (r.buf.length + 1) r.buf r.recvSeq r.chan
  { r with buf := b, recvSeq := rs, chan := items }

structure Inv (segs : Nat → Seg) (r : Rx) : Prop where
  /-- every parked segment is the sender's segment with that number, and is still ahead. -/
  bufOk : ∀ p ∈ r.buf, p.2 = segs p.1 ∧ r.recvSeq < p.1
  /-- what went through the channel is exactly the first `recvSeq` segments, in order. -/
  hist : r.consumed ++ r.chan = firstSegs segs r.recvSeq

theorem inv_init (segs : Nat → Seg) : Inv segs {} := ⟨by simp, by simp [firstSegs]⟩

/-- Core lemma: the drain loop keeps "history = first recvSeq segments" and "parked = ahead". -/
theorem drainBuf_inv (segs : Nat → Seg) (cap : Nat) (consumed : List Seg) :
    ∀ (fuel : Nat) (buf : List (Nat × Seg)) (rs : Nat) (items : List Seg),
      (∀ p ∈ buf, p.2 = segs p.1 ∧ rs < p.1 + 1) →
      consumed ++ items = firstSegs segs rs →
      (∀ p ∈ buf, rs < p.1) →
      let out := drainBuf cap true fuel buf rs items
      (∀ p ∈ out.1, p.2 = segs p.1 ∧ out.2.1 < p.1) ∧ consumed ++ out.2.2.1 = firstSegs segs out.2.1
  | 0, buf, rs, items, h1, h2, h3 => by
    simp only [drainBuf]
    exact ⟨fun p hp => ⟨(h1 p hp).1, h3 p hp⟩, h2⟩
  | fuel + 1, buf, rs, items, h1, h2, h3 => by
    unfold drainBuf
    cases hf : buf.find? (fun p => p.1 == rs + 1) with
    | none => exact ⟨fun p hp => ⟨(h1 p hp).1, h3 p hp⟩, h2⟩
    | some pr =>
      obtain ⟨q, seg⟩ := pr
      have hmem : (q, seg) ∈ buf := List.mem_of_find?_eq_some hf
      have hq : q = rs + 1 := by simpa using List.find?_some hf
      simp only [Bool.not_true, Bool.false_eq_true, if_false]
      by_cases hfull : items.length ≥ cap
      · simp only [hfull, decide_true, if_true]
        exact ⟨fun p hp => ⟨(h1 p hp).1, h3 p hp⟩, h2⟩
      · simp only [hfull, decide_false, Bool.false_eq_true, if_false]
        have hseg : seg = segs (rs + 1) := by
          have := (h1 (q, seg) hmem).1
          simpa [hq] using this
        have hb : ∀ p ∈ buf.filter (fun p => p.1 != rs + 1), p.2 = segs p.1 ∧ rs + 1 < p.1 := by
          intro p hp
          have hp' := List.mem_filter.mp hp
          have := h3 p hp'.1
          have hne : p.1 ≠ rs + 1 := by simpa using hp'.2
          exact ⟨(h1 p hp'.1).1, by omega⟩
        have hh : consumed ++ (items ++ [seg]) = firstSegs segs (rs + 1) := by
          rw [← List.append_assoc, h2, firstSegs_succ, hseg]
        exact drainBuf_inv segs cap consumed fuel _ (rs + 1) (items ++ [seg])
          (fun p hp => ⟨(hb p hp).1, by have := (hb p hp).2; omega⟩) hh
          (fun p hp => (hb p hp).2)

/-- An arrival (any sequence number that is still ahead and carries the sender's segment) keeps
    the invariant — whatever the order of arrivals. -/
theorem arrive_inv (segs : Nat → Seg) (cap : Nat) {r : Rx} (h : Inv segs r) (seq : Nat)
    (hseq : r.recvSeq < seq) : Inv segs (arrive cap r seq (segs seq)) := by
  have hb : ∀ p ∈ r.buf ++ [(seq, segs seq)], p.2 = segs p.1 ∧ r.recvSeq < p.1 := by
    intro p hp
    rcases List.mem_append.mp hp with hp | hp
    · exact h.bufOk p hp
    · simp at hp; subst hp; exact ⟨rfl, hseq⟩
  have := drainBuf_inv segs cap r.consumed ((r.buf ++ [(seq, segs seq)]).length + 1) _ r.recvSeq r.chan
    (fun p hp => ⟨(hb p hp).1, by have := (hb p hp).2; omega⟩) h.hist (fun p hp => (hb p hp).2)
  exact ⟨this.1, this.2⟩

theorem pop_inv (segs : Nat → Seg) {r : Rx} (h : Inv segs r) : Inv segs (pop r) := by
  unfold pop
  cases hc : r.chan with
  | nil => simpa [hc] using h
  | cons s rest =>
    refine ⟨h.bufOk, ?_⟩
    have := h.hist
    rw [hc] at this
    simpa using this

theorem popRedrain_inv (segs : Nat → Seg) (cap : Nat) {r : Rx} (h : Inv segs r) : Inv segs (popRedrain cap r) := by
  have hp := pop_inv segs h
  have := drainBuf_inv segs cap (pop r).consumed ((pop r).buf.length + 1) _ (pop r).recvSeq (pop r).chan
    (fun p hq => ⟨(hp.bufOk p hq).1, by have := (hp.bufOk p hq).2; omega⟩) hp.hist
    (fun p hq => (hp.bufOk p hq).2)
  exact ⟨this.1, this.2⟩

/-- Operations on the receive side. `arrive q` delivers the sender's q-th segment. -/
inductive RxOp | arrive (q : Nat) | pop
  deriving Repr

/-- An arrival is admissible when that segment has not been delivered before (the link never
    duplicates): it is still ahead of `recvSeq` and not already parked. -/
def admissible (r : Rx) : RxOp → Prop
  | .arrive q => r.recvSeq < q ∧ ∀ p ∈ r.buf, p.1 ≠ q
  | .pop => True

def rxStep (segs : Nat → Seg) (cap : Nat) (fixRedrain : Bool) (r : Rx) : RxOp → Rx
  | .arrive q => arrive cap r q (segs q)
  | .pop => if fixRedrain then popRedrain cap r else pop r

/-- every op of the list is admissible in the state it is applied to. -/
def AllAdmissible (segs : Nat → Seg) (cap : Nat) (fx : Bool) : Rx → List RxOp → Prop
  | _, [] => True
  | r, op :: ops => admissible r op ∧ AllAdmissible segs cap fx (rxStep segs cap fx r op) ops

theorem run_inv (segs : Nat → Seg) (cap : Nat) (fx : Bool) :
    ∀ (ops : List RxOp) (r : Rx), Inv segs r → AllAdmissible segs cap fx r ops →
      Inv segs (ops.foldl (rxStep segs cap fx) r)
  | [], r, h, _ => h
  | op :: ops, r, h, ha => by
    have hstep : Inv segs (rxStep segs cap fx r op) := by
      cases op with
      | arrive q => exact arrive_inv segs cap h q ha.1.1
      | pop =>
        simp only [rxStep]
        cases fx
        · exact pop_inv segs h
        · exact popRedrain_inv segs cap h
    exact run_inv segs cap fx ops _ hstep ha.2

/-- **C02 prefix (both model variants)**: whatever the order in which segments arrive, whatever the
    channel capacity and however arrivals and reads interleave, what the reader has taken off the
    channel is a prefix of the sender's segment sequence: in order, nothing missing in the middle,
    nothing duplicated, nothing altered. -/
theorem prefix_of_sent (segs : Nat → Seg) (cap : Nat) (fx : Bool) (ops : List RxOp)
    (ha : AllAdmissible segs cap fx {} ops) :
    ∃ n rest, firstSegs segs n = (ops.foldl (rxStep segs cap fx) {}).consumed ++ rest := by
  have h := run_inv segs cap fx ops {} (inv_init segs) ha
  exact ⟨_, _, h.hist.symm⟩

/-- **No overflow**: the channel never holds more than its capacity. -/
theorem drainBuf_bound (cap : Nat) :
    ∀ (fuel : Nat) (buf : List (Nat × Seg)) (rs : Nat) (items : List Seg), items.length ≤ cap →
      (drainBuf cap true fuel buf rs items).2.2.1.length ≤ cap
  | 0, _, _, _, h => h
  | fuel + 1, buf, rs, items, h => by
    unfold drainBuf
    cases buf.find? (fun p => p.1 == rs + 1) with
    | none => exact h
    | some pr =>
      simp only [Bool.not_true, Bool.false_eq_true, if_false]
      by_cases hfull : items.length ≥ cap
      · simp only [hfull, decide_true, if_true]; exact h
      · simp only [hfull, decide_false, Bool.false_eq_true, if_false]
        exact drainBuf_bound cap fuel _ _ _ (by simp; omega)

/-- A partial read splits the segment without losing or changing a byte. -/
theorem take_drop (b : Hex) (n : Nat) : hexTake b n ++ hexDrop b n = b := by
  unfold hexTake hexDrop
  rw [← String.ofList_append, List.take_append_drop, String.ofList_toList]

/-! ### the delivery half and the stuck FIN -/

/-- The drain loop, given enough fuel, stops only because the channel is full or because the next
    segment has not arrived. -/
theorem drainBuf_maximal (cap : Nat) :
    ∀ (fuel : Nat) (buf : List (Nat × Seg)) (rs : Nat) (items : List Seg), buf.length < fuel →
      let out := drainBuf cap true fuel buf rs items
      cap ≤ out.2.2.1.length ∨ ∀ p ∈ out.1, p.1 ≠ out.2.1 + 1
  | 0, buf, _, _, h => by omega
  | fuel + 1, buf, rs, items, h => by
    unfold drainBuf
    cases hf : buf.find? (fun p => p.1 == rs + 1) with
    | none =>
      right
      intro p hp he
      have := List.find?_eq_none.mp hf p hp
      simp [he] at this
    | some pr =>
      simp only [Bool.not_true, Bool.false_eq_true, if_false]
      by_cases hfull : items.length ≥ cap
      · simp only [hfull, if_true]; exact Or.inl trivial
      · simp only [hfull, if_false]
        have hmem : pr ∈ buf := List.mem_of_find?_eq_some hf
        have hk : pr.1 = rs + 1 := by simpa using List.find?_some hf
        have hlt : (buf.filter (fun p => p.1 != rs + 1)).length < buf.length := by
          apply List.length_filter_lt_length_iff_exists.mpr
          exact ⟨pr, hmem, by simp [hk]⟩
        exact drainBuf_maximal cap fuel _ _ _ (by omega)

/-- **Delivery half, repaired reader**: if every segment up to `N` that has not been read or queued
    yet is parked in the reorder buffer (i.e. all `N` have arrived) and the reader has just emptied
    the channel with the re-draining pop, then all `N` segments — FIN included — have been handed to
    the reader.  (`cap ≥ 1`.) -/
theorem complete_fixed (segs : Nat → Seg) (cap : Nat) (hcap : 0 < cap) (r : Rx) (h : Inv segs r) (N : Nat)
    (hall : ∀ q, (popRedrain cap r).recvSeq < q → q ≤ N → ∃ p ∈ (popRedrain cap r).buf, p.1 = q)
    (hempty : (popRedrain cap r).chan = []) :
    ∃ rest, (popRedrain cap r).consumed = firstSegs segs N ++ rest := by
  have hinv := popRedrain_inv segs cap h
  have hmax := drainBuf_maximal cap ((pop r).buf.length + 1) (pop r).buf (pop r).recvSeq (pop r).chan (by omega)
  have hge : N ≤ (popRedrain cap r).recvSeq := by
    apply Nat.le_of_not_lt
    intro hlt
    obtain ⟨p, hp, hpq⟩ := hall ((popRedrain cap r).recvSeq + 1) (by omega) (by omega)
    rcases hmax with hfull | hnone
    · have : (popRedrain cap r).chan.length ≥ cap := hfull
      rw [hempty] at this
      simp at this; omega
    · exact hnone p hp hpq
  have hh := hinv.hist
  rw [hempty, List.append_nil] at hh
  rw [hh]
  -- firstSegs of a larger count extends firstSegs N
  have : ∀ k, firstSegs segs (N + k) = firstSegs segs N ++ (List.range k).map (fun i => segs (N + i + 1)) := by
    intro k
    induction k with
    | zero => simp
    | succ k ih =>
      have e : N + (k + 1) = (N + k) + 1 := by omega
      rw [e, firstSegs_succ, ih, List.range_succ]
      simp [List.append_assoc]
  obtain ⟨k, hk⟩ : ∃ k, (popRedrain cap r).recvSeq = N + k := ⟨_, (Nat.add_sub_cancel' hge).symm⟩
  rw [hk]
  exact ⟨_, this k⟩

/-- Full delivery statement for a capacity-1 stream of one data segment and a FIN that both arrive
    before the reader reads: after the reader has emptied the channel twice, has it seen the FIN? -/
def DeliveryStatement (fx : Bool) : Prop :=
  let segs : Nat → Seg := fun q => if q == 1 then .data "41" else .fin
  ((([RxOp.arrive 1, .arrive 2, .pop, .pop]).foldl (rxStep segs 1 fx) {}).consumed) = [.data "41", .fin]

/-- **F-C02-1 (the code before the repair)**: the FIN that found the channel full stays parked for
    ever — nothing re-drains the reorder buffer when the reader frees the slot. -/
theorem witness_fin_stuck : ¬ DeliveryStatement false := by unfold DeliveryStatement; decide

theorem delivery_fixed : DeliveryStatement true := by unfold DeliveryStatement; decide

end TV.C02
