import TvCore.Proofs.HalfHost
import TvCore.Props.C02Stale
/-
  C02 / F-C02-2 — the repair with stream identities (`Model/StreamId.lean`: `applyStepI`, run by the driver
  when `cfg.fixStreamId` is on).

    * `witness_F_C02_2`   the finding, on the transition system without the repair (`applyStep`): the three
                          witnesses of `Props/C02Stale.lean` together;
    * `fixed_F_C02_2`     the same step lists on the repaired system: the write on the old, reset stream fails
                          with `BrokenPipe` also after the reconnect, the new connection's reader reads exactly
                          what was written on the new stream, dropping the old stream object leaves the new
                          connection established (`streams=1`, its bytes arrive);
    * `stale_half_inert`  for EVERY world with the repair on (no reachability needed): a half whose address
                          pair is held by a table entry with another identity changes nothing — `tryWriteI`,
                          `opTcpShutdownI` (through its half), `dropWriteI`, `redrainI` return the world
                          unchanged and hand nothing to the network; `dropReadI` only marks its own channel's
                          receiver as gone — provided (`fixStaleRst`) it sends no RST;
    * `residual_F_C02_2`  WITHOUT that proviso — the patch as written — the finding is still there: an old read
                          half that has unread data in its OWN queue (or stash) sends a RST by address pair when
                          it is dropped, and the peer, which handles RST by pair, tears down the NEW connection;
      `residual_fixed`    with `fixStaleRst` the same steps leave the new connection intact.
  NOT done: the existing theorems of this project are about `applyStep`; none of them is re-proved for
  `applyStepI` (in particular the stream-table ownership of C04 counts halves by address pair and is false as
  stated once stale halves release nothing), and the no-sharing part of `Estab` is not derived from `Reach`.
-/
namespace TV.C02
open TV TV.World

/-- **F-C02-2 (without the repair)**: pair uniqueness fails in a reachable world, the stale write is accepted
    and its bytes are read on the new connection, dropping the old stream destroys the new connection. -/
theorem witness_F_C02_2 :
    ¬ PairUnique_Statement staleInit ∧ ¬ StaleWriteStatement ∧
    obsRun staleW [.host 1 (.tcpWrite 0 "5858"), .turn 0, .host 0 (.tcpRead 3 8),
                   .host 1 (.tcpWrite 2 "4242"), .turn 0, .host 0 (.tcpRead 3 8)] =
      ["ok 2", "-", "ok 5858", "ok 2", "-", "ok 4242"] ∧
    obsRun staleW [.host 1 (.drop 0), .turn 0, .host 0 (.tcpRead 3 8), .host 1 (.tcpWrite 2 "4242"), .host 1 .count] =
      ["ok", "-", "ok -", "err brokenpipe", "ok streams=0 udp=0 tcpb=0"] :=
  ⟨witness_stale_half_same_pair, witness_stale_write_accepted, stale_bytes_read_by_new_connection,
   stale_drop_kills_new_connection⟩

/-! ### the same scenario on the repaired system -/

def obsRunI (w : World) : List Step → List String
  | [] => []
  | .host h op :: r => (applyHOpI w h op).2 :: obsRunI (applyStepI w (.host h op)) r
  | st :: r => "-" :: obsRunI (applyStepI w st) r

def staleCfgI (rst : Bool) : WCfg :=
  { ephLo := 49152, ephHi := 49152, fixConnectLeak := true, fixFinRedrain := true, fixWriterReset := true,
    fixStreamId := true, fixStaleRst := rst, link := Cfg.fixed }

def staleInitI (rst : Bool) : World := { cfg := staleCfgI rst, oracle := staleOracle ++ staleOracle }

/-- the world after the reconnect, repaired system (the patch as written: no `fixStaleRst`). -/
def staleWI : World := staleSteps.foldl applyStepI (staleInitI false)

/-- **F-C02-2 repaired**: (1) the write on the old stream fails, the new reader has nothing to read until the
    new stream writes and then reads exactly those bytes; (2) dropping the old stream object leaves the new
    connection established. -/
theorem fixed_F_C02_2 :
    obsRunI staleWI [.host 1 (.tcpWrite 0 "5858"), .turn 0, .host 0 (.tcpRead 3 8),
                     .host 1 (.tcpWrite 2 "4242"), .turn 0, .host 0 (.tcpRead 3 8)] =
      ["err brokenpipe", "-", "pending", "ok 2", "-", "ok 4242"] ∧
    obsRunI staleWI [.host 1 (.drop 0), .turn 0, .host 0 (.tcpRead 3 8), .host 1 (.tcpWrite 2 "4242"), .turn 0,
                     .host 0 (.tcpRead 3 8), .host 1 .count] =
      ["ok", "-", "pending", "ok 2", "-", "ok 4242", "ok streams=1 udp=0 tcpb=0"] ∧
    staleWI.panicked = none ∧ staleWI.oraErr = false := by
  refine ⟨by decide, by decide, by decide, by decide⟩

/-! ### the residual case: a stale read half with unread data of its own -/

/-- as `staleSteps`, but `h0` first writes two bytes to the old connection, which `h1` leaves unread in the old
    stream's queue. -/
def residSteps : List Step :=
  [ .register 1 false, .register 2 true,
    .host 0 (.tcpBind 0 ⟨.any, 80⟩),
    .host 1 (.tcpConnect 0 ⟨.host 0, 80⟩),
    .turn 0,
    .host 0 (.tcpAccept 0 1),
    .host 1 (.tcpCPoll 0),
    .host 0 (.tcpWrite 1 "4444"),
    .turn 1,
    .host 1 (.tcpWrite 0 "4141"),
    .turn 0,
    .host 0 (.drop 1),
    .turn 1,
    .host 1 (.tcpConnect 2 ⟨.host 0, 80⟩),
    .turn 0,
    .host 0 (.tcpAccept 0 3),
    .host 1 (.tcpCPoll 2) ]

def residTail : List Step :=
  [ .host 1 (.drop 0), .turn 0, .host 1 (.tcpWrite 2 "4242"), .turn 0, .host 0 (.tcpRead 3 8), .host 0 .count ]

/-- **the patch as written does not close F-C02-2**: the old stream's read half still holds an unread data
    segment in its own queue; dropping the old stream sends a RST `h1:49152 → h0:80`; `h0` removes the NEW
    connection's entry: its reader gets `reset`, its stream table is empty. -/
theorem residual_F_C02_2 :
    obsRunI (residSteps.foldl applyStepI (staleInitI false)) residTail =
      ["ok", "-", "ok 2", "-", "err reset", "ok streams=0 udp=0 tcpb=1"] ∧
    (residSteps.foldl applyStepI (staleInitI false)).panicked = none := by
  refine ⟨by decide, by decide⟩

/-- with the completion (`fixStaleRst`: a read half whose entry is gone or not its own sends no RST) the new
    connection survives and delivers. -/
theorem residual_fixed :
    obsRunI (residSteps.foldl applyStepI (staleInitI true)) residTail =
      ["ok", "-", "ok 2", "-", "ok 4242", "ok streams=1 udp=0 tcpb=1"] := by decide

/-! ### a stale half is inert — every world -/

/-- the half `(loc, rem, sid)` held on host `h` is stale: its pair is in the table with another identity. -/
def Stale (w : World) (h : Nat) (loc rem : Addr) (sid : Nat) : Prop :=
  w.cfg.fixStreamId = true ∧ ∃ i, findSock (w.host! h) loc rem = some i ∧ ((w.host! h).socks.getD i default).chan ≠ sid

theorem Stale.hh {w : World} {h : Nat} {loc rem : Addr} {sid : Nat} (hs : Stale w h loc rem sid) :
    w.halfHost h loc rem sid = w.hosts.length := by
  obtain ⟨hfx, i, hf, hc⟩ := hs
  exact halfHost_stale w h loc rem sid i hfx hf hc

theorem Stale.find {w : World} {h : Nat} {loc rem : Addr} {sid : Nat} (hs : Stale w h loc rem sid) :
    findSock (w.host! (w.halfHost h loc rem sid)) loc rem = none := by
  rw [hs.hh]; exact findSock_ge w _ (Nat.le_refl _) loc rem

/-- **a stale half is inert.**  In every world with the repair on:
    * `tryWriteI` (with the writer-reset repair) returns the world unchanged, and for a non-empty buffer on a
      half that is not shut down the result is `BrokenPipe`;
    * `opTcpShutdownI` on an object whose write half is stale returns the world unchanged;
    * `dropWriteI` returns the world unchanged: no FIN, no release of the new entry;
    * `redrainI` returns the world unchanged;
    * `dropReadI` (with `fixStaleRst`) only marks the receiver of the half's own channel as gone. -/
theorem stale_half_inert (w : World) (h : Nat) :
    (∀ x p, Stale w h x.loc x.rem x.sid → w.cfg.fixWriterReset = true →
      (w.tryWriteI h x p).1 = w ∧ (hexLen p ≠ 0 → (w.tryWriteI h x p).2 = "err brokenpipe")) ∧
    (∀ s rd x, w.getObj h s = some (.stream rd (some x)) → Stale w h x.loc x.rem x.sid → (w.opTcpShutdownI h s).1 = w) ∧
    (∀ x, Stale w h x.loc x.rem x.sid → w.dropWriteI h x = w) ∧
    (∀ r, Stale w h r.loc r.rem r.chan → w.redrainI h r = w) ∧
    (∀ r, Stale w h r.loc r.rem r.chan → w.cfg.fixStaleRst = true →
      w.dropReadI h r = w.setChan r.chan (fun c => { c with rxAlive := false })) := by
  refine ⟨?_, ?_, ?_, ?_, ?_⟩
  · intro x p hs hwr
    have hf := hs.find
    unfold tryWriteI
    by_cases hl : hexLen p = 0
    · simp [hl]
    · have hl' : (hexLen p == 0) = false := by simpa using hl
      simp only [hl', Bool.false_eq_true, if_false]
      cases hsd : x.shutdown with
      | true => simp
      | false => simp [hwr, hf]
  · intro s rd x ho hs
    have hf := hs.find
    unfold opTcpShutdownI
    rw [ho]
    simp only
    split
    · rfl
    · rw [hf]
  · intro x hs
    have hf := hs.find
    unfold dropWriteI
    simp only
    rw [hf]
    have e : (if (!x.shutdown) = true then w else w) = w := by split <;> rfl
    rw [e, hs.hh]
    exact closeStreamHalf_ge w _ (Nat.le_refl _) _ _
  · intro r hs
    have hf := hs.find
    unfold redrainI
    split
    · rfl
    · rw [hf]
  · intro r hs hrst
    have hf := hs.find
    have hh2 : (w.setChan r.chan (fun c => { c with rxAlive := false })).halfHost h r.loc r.rem r.chan =
        (w.setChan r.chan (fun c => { c with rxAlive := false })).hosts.length := hs.hh
    unfold dropReadI
    simp only
    rw [hf]
    have hc : (w.setChan r.chan (fun c => { c with rxAlive := false })).cfg.fixStaleRst = true := hrst
    simp only [hc, Option.isSome_none, Bool.not_false, Bool.and_self, Bool.not_true, Bool.and_false, Bool.false_eq_true, if_false]
    rw [hh2]
    exact closeStreamHalf_ge _ _ (Nat.le_refl _) _ _

/-- non-vacuity: in `staleWI` the old stream's halves in slot 0 of `h1` are stale. -/
example : Stale staleWI 1 ⟨.host 1, 49152⟩ ⟨.host 0, 80⟩ 0 := ⟨by decide, 0, by decide, by decide⟩

end TV.C02
