import TvCore.Model.Ops
import TvCore.Proofs.ListUtil
/-
  World-level frame facts about links (used by C03, C08, C14): a send and every partition / repair /
  hold / release call touch exactly the one link between the two hosts involved; all other links —
  their state, in-flight queue, deliverable queues and clock — are left exactly as they were.
-/
namespace TV.WorldLinks
open TV TV.World

theorem getElem?_setAt_ne {α : Type} (l : List α) (i j : Nat) (f : α → α) (h : j ≠ i) :
    (setAt l i f)[j]? = l[j]? := by
  induction l generalizing i j with
  | nil => simp [setAt]
  | cons x xs ih =>
    cases i with
    | zero =>
      cases j with
      | zero => exact absurd rfl h
      | succ k => simp [setAt]
    | succ i' =>
      cases j with
      | zero => simp [setAt]
      | succ k => simpa [setAt] using ih i' k (by omega)

@[simp] theorem links_tag (w : World) (t : String) : (w.tag t).links = w.links := by unfold tag; split <;> rfl
@[simp] theorem links_dropSyn (w : World) (id : Nat) : (w.dropSyn id).links = w.links := rfl

@[simp] theorem links_dropEnvs (w : World) (es : List Env) : (w.dropEnvs es).links = w.links := by
  unfold dropEnvs
  induction es generalizing w with
  | nil => rfl
  | cons e es ih =>
    simp only [List.foldl_cons]
    rw [ih]
    cases e.msg <;> simp

@[simp] theorem links_popFail (w : World) : (w.popFail).2.links = w.links := by unfold popFail; split <;> rfl
@[simp] theorem links_popRepair (w : World) : (w.popRepair).2.links = w.links := by unfold popRepair; split <;> rfl
@[simp] theorem links_popDelay (w : World) : (w.popDelay).2.links = w.links := by unfold popDelay; split <;> rfl

/-- **Other links are unaffected by a send**: `enqueue_message` on link `li` leaves every other
    link untouched, whatever the coins and the delay. -/
theorem linkEnqueue_other (w : World) (li s d : Nat) (e : Env) (j : Nat) (hj : j ≠ li) :
    (w.linkEnqueue li s d e).links[j]? = w.links[j]? := by
  unfold linkEnqueue
  split
  · rfl
  · simp only
    repeat' split
    all_goals simp [getElem?_setAt_ne _ _ _ _ hj]

/-- **Other links are unaffected by partition / repair / hold / release / manual delivery** between
    two hosts: only the link of that pair changes. -/
theorem onLink_other (w : World) (x y : Nat) (f : Link Env → Link Env × List (Sent Env)) (li : Nat)
    (hli : w.findLink (w.host! x).ipnum (w.host! y).ipnum = some li) (j : Nat) (hj : j ≠ li) :
    (w.onLink x y f).links[j]? = w.links[j]? := by
  unfold onLink
  simp only [hli]
  split
  · rfl
  · simp [getElem?_setAt_ne _ _ _ _ hj]

@[simp] theorem hosts_panic' (w : World) (t : String) : (w.panic t).hosts = w.hosts := by
  unfold World.panic; split <;> rfl

@[simp] theorem hosts_dropEnvs' (w : World) (es : List Env) : (w.dropEnvs es).hosts = w.hosts := by
  unfold dropEnvs
  induction es generalizing w with
  | nil => rfl
  | cons e es ih =>
    simp only [List.foldl_cons]
    rw [ih]
    cases e.msg <;> rfl

/-- hosts are untouched by link control operations. -/
theorem onLink_hosts (w : World) (x y : Nat) (f : Link Env → Link Env × List (Sent Env)) :
    (w.onLink x y f).hosts = w.hosts := by
  unfold onLink
  simp only
  split
  · simp
  · split
    · rfl
    · simp

end TV.WorldLinks
