import TvCore.Model.Ports
import TvCore.Model.Dns
/-
  C15 — ports and simulated addresses are never handed out twice while in use.
-/
namespace TV.C15
open TV

/-! ### ephemeral ports -/

/-- Soundness: whatever the scan returns is not in use and lies in the range. -/
theorem scan_sound (lo hi : Nat) (used : Nat → Bool) :
    ∀ (fuel cur : Nat), lo ≤ cur → cur ≤ hi → ∀ p c, scanPorts lo hi used fuel cur = (some p, c) →
      used p = false ∧ lo ≤ p ∧ p ≤ hi ∧ lo ≤ c ∧ c ≤ hi
  | 0, cur, _, _, p, c, h => by simp [scanPorts] at h
  | fuel + 1, cur, h1, h2, p, c, h => by
    have hlh : lo ≤ hi := Nat.le_trans h1 h2
    unfold scanPorts at h
    by_cases hu : used cur = true
    · simp only [hu, if_true] at h
      by_cases he : cur = hi
      · simp only [he, beq_self_eq_true, if_true] at h
        exact scan_sound lo hi used fuel lo (Nat.le_refl _) hlh p c h
      · have : (cur == hi) = false := by simpa using he
        simp only [this, Bool.false_eq_true, if_false] at h
        exact scan_sound lo hi used fuel (cur + 1) (by omega) (by omega) p c h
    · have hu' : used cur = false := by simpa using hu
      simp only [hu', Bool.false_eq_true, if_false, Prod.mk.injEq, Option.some.injEq] at h
      obtain ⟨rfl, rfl⟩ := h
      refine ⟨hu', h1, h2, ?_⟩
      by_cases he : cur = hi
      · simp [he, hlh]
      · simp only [beq_iff_eq, he, if_false]
        omega

/-- A scan that does not wrap: `fuel` steps from `cur` with `cur + fuel ≤ hi + 1`.  If it finds
    nothing, every port of `[cur, cur + fuel)` is in use and the cursor has advanced (wrapping to
    `lo` exactly when it passed `hi`). -/
theorem scan_none_nowrap (lo hi : Nat) (used : Nat → Bool) :
    ∀ (fuel cur : Nat), cur + fuel ≤ hi + 1 → ∀ c, scanPorts lo hi used fuel cur = (none, c) →
      (∀ p, cur ≤ p → p < cur + fuel → used p = true) ∧
      c = (if fuel = 0 then cur else if cur + fuel = hi + 1 then lo else cur + fuel)
  | 0, cur, _, c, h => by
    simp [scanPorts] at h
    exact ⟨by intro p h1 h2; omega, by simp [h]⟩
  | fuel + 1, cur, hb, c, h => by
    unfold scanPorts at h
    by_cases hu : used cur = true
    · simp only [hu, if_true] at h
      by_cases he : cur = hi
      · have hf : fuel = 0 := by omega
        subst hf
        simp only [he, beq_self_eq_true, if_true, scanPorts, Prod.mk.injEq, true_and] at h
        refine ⟨?_, ?_⟩
        · intro p h1 h2
          have : p = cur := by omega
          subst this; exact hu
        · simp [he, ← h]
      · have hne : (cur == hi) = false := by simpa using he
        simp only [hne, Bool.false_eq_true, if_false] at h
        obtain ⟨ih1, ih2⟩ := scan_none_nowrap lo hi used fuel (cur + 1) (by omega) c h
        refine ⟨?_, ?_⟩
        · intro p h1 h2
          by_cases hp : p = cur
          · subst hp; exact hu
          · exact ih1 p (by omega) (by omega)
        · rw [ih2]
          by_cases hf : fuel = 0
          · subst hf; simp; omega
          · simp only [hf, if_false, Nat.succ_ne_zero]
            have e : cur + 1 + fuel = cur + (fuel + 1) := by omega
            rw [e]
    · have hu' : used cur = false := by simpa using hu
      simp [hu'] at h

theorem scan_succ (lo hi : Nat) (used : Nat → Bool) (f cur : Nat) :
    scanPorts lo hi used (f + 1) cur =
      if used cur then scanPorts lo hi used f (if cur == hi then lo else cur + 1)
      else (some cur, if cur == hi then lo else cur + 1) := rfl

/-- Splitting the fuel: a longer scan is the shorter scan followed, if that found nothing, by a scan
    from where it stopped. -/
theorem scan_split (lo hi : Nat) (used : Nat → Bool) :
    ∀ (f1 f2 cur : Nat), scanPorts lo hi used (f1 + f2) cur =
      (match scanPorts lo hi used f1 cur with
       | (none, c) => scanPorts lo hi used f2 c
       | r => r)
  | 0, f2, cur => by simp [scanPorts]
  | f1 + 1, f2, cur => by
    have e : f1 + 1 + f2 = (f1 + f2) + 1 := by omega
    rw [e, scan_succ, scan_succ]
    by_cases hu : used cur = true
    · simp only [hu, if_true]
      exact scan_split lo hi used f1 f2 _
    · have hu' : used cur = false := by simpa using hu
      simp [hu']

/-- **Completeness**: `assign_ephemeral_port` gives up (the Rust code panics "ports exhausted")
    only if every port of the range is in use. -/
theorem assign_none_all_used (lo hi : Nat) (used : Nat → Bool) (cur : Nat)
    (h1 : lo ≤ cur) (h2 : cur ≤ hi) (c : Nat)
    (h : assignEphemeral lo hi used cur = (none, c)) : ∀ p, lo ≤ p → p ≤ hi → used p = true := by
  unfold assignEphemeral at h
  have e : hi - lo + 1 = (hi - cur + 1) + (cur - lo) := by omega
  rw [e, scan_split] at h
  -- first leg: cur .. hi
  cases hleg : scanPorts lo hi used (hi - cur + 1) cur with
  | mk r c1 =>
    rw [hleg] at h
    cases r with
    | some p => simp at h
    | none =>
      simp only at h
      obtain ⟨a1, a2⟩ := scan_none_nowrap lo hi used (hi - cur + 1) cur (by omega) c1 hleg
      have hc1 : c1 = lo := by
        rw [a2]; simp; omega
      rw [hc1] at h
      by_cases hz : cur - lo = 0
      · intro p hp1 hp2
        exact a1 p (by omega) (by omega)
      · obtain ⟨b1, _⟩ := scan_none_nowrap lo hi used (cur - lo) lo (by omega) c h
        intro p hp1 hp2
        by_cases hp : cur ≤ p
        · exact a1 p hp (by omega)
        · exact b1 p hp1 (by omega)

/-- **Freshness**: the assigned port is inside the configured range and in use by nothing — no UDP
    bind, no TCP listener, no live TCP stream (`used` is the union the code consults). -/
theorem assign_fresh (lo hi : Nat) (used : Nat → Bool) (cur p c : Nat)
    (h1 : lo ≤ cur) (h2 : cur ≤ hi) (h : assignEphemeral lo hi used cur = (some p, c)) :
    used p = false ∧ lo ≤ p ∧ p ≤ hi ∧ lo ≤ c ∧ c ≤ hi :=
  scan_sound lo hi used _ cur h1 h2 p c h

/-- If some port of the range is free, a port is assigned (contrapositive of completeness). -/
theorem assign_some_of_free (lo hi : Nat) (used : Nat → Bool) (cur q : Nat)
    (h1 : lo ≤ cur) (h2 : cur ≤ hi) (hq : lo ≤ q ∧ q ≤ hi ∧ used q = false) :
    ∃ p c, assignEphemeral lo hi used cur = (some p, c) := by
  cases h : assignEphemeral lo hi used cur with
  | mk r c =>
    cases r with
    | some p => exact ⟨p, c, rfl⟩
    | none =>
      have := assign_none_all_used lo hi used cur h1 h2 c h q hq.1 hq.2.1
      rw [hq.2.2] at this; cases this

example : assignEphemeral 10 12 (fun p => p == 11 || p == 12) 11 = (some 10, 11) := by decide
example : assignEphemeral 10 12 (fun _ => true) 11 = (none, 11) := by decide

/-! ### DNS -/

theorem addrV4_injective (n m : Nat) (hn : n < 65536) (hm : m < 65536) (h : addrV4 n = addrV4 m) : n = m := by
  unfold addrV4 at h
  simp only [Prod.mk.injEq] at h
  omega

theorem addrV6_injective (n m : Nat) (hn : n < 2 ^ 64) (hm : m < 2 ^ 64) (h : addrV6 n = addrV6 m) : n = m := by
  unfold addrV6 at h
  simp only [Prod.mk.injEq] at h
  omega

variable {α : Type} [DecidableEq α]

/-- Well-formed name table: counters are below `next`, and both names and counters are distinct. -/
structure DnsWF (d : Dns α) : Prop where
  lt : ∀ p ∈ d.names, p.2 < d.next
  namesNodup : (d.names.map (·.1)).Nodup
  valsNodup : (d.names.map (·.2)).Nodup

theorem wf_init : DnsWF ({} : Dns α) := ⟨by simp, by simp, by simp⟩

theorem find_name_mem {d : Dns α} {name : α} {p : α × Nat}
    (h : d.names.find? (·.1 == name) = some p) : p ∈ d.names ∧ p.1 = name := by
  have := List.find?_some h
  exact ⟨List.mem_of_find?_eq_some h, by simpa using this⟩

theorem wf_lookup {d : Dns α} (h : DnsWF d) (name : α) : DnsWF (d.lookup name).2 := by
  unfold Dns.lookup
  cases hf : d.names.find? (·.1 == name) with
  | some p => exact h
  | none =>
    have hnot : ∀ p ∈ d.names, p.1 ≠ name := by
      intro p hp he
      have := List.find?_eq_none.mp hf p hp
      simp [he] at this
    refine ⟨?_, ?_, ?_⟩
    · intro p hp
      rcases List.mem_append.mp hp with hp | hp
      · exact Nat.lt_succ_of_lt (h.lt p hp)
      · simp at hp; subst hp; exact Nat.lt_succ_self _
    · simp only [List.map_append, List.map_cons, List.map_nil]
      refine List.nodup_append.mpr ⟨h.namesNodup, by simp, ?_⟩
      intro a ha b hb
      simp at hb; subst hb
      obtain ⟨p, hp, rfl⟩ := List.mem_map.mp ha
      exact hnot p hp
    · simp only [List.map_append, List.map_cons, List.map_nil]
      refine List.nodup_append.mpr ⟨h.valsNodup, by simp, ?_⟩
      intro a ha b hb
      simp at hb; subst hb
      obtain ⟨p, hp, rfl⟩ := List.mem_map.mp ha
      exact Nat.ne_of_lt (h.lt p hp)

theorem wf_run {d : Dns α} (h : DnsWF d) (qs : List α) : DnsWF (d.run qs) := by
  induction qs generalizing d with
  | nil => exact h
  | cons q qs ih => exact ih (wf_lookup h q)

theorem eq_of_nodup_map {β γ : Type} (f : β → γ) : ∀ (l : List β), (l.map f).Nodup →
    ∀ a b, a ∈ l → b ∈ l → f a = f b → a = b
  | [], _, a, _, ha, _, _ => by simp at ha
  | x :: xs, hnd, a, b, ha, hb, hf => by
    simp only [List.map_cons, List.nodup_cons] at hnd
    rcases List.mem_cons.mp ha with ha | ha <;> rcases List.mem_cons.mp hb with hb | hb
    · rw [ha, hb]
    · rw [ha] at hf; exact absurd (List.mem_map.mpr ⟨b, hb, hf.symm⟩) hnd.1
    · rw [hb] at hf; exact absurd (List.mem_map.mpr ⟨a, ha, hf⟩) hnd.1
    · exact eq_of_nodup_map f xs hnd.2 a b ha hb hf

/-- a name already in a well-formed table resolves to its entry and changes nothing. -/
theorem lookup_of_mem {d : Dns α} (h : DnsWF d) (name : α) (v : Nat) (hm : (name, v) ∈ d.names) :
    (d.lookup name).1 = v ∧ (d.lookup name).2 = d := by
  unfold Dns.lookup
  cases hf : d.names.find? (·.1 == name) with
  | none =>
    have := List.find?_eq_none.mp hf (name, v) hm
    simp at this
  | some p =>
    obtain ⟨hp, hn⟩ := find_name_mem hf
    have : p = (name, v) := eq_of_nodup_map (·.1) d.names h.namesNodup p (name, v) hp hm (by simp [hn])
    simp [this]

theorem mem_lookup {d : Dns α} (q : α) (p : α × Nat) (hp : p ∈ d.names) : p ∈ (d.lookup q).2.names := by
  unfold Dns.lookup
  cases d.names.find? (·.1 == q) with
  | some _ => exact hp
  | none => exact List.mem_append.mpr (Or.inl hp)

theorem mem_run {d : Dns α} (qs : List α) (p : α × Nat) (hp : p ∈ d.names) : p ∈ (d.run qs).names := by
  induction qs generalizing d with
  | nil => exact hp
  | cons q qs ih => exact ih (mem_lookup q p hp)

/-- after a lookup the name is in the table with the value that was returned. -/
theorem lookup_mem (d : Dns α) (name : α) : (name, (d.lookup name).1) ∈ (d.lookup name).2.names := by
  unfold Dns.lookup
  cases hf : d.names.find? (·.1 == name) with
  | some p =>
    obtain ⟨hp, hn⟩ := find_name_mem hf
    have : p = (name, p.2) := by rw [← hn]
    simp only; rw [← this]; exact hp
  | none => simp

/-- **Stable**: looking a name up again — after any number of other lookups — returns the same
    counter value, hence the same address. -/
theorem lookup_stable {d : Dns α} (h : DnsWF d) (name : α) (qs : List α) :
    (((d.lookup name).2.run qs).lookup name).1 = (d.lookup name).1 := by
  have hm := mem_run qs _ (lookup_mem d name)
  exact (lookup_of_mem (wf_run (wf_lookup h name) qs) name _ hm).1

/-- **Distinct**: two different names never share a counter value (hence, below the wrap of the
    address split, never share an address). -/
theorem distinct {d : Dns α} (h : DnsWF d) (n1 n2 : α) (v1 v2 : Nat)
    (h1 : (n1, v1) ∈ d.names) (h2 : (n2, v2) ∈ d.names) (hne : n1 ≠ n2) : v1 ≠ v2 := by
  intro he
  have := eq_of_nodup_map (·.2) d.names h.valsNodup (n1, v1) (n2, v2) h1 h2 (by simp [he])
  exact hne (by simpa using congrArg Prod.fst this)

/-- **Reverse lookup inverts the mapping.** -/
theorem reverse_lookup {d : Dns α} (h : DnsWF d) (name : α) :
    (d.lookup name).2.reverse (d.lookup name).1 = some name := by
  have hw := wf_lookup h name
  have hm := lookup_mem d name
  unfold Dns.reverse
  cases hf : (d.lookup name).2.names.find? (·.2 == (d.lookup name).1) with
  | none =>
    have := List.find?_eq_none.mp hf _ hm
    simp at this
  | some p =>
    have hp := List.mem_of_find?_eq_some hf
    have hv : p.2 = (d.lookup name).1 := by simpa using List.find?_some hf
    have := eq_of_nodup_map (·.2) _ hw.valsNodup p (name, (d.lookup name).1) hp hm (by simp [hv])
    simp [this]

/-- every table reached from the empty one by lookups is well-formed, with counters ≥ 1. -/
theorem reachable_wf (qs : List α) : DnsWF (({} : Dns α).run qs) := wf_run wf_init qs

example : ((({} : Dns String).run ["a", "b", "a", "c"]).names) = [("a", 1), ("b", 2), ("c", 3)] := by decide

end TV.C15
