import TvCore.Props.C04Mcast
/-
  C04 — crashing several hosts at once (`Sim::crash` with a name set / regex).

  The group crash is the single crash applied to each selected host in turn.  Whatever the state of
  the hosts selected earlier — running, already crashed, never started — **every** selected host is
  down afterwards, and every host outside the selection is exactly as it was.
-/
namespace TV.C04
open TV TV.World

theorem host_of_others (w w' : World) (y x : Nat) (h : Only y w w') (hne : x ≠ y) : w'.host! x = w.host! x := by
  unfold host!
  have hget : w'.hosts[x]? = w.hosts[x]? := by
    have he := h.1
    unfold others at he
    rcases Nat.lt_or_gt_of_ne hne with hlt | hgt
    · have a := List.getElem?_eraseIdx_of_lt (l := w'.hosts) (i := y) (j := x) hlt
      have b := List.getElem?_eraseIdx_of_lt (l := w.hosts) (i := y) (j := x) hlt
      rw [← a, ← b, he]
    · have a := List.getElem?_eraseIdx_of_ge (l := w'.hosts) (i := y) (j := x - 1) (by omega)
      have b := List.getElem?_eraseIdx_of_ge (l := w.hosts) (i := y) (j := x - 1) (by omega)
      have e : x - 1 + 1 = x := by omega
      rw [e] at a b
      rw [← a, ← b, he]
  simp only [List.getD_eq_getElem?_getD, hget]

/-- a crash never starts anything: a host that is down stays down through the crash of any host. -/
theorem crash_keeps_down (w : World) (y x : Nat) (hx : x < w.hosts.length)
    (hd : (w.host! x).running = false) : ((w.crash y).host! x).running = false := by
  by_cases e : x = y
  · subst e; exact crash_stops x w hx
  · rw [host_of_others w (w.crash y) y x (only_crash y w) e]; exact hd

theorem length_crash (w : World) (y : Nat) : (w.crash y).hosts.length = w.hosts.length := (only_crash y w).2

/-- **Group crash**: after crashing the hosts `xs` one after the other, every one of them is down. -/
theorem crashAll_stops (xs : List Nat) (w : World) (x : Nat) (hm : x ∈ xs) (hx : x < w.hosts.length) :
    ((xs.foldl (fun w y => w.crash y) w).host! x).running = false := by
  have keep : ∀ (ys : List Nat) (w : World), x < w.hosts.length → (w.host! x).running = false →
      ((ys.foldl (fun w y => w.crash y) w).host! x).running = false := by
    intro ys
    induction ys with
    | nil => intro w _ h; exact h
    | cons y ys ih =>
      intro w hl h
      simp only [List.foldl_cons]
      exact ih (w.crash y) (by rw [length_crash]; exact hl) (crash_keeps_down w y x hl h)
  induction xs generalizing w with
  | nil => exact absurd hm (by simp)
  | cons y ys ih =>
    simp only [List.foldl_cons]
    have hl : x < (w.crash y).hosts.length := by rw [length_crash]; exact hx
    by_cases e : y = x
    · subst e
      exact keep ys (w.crash y) hl (crash_stops y w hx)
    · have hm' : x ∈ ys := by
        rcases List.mem_cons.mp hm with h | h
        · exact absurd h.symm e
        · exact h
      exact ih (w.crash y) hm' hl

/-- … and every host outside the selection is untouched. -/
theorem crashAll_frame (xs : List Nat) (w : World) (x : Nat) (hn : x ∉ xs) :
    (xs.foldl (fun w y => w.crash y) w).host! x = w.host! x := by
  induction xs generalizing w with
  | nil => rfl
  | cons y ys ih =>
    simp only [List.foldl_cons]
    have hy : x ≠ y := fun e => hn (by simp [e])
    rw [ih (w.crash y) (fun h => hn (List.mem_cons_of_mem _ h))]
    exact host_of_others w (w.crash y) y x (only_crash y w) hy

end TV.C04
