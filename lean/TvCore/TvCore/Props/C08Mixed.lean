import TvCore.Props.C08
/-
  C08 — release of a queue that is no longer uniformly held.

  After manual deliveries (`SentRef::deliver`) the in-flight queue of a held link is mixed: some
  messages are scheduled, the others still held, in any positions.  `release` must free **every**
  held message wherever it sits — not only a leading run of them.
-/
namespace TV.C08
open TV TV.Link

variable {M : Type}

/-- after `release` no message of the link is held, whatever the positions of held and already
    scheduled messages. -/
theorem release_none_held (l : Link M) : ∀ s ∈ l.release.sent, s.status ≠ .hold := by
  intro s hs
  simp only [release, List.mem_map] at hs
  obtain ⟨x, _, rfl⟩ := hs
  unfold releaseOne
  cases hx : x.status with
  | hold => simp
  | after t => simp [hx]

/-- `release` neither drops, duplicates nor reorders: same messages, same order. -/
theorem release_ids (l : Link M) : l.release.sent.map (·.id) = l.sent.map (·.id) := by
  simp only [release, List.map_map]
  apply List.map_congr_left
  intro x _
  simp only [Function.comp]
  unfold releaseOne
  cases x.status <;> rfl

/-- a message that was already scheduled (by hand) keeps its schedule; a held one is scheduled for now. -/
theorem releaseOne_status (now : Nat) (s : Sent M) :
    (releaseOne now s).status = match s.status with | .hold => .after now | .after t => .after t := by
  unfold releaseOne
  cases h : s.status <;> simp [h]

/-- **Mixed queue**: hand-deliver any message of a held link, release at once (no step, no send in
    between): every message is scheduled, none stays held behind the hand-delivered one. -/
theorem deliver_then_release_none_held (l : Link M) (i : Nat) :
    ∀ s ∈ (l.manualDeliver i).release.sent, s.status ≠ .hold :=
  release_none_held (l.manualDeliver i)

/-- non-vacuity: four held messages, the second delivered by hand, then release — all four are
    scheduled (the seeded change leaves the last two held). -/
example :
    let l0 : Link Unit := Link.init 0 1
    let l := (Link.run Cfg.faithful l0
      [ LinkOp.hold, .enqueue false false 5 true (), .enqueue false false 5 true (), .enqueue false false 5 true (),
        .enqueue false false 5 true () ]).1
    ((l.manualDeliver 1).release.sent.map (fun s => s.status == .hold)) = [false, false, false, false] := by decide

end TV.C08
