import TvCore.Props.C04Own
import TvCore.Props.WorldLinks
/-
  C04 — aggregate release of the stream-socket table.

  A stream socket entry carries a half-close count (`refCt`); `Drop for ReadHalf` / `WriteHalf`
  decrement it (or remove the entry outright when unread data forces a RST), a dropped pending
  connect removes it (with the repair of F-C12-1).  `avail objs p` counts how many such releases the
  objects a host holds will perform on the address pair `p`.  Invariant `Inv n socks`: address pairs
  are unique in the table and every entry needs at most `n p` releases.  Each destructor maps
  `Inv (contrib o + n)` to `Inv n`; hence after the whole sweep `Inv 0` holds — the table is empty.
-/
namespace TV.C04
open TV TV.World

abbrev Pair := Addr × Addr
def pairOf (s : Sock) : Pair := (s.loc, s.rem)
def PairsNodup (l : List Sock) : Prop := l.Pairwise (fun a b => pairOf a ≠ pairOf b)
def Inv (n : Pair → Nat) (l : List Sock) : Prop := PairsNodup l ∧ ∀ s ∈ l, max 1 s.refCt ≤ n (pairOf s)
def dec (n : Pair → Nat) (p : Pair) : Pair → Nat := fun q => if q = p then n q - 1 else n q
def zeroAt (n : Pair → Nat) (p : Pair) : Pair → Nat := fun q => if q = p then 0 else n q

theorem Inv.mono {n m : Pair → Nat} {l : List Sock} (h : Inv n l) (hnm : ∀ s ∈ l, n (pairOf s) ≤ m (pairOf s)) : Inv m l :=
  ⟨h.1, fun s hs => Nat.le_trans (h.2 s hs) (hnm s hs)⟩

theorem matchPair (s : Sock) (loc rem : Addr) : (s.loc == loc && s.rem == rem) = true ↔ pairOf s = (loc, rem) := by
  simp [pairOf, Prod.ext_iff]

theorem getElem?_setAt_eq {α : Type} (l : List α) (i : Nat) (f : α → α) : (setAt l i f)[i]? = l[i]?.map f := by
  induction l generalizing i with
  | nil => simp [setAt]
  | cons x xs ih =>
    cases i with
    | zero => simp [setAt]
    | succ k => simpa [setAt] using ih k

theorem mem_setAt_cases {α : Type} {l : List α} {i : Nat} {f : α → α} {y : α} (h : y ∈ setAt l i f) :
    (∃ j, j ≠ i ∧ l[j]? = some y) ∨ (∃ x, l[i]? = some x ∧ y = f x) := by
  obtain ⟨j, hj⟩ := List.mem_iff_getElem?.mp h
  by_cases e : j = i
  · subst e
    rw [getElem?_setAt_eq] at hj
    cases hx : l[j]? with
    | none => simp [hx] at hj
    | some x =>
      simp [hx] at hj
      exact Or.inr ⟨x, rfl, hj.symm⟩
  · rw [WorldLinks.getElem?_setAt_ne _ _ _ _ e] at hj
    exact Or.inl ⟨j, e, hj⟩

theorem distinct_of_nodup {l : List Sock} (h : PairsNodup l) {i j : Nat} {x y : Sock}
    (hi : l[i]? = some x) (hj : l[j]? = some y) (hij : i ≠ j) : pairOf x ≠ pairOf y := by
  obtain ⟨hil, rfl⟩ := List.getElem?_eq_some_iff.mp hi
  obtain ⟨hjl, rfl⟩ := List.getElem?_eq_some_iff.mp hj
  have hp := List.pairwise_iff_getElem.mp h
  rcases Nat.lt_or_gt_of_ne hij with hlt | hgt
  · exact hp i j hil hjl hlt
  · exact fun e => hp j i hjl hil hgt e.symm

/-- erasing the (first) entry of a pair: nothing of that pair is left. -/
theorem erase_inv (n : Pair → Nat) (l : List Sock) (loc rem : Addr) (i : Nat) (hI : Inv n l)
    (hf : l.findIdx? (fun s => s.loc == loc && s.rem == rem) = some i) (m : Nat) :
    Inv (fun q => if q = (loc, rem) then m else n q) (l.eraseIdx i) := by
  obtain ⟨hi, hp, _⟩ := List.findIdx?_eq_some_iff_getElem.mp hf
  have hgi : l[i]? = some l[i] := List.getElem?_eq_getElem hi
  have hpi : pairOf l[i] = (loc, rem) := (matchPair _ _ _).mp hp
  refine ⟨hI.1.sublist (List.eraseIdx_sublist l i), fun s hs => ?_⟩
  obtain ⟨j, hji, hj⟩ := List.mem_eraseIdx_iff_getElem?.mp hs
  have hne : pairOf s ≠ (loc, rem) := by rw [← hpi]; exact distinct_of_nodup hI.1 hj hgi hji
  have hsl : s ∈ l := List.mem_iff_getElem?.mpr ⟨j, hj⟩
  simp only [hne, if_false]
  exact hI.2 s hsl

/-- `close_stream_half` uses up one release of its pair. -/
theorem closeHalf_inv (n : Pair → Nat) (l : List Sock) (loc rem : Addr) (hI : Inv n l) :
    Inv (dec n (loc, rem)) (closeHalfList l loc rem).1 := by
  unfold closeHalfList
  cases hf : l.findIdx? (fun s => s.loc == loc && s.rem == rem) with
  | none =>
    simp only
    refine ⟨hI.1, fun s hs => ?_⟩
    have hne : pairOf s ≠ (loc, rem) := by
      have := List.findIdx?_eq_none_iff.mp hf s hs
      intro e
      rw [(matchPair s loc rem).mpr e] at this
      exact Bool.noConfusion this
    simp only [dec, hne, if_false]
    exact hI.2 s hs
  | some i =>
    obtain ⟨hi, hp, _⟩ := List.findIdx?_eq_some_iff_getElem.mp hf
    have hgi : l[i]? = some l[i] := List.getElem?_eq_getElem hi
    have hD : l.getD i default = l[i] := by simp [List.getD_eq_getElem?_getD, hgi]
    have hpi : pairOf l[i] = (loc, rem) := (matchPair _ _ _).mp hp
    simp only [hD]
    split
    · have := erase_inv n l loc rem i hI hf (n (loc, rem) - 1)
      refine this.mono (fun s _ => ?_)
      simp only [dec]
      split <;> simp_all
    · next hrc =>
      refine ⟨pairwise_setAt l i _ _ (fun a b h => by simpa [pairOf] using h) (fun a b h => by simpa [pairOf] using h) hI.1,
        fun s hs => ?_⟩
      rcases mem_setAt_cases hs with ⟨j, hji, hj⟩ | ⟨x, hx, rfl⟩
      · have hne : pairOf s ≠ (loc, rem) := by rw [← hpi]; exact distinct_of_nodup hI.1 hj hgi hji
        have hsl : s ∈ l := List.mem_iff_getElem?.mpr ⟨j, hj⟩
        simp only [dec, hne, if_false]
        exact hI.2 s hsl
      · have hxe : x = l[i] := by rw [hgi] at hx; exact (Option.some.inj hx).symm
        subst hxe
        have hb := hI.2 l[i] (List.getElem_mem hi)
        have hpe : pairOf { l[i] with refCt := l[i].refCt - 1 } = (loc, rem) := by simpa [pairOf] using hpi
        simp only [dec, hpe, if_true]
        rw [hpi] at hb
        show max 1 (l[i].refCt - 1) ≤ n (loc, rem) - 1
        omega

/-- an update that keeps address pair and count keeps the invariant. -/
theorem setAt_inv (n : Pair → Nat) (l : List Sock) (i : Nat) (f : Sock → Sock)
    (hp : ∀ s, pairOf (f s) = pairOf s) (hr : ∀ s, (f s).refCt = s.refCt) (hI : Inv n l) : Inv n (setAt l i f) := by
  refine ⟨pairwise_setAt l i f _ (fun a b h => by rw [hp]; exact h) (fun a b h => by rw [hp]; exact h) hI.1, fun s hs => ?_⟩
  rcases mem_setAt l i f s hs with hs | ⟨x, hx, rfl⟩
  · exact hI.2 s hs
  · rw [hp, hr]; exact hI.2 x hx


theorem none_inv (n : Pair → Nat) (l : List Sock) (loc rem : Addr) (hI : Inv n l)
    (hf : l.findIdx? (fun s => s.loc == loc && s.rem == rem) = none) (m : Nat) :
    Inv (fun q => if q = (loc, rem) then m else n q) l := by
  refine ⟨hI.1, fun s hs => ?_⟩
  have hne : pairOf s ≠ (loc, rem) := by
    have := List.findIdx?_eq_none_iff.mp hf s hs
    intro e
    rw [(matchPair s loc rem).mpr e] at this
    exact Bool.noConfusion this
  simp only [hne, if_false]
  exact hI.2 s hs

/-! ### host level -/

def HInv (n : Pair → Nat) (h : Nat) (w : World) : Prop := Inv n (w.host! h).socks
def KeepsS (h : Nat) (w w' : World) : Prop := (w'.host! h).socks = (w.host! h).socks

theorem KeepsS.refl (h : Nat) (w : World) : KeepsS h w w := rfl
theorem KeepsS.trans {h : Nat} {a b c : World} (h1 : KeepsS h a b) (h2 : KeepsS h b c) : KeepsS h a c :=
  Eq.trans h2 h1
theorem keepsS_of_hosts {h : Nat} {w w' : World} (e : w'.hosts = w.hosts) : KeepsS h w w' := by
  unfold KeepsS host!; rw [e]
theorem keepsS_setHost (h : Nat) (w : World) (f : Host → Host) (hf : ∀ a, (f a).socks = a.socks) :
    KeepsS h w (w.setHost h f) := by
  unfold KeepsS
  rw [host!_setHost]
  split
  · exact hf _
  · rfl
theorem keepsS_tag {h : Nat} {w w' : World} (t : String) (hw : KeepsS h w w') : KeepsS h w (w'.tag t) :=
  hw.trans (keepsS_of_hosts (hosts_tag w' t))
theorem keepsS_netSend (h : Nat) (w : World) (e : Env) : KeepsS h w (w.netSend h e).2 := by
  unfold netSend
  split
  · unfold sendLoopback
    exact keepsS_tag _ (keepsS_setHost h w _ (fun _ => rfl))
  · exact keepsS_of_hosts (hosts_sendMessage w e)

theorem HInv.of_keeps {n : Pair → Nat} {h : Nat} {w w' : World} (hk : KeepsS h w w') (hI : HInv n h w) : HInv n h w' := by
  unfold HInv; rw [hk]; exact hI

theorem len_netSend (h : Nat) (w : World) (e : Env) : (w.netSend h e).2.hosts.length = w.hosts.length :=
  (only_netSend h w e).2

theorem socks_closeStreamHalf (h : Nat) (w : World) (loc rem : Addr) (hh : h < w.hosts.length) :
    ((w.closeStreamHalf h loc rem).host! h).socks = (closeHalfList (w.host! h).socks loc rem).1 := by
  unfold closeStreamHalf
  simp only
  have e : ∀ (w' : World) (c : Nat) (f : Chan → Chan), (w'.setChan c f).host! h = w'.host! h := fun _ _ _ => rfl
  split
  · rw [e, host!_setHost_self _ _ _ hh]
  · rw [host!_setHost_self _ _ _ hh]

theorem hinv_closeStreamHalf (n : Pair → Nat) (h : Nat) (w : World) (loc rem : Addr) (hh : h < w.hosts.length)
    (hI : HInv n h w) : HInv (dec n (loc, rem)) h (w.closeStreamHalf h loc rem) := by
  unfold HInv
  rw [socks_closeStreamHalf h w loc rem hh]
  exact closeHalf_inv n _ loc rem hI

theorem hinv_removeSock (n : Pair → Nat) (h : Nat) (w : World) (loc rem : Addr) (hh : h < w.hosts.length)
    (hI : HInv n h w) (m : Nat) : HInv (fun q => if q = (loc, rem) then m else n q) h (w.removeSock h loc rem) := by
  unfold removeSock findSock
  cases hf : (w.host! h).socks.findIdx? (fun s => s.loc == loc && s.rem == rem) with
  | none => exact none_inv n _ loc rem hI hf m
  | some i =>
    simp only
    unfold HInv
    have e : ∀ (w' : World) (c : Nat) (f : Chan → Chan), (w'.setChan c f).host! h = w'.host! h := fun _ _ _ => rfl
    rw [e, host!_setHost_self _ _ _ hh]
    exact erase_inv n _ loc rem i hI hf m

theorem override_le_dec (n : Pair → Nat) (p : Pair) (l : List Sock)
    (hI : Inv (fun q => if q = p then n p - 1 else n q) l) : Inv (dec n p) l := by
  refine hI.mono (fun s _ => ?_)
  simp only [dec]
  split
  · next e => rw [e]; exact Nat.le_refl _
  · exact Nat.le_refl _

theorem hinv_ite {n : Pair → Nat} {h : Nat} {a b : World} (c : Prop) [Decidable c]
    (ha : HInv n h a) (hb : HInv n h b) : HInv n h (if c then a else b) := by
  split <;> assumption

theorem hinv_dropRead (n : Pair → Nat) (h : Nat) (w : World) (r : RdH) (hh : h < w.hosts.length)
    (hI : HInv n h w) : HInv (dec n (r.loc, r.rem)) h (w.dropRead h r) := by
  unfold dropRead
  simp only
  have h0 : HInv n h (w.setChan r.chan fun c => { c with rxAlive := false }) := hI
  have l0 : h < (w.setChan r.chan fun c => { c with rxAlive := false }).hosts.length := hh
  apply hinv_ite
  · have h1 := h0.of_keeps (keepsS_netSend h _ { src := r.loc, dst := r.rem, msg := .rst })
    have l1 : h < ((w.setChan r.chan fun c => { c with rxAlive := false }).netSend h
        { src := r.loc, dst := r.rem, msg := .rst }).2.hosts.length := by rw [len_netSend]; exact l0
    have h2 := hinv_removeSock n h _ r.loc r.rem l1 h1 (n (r.loc, r.rem) - 1)
    exact HInv.of_keeps (keepsS_tag "rstunread" (KeepsS.refl h _)) (override_le_dec n _ _ h2)
  · exact hinv_closeStreamHalf n h _ r.loc r.rem l0 h0

theorem hinv_dropWrite (n : Pair → Nat) (h : Nat) (w : World) (x : WrH) (hh : h < w.hosts.length)
    (hI : HInv n h w) : HInv (dec n (x.loc, x.rem)) h (w.dropWrite h x) := by
  unfold dropWrite
  have key : ∀ w1 : World, HInv n h w1 → h < w1.hosts.length →
      HInv (dec n (x.loc, x.rem)) h (w1.closeStreamHalf h x.loc x.rem) :=
    fun w1 h1 l1 => hinv_closeStreamHalf n h w1 x.loc x.rem l1 h1
  apply key
  · split
    · split
      · next i _ =>
        have h1 : HInv n h (w.setHost h fun hs => { hs with socks := setAt hs.socks i fun s => { s with nextSendSeq := s.nextSendSeq + 1 } }) := by
          unfold HInv
          rw [host!_setHost_self _ _ _ hh]
          exact setAt_inv n _ i _ (fun _ => rfl) (fun _ => rfl) hI
        exact h1.of_keeps (keepsS_netSend h _ _)
      · exact hI
    · exact hI
  · split
    · split
      · rw [len_netSend]; simpa [setHost] using hh
      · exact hh
    · exact hh


/-! ### the configuration is never written -/

@[simp] theorem cfg_tag (w : World) (t : String) : (w.tag t).cfg = w.cfg := by unfold tag; split <;> rfl
@[simp] theorem cfg_panic (w : World) (t : String) : (w.panic t).cfg = w.cfg := by unfold World.panic; split <;> rfl
@[simp] theorem cfg_setHost (w : World) (h : Nat) (f : Host → Host) : (w.setHost h f).cfg = w.cfg := rfl
@[simp] theorem cfg_setChan (w : World) (c : Nat) (f : Chan → Chan) : (w.setChan c f).cfg = w.cfg := rfl
@[simp] theorem cfg_dropSyn (w : World) (id : Nat) : (w.dropSyn id).cfg = w.cfg := rfl
@[simp] theorem cfg_dropEnvs (w : World) (es : List Env) : (w.dropEnvs es).cfg = w.cfg := by
  unfold dropEnvs
  induction es generalizing w with
  | nil => rfl
  | cons e es ih =>
    simp only [List.foldl_cons]
    rw [ih]
    cases e.msg <;> simp
@[simp] theorem cfg_popFail (w : World) : (w.popFail).2.cfg = w.cfg := by unfold popFail; split <;> rfl
@[simp] theorem cfg_popRepair (w : World) : (w.popRepair).2.cfg = w.cfg := by unfold popRepair; split <;> rfl
@[simp] theorem cfg_popDelay (w : World) : (w.popDelay).2.cfg = w.cfg := by unfold popDelay; split <;> rfl
@[simp] theorem cfg_linkEnqueue (w : World) (li s d : Nat) (e : Env) : (w.linkEnqueue li s d e).cfg = w.cfg := by
  unfold linkEnqueue
  split
  · rfl
  · simp only
    repeat' split
    all_goals simp
@[simp] theorem cfg_sendMessage (w : World) (e : Env) : (w.sendMessage e).2.cfg = w.cfg := by
  unfold sendMessage
  repeat' split
  all_goals simp
@[simp] theorem cfg_netSend (w : World) (h : Nat) (e : Env) : (w.netSend h e).2.cfg = w.cfg := by
  unfold netSend sendLoopback
  split <;> simp
@[simp] theorem cfg_removeSock (w : World) (h : Nat) (loc rem : Addr) : (w.removeSock h loc rem).cfg = w.cfg := by
  unfold removeSock
  split <;> rfl
@[simp] theorem cfg_closeStreamHalf (w : World) (h : Nat) (loc rem : Addr) : (w.closeStreamHalf h loc rem).cfg = w.cfg := by
  unfold closeStreamHalf
  simp only
  split <;> rfl
theorem cfg_ite {w a b : World} (c : Prop) [Decidable c] (ha : a.cfg = w.cfg) (hb : b.cfg = w.cfg) :
    (if c then a else b).cfg = w.cfg := by
  split <;> assumption
@[simp] theorem cfg_dropRead (w : World) (h : Nat) (r : RdH) : (w.dropRead h r).cfg = w.cfg := by
  unfold dropRead
  simp only
  apply cfg_ite <;> simp
@[simp] theorem cfg_dropWrite (w : World) (h : Nat) (x : WrH) : (w.dropWrite h x).cfg = w.cfg := by
  unfold dropWrite
  rw [cfg_closeStreamHalf]
  split
  · split
    · simp
    · rfl
  · rfl
theorem cfg_foldl_dropSyn (l : List SynReq) (w : World) : (l.foldl (fun w s => w.dropSyn s.id) w).cfg = w.cfg := by
  induction l generalizing w with
  | nil => rfl
  | cons x xs ih => simp only [List.foldl_cons]; rw [ih]; rfl
theorem cfg_dropObj (w : World) (h : Nat) (o : Obj) : (w.dropObj h o).cfg = w.cfg := by
  cases o with
  | udp loc stash =>
    unfold dropObj udpUnbind
    simp only [cfg_setHost]
    split
    · rfl
    · rw [cfg_panic]; rfl
  | listener loc =>
    unfold dropObj tcpUnbind
    simp only
    split
    · exact cfg_panic w _
    · rw [cfg_foldl_dropSyn]; rfl
  | connecting id loc rem chan fcW =>
    unfold dropObj
    simp only
    split
    · rw [cfg_removeSock, cfg_tag]; rfl
    · rw [cfg_tag]; rfl
  | stream rd wr =>
    unfold dropObj
    simp only
    cases rd <;> cases wr <;> simp

/-! ### counting the releases the held objects will perform -/

def contrib (fix : Bool) (o : Obj) (p : Pair) : Nat :=
  match o with
  | .connecting _ loc rem _ _ => if fix = true ∧ p = (loc, rem) then 2 else 0
  | .stream rd wr =>
    (match rd with | some r => if p = (r.loc, r.rem) then 1 else 0 | none => 0) +
    (match wr with | some x => if p = (x.loc, x.rem) then 1 else 0 | none => 0)
  | _ => 0

def avail (fix : Bool) (objs : List (Nat × Obj)) (p : Pair) : Nat := (objs.map (fun o => contrib fix o.2 p)).sum

/-- **One destructor**: it performs (at least) the releases counted for it. -/
theorem hinv_dropObj (n : Pair → Nat) (h : Nat) (w : World) (o : Obj) (hh : h < w.hosts.length)
    (hI : HInv (fun q => contrib w.cfg.fixConnectLeak o q + n q) h w) : HInv n h (w.dropObj h o) := by
  cases o with
  | udp loc stash =>
    refine HInv.of_keeps ?_ (by simpa [contrib] using hI)
    unfold dropObj udpUnbind
    simp only
    refine KeepsS.trans ?_ (keepsS_setHost h _ _ (fun _ => rfl))
    split
    · exact keepsS_of_hosts rfl
    · exact keepsS_of_hosts (by rw [hosts_panic]; rfl)
  | listener loc =>
    refine HInv.of_keeps ?_ (by simpa [contrib] using hI)
    unfold dropObj tcpUnbind
    simp only
    split
    · exact keepsS_of_hosts (hosts_panic w _)
    · refine KeepsS.trans ?_ (keepsS_of_hosts (hosts_foldl_dropSyn _ _))
      exact keepsS_setHost h w _ (fun _ => rfl)
  | connecting id loc rem chan fcW =>
    unfold dropObj
    simp only
    have k1 : KeepsS h w (({ w with syns := setAt w.syns id fun c => { c with rxAlive := false } }.setChan chan
        fun c => { c with rxAlive := false }).tag "connectdropped") := keepsS_tag _ (keepsS_of_hosts rfl)
    have c1 : (({ w with syns := setAt w.syns id fun c => { c with rxAlive := false } }.setChan chan
        fun c => { c with rxAlive := false }).tag "connectdropped").cfg = w.cfg := by rw [cfg_tag]; rfl
    have l1 : h < (({ w with syns := setAt w.syns id fun c => { c with rxAlive := false } }.setChan chan
        fun c => { c with rxAlive := false }).tag "connectdropped").hosts.length := by rw [hosts_tag]; exact hh
    rw [c1]
    cases hfix : w.cfg.fixConnectLeak with
    | true =>
      simp only [if_true]
      have h2 := hinv_removeSock _ h _ loc rem l1 (hI.of_keeps k1) 0
      refine Inv.mono h2 (fun s _ => ?_)
      simp only [contrib, hfix]
      split <;> simp_all
    | false =>
      simp only [Bool.false_eq_true, if_false]
      refine HInv.of_keeps k1 ?_
      simpa [contrib, hfix] using hI
  | stream rd wr =>
    unfold dropObj
    simp only
    cases rd with
    | none =>
      cases wr with
      | none => simpa [contrib] using hI
      | some x =>
        have := hinv_dropWrite _ h w x hh hI
        refine Inv.mono this (fun s _ => ?_)
        simp only [dec, contrib]
        split <;> simp_all
    | some r =>
      have h1 := hinv_dropRead _ h w r hh hI
      have l1 : h < (w.dropRead h r).hosts.length := by rw [(only_dropRead h w r).2]; exact hh
      cases wr with
      | none =>
        refine Inv.mono h1 (fun s _ => ?_)
        simp only [dec, contrib]
        split <;> simp_all
      | some x =>
        have h2 := hinv_dropWrite _ h _ x l1 h1
        refine Inv.mono h2 (fun s _ => ?_)
        simp only [dec, contrib]
        repeat' split
        all_goals simp_all
        all_goals omega


theorem cfg_foldl_dropObj (h : Nat) (objs : List (Nat × Obj)) (w : World) :
    (objs.foldl (fun w p => w.dropObj h p.2) w).cfg = w.cfg := by
  induction objs generalizing w with
  | nil => rfl
  | cons x xs ih => simp only [List.foldl_cons]; rw [ih, cfg_dropObj]

/-- **Any number of destructors**: if the table needs no more releases than the objects will
    perform, nothing is left once all of them are dropped. -/
theorem foldl_dropObj_socks (h : Nat) (objs : List (Nat × Obj)) (w : World) (hh : h < w.hosts.length)
    (hI : HInv (avail w.cfg.fixConnectLeak objs) h w) :
    ((objs.foldl (fun w p => w.dropObj h p.2) w).host! h).socks = [] := by
  induction objs generalizing w with
  | nil =>
    simp only [List.foldl_nil]
    cases hs : (w.host! h).socks with
    | nil => rfl
    | cons s rest =>
      have := hI.2 s (by rw [hs]; exact List.mem_cons_self)
      simp [avail] at this
  | cons x xs ih =>
    simp only [List.foldl_cons]
    have hh' : h < (w.dropObj h x.2).hosts.length := by rw [length_dropObj]; exact hh
    apply ih _ hh'
    rw [cfg_dropObj]
    apply hinv_dropObj _ h w x.2 hh
    have e : avail w.cfg.fixConnectLeak (x :: xs) = fun q => contrib w.cfg.fixConnectLeak x.2 q + avail w.cfg.fixConnectLeak xs q := by
      funext q; simp [avail]
    rw [e] at hI
    exact hI

theorem avail_perm (fix : Bool) {a b : List (Nat × Obj)} (hp : a.Perm b) (p : Pair) : avail fix a p = avail fix b p :=
  (hp.map _).sum_nat

/-- Ownership of the stream table: address pairs are unique and every entry needs no more releases
    than the socket objects held by the host's software will perform. -/
def SocksOwned (fix : Bool) (hs : Host) : Prop := Inv (avail fix hs.objs) hs.socks

instance (l : List Sock) : Decidable (PairsNodup l) := by unfold PairsNodup; infer_instance

/-- executable form, evaluated by the correspondence driver on every replayed state. -/
def socksOwnedB (fix : Bool) (hs : Host) : Bool :=
  decide (PairsNodup hs.socks) && hs.socks.all (fun s => decide (max 1 s.refCt ≤ avail fix hs.objs (pairOf s)))

theorem socksOwned_of_B (fix : Bool) (hs : Host) (h : socksOwnedB fix hs = true) : SocksOwned fix hs := by
  unfold socksOwnedB at h
  simp only [Bool.and_eq_true, decide_eq_true_eq, List.all_eq_true] at h
  exact ⟨h.1, fun s hs' => h.2 s hs'⟩

theorem dropAll_releases_socks (h : Nat) (w : World) (hh : h < w.hosts.length)
    (ho : SocksOwned w.cfg.fixConnectLeak (w.host! h)) : ((w.dropAll h).host! h).socks = [] := by
  unfold dropAll
  simp only
  have hl : h < ((w.setHost h fun hs => { hs with objs := [], lo := [] }).dropEnvs (w.host! h).lo).hosts.length := by
    rw [hosts_dropEnvs]; simpa [setHost] using hh
  apply foldl_dropObj_socks h _ _ hl
  have e : ((w.setHost h fun hs => { hs with objs := [], lo := [] }).dropEnvs (w.host! h).lo).host! h =
      { w.host! h with objs := [], lo := [] } := by
    unfold host!
    rw [hosts_dropEnvs]
    exact host!_setHost_self w h _ hh
  unfold HInv
  rw [e, cfg_dropEnvs, cfg_setHost]
  refine Inv.mono ho (fun s _ => ?_)
  rw [avail_perm _ (List.mergeSort_perm _ _)]
  exact Nat.le_refl _

/-- **C04, aggregate release of streams**: crashing a running host leaves its stream-socket table
    empty — whatever mix of full streams, split halves, half-closed streams, streams already reset by
    the peer and pending connects its software holds.  (With the connect-leak repair be4f254; for the
    code before it the hypothesis fails exactly on hosts holding a pending connect — finding F-C12-1.) -/
theorem crash_releases_socks (h : Nat) (w : World) (hh : h < w.hosts.length)
    (hr : (w.host! h).running = true) (ho : SocksOwned w.cfg.fixConnectLeak (w.host! h)) :
    ((w.crash h).host! h).socks = [] := by
  unfold crash
  simp only [hr, if_true]
  have hl : h < (w.dropAll h).hosts.length := by rw [(only_dropAll h w).2]; exact hh
  rw [host!_setHost_self _ _ _ hl]
  exact dropAll_releases_socks h w hh ho

theorem bounce_releases_socks (h : Nat) (w : World) (hh : h < w.hosts.length)
    (ho : SocksOwned w.cfg.fixConnectLeak (w.host! h)) : ((w.bounce h).host! h).socks = [] := by
  unfold bounce
  simp only
  have hl : h < (w.dropAll h).hosts.length := by rw [(only_dropAll h w).2]; exact hh
  rw [host!_setHost_self _ _ _ hl]
  exact dropAll_releases_socks h w hh ho

/-- premises are satisfiable by a non-trivial state: one full stream (count 2, both halves held in
    one object) and one half-closed stream (count 1, only the write half left). -/
example :
    let a : Addr := { ip := .host 0, port := 1 }
    let b : Addr := { ip := .host 1, port := 2 }
    let c : Addr := { ip := .host 1, port := 3 }
    let s1 : Sock := { loc := a, rem := b, chan := 0, fcW := 0 }
    let s2 : Sock := { loc := a, rem := c, chan := 1, fcW := 2, refCt := 1 }
    let o1 : Obj := .stream (some { loc := a, rem := b, chan := 0, fc := 1 }) (some { loc := a, rem := b, fc := 0 })
    let o2 : Obj := .stream none (some { loc := a, rem := c, fc := 2 })
    socksOwnedB true { ipnum := 0, nextEph := 49152, socks := [s1, s2], objs := [(0, o1), (1, o2)] } = true := by decide

end TV.C04
