import TvCore.Props.C05
import TvCore.Props.C04Mcast
/-
  C05 — hosts registered late.

  World-level invariant `Synced`: for every host, registered before the first step or between two
  steps, `start_offset + elapsed = Sim::elapsed` at every step boundary.  So a host's view of
  simulation time and of epoch time at a step boundary is the simulation's own — the registration
  offset is counted exactly once — whatever the order of registrations, steps, crashes and bounces.
-/
namespace TV.C05
open TV TV.World

/-- every host's timer agrees with the simulation clock. -/
def Synced (w : World) : Prop := ∀ hs ∈ w.hosts, hs.startOffset + hs.elapsed = w.elapsed

theorem synced_init (cfg : WCfg) : Synced { cfg := cfg } := by
  intro hs h; simp at h

/-- registering a host (at any simulation time) keeps the clocks in agreement: the new host starts
    with `start_offset = Sim::elapsed` and a zero timer. -/
theorem synced_register (w : World) (ip : Nat) (c : Bool) (h : Synced w) : Synced (w.register ip c) := by
  intro hs hm
  unfold register at hm ⊢
  simp only [List.mem_append, List.mem_singleton] at hm
  rcases hm with hm | hm
  · exact h hs hm
  · subst hm; simp

/-- a step boundary advances the simulation clock and every host timer by the same tick. -/
theorem synced_stepEnd (w : World) (h : Synced w) : Synced w.stepEnd := by
  intro hs hm
  unfold stepEnd at hm ⊢
  simp only [List.mem_map] at hm
  obtain ⟨hs0, hm0, rfl⟩ := hm
  have := h hs0 hm0
  simp only [hostStepEnd]
  omega

theorem mem_setAt_timer {f : Host → Host} (hf : ∀ a, (f a).startOffset = a.startOffset ∧ (f a).elapsed = a.elapsed)
    (l : List Host) (i : Nat) (hs : Host) (hm : hs ∈ setAt l i f) :
    ∃ hs0 ∈ l, hs.startOffset = hs0.startOffset ∧ hs.elapsed = hs0.elapsed := by
  rcases mem_setAt l i f hs hm with h | ⟨x, hx, rfl⟩
  · exact ⟨hs, h, rfl, rfl⟩
  · exact ⟨x, hx, (hf x).1, (hf x).2⟩

/-- crash and bounce do not touch any timer or the simulation clock. -/
theorem synced_setHost (w : World) (i : Nat) (f : Host → Host)
    (hf : ∀ a, (f a).startOffset = a.startOffset ∧ (f a).elapsed = a.elapsed) (h : Synced w) : Synced (w.setHost i f) := by
  intro hs hm
  obtain ⟨hs0, hm0, e1, e2⟩ := mem_setAt_timer hf w.hosts i hs hm
  rw [e1, e2]
  exact h hs0 hm0

/-- any interleaving of registrations and step boundaries. -/
inductive ClockOp | reg (ip : Nat) (client : Bool) | stepEnd

def clockStep (w : World) : ClockOp → World
  | .reg ip c => w.register ip c
  | .stepEnd => w.stepEnd

/-- **C05, late hosts**: for every sequence of registrations and steps, every host — however late
    it joined — satisfies `start_offset + elapsed = Sim::elapsed` at every step boundary; hence
    `sim_elapsed()` and `since_epoch()` of any host equal the simulation's at a window start. -/
theorem synced_run (cfg : WCfg) (ops : List ClockOp) : Synced (ops.foldl clockStep { cfg := cfg }) := by
  have gen : ∀ (ops : List ClockOp) (w : World), Synced w → Synced (ops.foldl clockStep w) := by
    intro ops
    induction ops with
    | nil => intro w h; exact h
    | cons o os ih =>
      intro w h
      simp only [List.foldl_cons]
      apply ih
      cases o with
      | reg ip c => exact synced_register w ip c h
      | stepEnd => exact synced_stepEnd w h
  exact gen ops _ (synced_init cfg)

/-- what host code sees at the start of its window (`hnow = winStart`): the simulation's clock. -/
theorem simNow_at_window_start (w : World) (hs : Host) (h : Synced w) (hm : hs ∈ w.hosts)
    (hw : hs.hnow = hs.winStart) (epoch : Nat) :
    simNow hs = w.elapsed ∧ epochNow epoch hs = epoch + w.elapsed := by
  have := h hs hm
  unfold epochNow simNow elapsedNow
  rw [hw]
  omega

end TV.C05
