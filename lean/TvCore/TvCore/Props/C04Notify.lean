import TvCore.Proofs.C04NotifyLemmas
/-
  C04 — the peers' side of a crash: "peers blocked on connections to it are unblocked with end-of-file, a
  reset or a refusal instead of hanging".

  `Props/C04Own.lean` / `C04Socks.lean` prove that the crashed host's tables are empty afterwards.  This file
  proves that the crash TELLS the peers, and what a peer that has been told gets from its own operations.

  Vocabulary (definitions in `Proofs/C04NotifyLemmas.lean`; `inflight`, `NoFailCoin` are those of C09):
    `Hands w w' N`     at most the envelopes `N` are handed to the network, nothing queued is lost without a failure coin
    `Open w h a b`     an envelope `a → b` sent by host `h` gets queued: loopback, or two different hosts joined by a
                       link whose direction is `healthy` or `hold`
    `dropReadSent`, `dropWriteSent`, `dropObjSent`, `crashSent w h`
                       ghost: the envelopes the destructors pass to `netSend`, in order (tied to the model by
                       `dropRead_unread`, `dropWrite_fin`, `dropObj_hands`, `crash_hands`)
    `Backed w h p i`   the stream-table entry `i` of address pair `p` has at least as many half-close references
                       as the host's socket objects hold halves of `p`, and no pending connect sits on `p`
    `readsChan c o`    object `o` receives on channel `c`

  Sections: 1 `dropWrite_hands_fin` · 2 `dropRead_hands_rst_iff_unread` · 3 `crash_tells_every_peer`,
  `crash_kills_pending_connects`, `crash_refuses_queued_connectors` · 4 `dead_host_resets`,
  `dead_host_refuses_syn` · 5 `peer_eof_after_fin`, `peer_reset_after_rst`, `peer_write_blocked_stays_pending`
  (witness) · 6 `crash_unblocks_peer` · 7 non-vacuity.
-/
namespace TV.C04
open TV TV.World TV.C09

/-! ## 1. `Drop for WriteHalf` -/

/-- **an open write half whose table entry exists hands the network exactly one FIN**, numbered with the
    socket's `next_send_seq`: the destructor is one `netSend` of that envelope (on the world in which the
    sequence number is taken) followed by `close_stream_half`; at most that envelope is new among the queued
    ones (`Hands`); and over an open route without a failure coin the queued envelopes afterwards are exactly
    those from before plus this FIN. -/
theorem dropWrite_hands_fin (w : World) (h : Nat) (x : WrH) (i : Nat) (hs : x.shutdown = false)
    (hf : findSock (w.host! h) x.loc x.rem = some i) :
    w.dropWrite h x =
      ((w.setHost h (C02.bumpSeq i)).netSend h { src := x.loc, dst := x.rem, msg := .fin (C02.sockAt w h i).nextSendSeq }).2.closeStreamHalf
        h x.loc x.rem ∧
    dropWriteSent w h x = [{ src := x.loc, dst := x.rem, msg := .fin (C02.sockAt w h i).nextSendSeq }] ∧
    Hands w (w.dropWrite h x) [{ src := x.loc, dst := x.rem, msg := .fin (C02.sockAt w h i).nextSendSeq }] ∧
    (NoFailCoin w → Open w h x.loc x.rem →
      (inflight (w.dropWrite h x)).Perm
        (inflight w ++ [{ src := x.loc, dst := x.rem, msg := .fin (C02.sockAt w h i).nextSendSeq }])) := by
  have hsent : dropWriteSent w h x = [finEnv x (C02.sockAt w h i).nextSendSeq] := by
    unfold dropWriteSent
    simp only [hs, Bool.false_eq_true, if_false, hf]
  refine ⟨dropWrite_fin w h x i hs hf, hsent, ?_, fun hn ho => dropWrite_exact w h x i hs hf hn ho⟩
  have := dropWrite_hands w h x
  rw [hsent] at this
  exact this

/-- **already shut down** (the FIN went out with `shutdown`) **or no table entry** (the peer reset the
    stream): the destructor sends nothing — links, loopback queues and oracle are untouched. -/
theorem dropWrite_hands_nothing (w : World) (h : Nat) (x : WrH)
    (hno : x.shutdown = true ∨ findSock (w.host! h) x.loc x.rem = none) :
    dropWriteSent w h x = [] ∧ net (w.dropWrite h x) = net w ∧ inflight (w.dropWrite h x) = inflight w := by
  refine ⟨?_, dropWrite_silent w h x hno, inflight_of_net (dropWrite_silent w h x hno)⟩
  unfold dropWriteSent
  rcases hno with hs | hf
  · simp [hs]
  · rw [hf]; split <;> rfl

/-! ## 2. `Drop for ReadHalf` -/

/-- **a read half hands the network exactly one RST iff it has unread data.**
    * unread data: the destructor passes the one envelope `r.loc → r.rem : RST` to `netSend`; at most that
      envelope is new (`Hands`); over an open route without a failure coin it IS queued (exact permutation);
    * nothing unread: nothing is sent — links, loopback queues, oracle untouched;
    * whatever is new among the queued envelopes afterwards is that RST, and then there was unread data;
    * in both cases the receiver of the half's channel is gone afterwards. -/
theorem dropRead_hands_rst_iff_unread (w : World) (h : Nat) (r : RdH) :
    (C02.hasUnread w h r = true →
      dropReadSent w h r = [{ src := r.loc, dst := r.rem, msg := .rst }] ∧
      Hands w (w.dropRead h r) [{ src := r.loc, dst := r.rem, msg := .rst }] ∧
      (NoFailCoin w → Open w h r.loc r.rem →
        (inflight (w.dropRead h r)).Perm (inflight w ++ [{ src := r.loc, dst := r.rem, msg := .rst }]))) ∧
    (C02.hasUnread w h r = false →
      dropReadSent w h r = [] ∧ net (w.dropRead h r) = net w ∧ inflight (w.dropRead h r) = inflight w) ∧
    (∀ e, e ∈ inflight (w.dropRead h r) → e ∉ inflight w →
      e = { src := r.loc, dst := r.rem, msg := .rst } ∧ C02.hasUnread w h r = true) ∧
    (r.chan < w.chans.length → ((w.dropRead h r).chan! r.chan).rxAlive = false) := by
  refine ⟨fun hu => ?_, fun hu => ?_, fun e he hn => ?_, dropRead_rxGone w h r⟩
  · have hsent : dropReadSent w h r = [rstEnv r] := by simp [dropReadSent, hu]
    refine ⟨hsent, ?_, fun hn ho => dropRead_exact w h r hu hn ho⟩
    have := dropRead_hands w h r
    rw [hsent] at this
    exact this
  · exact ⟨by simp [dropReadSent, hu], dropRead_silent w h r hu, inflight_of_net (dropRead_silent w h r hu)⟩
  · have hm := (dropRead_hands w h r).new_mem e he hn
    unfold dropReadSent at hm
    cases hu : C02.hasUnread w h r with
    | false => simp [hu] at hm
    | true =>
      simp only [hu, if_true, List.mem_singleton] at hm
      exact ⟨hm, rfl⟩

/-- … "so a later segment for it asks for a RST": once the read half is gone (nothing was unread, so the
    table entry stays until the write half goes too), the next in-order segment arriving for the socket is
    answered with a RST (`StreamSocket::buffer` finds the receiver closed). -/
theorem dead_reader_resets (w : World) (h : Nat) (r : RdH) (i seq : Nat) (seg : Seg)
    (hwf : C02.SockWf (w.dropRead h r) h i) (hch : (C02.sockAt (w.dropRead h r) h i).chan = r.chan)
    (hc : r.chan < w.chans.length) (hseq : seq = (C02.sockAt (w.dropRead h r) h i).recvSeq + 1) :
    ((w.dropRead h r).sockBuffer h i seq seg).1 = true := by
  have hdead : (C02.chanOf (w.dropRead h r) h i).rxAlive = false := by
    unfold C02.chanOf; rw [hch]; exact dropRead_rxGone w h r hc
  have := (C02.sockBuffer_dead (w.dropRead h r) h i seq seg [] hwf hdead).2.1
  rw [this, hseq]
  simp

/-! ## 3. the crash tells every peer -/

/-- the table entry `i` of address pair `p` on host `h` is backed by the host's socket objects: it has at
    least as many half-close references as the objects hold halves of `p` (`ref_ct` IS that number in the
    crate), and — with the connect-leak repair — no pending connect of the host sits on `p`. -/
structure Backed (w : World) (h : Nat) (p : Pair) (i : Nat) : Prop where
  find : findSock (w.host! h) p.1 p.2 = some i
  refs : avail false (w.host! h).objs p ≤ (C02.sockAt w h i).refCt
  noConn : NoConnAt w.cfg.fixConnectLeak (w.host! h).objs p

/-- from the executable form (evaluable by the replay driver on every state). -/
theorem backed_of_B (w : World) (h s i : Nat) (rd : Option RdH) (x : WrH)
    (hB : writeHalvesBackedB w.cfg.fixConnectLeak (w.host! h) = true)
    (hm : (s, Obj.stream rd (some x)) ∈ (w.host! h).objs) (hf : findSock (w.host! h) x.loc x.rem = some i) :
    Backed w h (x.loc, x.rem) i := by
  unfold writeHalvesBackedB at hB
  have := List.all_eq_true.mp hB _ hm
  simp only [hf, Bool.and_eq_true, decide_eq_true_eq] at this
  exact ⟨hf, this.1, noConn_of_B _ _ _ this.2⟩

/-- the clause of `crash_tells_every_peer` without the backing hypothesis. -/
def TellsUnbacked : Prop :=
  ∀ (w : World) (h s i : Nat) (rd : Option RdH) (x : WrH), h < w.hosts.length → (w.host! h).running = true →
    (s, Obj.stream rd (some x)) ∈ (w.host! h).objs → x.shutdown = false →
    findSock (w.host! h) x.loc x.rem = some i → ∃ e, e ∈ crashSent w h ∧ e.src = x.loc ∧ e.dst = x.rem

/-- a state the crate cannot reach (`ref_ct = 1` although a read half and a write half of the pair are both
    alive, held in two objects): the read half's drop takes the last reference and removes the entry silently,
    the write half then finds no entry and sends no FIN. -/
def exUnbacked : World :=
  let a : Addr := ⟨.host 0, 80⟩
  let b : Addr := ⟨.host 1, 49152⟩
  let o0 : Obj := .stream (some { loc := a, rem := b, chan := 0, fc := 0 }) none
  let o1 : Obj := .stream none (some { loc := a, rem := b, fc := 1 })
  let hs : Host := { ipnum := 1, nextEph := 49152, socks := [{ loc := a, rem := b, chan := 0, fcW := 0, refCt := 1 }], objs := [(0, o0), (1, o1)] }
  { hosts := [hs], chans := [{ cap := 64 }], fcs := [64, 64] }

/-- **the backing hypothesis is needed** (a fact about the model's state space, not about the crate: there
    `ref_ct` is the number of live halves). -/
theorem tells_needs_backing : ¬ TellsUnbacked := by
  intro hk
  obtain ⟨e, he, _⟩ := hk exUnbacked 0 1 0 none { loc := ⟨.host 0, 80⟩, rem := ⟨.host 1, 49152⟩, fc := 1 }
    (by decide) (by decide) (List.mem_iff_getElem?.mpr ⟨1, rfl⟩) rfl (by decide)
  rw [crashSent_sorted exUnbacked 0 (by decide)] at he
  have : crashSentS exUnbacked 0 = [] := by decide
  rw [this] at he
  cases he

theorem inflight_crash (w : World) (h : Nat) (hr : (w.host! h).running = true) :
    inflight (w.crash h) = inflight (w.dropAll h) := by
  unfold crash
  simp only [hr, if_true]
  exact inflight_setHost_lo _ h _ (fun _ => rfl) (fun _ => rfl)

theorem inflight_bounce (w : World) (h : Nat) : inflight (w.bounce h) = inflight (w.dropAll h) := by
  unfold bounce
  exact inflight_setHost_lo _ h _ (fun _ => rfl) (fun _ => rfl)

/-- **the sweep as a whole**: going from the world in which the host's tasks have been taken away
    (`crashStart`: objects gone, loopback deliveries discarded) to the world after the last destructor, at
    most the envelopes `crashSent w h` are handed to the network and — without a failure coin — nothing that
    was queued is lost: later destructors do not retract earlier envelopes. -/
theorem crash_hands (w : World) (h : Nat) : Hands (crashStart w h) (w.dropAll h) (crashSent w h) := by
  rw [dropAll_eq]
  exact foldl_dropObj_hands h _ _

/-- … and every one of them that goes over a route open at the crash instant is queued when `crash` /
    `bounce` return. -/
theorem crash_sent_queued (w : World) (h : Nat) (hr : (w.host! h).running = true) (hn : NoFailCoin w) (e : Env)
    (he : e ∈ crashSent w h) (ho : Open w h e.src e.dst) : e ∈ inflight (w.crash h) ∧ e ∈ inflight (w.bounce h) := by
  rw [inflight_crash w h hr, inflight_bounce]
  exact ⟨dropAll_sent_inflight w h hn e he ho, dropAll_sent_inflight w h hn e he ho⟩

/-- **C04, the crash tells the peer of every open stream.**  Host `h` (running) holds a stream object whose
    write half `x` is open, and the table entry of `x`'s address pair exists and is `Backed`.  Then during
    `crash h` (and `bounce h`) a RST, or the FIN numbered with the entry's `next_send_seq`, from `x.loc` to
    `x.rem` is passed to `netSend` (it is one of `crashSent w h`) — whatever else the host holds, in whatever
    order the destructors run.  What `netSend` does with it is `crash_hands`: it is queued unless
    `send_message` has no route / the link's direction hands it back (partition) / a failure coin empties the
    link; in particular **over a route that is open at the crash instant and without a failure coin it is
    queued — on the link or the loopback queue — when `crash` / `bounce` return.** -/
theorem crash_tells_every_peer (w : World) (h s i : Nat) (rd : Option RdH) (x : WrH) (hh : h < w.hosts.length)
    (hr : (w.host! h).running = true)
    (hobj : (s, Obj.stream rd (some x)) ∈ (w.host! h).objs) (hopen : x.shutdown = false)
    (hb : Backed w h (x.loc, x.rem) i) :
    ∃ e, e ∈ crashSent w h ∧ e.src = x.loc ∧ e.dst = x.rem ∧
      (e.msg = .rst ∨ e.msg = .fin (C02.sockAt w h i).nextSendSeq) ∧
      (NoFailCoin w → Open w h x.loc x.rem → e ∈ inflight (w.crash h) ∧ e ∈ inflight (w.bounce h)) := by
  have hfind : (w.host! h).socks.find? (pmatch (x.loc, x.rem)) = some (C02.sockAt w h i) :=
    C12.find?_of_findIdx? _ _ _ hb.find
  obtain ⟨e, he, h1, h2, h3⟩ := dropAll_told w h hh (x.loc, x.rem) (C02.sockAt w h i) hfind hb.refs hb.noConn
    ⟨s, rd, x, hobj, rfl, hopen⟩
  refine ⟨e, he, h1, h2, h3, fun hn ho => crash_sent_queued w h hr hn e he ?_⟩
  rw [h1, h2]; exact ho

theorem syns_crash (w : World) (h : Nat) (hr : (w.host! h).running = true) : (w.crash h).syns = (w.dropAll h).syns := by
  unfold crash
  simp only [hr, if_true]
  rfl

theorem syns_bounce (w : World) (h : Nat) : (w.bounce h).syns = (w.dropAll h).syns := rfl

/-- **pending connects of the crashed host**: the one-shot cell of every connect the host was waiting on is
    marked "connector gone" — `synAlive` is false — so no listener ever hands that request out
    (`C12.dead_never_accepted`): the listener's side skips it instead of creating a stream to a dead host. -/
theorem crash_kills_pending_connects (w : World) (h s id : Nat) (loc rem : Addr) (c f : Nat)
    (hr : (w.host! h).running = true) (hid : id < w.syns.length)
    (hm : (s, Obj.connecting id loc rem c f) ∈ (w.host! h).objs) :
    (w.crash h).synAlive id = false ∧ (w.bounce h).synAlive id = false ∧
    (∀ h2 p2 r2, (acceptLoop (w.crash h) h2 p2).2 = some r2 → r2.id ≠ id) ∧
    (∀ h2 p2 r2, (acceptLoop (w.bounce h) h2 p2).2 = some r2 → r2.id ≠ id) := by
  have hd := dropAll_conn_dead w h id s loc rem c f hid hm
  have h1 : (w.crash h).synAlive id = false := by unfold synAlive at hd ⊢; rw [syns_crash w h hr]; exact hd
  have h2 : (w.bounce h).synAlive id = false := by unfold synAlive at hd ⊢; rw [syns_bounce]; exact hd
  exact ⟨h1, h2, fun h2' p2 r2 ha => C12.dead_never_accepted _ id h1 h2' p2 r2 ha,
    fun h2' p2 r2 ha => C12.dead_never_accepted _ id h2 h2' p2 r2 ha⟩

/-- **connectors queued at a listener of the crashed host are refused**: every request in the queue of a
    listener object the host held — unless it had already been accepted — has its one-shot dropped when
    `crash` / `bounce` return, so the connector's next poll returns `ConnectionRefused` instead of pending. -/
theorem crash_refuses_queued_connectors (w : World) (h s : Nat) (lloc : Addr) (r : SynReq) (hh : h < w.hosts.length)
    (hr : (w.host! h).running = true) (hm : (s, Obj.listener lloc) ∈ (w.host! h).objs)
    (hq : r ∈ C12.pendingQueue w h lloc.port) (hid : r.id < w.syns.length)
    (hna : (w.syns.getD r.id default).st ≠ .acked) :
    ((w.crash h).syns.getD r.id default).st = .dropped ∧ ((w.bounce h).syns.getD r.id default).st = .dropped ∧
    (∀ c sc a b chan fcW, c ≠ h → w.getObj c sc = some (.connecting r.id a b chan fcW) →
      ((w.crash h).connectPoll c sc).2 = "err refused" ∧ ((w.bounce h).connectPoll c sc).2 = "err refused") := by
  have hd := dropAll_listener_refuses w h s lloc r hh hm hq hid hna
  have h1 : ((w.crash h).syns.getD r.id default).st = .dropped := by rw [syns_crash w h hr]; exact hd
  have h2 : ((w.bounce h).syns.getD r.id default).st = .dropped := by rw [syns_bounce]; exact hd
  refine ⟨h1, h2, fun c sc a b chan fcW hc ho => ⟨?_, ?_⟩⟩
  · refine C12.connect_refused_of_dropped _ c sc r.id a b chan fcW ?_ h1
    rw [C12.getObj_of_host (congrArg Host.objs (C12.host!_of_others (only_crash h w).1 hc)) sc]
    exact ho
  · refine C12.connect_refused_of_dropped _ c sc r.id a b chan fcW ?_ h2
    have hob : Only h w (w.bounce h) := by
      unfold bounce
      exact (only_dropAll h w).trans (only_setHost h _ _)
    rw [C12.getObj_of_host (congrArg Host.objs (C12.host!_of_others hob.1 hc)) sc]
    exact ho

/-! ## 4. talking to the dead host later -/

/-- **after the crash every data / FIN segment for the host is answered with a RST**: the stream table is
    empty (`crash_releases_socks`), so `receive` finds no socket, returns `true` (RST requested) and changes
    nothing but a coverage tag. -/
theorem dead_host_resets (w : World) (h : Nat) (hh : h < w.hosts.length) (hr : (w.host! h).running = true)
    (ho : SocksOwned w.cfg.fixConnectLeak (w.host! h)) (e : Env) (seg : Seg) (hm : C02.segOf e.msg = some seg) :
    (w.crash h).receive h e = (true, (w.crash h).tag "rstnosock") := by
  apply (C02.receive_is_sockBuffer (w.crash h) h e seg hm).2
  unfold findSock
  rw [crash_releases_socks h w hh hr ho]
  rfl

/-- … likewise right after `bounce` (what matured on the links while the host was down meets empty tables). -/
theorem dead_host_resets_bounce (w : World) (h : Nat) (hh : h < w.hosts.length)
    (ho : SocksOwned w.cfg.fixConnectLeak (w.host! h)) (e : Env) (seg : Seg) (hm : C02.segOf e.msg = some seg) :
    (w.bounce h).receive h e = (true, (w.bounce h).tag "rstnosock") := by
  apply (C02.receive_is_sockBuffer (w.bounce h) h e seg hm).2
  unfold findSock
  rw [bounce_releases_socks h w hh ho]
  rfl

/-- **… and every SYN for it is refused**: the listener table is empty (`crash_releases_binds`), so the SYN
    is not queued, nothing else changes, its one-shot is dropped and the connector's next poll returns
    `ConnectionRefused` (`C12.syn_to_unbound_port_refused`). -/
theorem dead_host_refuses_syn (w : World) (h : Nat) (hh : h < w.hosts.length) (hr : (w.host! h).running = true)
    (hb : BindsOwned (w.host! h)) (c sc id : Nat) (a b : Addr) (chan fcW : Nat)
    (hC : (w.crash h).getObj c sc = some (.connecting id a b chan fcW))
    (hid : id < (w.crash h).syns.length) (hpend : ((w.crash h).syns.getD id default).st = .pending) :
    ((w.crash h).receive h { src := a, dst := b, msg := .syn id }).1 = false ∧
    ((w.crash h).receive h { src := a, dst := b, msg := .syn id }).2.hosts = (w.crash h).hosts ∧
    ((w.crash h).receive h { src := a, dst := b, msg := .syn id }).2.links = (w.crash h).links ∧
    (((w.crash h).receive h { src := a, dst := b, msg := .syn id }).2.connectPoll c sc).2 = "err refused" := by
  have hno : C12.listenerFor ((w.crash h).host! h) b = false := by
    unfold C12.listenerFor
    rw [(crash_releases_binds h w hh hr hb).2]
    rfl
  obtain ⟨h1, h2, h3, _, h5, _⟩ := C12.syn_to_unbound_port_refused (w.crash h) h c sc id a b chan fcW hC hid hpend hno
  exact ⟨h1, h2, h3, h5⟩

/-! ## 5. the peer's own operations once it has been told -/

/-- **EOF**: with the FIN at the head of the channel (everything before it has been read) a read or peek
    with a non-empty buffer returns `"ok -"` — end of file (`C02.read_refines` with `seg = .fin`; here without
    the socket-side hypotheses, which the observation does not need). -/
theorem peer_eof_after_fin (w : World) (p s n : Nat) (peek : Bool) (r : RdH) (wr : Option WrH) (rest : List Seg)
    (hobj : w.getObj p s = some (.stream (some r) wr)) (hcl : r.closed = false) (hn : n ≠ 0)
    (hst : r.stash = none) (hit : (w.chan! r.chan).items = .fin :: rest) :
    (w.opTcpRead p s n peek).2 = "ok -" := by
  rw [C02.opTcpRead_fin w p s n peek r wr rest hobj hcl hn hst hit]

/-- **… from the arrival of the FIN**: the peer's socket is drained (nothing parked, channel empty), the
    stream object, socket and channel are `Linked`, the FIN carries the next sequence number (it was numbered
    right after the last data segment, and all of those have arrived and been read).  Then `receive` queues
    it (no RST), and the next read returns EOF. -/
theorem peer_eof_after_fin_arrival (w : World) (p i s n : Nat) (peek : Bool) (loc rem : Addr) (c cap : Nat) (fx : Bool)
    (r : RdH) (wr : Option WrH)
    (hl : C02.Linked w p i s loc rem c cap fx) (hcap : 0 < cap) (hitems : (w.chan! c).items = [])
    (hbuf : (C02.sockAt w p i).buf = [])
    (hobj : w.getObj p s = some (.stream (some r) wr)) (hcl : r.closed = false) (hn : n ≠ 0) (hst : r.stash = none) :
    (w.receive p { src := rem, dst := loc, msg := .fin ((C02.sockAt w p i).recvSeq + 1) }).1 = false ∧
    ((w.receive p { src := rem, dst := loc, msg := .fin ((C02.sockAt w p i).recvSeq + 1) }).2.opTcpRead p s n peek).2 = "ok -" := by
  obtain ⟨h1, _, h3, h4⟩ := fin_arrival w p i s loc rem c cap fx hl hcap hitems hbuf
  refine ⟨h1, ?_⟩
  have hrc : r.chan = c := by
    obtain ⟨r', wr', ho', _, _, hc'⟩ := hl.obj
    rw [hobj] at ho'
    injection ho' with ho'
    injection ho' with e1 _
    injection e1 with e1
    rw [e1]; exact hc'
  exact peer_eof_after_fin _ p s n peek r wr [] (by rw [h4]; exact hobj) hcl hn hst (by rw [hrc]; exact h3)

/-- **reset**: after the peer's `receive` of the RST for the pair — the table entry is removed and the
    sender of its channel is gone — a read on the (empty) channel returns `"err reset"` instead of
    `"pending"`, and a write that holds a flow-control credit returns `"err brokenpipe"`, whether polled or
    tried.  Hypotheses tying object, socket and channel together: the stream object's read half reads the
    socket's channel (`hrc`), the write half carries the socket's address pair, table keys are unique. -/
theorem peer_reset_after_rst (w : World) (p i s : Nat) (loc rem : Addr) (r : RdH) (wr : Option WrH)
    (hp : p < w.hosts.length) (hf : findSock (w.host! p) loc rem = some i) (hu : C12.UniqueKeys (w.host! p).socks)
    (hc : (C02.sockAt w p i).chan < w.chans.length)
    (hobj : w.getObj p s = some (.stream (some r) wr)) (hrc : r.chan = (C02.sockAt w p i).chan) :
    (w.receive p { src := rem, dst := loc, msg := .rst }).1 = false ∧
    (∀ n peek, r.closed = false → n ≠ 0 → r.stash = none → (w.chan! r.chan).items = [] →
      ((w.receive p { src := rem, dst := loc, msg := .rst }).2.opTcpRead p s n peek).2 = "err reset") ∧
    (∀ x payload poll, wr = some x → x.loc = loc → x.rem = rem → x.shutdown = false → hexLen payload ≠ 0 →
      (w.credits x.fc ≠ 0 ∨ w.cfg.fixWriterReset = true) →
      ((w.receive p { src := rem, dst := loc, msg := .rst }).2.opTcpWrite p s payload poll).2 = "err brokenpipe") := by
  obtain ⟨h1, h2, h3, h4, h5, h6⟩ := rst_arrival w p i loc rem hp hf hu hc
  have hcfg : (w.receive p { src := rem, dst := loc, msg := .rst }).2.cfg = w.cfg := by
    have hr : w.receive p { src := rem, dst := loc, msg := .rst } = (false, (w.removeSock p loc rem).tag "rstrecv") := rfl
    rw [hr]; simp
  refine ⟨h1, fun n peek hcl hn hst hit => ?_, fun x payload poll hwr hxl hxr hxs hlen hcr => ?_⟩
  · rw [C02.opTcpRead_empty _ p s n peek r wr (by rw [h5]; exact hobj) hcl hn hst (by rw [h4]; exact hit)]
    rw [hrc, h3]
    rfl
  · subst hwr
    have hobj' : (w.receive p { src := rem, dst := loc, msg := .rst }).2.getObj p s = some (.stream (some r) (some x)) := by
      rw [h5]; exact hobj
    have hf' : findSock ((w.receive p { src := rem, dst := loc, msg := .rst }).2.host! p) x.loc x.rem = none := by
      rw [hxl, hxr]; exact h2
    unfold opTcpWrite
    rw [hobj']
    simp only [hxs, Bool.and_false, Bool.false_eq_true, if_false]
    cases hfx : w.cfg.fixWriterReset with
    | true =>
      rw [(C02.tryWrite_nosend _ p x payload).2.2.2.2 hlen hxs hf' (by rw [hcfg]; exact hfx)]
      cases poll <;> rfl
    | false =>
      have hcr0 : w.credits x.fc ≠ 0 := by
        rcases hcr with e | e
        · exact e
        · rw [hfx] at e; exact absurd e (by simp)
      have hcr' : (w.receive p { src := rem, dst := loc, msg := .rst }).2.credits x.fc ≠ 0 := by
        unfold credits; rw [h6]; exact hcr0
      rw [(C02.tryWrite_nosend _ p x payload).2.2.2.1 hlen hxs hcr' hf' (by rw [hcfg]; exact hfx)]
      cases poll <;> rfl

/-- a polled write without a flow-control credit is `"pending"` — before the repair of F-C04-1 in any world,
    whatever has happened to the socket (`try_write` asked `flow_control.try_acquire()` before it looked the
    socket up); with the repair only while the socket still exists. -/
theorem write_nocredit_pending (w : World) (p s : Nat) (rd : Option RdH) (x : WrH) (payload : Hex)
    (hobj : w.getObj p s = some (.stream rd (some x))) (hxs : x.shutdown = false) (hlen : hexLen payload ≠ 0)
    (hcr : w.credits x.fc = 0)
    (hx : w.cfg.fixWriterReset = false ∨ (findSock (w.host! p) x.loc x.rem).isSome) :
    w.opTcpWrite p s payload true = (w.tag "nocredit", "pending") := by
  unfold opTcpWrite
  rw [hobj]
  simp only [hxs, Bool.and_false, Bool.false_eq_true, if_false]
  rw [(C02.tryWrite_nosend w p x payload).2.2.1 hlen hxs hcr hx]
  rfl

/-- the clause "a peer that has been told is never left pending", for `poll_write`. -/
def ToldWriterUnblocked (fix : Bool) : Prop :=
  ∀ (w : World) (p i s : Nat) (loc rem : Addr) (rd : Option RdH) (x : WrH) (payload : Hex),
    w.cfg.fixWriterReset = fix → p < w.hosts.length → findSock (w.host! p) loc rem = some i → C12.UniqueKeys (w.host! p).socks →
    (C02.sockAt w p i).chan < w.chans.length →
    w.getObj p s = some (.stream rd (some x)) → x.loc = loc → x.rem = rem → x.shutdown = false →
    hexLen payload ≠ 0 →
    ((w.receive p { src := rem, dst := loc, msg := .rst }).2.opTcpWrite p s payload true).2 ≠ "pending"

/-- a world with a one-segment window (`tcp_capacity = 1`): host 0 listens on port 80 and accepts host 1's
    connect; host 1 writes one byte, which is delivered and left unread — host 1 has no credit left. -/
def exTiny : World :=
  let ora : List Ora := [.fail false, .delay 0, .fail false, .delay 0, .fail false, .delay 0, .fail false, .delay 0]
  let w0 : World := (({ cfg := { tcpCap := 1 }, oracle := ora } : World).register 1 false).register 2 true
  let w := (w0.opTcpBind 0 0 ⟨.any, 80⟩).1
  let w := (w.opTcpConnect 1 0 ⟨.host 0, 80⟩).1
  let w := (w.deliverTo 0).2
  let w := (w.opTcpAccept 0 0 1).1
  let w := (w.connectPoll 1 0).1
  let w := (w.opTcpWrite 1 0 "41" true).1
  (w.deliverTo 0).2

/-- **that clause is false in the model — and in the crate** (`WriteHalf::try_write` returns `WouldBlock`
    when `flow_control.try_acquire()` fails, before `seq()` notices that the socket is gone; credits are
    released only by the *reader*, `Drop for ReadHalf` releases none and wakes nobody): a peer blocked in
    `poll_write` because the crashed host had stopped reading (window full) stays `Pending` after the crash's
    RST has reached it.  Host 0 of `exTiny` crashes (RST for the unread byte; `crashS exTiny 0` is
    `exTiny.crash 0`, see section 7), the RST is delivered to host 1, host 1 polls its write again:
    `"pending"`.  (A read by the same peer does return `"err reset"`.) -/
theorem peer_write_blocked_stays_pending : ¬ ToldWriterUnblocked false := by
  intro hk
  have := hk (crashS exTiny 0) 1 0 0 ⟨.host 1, 49152⟩ ⟨.host 0, 80⟩
    (some { loc := ⟨.host 1, 49152⟩, rem := ⟨.host 0, 80⟩, chan := 0, fc := 1 })
    { loc := ⟨.host 1, 49152⟩, rem := ⟨.host 0, 80⟩, fc := 0 } "42" (by decide) (by decide) (by decide)
    (by unfold C12.UniqueKeys; decide) (by decide) rfl (by decide) (by decide) (by decide) (by decide)
  revert this
  decide

/-- **with the repair of F-C04-1 the clause holds**, for every world: once the RST for its pair has been
    received, a write on the stream — polled or tried, with or without flow-control credit — returns
    `"err brokenpipe"`, never `"pending"`. -/
theorem told_writer_unblocked_fixed : ToldWriterUnblocked true := by
  intro w p i s loc rem rd x payload hfx hp hf hu hc hobj hxl hxr hxs hlen
  cases rd with
  | some r =>
    -- the read half's channel plays no part in the write clause: use the general lemma with any `hrc`
    have h := rst_arrival w p i loc rem hp hf hu hc
    obtain ⟨_, h2, _, _, h5, _⟩ := h
    have hcfg : (w.receive p { src := rem, dst := loc, msg := .rst }).2.cfg = w.cfg := by
      have hr : w.receive p { src := rem, dst := loc, msg := .rst } = (false, (w.removeSock p loc rem).tag "rstrecv") := rfl
      rw [hr]; simp
    have hobj' : (w.receive p { src := rem, dst := loc, msg := .rst }).2.getObj p s = some (.stream (some r) (some x)) := by
      rw [h5]; exact hobj
    have hf' : findSock ((w.receive p { src := rem, dst := loc, msg := .rst }).2.host! p) x.loc x.rem = none := by
      rw [hxl, hxr]; exact h2
    unfold opTcpWrite
    rw [hobj']
    simp only [hxs, Bool.and_false, Bool.false_eq_true, if_false]
    rw [(C02.tryWrite_nosend _ p x payload).2.2.2.2 hlen hxs hf' (by rw [hcfg]; exact hfx)]
    show (if (true && ("err brokenpipe" == "err wouldblock")) = true then "pending" else "err brokenpipe") ≠ "pending"
    decide
  | none =>
    have h := rst_arrival w p i loc rem hp hf hu hc
    obtain ⟨_, h2, _, _, h5, _⟩ := h
    have hcfg : (w.receive p { src := rem, dst := loc, msg := .rst }).2.cfg = w.cfg := by
      have hr : w.receive p { src := rem, dst := loc, msg := .rst } = (false, (w.removeSock p loc rem).tag "rstrecv") := rfl
      rw [hr]; simp
    have hobj' : (w.receive p { src := rem, dst := loc, msg := .rst }).2.getObj p s = some (.stream none (some x)) := by
      rw [h5]; exact hobj
    have hf' : findSock ((w.receive p { src := rem, dst := loc, msg := .rst }).2.host! p) x.loc x.rem = none := by
      rw [hxl, hxr]; exact h2
    unfold opTcpWrite
    rw [hobj']
    simp only [hxs, Bool.and_false, Bool.false_eq_true, if_false]
    rw [(C02.tryWrite_nosend _ p x payload).2.2.2.2 hlen hxs hf' (by rw [hcfg]; exact hfx)]
    show (if (true && ("err brokenpipe" == "err wouldblock")) = true then "pending" else "err brokenpipe") ≠ "pending"
    decide

/-! ## 6. the property's clause for an established stream -/

/-- the peer's link between stream object, socket and channel survives the crash of another host that does
    not receive on the peer's channel. -/
theorem linked_crash (w : World) (h p i s : Nat) (loc rem : Addr) (c cap : Nat) (fx : Bool)
    (hr : (w.host! h).running = true) (hne : p ≠ h) (hl : C02.Linked w p i s loc rem c cap fx)
    (hpriv : ∀ o ∈ (w.host! h).objs, ¬ readsChan c o.2) :
    C02.Linked (w.crash h) p i s loc rem c cap fx ∧ (w.crash h).host! p = w.host! p ∧
    (∀ k, ((w.crash h).chan! k).items = (w.chan! k).items) ∧
    (∀ k, (w.chan! k).txAlive = false → ((w.crash h).chan! k).txAlive = false) ∧
    (w.crash h).chans.length = w.chans.length := by
  have hhost : (w.crash h).host! p = w.host! p := C12.host!_of_others (only_crash h w).1 hne
  have hch : (w.crash h).chans = (w.dropAll h).chans := by
    unfold crash; simp only [hr, if_true]; rfl
  have hcfg : (w.crash h).cfg = (w.dropAll h).cfg := by
    unfold crash; simp only [hr, if_true]; rfl
  obtain ⟨hlen, hchs, hc⟩ := dropAll_chans w h
  have hchan : ∀ k, (w.crash h).chan! k = (w.dropAll h).chan! k := by intro k; unfold chan!; rw [hch]
  have hsock : C02.sockAt (w.crash h) p i = C02.sockAt w p i := by unfold C02.sockAt; rw [hhost]
  refine ⟨⟨⟨?_, ?_, ?_⟩, ?_, ?_, ?_, ?_, ?_, ?_⟩, hhost, fun k => by rw [hchan]; exact (hchs k).1,
    fun k hk => by rw [hchan]; exact (hchs k).2.2.2 hk, by rw [hch]; exact hlen⟩
  · rw [(only_crash h w).2]; exact hl.wf.host
  · rw [hhost]; exact hl.wf.sock
  · rw [hsock, hch, hlen]; exact hl.wf.chan
  · rw [hhost]; exact hl.find
  · rw [hsock]; exact hl.chan
  · rw [hchan, (hchs c).2.1]; exact hl.cap
  · rw [hchan, dropAll_rxKeep w h c hpriv]; exact hl.alive
  · rw [hcfg, hc]; exact hl.fx
  · obtain ⟨r, wr, ho, h1, h2, h3⟩ := hl.obj
    exact ⟨r, wr, by rw [C12.getObj_of_host (congrArg Host.objs hhost) s]; exact ho, h1, h2, h3⟩

/-- **C04 for an established stream, in the property's words.**  Host `p` holds an established stream to
    host `h`: its stream object `s`, its table entry `i` of the mirrored pair and the entry's channel are
    `Linked`; `h` holds the other end as a stream object with an open write half whose entry is `Backed`.
    The peer is blocked in a read: everything `h` has sent has arrived and been read (nothing parked, channel
    empty, `h`'s `next_send_seq` is `p`'s `recv_seq + 1`), so its read is `"pending"`.  No failure coin, the
    route `h → p` open.  Then `h` crashes: an envelope `e` for the pair — the RST or the FIN — has been
    handed to the network and is queued; and once `e` is delivered to `p`, the same read returns
    `"err reset"` (RST) or `"ok -"` (FIN) — it is unblocked instead of hanging. -/
theorem crash_unblocks_peer (w : World) (h p sh ih s i n : Nat) (peek : Bool) (rd : Option RdH) (x : WrH)
    (r : RdH) (wr : Option WrH) (c cap : Nat) (fx : Bool)
    (hh : h < w.hosts.length) (hrun : (w.host! h).running = true)
    (hobjh : (sh, Obj.stream rd (some x)) ∈ (w.host! h).objs) (hopen : x.shutdown = false)
    (hb : Backed w h (x.loc, x.rem) ih)
    (hne : p ≠ h) (hl : C02.Linked w p i s x.rem x.loc c cap fx) (hcap : 0 < cap)
    (hu : C12.UniqueKeys (w.host! p).socks)
    (hobj : w.getObj p s = some (.stream (some r) wr)) (hcl : r.closed = false) (hn : n ≠ 0) (hst : r.stash = none)
    (hitems : (w.chan! c).items = []) (hbuf : (C02.sockAt w p i).buf = []) (htx : (w.chan! c).txAlive = true)
    (hsync : (C02.sockAt w h ih).nextSendSeq = (C02.sockAt w p i).recvSeq + 1)
    (hpriv : ∀ o ∈ (w.host! h).objs, ¬ readsChan c o.2)
    (hcoin : NoFailCoin w) (hroute : Open w h x.loc x.rem) :
    (w.opTcpRead p s n peek).2 = "pending" ∧
    ∃ e, e ∈ crashSent w h ∧ e ∈ inflight (w.crash h) ∧ e.src = x.loc ∧ e.dst = x.rem ∧
      ((e.msg = .rst ∧ (((w.crash h).receive p e).2.opTcpRead p s n peek).2 = "err reset") ∨
       (e.msg = .fin (C02.sockAt w h ih).nextSendSeq ∧ (((w.crash h).receive p e).2.opTcpRead p s n peek).2 = "ok -")) := by
  have hrc : r.chan = c := by
    obtain ⟨r', wr', ho', _, _, hc'⟩ := hl.obj
    rw [hobj] at ho'
    injection ho' with ho'
    injection ho' with e1 _
    injection e1 with e1
    rw [e1]; exact hc'
  refine ⟨?_, ?_⟩
  · rw [C02.opTcpRead_empty w p s n peek r wr hobj hcl hn hst (by rw [hrc]; exact hitems), hrc, htx]
    rfl
  · obtain ⟨e, he, h1, h2, h3, h4⟩ := crash_tells_every_peer w h sh ih rd x hh hrun hobjh hopen hb
    obtain ⟨hl', hhost, hit', _, hlen'⟩ := linked_crash w h p i s x.rem x.loc c cap fx hrun hne hl hpriv
    have hsock : C02.sockAt (w.crash h) p i = C02.sockAt w p i := by unfold C02.sockAt; rw [hhost]
    have hobj' : (w.crash h).getObj p s = some (.stream (some r) wr) := by
      rw [C12.getObj_of_host (congrArg Host.objs hhost) s]; exact hobj
    refine ⟨e, he, (h4 hcoin hroute).1, h1, h2, ?_⟩
    obtain ⟨es, ed, em⟩ := e
    simp only at h1 h2 h3
    subst h1 h2
    rcases h3 with h3 | h3
    · left
      subst h3
      refine ⟨rfl, ?_⟩
      have hc' : (C02.sockAt (w.crash h) p i).chan < (w.crash h).chans.length := hl'.wf.chan
      have hu' : C12.UniqueKeys ((w.crash h).host! p).socks := by rw [hhost]; exact hu
      have hrc' : r.chan = (C02.sockAt (w.crash h) p i).chan := by rw [hrc]; exact hl'.chan.symm
      exact (peer_reset_after_rst (w.crash h) p i s x.rem x.loc r wr hl'.wf.host hl'.find hu' hc' hobj' hrc').2.1
        n peek hcl hn hst (by rw [hit', hrc]; exact hitems)
    · right
      subst h3
      refine ⟨rfl, ?_⟩
      have := (peer_eof_after_fin_arrival (w.crash h) p i s n peek x.rem x.loc c cap fx r wr hl' hcap
        (by rw [hit']; exact hitems) (by rw [hsock]; exact hbuf) hobj' hcl hn hst).2
      rw [hsock, ← hsync] at this
      exact this

/-! ## 7. non-vacuity: concrete worlds built with the model's own operations

  `C02.exEst`: host 0 listens on `h0:80` (slot 0) and holds the accepted stream (slot 1, socket 0, channel 1);
  host 1 holds the connecting end (slot 0, socket 0, channel 0); link healthy, latency 0, no failure coin.
  `C02.exData`: host 1 has written two bytes, delivered to host 0 and left unread.
  `C12.exW3`: host 0's connect to the listener of host 1 is queued there, not yet accepted.
  Evaluation uses `crashS` / `crashSentS` (`crash` / `crashSent` with the objects taken in table order:
  `crash_sorted`, `crashSent_sorted` — `mergeSort` itself does not reduce in the kernel). -/

/-- host 0's halves of the stream `h0:80 ⟷ h1:49152`, and host 1's. -/
def exRd0 : RdH := { loc := C02.exLoc, rem := C02.exRem, chan := 1, fc := 0 }
def exWr0 : WrH := { loc := C02.exLoc, rem := C02.exRem, fc := 1, sid := 1 }
def exRd1 : RdH := { loc := C02.exRem, rem := C02.exLoc, chan := 0, fc := 1 }
def exWr1 : WrH := { loc := C02.exRem, rem := C02.exLoc, fc := 0, sid := 0 }

example : C02.exEst.getObj 0 1 = some (.stream (some exRd0) (some exWr0)) ∧
    C02.exEst.getObj 1 0 = some (.stream (some exRd1) (some exWr1)) := ⟨rfl, rfl⟩

theorem exEst_sorted : (C02.exEst.host! 0).objs.Pairwise (fun a b => decide (a.1 ≤ b.1) = true) := by decide
theorem exData_sorted : (C02.exData.host! 0).objs.Pairwise (fun a b => decide (a.1 ≤ b.1) = true) := by decide
example : C02.exEst.crash 0 = crashS C02.exEst 0 ∧ crashSent C02.exEst 0 = crashSentS C02.exEst 0 :=
  ⟨crash_sorted _ _ exEst_sorted, crashSent_sorted _ _ exEst_sorted⟩
example : exTiny.crash 0 = crashS exTiny 0 := crash_sorted _ _ (by decide)

/-- the network hypotheses: no failure coin, the routes `h0 → h1` and `h1 → h0` open. -/
theorem exEst_noFail : NoFailCoin C02.exEst := by unfold NoFailCoin; decide
theorem exEst_open : Open C02.exEst 0 C02.exLoc C02.exRem := open_of_B _ _ _ _ (by decide)
example : Open C02.exEst 1 C02.exRem C02.exLoc ∧ NoFailCoin C02.exData ∧ Open C02.exData 0 C02.exLoc C02.exRem :=
  ⟨open_of_B _ _ _ _ (by decide), by unfold NoFailCoin; decide, open_of_B _ _ _ _ (by decide)⟩

/-- `dropWrite_hands_fin` / `dropWrite_hands_nothing`: an open write half with a table entry — exactly the FIN
    numbered 1 is queued; a shut-down one sends nothing. -/
example : exWr0.shutdown = false ∧ findSock (C02.exEst.host! 0) exWr0.loc exWr0.rem = some 0 ∧
    inflight (C02.exEst.dropWrite 0 exWr0) = [{ src := C02.exLoc, dst := C02.exRem, msg := .fin 1 }] ∧
    inflight (C02.exEst.dropWrite 0 { exWr0 with shutdown := true }) = [] := by decide

/-- `dropRead_hands_rst_iff_unread`: unread data in `exData` (RST queued), none in `exEst` (nothing queued);
    in both the receiver of channel 1 is gone afterwards. -/
example : C02.hasUnread C02.exData 0 exRd0 = true ∧ C02.hasUnread C02.exEst 0 exRd0 = false ∧
    exRd0.chan < C02.exEst.chans.length ∧
    inflight (C02.exData.dropRead 0 exRd0) = [{ src := C02.exLoc, dst := C02.exRem, msg := .rst }] ∧
    inflight (C02.exEst.dropRead 0 exRd0) = [] ∧
    ((C02.exData.dropRead 0 exRd0).chan! 1).rxAlive = false ∧ ((C02.exEst.dropRead 0 exRd0).chan! 1).rxAlive = false := by
  decide

/-- `dead_reader_resets`: after the graceful drop of the read half the socket is still there; segment 1 is
    answered with a RST. -/
example : C02.SockWf (C02.exEst.dropRead 0 exRd0) 0 0 ∧ (C02.sockAt (C02.exEst.dropRead 0 exRd0) 0 0).chan = exRd0.chan ∧
    (C02.sockAt (C02.exEst.dropRead 0 exRd0) 0 0).recvSeq + 1 = 1 ∧
    ((C02.exEst.dropRead 0 exRd0).sockBuffer 0 0 1 (.data "41")).1 = true :=
  ⟨⟨by decide, by decide, by decide⟩, by decide, by decide, by decide⟩

theorem exEst_obj0 : (1, Obj.stream (some exRd0) (some exWr0)) ∈ (C02.exEst.host! 0).objs :=
  List.mem_iff_getElem?.mpr ⟨1, rfl⟩
theorem exData_obj0 : (1, Obj.stream (some exRd0) (some exWr0)) ∈ (C02.exData.host! 0).objs :=
  List.mem_iff_getElem?.mpr ⟨1, rfl⟩

theorem exEst_backed : Backed C02.exEst 0 (exWr0.loc, exWr0.rem) 0 :=
  backed_of_B C02.exEst 0 1 0 (some exRd0) exWr0 (by decide) exEst_obj0 (by decide)
theorem exData_backed : Backed C02.exData 0 (exWr0.loc, exWr0.rem) 0 :=
  ⟨by decide, by decide, noConn_of_B _ _ _ (by decide)⟩

/-- `crash_tells_every_peer`: hypotheses hold for host 0 of `exEst` (nothing unread: the FIN numbered 1) and of
    `exData` (unread data: the RST); what the sweep hands over, and what is queued after the crash. -/
example : 0 < C02.exEst.hosts.length ∧ (C02.exEst.host! 0).running = true ∧ exWr0.shutdown = false ∧
    crashSentS C02.exEst 0 = [{ src := C02.exLoc, dst := C02.exRem, msg := .fin 1 }] ∧
    inflight (crashS C02.exEst 0) = [{ src := C02.exLoc, dst := C02.exRem, msg := .fin 1 }] ∧
    crashSentS C02.exData 0 = [{ src := C02.exLoc, dst := C02.exRem, msg := .rst }] ∧
    inflight (crashS C02.exData 0) = [{ src := C02.exLoc, dst := C02.exRem, msg := .rst }] := by decide

/-- … and with the link partitioned the FIN is handed to `netSend` all the same but is not queued (the link
    hands it back): `Open` is what makes the difference. -/
example : crashSentS (C02.exEst.ctlPartition 0 1) 0 = [{ src := C02.exLoc, dst := C02.exRem, msg := .fin 1 }] ∧
    inflight (crashS (C02.exEst.ctlPartition 0 1) 0) = [] ∧
    openB (C02.exEst.ctlPartition 0 1) 0 C02.exLoc C02.exRem = false := by decide

/-- `crash_kills_pending_connects` (host 0 of `exW3` holds the pending connect, request 0) and
    `crash_refuses_queued_connectors` (host 1 holds the listener with that request queued): hypotheses, and
    the outcomes computed on the model. -/
example : (C12.exW3.host! 0).running = true ∧ 0 < C12.exW3.syns.length ∧
    (0, Obj.connecting 0 ⟨.host 0, 49152⟩ ⟨.host 1, 80⟩ 0 0) ∈ (C12.exW3.host! 0).objs ∧
    (crashS C12.exW3 0).synAlive 0 = false ∧
    ((crashS C12.exW3 0).opTcpAccept 1 0 1).2 = "pending" :=
  ⟨by decide, by decide, List.mem_iff_getElem?.mpr ⟨0, rfl⟩, by decide, by decide⟩

example : 1 < C12.exW3.hosts.length ∧ (C12.exW3.host! 1).running = true ∧
    (0, Obj.listener ⟨.any, 80⟩) ∈ (C12.exW3.host! 1).objs ∧
    (⟨0, ⟨.host 0, 49152⟩⟩ : SynReq) ∈ C12.pendingQueue C12.exW3 1 80 ∧
    (C12.exW3.syns.getD 0 default).st ≠ .acked ∧
    C12.exW3.getObj 0 0 = some (.connecting 0 ⟨.host 0, 49152⟩ ⟨.host 1, 80⟩ 0 0) ∧
    ((crashS C12.exW3 1).connectPoll 0 0).2 = "err refused" :=
  ⟨by decide, by decide, List.mem_iff_getElem?.mpr ⟨0, rfl⟩, by decide, by decide, rfl, by decide⟩

/-- `dead_host_resets` / `dead_host_refuses_syn`: the ownership invariants hold for host 0 of `exEst`; after
    the crash a data segment for it asks for a RST, and its tables are empty. -/
example : socksOwnedB C02.exEst.cfg.fixConnectLeak (C02.exEst.host! 0) = true ∧ bindsOwnedB (C02.exEst.host! 0) = true ∧
    ((crashS C02.exEst 0).receive 0 { src := C02.exRem, dst := C02.exLoc, msg := .data 1 "41" }).1 = true ∧
    ((crashS C02.exEst 0).host! 0).socks.length = 0 ∧ ((crashS C02.exEst 0).host! 0).tcpBinds.length = 0 := by decide

/-- a connect by host 1 to the crashed host 0, delivered to it (as after a bounce): refused. -/
example :
    let w := ({ crashS C02.exEst 0 with oracle := [.fail false, .delay 0] }.opTcpConnect 1 5 ⟨.host 0, 80⟩).1
    w.getObj 1 5 = some (.connecting 1 ⟨.host 1, 49153⟩ ⟨.host 0, 80⟩ 2 4) ∧
    ((w.receive 0 { src := ⟨.host 1, 49153⟩, dst := ⟨.host 0, 80⟩, msg := .syn 1 }).2.connectPoll 1 5).2 = "err refused" :=
  ⟨rfl, by decide⟩

/-- the peer (host 1) after the crash of host 0: its stream object, socket 0 and channel 0 are linked. -/
theorem exCrash_linked : C02.Linked (crashS C02.exEst 0) 1 0 0 C02.exRem C02.exLoc 0 64 false :=
  ⟨⟨by decide, by decide, by decide⟩, by decide, by decide, by decide, by decide, by decide,
   ⟨_, _, rfl, by decide, by decide, by decide⟩⟩

/-- `peer_eof_after_fin(_arrival)`: hypotheses in the world after the crash; the FIN (numbered
    `recv_seq + 1 = 1`) is queued at the peer and its read returns EOF. -/
example : (0 : Nat) < 64 ∧ ((crashS C02.exEst 0).chan! 0).items = [] ∧ (C02.sockAt (crashS C02.exEst 0) 1 0).buf = [] ∧
    (crashS C02.exEst 0).getObj 1 0 = some (.stream (some exRd1) (some exWr1)) ∧ exRd1.closed = false ∧
    exRd1.stash = none ∧ (C02.sockAt (crashS C02.exEst 0) 1 0).recvSeq + 1 = 1 ∧
    (((crashS C02.exEst 0).receive 1 { src := C02.exLoc, dst := C02.exRem, msg := .fin 1 }).2.opTcpRead 1 0 8 false).2 = "ok -" :=
  ⟨by decide, by decide, by decide, rfl, by decide, by decide, by decide, by decide⟩

/-- `peer_reset_after_rst`: hypotheses for host 1 after the crash of host 0 of `exData`; after the RST its
    read returns `err reset`, its write `err brokenpipe`. -/
example : 1 < (crashS C02.exData 0).hosts.length ∧
    findSock ((crashS C02.exData 0).host! 1) C02.exRem C02.exLoc = some 0 ∧
    C12.UniqueKeys ((crashS C02.exData 0).host! 1).socks ∧
    (C02.sockAt (crashS C02.exData 0) 1 0).chan < (crashS C02.exData 0).chans.length ∧
    (crashS C02.exData 0).getObj 1 0 = some (.stream (some exRd1) (some exWr1)) ∧
    exRd1.chan = (C02.sockAt (crashS C02.exData 0) 1 0).chan ∧ (crashS C02.exData 0).credits exWr1.fc ≠ 0 ∧
    (((crashS C02.exData 0).receive 1 { src := C02.exLoc, dst := C02.exRem, msg := .rst }).2.opTcpRead 1 0 8 false).2 = "err reset" ∧
    (((crashS C02.exData 0).receive 1 { src := C02.exLoc, dst := C02.exRem, msg := .rst }).2.opTcpWrite 1 0 "41" true).2 = "err brokenpipe" :=
  ⟨by decide, by decide, by unfold C12.UniqueKeys; decide, by decide, rfl, by decide, by decide, by decide, by decide⟩

/-- `write_nocredit_pending` / `peer_write_blocked_stays_pending`: host 1 of `exTiny` has no credit; its
    polled write is pending before the crash of host 0, and still pending after the crash's RST reached it —
    while its read reports the reset. -/
example : exTiny.credits exWr1.fc = 0 ∧ (exTiny.opTcpWrite 1 0 "42" true).2 = "pending" ∧
    crashSentS exTiny 0 = [{ src := C02.exLoc, dst := C02.exRem, msg := .rst }] ∧
    (((crashS exTiny 0).deliverTo 1).2.opTcpWrite 1 0 "42" true).2 = "pending" ∧
    (((crashS exTiny 0).deliverTo 1).2.opTcpRead 1 0 8 false).2 = "err reset" := by decide

/-- `linked_crash` / `crash_unblocks_peer`: every hypothesis holds for `h = 0`, `p = 1` in `exEst` … -/
example : C02.Linked C02.exEst 1 0 0 exWr0.rem exWr0.loc 0 64 false ∧ (1 : Nat) ≠ 0 ∧
    C12.UniqueKeys (C02.exEst.host! 1).socks ∧ (C02.exEst.chan! 0).items = [] ∧ (C02.sockAt C02.exEst 1 0).buf = [] ∧
    (C02.exEst.chan! 0).txAlive = true ∧
    (C02.sockAt C02.exEst 0 0).nextSendSeq = (C02.sockAt C02.exEst 1 0).recvSeq + 1 ∧
    (∀ o ∈ (C02.exEst.host! 0).objs, ¬ readsChan 0 o.2) :=
  ⟨⟨⟨by decide, by decide, by decide⟩, by decide, by decide, by decide, by decide, by decide,
    ⟨_, _, rfl, by decide, by decide, by decide⟩⟩, by decide, by unfold C12.UniqueKeys; decide, by decide, by decide,
   by decide, by decide, by decide⟩

theorem exEst_linked1 : C02.Linked C02.exEst 1 0 0 exWr0.rem exWr0.loc 0 64 false :=
  ⟨⟨by decide, by decide, by decide⟩, by decide, by decide, by decide, by decide, by decide,
   ⟨_, _, rfl, by decide, by decide, by decide⟩⟩

/-- … so the theorem applies: host 1's read is pending, and the crash of host 0 queues an envelope whose
    delivery turns that read into a reset or EOF. -/
example : (C02.exEst.opTcpRead 1 0 8 false).2 = "pending" ∧
    ∃ e, e ∈ crashSent C02.exEst 0 ∧ e ∈ inflight (C02.exEst.crash 0) ∧ e.src = C02.exLoc ∧ e.dst = C02.exRem ∧
      ((e.msg = .rst ∧ (((C02.exEst.crash 0).receive 1 e).2.opTcpRead 1 0 8 false).2 = "err reset") ∨
       (e.msg = .fin (C02.sockAt C02.exEst 0 0).nextSendSeq ∧
        (((C02.exEst.crash 0).receive 1 e).2.opTcpRead 1 0 8 false).2 = "ok -")) :=
  crash_unblocks_peer C02.exEst 0 1 1 0 0 0 8 false (some exRd0) exWr0 exRd1 (some exWr1) 0 64 false
    (by decide) (by decide) exEst_obj0 rfl exEst_backed (by decide) exEst_linked1 (by decide)
    (by unfold C12.UniqueKeys; decide) rfl (by decide) (by decide) (by decide) (by decide) (by decide) (by decide)
    (by decide) (by decide) exEst_noFail exEst_open

/-- … and end to end through the model's own delivery (`deliverTo`): host 1's read is pending before the
    crash of host 0, EOF after the FIN is delivered (`exEst`), reset after the RST is delivered (`exData`). -/
example : (C02.exEst.opTcpRead 1 0 8 false).2 = "pending" ∧
    (((crashS C02.exEst 0).deliverTo 1).2.opTcpRead 1 0 8 false).2 = "ok -" ∧
    (C02.exData.opTcpRead 1 0 8 false).2 = "pending" ∧
    (((crashS C02.exData 0).deliverTo 1).2.opTcpRead 1 0 8 false).2 = "err reset" := by decide

end TV.C04
