/-
  `Dns` (turmoil/src/dns.rs) and `IpVersionAddrIter::next` (ip.rs): names are handed consecutive
  counter values; the address is a split of the counter into bytes (v4) / 16-bit groups (v6).
-/
namespace TV

/-- v4: `192.168.a.b` with `a = (host >> 8) as u8`, `b = (host & 0xFF) as u8`. -/
def addrV4 (n : Nat) : Nat × Nat := ((n / 256) % 256, n % 256)

/-- v6: `fe80::a:b:c:d` with the four low 16-bit groups of the counter. -/
def addrV6 (n : Nat) : Nat × Nat × Nat × Nat :=
  ((n / 2 ^ 48) % 65536, (n / 2 ^ 32) % 65536, (n / 2 ^ 16) % 65536, n % 65536)

/-- name table: insertion-ordered (IndexMap), counter starts at 1. -/
structure Dns (α : Type) where
  names : List (α × Nat) := []
  next : Nat := 1
  deriving Repr

namespace Dns
variable {α : Type} [DecidableEq α]

/-- `ToIpAddr for &str` on a non-literal name: existing entry or a fresh counter value. -/
def lookup (d : Dns α) (name : α) : Nat × Dns α :=
  match d.names.find? (·.1 == name) with
  | some p => (p.2, d)
  | none => (d.next, { names := d.names ++ [(name, d.next)], next := d.next + 1 })

/-- `Dns::reverse`: first name with that address. -/
def reverse (d : Dns α) (n : Nat) : Option α := (d.names.find? (·.2 == n)).map (·.1)

def run (d : Dns α) (qs : List α) : Dns α := qs.foldl (fun d q => (d.lookup q).2) d

end Dns
end TV
