import TvCore.Model.World
/-
  Host-level API operations (what scripted host code calls) and controller operations
  (what the test calls on the `Sim` handle), each returning the predicted observation string.
-/
namespace TV
namespace World

/-! ### binding -/

/-- `verify_ipv4_bind_interface` / the listener's check: only unspecified or loopback. -/
def bindIpOk (ip : Ip) : Bool := ip.isUnspecified || ip.isLoopback

def opUdpBind (w : World) (h s : Nat) (a : Addr) : World × String :=
  if !bindIpOk a.ip then (w, "err addrnotavailable") else
  let (port?, w) := if a.port == 0 then w.assignPort h else (some a.port, w)
  match port? with
  | none => (w, "panic")
  | some p =>
    if udpPortUsed (w.host! h) p then (w.tag "addrinuse", "err addrinuse") else
    let a' : Addr := { a with port := p }
    let w := w.setHost h (fun hs => { hs with udp := hs.udp ++ [{ port := p, bindAddr := a' }] })
    (w.setObj h s (.udp a' none), s!"ok {p}")

def opTcpBind (w : World) (h s : Nat) (a : Addr) : World × String :=
  if !bindIpOk a.ip then (w, "err addrnotavailable") else
  let (port?, w) := if a.port == 0 then w.assignPort h else (some a.port, w)
  match port? with
  | none => (w, "panic")
  | some p =>
    if (w.host! h).tcpBinds.any (·.port == p) then (w.tag "addrinuse", "err addrinuse") else
    let a' : Addr := { a with port := p }
    let w := w.setHost h (fun hs => { hs with tcpBinds := hs.tcpBinds ++ [{ port := p, bindAddr := a' }] })
    (w.setObj h s (.listener a'), s!"ok {p}")

/-! ### UDP -/

def udpSrc (h : Nat) (loc dst : Addr) : Addr :=
  let src := if dst.ip.isLoopback then { loc with ip := dst.ip } else loc
  if src.ip.isUnspecified then { src with ip := .host h } else src

/-- `try_for_each` over destinations: stops at the first error. -/
def udpFanout (w : World) (h : Nat) (src : Addr) (p : Hex) (loopOk : Addr → Bool) :
    List Addr → World × Bool
  | [] => (w, true)
  | d :: ds =>
    if src.ip == d.ip then
      let w := if loopOk d then w.sendLoopback h { src := src, dst := d, msg := .udp p } else w
      udpFanout w h src p loopOk ds
    else
      let (ok, w) := w.sendMessage { src := src, dst := d, msg := .udp p }
      if ok then udpFanout w h src p loopOk ds else (w, false)

def opUdpSend (w : World) (h s : Nat) (dst : Addr) (p : Hex) : World × String :=
  match w.getObj h s with
  | some (.udp loc _) =>
    let src := udpSrc h loc dst
    let hs := w.host! h
    if dst.ip.isBroadcast then
      let en := match hs.udp.find? (·.port == src.port) with | some b => b.bcast | none => false
      if !en then (w, "err permissiondenied") else
      let dsts := (List.range w.hosts.length).filterMap (fun i =>
        if udpPortUsed (w.host! i) dst.port then some ({ ip := .host i, port := dst.port } : Addr) else none)
      let (w, ok) := udpFanout (w.tag "bcast") h src p (fun _ => true) dsts
      (w, if ok then s!"ok {hexLen p}" else "err refused")
    else if dst.ip.isMulticast then
      let dsts := match w.mgroups.find? (·.1 == dst) with | some g => g.2 | none => []
      let en := fun (d : Addr) => match hs.udp.find? (·.port == d.port) with | some b => b.mloop | none => true
      let (w, ok) := udpFanout (w.tag "mcast") h src p en dsts
      (w, if ok then s!"ok {hexLen p}" else "err refused")
    else
      let (ok, w) := w.netSend h { src := src, dst := dst, msg := .udp p }
      (w, if ok then s!"ok {hexLen p}" else "err refused")
  | _ => (w, "err badslot")

/-- `Rx::try_recv_from` -/
def opUdpTryRecv (w : World) (h s : Nat) (n : Nat) : World × String :=
  match w.getObj h s with
  | some (.udp loc stash) =>
    match stash with
    | some (p, src) => (w.setObj h s (.udp loc none), s!"ok {min n (hexLen p)} {src.toTok} {hexTok (hexTake p n)}")
    | none =>
      match (w.host! h).udp.findIdx? (·.port == loc.port) with
      | none => (w, "err wouldblock")
      | some bi =>
        let b := (w.host! h).udp.getD bi default
        match b.queue with
        | [] => (w, "err wouldblock")
        | (p, src) :: rest =>
          let w := w.setHost h (fun hs => { hs with udp := setAt hs.udp bi (fun b => { b with queue := rest }) })
          (w, s!"ok {min n (hexLen p)} {src.toTok} {hexTok (hexTake p n)}")
  | _ => (w, "err badslot")

/-- `readable()` polled once: moves one datagram into the stash. -/
def opUdpReadable (w : World) (h s : Nat) : World × String :=
  match w.getObj h s with
  | some (.udp loc stash) =>
    if stash.isSome then (w, "ok") else
    match (w.host! h).udp.findIdx? (·.port == loc.port) with
    | none => (w, "pending")
    | some bi =>
      let b := (w.host! h).udp.getD bi default
      match b.queue with
      | [] => (w, "pending")
      | d :: rest =>
        let w := w.setHost h (fun hs => { hs with udp := setAt hs.udp bi (fun b => { b with queue := rest }) })
        (w.setObj h s (.udp loc (some d)), "ok")
  | _ => (w, "err badslot")

/-- `recv_from` polled once = readable + try_recv_from. -/
def opUdpRecv (w : World) (h s : Nat) (n : Nat) : World × String :=
  let (w, r) := w.opUdpReadable h s
  if r == "ok" then w.opUdpTryRecv h s n else (w, r)

def opUdpConnect (w : World) (h s : Nat) (dst : Addr) : World × String :=
  match w.getObj h s with
  | some (.udp loc _) =>
    (w.setHost h (fun hs => { hs with udp := hs.udp.map (fun b => if b.port == loc.port then { b with target := some dst } else b) }), "ok")
  | _ => (w, "err badslot")

def opUdpSetBcast (w : World) (h s : Nat) (on : Bool) : World × String :=
  match w.getObj h s with
  | some (.udp loc _) =>
    (w.setHost h (fun hs => { hs with udp := hs.udp.map (fun b => if b.port == loc.port then { b with bcast := on } else b) }), "ok")
  | _ => (w, "err badslot")

def opUdpSetMloop (w : World) (h s : Nat) (on : Bool) : World × String :=
  match w.getObj h s with
  | some (.udp loc _) =>
    (w.setHost h (fun hs => { hs with udp := hs.udp.map (fun b => if b.port == loc.port then { b with mloop := on } else b) }), "ok")
  | _ => (w, "err badslot")

def opUdpJoin (w : World) (h s : Nat) (g : Ip) (iface : Ip) : World × String :=
  match w.getObj h s with
  | some (.udp loc _) =>
    if !g.isMulticast then (w, "err invalidinput") else
    if !bindIpOk iface then (w, "err addrnotavailable") else
    let m : Addr := { ip := .host h, port := loc.port }
    let key : Addr := { ip := g, port := loc.port }
    let gs := if w.mgroups.any (·.1 == key) then
        w.mgroups.map (fun p => if p.1 == key then (p.1, if p.2.contains m then p.2 else p.2 ++ [m]) else p)
      else w.mgroups ++ [(key, [m])]
    ({ w with mgroups := gs }, "ok")
  | _ => (w, "err badslot")

def opUdpLeave (w : World) (h s : Nat) (g : Ip) (iface : Ip) : World × String :=
  match w.getObj h s with
  | some (.udp loc _) =>
    if !g.isMulticast then (w, "err invalidinput") else
    if !bindIpOk iface then (w, "err addrnotavailable") else
    let m : Addr := { ip := .host h, port := loc.port }
    let key : Addr := { ip := g, port := loc.port }
    match w.mgroups.findIdx? (·.1 == key) with
    | none => (w, "err addrnotavailable")
    | some gi =>
      let ms := (w.mgroups.getD gi default).2
      match ms.findIdx? (· == m) with
      | none => (w, "err addrnotavailable")
      | some mi =>
        let ms' := swapRemoveAt ms mi
        let gs := if ms'.isEmpty then swapRemoveAt w.mgroups gi else setAt w.mgroups gi (fun p => (p.1, ms'))
        ({ w with mgroups := gs }, "ok")
  | _ => (w, "err badslot")

/-! ### TCP -/

/-- State of a pending connect's oneshot as seen by the connector. -/
def connectPoll (w : World) (h s : Nat) : World × String :=
  match w.getObj h s with
  | some (.connecting id loc rem chan fcW) =>
    match (w.syns.getD id default).st with
    | .pending => (w, "pending")
    | .acked =>
      (w.setObj h s (.stream (some { loc := loc, rem := rem, chan := chan, fc := fcW + 1 })
                             (some { loc := loc, rem := rem, fc := fcW, sid := chan })),
       s!"ok {loc.toTok} {rem.toTok}")
    | .dropped =>
      -- the future completes with an error and is dropped
      let w := w.delObj h s
      let w := w.setChan chan (fun c => { c with rxAlive := false })
      let w := if w.cfg.fixConnectLeak then w.removeSock h loc rem else w.tag "connectleak"
      (w.tag "refused", "err refused")
  | _ => (w, "err badslot")

def opTcpConnect (w : World) (h s : Nat) (dst : Addr) : World × String :=
  let (port?, w) := w.assignPort h
  match port? with
  | none => (w, "panic")
  | some p =>
    let loc : Addr := { ip := if dst.ip.isLoopback then dst.ip else .host h, port := p }
    if loc == dst then (w.panic "assert_ne", "panic") else
    let ((chan, fcW), w) := w.newStream h loc dst
    let id := w.syns.length
    let w := { w with syns := w.syns ++ [({} : SynCell)] }
    let e : Env := { src := loc, dst := dst, msg := .syn id }
    let (ok, w) := w.netSend h e
    if !ok then
      -- `?` returns early: the future is gone, the table entry stays
      let w := w.setChan chan (fun c => { c with rxAlive := false })
      let w := if w.cfg.fixConnectLeak then w.removeSock h loc dst else w.tag "connectleak"
      (w.tag "refused", "err refused")
    else
      (w.setObj h s (.connecting id loc dst chan fcW)).connectPoll h s

/-- The listener's scan of its SYN queue: pop requests until one whose connector is still waiting
    (`alive`); dead connectors are skipped (and discarded). -/
def acceptPick (alive : Nat → Bool) : List SynReq → Option SynReq × List SynReq
  | [] => (none, [])
  | r :: rest => if alive r.id then (some r, rest) else acceptPick alive rest

def synAlive (w : World) (id : Nat) : Bool :=
  let cell := w.syns.getD id default
  cell.rxAlive && cell.st == .pending

/-- `TcpListener::accept` polled once. -/
def acceptLoop (w : World) (h : Nat) (port : Nat) : World × Option SynReq :=
  match (w.host! h).tcpBinds.findIdx? (·.port == port) with
  | none => (w.panic "no bind", none)
  | some bi =>
    let b := (w.host! h).tcpBinds.getD bi default
    let (r?, rest) := acceptPick w.synAlive b.deque
    let w := w.setHost h (fun hs => { hs with tcpBinds := setAt hs.tcpBinds bi (fun b => { b with deque := rest }) })
    let skipped := b.deque.length - rest.length - (if r?.isSome then 1 else 0)
    let w := if skipped > 0 then w.tag "skipdead" else w
    match r? with
    | some r => ({ w with syns := setAt w.syns r.id (fun c => { c with st := .acked }) }, some r)
    | none => (w, none)

def opTcpAccept (w : World) (h ls s : Nat) : World × String :=
  match w.getObj h ls with
  | some (.listener lloc) =>
    let (w, r?) := acceptLoop w h lloc.port
    match r? with
    | none => (w, "pending")
    | some r =>
      let origin := r.src
      let my : Addr := if origin.ip.isLoopback then { lloc with ip := origin.ip } else lloc
      let my : Addr := if my.ip.isUnspecified then { my with ip := .host h } else my
      if my == origin then (w.panic "assert_ne", "panic") else
      let ((chan, _), w) := w.newStream h my origin
      let ch := match origin.ip with | .host i => some i | .lo => some h | _ => none
      match ch with
      | none => (w.panic "client host missing", "panic")
      | some ci =>
        match findSock (w.host! ci) origin my with
        | none => (w.panic "missing stream socket", "panic")
        | some i =>
          let cs := (w.host! ci).socks.getD i default
          -- inverted: we write on the client's read control, read on its write control
          (w.setObj h s (.stream (some { loc := my, rem := origin, chan := chan, fc := cs.fcW })
                                 (some { loc := my, rem := origin, fc := cs.fcW + 1, sid := chan })),
           s!"ok {my.toTok} {origin.toTok}")
  | _ => (w, "err badslot")

/-- `WriteHalf::try_write` -/
def tryWrite (w : World) (h : Nat) (x : WrH) (p : Hex) : World × String :=
  if hexLen p == 0 then (w, "ok 0") else
  if x.shutdown then (w, "err brokenpipe") else
  if w.cfg.fixWriterReset && (findSock (w.host! h) x.loc x.rem).isNone then (w, "err brokenpipe") else
  if w.credits x.fc == 0 then (w.tag "nocredit", "err wouldblock") else
  let w := { w with fcs := setAt w.fcs x.fc (· - 1) }
  match findSock (w.host! h) x.loc x.rem with
  | none => (w, "err brokenpipe")
  | some i =>
    let s := (w.host! h).socks.getD i default
    let w := w.setHost h (fun hs => { hs with socks := setAt hs.socks i (fun s => { s with nextSendSeq := s.nextSendSeq + 1 }) })
    let (ok, w) := w.netSend h { src := x.loc, dst := x.rem, msg := .data s.nextSendSeq p }
    (w, if ok then s!"ok {hexLen p}" else "err refused")

def opTcpWrite (w : World) (h s : Nat) (p : Hex) (poll : Bool) : World × String :=
  match w.getObj h s with
  | some (.stream _ (some x)) =>
    if poll && x.shutdown then (w, "err brokenpipe") else
    let (w, r) := w.tryWrite h x p
    (w, if poll && r == "err wouldblock" then "pending" else r)
  | _ => (w, "err badslot")

def opTcpShutdown (w : World) (h s : Nat) : World × String :=
  match w.getObj h s with
  | some (.stream rd (some x)) =>
    if x.shutdown then (w, "err notconnected") else
    match findSock (w.host! h) x.loc x.rem with
    | none => (w, "err brokenpipe")
    | some i =>
      let sk := (w.host! h).socks.getD i default
      let w := w.setHost h (fun hs => { hs with socks := setAt hs.socks i (fun s => { s with nextSendSeq := s.nextSendSeq + 1 }) })
      let (ok, w) := w.netSend h { src := x.loc, dst := x.rem, msg := .fin sk.nextSendSeq }
      if ok then (w.setObj h s (.stream rd (some { x with shutdown := true })), "ok") else (w, "err refused")
  | _ => (w, "err badslot")

/-- The reorder buffer is re-drained only on the next arrival (faithful); the repaired model
    re-drains after a read frees a slot. -/
def redrain (w : World) (h : Nat) (r : RdH) : World :=
  if !w.cfg.fixFinRedrain then w else
  match findSock (w.host! h) r.loc r.rem with
  | none => w
  | some i =>
    let s := (w.host! h).socks.getD i default
    let c := w.chan! s.chan
    let (buf', rs', items', _) := drainBuf c.cap c.rxAlive (s.buf.length + 1) s.buf s.recvSeq c.items
    let w := w.setHost h (fun hs => { hs with socks := setAt hs.socks i (fun s => { s with buf := buf', recvSeq := rs' }) })
    w.setChan s.chan (fun c => { c with items := items' })

/-- `poll_read` / `poll_peek` polled once with a buffer of `n` bytes. -/
def opTcpRead (w : World) (h s : Nat) (n : Nat) (peek : Bool) : World × String :=
  match w.getObj h s with
  | some (.stream (some r) wr) =>
    if r.closed || n == 0 then (w, "ok -") else
    match r.stash with
    | some b =>
      if peek then (w, s!"ok {hexTok (hexTake b n)}") else
      let rest := hexDrop b n
      let r' := { r with stash := if rest.isEmpty then none else some rest }
      (w.setObj h s (.stream (some r') wr), s!"ok {hexTok (hexTake b n)}")
    | none =>
      let c := w.chan! r.chan
      match c.items with
      | seg :: rest =>
        let w := w.setChan r.chan (fun c => { c with items := rest })
        match seg with
        | .data b =>
          let w := { w with fcs := setAt w.fcs r.fc (· + 1) }
          let r' := if peek then { r with stash := some b }
                    else let rs := hexDrop b n; { r with stash := if rs.isEmpty then none else some rs }
          let w := if hexLen b > n then w.tag "partialread" else w
          let w := w.setObj h s (.stream (some r') wr)
          ((w.redrain h r), s!"ok {hexTok (hexTake b n)}")
        | .fin =>
          (((w.setObj h s (.stream (some { r with closed := true }) wr)).tag "eof").redrain h r, "ok -")
      | [] =>
        if !c.txAlive then (w.tag "reset", "err reset") else (w, "pending")
  | _ => (w, "err badslot")

def opDrop (w : World) (h s : Nat) : World × String :=
  match w.getObj h s with
  | some o => ((w.delObj h s).dropObj h o, "ok")
  | none => (w, "err badslot")

def opDropRead (w : World) (h s : Nat) : World × String :=
  match w.getObj h s with
  | some (.stream (some r) wr) =>
    let w := match wr with | some _ => w.setObj h s (.stream none wr) | none => w.delObj h s
    (w.dropRead h r, "ok")
  | _ => (w, "err badslot")

def opDropWrite (w : World) (h s : Nat) : World × String :=
  match w.getObj h s with
  | some (.stream rd (some x)) =>
    let w := match rd with | some _ => w.setObj h s (.stream rd none) | none => w.delObj h s
    (w.dropWrite h x, "ok")
  | _ => (w, "err badslot")

def opCount (w : World) (h : Nat) : World × String :=
  let hs := w.host! h
  (w, s!"ok streams={hs.socks.length} udp={hs.udp.length} tcpb={hs.tcpBinds.length}")

/-! ### controller -/

def forPairs (w : World) (xs ys : List Nat) (f : World → Nat → Nat → World) : World :=
  xs.foldl (fun w x => ys.foldl (fun w y => if x != y then f w x y else w) w) w

def onLink (w : World) (x y : Nat) (f : Link Env → Link Env × List (Sent Env)) : World :=
  let nx := (w.host! x).ipnum
  let ny := (w.host! y).ipnum
  match w.findLink nx ny with
  | none => w.panic "unable to find link"
  | some li =>
    match w.links[li]? with
    | none => w
    | some l =>
      let (l', gone) := f l
      ({ w with links := setAt w.links li (fun _ => l') }).dropEnvs (gone.map (fun (s : Sent Env) => s.msg))

def ctlPartition (w : World) (x y : Nat) : World := w.onLink x y (fun l => l.explicitPartition)
def ctlPartitionOneway (w : World) (x y : Nat) : World :=
  w.onLink x y (fun l => l.partitionOneway (w.host! x).ipnum (w.host! y).ipnum)
def ctlRepair (w : World) (x y : Nat) : World := w.onLink x y (fun l => (l.explicitRepair, []))
def ctlRepairOneway (w : World) (x y : Nat) : World :=
  w.onLink x y (fun l => (l.repairOneway (w.host! x).ipnum (w.host! y).ipnum, []))
def ctlHold (w : World) (x y : Nat) : World := w.onLink x y (fun l => (l.hold, []))
def ctlRelease (w : World) (x y : Nat) : World := w.onLink x y (fun l => (l.release, []))
def ctlDeliver (w : World) (x y : Nat) (i : Nat) : World := w.onLink x y (fun l => (l.manualDeliver i, []))

/-- `LinksIter` view: every link with its in-flight messages. -/
def linksView (w : World) : String :=
  let ipTok := fun (n : Nat) => match w.hostIdxOfIpnum n with | some i => s!"h{i}" | none => "?"
  let ls := w.links.map (fun l =>
    let ms := l.sent.map (fun s => s!"{s.msg.src.toTok}>{s.msg.dst.toTok}/{s.msg.msg.toTok}")
    s!"{ipTok l.a}-{ipTok l.b}[{",".intercalate ms}]")
  " ".intercalate ls

/-- Register a host: links to all existing hosts (created with the topology's current time). -/
def register (w : World) (ipnum : Nat) (isClient : Bool) : World :=
  let newLinks := w.hosts.map (fun h => ({ a := min h.ipnum ipnum, b := max h.ipnum ipnum, now := w.now, fixMatured := w.cfg.link.fixMatured } : Link Env))
  { w with hosts := w.hosts ++ [{ ipnum := ipnum, isClient := isClient, nextEph := w.cfg.ephLo, startOffset := w.elapsed }],
           links := w.links ++ newLinks }

/-- tokio's timer wheel has millisecond granularity: a paused runtime that sleeps `d` from an
    instant on the grid wakes at the next grid instant ≥ the deadline. -/
def ceilMs (d : Nat) : Nat := (d + 999999) / 1000000 * 1000000

/-- Start of `Sim::step`: the topology clock advances and every link matures its messages. -/
def stepBegin (w : World) : World :=
  let now := w.now + ceilMs w.cfg.tick
  { w with now := now, links := w.links.map (fun l => l.tick now) }

/-- A host's turn begins: `timer.now` is the window start; a sleeping script wakes if due.
    `A` = what the runtime's clock advances per step (`ceilMs tick`). -/
def hostTurnBegin (A : Nat) (hs : Host) : Host :=
  let T := hs.winStart
  match hs.wake with
  | none => { hs with hnow := T }
  | some W =>
    if W ≤ T then { hs with hnow := T, wake := none }
    else if W < T + A then { hs with hnow := W, wake := none }
    else { hs with hnow := T }

def turnBegin (w : World) (h : Nat) : World := w.setHost h (hostTurnBegin (ceilMs w.cfg.tick))

/-- `tokio::time::sleep(ms)` inside the scripted task: continues in this window, or suspends. -/
def hostSleep (A : Nat) (hs : Host) (ms : Nat) : Host × Bool :=
  let W := hs.hnow + ms * 1000000
  if W < hs.winStart + A then ({ hs with hnow := W }, true) else ({ hs with wake := some W }, false)

def opSleep (w : World) (h : Nat) (ms : Nat) : World × Bool :=
  let (hs', b) := hostSleep (ceilMs w.cfg.tick) (w.host! h) ms
  (w.setHost h (fun _ => hs'), b)

/-- `HostTimer::elapsed` / `sim_elapsed` / `since_epoch` as host code sees them right now. -/
def elapsedNow (hs : Host) : Nat := hs.elapsed + (hs.hnow - hs.winStart)
def simNow (hs : Host) : Nat := hs.startOffset + elapsedNow hs
def epochNow (epoch : Nat) (hs : Host) : Nat := epoch + simNow hs

def opClock (w : World) (h : Nat) : World × String :=
  let hs := w.host! h
  (w, s!"ok elapsed={elapsedNow hs} sim={simNow hs} epoch={epochNow 1700000000123456789 hs} inst={hs.hnow - hs.t0}")

/-- one host at the end of a step: its timer advances by exactly one tick whether or not it runs;
    a running host's runtime clock has advanced by `A`. -/
def hostStepEnd (tick A : Nat) (hs : Host) : Host :=
  { hs with elapsed := hs.elapsed + tick, winStart := if hs.running then hs.winStart + A else hs.winStart,
            running := hs.running && !hs.exited, exited := false }

/-- End of `Sim::step`: every host's timer and the sim clock advance by one tick; the runtimes of
    running hosts have advanced to the next grid instant. -/
def stepEnd (w : World) : World :=
  { w with hosts := w.hosts.map (hostStepEnd w.cfg.tick (ceilMs w.cfg.tick)),
           elapsed := w.elapsed + w.cfg.tick, cur := none }

def crash (w : World) (h : Nat) : World :=
  let w := if (w.host! h).running then w.dropAll h else w
  w.setHost h (fun hs => { hs with running := false })

def bounce (w : World) (h : Nat) : World :=
  let w := w.dropAll h
  -- a fresh runtime: its clock starts again
  w.setHost h (fun hs => { hs with running := true, exited := false, winStart := 0, hnow := 0, wake := none, t0 := 0 })

end World
end TV
