import TvCore.Model.Types
import TvCore.Model.Link
import TvCore.Model.Ports
import TvCore.Model.Dns
/-
  World model of the `turmoil` crate: hosts (UDP / TCP tables of host.rs), links (top.rs),
  user-held socket objects (net/tcp/*, net/udp.rs) and the step schedule of sim.rs.

  The harness executes scripted host programs in lock-step; every API call is one `HOp` whose
  result string this model predicts.  Random decisions are read from the oracle queue (hook H1).
-/
namespace TV

structure UdpBind where
  port : Nat
  bindAddr : Addr
  target : Option Addr := none
  bcast : Bool := false
  mloop : Bool := true
  queue : List (Hex × Addr) := []
  deriving Repr, Inhabited

structure SynReq where
  id : Nat
  src : Addr
  deriving Repr, Inhabited, DecidableEq

structure TcpBind where
  port : Nat
  bindAddr : Addr
  deque : List SynReq := []
  deriving Repr, Inhabited

/-- `StreamSocket` -/
structure Sock where
  loc : Addr
  rem : Addr
  buf : List (Nat × Seg) := []
  nextSendSeq : Nat := 1
  recvSeq : Nat := 0
  chan : Nat
  fcW : Nat            -- flow control created by `new_stream` (write, read = fcW + 1)
  refCt : Nat := 2
  deriving Repr, Inhabited

structure RdH where
  loc : Addr
  rem : Addr
  chan : Nat
  stash : Option Hex := none
  closed : Bool := false
  fc : Nat
  deriving Repr, Inhabited

structure WrH where
  loc : Addr
  rem : Addr
  shutdown : Bool := false
  fc : Nat
  /-- identity of the stream-table entry the half was created for (repair of F-C02-2, `Model/StreamId.lean`).
      The model uses the entry's channel index as its identity: `new_stream` allocates it fresh and never
      reuses it, like the per-host counter `Tcp::next_stream_id` of the crate.  A read half remembers it as
      `RdH.chan`, a pending connect as the `chan` of `Obj.connecting`.  Only the repaired transition system
      (`applyStepI`) reads it. -/
  sid : Nat := 0
  deriving Repr, Inhabited

inductive Obj
  | udp (loc : Addr) (stash : Option (Hex × Addr))
  | listener (loc : Addr)
  | connecting (synId : Nat) (loc rem : Addr) (chan : Nat) (fcW : Nat)
  | stream (rd : Option RdH) (wr : Option WrH)
  deriving Repr, Inhabited

structure Host where
  ipnum : Nat
  isClient : Bool := false
  running : Bool := true
  udp : List UdpBind := []
  tcpBinds : List TcpBind := []
  socks : List Sock := []
  nextEph : Nat
  elapsed : Nat := 0          -- HostTimer.elapsed
  startOffset : Nat := 0
  objs : List (Nat × Obj) := []
  lo : List Env := []         -- loopback messages in flight (spawned tasks)
  -- the host runtime's tokio clock (ns since the runtime was created; always on the ms grid at a
  -- window start)
  winStart : Nat := 0         -- Instant at the start of the current step window (`timer.now`)
  hnow : Nat := 0             -- Instant "now" of the scripted task
  wake : Option Nat := none   -- the scripted task sleeps until this Instant
  t0 : Nat := 0               -- Instant at which the current software incarnation started
  exited : Bool := false      -- the software returned during this step (the handle is taken at the end of its tick)
  deriving Repr, Inhabited

inductive Ora | fail (b : Bool) | repair | delay (ns : Nat)
  deriving Repr, Inhabited, DecidableEq

structure WCfg where
  tick : Nat := 1000000
  tcpCap : Nat := 64
  udpCap : Nat := 64
  ephLo : Nat := 49152
  ephHi : Nat := 65535
  link : Cfg := {}
  fixConnectLeak : Bool := false
  fixFinRedrain : Bool := false
  /-- repair of F-C04-1: a write on a stream whose socket is gone (reset by the peer) fails at once,
      before the flow-control credit check -/
  fixWriterReset : Bool := false
  /-- repair of F-C02-2 (`Model/StreamId.lean`): every stream-table entry has an identity; the halves of a
      stream (and the guard of a pending connect) remember the identity of the entry they were created for, and
      every table access that comes from a half finds the entry only if the identity matches
      (`Tcp::own_socket`).  The driver runs `applyStepI` instead of `applyStep` when the flag is on. -/
  fixStreamId : Bool := false
  /-- suggested completion of that repair (the patch as written lacks it — `residual_F_C02_2`): a read half
      whose table entry is gone or is not its own sends no RST when it is dropped with unread data. -/
  fixStaleRst : Bool := false
  deriving Repr, Inhabited

structure World where
  cfg : WCfg := {}
  hosts : List Host := []
  links : List (Link Env) := []
  chans : List Chan := []
  fcs : List Nat := []
  syns : List SynCell := []
  mgroups : List (Addr × List Addr) := []
  oracle : List Ora := []
  now : Nat := 0              -- topology clock
  elapsed : Nat := 0          -- Sim::elapsed
  cur : Option Nat := none    -- current host
  dns : Dns String := {}
  v6 : Bool := false
  -- bookkeeping
  oraErr : Bool := false      -- an expected oracle value was missing / of the wrong kind
  panicked : Option String := none
  cov : List String := []
  deriving Repr, Inhabited

namespace World

def tag (w : World) (t : String) : World :=
  if w.cov.contains t then w else { w with cov := t :: w.cov }

def panic (w : World) (msg : String) : World :=
  match w.panicked with
  | some _ => w
  | none => { w with panicked := some msg }

def host! (w : World) (i : Nat) : Host := w.hosts.getD i default

def setHost (w : World) (i : Nat) (f : Host → Host) : World :=
  { w with hosts := setAt w.hosts i f }

def ipnumOf (w : World) : Ip → Option Nat
  | .host i => (w.hosts[i]?).map (·.ipnum)
  | _ => none

def hostIdxOfIpnum (w : World) (n : Nat) : Option Nat :=
  w.hosts.findIdx? (fun h => h.ipnum == n)

/-- numeric address of DNS counter value `n` (192.168.a.b / fe80::…). -/
def ipOfCounter (v6 : Bool) (n : Nat) : Nat :=
  if v6 then
    let (a, b, c, d) := addrV6 n
    0xfe80 * 2 ^ 112 + a * 2 ^ 48 + b * 2 ^ 32 + c * 2 ^ 16 + d
  else
    let (a, b) := addrV4 n
    3232235520 + a * 256 + b

def dnsLookup (w : World) (name : String) : Nat × World :=
  let (n, d) := w.dns.lookup name
  (ipOfCounter w.v6 n, { w with dns := d })

def dnsReverse (w : World) (ip : Nat) : Option String :=
  (w.dns.names.find? (fun p => ipOfCounter w.v6 p.2 == ip)).map (·.1)

/-! ### oracle -/

def popFail (w : World) : Bool × World :=
  match w.oracle with
  | .fail b :: r => (b, { w with oracle := r })
  | _ => (false, { w with oraErr := true })

def popRepair (w : World) : Bool × World :=
  match w.oracle with
  | .repair :: r => (true, { w with oracle := r })
  | _ => (false, w)

def popDelay (w : World) : Nat × World :=
  match w.oracle with
  | .delay d :: r => (d, { w with oracle := r })
  | _ => (0, { w with oraErr := true })

/-! ### SYN / channel bookkeeping -/

def dropSyn (w : World) (id : Nat) : World :=
  { w with syns := setAt w.syns id (fun c => if c.st == .pending then { c with st := .dropped } else c) }

def dropEnvs (w : World) (es : List Env) : World :=
  es.foldl (fun w e => match e.msg with | .syn id => w.dropSyn id | _ => w) w

def chan! (w : World) (c : Nat) : Chan := w.chans.getD c { cap := 0 }

def setChan (w : World) (c : Nat) (f : Chan → Chan) : World := { w with chans := setAt w.chans c f }

def newChan (w : World) (cap : Nat) : Nat × World :=
  (w.chans.length, { w with chans := w.chans ++ [{ cap := cap }] })

def newFcPair (w : World) (cap : Nat) : Nat × World :=
  (w.fcs.length, { w with fcs := w.fcs ++ [cap, cap] })

def credits (w : World) (fc : Nat) : Nat := w.fcs.getD fc 0

/-! ### links -/

def findLink (w : World) (x y : Nat) : Option Nat :=
  let a := min x y
  let b := max x y
  w.links.findIdx? (fun l => l.a == a && l.b == b)

/-- `Link::enqueue_message` on link `li` with oracle values popped as the code draws them. -/
def linkEnqueue (w : World) (li : Nat) (srcN dstN : Nat) (e : Env) : World :=
  match w.links[li]? with
  | none => w
  | some l =>
    let (cf, w) := w.popFail
    let (cr, w) := if l.wantsRepairCoin cf then w.popRepair else (false, w)
    let (l1, gone) := Link.randStep w.cfg.link l cf cr
    let (d, w) := if l1.wantsDelay srcN dstN then w.popDelay else (0, w)
    let (l2, dropped) := l1.enqueueRaw d srcN dstN e
    let l3 := l2.processDeliverables
    let w := { w with links := setAt w.links li (fun _ => l3) }
    let w := if cf || cr then w.tag "coin" else w
    let w := match dropped with | some _ => w.tag "linkdrop" | none => w
    w.dropEnvs ((gone ++ dropped.toList).map (·.msg))

/-- `World::send_message`: `Err(ConnectionRefused)` when no link exists. Returns `true` on Ok. -/
def sendMessage (w : World) (e : Env) : Bool × World :=
  match w.ipnumOf e.src.ip, w.ipnumOf e.dst.ip with
  | some s, some d =>
    if s == d then (false, w.dropEnvs [e]) else
    match w.findLink s d with
    | some li => (true, w.linkEnqueue li s d e)
    | none => (false, w.dropEnvs [e])
  | _, _ => (false, w.dropEnvs [e])

/-- `send_loopback`: a task is spawned that delivers after one tick. -/
def sendLoopback (w : World) (h : Nat) (e : Env) : World :=
  (w.setHost h (fun hs => { hs with lo := hs.lo ++ [e] })).tag "loopback"

/-! ### host tables -/

def udpPortUsed (h : Host) (p : Nat) : Bool := h.udp.any (·.port == p)
def tcpPortUsed (h : Host) (p : Nat) : Bool :=
  h.tcpBinds.any (·.port == p) || h.socks.any (·.loc.port == p)

/-- `Host::assign_ephemeral_port`; `none` = panic. -/
def assignPort (w : World) (h : Nat) : Option Nat × World :=
  let hs := w.host! h
  let (r, cur) := assignEphemeral w.cfg.ephLo w.cfg.ephHi (fun p => udpPortUsed hs p || tcpPortUsed hs p) hs.nextEph
  let w := w.setHost h (fun hs => { hs with nextEph := cur })
  let w := if cur ≤ hs.nextEph then w.tag "wrap" else w
  match r with
  | some p => (some p, w)
  | none => (none, w.panic "ports exhausted")

def findSock (h : Host) (loc rem : Addr) : Option Nat :=
  h.socks.findIdx? (fun s => s.loc == loc && s.rem == rem)

/-- remove a stream socket: its mpsc sender is dropped. -/
def removeSock (w : World) (h : Nat) (loc rem : Addr) : World :=
  match findSock (w.host! h) loc rem with
  | none => w
  | some i =>
    let s := (w.host! h).socks.getD i default
    let w := w.setHost h (fun hs => { hs with socks := hs.socks.eraseIdx i })
    w.setChan s.chan (fun c => { c with txAlive := false })

/-- `Tcp::new_stream` (the duplicate-pair assert is a panic). -/
def newStream (w : World) (h : Nat) (loc rem : Addr) : (Nat × Nat) × World :=
  let w := if (findSock (w.host! h) loc rem).isSome then w.panic "already connected" else w
  let (c, w) := w.newChan w.cfg.tcpCap
  let (f, w) := w.newFcPair w.cfg.tcpCap
  ((c, f), w.setHost h (fun hs => { hs with socks := hs.socks ++ [{ loc := loc, rem := rem, chan := c, fcW := f }] }))

/-- `Tcp::close_stream_half` on the stream table: decrement the half-close count of the entry with
    that address pair and remove it when it reaches zero. Returns the channel whose sender went away. -/
def closeHalfList (socks : List Sock) (loc rem : Addr) : List Sock × Option Nat :=
  match socks.findIdx? (fun s => s.loc == loc && s.rem == rem) with
  | none => (socks, none)
  | some i =>
    let s := socks.getD i default
    if s.refCt ≤ 1 then (socks.eraseIdx i, some s.chan)
    else (setAt socks i (fun s => { s with refCt := s.refCt - 1 }), none)

/-- `Tcp::close_stream_half` -/
def closeStreamHalf (w : World) (h : Nat) (loc rem : Addr) : World :=
  let (socks', gone) := closeHalfList (w.host! h).socks loc rem
  let w := w.setHost h (fun hs => { hs with socks := socks' })
  match gone with
  | some c => w.setChan c (fun ch => { ch with txAlive := false })
  | none => w

/-- `StreamSocket::buffer`'s drain loop: move contiguous segments from the reorder buffer into the
    channel.  Returns `(buf, recvSeq, chanItems, rst?)`. -/
def drainBuf (cap : Nat) (rxAlive : Bool) :
    Nat → List (Nat × Seg) → Nat → List Seg → List (Nat × Seg) × Nat × List Seg × Bool
  | 0, buf, rs, items => (buf, rs, items, false)
  | fuel + 1, buf, rs, items =>
    match buf.find? (fun p => p.1 == rs + 1) with
    | none => (buf, rs, items, false)
    | some (_, seg) =>
      if !rxAlive then (buf, rs + 1, items, true)          -- Closed: RST; note recv_seq stays bumped
      else if items.length ≥ cap then (buf, rs, items, false)   -- Full: undo and stop
      else drainBuf cap rxAlive fuel (buf.filter (fun p => p.1 != rs + 1)) (rs + 1) (items ++ [seg])

/-- `StreamSocket::buffer`. Returns `true` when a RST must be sent back. -/
def sockBuffer (w : World) (h : Nat) (i : Nat) (seq : Nat) (seg : Seg) : Bool × World :=
  let s := (w.host! h).socks.getD i default
  let w := if s.buf.any (fun p => p.1 == seq) then w.panic "duplicate segment" else w
  let buf := s.buf ++ [(seq, seg)]
  let c := w.chan! s.chan
  let (buf', rs', items', rst) := drainBuf c.cap c.rxAlive (buf.length + 1) buf s.recvSeq c.items
  let w := if seq != s.recvSeq + 1 then w.tag "reorder" else w
  let w := if !rst && buf'.any (fun p => p.1 == rs' + 1) then w.tag "chanfull" else w
  let w := w.setHost h (fun hs => { hs with socks := setAt hs.socks i (fun s => { s with buf := buf', recvSeq := rs' }) })
  (rst, w.setChan s.chan (fun c => { c with items := items' }))

/-- connected-peer filter of a UDP socket. -/
def filterOk (b : UdpBind) (src : Addr) : Bool :=
  match b.target with
  | some t => addrMatches t src
  | none => true

/-- `Udp::receive_from_network`: the datagram is queued on the socket bound to the destination
    port, provided its connected-peer filter and its bind address accept it and its queue has room;
    otherwise it is dropped (the tag says why) and nothing changes. -/
def udpReceiveAt (cap : Nat) (hs : Host) (bi : Nat) (b : UdpBind) (src dst : Addr) (p : Hex) : Host × String :=
  if filterOk b src = false then (hs, "udpfilter")
  else if addrMatches b.bindAddr dst = false then (hs, "udpnomatch")
  else if cap ≤ b.queue.length then (hs, "udpfull")
  else ({ hs with udp := setAt hs.udp bi (fun b => { b with queue := b.queue ++ [(p, src)] }) }, "")

def udpReceive (cap : Nat) (hs : Host) (src dst : Addr) (p : Hex) : Host × String :=
  match hs.udp.findIdx? (fun b => b.port == dst.port) with
  | none => (hs, "udpnobind")
  | some bi => udpReceiveAt cap hs bi (hs.udp.getD bi default) src dst p

/-- `Host::receive_from_network`. Returns `true` when the caller must reply with a RST. -/
def receive (w : World) (h : Nat) (e : Env) : Bool × World :=
  let hs := w.host! h
  match e.msg with
  | .syn id =>
    match hs.tcpBinds.findIdx? (fun b => b.port == e.dst.port) with
    | none => (false, (w.dropSyn id).tag "synnobind")
    | some bi =>
      let b := hs.tcpBinds.getD bi default
      let w := if b.deque.length == w.cfg.tcpCap then w.panic "server socket buffer full" else w
      if addrMatches b.bindAddr e.dst then
        (false, w.setHost h (fun hs => { hs with tcpBinds := setAt hs.tcpBinds bi (fun b => { b with deque := b.deque ++ [{ id := id, src := e.src }] }) }))
      else (false, (w.dropSyn id).tag "synnomatch")
  | .data seq p =>
    match findSock hs e.dst e.src with
    | some i => w.sockBuffer h i seq (.data p)
    | none => (true, w.tag "rstnosock")
  | .fin seq =>
    match findSock hs e.dst e.src with
    | some i => w.sockBuffer h i seq .fin
    | none => (true, w.tag "rstnosock")
  | .rst => (false, (w.removeSock h e.dst e.src).tag "rstrecv")
  | .udp p =>
    let (hs', t) := udpReceive w.cfg.udpCap hs e.src e.dst p
    let w := w.setHost h (fun _ => hs')
    (false, if t.isEmpty then w else w.tag t)

/-- Deliver one loopback message on host `h` (the spawned task's body). -/
def loReceive (w : World) (h : Nat) (e : Env) : World :=
  let (rst, w) := w.receive h e
  if rst then (w.receive h { src := e.dst, dst := e.src, msg := .rst }).2 else w

/-- Send from host code: loopback if `is_same`, else through the topology.
    Returns whether the send returned Ok. -/
def netSend (w : World) (h : Nat) (e : Env) : Bool × World :=
  if isSame e.src e.dst then (true, w.sendLoopback h e) else w.sendMessage e

/-- `Topology::deliver_messages` for host `h`; returns the envelopes handed over, in order. -/
def deliverTo (w : World) (h : Nat) : List Env × World :=
  let n := (w.host! h).ipnum
  let idxs := (List.range w.links.length).filter (fun li =>
    match w.links[li]? with | some l => l.a == n || l.b == n | none => false)
  idxs.foldl (fun (acc : List Env × World) li =>
    let (out, w) := acc
    match w.links[li]? with
    | none => (out, w)
    | some l =>
      let (l', msgs) := l.drain n
      let w := { w with links := setAt w.links li (fun _ => l') }
      let w := msgs.foldl (fun w (s : Sent Env) =>
        let e := s.msg
        let (rst, w) := w.receive h e
        if rst then w.linkEnqueue li s.dst s.src { src := e.dst, dst := e.src, msg := .rst } else w) w
      (out ++ msgs.map (·.msg), w)) ([], w)

/-! ### user-held objects -/

def getObj (w : World) (h s : Nat) : Option Obj := ((w.host! h).objs.find? (·.1 == s)).map (·.2)

def setObj (w : World) (h s : Nat) (o : Obj) : World :=
  w.setHost h (fun hs => { hs with objs := (hs.objs.filter (·.1 != s)) ++ [(s, o)] })

def delObj (w : World) (h s : Nat) : World :=
  w.setHost h (fun hs => { hs with objs := hs.objs.filter (·.1 != s) })

/-- multicast `leave_all` + swap-remove semantics -/
def mgLeaveAll (w : World) (m : Addr) : World :=
  let gs := w.mgroups.map (fun (g, ms) =>
    match ms.findIdx? (· == m) with
    | some i => (g, swapRemoveAt ms i)
    | none => (g, ms))
  { w with mgroups := gs.filter (fun p => !p.2.isEmpty) }

def udpUnbind (w : World) (h : Nat) (port : Nat) : World :=
  let w := if (w.host! h).udp.any (·.port == port) then w else w.panic "unknown bind"
  w.setHost h (fun hs => { hs with udp := hs.udp.filter (·.port != port) })

def tcpUnbind (w : World) (h : Nat) (port : Nat) : World :=
  match (w.host! h).tcpBinds.find? (·.port == port) with
  | none => w.panic "unknown bind"
  | some b =>
    let w := w.setHost h (fun hs => { hs with tcpBinds := hs.tcpBinds.filter (·.port != port) })
    b.deque.foldl (fun w s => w.dropSyn s.id) w

/-- `Drop for ReadHalf` -/
def dropRead (w : World) (h : Nat) (r : RdH) : World :=
  let c := w.chan! r.chan
  let sockHasData := match findSock (w.host! h) r.loc r.rem with
    | some i => ((w.host! h).socks.getD i default).buf.any (fun p => p.2.isData)
    | none => false
  let headData := match c.items with | s :: _ => s.isData | [] => false
  let hasUnread := !r.closed && (r.stash.isSome || headData || sockHasData)
  let w := w.setChan r.chan (fun c => { c with rxAlive := false })
  if hasUnread then
    let e : Env := { src := r.loc, dst := r.rem, msg := .rst }
    let (_, w) := w.netSend h e
    (w.removeSock h r.loc r.rem).tag "rstunread"
  else w.closeStreamHalf h r.loc r.rem

/-- `Drop for WriteHalf` -/
def dropWrite (w : World) (h : Nat) (x : WrH) : World :=
  let w :=
    if !x.shutdown then
      match findSock (w.host! h) x.loc x.rem with
      | some i =>
        let s := (w.host! h).socks.getD i default
        let w := w.setHost h (fun hs => { hs with socks := setAt hs.socks i (fun s => { s with nextSendSeq := s.nextSendSeq + 1 }) })
        (w.netSend h { src := x.loc, dst := x.rem, msg := .fin s.nextSendSeq }).2
      | none => w
    else w
  w.closeStreamHalf h x.loc x.rem

def dropObj (w : World) (h : Nat) (o : Obj) : World :=
  match o with
  | .udp loc _ =>
    let m : Addr := { ip := .host h, port := loc.port }
    (w.mgLeaveAll m).udpUnbind h loc.port
  | .listener loc => w.tcpUnbind h loc.port
  | .connecting id loc rem chan _ =>
    let w := { w with syns := setAt w.syns id (fun c => { c with rxAlive := false }) }
    let w := w.setChan chan (fun c => { c with rxAlive := false })
    let w := w.tag "connectdropped"
    if w.cfg.fixConnectLeak then w.removeSock h loc rem else w
  | .stream rd wr =>
    let w := match rd with | some r => w.dropRead h r | none => w
    match wr with | some x => w.dropWrite h x | none => w

/-- All tasks of host `h` are dropped (crash, or the first half of bounce). -/
def dropAll (w : World) (h : Nat) : World :=
  let hs := w.host! h
  let objs := hs.objs.mergeSort (fun a b => a.1 ≤ b.1)
  let w := w.setHost h (fun hs => { hs with objs := [], lo := [] })
  let w := w.dropEnvs hs.lo
  objs.foldl (fun w p => w.dropObj h p.2) w

end World
end TV
