/-
  Shared types of the World model (turmoil crate): addresses, messages, channels.
-/
namespace TV

/-- IP address classes the harness uses. `host i` is the address of the i-th registered host. -/
inductive Ip
  | host (i : Nat) | lo | any | bc | mc (j : Nat) | x (k : Nat)
  deriving DecidableEq, Repr, Inhabited

namespace Ip
def isLoopback : Ip → Bool | .lo => true | _ => false
def isUnspecified : Ip → Bool | .any => true | _ => false
def isBroadcast : Ip → Bool | .bc => true | _ => false
def isMulticast : Ip → Bool | .mc _ => true | _ => false
def toTok : Ip → String
  | .host i => s!"h{i}" | .lo => "lo" | .any => "any" | .bc => "bc" | .mc j => s!"mc{j}" | .x k => s!"x{k}"
end Ip

structure Addr where
  ip : Ip
  port : Nat
  deriving DecidableEq, Repr, Inhabited

def Addr.toTok (a : Addr) : String := s!"{a.ip.toTok}:{a.port}"

/-- `host::matches(bind, dst)` -/
def addrMatches (bind dst : Addr) : Bool :=
  (bind.ip.isUnspecified && bind.port == dst.port) || bind == dst

/-- `host::is_same(src, dst)` -/
def isSame (src dst : Addr) : Bool := dst.ip.isLoopback || src.ip == dst.ip

/-- Payloads are kept as lowercase hex strings (2 chars per byte). -/
abbrev Hex := String

def hexLen (h : Hex) : Nat := h.length / 2
def hexTake (h : Hex) (n : Nat) : Hex := String.ofList (h.toList.take (2 * n))
def hexDrop (h : Hex) (n : Nat) : Hex := String.ofList (h.toList.drop (2 * n))
def hexTok (h : Hex) : String := if h.isEmpty then "-" else h

inductive Msg
  | udp (p : Hex)
  | syn (id : Nat)
  | data (seq : Nat) (p : Hex)
  | fin (seq : Nat)
  | rst
  deriving DecidableEq, Repr, Inhabited

def Msg.toTok : Msg → String
  | .udp p => s!"udp:{hexTok p}"
  | .syn _ => "syn"
  | .data _ p => s!"tcp:{hexTok p}"
  | .fin _ => "fin"
  | .rst => "rst"

structure Env where
  src : Addr
  dst : Addr
  msg : Msg
  deriving DecidableEq, Repr, Inhabited

/-- Segment as delivered to the application (`SequencedSegment`). -/
inductive Seg | data (p : Hex) | fin
  deriving DecidableEq, Repr, Inhabited

def Seg.isData : Seg → Bool | .data _ => true | .fin => false

/-- tokio mpsc channel of a stream socket. -/
structure Chan where
  items : List Seg := []
  cap : Nat
  txAlive : Bool := true
  rxAlive : Bool := true
  deriving Repr, Inhabited

/-- State of a SYN's oneshot. -/
inductive SynSt | pending | acked | dropped
  deriving DecidableEq, Repr, Inhabited

structure SynCell where
  st : SynSt := .pending
  rxAlive : Bool := true
  deriving Repr, Inhabited

/-- List helpers: indexed update. -/
def setAt {α : Type} : List α → Nat → (α → α) → List α
  | [], _, _ => []
  | x :: xs, 0, f => f x :: xs
  | x :: xs, i + 1, f => x :: setAt xs i f

/-- IndexMap / IndexSet `swap_remove` of the element at index `i`. -/
def swapRemoveAt {α : Type} (l : List α) (i : Nat) : List α :=
  if i < l.length then
    match l.getLast? with
    | none => l
    | some last =>
      if i + 1 == l.length then l.dropLast
      else (l.dropLast).mapIdx (fun j x => if j == i then last else x)
  else l

end TV
