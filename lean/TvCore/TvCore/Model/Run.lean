/-
  Model of `Sim::run` / `Sim::step` (sim.rs) and `Rt::tick` (rt.rs) for softwares that finish at a
  given virtual time with a given outcome.
-/
namespace TV.Run

inductive Outcome | ok | err | never | panic
  deriving DecidableEq, Repr, Inhabited

structure Sw where
  client : Bool
  atUs : Nat               -- µs of host time at which the outcome happens
  outcome : Outcome
  spawned : Bool := false  -- the outcome happens in a spawned task
  regStep : Nat := 0       -- steps completed when it was registered
  ticks : Nat := 0         -- ticks its runtime has received since it was (re)started; an aborted step
                           -- (software error of a later host) still ticked the hosts before it
  running : Bool := true   -- handle still present (not finished, not crashed)
  deriving Repr, Inhabited

/-- what the main software future does: a spawned Err is swallowed (main never finishes), a spawned
    panic still panics, a spawned Ok is awaited. -/
def Sw.effective (s : Sw) : Outcome :=
  if s.spawned && s.outcome == .err then .never else s.outcome

/-- local tick (1-based, counted from the start of its runtime) in which the outcome is observed: the step
    whose window contains `at`; an instant on a step boundary belongs to the later step. -/
def Sw.finStep (tick : Nat) (s : Sw) : Nat := s.atUs / tick + 1

inductive StepRes | cont (finished : Bool) | errSoftware | errTimeout | panic
  deriving DecidableEq, Repr, Inhabited

structure Sim where
  tick : Nat
  duration : Nat
  sws : List Sw := []
  steps : Nat := 0        -- completed steps (elapsed = steps * tick)
  fixLateRun : Bool := false  -- repair of F-C11-1: `step` refuses to begin once the duration has elapsed
                              -- and a client is still unfinished
  deriving Repr, Inhabited

/-- tick the running softwares in order; stop at the first error / panic. Returns the updated
    list, whether every running client has finished, and the abort reason. -/
def tickAll (tick k : Nat) : List Sw → List Sw × Bool × Option StepRes
  | [] => ([], true, none)
  | s :: rest =>
    if !s.running then
      let (r, f, a) := tickAll tick k rest
      (s :: r, f, a)
    else if s.finStep tick == s.ticks + 1 && s.effective != .never then
      match s.effective with
      | .ok =>
        let (r, f, a) := tickAll tick k rest
        ({ s with running := false, ticks := s.ticks + 1 } :: r, f, a)
      | .err => ({ s with running := false, ticks := s.ticks + 1 } :: rest, false, some .errSoftware)
      | _ => (s :: rest, false, some .panic)
    else
      let (r, f, a) := tickAll tick k rest
      ({ s with ticks := s.ticks + 1 } :: r, (if s.client then false else f), a)

/-- the rest of `Sim::step` once every running software has been ticked. -/
def stepOf (m : Sim) (sws : List Sw) (fin : Bool) (abort : Option StepRes) : Sim × StepRes :=
  match abort with
  | some r => ({ m with sws := sws }, r)
  | none =>
    if (m.steps + 1) * m.tick > m.duration && !fin then ({ m with sws := sws, steps := m.steps + 1 }, .errTimeout)
    else ({ m with sws := sws, steps := m.steps + 1 }, .cont fin)

/-- the guard the repair of F-C11-1 puts at the very beginning of `Sim::step`:
    `self.elapsed > self.config.duration && self.rts.values().any(|rt| rt.is_client() && rt.is_software_running())`
    (`elapsed = steps * tick`; `is_software_running` = the join handle is still there). -/
def lateGuard (m : Sim) : Bool :=
  m.fixLateRun && decide (m.steps * m.tick > m.duration) && m.sws.any (fun s => s.client && s.running)

/-- `Sim::step`.  With the repair, a step that would begin after the duration has elapsed while a client is
    still unfinished returns the timeout error at once: nothing is ticked, `elapsed` / `steps` do not advance. -/
def step (m : Sim) : Sim × StepRes :=
  if lateGuard m then (m, .errTimeout) else
  let t := tickAll m.tick (m.steps + 1) m.sws
  stepOf m t.1 t.2.1 t.2.2

/-- `Sim::run` with fuel (the loop ends by success, error or timeout; see `C11.run_decides`).  The fuel
    `run` passes is at least 1 and covers every step that can begin within the duration; a step that begins
    beyond it decides at once, with or without the repair (`C11.late_step_decides`), so the repair needs no
    more fuel — the guarded step consumes one unit and returns. -/
def runLoop : Nat → Sim → Sim × StepRes
  | 0, m => (m, .cont false)
  | fuel + 1, m =>
    let (m', r) := step m
    match r with
    | .cont false => runLoop fuel m'
    | _ => (m', r)

def run (m : Sim) : Sim × StepRes :=
  if !m.sws.any (·.client) then (m, .cont true)
  else runLoop (m.duration / m.tick + 2 - m.steps + 1) m

def crash (m : Sim) (i : Nat) : Sim :=
  { m with sws := m.sws.mapIdx (fun j s => if j == i then { s with running := false } else s) }

/-- `Sim::bounce`: the host's software is started afresh on a new runtime. -/
def bounce (m : Sim) (i : Nat) : Sim :=
  { m with sws := m.sws.mapIdx (fun j s => if j == i then { s with running := true, regStep := m.steps, ticks := 0 } else s) }

def register (m : Sim) (s : Sw) : Sim := { m with sws := m.sws ++ [{ s with regStep := m.steps, ticks := 0 }] }

end TV.Run
