import TvCore.Model.Step
/-
  The repair of F-C02-2 ("stream halves are tied to their connection by the address pair only"): the
  transition system with stream identities.

  Crate (patch F-C02-2-stream-identity): every `StreamSocket` gets an `id` from a per-host counter in
  `Tcp::new_stream`; `ReadHalf`, `WriteHalf` and the `HalfOpen` guard of a pending connect remember the id of
  the entry they were created for; every table access that comes FROM a half — `assign_send_seq`,
  `has_stream`, `has_buffered_data`, `redrain`, `reset_stream`, `close_stream_half` — goes through
  `own_socket(pair, id)`, which finds the entry only if its id matches.  Accesses from the network side
  (`receive_from_network`, `flow_control(pair)` at accept) are by pair, unchanged.

  Model: the identity of a table entry is its channel index (`Sock.chan`; `newStream` allocates it fresh and
  never reuses it).  `RdH.chan`, `WrH.sid` and the `chan` of `Obj.connecting` remember it.  `halfHost` is
  `own_socket`: the host index under which a half looks its entry up — its own host, or, when the pair is held
  by an entry with another identity, an index that is no host, where every lookup finds nothing and every table
  update is a no-op: a stale half behaves exactly as a half whose pair is not in the table.

  Every function below is the function of the same name without the `I` in `Model/World.lean` /
  `Model/Ops.lean` / `Model/Step.lean` with the half's table accesses routed through `halfHost`; functions that
  are not repeated here are unchanged.  The driver runs `applyStepI` / `applyHOpI` when `cfg.fixStreamId` is on.
-/
namespace TV
namespace World

/-- `Tcp::own_socket`, as a host index. -/
def halfHost (w : World) (h : Nat) (loc rem : Addr) (sid : Nat) : Nat :=
  if w.cfg.fixStreamId then
    match findSock (w.host! h) loc rem with
    | some i => if ((w.host! h).socks.getD i default).chan == sid then h else w.hosts.length
    | none => h
  else h

/-- `Drop for ReadHalf` -/
def dropReadI (w : World) (h : Nat) (r : RdH) : World :=
  let c := w.chan! r.chan
  let hh := w.halfHost h r.loc r.rem r.chan
  let own := (findSock (w.host! hh) r.loc r.rem).isSome
  let sockHasData := match findSock (w.host! hh) r.loc r.rem with
    | some i => ((w.host! hh).socks.getD i default).buf.any (fun p => p.2.isData)
    | none => false
  let headData := match c.items with | s :: _ => s.isData | [] => false
  let hasUnread := !r.closed && (r.stash.isSome || headData || sockHasData)
  let w := w.setChan r.chan (fun c => { c with rxAlive := false })
  if hasUnread && !(w.cfg.fixStaleRst && !own) then
    let e : Env := { src := r.loc, dst := r.rem, msg := .rst }
    let (_, w) := w.netSend h e
    (w.removeSock (w.halfHost h r.loc r.rem r.chan) r.loc r.rem).tag "rstunread"
  else w.closeStreamHalf (w.halfHost h r.loc r.rem r.chan) r.loc r.rem

/-- `Drop for WriteHalf` -/
def dropWriteI (w : World) (h : Nat) (x : WrH) : World :=
  let hh := w.halfHost h x.loc x.rem x.sid
  let w :=
    if !x.shutdown then
      match findSock (w.host! hh) x.loc x.rem with
      | some i =>
        let s := (w.host! h).socks.getD i default
        let w := w.setHost h (fun hs => { hs with socks := setAt hs.socks i (fun s => { s with nextSendSeq := s.nextSendSeq + 1 }) })
        (w.netSend h { src := x.loc, dst := x.rem, msg := .fin s.nextSendSeq }).2
      | none => w
    else w
  w.closeStreamHalf (w.halfHost h x.loc x.rem x.sid) x.loc x.rem

def dropObjI (w : World) (h : Nat) (o : Obj) : World :=
  match o with
  | .connecting id loc rem chan _ =>
    let w := { w with syns := setAt w.syns id (fun c => { c with rxAlive := false }) }
    let w := w.setChan chan (fun c => { c with rxAlive := false })
    let w := w.tag "connectdropped"
    if w.cfg.fixConnectLeak then w.removeSock (w.halfHost h loc rem chan) loc rem else w
  | .stream rd wr =>
    let w := match rd with | some r => w.dropReadI h r | none => w
    match wr with | some x => w.dropWriteI h x | none => w
  | o => w.dropObj h o

def dropAllI (w : World) (h : Nat) : World :=
  let hs := w.host! h
  let objs := hs.objs.mergeSort (fun a b => a.1 ≤ b.1)
  let w := w.setHost h (fun hs => { hs with objs := [], lo := [] })
  let w := w.dropEnvs hs.lo
  objs.foldl (fun w p => w.dropObjI h p.2) w

def connectPollI (w : World) (h s : Nat) : World × String :=
  match w.getObj h s with
  | some (.connecting id loc rem chan fcW) =>
    match (w.syns.getD id default).st with
    | .pending => (w, "pending")
    | .acked =>
      (w.setObj h s (.stream (some { loc := loc, rem := rem, chan := chan, fc := fcW + 1 })
                             (some { loc := loc, rem := rem, fc := fcW, sid := chan })),
       s!"ok {loc.toTok} {rem.toTok}")
    | .dropped =>
      let w := w.delObj h s
      let w := w.setChan chan (fun c => { c with rxAlive := false })
      let w := if w.cfg.fixConnectLeak then w.removeSock (w.halfHost h loc rem chan) loc rem else w.tag "connectleak"
      (w.tag "refused", "err refused")
  | _ => (w, "err badslot")

/-- `WriteHalf::try_write` -/
def tryWriteI (w : World) (h : Nat) (x : WrH) (p : Hex) : World × String :=
  if hexLen p == 0 then (w, "ok 0") else
  if x.shutdown then (w, "err brokenpipe") else
  if w.cfg.fixWriterReset && (findSock (w.host! (w.halfHost h x.loc x.rem x.sid)) x.loc x.rem).isNone then (w, "err brokenpipe") else
  if w.credits x.fc == 0 then (w.tag "nocredit", "err wouldblock") else
  let w := { w with fcs := setAt w.fcs x.fc (· - 1) }
  match findSock (w.host! (w.halfHost h x.loc x.rem x.sid)) x.loc x.rem with
  | none => (w, "err brokenpipe")
  | some i =>
    let s := (w.host! h).socks.getD i default
    let w := w.setHost h (fun hs => { hs with socks := setAt hs.socks i (fun s => { s with nextSendSeq := s.nextSendSeq + 1 }) })
    let (ok, w) := w.netSend h { src := x.loc, dst := x.rem, msg := .data s.nextSendSeq p }
    (w, if ok then s!"ok {hexLen p}" else "err refused")

def opTcpWriteI (w : World) (h s : Nat) (p : Hex) (poll : Bool) : World × String :=
  match w.getObj h s with
  | some (.stream _ (some x)) =>
    if poll && x.shutdown then (w, "err brokenpipe") else
    let (w, r) := w.tryWriteI h x p
    (w, if poll && r == "err wouldblock" then "pending" else r)
  | _ => (w, "err badslot")

def opTcpShutdownI (w : World) (h s : Nat) : World × String :=
  match w.getObj h s with
  | some (.stream rd (some x)) =>
    if x.shutdown then (w, "err notconnected") else
    match findSock (w.host! (w.halfHost h x.loc x.rem x.sid)) x.loc x.rem with
    | none => (w, "err brokenpipe")
    | some i =>
      let sk := (w.host! h).socks.getD i default
      let w := w.setHost h (fun hs => { hs with socks := setAt hs.socks i (fun s => { s with nextSendSeq := s.nextSendSeq + 1 }) })
      let (ok, w) := w.netSend h { src := x.loc, dst := x.rem, msg := .fin sk.nextSendSeq }
      if ok then (w.setObj h s (.stream rd (some { x with shutdown := true })), "ok") else (w, "err refused")
  | _ => (w, "err badslot")

def redrainI (w : World) (h : Nat) (r : RdH) : World :=
  if !w.cfg.fixFinRedrain then w else
  match findSock (w.host! (w.halfHost h r.loc r.rem r.chan)) r.loc r.rem with
  | none => w
  | some i =>
    let s := (w.host! h).socks.getD i default
    let c := w.chan! s.chan
    let (buf', rs', items', _) := drainBuf c.cap c.rxAlive (s.buf.length + 1) s.buf s.recvSeq c.items
    let w := w.setHost h (fun hs => { hs with socks := setAt hs.socks i (fun s => { s with buf := buf', recvSeq := rs' }) })
    w.setChan s.chan (fun c => { c with items := items' })

/-- `poll_read` / `poll_peek` polled once with a buffer of `n` bytes. -/
def opTcpReadI (w : World) (h s : Nat) (n : Nat) (peek : Bool) : World × String :=
  match w.getObj h s with
  | some (.stream (some r) wr) =>
    if r.closed || n == 0 then (w, "ok -") else
    match r.stash with
    | some b =>
      if peek then (w, s!"ok {hexTok (hexTake b n)}") else
      let rest := hexDrop b n
      let r' := { r with stash := if rest.isEmpty then none else some rest }
      (w.setObj h s (.stream (some r') wr), s!"ok {hexTok (hexTake b n)}")
    | none =>
      let c := w.chan! r.chan
      match c.items with
      | seg :: rest =>
        let w := w.setChan r.chan (fun c => { c with items := rest })
        match seg with
        | .data b =>
          let w := { w with fcs := setAt w.fcs r.fc (· + 1) }
          let r' := if peek then { r with stash := some b }
                    else let rs := hexDrop b n; { r with stash := if rs.isEmpty then none else some rs }
          let w := if hexLen b > n then w.tag "partialread" else w
          let w := w.setObj h s (.stream (some r') wr)
          ((w.redrainI h r), s!"ok {hexTok (hexTake b n)}")
        | .fin =>
          (((w.setObj h s (.stream (some { r with closed := true }) wr)).tag "eof").redrainI h r, "ok -")
      | [] =>
        if !c.txAlive then (w.tag "reset", "err reset") else (w, "pending")
  | _ => (w, "err badslot")

def opDropI (w : World) (h s : Nat) : World × String :=
  match w.getObj h s with
  | some o => ((w.delObj h s).dropObjI h o, "ok")
  | none => (w, "err badslot")

def opDropReadI (w : World) (h s : Nat) : World × String :=
  match w.getObj h s with
  | some (.stream (some r) wr) =>
    let w := match wr with | some _ => w.setObj h s (.stream none wr) | none => w.delObj h s
    (w.dropReadI h r, "ok")
  | _ => (w, "err badslot")

def opDropWriteI (w : World) (h s : Nat) : World × String :=
  match w.getObj h s with
  | some (.stream rd (some x)) =>
    let w := match rd with | some _ => w.setObj h s (.stream rd none) | none => w.delObj h s
    (w.dropWriteI h x, "ok")
  | _ => (w, "err badslot")

def crashI (w : World) (h : Nat) : World :=
  let w := if (w.host! h).running then w.dropAllI h else w
  w.setHost h (fun hs => { hs with running := false })

def bounceI (w : World) (h : Nat) : World :=
  let w := w.dropAllI h
  w.setHost h (fun hs => { hs with running := true, exited := false, winStart := 0, hnow := 0, wake := none, t0 := 0 })

end World
open World

/-- host call → repaired model: the calls that go through a half's table accesses are replaced, all others
    are `applyHOp`'s. -/
def applyHOpI (w : World) (h : Nat) (op : HOp) : World × String :=
  match op with
  | .tcpCPoll s => w.connectPollI h s
  | .tcpWrite s p =>
    let split := match w.getObj h s with | some (.stream none (some _)) => true | _ => false
    w.opTcpWriteI h s p split
  | .tcpPWrite s p => w.opTcpWriteI h s p true
  | .tcpShutdown s => w.opTcpShutdownI h s
  | .tcpRead s n => w.opTcpReadI h s n false
  | .tcpPeek s n => w.opTcpReadI h s n true
  | .drop s => w.opDropI h s
  | .tcpDropR s => w.opDropReadI h s
  | .tcpDropW s => w.opDropWriteI h s
  | .exit => ((w.dropAllI h).setHost h (fun hs => { hs with exited := true }), "ok")
  | .tcpConnect s dst =>
    -- `opTcpConnect` ends in a connect-poll of the object it has just stored: the entry is the call's own
    applyHOp w h (.tcpConnect s dst)
  | op => applyHOp w h op

def applyStepI (w : World) : Step → World
  | .host h op => (applyHOpI w h op).1
  | .crash h => w.crashI h
  | .bounce h => w.bounceI h
  | st => applyStep w st

end TV
