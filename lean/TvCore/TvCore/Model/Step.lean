import TvCore.Model.Ops
/-
  The transition system the correspondence driver runs on the World model.

  `HOp` is one call of scripted host code with its arguments already parsed; `applyHOp` is what the
  driver executes for it (result: next World and the predicted observation).  `Step` is the union of
  every transition the driver ever performs on a World: host calls, controller calls on the `Sim`
  handle, the start of a host's turn (`deliver_messages`), and the delivery of one loopback message.
  `Driver/Replay.lean` computes every World it compares through `applyStep` / the functions
  `applyStep` is defined by, so a statement about all `Step` sequences is a statement about every
  state a replay can reach.
-/
namespace TV
open World

/-- link-control calls that exist both on the `Sim` handle and inside host code. -/
inductive NetCtl
  | partition | partitionOneway | repair | repairOneway | hold | release
  deriving DecidableEq, Repr, Inhabited

def NetCtl.apply : NetCtl → World → Nat → Nat → World
  | .partition => ctlPartition
  | .partitionOneway => ctlPartitionOneway
  | .repair => ctlRepair
  | .repairOneway => ctlRepairOneway
  | .hold => ctlHold
  | .release => ctlRelease

/-- one API call of scripted host code (slots are the harness's handles on socket objects). -/
inductive HOp
  | udpBind (s : Nat) (a : Addr)
  | tcpBind (s : Nat) (a : Addr)
  | udpSend (s : Nat) (dst : Addr) (p : Hex)
  | udpTryRecv (s n : Nat)
  | udpRecv (s n : Nat)
  | udpReadable (s : Nat)
  | udpConnect (s : Nat) (dst : Addr)
  | udpBcast (s : Nat) (on : Bool)
  | udpMloop (s : Nat) (on : Bool)
  | udpJoin (s : Nat) (g iface : Ip)
  | udpLeave (s : Nat) (g iface : Ip)
  | tcpConnect (s : Nat) (dst : Addr)
  | tcpCPoll (s : Nat)
  | tcpAccept (ls s : Nat)
  | tcpWrite (s : Nat) (p : Hex)
  | tcpSplit (s : Nat)
  | tcpReunite (s : Nat)
  | tcpPWrite (s : Nat) (p : Hex)
  | tcpShutdown (s : Nat)
  | tcpRead (s n : Nat)
  | tcpPeek (s n : Nat)
  | drop (s : Nat)
  | tcpDropR (s : Nat)
  | tcpDropW (s : Nat)
  | count
  | countOf (a : Nat)
  | spawnTicker
  | select4
  | exit
  | net (op : NetCtl) (a b : Nat)
  | sleep (ms : Nat)
  | clock
  | lookup (name : String)
  | unknown
  deriving Repr, Inhabited

/-- the slot in which the call creates a socket object (the harness refuses a busy slot). -/
def HOp.target : HOp → Option Nat
  | .udpBind s _ => some s
  | .tcpBind s _ => some s
  | .tcpConnect s _ => some s
  | .tcpAccept _ s => some s
  | _ => none

/-- `sleep` in host code: the World component of `opSleep` (whether the script continues in this
    window — `opSleep`'s second component — is the harness's business).  Written out rather than as
    `(w.opSleep h ms).1` so that proofs never make the kernel evaluate `hostSleep`'s comparison
    against `ms * 1000000` on open terms. -/
def hopSleep (w : World) (h ms : Nat) : World × String :=
  (w.setHost h (fun _ => (hostSleep (ceilMs w.cfg.tick) (w.host! h) ms).1), "ok")

/-- Host-level op → model. -/
def applyHOp (w : World) (h : Nat) (op : HOp) : World × String :=
  if (match op.target with | some s => (w.getObj h s).isSome | none => false) then (w, "err slotbusy") else
  match op with
  | .udpBind s a => w.opUdpBind h s a
  | .tcpBind s a => w.opTcpBind h s a
  | .udpSend s a p => w.opUdpSend h s a p
  | .udpTryRecv s n => w.opUdpTryRecv h s n
  | .udpRecv s n => w.opUdpRecv h s n
  | .udpReadable s => w.opUdpReadable h s
  | .udpConnect s a => w.opUdpConnect h s a
  | .udpBcast s on => w.opUdpSetBcast h s on
  | .udpMloop s on => w.opUdpSetMloop h s on
  | .udpJoin s g i => w.opUdpJoin h s g i
  | .udpLeave s g i => w.opUdpLeave h s g i
  | .tcpConnect s a => w.opTcpConnect h s a
  | .tcpCPoll s => w.connectPoll h s
  | .tcpAccept ls s => w.opTcpAccept h ls s
  | .tcpWrite s p =>
    -- the harness has `try_write` only on an unsplit stream; on a split-off write half it polls `poll_write`
    let split := match w.getObj h s with | some (.stream none (some _)) => true | _ => false
    w.opTcpWrite h s p split
  | .tcpSplit s =>
    -- into_split / reunite do nothing to the connection; they need both halves in the slot
    (w, match w.getObj h s with | some (.stream (some _) (some _)) => "ok" | _ => "err badslot")
  | .tcpReunite s =>
    (w, match w.getObj h s with | some (.stream (some _) (some _)) => "ok" | _ => "err badslot")
  | .tcpPWrite s p => w.opTcpWrite h s p true
  | .tcpShutdown s => w.opTcpShutdown h s
  | .tcpRead s n => w.opTcpRead h s n false
  | .tcpPeek s n => w.opTcpRead h s n true
  | .drop s => w.opDrop h s
  | .tcpDropR s => w.opDropRead h s
  | .tcpDropW s => w.opDropWrite h s
  | .count => w.opCount h
  | .countOf a => w.opCount a
  | .spawnTicker => (w, "ok")
  | .select4 => (w, "?")          -- the pick is tokio's (seeded) choice: not modelled, compared only between twins
  | .exit => ((w.dropAll h).setHost h (fun hs => { hs with exited := true }), "ok")
  | .net op a b => (op.apply w a b, "ok")
  | .sleep ms => hopSleep w h ms
  | .clock => w.opClock h
  | .lookup name => let (ip, w) := w.dnsLookup name; (w, s!"ok {ip}")
  | .unknown => (w, "err unknownop")

/-- `LinkIter::deliver_all`: `SentRef::deliver` on every in-flight message of the link, in queue order. -/
def ctlDeliverAll (w : World) (x y : Nat) : World :=
  w.onLink x y (fun l => ((List.range l.sent.length).foldl (fun l i => l.manualDeliver i) l, []))

/-- A host's turn begins: its clock is set up, `Topology::deliver_messages` hands over what the links
    hold for it, and it becomes the current host.  Returns the envelopes handed over, in order. -/
def turnStep (w : World) (h : Nat) : List Env × World :=
  let (envs, w) := (w.turnBegin h).deliverTo h
  (envs, { w with cur := some h })

/-- The `i`-th loopback message in flight on host `h` is delivered (the spawned task's body);
    returns the RST sent back (and delivered at once), if any. -/
def loStep (w : World) (h i : Nat) : World × Option Env :=
  let e := (w.host! h).lo.getD i default
  let w := w.setHost h (fun hs => { hs with lo := hs.lo.eraseIdx i })
  let (rst, w) := w.receive h e
  if rst then
    let r : Env := { src := e.dst, dst := e.src, msg := .rst }
    let (_, w) := w.receive h r
    (w, some r)
  else (w, none)

/-- every transition the driver performs on a World. -/
inductive Step
  | host (h : Nat) (op : HOp)
  | register (ipnum : Nat) (isClient : Bool)
  | dns (name : String)
  | stepBegin
  | stepEnd
  | crash (h : Nat)
  | bounce (h : Nat)
  | link (op : NetCtl) (x y : Nat)
  | linkPairs (op : NetCtl) (xs ys : List Nat)
  | deliver (x y i : Nat)
  | deliverAll (x y : Nat)
  | turn (h : Nat)
  | loDeliver (h i : Nat)
  deriving Repr, Inhabited

def applyStep (w : World) : Step → World
  | .host h op => (applyHOp w h op).1
  | .register ip c => w.register ip c
  | .dns name => (w.dnsLookup name).2
  | .stepBegin => w.stepBegin
  | .stepEnd => w.stepEnd
  | .crash h => w.crash h
  | .bounce h => w.bounce h
  | .link op x y => op.apply w x y
  | .linkPairs op xs ys => w.forPairs xs ys op.apply
  | .deliver x y i => w.ctlDeliver x y i
  | .deliverAll x y => ctlDeliverAll w x y
  | .turn h => (turnStep w h).2
  | .loDeliver h i => (loStep w h i).1

end TV
