/-
  `Host::assign_ephemeral_port` (turmoil/src/host.rs): a wrapping cursor over `lo..=hi` that skips
  ports in use and gives up after one full lap.
-/
namespace TV

/-- One lap of the scan. Returns the chosen port (or `none` = the Rust code panics
    "ports exhausted") and the new cursor. -/
def scanPorts (lo hi : Nat) (used : Nat → Bool) : Nat → Nat → Option Nat × Nat
  | 0, cur => (none, cur)
  | fuel + 1, cur =>
    let next := if cur == hi then lo else cur + 1
    if used cur then scanPorts lo hi used fuel next else (some cur, next)

def assignEphemeral (lo hi : Nat) (used : Nat → Bool) (cur : Nat) : Option Nat × Nat :=
  scanPorts lo hi used (hi - lo + 1) cur

end TV
