/-
  Model of `turmoil/src/top.rs` — one `Link` between two hosts `a < b`.

  Faithful transcription of the Rust state machine.  Every random choice is an explicit
  oracle argument (`coinFail`, `coinRepair`, `delay`), read from hook H1 in correspondence runs and
  universally quantified in theorems.  `Cfg.fixRand` selects the repaired random process
  (per-direction, never touching explicitly partitioned or held directions).

  Ghost state (used by specifications only, never read by the transitions):
    * `exAB / exBA`      : the direction is explicitly partitioned right now,
    * `Sent.bad`         : the message was sent while its direction was explicitly partitioned,
    * `Sent.id`          : unique message number, `Sent.sentAt`, `Sent.delay`.
-/
namespace TV

inductive LState | healthy | explicit | rand | hold
  deriving DecidableEq, Repr, Inhabited

inductive Status | after (t : Nat) | hold
  deriving DecidableEq, Repr, Inhabited

structure Cfg where
  fixRand : Bool := false
  /-- repair of F-C08-1 / F-C03-2: a message whose latency has elapsed but which has not been handed to
      its host yet (it sits in a `deliverable` queue) is still in flight — `hold` recalls it into the
      in-flight queue and holds it, an explicit partition discards it.  A link copies the flag when it is
      created (`Link.fixMatured`), so that `hold` / `explicit_partition` / `partition_oneway` keep their
      signatures. -/
  fixMatured : Bool := false
  deriving DecidableEq, Repr, Inhabited

def Cfg.faithful : Cfg := { fixRand := false }
/-- the committed code: both repairs of `top.rs`. -/
def Cfg.fixed : Cfg := { fixRand := true, fixMatured := true }
/-- the tree before the repair of F-C08-1 / F-C03-2 (random process repaired only). -/
def Cfg.fixedRand : Cfg := { fixRand := true }

/-- A message on a link. `src`,`dst` are the numeric host addresses; `msg` is opaque to the link. -/
structure Sent (M : Type) where
  src : Nat
  dst : Nat
  status : Status
  msg : M
  -- ghost
  id : Nat := 0
  bad : Bool := false
  sentAt : Nat := 0
  delay : Nat := 0
  deriving Repr, Inhabited, DecidableEq

structure Link (M : Type) where
  a : Nat
  b : Nat
  stAB : LState := .healthy
  stBA : LState := .healthy
  sent : List (Sent M) := []
  toA : List (Sent M) := []      -- `deliverable[a]`
  toB : List (Sent M) := []      -- `deliverable[b]`
  now : Nat := 0
  -- ghost
  exAB : Bool := false
  exBA : Bool := false
  nextId : Nat := 0
  /-- model variant (`Cfg.fixMatured` of the world that created the link); never written. -/
  fixMatured : Bool := false
  deriving Repr, Inhabited

variable {M : Type}

namespace Link

/-- `get_state_for_message`: direction `a→b` iff `src < dst`. -/
def stateFor (l : Link M) (src dst : Nat) : LState :=
  if src < dst then l.stAB else l.stBA

/-- ghost: is the direction `src→dst` explicitly partitioned now? -/
def exFor (l : Link M) (src dst : Nat) : Bool :=
  if src < dst then l.exAB else l.exBA

def matured (now : Nat) (s : Sent M) : Bool :=
  match s.status with
  | .after t => t ≤ now
  | .hold => false

/-- `process_deliverables`: an order-preserving split of `sent`; matured messages are appended to
    the per-destination deliverable queue in `sent` order. -/
def processDeliverables (l : Link M) : Link M :=
  let ready := l.sent.filter (matured l.now)
  let rest := l.sent.filter (fun s => !matured l.now s)
  { l with sent := rest,
           toA := l.toA ++ ready.filter (fun s => s.dst == l.a),
           toB := l.toB ++ ready.filter (fun s => s.dst != l.a) }

def tick (l : Link M) (now : Nat) : Link M :=
  processDeliverables { l with now := now }

def anyHealthy (l : Link M) : Bool := l.stAB == .healthy || l.stBA == .healthy
def anyRand (l : Link M) : Bool := l.stAB == .rand || l.stBA == .rand

/-- a held message is scheduled for `now`; others keep their deadline. -/
def releaseOne (now : Nat) (s : Sent M) : Sent M :=
  match s.status with
  | .hold => { s with status := .after now }
  | _ => s

/-- `release`: both directions healthy, held messages scheduled for `now`. -/
def release (l : Link M) : Link M :=
  { l with stAB := .healthy, stBA := .healthy, sent := l.sent.map (releaseOne l.now) }

/-- `recall_deliverable` (repair of F-C08-1): the messages that are ready but not yet handed to their
    host go back to the FRONT of the in-flight queue — those for the lower end point `a` first, then
    those for `b`, each queue in order — scheduled for `now`; both ready queues are left empty. -/
def recall (l : Link M) : Link M :=
  { l with sent := (l.toA ++ l.toB).map (fun s => { s with status := .after l.now }) ++ l.sent,
           toA := [], toB := [] }

/-- the pre-repair `hold`: both directions `Hold`, every in-flight message held. -/
def holdRaw (l : Link M) : Link M :=
  { l with stAB := .hold, stBA := .hold,
           sent := l.sent.map (fun s => { s with status := .hold }) }

/-- `hold`: (repaired: recall the ready messages, then) hold everything in flight. -/
def hold (l : Link M) : Link M :=
  if l.fixMatured then l.recall.holdRaw else l.holdRaw

/-- The random failure / repair process run at the start of every `enqueue_message`.
    Returns the new link and the messages it discarded.
    `coinRepair` is consulted only when the first arm did not fire and a direction is `rand`. -/
def randStep (cfg : Cfg) (l : Link M) (coinFail coinRepair : Bool) : Link M × List (Sent M) :=
  if cfg.fixRand then
    -- repaired process: a direction fails only if healthy, heals only if randomly failed
    if l.anyHealthy && coinFail then
      let ab := l.stAB == .healthy
      let ba := l.stBA == .healthy
      let gone := l.sent.filter (fun s => if s.src < s.dst then ab else ba)
      let keep := l.sent.filter (fun s => !(if s.src < s.dst then ab else ba))
      ({ l with stAB := if ab then .rand else l.stAB,
                stBA := if ba then .rand else l.stBA,
                sent := keep }, gone)
    else if l.anyRand && coinRepair then
      ({ l with stAB := if l.stAB == .rand then .healthy else l.stAB,
                stBA := if l.stBA == .rand then .healthy else l.stBA }, [])
    else (l, [])
  else
    if l.anyHealthy && coinFail then
      ({ l with stAB := .rand, stBA := .rand, sent := [] }, l.sent)
    else if l.anyRand && coinRepair then
      (l.release, [])
    else (l, [])

/-- Does the random process consult the repair coin in this state? (for oracle bookkeeping) -/
def wantsRepairCoin (l : Link M) (coinFail : Bool) : Bool :=
  !(l.anyHealthy && coinFail) && l.anyRand

/-- `enqueue`: healthy → scheduled after `delay`; hold → held; otherwise dropped.
    Returns `(link, dropped?, usedDelay)`. -/
def enqueueRaw (l : Link M) (delay : Nat) (src dst : Nat) (m : M) : Link M × Option (Sent M) :=
  let mk (st : Status) : Sent M :=
    { src := src, dst := dst, status := st, msg := m,
      id := l.nextId, bad := l.exFor src dst, sentAt := l.now, delay := delay }
  match l.stateFor src dst with
  | .healthy => ({ l with sent := l.sent ++ [mk (.after (l.now + delay))], nextId := l.nextId + 1 }, none)
  | .hold => ({ l with sent := l.sent ++ [mk .hold], nextId := l.nextId + 1 }, none)
  | _ => ({ l with nextId := l.nextId + 1 }, some (mk .hold))

/-- Is the delay oracle consulted (state after the random step is healthy)? -/
def wantsDelay (l : Link M) (src dst : Nat) : Bool := l.stateFor src dst == .healthy

/-- `enqueue_message` = random step; enqueue; process deliverables.
    Second component: every message object discarded by this call. -/
def enqueue (cfg : Cfg) (l : Link M) (coinFail coinRepair : Bool) (delay : Nat)
    (src dst : Nat) (m : M) : Link M × List (Sent M) :=
  let (l1, gone) := randStep cfg l coinFail coinRepair
  let (l2, dropped) := enqueueRaw l1 delay src dst m
  (processDeliverables l2, gone ++ dropped.toList)

/-- `deliver_messages` (the drain half): take everything deliverable to `host`. -/
def drain (l : Link M) (host : Nat) : Link M × List (Sent M) :=
  if host == l.a then ({ l with toA := [] }, l.toA)
  else if host == l.b then ({ l with toB := [] }, l.toB)
  else (l, [])

/-- `explicit_partition`: everything in flight is discarded — repaired: also what is ready but not yet
    handed over (second component: every discarded message). -/
def explicitPartition (l : Link M) : Link M × List (Sent M) :=
  if l.fixMatured then
    ({ l with stAB := .explicit, stBA := .explicit, sent := [], toA := [], toB := [], exAB := true, exBA := true },
     l.sent ++ l.toA ++ l.toB)
  else
    ({ l with stAB := .explicit, stBA := .explicit, sent := [], exAB := true, exBA := true }, l.sent)

/-- the ready queue of destination `dst` is discarded (`deliverable.get_mut(&to).clear()`):
    the remaining queues and what was discarded. -/
def clearReady (l : Link M) (dst : Nat) : List (Sent M) × List (Sent M) × List (Sent M) :=
  if dst == l.a then ([], l.toB, l.toA)
  else if dst == l.b then (l.toA, [], l.toB)
  else (l.toA, l.toB, [])

def partitionOneway (l : Link M) (src dst : Nat) : Link M × List (Sent M) :=
  let l' := if src < dst then { l with stAB := .explicit, exAB := true }
            else { l with stBA := .explicit, exBA := true }
  if l.fixMatured then
    ({ l' with sent := l.sent.filter (fun s => s.src != src), toA := (l.clearReady dst).1, toB := (l.clearReady dst).2.1 },
     l.sent.filter (fun s => s.src == src) ++ (l.clearReady dst).2.2)
  else
    ({ l' with sent := l.sent.filter (fun s => s.src != src) },
     l.sent.filter (fun s => s.src == src))

def repairOneway (l : Link M) (src dst : Nat) : Link M :=
  if src < dst then { l with stAB := .healthy, exAB := false }
  else { l with stBA := .healthy, exBA := false }

def explicitRepair (l : Link M) : Link M :=
  { l with stAB := .healthy, stBA := .healthy, exAB := false, exBA := false }

/-- schedule the `i`-th message of a queue for time `t`. -/
def deliverAt (t : Nat) : Nat → List (Sent M) → List (Sent M)
  | _, [] => []
  | 0, x :: xs => { x with status := .after t } :: xs
  | i + 1, x :: xs => x :: deliverAt t i xs

/-- `SentRef::deliver` on the `i`-th in-flight message: schedule it for the link's `now`. -/
def manualDeliver (l : Link M) (i : Nat) : Link M :=
  { l with sent := deliverAt l.now i l.sent }

end Link

/-- Operations on one link (the alphabet of the link-level theorems). -/
inductive LinkOp (M : Type)
  | enqueue (coinFail coinRepair : Bool) (delay : Nat) (aToB : Bool) (m : M)
  | tick (dt : Nat)
  | drain (toB : Bool)
  | partition
  | partitionOneway (aToB : Bool)
  | repair
  | repairOneway (aToB : Bool)
  | hold
  | release
  | manualDeliver (i : Nat)
  deriving Repr

namespace Link

/-- One step. Output: (messages handed to a host by `drain`, messages discarded). -/
def step (cfg : Cfg) (l : Link M) : LinkOp M → Link M × List (Sent M) × List (Sent M)
  | .enqueue cf cr d ab m =>
      let (src, dst) := if ab then (l.a, l.b) else (l.b, l.a)
      let (l', gone) := l.enqueue cfg cf cr d src dst m
      (l', [], gone)
  | .tick dt => (l.tick (l.now + dt), [], [])
  | .drain toB =>
      let (l', out) := l.drain (if toB then l.b else l.a)
      (l', out, [])
  | .partition => let (l', g) := l.explicitPartition; (l', [], g)
  | .partitionOneway ab =>
      let (l', g) := if ab then l.partitionOneway l.a l.b else l.partitionOneway l.b l.a
      (l', [], g)
  | .repair => (l.explicitRepair, [], [])
  | .repairOneway ab => (if ab then l.repairOneway l.a l.b else l.repairOneway l.b l.a, [], [])
  | .hold => (l.hold, [], [])
  | .release => (l.release, [], [])
  | .manualDeliver i => (l.manualDeliver i, [], [])

/-- Run an op list, accumulating everything delivered to hosts (in delivery order). -/
def run (cfg : Cfg) : Link M → List (LinkOp M) → Link M × List (Sent M)
  | l, [] => (l, [])
  | l, op :: ops =>
      let (l1, out, _) := step cfg l op
      let (l2, outs) := run cfg l1 ops
      (l2, out ++ outs)

/-- a fresh link (`fm`: the model variant it is created under). -/
def init (a b : Nat) (fm : Bool := false) : Link M := { a := a, b := b, fixMatured := fm }

end Link
end TV
