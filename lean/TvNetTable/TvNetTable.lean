import TvNetTable.Model.Table
import TvNetTable.Model.Replay17
import TvNetTable.Model.TableSpec
import TvNetTable.Model.Rules
import TvNetTable.Model.Replay19
