import TvNetTable.Model.Table
import TvNetTable.Model.Replay17
