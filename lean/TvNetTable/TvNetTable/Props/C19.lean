/-
  C19 — rule chains decide each packet by first match; delays are honoured in order.
  All theorems hold for every rule chain, every verdict function, every installation /
  removal sequence, every delay and every sequence of ticks.
-/
import TvNetTable.Proofs.Sched
import TvNetTable.Proofs.Egress

namespace TV
namespace C19

variable {P : Type}

/-! ### first match -/

/-- `evaluate` returns the first non-`Pass` verdict in installation order (`Pass` if none), and
    the rules actually consulted are exactly the leading `Pass` rules plus that first one. -/
theorem first_match (c : Chain P) (p : P) :
    c.evaluate p = firstNonPass (c.rules.map (·.f p)) ∧
    (Chain.evalLog c.rules p).1 = Chain.consulted c.rules p :=
  ⟨Chain.evalLog_verdict c.rules p, Chain.evalLog_log c.rules p⟩

example : (Chain.install (Chain.install ({} : Chain Nat) (fun _ => .pass)).1
    (fun n => if n = 3 then .drop else .deliver 5)).1.evaluate 3 = .drop := by decide

example : ((Chain.evalLog (Chain.install (Chain.install (Chain.install ({} : Chain Nat) (fun _ => .pass)).1
    (fun _ => .drop)).1 (fun _ => .deliver 1)).1.rules 0).1.map (·.1)) = [1, 2] := by decide

/-! ### guards -/

inductive ChainOp (P : Type)
  | install (f : P → Verdict)
  | uninstall (id : Nat)

def applyOp (c : Chain P) : ChainOp P → Chain P
  | .install f => (c.install f).1
  | .uninstall id => c.uninstall id

def applyOps (c : Chain P) (ops : List (ChainOp P)) : Chain P := ops.foldl applyOp c

/-- Rule ids stay distinct under every installation / removal sequence. -/
theorem chain_wf (ops : List (ChainOp P)) : Chain.WF (applyOps ({} : Chain P) ops) := by
  suffices h : ∀ c : Chain P, Chain.WF c → Chain.WF (applyOps c ops) from h _ Chain.wf_empty
  induction ops with
  | nil => intro c h; exact h
  | cons op ops ih =>
    intro c h
    simp only [applyOps, List.foldl_cons]
    apply ih
    cases op with
    | install f => exact Chain.wf_install c f h
    | uninstall id => exact Chain.wf_uninstall c id h

theorem length_filter_ne {l : List (Rule P)} (id : Nat) (hn : (l.map (·.id)).Nodup)
    (hex : ∃ r ∈ l, r.id = id) : (l.filter (·.id != id)).length + 1 = l.length := by
  induction l with
  | nil => simp at hex
  | cons x xs ih =>
    simp only [List.map_cons, List.nodup_cons] at hn
    by_cases hx : x.id = id
    · have hnone : ∀ r ∈ xs, r.id ≠ id := by
        intro r hr h
        apply hn.1
        rw [hx, ← h]
        exact List.mem_map_of_mem hr
      have : xs.filter (·.id != id) = xs := by
        apply List.filter_eq_self.mpr
        intro r hr
        simpa using hnone r hr
      simp [hx, this]
    · have hex' : ∃ r ∈ xs, r.id = id := by
        obtain ⟨r, hr, h⟩ := hex
        rcases List.mem_cons.mp hr with rfl | hr
        · exact absurd h hx
        · exact ⟨r, hr, h⟩
      have := ih hn.2 hex'
      simp [hx]
      omega

/-- Dropping a guard removes exactly the rule with that id and keeps the order of the rest;
    from then on the rule is never consulted. -/
theorem guard (c : Chain P) (h : Chain.WF c) (id : Nat) :
    (∀ r ∈ (c.uninstall id).rules, r.id ≠ id) ∧
    (c.uninstall id).rules.Sublist c.rules ∧
    (∀ r ∈ c.rules, r.id ≠ id → r ∈ (c.uninstall id).rules) ∧
    ((∃ r ∈ c.rules, r.id = id) → (c.uninstall id).rules.length + 1 = c.rules.length) ∧
    (∀ p, ∀ e ∈ (Chain.evalLog (c.uninstall id).rules p).1, e.1 ≠ id) := by
  refine ⟨?_, ?_, ?_, ?_, ?_⟩
  · intro r hr
    simp only [Chain.uninstall, List.mem_filter] at hr
    simpa using hr.2
  · exact List.filter_sublist
  · intro r hr hne
    simp only [Chain.uninstall, List.mem_filter]
    exact ⟨hr, by simpa using hne⟩
  · exact length_filter_ne id h.1
  · intro p e he
    rw [Chain.evalLog_log] at he
    have hmem : ∀ r ∈ (c.uninstall id).rules, r.id ≠ id := by
      intro r hr
      simp only [Chain.uninstall, List.mem_filter] at hr
      simpa using hr.2
    generalize (c.uninstall id).rules = rs at he hmem
    unfold Chain.consulted at he
    have htw : ∀ r ∈ rs.takeWhile (fun r => r.f p = .pass), r.id ≠ id :=
      fun r hr => hmem r (mem_of_mem_takeWhile' hr)
    split at he
    · simp only [List.mem_map] at he
      obtain ⟨r, hr, rfl⟩ := he
      exact htw r hr
    · rename_i r rest hdw
      simp only [List.mem_append, List.mem_map, List.mem_singleton] at he
      rcases he with ⟨r', hr', rfl⟩ | rfl
      · exact htw r' hr'
      · apply hmem
        have : r ∈ rs.dropWhile (fun r => r.f p = .pass) := by rw [hdw]; exact List.mem_cons_self ..
        exact mem_of_mem_dropWhile' this

example : Chain.WF (applyOps ({} : Chain Nat) [.install (fun _ => .pass), .install (fun _ => .drop), .uninstall 1]) :=
  chain_wf _

example : ((applyOps ({} : Chain Nat) [.install (fun _ => .pass), .install (fun _ => .drop),
    .install (fun _ => .pass), .uninstall 1]).rules.map (·.id)) = [2, 3] := by decide

/-! ### loopback is never shown to rules -/

/-- Packets handed out by `Kernel::egress` are never addressed to the emitting host itself
    (loopback or one of its own addresses); the scheduler shows rules exactly the egressed
    packets, once each, in order. -/
theorem loopback_never_seen :
    (∀ (k : Kernel) (out : List Pkt), ∀ p ∈ (k.egress out).2, p ∈ out ∨ k.isLocal p.dst.ip = false) ∧
    (∀ (s : Sched P) (dt : Nat) (eg : List P) (v : P → Verdict), (s.tick dt eg v).2.2.map (·.1) = eg) :=
  ⟨fun k out => (Kernel.egress_nonlocal k out).2,
   fun s dt eg v => by simp only [Sched.tick]; exact Sched.routeAll_packets v _ eg⟩

/-- a datagram to the host's own address folds back; one to another host is handed out -/
example : (((({ addrs := [⟨false, 10⟩] } : Kernel).emit ⟨⟨⟨false, 10⟩, 5000⟩, ⟨⟨false, 10⟩, 5001⟩, .udp 7⟩).emit
    ⟨⟨⟨false, 10⟩, 5000⟩, ⟨⟨false, 20⟩, 5001⟩, .udp 8⟩).egress []).2.map (·.seg) = [.udp 8] := by decide

/-! ### the scheduler -/

structure TickIn (P : Type) where
  dt : Nat
  egress : List P
  verdict : P → Verdict

def run (s : Sched P) (ticks : List (TickIn P)) : Sched P :=
  ticks.foldl (fun s t => (s.tick t.dt t.egress t.verdict).1) s

theorem inv_tick (s : Sched P) (h : Sched.Inv s) (dt : Nat) (eg : List P) (v : P → Verdict) :
    Sched.Inv (s.tick dt eg v).1 := by
  simp only [Sched.tick]
  apply Sched.inv_routeAll
  refine ⟨?_, ?_, ?_⟩
  · exact sorted_dropWhile _ _ h.sorted
  · intro e he
    exact h.seqLt e (mem_of_mem_dropWhile' he)
  · intro e he
    have := (mem_dropWhile_sorted (s.now + dt) s.pending h.sorted e).mp he
    exact this.2

/-- The pending queue is sorted by `(deliver_at, seq)` (and holds nothing overdue) after every
    sequence of ticks. -/
theorem sorted (ticks : List (TickIn P)) : Sched.Inv (run ({} : Sched P) ticks) := by
  suffices h : ∀ s : Sched P, Sched.Inv s → Sched.Inv (run s ticks) from h _ Sched.inv_empty
  induction ticks with
  | nil => intro s h; exact h
  | cons t ts ih =>
    intro s h
    simp only [run, List.foldl_cons]
    exact ih _ (inv_tick s h t.dt t.egress t.verdict)

example : Sched.Inv (run ({} : Sched Nat)
    [⟨1000, [1, 2, 3], fun n => if n = 2 then .deliver 300 else .deliver 5000⟩, ⟨1000, [4], fun _ => .deliver 1500⟩]) :=
  sorted _

/-- A packet is delivered at the first tick whose clock has reached its deadline: the due set
    of a tick is exactly the pending entries with `deliver_at ≤ now`, each of them was not yet
    due at the previous tick, so it leaves within one `dt` of its deadline; entries not yet due
    stay queued; and a packet given `Deliver d` (d > 0) is queued with deadline `now + d`. -/
theorem deadline (s : Sched P) (h : Sched.Inv s) (dt : Nat) (eg : List P) (v : P → Verdict) :
    (∀ e, e ∈ (s.tick dt eg v).2.1 ↔ e ∈ s.pending ∧ e.deliverAt ≤ s.now + dt) ∧
    (∀ e ∈ (s.tick dt eg v).2.1,
        s.now < e.deliverAt ∧ e.deliverAt ≤ (s.tick dt eg v).1.now ∧ (s.tick dt eg v).1.now < e.deliverAt + dt) ∧
    (∀ e ∈ s.pending, e ∈ (s.tick dt eg v).2.1 ∨ e ∈ (s.tick dt eg v).1.pending) ∧
    (∀ e ∈ (s.tick dt eg v).1.pending, e ∈ s.pending ∨
        ∃ p ∈ eg, ∃ d, d ≠ 0 ∧ v p = .deliver d ∧ e.pkt = p ∧ e.deliverAt = s.now + dt + d) := by
  have hnow : (s.tick dt eg v).1.now = s.now + dt := by
    simp only [Sched.tick]; rw [Sched.routeAll_now]
  have hdue : ∀ e, e ∈ (s.tick dt eg v).2.1 ↔ e ∈ s.pending ∧ e.deliverAt ≤ s.now + dt := by
    intro e
    simp only [Sched.tick, Sched.ready]
    exact mem_takeWhile_sorted (s.now + dt) s.pending h.sorted e
  refine ⟨hdue, ?_, ?_, ?_⟩
  · intro e he
    have := (hdue e).mp he
    have hf := h.future e this.1
    rw [hnow]
    omega
  · intro e he
    by_cases hd : e.deliverAt ≤ s.now + dt
    · exact Or.inl ((hdue e).mpr ⟨he, hd⟩)
    · right
      simp only [Sched.tick]
      apply Sched.routeAll_keeps
      simp only [Sched.rest]
      exact (mem_dropWhile_sorted (s.now + dt) s.pending h.sorted e).mpr ⟨he, by omega⟩
  · intro e he
    simp only [Sched.tick] at he
    rcases Sched.routeAll_origin v _ eg e he with h1 | ⟨p, hp, d, hd, hv, hpk, hat, _⟩
    · left
      simp only [Sched.rest] at h1
      exact mem_of_mem_dropWhile' h1
    · right
      exact ⟨p, hp, d, hd, hv, hpk, hat⟩

example : (({} : Sched Nat).tick 1000 [7] (fun _ => .deliver 1500)).1.pending.map (·.deliverAt) = [2500] := by decide
example : (((({} : Sched Nat).tick 1000 [7] (fun _ => .deliver 1500)).1.tick 1000 [] (fun _ => .pass)).1.tick 1000 []
    (fun _ => .pass)).2.1.map (·.pkt) = [7] := by decide

/-- Packets leave a tick in `(deadline, seq)` order, and `seq` grows with emission order — so
    equal deadlines keep their emission order. -/
theorem tie_order (s : Sched P) (h : Sched.Inv s) (dt : Nat) (eg : List P) (v : P → Verdict) :
    Sorted (s.tick dt eg v).2.1 ∧
    (Sched.fateSeqs (s.tick dt eg v).2.2).Pairwise (· < ·) ∧
    (∀ q ∈ Sched.fateSeqs (s.tick dt eg v).2.2, ∀ e ∈ s.pending, e.seq < q) := by
  refine ⟨?_, ?_, ?_⟩
  · simp only [Sched.tick, Sched.ready]
    exact sorted_takeWhile _ _ h.sorted
  · simp only [Sched.tick]
    exact Sched.fateSeqs_increasing v _ eg
  · intro q hq e he
    simp only [Sched.tick] at hq
    have := Sched.fateSeqs_ge v _ eg q hq
    have h2 := h.seqLt e he
    simp only at this
    omega

example : ((({} : Sched Nat).tick 1000 [1, 2, 3] (fun _ => .deliver 1000)).1.tick 1000 [] (fun _ => .pass)).2.1.map
    (·.pkt) = [1, 2, 3] := by decide

/-- Everything a run of ticks ever delivers (due packets and immediate ones). -/
def allDelivered : Sched P → List (TickIn P) → List P
  | _, [] => []
  | s, t :: ts =>
    let r := s.tick t.dt t.egress t.verdict
    r.2.1.map (·.pkt) ++ (r.2.2.filter (fun pf => pf.2 == Fate.deliveredNow)).map (·.1) ++ allDelivered r.1 ts

theorem routeAll_fate (v : P → Verdict) (s : Sched P) (ps : List P) :
    ∀ pf ∈ (Sched.routeAll v s ps).2, pf.1 ∈ ps ∧ (pf.2 = Fate.dropped ↔ v pf.1 = .drop) := by
  induction ps generalizing s with
  | nil => simp [Sched.routeAll]
  | cons p ps ih =>
    intro pf hpf
    simp only [Sched.routeAll, List.mem_cons] at hpf
    rcases hpf with rfl | hpf
    · refine ⟨List.mem_cons_self .., ?_⟩
      cases hv : v p with
      | pass => simp [Sched.route]
      | drop => simp [Sched.route]
      | deliver d => simp only [Sched.route]; split <;> simp
    · have := ih _ pf hpf
      exact ⟨List.mem_cons_of_mem _ this.1, this.2⟩

/-- A dropped packet is never delivered: whatever is delivered was egressed in some tick with a
    verdict other than `Drop`. (`R` is any property of packets carried from egress to delivery.) -/
theorem drop_never_delivered (R : P → Prop) (ticks : List (TickIn P)) (s : Sched P)
    (hpend : ∀ e ∈ s.pending, R e.pkt)
    (heg : ∀ t ∈ ticks, ∀ p ∈ t.egress, t.verdict p ≠ .drop → R p) :
    ∀ p ∈ allDelivered s ticks, R p := by
  induction ticks generalizing s with
  | nil => simp [allDelivered]
  | cons t ts ih =>
    intro p hp
    simp only [allDelivered, List.mem_append, List.mem_map, List.mem_filter] at hp
    have ht := heg t (List.mem_cons_self ..)
    rcases hp with (⟨e, he, rfl⟩ | ⟨pf, ⟨hpf, hfate⟩, rfl⟩) | hp
    · simp only [Sched.tick, Sched.ready] at he
      exact hpend e (mem_of_mem_takeWhile' he)
    · simp only [Sched.tick] at hpf
      have := routeAll_fate t.verdict _ t.egress pf hpf
      apply ht pf.1 this.1
      intro hdrop
      have := this.2.mpr hdrop
      rw [this] at hfate
      simp at hfate
    · apply ih (s.tick t.dt t.egress t.verdict).1 _ (fun t' ht' => heg t' (List.mem_cons_of_mem _ ht')) p hp
      intro e he
      simp only [Sched.tick] at he
      rcases Sched.routeAll_origin t.verdict _ t.egress e he with h1 | ⟨q, hq, d, _, hv, hpk, _, _⟩
      · simp only [Sched.rest] at h1
        exact hpend e (mem_of_mem_dropWhile' h1)
      · rw [hpk]
        apply ht q hq
        rw [hv]; simp

/-- The statement in its direct form: from an empty queue, every delivered packet was egressed
    in one of the ticks with a verdict other than `Drop`. -/
theorem drop_never_delivered_direct (ticks : List (TickIn P)) :
    ∀ p ∈ allDelivered ({} : Sched P) ticks, ∃ t ∈ ticks, p ∈ t.egress ∧ t.verdict p ≠ .drop :=
  drop_never_delivered (fun p => ∃ t ∈ ticks, p ∈ t.egress ∧ t.verdict p ≠ .drop) ticks {}
    (by simp) (fun t ht p hp hv => ⟨t, ht, hp, hv⟩)

example : allDelivered ({} : Sched Nat)
    [⟨1000, [1, 2, 3], fun n => if n = 2 then .drop else if n = 3 then .deliver 1000 else .pass⟩, ⟨1000, [], fun _ => .pass⟩]
    = [1, 3] := by decide

/-! ### guards: the very next packet, and forever after -/

/-- A guard drop takes effect for the very next packet, in every chain state (no well-formedness
    needed): the verdict is the first non-`Pass` verdict of the remaining rules in their old
    order, and the rules consulted are exactly those the chain without the dropped rule would
    consult — as if the dropped rule had never been there. -/
theorem guard_next_packet (c : Chain P) (id : Nat) (p : P) :
    (c.uninstall id).evaluate p = firstNonPass ((c.rules.filter (fun r => r.id != id)).map (·.f p)) ∧
    (Chain.evalLog (c.uninstall id).rules p).1 = Chain.consulted (c.rules.filter (fun r => r.id != id)) p :=
  first_match (c.uninstall id) p

/-- rule 1 drops everything; once its guard is gone the very next packet gets rule 2's verdict
    and only rule 2 is consulted -/
example : let c := applyOps ({} : Chain Nat) [.install (fun _ => .drop), .install (fun _ => .deliver 7)]
    c.evaluate 0 = .drop ∧ (c.uninstall 1).evaluate 0 = .deliver 7 ∧
    (Chain.evalLog (c.uninstall 1).rules 0).1 = [(2, .deliver 7)] := by decide

example (c : Chain Nat) : ((c.uninstall 1).evaluate 0 =
    firstNonPass ((c.rules.filter (fun r => r.id != 1)).map (·.f 0))) := (guard_next_packet c 1 0).1

/-- The id handed out by `install` is always below the chain's counter afterwards. -/
theorem install_id_lt (c : Chain P) (f : P → Verdict) : (c.install f).2 < (c.install f).1.nextId :=
  Chain.install_id_lt_nextId c f

example : (Chain.install ({} : Chain Nat) (fun _ => .pass)).2 = 1 ∧
    (Chain.install ({} : Chain Nat) (fun _ => .pass)).1.nextId = 2 := by decide

/-- Invariant carried through later operations: the id is absent and already handed out. -/
theorem absent_applyOps (id : Nat) (ops : List (ChainOp P)) :
    ∀ c : Chain P, (∀ r ∈ c.rules, r.id ≠ id) → id < c.nextId →
      (∀ r ∈ (applyOps c ops).rules, r.id ≠ id) ∧ id < (applyOps c ops).nextId := by
  induction ops with
  | nil => intro c h1 h2; exact ⟨h1, h2⟩
  | cons op ops ih =>
    intro c h1 h2
    simp only [applyOps, List.foldl_cons]
    cases op with
    | install f =>
      apply ih
      · intro r hr
        simp only [applyOp, Chain.install, List.mem_append, List.mem_singleton] at hr
        rcases hr with hr | rfl
        · exact h1 r hr
        · show c.nextId ≠ id
          omega
      · show id < c.nextId + 1
        omega
    | uninstall id2 =>
      apply ih
      · intro r hr
        simp only [applyOp, Chain.uninstall, List.mem_filter] at hr
        exact h1 r hr.1
      · exact h2

/-- Once a guard is dropped its rule never comes back: for an id that has already been handed
    out (`id < c.nextId`; ids returned by `install` always are, see `install_id_lt`), after
    `uninstall id` no sequence of further installs and uninstalls ever produces a rule with that
    id — new rules get the counter value, which is above it and only grows.  (Only `id <
    c.nextId` is needed; `guard_forever_installed` is the form for a well-formed chain and the
    id of one of its rules.) -/
theorem guard_forever (c : Chain P) (id : Nat) (hid : id < c.nextId) (ops : List (ChainOp P)) :
    ∀ r ∈ (applyOps (c.uninstall id) ops).rules, r.id ≠ id := by
  refine (absent_applyOps id ops (c.uninstall id) ?_ hid).1
  intro r hr
  simp only [Chain.uninstall, List.mem_filter] at hr
  simpa using hr.2

/-- ... hence no later evaluation of any packet ever consults (logs) the dropped id. -/
theorem guard_forever_eval (c : Chain P) (id : Nat) (hid : id < c.nextId) (ops : List (ChainOp P)) (p : P) :
    ∀ e ∈ (Chain.evalLog (applyOps (c.uninstall id) ops).rules p).1, e.1 ≠ id := by
  intro e he
  obtain ⟨r, hr, hre⟩ := Chain.evalLog_ids _ p e he
  rw [← hre]
  exact guard_forever c id hid ops r hr

/-- The same for a well-formed chain and the id of a rule that is installed in it (the situation
    of a live `RuleGuard`): after the drop, whatever is installed or removed later, no rule has
    that id and no evaluation logs it. -/
theorem guard_forever_installed (c : Chain P) (h : Chain.WF c) (id : Nat) (hex : ∃ r ∈ c.rules, r.id = id)
    (ops : List (ChainOp P)) :
    (∀ r ∈ (applyOps (c.uninstall id) ops).rules, r.id ≠ id) ∧
    (∀ p, ∀ e ∈ (Chain.evalLog (applyOps (c.uninstall id) ops).rules p).1, e.1 ≠ id) := by
  have hid : id < c.nextId := by
    obtain ⟨r, hr, rfl⟩ := hex
    exact h.2 r hr
  exact ⟨guard_forever c id hid ops, fun p => guard_forever_eval c id hid ops p⟩

/-- rule 1 dropped, two more installed, one removed: ids are 2 and 4, never 1 again -/
example : ((applyOps ((applyOps ({} : Chain Nat) [.install (fun _ => .drop), .install (fun _ => .pass)]).uninstall 1)
    [.install (fun _ => .pass), .uninstall 3, .install (fun _ => .drop)]).rules.map (·.id)) = [2, 4] := by decide

example : ∀ e ∈ (Chain.evalLog (applyOps ((applyOps ({} : Chain Nat) [.install (fun _ => .drop)]).uninstall 1)
    [.install (fun _ => .pass), .install (fun _ => .drop)]).rules 0).1, e.1 ≠ 1 :=
  guard_forever_eval _ 1 (by decide) _ 0

example : ∀ r ∈ (applyOps ((applyOps ({} : Chain Nat) [.install (fun _ => .drop)]).uninstall 1)
    [.install (fun _ => .pass)]).rules, r.id ≠ 1 :=
  (guard_forever_installed _ (chain_wf _) 1 ⟨⟨1, fun _ => .drop⟩, by simp [applyOps, applyOp, Chain.install], rfl⟩ _).1

/-- the side condition is needed: an id not handed out yet is handed out by the next install -/
example : ¬ ∀ r ∈ (applyOps (({} : Chain Nat).uninstall 1) [.install (fun _ => .pass)]).rules, r.id ≠ 1 := by
  simp [applyOps, applyOp, Chain.install, Chain.uninstall]

/-! ### run-level delivery order, from any pending queue -/

/-- Everything that comes due over a run of ticks, in hand-over order (queue entries, so the
    deadline and issue number are visible). -/
def allDue : Sched P → List (TickIn P) → List (Scheduled P)
  | _, [] => []
  | s, t :: ts => (s.tick t.dt t.egress t.verdict).2.1 ++ allDue (s.tick t.dt t.egress t.verdict).1 ts

theorem tick_now (s : Sched P) (dt : Nat) (eg : List P) (v : P → Verdict) :
    (s.tick dt eg v).1.now = s.now + dt := by
  simp only [Sched.tick]; rw [Sched.routeAll_now]

/-- Whatever a run hands over from a state satisfying the invariant has its deadline after the
    state's clock (nothing overdue is ever held back). -/
theorem allDue_future (s : Sched P) (h : Sched.Inv s) (ticks : List (TickIn P)) :
    ∀ e ∈ allDue s ticks, s.now < e.deliverAt := by
  induction ticks generalizing s with
  | nil => simp [allDue]
  | cons t ts ih =>
    intro e he
    simp only [allDue, List.mem_append] at he
    rcases he with he | he
    · exact ((deadline s h t.dt t.egress t.verdict).2.1 e he).1
    · have h1 := ih (s.tick t.dt t.egress t.verdict).1 (inv_tick s h t.dt t.egress t.verdict) e he
      have h2 := tick_now s t.dt t.egress t.verdict
      omega

/-- Over a whole run of ticks, starting from ANY pending queue satisfying the invariant (sorted,
    seqs below the counter, nothing overdue), packets are handed over in strictly increasing
    `(deadline, issue number)` order: within one tick the due list is sorted, and everything
    handed over in a later tick has a deadline after the earlier tick's clock, while everything
    due in the earlier tick has a deadline at or before it. -/
theorem delivery_sorted (s : Sched P) (h : Sched.Inv s) (ticks : List (TickIn P)) :
    Sorted (allDue s ticks) := by
  induction ticks generalizing s with
  | nil => simp [allDue, Sorted]
  | cons t ts ih =>
    have hinv := inv_tick s h t.dt t.egress t.verdict
    simp only [allDue]
    unfold Sorted
    rw [List.pairwise_append]
    refine ⟨(tie_order s h t.dt t.egress t.verdict).1, ih _ hinv, ?_⟩
    intro a ha b hb
    have h1 := ((deadline s h t.dt t.egress t.verdict).2.1 a ha).2.1
    have h2 := allDue_future _ hinv ts b hb
    left
    omega

/-- No overtaking: if `a` is handed over before `b` anywhere in a run then `a` is strictly
    smaller in `(deadline, issue number)` — a packet with a later deadline, or the same deadline
    and a later issue number, is never delivered first. -/
theorem no_overtake (s : Sched P) (h : Sched.Inv s) (ticks : List (TickIn P))
    (l1 l2 : List (Scheduled P)) (a b : Scheduled P)
    (heq : allDue s ticks = l1 ++ a :: l2) (hb : b ∈ l2) : a.lt b := by
  have hs := delivery_sorted s h ticks
  unfold Sorted at hs
  rw [heq, List.pairwise_append, List.pairwise_cons] at hs
  exact hs.2.1.1 b hb

/-- three packets with delays 3000 / 1000 / 1000 issued in one tick leave over two later ticks in
    deadline order, ties in issue order -/
example : (allDue ({} : Sched Nat)
    [⟨1000, [1, 2, 3], fun n => if n = 1 then .deliver 3000 else .deliver 1000⟩, ⟨1000, [4], fun _ => .deliver 500⟩,
     ⟨1000, [], fun _ => .pass⟩, ⟨1000, [], fun _ => .pass⟩]).map (fun e => (e.deliverAt, e.seq, e.pkt))
    = [(2000, 1, 2), (2000, 2, 3), (2500, 3, 4), (4000, 0, 1)] := by decide

/-- from a non-empty initial queue -/
example : Sorted (allDue ({ now := 10, pending := [⟨20, 0, 5⟩, ⟨20, 1, 6⟩, ⟨70, 2, 7⟩], nextSeq := 3 } : Sched Nat)
    [⟨15, [8], fun _ => .deliver 20⟩, ⟨100, [], fun _ => .pass⟩]) :=
  delivery_sorted _ ⟨by unfold Sorted; decide, by decide, by decide⟩ _

example : (allDue ({ now := 10, pending := [⟨20, 0, 5⟩, ⟨20, 1, 6⟩, ⟨70, 2, 7⟩], nextSeq := 3 } : Sched Nat)
    [⟨15, [8], fun _ => .deliver 20⟩, ⟨100, [], fun _ => .pass⟩]).map (·.pkt) = [5, 6, 8, 7] := by decide

example (a b : Scheduled Nat) (l1 l2 : List (Scheduled Nat)) (ticks : List (TickIn Nat))
    (heq : allDue ({} : Sched Nat) ticks = l1 ++ a :: l2) (hb : b ∈ l2) : a.lt b :=
  no_overtake _ Sched.inv_empty ticks l1 l2 a b heq hb

/-- Issue order is `(deadline, issue number)` order: if in one tick `p1` is egressed before `p2`
    (at any positions `pre.length` and `pre.length + 1 + mid.length`), both get `Deliver` with
    non-zero delays `d1 ≤ d2`, then both are queued with deadlines `now + dt + d`, `p1` gets the
    smaller issue number, and `p1`'s entry is strictly before `p2`'s in queue order.  Holds from
    every scheduler state (no invariant needed). -/
theorem issue_order (s : Sched P) (dt : Nat) (v : P → Verdict) (pre mid post : List P) (p1 p2 : P)
    (d1 d2 : Nat) (hv1 : v p1 = .deliver d1) (hv2 : v p2 = .deliver d2) (hd1 : d1 ≠ 0) (hd2 : d2 ≠ 0)
    (hle : d1 ≤ d2) :
    ∃ e1 e2 : Scheduled P,
      e1 ∈ (s.tick dt (pre ++ p1 :: (mid ++ p2 :: post)) v).1.pending ∧
      e2 ∈ (s.tick dt (pre ++ p1 :: (mid ++ p2 :: post)) v).1.pending ∧
      e1.pkt = p1 ∧ e2.pkt = p2 ∧
      e1.deliverAt = s.now + dt + d1 ∧ e2.deliverAt = s.now + dt + d2 ∧
      e1.seq < e2.seq ∧ e1.lt e2 := by
  simp only [Sched.tick]
  generalize hs2 : ({ now := s.now + dt, pending := Sched.rest { now := s.now + dt, pending := s.pending, nextSeq := s.nextSeq }, nextSeq := s.nextSeq } : Sched P) = s2
  have hnow : s2.now = s.now + dt := by rw [← hs2]
  have hm1 := Sched.routeAll_at v s2 pre (mid ++ p2 :: post) p1 d1 hv1 hd1
  have hm2 := Sched.routeAll_at v s2 (pre ++ p1 :: mid) post p2 d2 hv2 hd2
  have hlt := Sched.routeAll_seq_lt v s2 pre mid p1 d1 hv1 hd1
  have hl : (pre ++ p1 :: mid) ++ p2 :: post = pre ++ p1 :: (mid ++ p2 :: post) := by simp
  rw [hl] at hm2
  rw [hnow] at hm1 hm2
  refine ⟨_, _, hm1, hm2, rfl, rfl, rfl, rfl, hlt, ?_⟩
  unfold Scheduled.lt
  show s.now + dt + d1 < s.now + dt + d2 ∨ (s.now + dt + d1 = s.now + dt + d2 ∧ _)
  by_cases heq : d1 = d2
  · right; exact ⟨by omega, hlt⟩
  · left; omega

/-- ... and so is delivery order: in every continuation of the run, `p2`'s entry is never handed
    over before `p1`'s. -/
theorem issue_order_delivered (s : Sched P) (h : Sched.Inv s) (dt : Nat) (v : P → Verdict)
    (pre mid post : List P) (p1 p2 : P) (d1 d2 : Nat) (hv1 : v p1 = .deliver d1) (hv2 : v p2 = .deliver d2)
    (hd1 : d1 ≠ 0) (hd2 : d2 ≠ 0) (hle : d1 ≤ d2) :
    ∃ e1 e2 : Scheduled P,
      e1 ∈ (s.tick dt (pre ++ p1 :: (mid ++ p2 :: post)) v).1.pending ∧
      e2 ∈ (s.tick dt (pre ++ p1 :: (mid ++ p2 :: post)) v).1.pending ∧
      e1.pkt = p1 ∧ e2.pkt = p2 ∧
      e1.deliverAt = s.now + dt + d1 ∧ e2.deliverAt = s.now + dt + d2 ∧
      ∀ (ticks : List (TickIn P)) (l1 l2 : List (Scheduled P)),
        allDue (s.tick dt (pre ++ p1 :: (mid ++ p2 :: post)) v).1 ticks = l1 ++ e2 :: l2 → e1 ∉ l2 := by
  obtain ⟨e1, e2, m1, m2, k1, k2, a1, a2, _, hlt⟩ := issue_order s dt v pre mid post p1 p2 d1 d2 hv1 hv2 hd1 hd2 hle
  refine ⟨e1, e2, m1, m2, k1, k2, a1, a2, ?_⟩
  intro ticks l1 l2 heq hmem
  have := no_overtake _ (inv_tick s h dt _ v) ticks l1 l2 e2 e1 heq hmem
  unfold Scheduled.lt at this hlt
  omega

/-- packets 1 and 3 get the same delay, 2 a shorter one: queue order is 2, 1, 3 -/
example : (({} : Sched Nat).tick 1000 [1, 2, 3] (fun n => if n = 2 then .deliver 500 else .deliver 900)).1.pending.map
    (fun e => (e.deliverAt, e.seq, e.pkt)) = [(1500, 1, 2), (1900, 0, 1), (1900, 2, 3)] := by decide

example : ∃ e1 e2 : Scheduled Nat,
    e1 ∈ (({} : Sched Nat).tick 1000 ([] ++ 1 :: ([2] ++ 3 :: [])) (fun _ => .deliver 900)).1.pending ∧
    e2 ∈ (({} : Sched Nat).tick 1000 ([] ++ 1 :: ([2] ++ 3 :: [])) (fun _ => .deliver 900)).1.pending ∧
    e1.pkt = 1 ∧ e2.pkt = 3 ∧ e1.deliverAt = 0 + 1000 + 900 ∧ e2.deliverAt = 0 + 1000 + 900 ∧
    e1.seq < e2.seq ∧ e1.lt e2 :=
  issue_order {} 1000 (fun _ => .deliver 900) [] [2] [] 1 3 900 900 rfl rfl (by decide) (by decide) (by decide)

example := issue_order_delivered ({} : Sched Nat) Sched.inv_empty 1000 (fun _ => .deliver 900) [] [2] [] 1 3 900 900
  rfl rfl (by decide) (by decide) (by decide)

end C19
end TV
