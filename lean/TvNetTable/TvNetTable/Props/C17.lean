/-
  C17 — turmoil-net binds and routes packets like a real socket table.
  Statements are about the executable model of Model/Table.lean (tied to the code by the
  correspondence check) and hold for every table, every address set, every port.
-/
import TvNetTable.Proofs.TableLemmas
import TvNetTable.Proofs.Egress
import TvNetTable.Proofs.Reach
import TvNetTable.Proofs.LiveReach

namespace TV
namespace C17

/-! ### bind -/

/-- `bind` with an explicit port succeeds exactly when the address is the wildcard or local and
    no binding of the same protocol space and port has the same address or a wildcard on either
    side; otherwise the error is `AddrNotAvailable` (non-local) resp. `AddrInUse` (conflict).
    The verdict coincides with the specification `Spec.bindVerdict` over the bound keys. -/
theorem bind_iff (k : Kernel) (ip : Ip) (port : Nat) (tcp : Bool) (hp : port ≠ 0) :
    ((∃ r, k.bind ip port tcp = .ok r) ↔
        (ip.isUnspec = true ∨ k.isLocal ip = true) ∧
        ∀ e ∈ k.tbl.bindings, Spec.conflicts e.1 ⟨ip.v6, tcp, ip, port⟩ = false) ∧
    (ip.isUnspec = false → k.isLocal ip = false → k.bind ip port tcp = .error .addrNotAvailable) ∧
    ((ip.isUnspec = true ∨ k.isLocal ip = true) →
        (∃ e ∈ k.tbl.bindings, Spec.conflicts e.1 ⟨ip.v6, tcp, ip, port⟩ = true) →
        k.bind ip port tcp = .error .addrInUse) ∧
    ((match k.bind ip port tcp with
      | .ok _ => Spec.BindVerdict.ok
      | .error .addrNotAvailable => .addrNotAvailable
      | .error _ => .addrInUse) =
      Spec.bindVerdict (k.isLocal ip) (k.tbl.bindings.map (·.1)) ⟨ip.v6, tcp, ip, port⟩) := by
  have hp' : (port == 0) = false := by simpa using hp
  have hcf := bindConflict_false_iff k.tbl.bindings ⟨ip.v6, tcp, ip, port⟩
  have hct := bindConflict_true_iff k.tbl.bindings ⟨ip.v6, tcp, ip, port⟩
  unfold Spec.bindVerdict
  rw [← bindConflict_eq]
  cases hc : Kernel.bindConflict k.tbl.bindings ⟨ip.v6, tcp, ip, port⟩
  · have hall := hcf.mp hc
    have hnone : ¬ ∃ e ∈ k.tbl.bindings, Spec.conflicts e.1 ⟨ip.v6, tcp, ip, port⟩ = true := by
      rintro ⟨e, he, h⟩; rw [hall e he] at h; exact absurd h (by simp)
    cases hu : ip.isUnspec <;> cases hl : k.isLocal ip <;>
      simp [Kernel.bind, hu, hl, hp', hc, hnone] <;>
      (try (intro a b hab; exact hall (a, b) hab))
  · have hex := hct.mp hc
    have hnall : ¬ ∀ e ∈ k.tbl.bindings, Spec.conflicts e.1 ⟨ip.v6, tcp, ip, port⟩ = false := by
      intro h; obtain ⟨e, he, hce⟩ := hex; rw [h e he] at hce; exact absurd hce (by simp)
    cases hu : ip.isUnspec <;> cases hl : k.isLocal ip <;>
      simp [Kernel.bind, hu, hl, hp', hc, hex] <;>
      (try (obtain ⟨e, he, hce⟩ := hex; exact ⟨e.1, ⟨e.2, he⟩, hce⟩))

/-- What a successful bind leaves behind: a fresh fd, bound to exactly the requested key, found
    by the demux index. -/
theorem bind_effect (k k' : Kernel) (ip : Ip) (port : Nat) (tcp : Bool) (fd : Fd) (hp : port ≠ 0)
    (h : k.bind ip port tcp = .ok (k', fd)) :
    fd = k.tbl.nextId ∧
    (k'.tbl.get fd).map (·.bound) = some (some ⟨ip.v6, tcp, ip, port⟩) ∧
    fd ∈ k'.tbl.findByBind ⟨ip.v6, tcp, ip, port⟩ ∧
    k'.addrs = k.addrs := by
  have hp' : (port == 0) = false := by simpa using hp
  by_cases hloc : (!ip.isUnspec && !k.isLocal ip) = true
  · simp [Kernel.bind, hloc] at h
  by_cases hconf : Kernel.bindConflict k.tbl.bindings ⟨ip.v6, tcp, ip, port⟩ = true
  · simp [Kernel.bind, hloc, hp', hconf] at h
  simp only [Kernel.bind, hloc, hp', hconf, Bool.false_eq_true, ite_false, Table.insertWith,
    Table.insertBinding, Except.ok.injEq, Prod.mk.injEq] at h
  obtain ⟨rfl, rfl⟩ := h
  have hnokey : (k.tbl.bindings.any fun x => x.1 == (⟨ip.v6, tcp, ip, port⟩ : BindKey)) = false := by
    have hf := (bindConflict_false_iff _ _).mp (by simpa using hconf)
    rw [List.any_eq_false]
    intro e he heq
    have hk : e.1 = ⟨ip.v6, tcp, ip, port⟩ := by simpa using heq
    have := hf e he
    rw [hk] at this
    simp [Spec.conflicts, Spec.sameSpace] at this
  refine ⟨rfl, ?_, ?_, rfl⟩
  · simp [Table.get]
  · simp [Table.findByBind, Table.insertBindingL, hnokey]

example : (match ({ addrs := [⟨false, 10⟩] } : Kernel).bind ⟨false, 10⟩ 5000 false with
    | .ok _ => true | _ => false) = true := by decide
example : (match ({ addrs := [⟨false, 10⟩] } : Kernel).bind ⟨false, 0⟩ 5000 false with
    | .ok (k, _) => (match k.bind ⟨false, 10⟩ 5000 false with | .error .addrInUse => true | _ => false)
    | _ => false) = true := by decide

/-! ### port 0 -/

def CursorOk (t : Table) : Prop := t.lo ≤ t.cursor ∧ t.cursor ≤ t.hi

/-- `allocate_port`: with the cursor inside the ephemeral range the result is a port of the
    range that no binding of this protocol space uses at any address; `none` exactly when every
    port of the range is so used; the cursor stays inside the range. -/
theorem port0_fresh (t : Table) (v6 tcp : Bool) (hc : CursorOk t) :
    (∀ p t', t.allocatePort v6 tcp = (some p, t') →
        t.lo ≤ p ∧ p ≤ t.hi ∧
        (∀ e ∈ t.bindings, ¬(e.1.v6 = v6 ∧ e.1.tcp = tcp ∧ e.1.port = p)) ∧
        CursorOk t' ∧ t'.bindings = t.bindings ∧ t'.socks = t.socks ∧ t'.lo = t.lo ∧ t'.hi = t.hi) ∧
    (∀ t', t.allocatePort v6 tcp = (none, t') →
        (∀ q, t.lo ≤ q → q ≤ t.hi → ∃ e ∈ t.bindings, e.1.v6 = v6 ∧ e.1.tcp = tcp ∧ e.1.port = q) ∧ t' = t) ∧
    ((∃ q, t.lo ≤ q ∧ q ≤ t.hi ∧ ∀ e ∈ t.bindings, ¬(e.1.v6 = v6 ∧ e.1.tcp = tcp ∧ e.1.port = q)) →
        ∃ p t', t.allocatePort v6 tcp = (some p, t')) := by
  have hspec := allocate_spec t.lo t.hi t.cursor (t.portInUse v6 tcp) hc.1 hc.2
  have huse : ∀ q, t.portInUse v6 tcp q = true ↔ ∃ e ∈ t.bindings, e.1.v6 = v6 ∧ e.1.tcp = tcp ∧ e.1.port = q := by
    intro q
    simp only [Table.portInUse, List.any_eq_true]
    constructor
    · rintro ⟨⟨e, fds⟩, he, h⟩
      refine ⟨(e, fds), he, ?_⟩
      simpa [Bool.and_eq_true, and_assoc] using h
    · rintro ⟨⟨e, fds⟩, he, h⟩
      refine ⟨(e, fds), he, ?_⟩
      simpa [Bool.and_eq_true, and_assoc] using h
  refine ⟨?_, ?_, ?_⟩
  · intro p t' h
    simp only [Table.allocatePort] at h
    cases ha : allocate t.lo t.hi t.cursor (t.portInUse v6 tcp) with
    | mk r c =>
      rw [ha] at h
      simp only [Prod.mk.injEq] at h
      obtain ⟨rfl, rfl⟩ := h
      have := hspec.1 p c ha
      refine ⟨this.1, this.2.1, ?_, ⟨this.2.2.2.1, this.2.2.2.2⟩, rfl, rfl, rfl, rfl⟩
      intro e he hcontra
      have hu := (huse p).mpr ⟨e, he, hcontra⟩
      rw [this.2.2.1] at hu
      exact absurd hu (by simp)
  · intro t' h
    simp only [Table.allocatePort] at h
    cases ha : allocate t.lo t.hi t.cursor (t.portInUse v6 tcp) with
    | mk r c =>
      rw [ha] at h
      simp only [Prod.mk.injEq] at h
      obtain ⟨rfl, rfl⟩ := h
      have := hspec.2 c ha
      refine ⟨fun q h1 h2 => (huse q).mp (this.1 q h1 h2), ?_⟩
      rw [this.2]
  · rintro ⟨q, h1, h2, hfree⟩
    have hf : t.portInUse v6 tcp q = false := by
      cases hq : t.portInUse v6 tcp q with
      | false => rfl
      | true => exact absurd ((huse q).mp hq) (by
          rintro ⟨e, he, h⟩
          exact hfree e he h)
    obtain ⟨p, c, h⟩ := allocate_finds t.lo t.hi t.cursor (t.portInUse v6 tcp) hc.1 hc.2 q h1 h2 hf
    exact ⟨p, { t with cursor := c }, by simp [Table.allocatePort, h]⟩

example : CursorOk ({} : Table) := ⟨by decide, by decide⟩
/-- a one-port range whose port is free: the scan must look at it before giving up -/
example : (({ lo := 50000, hi := 50000, cursor := 50000 } : Table).allocatePort false false).1 = some 50000 := by decide
/-- range one short of exhaustion, the free port is the one just behind the cursor -/
example : (({ lo := 50000, hi := 50002, cursor := 50002, bindings := [(⟨false, false, ⟨false, 10⟩, 50000⟩, [1]), (⟨false, false, ⟨false, 10⟩, 50002⟩, [2])] } : Table).allocatePort false false).1 = some 50001 := by
  decide
/-- wrap-around: cursor at the top of the range, top port taken -/
example : (({ cursor := 65535, bindings := [(⟨false, false, ⟨false, 10⟩, 65535⟩, [1])] } : Table).allocatePort false false).1
    = some 49152 := by decide

/-! ### close -/

/-- Removing a socket clears every index entry that points at it and nothing else; afterwards
    only bindings held by *other* sockets can still make a bind fail. -/
theorem close_frees (t : Table) (fd : Fd) :
    (∀ e ∈ (t.remove fd).bindings, fd ∉ e.2 ∧ e.2 ≠ []) ∧
    (∀ c ∈ (t.remove fd).conns, c.2 ≠ fd) ∧
    (t.remove fd).get fd = none ∧
    (∀ fd' k, fd' ≠ fd →
      ((∃ fds, (k, fds) ∈ (t.remove fd).bindings ∧ fd' ∈ fds) ↔ (∃ fds, (k, fds) ∈ t.bindings ∧ fd' ∈ fds))) ∧
    (∀ key, Kernel.bindConflict (t.remove fd).bindings key = true →
      ∃ e ∈ t.bindings, Spec.conflicts e.1 key = true ∧ ∃ fd' ∈ e.2, fd' ≠ fd) :=
  ⟨fun e he => ⟨Table.remove_bindings_no_fd t fd e he, Table.remove_bindings_nonempty t fd e he⟩,
   Table.remove_conns_no_fd t fd, Table.remove_get t fd,
   fun fd' k hne => Table.remove_bindings_other t fd fd' hne k,
   fun key h => conflict_after_remove t fd key h⟩

/-- `close` of a datagram socket is exactly that removal. -/
theorem close_udp (k : Kernel) (fd : Fd) (s : Sock) (hs : k.tbl.get fd = some s) (hu : s.tcp = false) :
    (k.close fd).tbl = k.tbl.remove fd := by
  unfold Kernel.close
  rw [hs]
  simp only
  split
  · simp [hu]
  · simp [hu]
  · rfl

example : (match ({ addrs := [⟨false, 10⟩] } : Kernel).bind ⟨false, 10⟩ 5000 false with
    | .ok (k, fd) => (match (k.close fd).bind ⟨false, 0⟩ 5000 false with | .ok _ => true | _ => false)
    | _ => false) = true := by decide

/-! ### UDP demux -/

/-- A datagram goes to the socket bound exactly to its destination, else to the wildcard socket
    on that port, else nowhere; a connected socket takes it only from its peer; no other socket
    of the host is touched. -/
theorem udp_demux (k : Kernel) (src dst : Ep) (tag : Nat) :
    (∀ fd, (k.tbl.findByBind ⟨dst.ip.v6, false, dst.ip, dst.port⟩).head? = some fd →
        Kernel.udpTarget k.tbl dst = some fd) ∧
    ((k.tbl.findByBind ⟨dst.ip.v6, false, dst.ip, dst.port⟩).head? = none →
        Kernel.udpTarget k.tbl dst = (k.tbl.findByBind ⟨dst.ip.v6, false, Ip.unspec dst.ip.v6, dst.port⟩).head?) ∧
    (Kernel.udpTarget k.tbl dst = none → k.deliverUdp src dst tag = k) ∧
    (∀ fd s p, Kernel.udpTarget k.tbl dst = some fd → k.tbl.get fd = some s → s.peer = some p → p ≠ src →
        k.deliverUdp src dst tag = k) ∧
    (∀ fd s, Kernel.udpTarget k.tbl dst = some fd → k.tbl.get fd = some s → (s.peer = none ∨ s.peer = some src) →
        (k.deliverUdp src dst tag).tbl = k.tbl.modify fd fun s => { s with recvq := s.recvq ++ [(src, tag)] }) ∧
    (∀ fd', Kernel.udpTarget k.tbl dst ≠ some fd' → (k.deliverUdp src dst tag).tbl.get fd' = k.tbl.get fd') := by
  refine ⟨?_, ?_, ?_, ?_, ?_, ?_⟩
  · intro fd h; simp [Kernel.udpTarget, h]
  · intro h; simp [Kernel.udpTarget, h]
  · intro h; simp [Kernel.deliverUdp, h]
  · intro fd s p ht hg hp hne
    have hb : (p != src) = true := by simpa using hne
    simp [Kernel.deliverUdp, ht, hg, hp, hb]
  · intro fd s ht hg hp
    rcases hp with hp | hp
    · simp [Kernel.deliverUdp, ht, hg, hp]
    · simp [Kernel.deliverUdp, ht, hg, hp]
  · intro fd' hne
    unfold Kernel.deliverUdp
    split
    · rfl
    · rename_i fd ht
      have hfd : fd' ≠ fd := fun h => hne (by rw [ht, h])
      repeat' split
      all_goals first | rfl | exact Table.get_modify_ne _ _ _ _ (fun _ => rfl) hfd

example : (match ({ addrs := [⟨false, 10⟩] } : Kernel).bind ⟨false, 0⟩ 5000 false with
    | .ok (k, fd) => Kernel.udpTarget k.tbl ⟨⟨false, 10⟩, 5000⟩ == some fd
    | _ => false) = true := by decide

/-! ### TCP demux -/

/-- A segment goes to the connection indexed by its 4-tuple if there is one; otherwise a bare SYN
    goes to a listener bound to the exact address, else to one bound to the wildcard, else is
    answered with RST; any other segment is answered with RST unless it is itself a RST. -/
theorem tcp_demux (t : Table) (l r : Ep) (syn ack rst : Bool) :
    (∀ fd, t.findConn l r = some fd → Kernel.tcpDemux t l r syn ack rst = .conn fd) ∧
    (t.findConn l r = none → syn = true → ack = false →
        (∀ fd, Kernel.findListener t l = some fd → Kernel.tcpDemux t l r syn ack rst = .listener fd) ∧
        (Kernel.findListener t l = none → Kernel.tcpDemux t l r syn ack rst = .rst)) ∧
    (t.findConn l r = none → (syn = false ∨ ack = true) →
        Kernel.tcpDemux t l r syn ack rst = if rst then .ignore else .rst) ∧
    ((∀ fd, (t.findByBind ⟨l.ip.v6, true, l.ip, l.port⟩).find? (Kernel.isListener t) = some fd →
        Kernel.findListener t l = some fd) ∧
     ((t.findByBind ⟨l.ip.v6, true, l.ip, l.port⟩).find? (Kernel.isListener t) = none →
        Kernel.findListener t l =
          (t.findByBind ⟨l.ip.v6, true, Ip.unspec l.ip.v6, l.port⟩).find? (Kernel.isListener t))) := by
  refine ⟨?_, ?_, ?_, ?_⟩
  · intro fd h; simp [Kernel.tcpDemux, h]
  · intro h hs ha
    subst hs; subst ha
    refine ⟨?_, ?_⟩
    · intro fd hl; simp [Kernel.tcpDemux, h, hl]
    · intro hl; simp [Kernel.tcpDemux, h, hl]
  · intro h hsa
    rcases hsa with hs | ha
    · subst hs; cases rst <;> simp [Kernel.tcpDemux, h]
    · subst ha; cases rst <;> simp [Kernel.tcpDemux, h]
  · exact ⟨fun fd h => by simp only [Kernel.findListener, h], fun h => by simp only [Kernel.findListener, h]⟩

/-! ### fabric -/

/-- no registered address is a loopback address (`try_add_host` rejects them) -/
def NoLoopback (f : Fabric) : Prop := ∀ e ∈ f.ipToHost, e.1.isLoopback = false

instance (f : Fabric) : Decidable (NoLoopback f) :=
  inferInstanceAs (Decidable (∀ e ∈ f.ipToHost, e.1.isLoopback = false))

theorem noLoopback_addHost (f : Fabric) (addrs : List Ip) (h : NoLoopback f)
    (ha : ∀ a ∈ addrs, a.isLoopback = false) : NoLoopback (f.addHost addrs) := by
  intro e he
  simp only [Fabric.addHost, List.mem_append, List.mem_map] at he
  rcases he with he | ⟨a, ha', rfl⟩
  · exact h e he
  · exact ha a ha'

theorem modHost_other (f : Fabric) (i j : Nat) (g : Kernel → Kernel) (hne : j ≠ i) :
    (f.modHost i g).hosts[j]? = f.hosts[j]? := by
  simp only [Fabric.modHost, List.getElem?_mapIdx]
  cases f.hosts[j]? with
  | none => rfl
  | some k =>
    have : (j == i) = false := by simpa using hne
    simp [this]

/-- The fabric hands a packet only to the host that owns its destination address; a packet for
    an address nobody owns — or for a loopback address — changes nothing; and `egress` never
    hands out a packet addressed to the emitting host itself. -/
theorem fabric (f : Fabric) (p : Pkt) :
    (∀ i, f.hostForIp p.dst.ip = some i → ∀ j, j ≠ i → (f.deliver p).hosts[j]? = f.hosts[j]?) ∧
    (f.hostForIp p.dst.ip = none → f.deliver p = f) ∧
    (NoLoopback f → p.dst.ip.isLoopback = true → f.deliver p = f) ∧
    (∀ (k : Kernel) (out : List Pkt), ∀ q ∈ (k.egress out).2, q ∈ out ∨ k.isLocal q.dst.ip = false) := by
  refine ⟨?_, ?_, ?_, ?_⟩
  · intro i hi j hne
    simp only [Fabric.deliver, hi]
    exact modHost_other f i j _ hne
  · intro h; simp [Fabric.deliver, h]
  · intro hn hl
    have : f.hostForIp p.dst.ip = none := by
      simp only [Fabric.hostForIp, Option.map_eq_none_iff, List.find?_eq_none]
      intro e he
      have := hn e he
      intro heq
      have : e.1 = p.dst.ip := by simpa using heq
      rw [this] at *
      simp_all
    simp [Fabric.deliver, this]
  · intro k out; exact (Kernel.egress_nonlocal k out).2

example : NoLoopback ((({} : Fabric).addHost [⟨false, 10⟩]).addHost [⟨false, 20⟩, ⟨true, 20⟩]) := by decide
example : ((({} : Fabric).addHost [⟨false, 10⟩]).addHost [⟨false, 20⟩]).hostForIp ⟨false, 20⟩ = some 1 := by decide

/-! ### the binding index in every reachable state -/

/-- **Index invariant, all reachable states.** Start from the empty fabric and apply any list of
    operations — adding hosts (any repair flags), any application call on any host (`bind` with
    explicit port or port 0, `TcpListener::bind`, UDP connect / send / receive, `connect` with
    its implicit bind, `accept`, `close`), delivery of any packet, `egress_all`, pumping the
    wire.  In every host of the resulting fabric: every `bindings` entry is non-empty and each
    fd in it is a socket of the table bound to exactly that key; every bound socket is listed
    under its key; keys are distinct; fds are unique and below the counter. -/
theorem index_invariant (ops : List FOp) :
    ∀ k ∈ (ops.foldl FOp.apply ({} : Fabric)).hosts, TInv k.tbl :=
  finv_run ops

/-- The same for one kernel in an arbitrary environment (any packets may arrive). -/
theorem index_invariant_kernel (k : Kernel) (h0 : TInv k.tbl) (ops : List KOp) :
    TInv ((KState.run ⟨k, []⟩ ops).k.tbl) :=
  kinv_run ⟨k, []⟩ ops h0

/-- Consequence: `bind` conflicts are conflicts with *sockets of the table*. -/
theorem conflict_iff_socket (t : Table) (h : TInv t) (key : BindKey) :
    (∃ e ∈ t.bindings, Spec.conflicts e.1 key = true) ↔
      (∃ s ∈ t.socks, ∃ b, s.bound = some b ∧ Spec.conflicts b key = true) := by
  constructor
  · rintro ⟨e, he, hc⟩
    obtain ⟨x, hx⟩ := List.exists_mem_of_ne_nil _ (h.nonempty e he)
    obtain ⟨s, hs, _, hb⟩ := h.sound e he x hx
    exact ⟨s, hs, e.1, hb, hc⟩
  · rintro ⟨s, hs, b, hb, hc⟩
    obtain ⟨e, he, hk, _⟩ := h.complete s hs b hb
    exact ⟨e, he, by rw [hk]; exact hc⟩

example : TInv ((KState.run ⟨{ addrs := [⟨false, 10⟩] }, []⟩
    [.tlisten ⟨false, 10⟩ 80, .bind ⟨false, 0⟩ 0, .connect ⟨⟨false, 10⟩, 80⟩, .egress, .close 1]).k.tbl) :=
  index_invariant_kernel _ tinv_empty _

/-! ### Finding F-C17-1: an aborted, never-accepted child keeps its binding for ever

  `close_frees` and `bind_iff` are about the sockets *in the table*.  The property speaks about
  *live* sockets.  The two differ for a child socket that a listener created on a SYN and that
  was aborted (peer RST, or SYN-ACK retransmissions exhausted) before it was ever accepted:
  nothing owns it, nothing reaps it (`reap_closed` only looks at `fd_closed` sockets,
  `CloseListener` only at `ready` and `SynReceived` children), `netstat` hides it, and its
  binding `(addr, port)` makes every later bind of that address/port fail with `AddrInUse`. -/

/-- listen on `a:p`, receive a SYN from `src`, receive the RST that answers the SYN-ACK (the
    client gave up), close the listener, bind `a:p` again: does the second bind succeed? -/
def rebindAfterAbort (fix : Bool) (a : Ip) (p : Nat) (src : Ep) : Bool :=
  let k0 : Kernel := { addrs := [a], fixReap := fix }
  match k0.bind a p true with
  | .error _ => false
  | .ok (k1, l) =>
    let k2 := (k1.listen l).deliver ⟨src, ⟨a, p⟩, .tcp true false false false⟩
    let k3 := k2.deliver ⟨src, ⟨a, p⟩, .tcp false false false true⟩
    let k4 := k3.close l
    -- no application handle exists any more
    match k4.bind a p true with
    | .ok _ => true
    | .error _ => false

/-- The clause of C17 at stake, on this family of histories: once the only application socket on
    `a:p` is closed, `a:p` can be bound again. -/
def C17_Statement (fix : Bool) : Prop :=
  ∀ (a : Ip) (p : Nat) (src : Ep), a.isUnspec = false → a.isLoopback = false → p ≠ 0 → src.ip ≠ a →
    rebindAfterAbort fix a p src = true

/-- False on the faithful model of the code as it is. -/
theorem C17_witness_F1 : ¬ C17_Statement false := by
  intro h
  have := h ⟨false, 10⟩ 80 ⟨⟨false, 20⟩, 41001⟩ (by decide) (by decide) (by decide) (by decide)
  revert this
  decide

/-- With the repair (`fixReap`) the same history ends with a successful bind. -/
theorem C17_fixed_instance : rebindAfterAbort true ⟨false, 10⟩ 80 ⟨⟨false, 20⟩, 41001⟩ = true := by decide

/-- What is proved at full generality about closing: `C17_partial` = the table-level facts. Every
    failure of `bind` is caused by a binding present in the index (`bind_iff`), removal clears
    exactly the removed socket's entries (`close_frees`); the finding is precisely a socket
    that is never removed. -/
theorem C17_partial (k : Kernel) (ip : Ip) (port : Nat) (tcp : Bool) (hp : port ≠ 0)
    (hloc : ip.isUnspec = true ∨ k.isLocal ip = true) :
    k.bind ip port tcp = .error .addrInUse ↔
      ∃ e ∈ k.tbl.bindings, Spec.conflicts e.1 ⟨ip.v6, tcp, ip, port⟩ = true := by
  have hb := bind_iff k ip port tcp hp
  constructor
  · intro herr
    cases hc : Kernel.bindConflict k.tbl.bindings ⟨ip.v6, tcp, ip, port⟩ with
    | true => exact (bindConflict_true_iff _ _).mp hc
    | false =>
      have hall := (bindConflict_false_iff _ _).mp hc
      obtain ⟨r, hr⟩ := hb.1.mpr ⟨hloc, hall⟩
      rw [hr] at herr
      exact absurd herr (by simp)
  · intro hex
    exact hb.2.2.1 hloc hex

/-! ### the repaired model: no socket without an owner (network side, all histories)

  `Live k owned` (Proofs/Live.lean): the index invariant `TInv`, the connection index points at
  sockets bound to the connection's local endpoint, listeners are application-owned TCB-less
  stream sockets that are not closed, and **every socket of the table is live**: held by an
  application handle (`owned`), or lingering after its application closed it (`fd_closed`), or an
  unaccepted child of a live listener — still `SynReceived` with a listener bound to its endpoint
  (exactly or by wildcard), or waiting in some listener's accept queue.  An aborted orphan as in
  F-C17-1 is none of these. -/

/-- **No network event creates an orphan** (repaired model, `fixReap = true`): from any live state,
    any sequence of packet deliveries — arbitrary packets, any flags, any addresses — and egress
    passes (retransmission sweep with its aborts, FIN emission, loopback fold-back, reaping)
    leaves every socket live, with the same set of application handles. -/
theorem C17_fixed_network (k : Kernel) (owned : List Fd) (h : Live k owned) (evs : List Kernel.NetEvent) :
    Live (Kernel.netRun k evs) owned :=
  Kernel.live_netRun k owned evs h

/-- In a live state a bind refused with `AddrInUse` is refused because of a **live** socket: one
    that an application still holds, that is lingering, or that is an unaccepted child of a live
    listener. -/
theorem C17_fixed_conflict_live (k : Kernel) (owned : List Fd) (h : Live k owned) (ip : Ip) (port : Nat)
    (tcp : Bool) (hp : port ≠ 0) (hloc : ip.isUnspec = true ∨ k.isLocal ip = true)
    (herr : k.bind ip port tcp = .error .addrInUse) :
    ∃ s ∈ k.tbl.socks, ∃ b, s.bound = some b ∧ Spec.conflicts b ⟨ip.v6, tcp, ip, port⟩ = true ∧
      LiveSock k.tbl owned s := by
  obtain ⟨s, hs, b, hb, hc⟩ :=
    (conflict_iff_socket k.tbl h.tinv _).mp ((C17_partial k ip port tcp hp hloc).mp herr)
  exact ⟨s, hs, b, hb, hc, h.live s hs⟩

/-- The witness family of F-C17-1, generalised: from any live state, open a listener (any
    address, any port incl. 0), then let the network do anything at all; the state stays live, so a
    later `AddrInUse` can only come from a live socket (`C17_fixed_conflict_live`). -/
theorem C17_fixed_listener (k : Kernel) (owned : List Fd) (h : Live k owned) (ip : Ip) (port : Nat)
    (k' : Kernel) (fd : Fd) (hb : k.bind ip port true = .ok (k', fd)) (evs : List Kernel.NetEvent) :
    Live (Kernel.netRun (k'.listen fd) evs) (fd :: owned) :=
  Kernel.live_netRun _ _ evs (Kernel.live_tlisten k owned ip port k' fd hb h)

/-- Per-operation form (kept from the first round; superseded by `C17_fixed` below, which
    also covers `connect`, `accept` and `close`): from any live state each of these preserves
    `Live`. -/
theorem C17_fixed_partial (k : Kernel) (owned : List Fd) (h : Live k owned) :
    (∀ evs, Live (Kernel.netRun k evs) owned) ∧
    (∀ ip port tcp k' fd, k.bind ip port tcp = .ok (k', fd) → Live k' (fd :: owned)) ∧
    (∀ ip port k' fd, k.bind ip port true = .ok (k', fd) → Live (k'.listen fd) (fd :: owned)) ∧
    (∀ fd peer k', k.udpConnect fd peer = .ok k' → Live k' owned) ∧
    (∀ fd dst tag k', k.udpSendTo fd dst tag = .ok k' → Live k' owned) ∧
    (∀ fd k' e tag, k.recvFrom fd = some (k', e, tag) → Live k' owned) :=
  ⟨fun evs => Kernel.live_netRun k owned evs h,
   fun ip port tcp k' fd hb => (Kernel.live_bind k owned ip port tcp k' fd hb h).1,
   fun ip port k' fd hb => Kernel.live_tlisten k owned ip port k' fd hb h,
   fun fd peer k' hk => Kernel.live_udpConnect k owned fd peer k' hk h,
   fun fd dst tag k' hk => Kernel.live_udpSendTo k owned fd dst tag k' hk h,
   fun fd k' e tag hk => Kernel.live_recvFrom k owned fd k' e tag hk h⟩

/-- **`C17_fixed` — all histories of application calls and network events (repaired model).**
    Start from an empty repaired kernel (any addresses, any other flags) and apply any list of
    operations: `UdpSocket::bind` / `TcpListener::bind` (any address, explicit port or port 0),
    UDP connect / send / receive, `TcpStream::connect` (first poll with its implicit bind, or its
    immediate failure), `accept`, `close` of any held socket (plain reap, lingering close,
    close-listener with its sweep of unaccepted children), delivery of *any* packet, `egress`.
    Calls on fds the application does not hold are impossible through the shim and are no-ops.
    In the state reached:
    * `Live`: every socket of the table is held by an application handle, or lingering after its
      application closed it, or an unaccepted child of a live listener (and the binding index,
      the connection index and the accept queues are consistent);
    * hence a `bind` refused with `AddrInUse` is refused because of such a live socket bound to a
      conflicting key — never because of a leftover like the aborted child of F-C17-1. -/
theorem C17_fixed (k0 : Kernel) (h0 : k0.tbl = {}) (hfix : k0.fixReap = true) (ops : List KOp) :
    Live (KState.run ⟨k0, []⟩ ops).k (KState.run ⟨k0, []⟩ ops).owned ∧
    ∀ (ip : Ip) (port : Nat) (tcp : Bool), port ≠ 0 →
      (ip.isUnspec = true ∨ (KState.run ⟨k0, []⟩ ops).k.isLocal ip = true) →
      (KState.run ⟨k0, []⟩ ops).k.bind ip port tcp = .error .addrInUse →
      ∃ s ∈ (KState.run ⟨k0, []⟩ ops).k.tbl.socks, ∃ b, s.bound = some b ∧
        Spec.conflicts b ⟨ip.v6, tcp, ip, port⟩ = true ∧
        LiveSock (KState.run ⟨k0, []⟩ ops).k.tbl (KState.run ⟨k0, []⟩ ops).owned s := by
  have hl := live_run ⟨k0, []⟩ ops (Kernel.live_empty k0 h0 hfix)
  exact ⟨hl, fun ip port tcp hp hloc herr => C17_fixed_conflict_live _ _ hl ip port tcp hp hloc herr⟩

/-- the same from any live state (e.g. in the middle of a run) -/
theorem C17_fixed_from (st : KState) (h : Live st.k st.owned) (ops : List KOp) :
    Live (st.run ops).k (st.run ops).owned :=
  live_run st ops h

/-- non-vacuity of `C17_fixed`: the F-C17-1 history and more, on the repaired model -/
example : Live (KState.run ⟨{ addrs := [⟨false, 10⟩], fixReap := true }, []⟩
    [.tlisten ⟨false, 10⟩ 80,
     .deliver ⟨⟨⟨false, 20⟩, 41001⟩, ⟨⟨false, 10⟩, 80⟩, .tcp true false false false⟩,
     .deliver ⟨⟨⟨false, 20⟩, 41001⟩, ⟨⟨false, 10⟩, 80⟩, .tcp false false false true⟩,
     .connect ⟨⟨false, 10⟩, 80⟩, .egress, .accept 1, .close 1, .egress, .tlisten ⟨false, 10⟩ 80]).k
    (KState.run ⟨{ addrs := [⟨false, 10⟩], fixReap := true }, []⟩
    [.tlisten ⟨false, 10⟩ 80,
     .deliver ⟨⟨⟨false, 20⟩, 41001⟩, ⟨⟨false, 10⟩, 80⟩, .tcp true false false false⟩,
     .deliver ⟨⟨⟨false, 20⟩, 41001⟩, ⟨⟨false, 10⟩, 80⟩, .tcp false false false true⟩,
     .connect ⟨⟨false, 10⟩, 80⟩, .egress, .accept 1, .close 1, .egress, .tlisten ⟨false, 10⟩ 80]).owned :=
  (C17_fixed _ rfl rfl _).1

/-- non-vacuity: a fresh repaired kernel is live, and so is it after `TcpListener::bind`, a SYN,
    the RST that kills the half-open child, and an egress pass -/
example : Live ({ addrs := [⟨false, 10⟩], fixReap := true } : Kernel) [] :=
  Kernel.live_empty _ rfl rfl

example (k' : Kernel) (fd : Fd)
    (hb : ({ addrs := [⟨false, 10⟩], fixReap := true } : Kernel).bind ⟨false, 10⟩ 80 true = .ok (k', fd)) :
    Live (Kernel.netRun (k'.listen fd)
      [.deliver ⟨⟨⟨false, 20⟩, 41001⟩, ⟨⟨false, 10⟩, 80⟩, .tcp true false false false⟩,
       .deliver ⟨⟨⟨false, 20⟩, 41001⟩, ⟨⟨false, 10⟩, 80⟩, .tcp false false false true⟩, .egress]) [fd] :=
  C17_fixed_listener _ [] (Kernel.live_empty _ rfl rfl) ⟨false, 10⟩ 80 k' fd hb _

/-- the hypothesis of the previous example is satisfiable: that bind succeeds -/
example : (match ({ addrs := [⟨false, 10⟩], fixReap := true } : Kernel).bind ⟨false, 10⟩ 80 true with
    | .ok _ => true | .error _ => false) = true := by decide

end C17
end TV
