/-
  `Kernel::egress`: nothing addressed to the host itself (loopback or one of its own
  addresses) is ever handed to the caller.  Needs: no kernel step changes the address list.
-/
import TvNetTable.Model.Table

namespace TV
namespace Kernel

theorem foldl_addrs {α : Type} (f : Kernel → α → Kernel) (hf : ∀ k a, (f k a).addrs = k.addrs)
    (l : List α) (k : Kernel) : (l.foldl f k).addrs = k.addrs := by
  induction l generalizing k with
  | nil => rfl
  | cons a l ih => simp only [List.foldl_cons]; rw [ih, hf]

@[simp] theorem emit_addrs (k : Kernel) (p : Pkt) : (k.emit p).addrs = k.addrs := rfl
@[simp] theorem modTcb_addrs (k : Kernel) (fd : Fd) (f : Tcb → Tcb) : (k.modTcb fd f).addrs = k.addrs := rfl
@[simp] theorem emitRst_addrs (k : Kernel) (l r : Ep) (a : Bool) : (k.emitRst l r a).addrs = k.addrs := rfl

@[simp] theorem deliverUdp_addrs (k : Kernel) (s d : Ep) (t : Nat) : (k.deliverUdp s d t).addrs = k.addrs := by
  unfold deliverUdp
  repeat' (first | rfl | split | (dsimp only; split))
  all_goals first | rfl | simp

@[simp] theorem acceptSyn_addrs (k : Kernel) (lfd : Fd) (l r : Ep) : (k.acceptSyn lfd l r).addrs = k.addrs := by
  unfold acceptSyn
  repeat' (first | rfl | split | (dsimp only; split))
  all_goals first | rfl | simp

@[simp] theorem pushToListener_addrs (k : Kernel) (c : Fd) (l : Ep) : (k.pushToListener c l).addrs = k.addrs := by
  unfold pushToListener
  repeat' (first | rfl | split | (dsimp only; split))
  all_goals first | rfl | simp

@[simp] theorem handleEstablished_addrs (k : Kernel) (fd : Fd) (l r : Ep) (sy a f : Bool) :
    (k.handleEstablished fd l r sy a f).addrs = k.addrs := by
  unfold handleEstablished
  repeat' (first | rfl | split | (dsimp only; split))
  all_goals first | rfl | simp

@[simp] theorem handleOnConn_addrs (k : Kernel) (fd : Fd) (l r : Ep) (s a f rs hs : Bool) :
    (k.handleOnConn fd l r s a f rs hs).addrs = k.addrs := by
  unfold handleOnConn
  repeat' (first | rfl | split | (dsimp only; split))
  all_goals first | rfl | simp

@[simp] theorem deliverTcp_addrs (k : Kernel) (s d : Ep) (sy a f r hs : Bool) :
    (k.deliverTcp s d sy a f r hs).addrs = k.addrs := by
  unfold deliverTcp
  repeat' (first | rfl | split | (dsimp only; split))
  all_goals first | rfl | simp

@[simp] theorem deliver_addrs (k : Kernel) (p : Pkt) : (k.deliver p).addrs = k.addrs := by
  unfold deliver
  repeat' (first | rfl | split | (dsimp only; split))
  all_goals first | rfl | simp

@[simp] theorem segmentAll_addrs (k : Kernel) : k.segmentAll.addrs = k.addrs := by
  unfold segmentAll
  apply foldl_addrs
  intro k s0
  repeat' (first | rfl | split | (dsimp only; split))
  all_goals first | rfl | simp

@[simp] theorem checkRetx_addrs (k : Kernel) : k.checkRetx.addrs = k.addrs := by
  unfold checkRetx
  apply foldl_addrs
  intro k s0
  repeat' (first | rfl | split | (dsimp only; split))
  all_goals first | rfl | simp

@[simp] theorem reapClosed_addrs (k : Kernel) : k.reapClosed.addrs = k.addrs := rfl

theorem isLocal_congr {k k' : Kernel} (h : k'.addrs = k.addrs) (a : Ip) : k'.isLocal a = k.isLocal a := by
  simp [isLocal, h]

theorem drainOutbound_spec (k : Kernel) (drained out : List Pkt) :
    (drainOutbound k drained out).1.addrs = k.addrs ∧
    ∀ p ∈ (drainOutbound k drained out).2, p ∈ out ∨ k.isLocal p.dst.ip = false := by
  induction drained generalizing k out with
  | nil => exact ⟨rfl, fun p hp => Or.inl hp⟩
  | cons q qs ih =>
    unfold drainOutbound
    simp only [List.foldl_cons]
    by_cases hq : k.isLocal q.dst.ip = true
    · simp only [hq, ite_true]
      have := ih (k.deliver q) out
      unfold drainOutbound at this
      refine ⟨by rw [this.1, deliver_addrs], ?_⟩
      intro p hp
      rcases this.2 p hp with h | h
      · exact Or.inl h
      · exact Or.inr (by rw [← h]; exact (isLocal_congr (deliver_addrs k q) _).symm)
    · simp only [hq]
      have := ih k (out ++ [q])
      unfold drainOutbound at this
      refine ⟨this.1, ?_⟩
      intro p hp
      rcases this.2 p hp with h | h
      · rcases List.mem_append.mp h with h | h
        · exact Or.inl h
        · simp only [List.mem_singleton] at h
          subst h
          exact Or.inr (by simpa using hq)
      · exact Or.inr h

theorem egressLoop_spec (fuel : Nat) (k : Kernel) (out : List Pkt) :
    (egressLoop fuel k out).1.addrs = k.addrs ∧
    ∀ p ∈ (egressLoop fuel k out).2, p ∈ out ∨ k.isLocal p.dst.ip = false := by
  induction fuel generalizing k out with
  | zero => exact ⟨rfl, fun p hp => Or.inl hp⟩
  | succ n ih =>
    unfold egressLoop
    simp only []
    split
    · exact ⟨by simp, fun p hp => Or.inl hp⟩
    · have hd := drainOutbound_spec { k.segmentAll with outbound := [] } k.segmentAll.outbound out
      have hk : ({ k.segmentAll with outbound := [] } : Kernel).addrs = k.addrs := by simp
      have := ih (drainOutbound { k.segmentAll with outbound := [] } k.segmentAll.outbound out).1
                 (drainOutbound { k.segmentAll with outbound := [] } k.segmentAll.outbound out).2
      refine ⟨by rw [this.1, hd.1, hk], ?_⟩
      intro p hp
      rcases this.2 p hp with h | h
      · rcases hd.2 p h with h | h
        · exact Or.inl h
        · exact Or.inr (by rw [← h]; exact (isLocal_congr hk _).symm)
      · exact Or.inr (by rw [← h]; exact (isLocal_congr (hd.1.trans hk) _).symm)

/-- Everything `egress` appends to `out` is addressed to some other host. -/
theorem egress_nonlocal (k : Kernel) (out : List Pkt) :
    (k.egress out).1.addrs = k.addrs ∧
    ∀ p ∈ (k.egress out).2, p ∈ out ∨ k.isLocal p.dst.ip = false := by
  unfold egress
  have := egressLoop_spec 64 k.checkRetx out
  refine ⟨by simp [this.1], ?_⟩
  intro p hp
  rcases this.2 p hp with h | h
  · exact Or.inl h
  · exact Or.inr (by rw [← h]; exact (isLocal_congr (checkRetx_addrs k) _).symm)

end Kernel
end TV
