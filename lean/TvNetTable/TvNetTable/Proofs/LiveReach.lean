/-
  `Live` in every state reachable by application calls and network events (repaired model).
-/
import TvNetTable.Proofs.LiveOps7
import TvNetTable.Proofs.Reach

namespace TV

theorem Kernel.live_close (k : Kernel) (o : List Fd) (fd : Fd) (h : Live k o) :
    Live (k.close fd) (o.filter (· != fd)) := by
  cases hg : k.tbl.get fd with
  | none =>
    have : k.close fd = k := by unfold Kernel.close; simp only [hg]
    rw [this]
    exact Kernel.live_forget k o fd (Kernel.no_sock_of_get_none k.tbl h.tinv fd hg) h
  | some st =>
    cases hl : st.listen with
    | none => exact Kernel.live_close_plain k o fd st hg hl h
    | some ready => exact Kernel.live_close_listener k o fd st ready hg hl h

theorem live_apply (st : KState) (op : KOp) (h : Live st.k st.owned) :
    Live (op.apply st).k (op.apply st).owned := by
  cases op with
  | bind ip port =>
    simp only [KOp.apply]
    cases hb : st.k.bind ip port false with
    | error e => exact h
    | ok r => exact (Kernel.live_bind _ _ _ _ _ r.1 r.2 hb h).1
  | tlisten ip port =>
    simp only [KOp.apply]
    cases hb : st.k.bind ip port true with
    | error e => exact h
    | ok r => exact Kernel.live_tlisten _ _ _ _ r.1 r.2 hb h
  | udpConnect fd peer =>
    simp only [KOp.apply]
    split
    · cases hb : st.k.udpConnect fd peer with
      | error e => exact h
      | ok r => exact Kernel.live_udpConnect _ _ _ _ r hb h
    · exact h
  | udpSendTo fd dst tag =>
    simp only [KOp.apply]
    split
    · cases hb : st.k.udpSendTo fd dst tag with
      | error e => exact h
      | ok r => exact Kernel.live_udpSendTo _ _ _ _ _ r hb h
    · exact h
  | udpSend fd tag =>
    simp only [KOp.apply]
    split
    · cases hb : st.k.udpSend fd tag with
      | error e => exact h
      | ok r => exact Kernel.live_udpSend _ _ _ _ r hb h
    · exact h
  | recvFrom fd =>
    simp only [KOp.apply]
    split
    · cases hb : st.k.recvFrom fd with
      | none => exact h
      | some r => exact Kernel.live_recvFrom _ _ _ r.1 r.2.1 r.2.2 hb h
    · exact h
  | connect peer =>
    simp only [KOp.apply]
    cases hb : st.k.tcpConnectStart peer with
    | error r => exact (Kernel.live_connect _ _ peer h).1 r.1 r.2 hb
    | ok r => exact (Kernel.live_connect _ _ peer h).2 r.1 r.2 hb
  | accept fd =>
    simp only [KOp.apply]
    split
    · cases hb : st.k.accept fd with
      | none => exact h
      | some r => exact Kernel.live_accept _ _ _ r.1 r.2.1 r.2.2 hb h
    · exact h
  | close fd =>
    simp only [KOp.apply]
    split
    · exact Kernel.live_close _ _ _ h
    · exact h
  | deliver p => exact Kernel.live_deliver _ _ _ h
  | egress => exact Kernel.live_egress _ _ _ h

theorem live_run (st : KState) (ops : List KOp) (h : Live st.k st.owned) :
    Live (st.run ops).k (st.run ops).owned := by
  induction ops generalizing st with
  | nil => exact h
  | cons op ops ih => exact ih _ (live_apply st op h)

end TV
