/-
  Reachable states: operation lists over one kernel (with the set of fds the application
  holds), and over a fabric of kernels.  `TInv` holds in every reachable state.
-/
import TvNetTable.Proofs.InvKernel

namespace TV

/-- What an application (through the shim) and the network can do to one host's kernel. -/
inductive KOp
  | bind (ip : Ip) (port : Nat)                 -- UdpSocket::bind (port 0 = ephemeral)
  | tlisten (ip : Ip) (port : Nat)              -- TcpListener::bind = bind + listen
  | udpConnect (fd : Fd) (peer : Ep)
  | udpSendTo (fd : Fd) (dst : Ep) (tag : Nat)
  | udpSend (fd : Fd) (tag : Nat)
  | recvFrom (fd : Fd)
  | connect (peer : Ep)                         -- TcpStream::connect, first poll (auto-bind)
  | accept (fd : Fd)
  | close (fd : Fd)                             -- drop of a shim socket
  | deliver (p : Pkt)                           -- any packet from the wire
  | egress
deriving Inhabited

/-- Kernel state plus the fds held by application handles. Calls on an fd the application
    does not hold are impossible through the shim and are no-ops here. -/
structure KState where
  k : Kernel
  owned : List Fd := []

def KOp.apply (st : KState) : KOp → KState
  | .bind ip port =>
    match st.k.bind ip port false with
    | .ok (k', fd) => ⟨k', fd :: st.owned⟩
    | .error _ => st
  | .tlisten ip port =>
    match st.k.bind ip port true with
    | .ok (k', fd) => ⟨k'.listen fd, fd :: st.owned⟩
    | .error _ => st
  | .udpConnect fd peer =>
    if st.owned.contains fd then
      match st.k.udpConnect fd peer with | .ok k' => ⟨k', st.owned⟩ | .error _ => st
    else st
  | .udpSendTo fd dst tag =>
    if st.owned.contains fd then
      match st.k.udpSendTo fd dst tag with | .ok k' => ⟨k', st.owned⟩ | .error _ => st
    else st
  | .udpSend fd tag =>
    if st.owned.contains fd then
      match st.k.udpSend fd tag with | .ok k' => ⟨k', st.owned⟩ | .error _ => st
    else st
  | .recvFrom fd =>
    if st.owned.contains fd then
      match st.k.recvFrom fd with | some (k', _, _) => ⟨k', st.owned⟩ | none => st
    else st
  | .connect peer =>
    match st.k.tcpConnectStart peer with
    | .ok (k', fd) => ⟨k', fd :: st.owned⟩
    | .error (_, k') => ⟨k', st.owned⟩
  | .accept fd =>
    if st.owned.contains fd then
      match st.k.accept fd with | some (k', c, _) => ⟨k', c :: st.owned⟩ | none => st
    else st
  | .close fd =>
    if st.owned.contains fd then ⟨st.k.close fd, st.owned.filter (· != fd)⟩ else st
  | .deliver p => ⟨st.k.deliver p, st.owned⟩
  | .egress => ⟨(st.k.egress []).1, st.owned⟩

def KState.run (st : KState) (ops : List KOp) : KState := ops.foldl KOp.apply st

theorem kinv_apply (st : KState) (op : KOp) (h : Kernel.KInv st.k) : Kernel.KInv (op.apply st).k := by
  cases op with
  | bind ip port =>
    simp only [KOp.apply]
    cases hb : st.k.bind ip port false with
    | error e => exact h
    | ok r => exact Kernel.kinv_bind _ _ _ _ r.1 r.2 hb h
  | tlisten ip port =>
    simp only [KOp.apply]
    cases hb : st.k.bind ip port true with
    | error e => exact h
    | ok r => exact Kernel.kinv_listen _ _ (Kernel.kinv_bind _ _ _ _ r.1 r.2 hb h)
  | udpConnect fd peer =>
    simp only [KOp.apply]
    split
    · cases hb : st.k.udpConnect fd peer with
      | error e => exact h
      | ok r => exact Kernel.kinv_udpConnect _ _ _ r hb h
    · exact h
  | udpSendTo fd dst tag =>
    simp only [KOp.apply]
    split
    · cases hb : st.k.udpSendTo fd dst tag with
      | error e => exact h
      | ok r => exact Kernel.kinv_udpSendTo _ _ _ _ r hb h
    · exact h
  | udpSend fd tag =>
    simp only [KOp.apply]
    split
    · cases hb : st.k.udpSend fd tag with
      | error e => exact h
      | ok r => exact Kernel.kinv_udpSend _ _ _ r hb h
    · exact h
  | recvFrom fd =>
    simp only [KOp.apply]
    split
    · cases hb : st.k.recvFrom fd with
      | none => exact h
      | some r => exact Kernel.kinv_recvFrom _ _ r.1 r.2.1 r.2.2 hb h
    · exact h
  | connect peer =>
    simp only [KOp.apply]
    cases hb : st.k.tcpConnectStart peer with
    | error r => exact (Kernel.kinv_tcpConnectStart _ peer h).1 r.1 r.2 hb
    | ok r => exact (Kernel.kinv_tcpConnectStart _ peer h).2 r.1 r.2 hb
  | accept fd =>
    simp only [KOp.apply]
    split
    · cases hb : st.k.accept fd with
      | none => exact h
      | some r => exact Kernel.kinv_accept _ _ r.1 r.2.1 r.2.2 hb h
    · exact h
  | close fd =>
    simp only [KOp.apply]
    split
    · exact Kernel.kinv_close _ _ h
    · exact h
  | deliver p => exact Kernel.kinv_deliver _ _ h
  | egress => exact Kernel.kinv_egress _ _ h

theorem kinv_run (st : KState) (ops : List KOp) (h : Kernel.KInv st.k) : Kernel.KInv (st.run ops).k := by
  induction ops generalizing st with
  | nil => exact h
  | cons op ops ih => exact ih _ (kinv_apply st op h)

/-! ### a fabric of kernels -/

inductive FOp
  | addHost (addrs : List Ip) (fixReap fixAck fixRetxReset fixQuiet : Bool)
  | host (i : Nat) (owned : List Fd) (op : KOp)   -- an application call on host `i`
  | deliver (p : Pkt)
  | egressAll
  | pump (fuel : Nat)

def FInv (f : Fabric) : Prop := ∀ k ∈ f.hosts, Kernel.KInv k

theorem finv_modHost (f : Fabric) (i : Nat) (g : Kernel → Kernel) (hg : ∀ k, Kernel.KInv k → Kernel.KInv (g k))
    (h : FInv f) : FInv (f.modHost i g) := by
  intro k hk
  simp only [Fabric.modHost, List.mem_mapIdx] at hk
  obtain ⟨j, hj, rfl⟩ := hk
  have hm : f.hosts[j] ∈ f.hosts := List.getElem_mem hj
  split
  · exact hg _ (h _ hm)
  · exact h _ hm

theorem finv_deliver (f : Fabric) (p : Pkt) (h : FInv f) : FInv (f.deliver p) := by
  unfold Fabric.deliver
  split
  · exact finv_modHost f _ _ (fun k hk => Kernel.kinv_deliver k p hk) h
  · exact h

theorem finv_egressAll (f : Fabric) (h : FInv f) : FInv f.egressAll.1 := by
  unfold Fabric.egressAll
  have key : ∀ (l : List Kernel) (acc : List Kernel × List Pkt),
      (∀ k ∈ l, Kernel.KInv k) → (∀ k ∈ acc.1, Kernel.KInv k) →
      ∀ k ∈ (l.foldl (fun (acc : List Kernel × List Pkt) k =>
          ((acc.1 ++ [(k.egress acc.2).1]), (k.egress acc.2).2)) acc).1, Kernel.KInv k := by
    intro l
    induction l with
    | nil => intro acc _ hacc; exact hacc
    | cons a l ih =>
      intro acc hl hacc
      simp only [List.foldl_cons]
      apply ih
      · intro k hk; exact hl k (List.mem_cons_of_mem _ hk)
      · intro k hk
        simp only [List.mem_append, List.mem_singleton] at hk
        rcases hk with hk | rfl
        · exact hacc k hk
        · exact Kernel.kinv_egress _ _ (hl a (List.mem_cons_self ..))
  intro k hk
  exact key f.hosts ([], []) h (by simp) k hk

theorem finv_pump (fuel : Nat) (f : Fabric) (seen : List Pkt) (h : FInv f) : FInv (Fabric.pump fuel f seen).1 := by
  induction fuel generalizing f seen with
  | zero => exact h
  | succ n ih =>
    unfold Fabric.pump
    simp only []
    split
    · exact finv_egressAll f h
    · apply ih
      have : ∀ (l : List Pkt) (g : Fabric), FInv g → FInv (l.foldl (fun f p => f.deliver p) g) := by
        intro l
        induction l with
        | nil => intro g hg; exact hg
        | cons p l ihl => intro g hg; exact ihl _ (finv_deliver g p hg)
      exact this _ _ (finv_egressAll f h)

def FOp.apply (f : Fabric) : FOp → Fabric
  | .addHost addrs a b c d => f.addHost addrs a b c d
  | .host i owned op => f.modHost i fun k => (op.apply ⟨k, owned⟩).k
  | .deliver p => f.deliver p
  | .egressAll => f.egressAll.1
  | .pump fuel => (Fabric.pump fuel f []).1

theorem finv_apply (f : Fabric) (op : FOp) (h : FInv f) : FInv (op.apply f) := by
  cases op with
  | addHost addrs a b c d =>
    intro k hk
    simp only [FOp.apply, Fabric.addHost, List.mem_append, List.mem_singleton] at hk
    rcases hk with hk | rfl
    · exact h k hk
    · exact tinv_empty
  | host i owned op => exact finv_modHost f i _ (fun k hk => kinv_apply ⟨k, owned⟩ op hk) h
  | deliver p => exact finv_deliver f p h
  | egressAll => exact finv_egressAll f h
  | pump fuel => exact finv_pump fuel f [] h

theorem finv_run (ops : List FOp) : FInv (ops.foldl FOp.apply ({} : Fabric)) := by
  suffices h : ∀ f, FInv f → FInv (ops.foldl FOp.apply f) from h _ (by intro k hk; simp at hk)
  induction ops with
  | nil => intro f h; exact h
  | cons op ops ih => intro f h; exact ih _ (finv_apply f op h)

end TV
