/-
  Liveness under packet delivery.
-/
import TvNetTable.Proofs.LiveOps2

namespace TV
namespace Kernel

theorem live_deliverUdp (k : Kernel) (o : List Fd) (s d : Ep) (t : Nat) (h : Live k o) :
    Live (k.deliverUdp s d t) o := by
  unfold deliverUdp
  repeat' split
  all_goals first
    | exact h
    | exact live_modify_inert k _ _ o (fun _ => rfl) (fun _ => rfl) (fun _ => rfl) (fun _ => rfl)
        (fun _ => rfl) (fun _ => rfl) (fun _ => rfl) h

theorem live_acceptSyn (k : Kernel) (o : List Fd) (lfd : Fd) (l r : Ep)
    (hfl : findListener k.tbl l = some lfd) (h : Live k o) : Live (k.acceptSyn lfd l r) o := by
  have hlf := (listenerFor_of_findListener k.tbl h.tinv l lfd hfl).1
  unfold acceptSyn
  split
  · exact h
  · rename_i ls _
    dsimp only
    split
    · exact h
    · apply live_emit
      exact live_newChild k o ls.v6 ls.tcp l r _ (fun _ => rfl) (fun _ => rfl) (fun _ => rfl)
        (fun _ => ⟨_, rfl, rfl⟩) hlf h

theorem findConn_mem (t : Table) (l r : Ep) (fd : Fd) (h : t.findConn l r = some fd) :
    ((l, r), fd) ∈ t.conns := by
  unfold Table.findConn at h
  cases hf : t.conns.find? (·.1 == (l, r)) with
  | none => rw [hf] at h; simp at h
  | some c =>
    rw [hf] at h
    simp only [Option.map_some, Option.some.injEq] at h
    have h1 := List.mem_of_find?_eq_some hf
    have h2 : c.1 = (l, r) := by simpa using List.find?_some hf
    have : c = ((l, r), fd) := by
      cases c with
      | mk a b => simp only at h2 h; rw [h2, h]
    rw [← this]; exact h1

open Table in
/-- a `SynReceived` socket completes its handshake and is queued on its listener -/
theorem live_establish (k : Kernel) (o : List Fd) (fd : Fd) (l r : Ep) (s : Sock) (tc : Tcb) (g : Tcb → Tcb)
    (hget : k.tbl.get fd = some s) (htc : s.tcb = some tc)
    (hconn : k.tbl.findConn l r = some fd) (h : Live k o) :
    Live ((k.modTcb fd g).pushToListener fd l) o := by
  obtain ⟨hsmem, hsfd⟩ := get_mem k.tbl fd s hget
  let f1 : Sock → Sock := fun s => { s with tcb := s.tcb.map g }
  have e1 : Extends k.tbl (k.tbl.modify fd f1) o :=
    extends_modify k.tbl fd f1 o (fun _ => rfl) (fun _ _ _ hs => hs)
      (fun _ _ _ rd hs => ⟨rd, hs, fun y hy => Or.inl hy⟩)
  have ht1 : TInv (k.tbl.modify fd f1) := tinv_modify _ _ _ (fun _ => rfl) (fun _ => rfl) h.tinv
  have hc1 : CInv (k.tbl.modify fd f1) := cinv_modify _ _ _ (fun _ => rfl) (fun _ => rfl) (fun _ => rfl) h.cinv
  have hr1 : RInv (k.tbl.modify fd f1) :=
    rinv_modify_keep _ fd f1 (fun _ => rfl) (fun s hs => by cases hh : s.tcb <;> simp_all [f1]) (fun _ => rfl) h.rinv
  have hnl : s.listen = none := by
    cases hl : s.listen with
    | none => rfl
    | some rd =>
      have := (h.lown s hsmem (by rw [hl]; rfl)).2.1
      rw [htc] at this; exact absurd this (by simp)
  unfold pushToListener
  show Live (match findListener (k.tbl.modify fd f1) l with
    | none => k.modTcb fd g
    | some lfd => { k.modTcb fd g with tbl := (k.tbl.modify fd f1).modify lfd (fun s => { s with listen := s.listen.map (· ++ [fd]) }) }) o
  cases hfl : findListener (k.tbl.modify fd f1) l with
  | none =>
    refine live_step (k' := k.modTcb fd g) h h.fix ht1 hc1 hr1 e1 ?_
    intro s' hs'
    have hs'' : s' ∈ k.tbl.socks.map (modFn fd f1) := hs'
    rw [List.mem_map] at hs''
    obtain ⟨x, hx, rfl⟩ := hs''
    by_cases hxf : x.fd = fd
    · have hxs : x = s := get_unique k.tbl h.tinv fd s hget x hx hxf
      subst hxs
      rw [modFn_eq fd f1 x hxf]
      refine Or.inr ⟨?_, ?_⟩
      · rcases liveSock_ext' e1 x (fun hx => hx) (h.live x hx) with h1 | h1 | ⟨hn, tc', htc', h1⟩
        · exact Or.inl h1
        · exact Or.inr (Or.inl h1)
        · rcases h1 with ⟨_, _, hlf⟩ | hr
          · -- a listener exists for the child's endpoint, which is `l`: contradiction with `none`
            have hbe : boundEp x = l := (h.cinv _ (findConn_mem k.tbl l r fd hconn)).2 x hx hxf
            rw [hbe] at hlf
            obtain ⟨lfd, hsome⟩ := findListener_isSome _ ht1 l hlf
            rw [hsome] at hfl; exact absurd hfl (by simp)
          · exact Or.inr (Or.inr ⟨hn, g tc', by simp [f1, htc'], Or.inr hr⟩)
      · intro hlis
        simp [f1, hnl] at hlis
    · rw [modFn_ne fd f1 x hxf]
      exact Or.inl ⟨hx, fun hx => hx⟩
  | some lfd =>
    let f2 : Sock → Sock := fun s => { s with listen := s.listen.map (· ++ [fd]) }
    obtain ⟨_, l1, hl1, hl1fd, hl1lis⟩ := listenerFor_of_findListener _ ht1 l lfd hfl
    have hl1' : l1 ∈ k.tbl.socks.map (modFn fd f1) := hl1
    rw [List.mem_map] at hl1'
    obtain ⟨l0, hl0, hl0eq⟩ := hl1'
    have hl0fd : l0.fd = lfd := by rw [← hl1fd, ← hl0eq, modFn_fd fd f1 (fun _ => rfl)]
    have hl0lis : l0.listen.isSome = true := by
      rw [← hl0eq] at hl1lis
      unfold modFn at hl1lis
      split at hl1lis <;> exact hl1lis
    obtain ⟨hl0own, hl0tcb, hl0tcp, hl0cl⟩ := h.lown l0 hl0 hl0lis
    have hne : lfd ≠ fd := by
      intro heq
      have : l0 = s := get_unique k.tbl h.tinv fd s hget l0 hl0 (by rw [hl0fd, heq])
      rw [this, htc] at hl0tcb
      exact absurd hl0tcb (by simp)
    have e2 : Extends (k.tbl.modify fd f1) ((k.tbl.modify fd f1).modify lfd f2) o :=
      extends_modify _ lfd f2 o (fun _ => rfl)
        (fun s _ _ hs => by cases hh : s.listen <;> simp_all [f2])
        (fun s _ _ rd hs => ⟨rd ++ [fd], by simp [f2, hs], fun y hy => Or.inl (List.mem_append_left _ hy)⟩)
    have e12 := extends_trans e1 e2
    -- the listener socket after both updates, with `fd` in its accept queue
    have hl0ne : l0.fd ≠ fd := by rw [hl0fd]; exact hne
    obtain ⟨rd0, hrd0⟩ := Option.isSome_iff_exists.mp hl0lis
    have hready : InReady ((k.tbl.modify fd f1).modify lfd f2) fd := by
      refine ⟨f2 l0, ?_, rd0 ++ [fd], by simp [f2, hrd0], by simp⟩
      have : modFn lfd f2 (modFn fd f1 l0) ∈ ((k.tbl.modify fd f1).modify lfd f2).socks :=
        List.mem_map_of_mem (List.mem_map_of_mem hl0)
      rwa [modFn_ne fd f1 l0 hl0ne, modFn_eq lfd f2 l0 hl0fd] at this
    have hr2 : RInv ((k.tbl.modify fd f1).modify lfd f2) := by
      refine rinv_modify _ lfd f2 (fun _ => rfl) (fun _ hs => hs) ?_ hr1
      intro sl hsl _ rd' hrd' y hy
      cases hsll : sl.listen with
      | none => simp [f2, hsll] at hrd'
      | some rd =>
        have hrd'' : rd ++ [fd] = rd' := by simpa [f2, hsll] using hrd'
        rw [← hrd''] at hy
        rcases List.mem_append.mp hy with hy | hy
        · exact hr1 sl hsl rd hsll y hy
        · simp only [List.mem_singleton] at hy
          subst hy
          refine ⟨by rw [← hsfd]; exact h.tinv.fresh s hsmem, ?_⟩
          intro s2' hs2' hfd2
          have hs2'' : s2' ∈ k.tbl.socks.map (modFn y f1) := hs2'
          rw [List.mem_map] at hs2''
          obtain ⟨x, hx, rfl⟩ := hs2''
          rw [modFn_fd y f1 (fun _ => rfl)] at hfd2
          have hxs : x = s := get_unique k.tbl h.tinv y s hget x hx hfd2
          subst hxs
          rw [modFn_eq y f1 x hfd2]
          simp [f1, htc]
    refine live_step (k' := { k.modTcb fd g with tbl := (k.tbl.modify fd f1).modify lfd f2 }) h h.fix
      (tinv_modify _ _ _ (fun _ => rfl) (fun _ => rfl) ht1)
      (cinv_modify _ _ _ (fun _ => rfl) (fun _ => rfl) (fun _ => rfl) hc1) hr2 e12 ?_
    intro s'' hs''
    have hm : s'' ∈ (k.tbl.socks.map (modFn fd f1)).map (modFn lfd f2) := hs''
    rw [List.mem_map] at hm
    obtain ⟨s', hs', rfl⟩ := hm
    rw [List.mem_map] at hs'
    obtain ⟨x, hx, rfl⟩ := hs'
    by_cases hxf : x.fd = fd
    · have hxs : x = s := get_unique k.tbl h.tinv fd s hget x hx hxf
      subst hxs
      rw [modFn_eq fd f1 x hxf, modFn_ne lfd f2 (f1 x) (by show x.fd ≠ lfd; rw [hxf]; exact fun hh => hne hh.symm)]
      refine Or.inr ⟨?_, ?_⟩
      · rcases h.live x hx with h1 | h1 | ⟨hn, tc', htc', _⟩
        · exact Or.inl h1
        · exact Or.inr (Or.inl h1)
        · exact Or.inr (Or.inr ⟨hn, g tc', by simp [f1, htc'],
            Or.inr (by show InReady _ x.fd; rw [hxf]; exact hready)⟩)
      · intro hlis
        simp [f1, hnl] at hlis
    · rw [modFn_ne fd f1 x hxf]
      by_cases hxl : x.fd = lfd
      · have hxl0 : x = l0 := h.tinv.uniq x hx l0 hl0 (by rw [hxl, hl0fd])
        subst hxl0
        rw [modFn_eq lfd f2 x hxl]
        refine Or.inr ⟨Or.inl hl0own, ?_⟩
        intro _
        exact ⟨hl0own, hl0tcb, hl0tcp, hl0cl⟩
      · rw [modFn_ne lfd f2 x hxl]
        exact Or.inl ⟨hx, fun hx => hx⟩

theorem live_handleEstablished (k : Kernel) (o : List Fd) (fd : Fd) (l r : Ep) (sy a f : Bool)
    (hne : ∀ s tc, k.tbl.get fd = some s → s.tcb = some tc → tc.state ≠ .synRecv)
    (h : Live k o) : Live (k.handleEstablished fd l r sy a f) o := by
  unfold handleEstablished
  split
  · exact h
  · rename_i s hget
    split
    · exact h
    · rename_i tc htc
      have hns : ∀ (g : Tcb → Tcb), ∀ s' ∈ k.tbl.socks, s'.fd = fd → ∀ tc', s'.tcb = some tc' →
          tc'.state ≠ .synRecv ∨ (g tc').state = .synRecv := by
        intro g s' hs' hfd' tc' htc'
        have := get_unique k.tbl h.tinv fd s hget s' hs' hfd'
        subst this
        exact Or.inl (hne s' tc' hget htc')
      repeat' (first | split | (dsimp only; split))
      all_goals first
        | exact live_emit _ (live_modTcb k fd _ o (hns _) h)
        | exact live_modTcb k fd _ o (hns _) h

theorem not_listener_of_tcb (k : Kernel) (o : List Fd) (h : Live k o) (s : Sock) (hs : s ∈ k.tbl.socks)
    (tc : Tcb) (htc : s.tcb = some tc) : s.listen = none := by
  cases hl : s.listen with
  | none => rfl
  | some rd =>
    have := (h.lown s hs (by rw [hl]; rfl)).2.1
    rw [htc] at this; exact absurd this (by simp)

theorem live_handleOnConn (k : Kernel) (o : List Fd) (fd : Fd) (l r : Ep) (sy a f rs hs : Bool)
    (hconn : k.tbl.findConn l r = some fd) (h : Live k o) :
    Live (k.handleOnConn fd l r sy a f rs hs) o := by
  unfold handleOnConn
  split
  · -- RST
    cases hg : k.tbl.get fd with
    | none =>
      simp only [Bool.and_false, Bool.false_eq_true, ite_false]
      refine live_modTcb k fd _ o ?_ h
      intro s hs hsf tc _
      have := get_of_mem k.tbl h.tinv s hs
      rw [hsf, hg] at this
      exact absurd this (by simp)
    | some s =>
      obtain ⟨hs, hsf⟩ := get_mem k.tbl fd s hg
      cases htc : s.tcb with
      | none =>
        simp only [htc, Bool.and_false, Bool.false_eq_true, ite_false]
        refine live_modTcb k fd _ o ?_ h
        intro s' hs' hsf' tc htc'
        have := get_unique k.tbl h.tinv fd s hg s' hs' hsf'
        subst this
        rw [htc] at htc'
        exact absurd htc' (by simp)
      | some tc =>
        by_cases hst : tc.state = .synRecv
        · have hc : (k.fixReap && (tc.state == TcpState.synRecv)) = true := by simp [h.fix, hst]
          simp only [htc, hc, ite_true]
          refine live_remove k fd o o ?_ (fun _ _ _ hx => hx) h
          intro s' hs' hsf'
          have := get_unique k.tbl h.tinv fd s hg s' hs' hsf'
          subst this
          exact not_listener_of_tcb k o h s' hs' tc htc
        · have hc : (k.fixReap && (tc.state == TcpState.synRecv)) = false := by simp [hst]
          simp only [htc, hc, Bool.false_eq_true, ite_false]
          refine live_modTcb k fd _ o ?_ h
          intro s' hs' hsf' tc' htc'
          have := get_unique k.tbl h.tinv fd s hg s' hs' hsf'
          subst this
          rw [htc] at htc'
          simp only [Option.some.injEq] at htc'
          subst htc'
          exact Or.inl hst
  · split
    · exact h
    · rename_i s hget
      split
      · exact h
      · rename_i tc htc
        split
        · -- SynSent
          split
          · refine live_emit _ (live_modTcb k fd _ o ?_ h)
            intro s' hs' hfd' tc' htc'
            have := get_unique k.tbl h.tinv fd s hget s' hs' hfd'
            subst this
            rw [htc] at htc'
            simp only [Option.some.injEq] at htc'
            subst htc'
            left
            intro hh
            simp_all
          · exact h
        · -- SynReceived
          split
          · exact live_establish k o fd l r s tc _ hget htc hconn h
          · exact h
        · exact h
        · rename_i hn1 hn2 hn3
          refine live_handleEstablished k o fd l r sy a f ?_ h
          intro s' tc' hg' htc'
          rw [hget] at hg'
          simp only [Option.some.injEq] at hg'
          subst hg'
          rw [htc] at htc'
          simp only [Option.some.injEq] at htc'
          subst htc'
          exact fun hst => hn2 hst

theorem tcpDemux_conn (t : Table) (l r : Ep) (sy a rs : Bool) (fd : Fd)
    (h : tcpDemux t l r sy a rs = .conn fd) : t.findConn l r = some fd := by
  unfold tcpDemux at h
  split at h
  · simp only [TcpDemux.conn.injEq] at h; subst h; assumption
  · repeat' split at h
    all_goals simp at h

theorem tcpDemux_listener (t : Table) (l r : Ep) (sy a rs : Bool) (fd : Fd)
    (h : tcpDemux t l r sy a rs = .listener fd) : findListener t l = some fd := by
  unfold tcpDemux at h
  split at h
  · simp at h
  · split at h
    · split at h
      · simp only [TcpDemux.listener.injEq] at h; subst h; assumption
      · simp at h
    · split at h <;> simp at h

theorem live_deliverTcp (k : Kernel) (o : List Fd) (s d : Ep) (sy a f r hs : Bool) (h : Live k o) :
    Live (k.deliverTcp s d sy a f r hs) o := by
  unfold deliverTcp
  split
  · rename_i fd hd
    exact live_handleOnConn k o fd d s sy a f r hs (tcpDemux_conn _ _ _ _ _ _ _ hd) h
  · rename_i lfd hd
    exact live_acceptSyn k o lfd d s (tcpDemux_listener _ _ _ _ _ _ _ hd) h
  · exact live_emit _ h
  · exact h

theorem live_deliver (k : Kernel) (o : List Fd) (p : Pkt) (h : Live k o) : Live (k.deliver p) o := by
  unfold deliver
  split
  · exact live_deliverUdp _ _ _ _ _ h
  · exact live_deliverTcp _ _ _ _ _ _ _ _ _ h
  · exact live_deliverTcp _ _ _ _ _ _ _ _ _ h

end Kernel
end TV
