/-
  Scheduler invariants for C19 (all tick sequences, all verdict functions, all delays).
-/
import TvNetTable.Proofs.Rules

namespace TV
namespace Sched
variable {P : Type}

/-- Queue sorted by (deadline, seq); seqs below the counter; nothing overdue is left behind. -/
structure Inv (s : Sched P) : Prop where
  sorted : Sorted s.pending
  seqLt : ∀ e ∈ s.pending, e.seq < s.nextSeq
  future : ∀ e ∈ s.pending, s.now < e.deliverAt

theorem inv_empty : Inv ({} : Sched P) := ⟨by simp [Sorted], by simp, by simp⟩

theorem mem_schedule (s : Sched P) (p : P) (d : Nat) (e : Scheduled P) :
    e ∈ (s.schedule p d).pending ↔ e = ⟨s.now + d, s.nextSeq, p⟩ ∨ e ∈ s.pending := by
  simp [schedule, mem_insertSorted]

theorem inv_schedule (s : Sched P) (p : P) (d : Nat) (hd : d ≠ 0) (h : Inv s) : Inv (s.schedule p d) := by
  refine ⟨?_, ?_, ?_⟩
  · exact sorted_insertSorted _ _ h.sorted (fun x hx => h.seqLt x hx)
  · intro e he
    rcases (mem_schedule s p d e).mp he with rfl | he
    · simp [schedule]
    · have := h.seqLt e he; simp only [schedule]; omega
  · intro e he
    rcases (mem_schedule s p d e).mp he with rfl | he
    · simp only [schedule]; omega
    · simpa [schedule] using h.future e he

theorem route_now (s : Sched P) (p : P) (v : Verdict) : (s.route p v).1.now = s.now := by
  cases v with
  | pass => rfl
  | drop => rfl
  | deliver d => simp only [route]; split <;> simp [schedule]

theorem route_nextSeq_le (s : Sched P) (p : P) (v : Verdict) : s.nextSeq ≤ (s.route p v).1.nextSeq := by
  cases v with
  | pass => simp [route]
  | drop => simp [route]
  | deliver d => simp only [route]; split <;> simp [schedule]

theorem inv_route (s : Sched P) (p : P) (v : Verdict) (h : Inv s) : Inv (s.route p v).1 := by
  cases v with
  | pass => exact h
  | drop => exact h
  | deliver d =>
    simp only [route]
    split
    · exact h
    · rename_i hd; exact inv_schedule s p d hd h

/-- Where a pending entry can come from in one routing step. -/
theorem mem_route_pending (s : Sched P) (p : P) (v : Verdict) (e : Scheduled P) :
    e ∈ (s.route p v).1.pending ↔
      e ∈ s.pending ∨ ∃ d, d ≠ 0 ∧ v = .deliver d ∧ e = ⟨s.now + d, s.nextSeq, p⟩ := by
  cases v with
  | pass => simp [route]
  | drop => simp [route]
  | deliver d =>
    simp only [route]
    split
    · rename_i hd; subst hd; simp
    · rename_i hd
      rw [mem_schedule]
      constructor
      · rintro (h | h)
        · exact Or.inr ⟨d, hd, rfl, h⟩
        · exact Or.inl h
      · rintro (h | ⟨d', _, hv, he⟩)
        · exact Or.inr h
        · cases hv; exact Or.inl he

theorem routeAll_now (v : P → Verdict) (s : Sched P) (ps : List P) : (routeAll v s ps).1.now = s.now := by
  induction ps generalizing s with
  | nil => rfl
  | cons p ps ih => simp only [routeAll]; rw [ih, route_now]

theorem routeAll_nextSeq_le (v : P → Verdict) (s : Sched P) (ps : List P) :
    s.nextSeq ≤ (routeAll v s ps).1.nextSeq := by
  induction ps generalizing s with
  | nil => simp [routeAll]
  | cons p ps ih =>
    simp only [routeAll]
    exact Nat.le_trans (route_nextSeq_le s p (v p)) (ih _)

theorem inv_routeAll (v : P → Verdict) (s : Sched P) (ps : List P) (h : Inv s) : Inv (routeAll v s ps).1 := by
  induction ps generalizing s with
  | nil => exact h
  | cons p ps ih => simp only [routeAll]; exact ih _ (inv_route s p (v p) h)

/-- Every egressed packet gets exactly one fate, in egress order. -/
theorem routeAll_packets (v : P → Verdict) (s : Sched P) (ps : List P) :
    (routeAll v s ps).2.map (·.1) = ps := by
  induction ps generalizing s with
  | nil => rfl
  | cons p ps ih => simp only [routeAll, List.map_cons, ih]

theorem routeAll_keeps (v : P → Verdict) (s : Sched P) (ps : List P) (e : Scheduled P)
    (he : e ∈ s.pending) : e ∈ (routeAll v s ps).1.pending := by
  induction ps generalizing s with
  | nil => exact he
  | cons p ps ih =>
    simp only [routeAll]
    exact ih _ ((mem_route_pending s p (v p) e).mpr (Or.inl he))

/-- A pending entry after routing was pending before, or belongs to an egressed packet whose
    verdict was `Deliver d` with `d > 0`; its deadline is `now + d`. -/
theorem routeAll_origin (v : P → Verdict) (s : Sched P) (ps : List P) (e : Scheduled P)
    (he : e ∈ (routeAll v s ps).1.pending) :
    e ∈ s.pending ∨ ∃ p ∈ ps, ∃ d, d ≠ 0 ∧ v p = .deliver d ∧ e.pkt = p ∧ e.deliverAt = s.now + d ∧
      s.nextSeq ≤ e.seq := by
  induction ps generalizing s with
  | nil => exact Or.inl he
  | cons p ps ih =>
    simp only [routeAll] at he
    rcases ih _ he with h | ⟨q, hq, d, hd, hv, hp, hat, hseq⟩
    · rcases (mem_route_pending s p (v p) e).mp h with h | ⟨d, hd, hv, rfl⟩
      · exact Or.inl h
      · exact Or.inr ⟨p, List.mem_cons_self .., d, hd, hv, rfl, rfl, Nat.le_refl _⟩
    · refine Or.inr ⟨q, List.mem_cons_of_mem _ hq, d, hd, hv, hp, ?_, ?_⟩
      · rw [hat, route_now]
      · exact Nat.le_trans (route_nextSeq_le s p (v p)) hseq

/-- Fates in egress order carry strictly increasing sequence numbers (emission order). -/
def fateSeqs : List (P × Fate) → List Nat
  | [] => []
  | (_, .scheduled _ q) :: fs => q :: fateSeqs fs
  | _ :: fs => fateSeqs fs

theorem fateSeqs_ge (v : P → Verdict) (s : Sched P) (ps : List P) :
    ∀ q ∈ fateSeqs (routeAll v s ps).2, s.nextSeq ≤ q := by
  induction ps generalizing s with
  | nil => simp [routeAll, fateSeqs]
  | cons p ps ih =>
    intro q hq
    simp only [routeAll] at hq
    have hrest : ∀ q ∈ fateSeqs (routeAll v (s.route p (v p)).1 ps).2, s.nextSeq ≤ q :=
      fun q hq => Nat.le_trans (route_nextSeq_le s p (v p)) (ih _ q hq)
    cases hv : v p with
    | pass => simp only [hv, route, fateSeqs] at hq hrest; exact hrest q hq
    | drop => simp only [hv, route, fateSeqs] at hq hrest; exact hrest q hq
    | deliver d =>
      by_cases hd : d = 0
      · subst hd; simp only [hv, route, ite_true, fateSeqs] at hq hrest; exact hrest q hq
      · simp only [hv, route, hd, ite_false, fateSeqs, List.mem_cons] at hq hrest
        rcases hq with rfl | hq
        · exact Nat.le_refl _
        · exact hrest q hq

theorem fateSeqs_increasing (v : P → Verdict) (s : Sched P) (ps : List P) :
    (fateSeqs (routeAll v s ps).2).Pairwise (· < ·) := by
  induction ps generalizing s with
  | nil => simp [routeAll, fateSeqs]
  | cons p ps ih =>
    simp only [routeAll]
    cases hv : v p with
    | pass => simp only [route, fateSeqs]; exact ih _
    | drop => simp only [route, fateSeqs]; exact ih _
    | deliver d =>
      by_cases hd : d = 0
      · subst hd; simp only [route, ite_true, fateSeqs]; exact ih _
      · simp only [route, hd, ite_false, fateSeqs]
        rw [List.pairwise_cons]
        refine ⟨?_, ih _⟩
        intro q hq
        have := fateSeqs_ge v (s.schedule p d) ps q hq
        simp only [schedule] at this
        omega

/-! ### additions: positions in the egress list -/

theorem routeAll_cons_state (v : P → Verdict) (s : Sched P) (p : P) (ps : List P) :
    (routeAll v s (p :: ps)).1 = (routeAll v (s.route p (v p)).1 ps).1 := rfl

theorem routeAll_append_state (v : P → Verdict) (s : Sched P) (ps1 ps2 : List P) :
    (routeAll v s (ps1 ++ ps2)).1 = (routeAll v (routeAll v s ps1).1 ps2).1 := by
  induction ps1 generalizing s with
  | nil => rfl
  | cons p ps ih =>
    rw [List.cons_append, routeAll_cons_state, routeAll_cons_state, ih]

theorem route_deliver_nextSeq (s : Sched P) (p : P) (d : Nat) (hd : d ≠ 0) :
    (s.route p (.deliver d)).1.nextSeq = s.nextSeq + 1 := by
  simp [route, hd, schedule]

/-- The packet at position `pre.length` of the egress list, given `Deliver d` (d > 0), is queued
    with deadline `now + d` and the sequence number that was current after routing `pre`. -/
theorem routeAll_at (v : P → Verdict) (s : Sched P) (pre post : List P) (p : P) (d : Nat)
    (hv : v p = .deliver d) (hd : d ≠ 0) :
    (⟨s.now + d, (routeAll v s pre).1.nextSeq, p⟩ : Scheduled P) ∈ (routeAll v s (pre ++ p :: post)).1.pending := by
  rw [routeAll_append_state, routeAll_cons_state]
  apply routeAll_keeps
  apply (mem_route_pending _ p (v p) _).mpr
  exact Or.inr ⟨d, hd, hv, by rw [routeAll_now]⟩

/-- Sequence numbers follow positions: the counter after routing `pre ++ p :: mid` (with `p`
    queued) is strictly above the one after routing `pre`. -/
theorem routeAll_seq_lt (v : P → Verdict) (s : Sched P) (pre mid : List P) (p : P) (d : Nat)
    (hv : v p = .deliver d) (hd : d ≠ 0) :
    (routeAll v s pre).1.nextSeq < (routeAll v s (pre ++ p :: mid)).1.nextSeq := by
  rw [routeAll_append_state, routeAll_cons_state]
  have h1 := routeAll_nextSeq_le v ((routeAll v s pre).1.route p (v p)).1 mid
  rw [hv] at h1 ⊢
  have h2 := route_deliver_nextSeq (routeAll v s pre).1 p d hd
  omega

end Sched
end TV
