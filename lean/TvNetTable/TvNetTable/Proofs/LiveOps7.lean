/-
  Liveness under `close` of a listener (`CloseListener`): every unaccepted child is reset and
  removed, then the listener.
-/
import TvNetTable.Proofs.LiveOps6

namespace TV
namespace Kernel

/-- one step of the child sweep in `close` -/
def closeStep (k : Kernel) (c : Fd) : Kernel :=
  match k.tbl.get c with
  | none => k
  | some cs =>
    match cs.tcb with
    | none => { k with tbl := k.tbl.remove c }
    | some tc =>
      let k := k.emit ⟨boundEp cs, tc.peer, .tcp false true false true⟩
      { k with tbl := k.tbl.remove c }

theorem closeStep_spec (k : Kernel) (o : List Fd) (c : Fd)
    (hnl : ∀ l ∈ k.tbl.socks, l.fd = c → l.listen = none) (h : Live k o) :
    Live (closeStep k c) o ∧ (∀ s ∈ (closeStep k c).tbl.socks, s ∈ k.tbl.socks) ∧
    (∀ s ∈ (closeStep k c).tbl.socks, s.fd ≠ c) ∧
    (∀ s ∈ k.tbl.socks, s.fd ≠ c → s ∈ (closeStep k c).tbl.socks) := by
  have hfilter : ∀ (k1 : Kernel), k1.tbl = k.tbl →
      (∀ s ∈ (k1.tbl.remove c).socks, s ∈ k.tbl.socks) ∧ (∀ s ∈ (k1.tbl.remove c).socks, s.fd ≠ c) ∧
      (∀ s ∈ k.tbl.socks, s.fd ≠ c → s ∈ (k1.tbl.remove c).socks) := by
    intro k1 hk1
    refine ⟨?_, ?_, ?_⟩
    · intro s hs
      have : s ∈ k1.tbl.socks.filter (·.fd != c) := hs
      rw [hk1] at this
      exact (List.mem_filter.mp this).1
    · intro s hs
      have : s ∈ k1.tbl.socks.filter (·.fd != c) := hs
      simpa using (List.mem_filter.mp this).2
    · intro s hs hne
      show s ∈ k1.tbl.socks.filter (·.fd != c)
      rw [hk1]
      exact List.mem_filter.mpr ⟨hs, by simpa using hne⟩
  unfold closeStep
  cases hg : k.tbl.get c with
  | none =>
    exact ⟨h, fun s hs => hs, no_sock_of_get_none k.tbl h.tinv c hg, fun s hs _ => hs⟩
  | some cs =>
    dsimp only
    cases htc : cs.tcb with
    | none =>
      dsimp only
      exact ⟨live_remove k c o o hnl (fun _ _ _ hx => hx) h, hfilter k rfl⟩
    | some tc =>
      dsimp only
      exact ⟨live_remove (k.emit _) c o o hnl (fun _ _ _ hx => hx) (live_emit _ h), hfilter (k.emit _) rfl⟩

theorem closeFold_spec (k0 : Kernel) (o : List Fd) (_h0 : TInv k0.tbl) (cs : List Fd)
    (hch : ∀ c ∈ cs, ∀ s ∈ k0.tbl.socks, s.fd = c → s.tcb.isSome = true) :
    ∀ kc : Kernel, (∀ s ∈ kc.tbl.socks, s ∈ k0.tbl.socks) → Live kc o →
      Live (cs.foldl closeStep kc) o ∧ (∀ s ∈ (cs.foldl closeStep kc).tbl.socks, s ∈ kc.tbl.socks) ∧
      (∀ c ∈ cs, ∀ s ∈ (cs.foldl closeStep kc).tbl.socks, s.fd ≠ c) ∧
      (∀ s ∈ kc.tbl.socks, s.fd ∉ cs → s ∈ (cs.foldl closeStep kc).tbl.socks) := by
  induction cs with
  | nil => intro kc _ h; exact ⟨h, fun s hs => hs, by simp, fun s hs _ => hs⟩
  | cons c cs ih =>
    intro kc hsub h
    have hnl : ∀ l ∈ kc.tbl.socks, l.fd = c → l.listen = none := by
      intro l hl hf
      have := hch c (List.mem_cons_self ..) l (hsub l hl) hf
      obtain ⟨tc, htc⟩ := Option.isSome_iff_exists.mp this
      exact not_listener_of_tcb kc o h l hl tc htc
    obtain ⟨h1, hs1, hno1, hkeep1⟩ := closeStep_spec kc o c hnl h
    obtain ⟨h2, hs2, hno2, hkeep2⟩ := ih (fun c' hc' => hch c' (List.mem_cons_of_mem _ hc')) (closeStep kc c)
      (fun s hs => hsub s (hs1 s hs)) h1
    simp only [List.foldl_cons]
    refine ⟨h2, fun s hs => hs1 s (hs2 s hs), ?_, ?_⟩
    · intro c' hc' s hs
      rcases List.mem_cons.mp hc' with rfl | hc'
      · exact hno1 s (hs2 s hs)
      · exact hno2 c' hc' s hs
    · intro s hs hnot
      simp only [List.mem_cons, not_or] at hnot
      exact hkeep2 s (hkeep1 s hs hnot.1) hnot.2

/-- the last step: the listener itself goes, after all its unaccepted children are gone -/
theorem live_removeListener (kf : Kernel) (o : List Fd) (fd : Fd) (st : Sock) (ready : List Fd)
    (hst : st ∈ kf.tbl.socks) (hfd : st.fd = fd) (hl : st.listen = some ready)
    (hnoReady : ∀ y ∈ ready, ∀ s ∈ kf.tbl.socks, s.fd ≠ y)
    (hnoSyn : ∀ s ∈ kf.tbl.socks, s.fd ≠ fd → ∀ tc b, s.tcb = some tc → tc.state = .synRecv →
      s.bound = some b → b.port = (boundEp st).port → b.addr.v6 = (boundEp st).ip.v6 →
      ((boundEp st).ip.isUnspec = true ∨ b.addr = (boundEp st).ip) → False)
    (h : Live kf o) : Live { kf with tbl := kf.tbl.remove fd } (o.filter (· != fd)) := by
  have hsocks : ∀ s, s ∈ (kf.tbl.remove fd).socks ↔ s ∈ kf.tbl.socks ∧ s.fd ≠ fd := by
    intro s
    show s ∈ kf.tbl.socks.filter (·.fd != fd) ↔ _
    rw [List.mem_filter]
    simp
  refine ⟨tinv_remove _ _ h.tinv, cinv_remove _ _ h.cinv, rinv_remove _ _ h.rinv, ?_, ?_, h.fix⟩
  · intro s hs hlis
    obtain ⟨hs1, hne⟩ := (hsocks s).mp hs
    obtain ⟨a, b, c, d⟩ := h.lown s hs1 hlis
    exact ⟨List.mem_filter.mpr ⟨a, by simpa using hne⟩, b, c, d⟩
  · intro s hs
    obtain ⟨hs1, hne⟩ := (hsocks s).mp hs
    rcases h.live s hs1 with h1 | h1 | ⟨hn, tc, htc, h1⟩
    · exact Or.inl (List.mem_filter.mpr ⟨h1, by simpa using hne⟩)
    · exact Or.inr (Or.inl h1)
    · refine Or.inr (Or.inr ⟨hn, tc, htc, ?_⟩)
      rcases h1 with ⟨hsr, hb, e, he, hk, x, hx, lx, hlx, hlxfd, hlxlis⟩ | ⟨l0, hl0, rd, hrd, hy⟩
      · by_cases hxf : x = fd
        · exfalso
          obtain ⟨s2, hs2, hs2fd, hs2b⟩ := h.tinv.sound e he x hx
          have : s2 = st := h.tinv.uniq s2 hs2 st hst (by rw [hs2fd, hxf, hfd])
          rw [this] at hs2b
          obtain ⟨b, hbb⟩ := Option.isSome_iff_exists.mp hb
          have hbe : boundEp s = ⟨b.addr, b.port⟩ := by unfold boundEp; rw [hbb]
          have hste : boundEp st = ⟨e.1.addr, e.1.port⟩ := by unfold boundEp; rw [hs2b]
          refine hnoSyn s hs1 hne tc b htc hsr hbb ?_ ?_ ?_
          · rw [hste]
            rcases hk with hk | hk <;> rw [hk, hbe] <;> rfl
          · rw [hste]
            rcases hk with hk | hk <;> rw [hk, hbe] <;> rfl
          · rw [hste]
            rcases hk with hk | hk
            · right; rw [hk, hbe]; rfl
            · left; rw [hk]; rfl
        · left
          refine ⟨hsr, hb, (e.1, e.2.filter (· != fd)), ?_, hk, x, ?_, lx, ?_, hlxfd, hlxlis⟩
          · have hmem : x ∈ e.2.filter (· != fd) := List.mem_filter.mpr ⟨hx, by simpa using hxf⟩
            exact (mem_remove_bindings kf.tbl fd _).mpr ⟨e, he, List.ne_nil_of_mem hmem, rfl⟩
          · exact List.mem_filter.mpr ⟨hx, by simpa using hxf⟩
          · exact (hsocks lx).mpr ⟨hlx, by rw [hlxfd]; exact hxf⟩
      · by_cases hl0f : l0.fd = fd
        · exfalso
          have : l0 = st := h.tinv.uniq l0 hl0 st hst (by rw [hl0f, hfd])
          rw [this, hl] at hrd
          simp only [Option.some.injEq] at hrd
          rw [← hrd] at hy
          exact hnoReady s.fd hy s hs1 rfl
        · right
          exact ⟨l0, (hsocks l0).mpr ⟨hl0, hl0f⟩, rd, hrd, hy⟩

end Kernel
end TV

namespace TV
namespace Kernel

/-- the unaccepted children `close` sweeps: the accept queue, then every other `SynReceived`
    socket on the listener's port (and address, unless the listener is on the wildcard) -/
def closeChildren (k : Kernel) (fd : Fd) (st : Sock) (ready : List Fd) : List Fd :=
  ready ++ (k.tbl.ordered.filter fun c =>
    c.fd != fd && !ready.contains c.fd &&
      (match c.tcb, c.bound with
       | some tc, some b =>
         tc.state == .synRecv && b.port == (boundEp st).port && (!k.fixCloseFamily || b.addr.v6 == (boundEp st).ip.v6) &&
           ((boundEp st).ip.isUnspec || b.addr == (boundEp st).ip)
       | _, _ => false)).map (·.fd)

theorem close_listener_eq (k : Kernel) (fd : Fd) (st : Sock) (ready : List Fd)
    (hg : k.tbl.get fd = some st) (htc : st.tcb = none) (hl : st.listen = some ready) (htcp : st.tcp = true) :
    k.close fd = { (closeChildren k fd st ready).foldl closeStep k with
      tbl := ((closeChildren k fd st ready).foldl closeStep k).tbl.remove fd } := by
  unfold close
  simp only [hg, htc, hl, htcp, ite_true]
  rfl

theorem live_close_listener (k : Kernel) (o : List Fd) (fd : Fd) (st : Sock) (ready : List Fd)
    (hg : k.tbl.get fd = some st) (hl : st.listen = some ready) (h : Live k o) :
    Live (k.close fd) (o.filter (· != fd)) := by
  obtain ⟨hst, hfd⟩ := get_mem k.tbl fd st hg
  obtain ⟨_, htc, htcp, _⟩ := h.lown st hst (by rw [hl]; rfl)
  rw [close_listener_eq k fd st ready hg htc hl htcp]
  have hord : ∀ x, x ∈ k.tbl.ordered ↔ x ∈ k.tbl.socks := by
    intro x; unfold Table.ordered; exact List.mem_reverse
  -- every child has a TCB
  have hch : ∀ c ∈ closeChildren k fd st ready, ∀ s ∈ k.tbl.socks, s.fd = c → s.tcb.isSome = true := by
    intro c hc s hs hsf
    unfold closeChildren at hc
    rcases List.mem_append.mp hc with hc | hc
    · exact (h.rinv st hst ready hl c hc).2 s hs hsf
    · rw [List.mem_map] at hc
      obtain ⟨x, hx, hxf⟩ := hc
      rw [List.mem_filter] at hx
      obtain ⟨hxo, hxp⟩ := hx
      have hxs : x ∈ k.tbl.socks := (hord x).mp hxo
      have : s = x := h.tinv.uniq s hs x hxs (by rw [hsf, hxf])
      rw [this]
      cases hxt : x.tcb with
      | none => simp [hxt] at hxp
      | some tc => rfl
  obtain ⟨hf, hsubf, hnof, hkeepf⟩ := closeFold_spec k o h.tinv (closeChildren k fd st ready) hch k
    (fun _ hs => hs) h
  -- the listener itself is not among the children
  have hfdnot : fd ∉ closeChildren k fd st ready := by
    intro hmem
    have := hch fd hmem st hst hfd
    rw [htc] at this
    exact absurd this (by simp)
  have hstf : st ∈ ((closeChildren k fd st ready).foldl closeStep k).tbl.socks :=
    hkeepf st hst (by rw [hfd]; exact hfdnot)
  refine live_removeListener _ o fd st ready hstf hfd hl ?_ ?_ hf
  · intro y hy s hs
    exact hnof y (by unfold closeChildren; exact List.mem_append_left _ hy) s hs
  · intro s hs hne tc b htcs hsr hbs hport hfam haddr
    have hs0 : s ∈ k.tbl.socks := hsubf s hs
    have hmem : s.fd ∈ closeChildren k fd st ready := by
      unfold closeChildren
      by_cases hr : s.fd ∈ ready
      · exact List.mem_append_left _ hr
      · apply List.mem_append_right
        rw [List.mem_map]
        refine ⟨s, ?_, rfl⟩
        rw [List.mem_filter]
        refine ⟨(hord s).mpr hs0, ?_⟩
        simp only [htcs, hbs, Bool.and_eq_true, Bool.or_eq_true, Bool.not_eq_true', bne_iff_ne, ne_eq,
          beq_iff_eq, List.contains_eq_mem, decide_eq_false_iff_not]
        refine ⟨⟨hne, hr⟩, ⟨⟨hsr, hport⟩, Or.inr hfam⟩, ?_⟩
        rcases haddr with ha | ha
        · exact Or.inl ha
        · exact Or.inr ha
    exact hnof s.fd hmem s hs rfl

end Kernel
end TV
