/-
  Liveness under `accept`, `connect` (first poll) and the non-listener cases of `close`.
-/
import TvNetTable.Proofs.LiveOps5

namespace TV
namespace Kernel

open Table in
theorem mem_modify_fd (t : Table) (fd : Fd) (f : Sock → Sock) (hfd : ∀ s, (f s).fd = s.fd) (s' : Sock)
    (hs' : s' ∈ (t.modify fd f).socks) (h : s'.fd = fd) : ∃ s ∈ t.socks, s.fd = fd ∧ s' = f s := by
  rw [modify_socks, List.mem_map] at hs'
  obtain ⟨s, hs, rfl⟩ := hs'
  rw [modFn_fd fd f hfd] at h
  exact ⟨s, hs, h, modFn_eq fd f s h⟩

theorem live_udpSend (k : Kernel) (o : List Fd) (fd : Fd) (tag : Nat) (k' : Kernel)
    (hk : k.udpSend fd tag = .ok k') (h : Live k o) : Live k' o := by
  unfold udpSend at hk
  split at hk
  · simp at hk
  · split at hk
    · simp at hk
    · exact live_udpSendTo k o fd _ tag k' hk h

/-- `accept`: the head of the accept queue becomes application-owned -/
theorem live_accept (k : Kernel) (o : List Fd) (fd : Fd) (k' : Kernel) (c : Fd) (p : Ep)
    (hk : k.accept fd = some (k', c, p)) (h : Live k o) : Live k' (c :: o) := by
  unfold accept at hk
  cases hg : k.tbl.get fd with
  | none => rw [hg] at hk; simp at hk
  | some s =>
    rw [hg] at hk
    dsimp only at hk
    obtain ⟨hs, hsfd⟩ := get_mem k.tbl fd s hg
    cases hl : s.listen with
    | none => rw [hl] at hk; simp at hk
    | some rd =>
      rw [hl] at hk
      cases rd with
      | nil => simp at hk
      | cons child rest =>
        dsimp only at hk
        cases hgc : k.tbl.get child with
        | none => rw [hgc] at hk; simp at hk
        | some cs =>
          rw [hgc] at hk
          dsimp only at hk
          cases htc : cs.tcb with
          | none => rw [htc] at hk; simp at hk
          | some tc =>
            rw [htc] at hk
            simp only [Option.some.injEq, Prod.mk.injEq] at hk
            obtain ⟨rfl, rfl, _⟩ := hk
            have hown := h.lown s hs (by rw [hl]; rfl)
            have huniq : ∀ s' ∈ k.tbl.socks, s'.fd = fd → s' = s :=
              fun s' hs' hf => get_unique k.tbl h.tinv fd s hg s' hs' hf
            refine live_modify k fd (fun s => { s with listen := some rest }) o (child :: o)
              (fun _ => rfl) (fun _ => rfl) (fun _ => rfl) (fun _ _ _ _ => rfl) ?_
              (fun _ _ _ hx => List.mem_cons_of_mem _ hx) (fun _ hs => hs) ?_ ?_ h
            · intro s' hs' hf rd hrd
              rw [huniq s' hs' hf, hl] at hrd
              simp only [Option.some.injEq] at hrd
              subst hrd
              refine ⟨rest, rfl, ?_⟩
              intro y hy
              rcases List.mem_cons.mp hy with rfl | hy
              · exact Or.inr (List.mem_cons_self ..)
              · exact Or.inl hy
            · intro s' hs' hf rd' hrd y hy
              simp only [Option.some.injEq] at hrd
              rw [← hrd] at hy
              exact h.rinv s hs (child :: rest) hl y (List.mem_cons_of_mem _ hy)
            · intro _ s' hs' hf
              rw [huniq s' hs' hf]
              refine ⟨Or.inl (List.mem_cons_of_mem _ hown.1), ?_⟩
              intro _
              exact ⟨List.mem_cons_of_mem _ hown.1, hown.2.1, hown.2.2.1, hown.2.2.2⟩

/-- dropping a handle for which no socket exists (any more) -/
theorem live_forget (k : Kernel) (o : List Fd) (fd : Fd) (hno : ∀ s ∈ k.tbl.socks, s.fd ≠ fd)
    (h : Live k o) : Live k (o.filter (· != fd)) := by
  refine live_step h h.fix h.tinv h.cinv h.rinv (extends_refl_of_eq _ rfl rfl) ?_
  intro s hs
  exact Or.inl ⟨hs, fun hx => List.mem_filter.mpr ⟨hx, by simpa using hno s hs⟩⟩

theorem no_sock_of_get_none (t : Table) (h : TInv t) (fd : Fd) (hg : t.get fd = none) :
    ∀ s ∈ t.socks, s.fd ≠ fd := by
  intro s hs hf
  have := get_of_mem t h s hs
  rw [hf, hg] at this
  exact absurd this (by simp)

/-- `TcpStream::connect`, first poll: open, auto-bind, SYN; on failure the fd guard closes. -/
theorem live_connect (k : Kernel) (o : List Fd) (peer : Ep) (h : Live k o) :
    (∀ e k', k.tcpConnectStart peer = .error (e, k') → Live k' o) ∧
    (∀ k' fd, k.tcpConnectStart peer = .ok (k', fd) → Live k' (fd :: o)) := by
  let n := k.tbl.nextId
  let mk : Fd → Sock := fun fd => { fd := fd, v6 := peer.ip.v6, tcp := true }
  let s0 : Sock := { fd := n, v6 := peer.ip.v6, tcp := true }
  have h1 : Live { k with tbl := (k.tbl.insert peer.ip.v6 true).1 } (n :: o) :=
    live_newUnbound k o mk (fun _ => rfl) (fun _ => rfl) h
  have hsock1 : ∀ s ∈ (k.tbl.insert peer.ip.v6 true).1.socks, s.fd = n → s = s0 := by
    intro s hs hf
    have hs' : s ∈ s0 :: k.tbl.socks := hs
    rcases List.mem_cons.mp hs' with rfl | hold
    · rfl
    · exact absurd hf (fresh_ne k.tbl h.tinv s hold)
  have hs0mem : s0 ∈ (k.tbl.insert peer.ip.v6 true).1.socks := by
    show s0 ∈ s0 :: k.tbl.socks
    exact List.mem_cons_self ..
  constructor
  · intro e k' hk
    unfold tcpConnectStart at hk
    simp only [] at hk
    split at hk
    · simp only [Except.error.injEq, Prod.mk.injEq] at hk
      obtain ⟨_, rfl⟩ := hk
      refine live_remove _ n (n :: o) o ?_ ?_ h1
      · intro l hl hf
        rw [hsock1 l hl hf]
      · intro s _ hne hx
        rcases List.mem_cons.mp hx with hx | hx
        · exact absurd hx hne
        · exact hx
    · simp at hk
  · intro k' fd hk
    unfold tcpConnectStart at hk
    simp only [] at hk
    split at hk
    · simp at hk
    · rename_i k2 key hab
      simp only [Except.ok.injEq, Prod.mk.injEq] at hk
      obtain ⟨rfl, rfl⟩ := hk
      -- open up `autoBind`
      unfold autoBind at hab
      dsimp only at hab
      split at hab
      · simp at hab
      · rename_i lip _
        cases hpt : (k.tbl.insert peer.ip.v6 true).1.allocatePort peer.ip.v6 true with
        | mk port? tbl =>
          rw [hpt] at hab
          cases port? with
          | none => simp at hab
          | some p =>
            simp only [Except.ok.injEq, Prod.mk.injEq] at hab
            obtain ⟨rfl, rfl⟩ := hab
            have htblEq : tbl = ((k.tbl.insert peer.ip.v6 true).1.allocatePort peer.ip.v6 true).2 := by rw [hpt]
            have hsocks : tbl.socks = (k.tbl.insert peer.ip.v6 true).1.socks := by rw [htblEq]; rfl
            have hconns : tbl.conns = k.tbl.conns := by rw [htblEq]; rfl
            have hnext : tbl.nextId = n + 1 := by rw [htblEq]; rfl
            have h1' : Live { k with tbl := tbl } (n :: o) := by
              rw [htblEq]
              exact live_congr (k := { k with tbl := (k.tbl.insert peer.ip.v6 true).1 }) rfl rfl rfl rfl rfl h1
            let key : BindKey := ⟨peer.ip.v6, true, lip, p⟩
            let fb : Sock → Sock := fun s => { s with bound := some key }
            have h2 : Live { k with tbl := (tbl.insertBinding key n).modify n fb } (n :: o) :=
              live_bindOwned { k with tbl := tbl } (n :: o) n key fb (fun _ => rfl) (fun _ => rfl) (fun _ => rfl)
                (fun _ => rfl) (fun _ => rfl) (fun _ => rfl) (List.mem_cons_self ..) s0
                (by show s0 ∈ tbl.socks; rw [hsocks]; exact hs0mem) rfl rfl
                (by
                  intro c hc
                  have hc' : c ∈ k.tbl.conns := by
                    have : c ∈ tbl.conns := hc
                    rwa [hconns] at this
                  exact Nat.ne_of_lt (h.cinv c hc').1) h1'
            have hsock2 : ∀ s ∈ ((tbl.insertBinding key n).modify n fb).socks, s.fd = n → s = fb s0 := by
              intro s hs hf
              obtain ⟨x, hx, hxf, rfl⟩ := mem_modify_fd _ n fb (fun _ => rfl) s hs hf
              have hx' : x ∈ (k.tbl.insert peer.ip.v6 true).1.socks := by
                have : x ∈ tbl.socks := hx
                rwa [hsocks] at this
              rw [hsock1 x hx' hxf]
            let f3 : Sock → Sock := fun s =>
              { s with tcb := some { state := .synSent, peer := peer }, peer := some peer }
            have h3 : Live { k with tbl := ((tbl.insertBinding key n).modify n fb).modify n f3 } (n :: o) := by
              refine live_modify { k with tbl := (tbl.insertBinding key n).modify n fb } n f3 (n :: o) (n :: o)
                (fun _ => rfl) (fun _ => rfl) (fun _ => rfl) (fun _ _ _ hs => hs)
                (fun _ _ _ rd hs => ⟨rd, hs, fun y hy => Or.inl hy⟩) (fun _ _ _ hx => hx) (fun _ _ => rfl)
                (fun s hs _ rd' hrd y hy => h2.rinv s hs rd' hrd y hy) ?_ h2
              intro _ s hs hf
              rw [hsock2 s hs hf]
              refine ⟨Or.inl (List.mem_cons_self ..), ?_⟩
              intro hl
              simp [f3, fb, s0] at hl
            have h4 := live_insertConn { k with tbl := ((tbl.insertBinding key n).modify n fb).modify n f3 }
              (n :: o) ⟨key.addr, key.port⟩ peer n (by show n < tbl.nextId; rw [hnext]; exact Nat.lt_succ_self _)
              (by
                intro s hs hf
                obtain ⟨x, hx, hxf, rfl⟩ := mem_modify_fd _ n f3 (fun _ => rfl) s hs hf
                rw [hsock2 x hx hxf]
                rfl) h3
            exact live_emit _ h4

/-- `close` of a socket that is not a listener (UDP socket, connection, half-open client) -/
theorem live_close_plain (k : Kernel) (o : List Fd) (fd : Fd) (s : Sock) (hg : k.tbl.get fd = some s)
    (hnl : s.listen = none) (h : Live k o) : Live (k.close fd) (o.filter (· != fd)) := by
  obtain ⟨hs, hsfd⟩ := get_mem k.tbl fd s hg
  have huniq : ∀ s' ∈ k.tbl.socks, s'.fd = fd → s' = s :=
    fun s' hs' hf => get_unique k.tbl h.tinv fd s hg s' hs' hf
  have hsub : ∀ s' ∈ k.tbl.socks, s'.fd ≠ fd → s'.fd ∈ o → s'.fd ∈ o.filter (· != fd) :=
    fun s' _ hne hx => List.mem_filter.mpr ⟨hx, by simpa using hne⟩
  have hrem : Live { k with tbl := k.tbl.remove fd } (o.filter (· != fd)) :=
    live_remove k fd o _ (fun l hl hf => by rw [huniq l hl hf]; exact hnl) hsub h
  unfold close
  simp only [hg]
  cases htc : s.tcb with
  | none =>
    simp only [hnl]
    exact hrem
  | some tc =>
    simp only []
    split
    · rename_i hcond
      -- linger
      have hst : tc.state ≠ .synRecv := by
        intro hh
        simp [hh] at hcond
      have h1 : Live { k with tbl := k.tbl.modify fd fun s => { s with fdClosed := true } } (o.filter (· != fd)) := by
        refine live_modify k fd (fun s => { s with fdClosed := true }) o _ (fun _ => rfl) (fun _ => rfl)
          (fun _ => rfl) (fun _ _ _ hs => hs) (fun _ _ _ rd hs => ⟨rd, hs, fun y hy => Or.inl hy⟩) hsub
          (fun _ hs => hs) (fun s' hs' _ rd' hrd y hy => h.rinv s' hs' rd' hrd y hy) ?_ h
        intro _ s' hs' hf
        rw [huniq s' hs' hf]
        refine ⟨Or.inr (Or.inl rfl), ?_⟩
        intro hl
        simp [hnl] at hl
      split
      · exact h1
      · refine live_modTcb _ fd _ _ ?_ h1
        intro s' hs' hf tc' htc'
        obtain ⟨x, hx, hxf, rfl⟩ := mem_modify_fd k.tbl fd (fun s => { s with fdClosed := true }) (fun _ => rfl) s' hs' hf
        rw [huniq x hx hxf] at htc'
        simp only [htc, Option.some.injEq] at htc'
        subst htc'
        exact Or.inl hst
    · exact hrem

end Kernel
end TV
