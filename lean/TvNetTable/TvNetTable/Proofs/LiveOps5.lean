/-
  Liveness under the application calls proved so far (`bind`, `TcpListener::bind`, UDP calls).
-/
import TvNetTable.Proofs.LiveOps4

namespace TV
namespace Kernel

theorem live_empty (k : Kernel) (hk : k.tbl = {}) (hf : k.fixReap = true) : Live k [] := by
  refine ⟨by rw [hk]; exact tinv_empty, ?_, ?_, ?_, ?_, hf⟩
  · intro c hc; rw [hk] at hc; simp at hc
  · intro l hl; rw [hk] at hl; simp at hl
  · intro s hs; rw [hk] at hs; simp at hs
  · intro s hs; rw [hk] at hs; simp at hs

/-- `Kernel::bind`: the new socket is owned by the caller; it does not listen yet. -/
theorem live_bind (k : Kernel) (o : List Fd) (ip : Ip) (port : Nat) (tcp : Bool) (k' : Kernel) (fd : Fd)
    (hk : k.bind ip port tcp = .ok (k', fd)) (h : Live k o) :
    Live k' (fd :: o) ∧
    (∀ s ∈ k'.tbl.socks, s.fd = fd → s.listen = none ∧ s.tcb = none ∧ s.tcp = tcp ∧ s.fdClosed = false) := by
  unfold bind at hk
  split at hk
  · simp at hk
  · cases hpt : (if (port == 0) = true then k.tbl.allocatePort ip.v6 tcp else (some port, k.tbl)) with
    | mk port? tbl =>
      rw [hpt] at hk
      have htbl : Live { k with tbl := tbl } o := by
        split at hpt
        · have hh : (k.tbl.allocatePort ip.v6 tcp).2 = tbl := by rw [hpt]
          rw [← hh]
          exact live_congr (k := k) (k' := { k with tbl := (k.tbl.allocatePort ip.v6 tcp).2 }) rfl rfl rfl rfl rfl h
        · simp only [Prod.mk.injEq] at hpt
          rw [← hpt.2]; exact h
      cases port? with
      | none => simp at hk
      | some p =>
        dsimp only at hk
        split at hk
        · simp at hk
        · simp only [Except.ok.injEq, Prod.mk.injEq] at hk
          obtain ⟨rfl, rfl⟩ := hk
          refine ⟨live_newBound { k with tbl := tbl } o _ _ (fun _ => rfl) (fun _ => rfl) htbl, ?_⟩
          intro s hs hfd
          have hs' : s ∈ ({ fd := tbl.nextId, v6 := ip.v6, tcp := tcp, bound := some ⟨ip.v6, tcp, ip, p⟩ } : Sock) :: tbl.socks := hs
          rcases List.mem_cons.mp hs' with rfl | hold
          · exact ⟨rfl, rfl, rfl, rfl⟩
          · exact absurd hfd (fresh_ne tbl htbl.tinv s hold)

/-- `TcpListener::bind` = `bind` + `listen` -/
theorem live_tlisten (k : Kernel) (o : List Fd) (ip : Ip) (port : Nat) (k' : Kernel) (fd : Fd)
    (hk : k.bind ip port true = .ok (k', fd)) (h : Live k o) : Live (k'.listen fd) (fd :: o) := by
  obtain ⟨h', hnew⟩ := live_bind k o ip port true k' fd hk h
  refine live_modify k' fd (fun s => { s with listen := some [] }) (fd :: o) (fd :: o) (fun _ => rfl) (fun _ => rfl)
    (fun _ => rfl) (fun _ _ _ _ => rfl) ?_ (fun _ _ _ hx => hx) (fun _ hs => hs)
    (fun _ _ _ rd' hrd y hy => by simp only [Option.some.injEq] at hrd; rw [← hrd] at hy; simp at hy) ?_ h'
  · intro s hs hfd rd hl
    rw [(hnew s hs hfd).1] at hl
    exact absurd hl (by simp)
  · intro _ s hs hfd
    obtain ⟨_, h2, h3, h4⟩ := hnew s hs hfd
    refine ⟨Or.inl (by show s.fd ∈ fd :: o; rw [hfd]; exact List.mem_cons_self ..), ?_⟩
    intro _
    exact ⟨by show s.fd ∈ fd :: o; rw [hfd]; exact List.mem_cons_self .., h2, h3, h4⟩

theorem live_udpConnect (k : Kernel) (o : List Fd) (fd : Fd) (peer : Ep) (k' : Kernel)
    (hk : k.udpConnect fd peer = .ok k') (h : Live k o) : Live k' o := by
  unfold udpConnect at hk
  split at hk
  · simp at hk
  · split at hk
    · simp at hk
    · simp only [Except.ok.injEq] at hk
      subst hk
      exact live_modify_inert k _ _ o (fun _ => rfl) (fun _ => rfl) (fun _ => rfl) (fun _ => rfl)
        (fun _ => rfl) (fun _ => rfl) (fun _ => rfl) h

theorem live_udpSendTo (k : Kernel) (o : List Fd) (fd : Fd) (dst : Ep) (tag : Nat) (k' : Kernel)
    (hk : k.udpSendTo fd dst tag = .ok k') (h : Live k o) : Live k' o := by
  unfold udpSendTo at hk
  split at hk
  · simp at hk
  · split at hk
    · simp at hk
    · split at hk
      · simp at hk
      · simp only [Except.ok.injEq] at hk
        subst hk
        exact live_emit _ h

theorem live_recvFrom (k : Kernel) (o : List Fd) (fd : Fd) (k' : Kernel) (e : Ep) (tag : Nat)
    (hk : k.recvFrom fd = some (k', e, tag)) (h : Live k o) : Live k' o := by
  unfold recvFrom at hk
  split at hk
  · simp at hk
  · split at hk
    · simp at hk
    · simp only [Option.some.injEq, Prod.mk.injEq] at hk
      obtain ⟨rfl, _⟩ := hk
      exact live_modify_inert k _ _ o (fun _ => rfl) (fun _ => rfl) (fun _ => rfl) (fun _ => rfl)
        (fun _ => rfl) (fun _ => rfl) (fun _ => rfl) h

/-! ### everything the network can do -/

inductive NetEvent
  | deliver (p : Pkt)
  | egress

def NetEvent.apply (k : Kernel) : NetEvent → Kernel
  | .deliver p => k.deliver p
  | .egress => (k.egress []).1

def netRun (k : Kernel) (evs : List NetEvent) : Kernel := evs.foldl NetEvent.apply k

theorem live_netRun (k : Kernel) (o : List Fd) (evs : List NetEvent) (h : Live k o) : Live (netRun k evs) o := by
  induction evs generalizing k with
  | nil => exact h
  | cons ev evs ih =>
    apply ih
    cases ev with
    | deliver p => exact live_deliver _ _ _ h
    | egress => exact live_egress _ _ _ h

end Kernel
end TV
