/-
  The ephemeral-port scan (`PortAllocator::allocate`): with the cursor inside the range it
  returns a free port of the range whenever there is one, `none` exactly when every port of
  the range is in use, never needs more than `hi - lo + 1` probes, and leaves the cursor inside
  the range.
-/
import TvNetTable.Model.Table

namespace TV

/-- second leg of the scan: from `lo` side up to (not including) `start` -/
theorem allocLoop_low (lo hi start : Nat) (inUse : Nat → Bool) (hsh : start ≤ hi) :
    ∀ fuel cur, cur < start → start - cur ≤ fuel →
      (∀ p c, allocLoop lo hi start inUse fuel cur = (some p, c) →
          cur ≤ p ∧ p < start ∧ inUse p = false ∧ c = p + 1) ∧
      (∀ c, allocLoop lo hi start inUse fuel cur = (none, c) →
          (∀ q, cur ≤ q → q < start → inUse q = true) ∧ c = start) := by
  intro fuel
  induction fuel with
  | zero => intro cur h1 h2; omega
  | succ n ih =>
    intro cur hcs hfuel
    have hne : (cur == hi) = false := by simp; omega
    unfold allocLoop
    simp only [hne]
    by_cases hfree : inUse cur = false
    · simp only [hfree, Bool.not_false, ite_true]
      refine ⟨?_, ?_⟩
      · intro p c h
        simp only [Bool.false_eq_true, ite_false, Prod.mk.injEq, Option.some.injEq] at h
        obtain ⟨rfl, rfl⟩ := h
        exact ⟨Nat.le_refl _, hcs, hfree, rfl⟩
      · intro c h; simp at h
    · have hused : inUse cur = true := by simpa using hfree
      simp only [hused, Bool.not_true, Bool.false_eq_true, ite_false]
      by_cases hnext : cur + 1 = start
      · simp only [hnext, beq_self_eq_true, ite_true]
        refine ⟨?_, ?_⟩
        · intro p c h; simp at h
        · intro c h
          simp only [Prod.mk.injEq, true_and] at h
          refine ⟨?_, h.symm⟩
          intro q h1 h2
          have : q = cur := by omega
          rw [this]; exact hused
      · have hb : (cur + 1 == start) = false := by simpa using hnext
        simp only [hb, Bool.false_eq_true, ite_false]
        have := ih (cur + 1) (by omega) (by omega)
        refine ⟨?_, ?_⟩
        · intro p c h
          have := this.1 p c h
          exact ⟨by omega, this.2.1, this.2.2.1, this.2.2.2⟩
        · intro c h
          have := this.2 c h
          refine ⟨?_, this.2⟩
          intro q h1 h2
          by_cases hq : q = cur
          · rw [hq]; exact hused
          · exact this.1 q (by omega) h2

/-- first leg: from the cursor up to `hi`, then wrap to `lo` -/
theorem allocLoop_high (lo hi start : Nat) (inUse : Nat → Bool) (hls : lo ≤ start) (hsh : start ≤ hi) :
    ∀ fuel cur, start ≤ cur → cur ≤ hi → (hi - cur + 1) + (start - lo) ≤ fuel →
      (∀ p c, allocLoop lo hi start inUse fuel cur = (some p, c) →
          lo ≤ p ∧ p ≤ hi ∧ inUse p = false ∧ lo ≤ c ∧ c ≤ hi) ∧
      (∀ c, allocLoop lo hi start inUse fuel cur = (none, c) →
          (∀ q, cur ≤ q → q ≤ hi → inUse q = true) ∧ (∀ q, lo ≤ q → q < start → inUse q = true) ∧ c = start) := by
  intro fuel
  induction fuel with
  | zero => intro cur h1 h2 h3; omega
  | succ n ih =>
    intro cur hsc hch hfuel
    unfold allocLoop
    by_cases hfree : inUse cur = false
    · simp only [hfree, Bool.not_false, ite_true]
      refine ⟨?_, ?_⟩
      · intro p c h
        simp only [Prod.mk.injEq, Option.some.injEq] at h
        obtain ⟨hp, hc⟩ := h
        subst hp
        have hlc : lo ≤ cur := Nat.le_trans hls hsc
        refine ⟨hlc, hch, hfree, ?_, ?_⟩
        · rw [← hc]
          by_cases hh : cur = hi
          · simp [hh]
          · have hb : (cur == hi) = false := by simpa using hh
            simp only [hb, Bool.false_eq_true, ite_false]; omega
        · rw [← hc]
          by_cases hh : cur = hi
          · simp only [hh, beq_self_eq_true, ite_true]; omega
          · have hb : (cur == hi) = false := by simpa using hh
            simp only [hb, Bool.false_eq_true, ite_false]; omega
      · intro c h; simp at h
    · have hused : inUse cur = true := by simpa using hfree
      simp only [hused, Bool.not_true, Bool.false_eq_true, ite_false]
      by_cases hhi : cur = hi
      · subst hhi
        simp only [beq_self_eq_true, ite_true]
        by_cases hlo : lo = start
        · have hb : (lo == start) = true := by simpa using hlo
          simp only [hb, ite_true]
          refine ⟨?_, ?_⟩
          · intro p c h; simp at h
          · intro c h
            simp only [Prod.mk.injEq, true_and] at h
            refine ⟨?_, ?_, by omega⟩
            · intro q h1 h2
              have : q = cur := by omega
              rw [this]; exact hused
            · intro q h1 h2; omega
        · have hb : (lo == start) = false := by simpa using hlo
          simp only [hb, Bool.false_eq_true, ite_false]
          have := allocLoop_low lo cur start inUse hsh n lo (by omega) (by omega)
          refine ⟨?_, ?_⟩
          · intro p c h
            have := this.1 p c h
            exact ⟨this.1, by omega, this.2.2.1, by omega, by omega⟩
          · intro c h
            have := this.2 c h
            refine ⟨?_, this.1, this.2⟩
            intro q h1 h2
            have : q = cur := by omega
            rw [this]; exact hused
      · have hb : (cur == hi) = false := by simpa using hhi
        simp only [hb, Bool.false_eq_true, ite_false]
        have hb2 : (cur + 1 == start) = false := by simp; omega
        simp only [hb2, Bool.false_eq_true, ite_false]
        have := ih (cur + 1) (by omega) (by omega) (by omega)
        refine ⟨this.1, ?_⟩
        intro c h
        have := this.2 c h
        refine ⟨?_, this.2.1, this.2.2⟩
        intro q h1 h2
        by_cases hq : q = cur
        · rw [hq]; exact hused
        · exact this.1 q (by omega) h2

/-- `PortAllocator::allocate` with the cursor inside `[lo, hi]`. -/
theorem allocate_spec (lo hi cursor : Nat) (inUse : Nat → Bool) (h1 : lo ≤ cursor) (h2 : cursor ≤ hi) :
    (∀ p c, allocate lo hi cursor inUse = (some p, c) →
        lo ≤ p ∧ p ≤ hi ∧ inUse p = false ∧ lo ≤ c ∧ c ≤ hi) ∧
    (∀ c, allocate lo hi cursor inUse = (none, c) →
        (∀ q, lo ≤ q → q ≤ hi → inUse q = true) ∧ c = cursor) := by
  unfold allocate
  have := allocLoop_high lo hi cursor inUse h1 h2 (hi - lo + 1) cursor (Nat.le_refl _) h2 (by omega)
  refine ⟨this.1, ?_⟩
  intro c h
  have := this.2 c h
  refine ⟨?_, this.2.2⟩
  intro q hq1 hq2
  by_cases hq : q < cursor
  · exact this.2.1 q hq1 hq
  · exact this.1 q (by omega) hq2

/-- If some port of the range is free the scan finds one. -/
theorem allocate_finds (lo hi cursor : Nat) (inUse : Nat → Bool) (h1 : lo ≤ cursor) (h2 : cursor ≤ hi)
    (q : Nat) (hq1 : lo ≤ q) (hq2 : q ≤ hi) (hfree : inUse q = false) :
    ∃ p c, allocate lo hi cursor inUse = (some p, c) := by
  cases h : allocate lo hi cursor inUse with
  | mk r c =>
    cases r with
    | some p => exact ⟨p, c, rfl⟩
    | none =>
      have := ((allocate_spec lo hi cursor inUse h1 h2).2 c h).1 q hq1 hq2
      rw [this] at hfree
      exact absurd hfree (by simp)

end TV
