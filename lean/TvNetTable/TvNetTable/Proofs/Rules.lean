/-
  Helper lemmas for C19: rule chains and the sorted pending queue.
-/
import TvNetTable.Model.Rules

namespace TV

theorem mem_of_mem_takeWhile' {α : Type} {p : α → Bool} {l : List α} {a : α} (h : a ∈ l.takeWhile p) : a ∈ l :=
  (List.takeWhile_sublist p).subset h

theorem mem_of_mem_dropWhile' {α : Type} {p : α → Bool} {l : List α} {a : α} (h : a ∈ l.dropWhile p) : a ∈ l :=
  (List.dropWhile_sublist p).subset h

/-- First verdict that is not `Pass` (`Pass` if there is none). -/
def firstNonPass : List Verdict → Verdict
  | [] => .pass
  | .pass :: vs => firstNonPass vs
  | v :: _ => v

namespace Chain
variable {P : Type}

theorem evalLog_verdict (rs : List (Rule P)) (p : P) :
    (evalLog rs p).2 = firstNonPass (rs.map (·.f p)) := by
  induction rs with
  | nil => rfl
  | cons r rs ih =>
    simp only [evalLog, List.map_cons]
    cases h : r.f p <;> simp [firstNonPass, ih]

/-- Rules consulted: every leading rule that says `Pass`, then the first one that does not. -/
def consulted (rs : List (Rule P)) (p : P) : List (Nat × Verdict) :=
  let pre := rs.takeWhile fun r => r.f p = .pass
  match rs.dropWhile fun r => r.f p = .pass with
  | [] => pre.map fun r => (r.id, .pass)
  | r :: _ => (pre.map fun r => (r.id, .pass)) ++ [(r.id, r.f p)]

theorem evalLog_log (rs : List (Rule P)) (p : P) : (evalLog rs p).1 = consulted rs p := by
  induction rs with
  | nil => rfl
  | cons r rs ih =>
    unfold consulted at ih ⊢
    simp only [evalLog]
    cases h : r.f p with
    | pass =>
      simp only [h, List.takeWhile_cons, List.dropWhile_cons, decide_true, ite_true, ih]
      cases hd : List.dropWhile (fun r => decide (r.f p = Verdict.pass)) rs <;> simp
    | drop => simp [h]
    | deliver d => simp [h]

/-- Well-formed chain: ids are distinct and below the counter. -/
def WF (c : Chain P) : Prop :=
  (c.rules.map (·.id)).Nodup ∧ ∀ r ∈ c.rules, r.id < c.nextId

theorem wf_empty : WF ({} : Chain P) := by
  constructor <;> simp

theorem wf_install (c : Chain P) (f : P → Verdict) (h : WF c) : WF (c.install f).1 := by
  obtain ⟨hn, hlt⟩ := h
  constructor
  · simp only [install, List.map_append, List.map_cons, List.map_nil]
    rw [List.nodup_append]
    refine ⟨hn, by simp, ?_⟩
    intro a ha b hb
    simp only [List.mem_map] at ha
    obtain ⟨r, hr, rfl⟩ := ha
    simp only [List.mem_singleton] at hb
    have := hlt r hr
    omega
  · intro r hr
    simp only [install, List.mem_append, List.mem_singleton] at hr
    rcases hr with hr | rfl
    · have := hlt r hr; simp only [install]; omega
    · simp [install]

theorem wf_uninstall (c : Chain P) (id : Nat) (h : WF c) : WF (c.uninstall id) := by
  obtain ⟨hn, hlt⟩ := h
  constructor
  · simp only [uninstall]
    exact (List.Sublist.map _ List.filter_sublist).nodup hn
  · intro r hr
    simp only [uninstall, List.mem_filter] at hr
    exact hlt r hr.1

end Chain

/-! ### Sorted pending queue -/

variable {P : Type}

def Sorted (l : List (Scheduled P)) : Prop := l.Pairwise Scheduled.lt

theorem mem_insertSorted (e a : Scheduled P) (l : List (Scheduled P)) :
    a ∈ insertSorted e l ↔ a = e ∨ a ∈ l := by
  induction l with
  | nil => simp [insertSorted]
  | cons x xs ih =>
    simp only [insertSorted]
    split
    · simp
    · simp only [List.mem_cons, ih]
      constructor
      · rintro (h | h | h) <;> simp [h]
      · rintro (h | h | h) <;> simp [h]

theorem lt_trans' {a b c : Scheduled P} (h1 : a.lt b) (h2 : b.lt c) : a.lt c := by
  unfold Scheduled.lt at *
  omega

theorem sorted_insertSorted (e : Scheduled P) (l : List (Scheduled P)) (hs : Sorted l)
    (hseq : ∀ x ∈ l, x.seq < e.seq) : Sorted (insertSorted e l) := by
  induction l with
  | nil => simp [insertSorted, Sorted]
  | cons x xs ih =>
    unfold Sorted at hs ⊢
    rw [List.pairwise_cons] at hs
    simp only [insertSorted]
    split
    · rename_i hlt
      rw [List.pairwise_cons]
      refine ⟨?_, List.pairwise_cons.mpr hs⟩
      intro a ha
      rcases List.mem_cons.mp ha with rfl | ha
      · exact hlt
      · exact lt_trans' hlt (hs.1 a ha)
    · rename_i hnlt
      rw [List.pairwise_cons]
      have hx : x.lt e := by
        have := hseq x (List.mem_cons_self ..)
        unfold Scheduled.lt at hnlt ⊢
        omega
      refine ⟨?_, ih hs.2 (fun y hy => hseq y (List.mem_cons_of_mem _ hy))⟩
      intro a ha
      rcases (mem_insertSorted e a xs).mp ha with rfl | ha
      · exact hx
      · exact hs.1 a ha

/-- On a sorted queue the ready prefix is exactly the entries that are due. -/
theorem mem_takeWhile_sorted (now : Nat) (l : List (Scheduled P)) (hs : Sorted l) (e : Scheduled P) :
    e ∈ l.takeWhile (·.deliverAt ≤ now) ↔ e ∈ l ∧ e.deliverAt ≤ now := by
  induction l with
  | nil => simp
  | cons x xs ih =>
    unfold Sorted at hs
    rw [List.pairwise_cons] at hs
    rw [List.takeWhile_cons]
    by_cases hx : x.deliverAt ≤ now
    · simp only [hx, decide_true, ite_true, List.mem_cons, ih hs.2]
      constructor
      · rintro (rfl | ⟨h1, h2⟩)
        · exact ⟨Or.inl rfl, hx⟩
        · exact ⟨Or.inr h1, h2⟩
      · rintro ⟨rfl | h1, h2⟩
        · exact Or.inl rfl
        · exact Or.inr ⟨h1, h2⟩
    · simp only [hx, decide_false, List.mem_cons]
      constructor
      · intro h; simp at h
      · rintro ⟨rfl | h1, h2⟩
        · exact absurd h2 hx
        · have := hs.1 e h1
          unfold Scheduled.lt at this
          omega

theorem mem_dropWhile_sorted (now : Nat) (l : List (Scheduled P)) (hs : Sorted l) (e : Scheduled P) :
    e ∈ l.dropWhile (·.deliverAt ≤ now) ↔ e ∈ l ∧ now < e.deliverAt := by
  induction l with
  | nil => simp
  | cons x xs ih =>
    unfold Sorted at hs
    rw [List.pairwise_cons] at hs
    rw [List.dropWhile_cons]
    by_cases hx : x.deliverAt ≤ now
    · simp only [hx, decide_true, ite_true, List.mem_cons, ih hs.2]
      constructor
      · rintro ⟨h1, h2⟩; exact ⟨Or.inr h1, h2⟩
      · rintro ⟨rfl | h1, h2⟩
        · omega
        · exact ⟨h1, h2⟩
    · simp only [hx, decide_false]
      constructor
      · intro h
        have h' : e ∈ x :: xs := by simpa using h
        rcases List.mem_cons.mp h' with heq | h
        · subst heq
          exact ⟨List.mem_cons_self .., by omega⟩
        · refine ⟨List.mem_cons_of_mem _ h, ?_⟩
          have := hs.1 e h
          unfold Scheduled.lt at this
          omega
      · rintro ⟨h, _⟩
        simpa using h

theorem sorted_takeWhile (now : Nat) (l : List (Scheduled P)) (hs : Sorted l) :
    Sorted (l.takeWhile (·.deliverAt ≤ now)) :=
  List.Pairwise.sublist (List.takeWhile_sublist _) hs

theorem sorted_dropWhile (now : Nat) (l : List (Scheduled P)) (hs : Sorted l) :
    Sorted (l.dropWhile (·.deliverAt ≤ now)) :=
  List.Pairwise.sublist (List.dropWhile_sublist _) hs

/-! ### additions: logged ids, fresh ids -/

namespace Chain
variable {P : Type}

/-- Every id in the consulted log is the id of a rule of the chain. -/
theorem evalLog_ids (rs : List (Rule P)) (p : P) :
    ∀ e ∈ (evalLog rs p).1, ∃ r ∈ rs, r.id = e.1 := by
  induction rs with
  | nil => simp [evalLog]
  | cons r rs ih =>
    intro e he
    simp only [evalLog] at he
    cases h : r.f p with
    | pass =>
      simp only [h, List.mem_cons] at he
      rcases he with rfl | he
      · exact ⟨r, List.mem_cons_self .., rfl⟩
      · obtain ⟨r2, hr2, h2⟩ := ih e he
        exact ⟨r2, List.mem_cons_of_mem _ hr2, h2⟩
    | drop =>
      simp only [h, List.mem_singleton] at he
      subst he
      exact ⟨r, List.mem_cons_self .., rfl⟩
    | deliver d =>
      simp only [h, List.mem_singleton] at he
      subst he
      exact ⟨r, List.mem_cons_self .., rfl⟩

/-- The id handed out by `install` is below the new counter. -/
theorem install_id_lt_nextId (c : Chain P) (f : P → Verdict) : (c.install f).2 < (c.install f).1.nextId := by
  simp [install]

/-- The counter never decreases. -/
theorem install_nextId (c : Chain P) (f : P → Verdict) : (c.install f).1.nextId = c.nextId + 1 := rfl

theorem uninstall_nextId (c : Chain P) (id : Nat) : (c.uninstall id).nextId = c.nextId := rfl

end Chain

end TV
