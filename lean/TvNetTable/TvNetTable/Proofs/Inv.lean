/-
  The index invariant of the socket table: every `bindings` entry is non-empty and points to
  sockets of the table that are bound to exactly that key, every bound socket is listed under
  its key, keys are distinct, fds are unique and below the counter.  Preserved by every table
  primitive and (Proofs/InvKernel.lean) by every kernel operation.
-/
import TvNetTable.Proofs.TableLemmas

namespace TV

structure TInv (t : Table) : Prop where
  nonempty : ∀ e ∈ t.bindings, e.2 ≠ []
  sound : ∀ e ∈ t.bindings, ∀ fd ∈ e.2, ∃ s ∈ t.socks, s.fd = fd ∧ s.bound = some e.1
  complete : ∀ s ∈ t.socks, ∀ key, s.bound = some key → ∃ e ∈ t.bindings, e.1 = key ∧ s.fd ∈ e.2
  fresh : ∀ s ∈ t.socks, s.fd < t.nextId
  uniq : ∀ s ∈ t.socks, ∀ s' ∈ t.socks, s.fd = s'.fd → s = s'
  keys : (t.bindings.map (·.1)).Nodup

theorem tinv_empty : TInv ({} : Table) :=
  ⟨by simp, by simp, by simp, by simp, by simp, by simp⟩

/-- Only `bindings`, `socks` and `nextId` matter. -/
theorem tinv_congr {t t' : Table} (hb : t'.bindings = t.bindings) (hs : t'.socks = t.socks)
    (hn : t'.nextId = t.nextId) (h : TInv t) : TInv t' := by
  refine ⟨?_, ?_, ?_, ?_, ?_, ?_⟩
  · rw [hb]; exact h.nonempty
  · rw [hb, hs]; exact h.sound
  · rw [hb, hs]; exact h.complete
  · rw [hs, hn]; exact h.fresh
  · rw [hs]; exact h.uniq
  · rw [hb]; exact h.keys

namespace Table

/-- the per-socket function `modify` applies -/
def modFn (fd : Fd) (f : Sock → Sock) (s : Sock) : Sock := if s.fd == fd then f s else s

theorem modify_socks (t : Table) (fd : Fd) (f : Sock → Sock) :
    (t.modify fd f).socks = t.socks.map (modFn fd f) := rfl

theorem modFn_fd (fd : Fd) (f : Sock → Sock) (hfd : ∀ s, (f s).fd = s.fd) (s : Sock) :
    (modFn fd f s).fd = s.fd := by
  unfold modFn; split <;> simp [hfd]

theorem modFn_ne (fd : Fd) (f : Sock → Sock) (s : Sock) (h : s.fd ≠ fd) : modFn fd f s = s := by
  unfold modFn
  have : (s.fd == fd) = false := by simpa using h
  simp [this]

theorem modFn_eq (fd : Fd) (f : Sock → Sock) (s : Sock) (h : s.fd = fd) : modFn fd f s = f s := by
  unfold modFn
  have : (s.fd == fd) = true := by simpa using h
  simp [this]

end Table

open Table in
/-- `modify` with a function that keeps `fd` and `bound`. -/
theorem tinv_modify (t : Table) (fd : Fd) (f : Sock → Sock) (hfd : ∀ s, (f s).fd = s.fd)
    (hb : ∀ s, (f s).bound = s.bound) (h : TInv t) : TInv (t.modify fd f) := by
  have hgfd := modFn_fd fd f hfd
  have hgb : ∀ s, (modFn fd f s).bound = s.bound := by
    intro s; unfold modFn; split <;> simp [hb]
  refine ⟨h.nonempty, ?_, ?_, ?_, ?_, h.keys⟩
  · intro e he x hx
    obtain ⟨s, hs, h1, h2⟩ := h.sound e he x hx
    exact ⟨modFn fd f s, List.mem_map_of_mem hs, by rw [hgfd, h1], by rw [hgb, h2]⟩
  · intro s' hs' key hk
    rw [modify_socks, List.mem_map] at hs'
    obtain ⟨s, hs, rfl⟩ := hs'
    rw [hgb] at hk
    obtain ⟨e, he, h1, h2⟩ := h.complete s hs key hk
    exact ⟨e, he, h1, by rw [hgfd]; exact h2⟩
  · intro s' hs'
    rw [modify_socks, List.mem_map] at hs'
    obtain ⟨s, hs, rfl⟩ := hs'
    rw [hgfd]; exact h.fresh s hs
  · intro s1 h1 s2 h2 heq
    rw [modify_socks, List.mem_map] at h1 h2
    obtain ⟨a, ha, rfl⟩ := h1
    obtain ⟨b, hb', rfl⟩ := h2
    rw [hgfd, hgfd] at heq
    rw [h.uniq a ha b hb' heq]

theorem keys_filterMap_sublist (bs : List (BindKey × List Fd)) (g : List Fd → List Fd) :
    ((bs.filterMap fun (e : BindKey × List Fd) =>
        if (g e.2).isEmpty then none else some (e.1, g e.2)).map (·.1)).Sublist (bs.map (·.1)) := by
  induction bs with
  | nil => simp
  | cons b bs ih =>
    simp only [List.filterMap_cons, List.map_cons]
    split
    · exact List.Sublist.cons _ ih
    · rename_i hsome
      split at hsome
      · simp at hsome
      · simp only [Option.some.injEq] at hsome
        subst hsome
        exact List.Sublist.cons_cons _ ih

theorem mem_remove_bindings (t : Table) (fd : Fd) (e' : BindKey × List Fd) :
    e' ∈ (t.remove fd).bindings ↔
      ∃ e ∈ t.bindings, e.2.filter (· != fd) ≠ [] ∧ e' = (e.1, e.2.filter (· != fd)) := by
  simp only [Table.remove, List.mem_filterMap]
  constructor
  · rintro ⟨⟨k, fds⟩, hin, hsome⟩
    simp only at hsome
    split at hsome
    · simp at hsome
    · rename_i hne
      simp only [Option.some.injEq] at hsome
      exact ⟨(k, fds), hin, by simpa using hne, hsome.symm⟩
  · rintro ⟨⟨k, fds⟩, hin, hne, rfl⟩
    refine ⟨(k, fds), hin, ?_⟩
    simp only
    split
    · rename_i hemp
      exact absurd (by simpa using hemp) hne
    · rfl

/-- `remove`. -/
theorem tinv_remove (t : Table) (fd : Fd) (h : TInv t) : TInv (t.remove fd) := by
  have hsocks : (t.remove fd).socks = t.socks.filter (·.fd != fd) := rfl
  refine ⟨?_, ?_, ?_, ?_, ?_, ?_⟩
  · intro e' he'
    obtain ⟨e, _, hne, rfl⟩ := (mem_remove_bindings t fd e').mp he'
    exact hne
  · intro e' he' x hx
    obtain ⟨e, he, _, rfl⟩ := (mem_remove_bindings t fd e').mp he'
    simp only [List.mem_filter] at hx
    obtain ⟨s, hs, h1, h2⟩ := h.sound e he x hx.1
    refine ⟨s, ?_, h1, h2⟩
    rw [hsocks, List.mem_filter]
    exact ⟨hs, by rw [h1]; exact hx.2⟩
  · intro s hs key hk
    rw [hsocks, List.mem_filter] at hs
    obtain ⟨e, he, h1, h2⟩ := h.complete s hs.1 key hk
    have hmem : s.fd ∈ e.2.filter (· != fd) := List.mem_filter.mpr ⟨h2, hs.2⟩
    refine ⟨(e.1, e.2.filter (· != fd)), ?_, h1, hmem⟩
    exact (mem_remove_bindings t fd _).mpr ⟨e, he, List.ne_nil_of_mem hmem, rfl⟩
  · intro s hs
    rw [hsocks, List.mem_filter] at hs
    exact h.fresh s hs.1
  · intro s hs s' hs' heq
    rw [hsocks, List.mem_filter] at hs hs'
    exact h.uniq s hs.1 s' hs'.1 heq
  · have := keys_filterMap_sublist t.bindings (fun fds => fds.filter (· != fd))
    exact this.nodup h.keys

/-- `insertWith` of an unbound socket. -/
theorem tinv_insertWith (t : Table) (mk : Fd → Sock) (hmk : ∀ n, (mk n).bound = none) (h : TInv t) :
    TInv (t.insertWith mk).1 := by
  refine ⟨h.nonempty, ?_, ?_, ?_, ?_, h.keys⟩
  · intro e he x hx
    obtain ⟨s, hs, h1, h2⟩ := h.sound e he x hx
    exact ⟨s, List.mem_cons_of_mem _ hs, h1, h2⟩
  · intro s hs key hk
    simp only [Table.insertWith, List.mem_cons] at hs
    rcases hs with rfl | hs
    · simp [hmk] at hk
    · exact h.complete s hs key hk
  · intro s hs
    simp only [Table.insertWith, List.mem_cons] at hs ⊢
    rcases hs with rfl | hs
    · exact Nat.lt_succ_self _
    · exact Nat.lt_succ_of_lt (h.fresh s hs)
  · intro s hs s' hs' heq
    simp only [Table.insertWith, List.mem_cons] at hs hs'
    rcases hs with rfl | hs <;> rcases hs' with rfl | hs'
    · rfl
    · have := h.fresh s' hs'
      have heq' : t.nextId = s'.fd := heq
      rw [← heq'] at this
      exact absurd this (Nat.lt_irrefl _)
    · have := h.fresh s hs
      have heq' : s.fd = t.nextId := heq
      rw [heq'] at this
      exact absurd this (Nat.lt_irrefl _)
    · exact h.uniq s hs s' hs' heq

theorem mem_insertBindingL (bs : List (BindKey × List Fd)) (k : BindKey) (fd : Fd)
    (e' : BindKey × List Fd) :
    e' ∈ Table.insertBindingL bs k fd ↔
      (e' = (k, [fd]) ∧ ∀ e ∈ bs, e.1 ≠ k) ∨
      (∃ e ∈ bs, e.1 = k ∧ e' = (e.1, e.2 ++ [fd])) ∨
      (e' ∈ bs ∧ ((∃ e ∈ bs, e.1 = k) → e'.1 ≠ k)) := by
  unfold Table.insertBindingL
  by_cases hany : bs.any (·.1 == k) = true
  · simp only [hany, ite_true, List.mem_map]
    have hex : ∃ e ∈ bs, e.1 = k := by
      simp only [List.any_eq_true] at hany
      obtain ⟨e, he, h⟩ := hany
      exact ⟨e, he, by simpa using h⟩
    constructor
    · rintro ⟨⟨k0, fds⟩, hin, rfl⟩
      by_cases hk : k0 = k
      · right; left
        exact ⟨(k0, fds), hin, hk, by simp [hk]⟩
      · right; right
        have : (k0 == k) = false := by simpa using hk
        simp only [this]
        exact ⟨hin, fun _ => hk⟩
    · rintro (⟨_, hno⟩ | ⟨e, he, hk, rfl⟩ | ⟨hin, hne⟩)
      · obtain ⟨e, he, hk⟩ := hex
        exact absurd hk (hno e he)
      · exact ⟨e, he, by simp [hk]⟩
      · refine ⟨e', hin, ?_⟩
        have : (e'.1 == k) = false := by simpa using hne hex
        simp [this]
  · have hno : ∀ e ∈ bs, e.1 ≠ k := by
      intro e he hk
      apply hany
      simp only [List.any_eq_true]
      exact ⟨e, he, by simpa using hk⟩
    have hf : bs.any (·.1 == k) = false := by
      rw [List.any_eq_false]
      intro e he hk
      exact hno e he (by simpa using hk)
    simp only [hf, Bool.false_eq_true, ite_false, List.mem_cons]
    constructor
    · rintro (rfl | hin)
      · exact Or.inl ⟨rfl, hno⟩
      · exact Or.inr (Or.inr ⟨hin, fun ⟨e, he, hk⟩ => absurd hk (hno e he)⟩)
    · rintro (⟨rfl, _⟩ | ⟨e, he, hk, _⟩ | ⟨hin, _⟩)
      · exact Or.inl rfl
      · exact absurd hk (hno e he)
      · exact Or.inr hin

theorem keys_insertBindingL (bs : List (BindKey × List Fd)) (k : BindKey) (fd : Fd)
    (h : (bs.map (·.1)).Nodup) : ((Table.insertBindingL bs k fd).map (·.1)).Nodup := by
  unfold Table.insertBindingL
  split
  · have : (bs.map fun (x : BindKey × List Fd) => if x.1 == k then (x.1, x.2 ++ [fd]) else (x.1, x.2)).map (·.1)
        = bs.map (·.1) := by
      rw [List.map_map]
      apply List.map_congr_left
      intro x _
      simp only [Function.comp]
      split <;> rfl
    rw [this]; exact h
  · rename_i hany
    simp only [List.map_cons, List.nodup_cons]
    refine ⟨?_, h⟩
    intro hmem
    apply hany
    simp only [List.mem_map] at hmem
    obtain ⟨e, he, hk⟩ := hmem
    simp only [List.any_eq_true]
    exact ⟨e, he, by simpa using hk⟩

/-- old entries survive `insertBinding` with at least their old fds -/
theorem insertBindingL_mono (bs : List (BindKey × List Fd)) (k : BindKey) (fd : Fd)
    (e : BindKey × List Fd) (he : e ∈ bs) :
    ∃ e' ∈ Table.insertBindingL bs k fd, e'.1 = e.1 ∧ ∀ x ∈ e.2, x ∈ e'.2 := by
  by_cases hk : e.1 = k
  · exact ⟨(e.1, e.2 ++ [fd]), (mem_insertBindingL bs k fd _).mpr (Or.inr (Or.inl ⟨e, he, hk, rfl⟩)), rfl,
      fun x hx => List.mem_append_left _ hx⟩
  · exact ⟨e, (mem_insertBindingL bs k fd _).mpr (Or.inr (Or.inr ⟨he, fun _ => hk⟩)), rfl, fun x hx => hx⟩

/-- the new fd is listed under its key after `insertBinding` -/
theorem insertBindingL_has (bs : List (BindKey × List Fd)) (k : BindKey) (fd : Fd) :
    ∃ e' ∈ Table.insertBindingL bs k fd, e'.1 = k ∧ fd ∈ e'.2 := by
  by_cases hex : ∃ e ∈ bs, e.1 = k
  · obtain ⟨e, he, hk⟩ := hex
    exact ⟨(e.1, e.2 ++ [fd]), (mem_insertBindingL bs k fd _).mpr (Or.inr (Or.inl ⟨e, he, hk, rfl⟩)), hk, by simp⟩
  · have hno : ∀ e ∈ bs, e.1 ≠ k := fun e he hk => hex ⟨e, he, hk⟩
    exact ⟨(k, [fd]), (mem_insertBindingL bs k fd _).mpr (Or.inl ⟨rfl, hno⟩), rfl, by simp⟩

open Table in
/-- Binding an existing, so far unbound socket: `insertBinding key fd` followed by a `modify`
    that records `bound := some key` (the shape of `auto_bind` and `accept_syn`). -/
theorem tinv_bindFd (t : Table) (fd : Fd) (key : BindKey) (f : Sock → Sock)
    (hfd : ∀ s, (f s).fd = s.fd) (hb : ∀ s, (f s).bound = some key)
    (s0 : Sock) (hs0 : s0 ∈ t.socks) (hs0fd : s0.fd = fd) (hs0b : s0.bound = none) (h : TInv t) :
    TInv ((t.insertBinding key fd).modify fd f) := by
  have hgfd := modFn_fd fd f hfd
  have hsocks : ((t.insertBinding key fd).modify fd f).socks = t.socks.map (modFn fd f) := rfl
  have hbind : ((t.insertBinding key fd).modify fd f).bindings = insertBindingL t.bindings key fd := rfl
  -- fd is in no old binding list
  have hnot : ∀ e ∈ t.bindings, fd ∉ e.2 := by
    intro e he hmem
    obtain ⟨s, hs, h1, h2⟩ := h.sound e he fd hmem
    have := h.uniq s hs s0 hs0 (by rw [h1, hs0fd])
    rw [this, hs0b] at h2
    exact absurd h2 (by simp)
  refine ⟨?_, ?_, ?_, ?_, ?_, ?_⟩
  · intro e' he'
    rw [hbind] at he'
    rcases (mem_insertBindingL _ _ _ _).mp he' with ⟨rfl, _⟩ | ⟨e, _, _, rfl⟩ | ⟨hin, _⟩
    · simp
    · simp
    · exact h.nonempty e' hin
  · intro e' he' x hx
    rw [hbind] at he'
    have hnew : e'.1 = key → x = fd → ∃ s ∈ ((t.insertBinding key fd).modify fd f).socks, s.fd = x ∧ s.bound = some e'.1 := by
      intro hk hx'
      refine ⟨modFn fd f s0, ?_, ?_, ?_⟩
      · rw [hsocks]; exact List.mem_map_of_mem hs0
      · rw [hgfd, hs0fd, hx']
      · rw [modFn_eq fd f s0 hs0fd, hb, hk]
    have hold : ∀ e ∈ t.bindings, e.1 = e'.1 → x ∈ e.2 →
        ∃ s ∈ ((t.insertBinding key fd).modify fd f).socks, s.fd = x ∧ s.bound = some e'.1 := by
      intro e he hk hxe
      obtain ⟨s, hs, h1, h2⟩ := h.sound e he x hxe
      have hne : s.fd ≠ fd := by
        intro hh
        apply hnot e he
        rw [← hh, h1]; exact hxe
      refine ⟨s, ?_, h1, by rw [h2, hk]⟩
      rw [hsocks]
      have := List.mem_map_of_mem (f := modFn fd f) hs
      rwa [modFn_ne fd f s hne] at this
    rcases (mem_insertBindingL _ _ _ _).mp he' with ⟨rfl, _⟩ | ⟨e, he, hk, rfl⟩ | ⟨hin, _⟩
    · simp only [List.mem_singleton] at hx
      exact hnew rfl hx
    · simp only [List.mem_append, List.mem_singleton] at hx
      rcases hx with hx | hx
      · exact hold e he rfl hx
      · exact hnew hk hx
    · exact hold e' hin rfl hx
  · intro s' hs' k' hk'
    rw [hsocks, List.mem_map] at hs'
    obtain ⟨s, hs, rfl⟩ := hs'
    rw [hbind]
    by_cases hsf : s.fd = fd
    · rw [modFn_eq fd f s hsf, hb] at hk'
      simp only [Option.some.injEq] at hk'
      subst hk'
      obtain ⟨e', he', h1, h2⟩ := insertBindingL_has t.bindings key fd
      exact ⟨e', he', h1, by rw [hgfd, hsf]; exact h2⟩
    · rw [modFn_ne fd f s hsf] at hk' ⊢
      obtain ⟨e, he, h1, h2⟩ := h.complete s hs k' hk'
      obtain ⟨e', he', h1', h2'⟩ := insertBindingL_mono t.bindings key fd e he
      exact ⟨e', he', by rw [h1', h1], h2' _ h2⟩
  · intro s' hs'
    rw [hsocks, List.mem_map] at hs'
    obtain ⟨s, hs, rfl⟩ := hs'
    rw [hgfd]; exact h.fresh s hs
  · intro s1 h1 s2 h2 heq
    rw [hsocks, List.mem_map] at h1 h2
    obtain ⟨a, ha, rfl⟩ := h1
    obtain ⟨b, hb', rfl⟩ := h2
    rw [hgfd, hgfd] at heq
    rw [h.uniq a ha b hb' heq]
  · rw [hbind]; exact keys_insertBindingL _ _ _ h.keys

/-- `socket + bind` in one go (the shape of `Kernel::bind`): a fresh socket already bound to
    `key`, then `insertBinding key`. -/
theorem tinv_bindNew (t : Table) (key : BindKey) (mk : Fd → Sock) (hmk : ∀ n, (mk n).bound = some key)
    (h : TInv t) : TInv ((t.insertWith mk).1.insertBinding key t.nextId) := by
  -- the same table, built as: insert unbound, insertBinding, modify
  let mk' : Fd → Sock := fun n => { mk n with bound := none }
  let f : Sock → Sock := fun s => { s with bound := some key }
  have h1 := tinv_insertWith t mk' (fun _ => rfl) h
  have h2 := tinv_bindFd (t.insertWith mk').1 t.nextId key f (fun _ => rfl) (fun _ => rfl)
    { mk' t.nextId with fd := t.nextId } (by simp [Table.insertWith]) rfl rfl h1
  refine tinv_congr (t := ((t.insertWith mk').1.insertBinding key t.nextId).modify t.nextId f) rfl ?_ rfl h2
  show ({ mk t.nextId with fd := t.nextId } :: t.socks) =
    (({ mk' t.nextId with fd := t.nextId } : Sock) :: t.socks).map (Table.modFn t.nextId f)
  rw [List.map_cons]
  congr 1
  · have hb := hmk t.nextId
    simp only [Table.modFn, beq_self_eq_true, ite_true]
    simp [f, mk', hb]
  · symm
    rw [List.map_congr_left (g := id)]
    · simp
    · intro s hs
      exact Table.modFn_ne _ _ _ (Nat.ne_of_lt (h.fresh s hs))

end TV
